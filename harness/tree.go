package main

import (
	"fmt"
	"net/http"
	"os"
	"path/filepath"
	"runtime"
	"strconv"
	"strings"
	"sync"

	textwire "github.com/textwire/textwire/v2"
	"github.com/textwire/textwire/v2/config"
)

// caseTree: fields = fs, ops
//
//	fs  : hex of ((pathhex kind contenthex) ...)   kind in file|dir|dangling|unreadable
//	ops : hex of (op ...) with
//	      (new dirhex exthex errpagehex debug01)   "-" = empty string = keep current
//	      (newnil)
//	      (string namehex DATA) (response namehex DATA)
//	      (evalstr srchex DATA) (evalfile relpathhex DATA)
//	      (reg type namehex fnid)
//	      (snap)
//
// The package state is reset (verif hook) before the history starts. The case
// runs inside a fresh temp directory, which is the process's cwd meanwhile.
func caseTree(f []string) string {
	if len(f) < 2 {
		return "HARNESS-ERROR\ttree needs fs and ops"
	}
	fsd, err := parseSx(unhex(f[0]))
	if err != nil {
		return "HARNESS-ERROR\t" + err.Error()
	}
	ops, err := parseSx(unhex(f[1]))
	if err != nil {
		return "HARNESS-ERROR\t" + err.Error()
	}

	base := os.Getenv("VERIF_TMP")
	if base == "" {
		base = os.TempDir()
	}
	root, err := os.MkdirTemp(base, "twcase-")
	if err != nil {
		return "HARNESS-ERROR\t" + err.Error()
	}
	root, _ = filepath.EvalSymlinks(root)
	defer func() {
		filepath.Walk(root, func(p string, info os.FileInfo, err error) error {
			if err == nil {
				os.Chmod(p, 0o700)
			}
			return nil
		})
		os.RemoveAll(root)
	}()

	for _, e := range fsd.list {
		p := filepath.Join(root, unhex(e.list[0].atom))
		kind := e.list[1].atom
		content := ""
		if len(e.list) > 2 {
			content = unhex(e.list[2].atom)
		}
		os.MkdirAll(filepath.Dir(p), 0o755)
		switch kind {
		case "file":
			if err := os.WriteFile(p, []byte(content), 0o644); err != nil {
				return "HARNESS-ERROR\t" + err.Error()
			}
		case "dir":
			os.MkdirAll(p, 0o755)
		case "dangling":
			os.Symlink(filepath.Join(root, "no-such-target"), p)
		case "unreadable":
			os.WriteFile(p, []byte(content), 0o000)
		}
	}

	old, _ := os.Getwd()
	if err := os.Chdir(root); err != nil {
		return "HARNESS-ERROR\t" + err.Error()
	}
	defer os.Chdir(old)

	textwire.VerifReset()

	strip := func(s string) string { return strings.ReplaceAll(s, root, "$ROOT") }

	var tpl *textwire.Template
	var obs []string

	for _, op := range ops.list {
		obs = append(obs, runOp(op, &tpl, strip))
	}

	return "TREE\t" + strings.Join(obs, "|")
}

type respWriter struct {
	body   strings.Builder
	header http.Header
	code   int
}

func (r *respWriter) Header() http.Header {
	if r.header == nil {
		r.header = http.Header{}
	}
	return r.header
}
func (r *respWriter) Write(b []byte) (int, error) { return r.body.Write(b) }
func (r *respWriter) WriteHeader(c int)           { r.code = c }

func runOp(op *sx, tpl **textwire.Template, strip func(string) string) (res string) {
	defer func() {
		if r := recover(); r != nil {
			res = "PANIC " + hx(fmt.Sprint(r))
		}
	}()

	errStr := func(e error) string {
		line, path, msg := splitErr(e.Error())
		return fmt.Sprintf("ERR %s %s %s", line, hx(strip(path)), hx(strip(msg)))
	}

	name := op.list[0].atom
	a := op.list[1:]
	arg := func(i int) string {
		return unhex(a[i].atom)
	}
	data := func(i int) map[string]any {
		if i >= len(a) {
			return nil
		}
		if !a[i].isL {
			return nil
		}
		m := map[string]any{}
		for _, p := range a[i].list {
			v, err := buildVal(p.list[1])
			if err != nil {
				panic("harness: " + err.Error())
			}
			m[unhex(p.list[0].atom)] = v
		}
		return m
	}

	switch name {
	case "new":
		cfg := &config.Config{
			TemplateDir:   arg(0),
			TemplateExt:   arg(1),
			ErrorPagePath: arg(2),
			DebugMode:     a[3].atom == "1",
		}
		t, err := textwire.NewTemplate(cfg)
		if err != nil {
			if t != nil {
				return "NEWBOTH " + errStr(err)
			}
			*tpl = nil
			return errStr(err)
		}
		*tpl = t
		names := t.VerifProgramNames()
		hs := make([]string, len(names))
		for i, n := range names {
			hs[i] = hx(n)
		}
		return "OK " + strings.Join(hs, ",")
	case "configure":
		// the package-level configuration changes, the loaded templates stay
		textwire.Configure(&config.Config{
			TemplateDir:   arg(0),
			TemplateExt:   arg(1),
			ErrorPagePath: arg(2),
			DebugMode:     a[3].atom == "1",
		})
		return "OK"
	case "newnil":
		t, err := textwire.NewTemplate(nil)
		if err != nil {
			*tpl = nil
			return errStr(err)
		}
		*tpl = t
		return "OK"
	case "string":
		if *tpl == nil {
			return "NOTPL"
		}
		d := data(1)
		snap := deepSnapshot(d)
		out, ferr := (*tpl).String(arg(0), d)
		mut := ""
		if deepSnapshot(d) != snap {
			mut = " DATA-MUTATED"
		}
		if ferr != nil {
			return fmt.Sprintf("ERR %d %s %s", ferr.Line(), hx(strip(ferr.Filepath())), hx(strip(ferr.Message()))) + mut
		}
		return "OK " + hx(out) + mut
	case "response":
		if *tpl == nil {
			return "NOTPL"
		}
		w := &respWriter{}
		err := (*tpl).Response(w, arg(0), data(1))
		if err != nil {
			return "RESP " + hx(strip(w.body.String())) + " " + errStr(err)
		}
		return "RESP " + hx(strip(w.body.String())) + " OK"
	case "evalstr":
		out, err := textwire.EvaluateString(arg(0), data(1))
		if err != nil {
			return errStr(err)
		}
		return "OK " + hx(out)
	case "evalfile":
		abs, _ := filepath.Abs(arg(0))
		out, err := textwire.EvaluateFile(abs, data(1))
		if err != nil {
			return errStr(err)
		}
		return "OK " + hx(out)
	case "reg":
		err := register(a[0].atom, arg(1), a[2].atom)
		if err != nil {
			return errStr(err)
		}
		return "OK"
	case "snap":
		s := textwire.VerifSnapshot()
		return "SNAP " + hx(fmt.Sprintf("%s|%s|%s|%v|%v|%s", s.TemplateDir, s.TemplateExt,
			s.ErrorPagePath, s.DebugMode, s.UsesTemplates, strings.Join(s.Funcs, ",")))
	}
	return "HARNESS-ERROR unknown op " + name
}

// The custom-function library. The same functions are defined in
// coq/Model (CustomLib) so that both sides compute the same results.

func canon(v any) string {
	switch x := v.(type) {
	case nil:
		return "nil"
	case int64:
		return "i64(" + strconv.FormatInt(x, 10) + ")"
	case int:
		return "int(" + strconv.Itoa(x) + ")"
	case float64:
		return "f64(" + strconv.FormatFloat(x, 'f', -1, 64) + ")"
	case string:
		return "str(" + x + ")"
	case bool:
		if x {
			return "bool(1)"
		}
		return "bool(0)"
	case []any:
		parts := make([]string, len(x))
		for i, e := range x {
			parts[i] = canon(e)
		}
		return "arr[" + strings.Join(parts, ",") + "]"
	case map[string]any:
		keys := make([]string, 0, len(x))
		for k := range x {
			keys = append(keys, k)
		}
		sortStrings(keys)
		parts := make([]string, len(keys))
		for i, k := range keys {
			parts[i] = k + ":" + canon(x[k])
		}
		return "map{" + strings.Join(parts, ",") + "}"
	}
	return fmt.Sprintf("other(%T)", v)
}

func sortStrings(a []string) {
	for i := 1; i < len(a); i++ {
		for j := i; j > 0 && a[j] < a[j-1]; j-- {
			a[j], a[j-1] = a[j-1], a[j]
		}
	}
}

func canonAll(args []any) string {
	parts := make([]string, len(args))
	for i, e := range args {
		parts[i] = canon(e)
	}
	return strings.Join(parts, ";")
}

func register(ty, name, fn string) error {
	switch ty {
	case "str":
		var f config.StrCustomFunc
		switch fn {
		case "id":
			f = func(s string, args ...any) string { return s }
		case "const":
			f = func(s string, args ...any) string { return "K" }
		case "echo":
			f = func(s string, args ...any) string { return canon(s) + "<-" + canonAll(args) }
		case "const2":
			f = func(s string, args ...any) string { return "K2" }
		default:
			panic("harness: unknown str fn " + fn)
		}
		return textwire.RegisterStrFunc(name, f)
	case "arr":
		var f config.ArrayCustomFunc
		switch fn {
		case "id":
			f = func(a []any, args ...any) []any { return a }
		case "args":
			f = func(a []any, args ...any) []any { return args }
		case "echo":
			f = func(a []any, args ...any) []any { return []any{canon(a) + "<-" + canonAll(args)} }
		case "const":
			f = func(a []any, args ...any) []any { return []any{int64(1), "x"} }
		case "const2":
			f = func(a []any, args ...any) []any { return []any{int64(2)} }
		case "unsup":
			// a result that holds a value textwire cannot represent
			f = func(a []any, args ...any) []any { return []any{int64(1), make(chan int)} }
		case "unsup2":
			f = func(a []any, args ...any) []any { return []any{map[string]any{"k": func() {}}} }
		case "nilres":
			// a filter that matches nothing: the result is a nil slice, which is an empty array
			f = func(a []any, args ...any) []any { var out []any; return out }
		case "revip":
			// changes the slice it received in place and returns that same slice
			f = func(a []any, args ...any) []any {
				for i, j := 0, len(a)-1; i < j; i, j = i+1, j-1 {
					a[i], a[j] = a[j], a[i]
				}
				return a
			}
		default:
			panic("harness: unknown arr fn " + fn)
		}
		return textwire.RegisterArrFunc(name, f)
	case "int":
		var f config.IntCustomFunc
		switch fn {
		case "id":
			f = func(i int, args ...any) int { return i }
		case "const":
			f = func(i int, args ...any) int { return 42 }
		case "const2":
			f = func(i int, args ...any) int { return 43 }
		case "nargs":
			f = func(i int, args ...any) int { return len(args) }
		default:
			panic("harness: unknown int fn " + fn)
		}
		return textwire.RegisterIntFunc(name, f)
	case "float":
		var f config.FloatCustomFunc
		switch fn {
		case "id":
			f = func(x float64, args ...any) float64 { return x }
		case "const":
			f = func(x float64, args ...any) float64 { return 1.5 }
		case "const2":
			f = func(x float64, args ...any) float64 { return 2.5 }
		case "nargs":
			f = func(x float64, args ...any) float64 { return float64(len(args)) }
		default:
			panic("harness: unknown float fn " + fn)
		}
		return textwire.RegisterFloatFunc(name, f)
	case "bool":
		var f config.BoolCustomFunc
		switch fn {
		case "id":
			f = func(b bool, args ...any) bool { return b }
		case "not":
			f = func(b bool, args ...any) bool { return !b }
		case "const":
			f = func(b bool, args ...any) bool { return true }
		case "const2":
			f = func(b bool, args ...any) bool { return false }
		default:
			panic("harness: unknown bool fn " + fn)
		}
		return textwire.RegisterBoolFunc(name, f)
	}
	panic("harness: unknown receiver type " + ty)
}

func caseReg(f []string) string  { return "HARNESS-ERROR\treg is folded into tree" }
func caseConv(s string) string   { return "HARNESS-ERROR\tconv is folded into render" }

// caseConc: fields = fs, ops, G, R. The first operation must be (new ...). The other operations
// are run once sequentially (baseline) and then by G goroutines, R rounds each, in shuffled
// order with scheduling noise; every concurrent result is compared with the baseline.
func caseConc(f []string) string {
	if len(f) < 4 {
		return "HARNESS-ERROR\tconc needs fs, ops, G, R"
	}
	fsd, err := parseSx(unhex(f[0]))
	if err != nil {
		return "HARNESS-ERROR\t" + err.Error()
	}
	ops, err := parseSx(unhex(f[1]))
	if err != nil {
		return "HARNESS-ERROR\t" + err.Error()
	}
	G, _ := strconv.Atoi(f[2])
	R, _ := strconv.Atoi(f[3])

	base := os.Getenv("VERIF_TMP")
	if base == "" {
		base = os.TempDir()
	}
	root, err := os.MkdirTemp(base, "twconc-")
	if err != nil {
		return "HARNESS-ERROR\t" + err.Error()
	}
	root, _ = filepath.EvalSymlinks(root)
	defer os.RemoveAll(root)
	for _, e := range fsd.list {
		p := filepath.Join(root, unhex(e.list[0].atom))
		os.MkdirAll(filepath.Dir(p), 0o755)
		content := ""
		if len(e.list) > 2 {
			content = unhex(e.list[2].atom)
		}
		os.WriteFile(p, []byte(content), 0o644)
	}
	old, _ := os.Getwd()
	os.Chdir(root)
	defer os.Chdir(old)
	textwire.VerifReset()
	strip := func(s string) string { return strings.ReplaceAll(s, root, "$ROOT") }

	var tpl *textwire.Template
	first := runOp(ops.list[0], &tpl, strip)
	if !strings.HasPrefix(first, "OK") {
		return "CONC\tLOADFAIL\t" + first
	}
	rest := ops.list[1:]
	baseline := make([]string, len(rest))
	for i, op := range rest {
		baseline[i] = runOp(op, &tpl, strip)
	}
	// the goroutines get a freshly loaded Template: the FIRST evaluation of every node happens concurrently, so state
	// that is filled in lazily on first use (and is quiet once warm) is exercised too; the baseline above comes from
	// the Template loaded before
	if again := runOp(ops.list[0], &tpl, strip); !strings.HasPrefix(again, "OK") {
		return "CONC\tLOADFAIL\t" + again
	}

	var wg sync.WaitGroup
	var mu sync.Mutex
	same, diff := 0, 0
	firstDiff := ""
	for g := 0; g < G; g++ {
		wg.Add(1)
		go func(g int) {
			defer wg.Done()
			seed := uint64(g*7919 + 13)
			for r := 0; r < R; r++ {
				for k := range rest {
					seed = seed*6364136223846793005 + 1442695040888963407
					i := int((seed >> 33) % uint64(len(rest)))
					_ = k
					if seed&3 == 0 {
						runtime.Gosched()
					}
					t := tpl
					got := runOp(rest[i], &t, strip)
					mu.Lock()
					if got == baseline[i] {
						same++
					} else {
						diff++
						if firstDiff == "" {
							firstDiff = fmt.Sprintf("op %d: alone %s, concurrently %s", i, baseline[i], got)
						}
					}
					mu.Unlock()
				}
			}
		}(g)
	}
	wg.Wait()
	return fmt.Sprintf("CONC\tsame=%d\tdiff=%d\t%s", same, diff, hx(firstDiff))
}
