// twharness runs the REAL textwire implementation (module replaced by /repo)
// on a file of cases and records projected observables, one line per case.
//
//	twharness run <cases> <obs> [-j N] [-timeout ms]
//	twharness worker            (internal: one case per stdin line)
//
// Every case is executed in a worker subprocess so that a case that hangs
// (a spinning goroutine cannot be stopped from inside) is killed from outside
// and recorded as HANG.
package main

import (
	"bufio"
	"fmt"
	"os"
	"os/exec"
	"strconv"
	"strings"
	"sync"
	"syscall"
	"time"
)

func main() {
	if len(os.Args) < 2 {
		fmt.Fprintln(os.Stderr, "usage: twharness run <cases> <obs> [-j N] [-timeout ms] | worker")
		os.Exit(2)
	}

	switch os.Args[1] {
	case "worker":
		workerMain()
	case "run":
		runMain(os.Args[2:])
	default:
		fmt.Fprintln(os.Stderr, "unknown mode", os.Args[1])
		os.Exit(2)
	}
}

type worker struct {
	cmd *exec.Cmd
	in  *bufio.Writer
	out *bufio.Reader
	raw interface{ Close() error }
}

func startWorker() (*worker, error) {
	cmd := exec.Command(os.Args[0], "worker")
	cmd.Stderr = nil
	stdin, err := cmd.StdinPipe()
	if err != nil {
		return nil, err
	}
	stdout, err := cmd.StdoutPipe()
	if err != nil {
		return nil, err
	}
	if err := cmd.Start(); err != nil {
		return nil, err
	}
	return &worker{cmd: cmd, in: bufio.NewWriter(stdin), out: bufio.NewReaderSize(stdout, 1<<20), raw: stdin}, nil
}

func (w *worker) kill() {
	w.cmd.Process.Kill()
	w.cmd.Wait()
}

func runMain(args []string) {
	if len(args) < 2 {
		fmt.Fprintln(os.Stderr, "run needs <cases> <obs>")
		os.Exit(2)
	}
	casesPath, obsPath := args[0], args[1]
	jobs := 8
	timeout := 3000
	for i := 2; i+1 < len(args); i += 2 {
		switch args[i] {
		case "-j":
			jobs, _ = strconv.Atoi(args[i+1])
		case "-timeout":
			timeout, _ = strconv.Atoi(args[i+1])
		}
	}

	f, err := os.Open(casesPath)
	if err != nil {
		fmt.Fprintln(os.Stderr, err)
		os.Exit(2)
	}
	defer f.Close()

	var lines []string
	sc := bufio.NewScanner(f)
	sc.Buffer(make([]byte, 1<<20), 1<<28)
	for sc.Scan() {
		if sc.Text() != "" {
			lines = append(lines, sc.Text())
		}
	}

	results := make([]string, len(lines))
	idx := make(chan int, len(lines))
	for i := range lines {
		idx <- i
	}
	close(idx)

	var wg sync.WaitGroup
	for j := 0; j < jobs; j++ {
		wg.Add(1)
		go func() {
			defer wg.Done()
			var w *worker
			defer func() {
				if w != nil {
					w.kill()
				}
			}()
			for i := range idx {
				line := lines[i]
				id := line
				if k := strings.IndexByte(line, '\t'); k >= 0 {
					id = line[:k]
				}
				if w == nil {
					var err error
					w, err = startWorker()
					if err != nil {
						results[i] = id + "\tHARNESS-ERROR\t" + err.Error()
						continue
					}
				}
				w.in.WriteString(line + "\n")
				w.in.Flush()

				type rd struct {
					s   string
					err error
				}
				ch := make(chan rd, 1)
				ww := w
				go func() {
					s, err := ww.out.ReadString('\n')
					ch <- rd{s, err}
				}()
				select {
				case r := <-ch:
					if r.err != nil {
						// worker died (fatal error: stack overflow, out of memory, os.Exit)
						results[i] = id + "\tCRASH"
						w.kill()
						w = nil
					} else {
						results[i] = strings.TrimRight(r.s, "\n")
					}
				case <-time.After(time.Duration(timeout) * time.Millisecond):
					results[i] = id + "\tHANG"
					w.kill()
					w = nil
				}
			}
		}()
	}
	wg.Wait()

	out, err := os.Create(obsPath)
	if err != nil {
		fmt.Fprintln(os.Stderr, err)
		os.Exit(2)
	}
	bw := bufio.NewWriterSize(out, 1<<20)
	for _, r := range results {
		bw.WriteString(r)
		bw.WriteByte('\n')
	}
	bw.Flush()
	out.Close()
}

func workerMain() {
	// a case that allocates without bound must kill this worker, not the sandbox
	lim := syscall.Rlimit{Cur: 8 << 30, Max: 8 << 30}
	syscall.Setrlimit(syscall.RLIMIT_AS, &lim)
	sc := bufio.NewScanner(os.Stdin)
	sc.Buffer(make([]byte, 1<<20), 1<<28)
	bw := bufio.NewWriterSize(os.Stdout, 1<<20)
	for sc.Scan() {
		line := sc.Text()
		fields := strings.Split(line, "\t")
		res := runCase(fields)
		bw.WriteString(fields[0])
		bw.WriteByte('\t')
		bw.WriteString(res)
		bw.WriteByte('\n')
		bw.Flush()
	}
}
