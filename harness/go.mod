module verif/harness

go 1.22.0

require github.com/textwire/textwire/v2 v2.0.0

replace github.com/textwire/textwire/v2 => /repo
