package main

import (
	"encoding/hex"
	"fmt"
	"regexp"
	"strconv"
	"strings"

	textwire "github.com/textwire/textwire/v2"
	"github.com/textwire/textwire/v2/lexer"
	"github.com/textwire/textwire/v2/parser"
	"github.com/textwire/textwire/v2/token"
)

func unhex(s string) string {
	if s == "-" {
		return ""
	}
	b, err := hex.DecodeString(s)
	if err != nil {
		panic("bad hex field: " + s)
	}
	return string(b)
}

func hx(s string) string {
	if s == "" {
		return "-"
	}
	return hex.EncodeToString([]byte(s))
}

// runCase executes one case and returns the observation (without the id).
func runCase(f []string) (res string) {
	defer func() {
		if r := recover(); r != nil {
			res = "PANIC\t" + hx(fmt.Sprint(r))
		}
	}()

	if len(f) < 2 {
		return "HARNESS-ERROR\tshort line"
	}

	switch f[1] {
	case "lex":
		return caseLex(unhex(f[2]))
	case "lexc":
		return caseLexContains(unhex(f[2]))
	case "parse":
		return caseParse(unhex(f[2]))
	case "render":
		data := "-"
		if len(f) > 3 {
			data = f[3]
		}
		return caseRender(unhex(f[2]), unhex(data))
	case "tree":
		return caseTree(f[2:])
	case "conc":
		return caseConc(f[2:])
	case "reg":
		return caseReg(f[2:])
	case "conv":
		return caseConv(unhex(f[2]))
	}

	return "HARNESS-ERROR\tunknown kind " + f[1]
}

func caseLex(src string) string {
	l := lexer.New(src)
	var sb strings.Builder
	sb.WriteString("LEX\t")
	limit := len(src) + 5
	prev := ""
	for i := 0; i < limit; i++ {
		t := l.NextToken()
		cur := fmt.Sprintf("%d:%s:%d:%d:%d:%d", int(t.Type), hx(t.Literal),
			t.Pos.StartLine, t.Pos.StartCol, t.Pos.EndLine, t.Pos.EndCol)
		// an ILLEGAL token that is not consumed comes back forever: stop at its first repetition
		if t.Type == token.ILLEGAL && cur == prev {
			return sb.String()
		}
		if i > 0 {
			sb.WriteByte(';')
		}
		sb.WriteString(cur)
		prev = cur
		if t.Type == token.EOF {
			return sb.String()
		}
	}
	return sb.String() + ";OVERRUN"
}

// caseLexContains: the token list, then for every byte offset k (0..len) one row of 0/1 per
// token: token.Position.Contains at the cursor (line, column) of offset k
func caseLexContains(src string) string {
	lexed := caseLex(src)
	l := lexer.New(src)
	var toks []token.Token
	for i := 0; i < len(src)+5; i++ {
		t := l.NextToken()
		if t.Type == token.ILLEGAL && len(toks) > 0 && toks[len(toks)-1].Type == token.ILLEGAL && toks[len(toks)-1].Pos == t.Pos {
			break
		}
		toks = append(toks, t)
		if t.Type == token.EOF {
			break
		}
	}
	var sb strings.Builder
	line, col := uint(0), uint(0)
	for k := 0; k <= len(src); k++ {
		if k > 0 {
			sb.WriteByte(',')
		}
		for _, t := range toks {
			if t.Pos.Contains(line, col) {
				sb.WriteByte('1')
			} else {
				sb.WriteByte('0')
			}
		}
		if k < len(src) {
			if src[k] == '\n' {
				line++
				col = 0
			} else {
				col++
			}
		}
	}
	return "LEXC\t" + strings.TrimPrefix(lexed, "LEX\t") + "\t" + sb.String()
}

func caseParse(src string) string {
	l := lexer.New(src)
	p := parser.New(l, "")
	prog := p.ParseProgram()
	if p.HasErrors() {
		e := p.Errors()[0]
		return fmt.Sprintf("PARSE\tERR\t%d\t%d\t%s", len(p.Errors()), e.Line(), hx(e.Message()))
	}
	if prog == nil {
		return "PARSE\tNILPROG"
	}
	return "PARSE\tOK\t" + hx(dumpProgram(prog))
}

var errRe = regexp.MustCompile(`(?s)^\[Textwire ERROR(?: in (.*?))?:(\d+)\]:\n(.*)$`)

// splitErr projects an error string produced by fail.Error.String().
func splitErr(s string) (line string, path string, msg string) {
	m := errRe.FindStringSubmatch(s)
	if m == nil {
		return "?", "", s
	}
	return m[2], m[1], m[3]
}

func errObs(e error) string {
	line, path, msg := splitErr(e.Error())
	return fmt.Sprintf("ERR\t%s\t%s\t%s", line, hx(path), hx(msg))
}

func caseRender(src, data string) string {
	m, err := parseDataMap(data)
	if err != nil {
		return "HARNESS-ERROR\t" + err.Error()
	}
	snap := deepSnapshot(m)
	out, e := textwire.EvaluateString(src, m)
	mut := ""
	if deepSnapshot(m) != snap {
		mut = "\tDATA-MUTATED"
	}
	if e != nil {
		return "RENDER\t" + errObs(e) + mut
	}
	return "RENDER\tOK\t" + hx(out) + mut
}

func itoa(i int) string { return strconv.Itoa(i) }
