package main

import (
	"fmt"
	"math"
	"reflect"
	"sort"
	"strconv"
	"strings"
)

// A tiny s-expression reader for data descriptions.

type sx struct {
	atom string
	list []*sx
	isL  bool
}

func parseSx(s string) (*sx, error) {
	pos := 0
	var rd func() (*sx, error)
	skip := func() {
		for pos < len(s) && (s[pos] == ' ' || s[pos] == '\n') {
			pos++
		}
	}
	rd = func() (*sx, error) {
		skip()
		if pos >= len(s) {
			return nil, fmt.Errorf("unexpected end of s-expression")
		}
		if s[pos] == '(' {
			pos++
			n := &sx{isL: true}
			for {
				skip()
				if pos >= len(s) {
					return nil, fmt.Errorf("unterminated list")
				}
				if s[pos] == ')' {
					pos++
					return n, nil
				}
				c, err := rd()
				if err != nil {
					return nil, err
				}
				n.list = append(n.list, c)
			}
		}
		st := pos
		for pos < len(s) && s[pos] != ' ' && s[pos] != '(' && s[pos] != ')' && s[pos] != '\n' {
			pos++
		}
		return &sx{atom: s[st:pos]}, nil
	}
	return rd()
}

func parseDataMap(s string) (map[string]any, error) {
	if s == "" {
		return nil, nil
	}
	n, err := parseSx(s)
	if err != nil {
		return nil, err
	}
	if !n.isL {
		return nil, fmt.Errorf("data must be a list")
	}
	m := map[string]any{}
	for _, p := range n.list {
		if !p.isL || len(p.list) != 2 {
			return nil, fmt.Errorf("bad data pair")
		}
		v, err := buildVal(p.list[1])
		if err != nil {
			return nil, err
		}
		m[unhex(p.list[0].atom)] = v
	}
	return m, nil
}

var kindTypes = map[string]reflect.Type{
	"int": reflect.TypeOf(int(0)), "int8": reflect.TypeOf(int8(0)), "int16": reflect.TypeOf(int16(0)),
	"int32": reflect.TypeOf(int32(0)), "int64": reflect.TypeOf(int64(0)),
	"uint": reflect.TypeOf(uint(0)), "uint8": reflect.TypeOf(uint8(0)), "uint16": reflect.TypeOf(uint16(0)),
	"uint32": reflect.TypeOf(uint32(0)), "uint64": reflect.TypeOf(uint64(0)),
	"f64": reflect.TypeOf(float64(0)), "f32": reflect.TypeOf(float32(0)),
	"str": reflect.TypeOf(""), "bool": reflect.TypeOf(false),
	"any": reflect.TypeOf((*any)(nil)).Elem(),
}

// values of named types whose kind is a supported scalar kind (time.Duration, enums, ...)
type namedInt int
type namedInt8 int8
type namedUint16 uint16
type namedStr string
type namedBool bool
type namedF64 float64

func buildVal(n *sx) (any, error) {
	if !n.isL || len(n.list) == 0 {
		return nil, fmt.Errorf("bad value")
	}
	tag := n.list[0].atom
	args := n.list[1:]
	switch tag {
	case "nil":
		return nil, nil
	case "bool":
		return args[0].atom == "1", nil
	case "int", "int8", "int16", "int32", "int64":
		i, err := strconv.ParseInt(args[0].atom, 10, 64)
		if err != nil {
			return nil, err
		}
		return reflect.ValueOf(i).Convert(kindTypes[tag]).Interface(), nil
	case "uint", "uint8", "uint16", "uint32", "uint64":
		u, err := strconv.ParseUint(args[0].atom, 10, 64)
		if err != nil {
			return nil, err
		}
		return reflect.ValueOf(u).Convert(kindTypes[tag]).Interface(), nil
	case "f64":
		u, err := strconv.ParseUint(args[0].atom, 16, 64)
		if err != nil {
			return nil, err
		}
		return math.Float64frombits(u), nil
	case "f32":
		u, err := strconv.ParseUint(args[0].atom, 16, 64)
		if err != nil {
			return nil, err
		}
		return float32(math.Float64frombits(u)), nil
	case "str":
		return unhex(args[0].atom), nil
	case "slice":
		out := make([]any, 0, len(args))
		for _, a := range args {
			v, err := buildVal(a)
			if err != nil {
				return nil, err
			}
			out = append(out, v)
		}
		return out, nil
	case "tslice":
		et, ok := kindTypes[args[0].atom]
		if !ok {
			return nil, fmt.Errorf("unknown element kind %s", args[0].atom)
		}
		sl := reflect.MakeSlice(reflect.SliceOf(et), 0, len(args)-1)
		for _, a := range args[1:] {
			v, err := buildVal(a)
			if err != nil {
				return nil, err
			}
			sl = reflect.Append(sl, reflect.ValueOf(v).Convert(et))
		}
		return sl.Interface(), nil
	case "map":
		out := map[string]any{}
		for _, p := range args {
			v, err := buildVal(p.list[1])
			if err != nil {
				return nil, err
			}
			out[unhex(p.list[0].atom)] = v
		}
		return out, nil
	case "tmap":
		et, ok := kindTypes[args[0].atom]
		if !ok {
			return nil, fmt.Errorf("unknown element kind %s", args[0].atom)
		}
		mp := reflect.MakeMap(reflect.MapOf(reflect.TypeOf(""), et))
		for _, p := range args[1:] {
			v, err := buildVal(p.list[1])
			if err != nil {
				return nil, err
			}
			mp.SetMapIndex(reflect.ValueOf(unhex(p.list[0].atom)), reflect.ValueOf(v).Convert(et))
		}
		return mp.Interface(), nil
	case "struct":
		var fields []reflect.StructField
		var vals []any
		for _, p := range args {
			v, err := buildVal(p.list[1])
			if err != nil {
				return nil, err
			}
			name := p.list[0].atom
			var t reflect.Type
			if v == nil {
				t = kindTypes["any"]
			} else {
				t = reflect.TypeOf(v)
			}
			sf := reflect.StructField{Name: name, Type: t}
			if name[0] >= 'a' && name[0] <= 'z' || name[0] == '_' {
				sf.PkgPath = "verif/harness"
			}
			fields = append(fields, sf)
			vals = append(vals, v)
		}
		st := reflect.New(reflect.StructOf(fields)).Elem()
		for i, v := range vals {
			if fields[i].PkgPath != "" {
				continue // unexported: cannot be set through reflection, stays zero
			}
			if v != nil {
				st.Field(i).Set(reflect.ValueOf(v))
			}
		}
		return st.Interface(), nil
	case "ptr":
		v, err := buildVal(args[0])
		if err != nil {
			return nil, err
		}
		if v == nil {
			var a any
			return &a, nil
		}
		p := reflect.New(reflect.TypeOf(v))
		p.Elem().Set(reflect.ValueOf(v))
		return p.Interface(), nil
	case "nilptr":
		et, ok := kindTypes[args[0].atom]
		if !ok {
			return nil, fmt.Errorf("unknown element kind %s", args[0].atom)
		}
		return reflect.Zero(reflect.PointerTo(et)).Interface(), nil
	case "chan":
		return make(chan int), nil
	case "func":
		return func() {}, nil
	case "cyc":
		// a value that contains itself through a pointer
		type cyc struct {
			Name string
			Next *cyc
		}
		c := &cyc{Name: "a"}
		c.Next = c
		return c, nil
	case "cycmap":
		m := map[string]any{"name": "m"}
		m["self"] = m
		return m, nil
	case "cycslice":
		sl := make([]any, 2)
		sl[0] = int64(1)
		sl[1] = sl
		return sl, nil
	case "cyc2":
		// a cycle of length two through a map and a pointer
		type node struct {
			Name string
			Kids map[string]any
		}
		n := &node{Name: "n", Kids: map[string]any{}}
		n.Kids["up"] = n
		return n, nil
	case "shared":
		// the same pointer used twice, no cycle: perfectly good data
		v := int64(5)
		p := &v
		return []any{p, p, map[string]any{"p": p}}, nil
	case "sharedptr":
		// two posts that point to one author: a shared pointer, not a cycle
		type Author struct{ Name string }
		type Post struct {
			Title  string
			Author *Author
		}
		ann := &Author{Name: "Ann"}
		return []Post{{Title: "a", Author: ann}, {Title: "b", Author: ann}}, nil
	case "sharedslice":
		// one slice held by two fields and twice by an outer slice
		tags := []string{"x", "y"}
		return struct {
			A, B []string
			All  [][]string
		}{tags, tags, [][]string{tags, tags}}, nil
	case "sharedmap":
		// one map under two keys, and inside a slice under a third
		meta := map[string]any{"k": int64(1)}
		return map[string]any{"a": meta, "b": meta, "l": []any{meta, meta}}, nil
	case "nilchan":
		var c chan int
		return c, nil
	case "nilfunc":
		var f func()
		return f, nil
	case "complex":
		return complex(1, 2), nil
	case "array2":
		return [2]int{1, 2}, nil
	case "imap":
		return map[int]string{1: "a"}, nil
	case "bmap":
		// two keys that are not strings: which one "wins" would depend on the map's iteration order
		return map[bool]int{true: 1, false: 2}, nil
	case "nint":
		i, err := strconv.ParseInt(args[0].atom, 10, 64)
		if err != nil {
			return nil, err
		}
		return namedInt(i), nil
	case "nint8":
		i, err := strconv.ParseInt(args[0].atom, 10, 8)
		if err != nil {
			return nil, err
		}
		return namedInt8(i), nil
	case "nuint16":
		u, err := strconv.ParseUint(args[0].atom, 10, 16)
		if err != nil {
			return nil, err
		}
		return namedUint16(u), nil
	case "nstr":
		return namedStr(unhex(args[0].atom)), nil
	case "nbool":
		return namedBool(args[0].atom == "1"), nil
	case "nf64":
		u, err := strconv.ParseUint(args[0].atom, 16, 64)
		if err != nil {
			return nil, err
		}
		return namedF64(math.Float64frombits(u)), nil
	}
	return nil, fmt.Errorf("unknown value tag %s", tag)
}

// deepSnapshot renders a Go value completely (following pointers, sorted map
// keys) so that a mutation of caller data by a render is observable.
func deepSnapshot(v any) string {
	var sb strings.Builder
	snap(&sb, reflect.ValueOf(v), 0)
	return sb.String()
}

func snap(sb *strings.Builder, v reflect.Value, depth int) {
	if depth > 40 {
		sb.WriteString("<deep>")
		return
	}
	if !v.IsValid() {
		sb.WriteString("<nil>")
		return
	}
	switch v.Kind() {
	case reflect.Interface, reflect.Pointer:
		if v.IsNil() {
			sb.WriteString("<nil " + v.Type().String() + ">")
			return
		}
		sb.WriteString("&")
		snap(sb, v.Elem(), depth+1)
	case reflect.Slice, reflect.Array:
		if v.Kind() == reflect.Slice && v.IsNil() {
			sb.WriteString("<nilslice>")
			return
		}
		sb.WriteString("[")
		for i := 0; i < v.Len(); i++ {
			snap(sb, v.Index(i), depth+1)
			sb.WriteString(",")
		}
		sb.WriteString("]")
	case reflect.Map:
		keys := v.MapKeys()
		sort.Slice(keys, func(i, j int) bool { return fmt.Sprint(keys[i]) < fmt.Sprint(keys[j]) })
		sb.WriteString("{")
		for _, k := range keys {
			fmt.Fprintf(sb, "%v:", k)
			snap(sb, v.MapIndex(k), depth+1)
			sb.WriteString(",")
		}
		sb.WriteString("}")
	case reflect.Struct:
		sb.WriteString("S{")
		for i := 0; i < v.NumField(); i++ {
			sb.WriteString(v.Type().Field(i).Name + ":")
			snap(sb, v.Field(i), depth+1)
			sb.WriteString(",")
		}
		sb.WriteString("}")
	case reflect.Float32, reflect.Float64:
		fmt.Fprintf(sb, "f%x", math.Float64bits(v.Float()))
	case reflect.Chan, reflect.Func:
		sb.WriteString("<" + v.Kind().String() + ">")
	default:
		fmt.Fprintf(sb, "%s(%v)", v.Type().String(), v)
	}
}
