package main

import (
	"fmt"
	"reflect"
	"sort"
	"strings"

	"github.com/textwire/textwire/v2/ast"
)

// dumpProgram serialises the parsed program as an s-expression. The same
// format is produced by the extracted Coq model (ocaml/driver.ml).
// Every node carries the 1-based line its errors would report.

func isNilNode(n any) bool {
	if n == nil {
		return true
	}
	v := reflect.ValueOf(n)
	return v.Kind() == reflect.Pointer && v.IsNil()
}

func dumpProgram(p *ast.Program) string {
	var sb strings.Builder
	sb.WriteString("(prog")
	for _, s := range p.Statements {
		sb.WriteByte(' ')
		dumpStmt(&sb, s)
	}
	sb.WriteString(")")
	return sb.String()
}

func dumpBlock(sb *strings.Builder, b *ast.BlockStmt) {
	if b == nil {
		sb.WriteString("null")
		return
	}
	sb.WriteString("(block")
	for _, s := range b.Statements {
		sb.WriteByte(' ')
		dumpStmt(sb, s)
	}
	sb.WriteString(")")
}

func dumpStmt(sb *strings.Builder, s ast.Statement) {
	if isNilNode(s) {
		sb.WriteString("null")
		return
	}
	switch n := s.(type) {
	case *ast.HTMLStmt:
		fmt.Fprintf(sb, "(html %d %s)", n.Line(), hx(n.Token.Literal))
	case *ast.ExpressionStmt:
		fmt.Fprintf(sb, "(expr ")
		dumpExpr(sb, n.Expression)
		sb.WriteString(")")
	case *ast.AssignStmt:
		fmt.Fprintf(sb, "(assign %d %s ", n.Line(), n.Name.Value)
		dumpExpr(sb, n.Value)
		sb.WriteString(")")
	case *ast.IfStmt:
		fmt.Fprintf(sb, "(if %d ", n.Line())
		dumpExpr(sb, n.Condition)
		sb.WriteByte(' ')
		dumpBlock(sb, n.Consequence)
		for _, a := range n.Alternatives {
			sb.WriteString(" (elif ")
			dumpExpr(sb, a.Condition)
			sb.WriteByte(' ')
			dumpBlock(sb, a.Consequence)
			sb.WriteString(")")
		}
		sb.WriteString(" ")
		dumpBlock(sb, n.Alternative)
		sb.WriteString(")")
	case *ast.BlockStmt:
		dumpBlock(sb, n)
	case *ast.ForStmt:
		fmt.Fprintf(sb, "(for %d ", n.Line())
		dumpStmt(sb, n.Init)
		sb.WriteByte(' ')
		dumpExpr(sb, n.Condition)
		sb.WriteByte(' ')
		dumpStmt(sb, n.Post)
		sb.WriteByte(' ')
		dumpBlock(sb, n.Block)
		sb.WriteByte(' ')
		dumpBlock(sb, n.Alternative)
		sb.WriteString(")")
	case *ast.EachStmt:
		fmt.Fprintf(sb, "(each %d %s ", n.Line(), hx(n.Var.Value))
		dumpExpr(sb, n.Array)
		sb.WriteByte(' ')
		dumpBlock(sb, n.Block)
		sb.WriteByte(' ')
		dumpBlock(sb, n.Alternative)
		sb.WriteString(")")
	case *ast.UseStmt:
		fmt.Fprintf(sb, "(use %d %s)", n.Line(), hx(n.Name.Value))
	case *ast.ReserveStmt:
		fmt.Fprintf(sb, "(reserve %d %s)", n.Line(), hx(n.Name.Value))
	case *ast.InsertStmt:
		fmt.Fprintf(sb, "(insert %d %s ", n.Line(), hx(n.Name.Value))
		dumpExpr(sb, n.Argument)
		sb.WriteByte(' ')
		dumpBlock(sb, n.Block)
		sb.WriteString(")")
	case *ast.BreakIfStmt:
		fmt.Fprintf(sb, "(breakif %d ", n.Line())
		dumpExpr(sb, n.Condition)
		sb.WriteString(")")
	case *ast.ContinueIfStmt:
		fmt.Fprintf(sb, "(continueif %d ", n.Line())
		dumpExpr(sb, n.Condition)
		sb.WriteString(")")
	case *ast.BreakStmt:
		sb.WriteString("(break)")
	case *ast.ContinueStmt:
		sb.WriteString("(continue)")
	case *ast.ComponentStmt:
		fmt.Fprintf(sb, "(component %d %s ", n.Line(), hx(n.Name.Value))
		if n.Argument == nil {
			sb.WriteString("null")
		} else {
			dumpExpr(sb, n.Argument)
		}
		sb.WriteString(" (slots")
		for _, sl := range n.Slots {
			sb.WriteByte(' ')
			dumpStmt(sb, sl)
		}
		sb.WriteString("))")
	case *ast.SlotStmt:
		fmt.Fprintf(sb, "(slot %d %s ", n.Line(), hx(n.Name.Value))
		dumpBlock(sb, n.Body)
		sb.WriteString(")")
	case *ast.DumpStmt:
		fmt.Fprintf(sb, "(dump %d", n.Line())
		for _, a := range n.Arguments {
			sb.WriteByte(' ')
			dumpExpr(sb, a)
		}
		sb.WriteString(")")
	default:
		fmt.Fprintf(sb, "(unknown-stmt %T)", s)
	}
}

func dumpExpr(sb *strings.Builder, e ast.Expression) {
	if isNilNode(e) {
		sb.WriteString("null")
		return
	}
	switch n := e.(type) {
	case *ast.Identifier:
		fmt.Fprintf(sb, "(id %d %s)", n.Line(), n.Value)
	case *ast.IntegerLiteral:
		fmt.Fprintf(sb, "(int %d %d)", n.Line(), n.Value)
	case *ast.FloatLiteral:
		fmt.Fprintf(sb, "(float %d %s)", n.Line(), hx(n.Token.Literal))
	case *ast.StringLiteral:
		fmt.Fprintf(sb, "(str %d %s)", n.Line(), hx(n.Value))
	case *ast.NilLiteral:
		fmt.Fprintf(sb, "(nil %d)", n.Line())
	case *ast.BooleanLiteral:
		b := 0
		if n.Value {
			b = 1
		}
		fmt.Fprintf(sb, "(bool %d %d)", n.Line(), b)
	case *ast.ArrayLiteral:
		fmt.Fprintf(sb, "(arr %d", n.Line())
		for _, x := range n.Elements {
			sb.WriteByte(' ')
			dumpExpr(sb, x)
		}
		sb.WriteString(")")
	case *ast.ObjectLiteral:
		fmt.Fprintf(sb, "(obj %d", n.Line())
		keys := make([]string, 0, len(n.Pairs))
		for k := range n.Pairs {
			keys = append(keys, k)
		}
		sort.Strings(keys)
		for _, k := range keys {
			fmt.Fprintf(sb, " (%s ", hx(k))
			dumpExpr(sb, n.Pairs[k])
			sb.WriteString(")")
		}
		sb.WriteString(")")
	case *ast.PrefixExp:
		fmt.Fprintf(sb, "(pre %d %s ", n.Line(), n.Operator)
		dumpExpr(sb, n.Right)
		sb.WriteString(")")
	case *ast.InfixExp:
		fmt.Fprintf(sb, "(in %d %s ", n.Line(), n.Operator)
		dumpExpr(sb, n.Left)
		sb.WriteByte(' ')
		dumpExpr(sb, n.Right)
		sb.WriteString(")")
	case *ast.PostfixExp:
		fmt.Fprintf(sb, "(post %d %s ", n.Line(), n.Operator)
		dumpExpr(sb, n.Left)
		sb.WriteString(")")
	case *ast.TernaryExp:
		fmt.Fprintf(sb, "(tern %d ", n.Line())
		dumpExpr(sb, n.Condition)
		sb.WriteByte(' ')
		dumpExpr(sb, n.Consequence)
		sb.WriteByte(' ')
		dumpExpr(sb, n.Alternative)
		sb.WriteString(")")
	case *ast.IndexExp:
		fmt.Fprintf(sb, "(idx %d ", n.Line())
		dumpExpr(sb, n.Left)
		sb.WriteByte(' ')
		dumpExpr(sb, n.Index)
		sb.WriteString(")")
	case *ast.DotExp:
		fmt.Fprintf(sb, "(dot %d ", n.Line())
		dumpExpr(sb, n.Left)
		sb.WriteByte(' ')
		dumpExpr(sb, n.Key)
		sb.WriteString(")")
	case *ast.CallExp:
		fmt.Fprintf(sb, "(call %d ", n.Line())
		dumpExpr(sb, n.Receiver)
		fmt.Fprintf(sb, " %s", n.Function.Value)
		for _, a := range n.Arguments {
			sb.WriteByte(' ')
			dumpExpr(sb, a)
		}
		sb.WriteString(")")
	default:
		fmt.Fprintf(sb, "(unknown-expr %T)", e)
	}
}
