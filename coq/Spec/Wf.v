(* Well-formedness of a parsed program: no nil Expression / Statement where the evaluator
   dereferences one, the key of a dot expression is an identifier, the argument of @component
   is an object literal.  This is the hypothesis of the never-panics theorem (Proofs/NoPanic.v);
   it is extracted and evaluated by the check on every program the parser model returns. *)
From TW Require Import Bytes Ast.

Fixpoint wf_expr (e : expr) : bool :=
  match e with
  | ENull => false
  | EIdent _ _ | EInt _ _ | EFloat _ _ | EStr _ _ | ENil _ | EBool _ _ => true
  | EArr _ els => forallb wf_expr els
  | EObj _ pairs => forallb (fun p => wf_expr (snd p)) pairs
  | EPrefix _ _ r => wf_expr r
  | EInfix _ _ l r => wf_expr l && wf_expr r
  | EPostfix _ _ l => wf_expr l
  | ETernary _ c a b => wf_expr c && wf_expr a && wf_expr b
  | EIndex _ l i => wf_expr l && wf_expr i
  | EDot _ l key => wf_expr l && match key with EIdent _ _ => true | _ => false end
  | ECall _ recv _ args => wf_expr recv && forallb wf_expr args
  end.

(* an absent clause of @for is the nil Expression / Statement and is allowed there *)
Definition wf_opt_expr (e : expr) : bool := match e with ENull => true | _ => wf_expr e end.

Definition wf_oblock (wf : stmt -> bool) (b : option (list stmt)) : bool :=
  match b with Some ss => forallb wf ss | None => true end.

Fixpoint wf_stmt (s : stmt) : bool :=
  match s with
  | SNull => false
  | SHtml _ _ => true
  | SExpr e => wf_expr e
  | SAssign _ _ e => wf_expr e
  | SIf _ c thn alts alt =>
    wf_expr c && forallb wf_stmt thn &&
    forallb (fun a => wf_expr (fst a) && forallb wf_stmt (snd a)) alts && wf_oblock wf_stmt alt
  | SFor _ init c post body alt =>
    match init with SNull => true | _ => wf_stmt init end && wf_opt_expr c &&
    match post with SNull => true | _ => wf_stmt post end &&
    forallb wf_stmt body && wf_oblock wf_stmt alt
  | SEach _ _ arr body alt => wf_expr arr && forallb wf_stmt body && wf_oblock wf_stmt alt
  | SUse _ _ layout =>
    match layout with Some (_, _, ss) => forallb wf_stmt ss | None => true end
  | SReserve _ _ _ ins =>
    match ins with
    | None => true
    | Some (_, arg, Some b) => forallb wf_stmt b
    | Some (_, arg, None) => wf_opt_expr arg
    end
  | SInsert _ _ _ _ => true
  | SBreakIf _ c | SContinueIf _ c => wf_expr c
  | SBreak | SContinue => true
  | SComponent _ _ _ arg _ block =>
    match arg with
    | None => true
    | Some (EObj _ pairs) => forallb (fun p => wf_expr (snd p)) pairs
    | Some _ => false
    end && wf_oblock wf_stmt block
  | SSlot _ _ body => wf_oblock wf_stmt body
  | SDump _ args => forallb wf_expr args
  end.

Definition wf_program (p : program) : bool := forallb wf_stmt (p_stmts p).

