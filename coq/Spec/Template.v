(* Specification for C02, C03, C04, written from the property texts: a clean
   big-step semantics of templates with block scopes and loop-control SIGNALS
   (no marker objects), and the source printer. *)
From Coq Require Import String.
From TW Require Import Bytes Floats Values Expr.
Open Scope N_scope.

Inductive fpost :=
| PostInc (x : bytes)
| PostDec (x : bytes)
| PostAssign (x : bytes) (e : sexpr).

Inductive tnode :=
| NText (s : bytes)
| NPrint (e : sexpr)
| NAssign (x : bytes) (e : sexpr)
| NIf (c : sexpr) (thn : list tnode) (elifs : list (sexpr * list tnode)) (els : option (list tnode))
| NEach (v : bytes) (arr : sexpr) (body : list tnode) (els : option (list tnode))
| NFor (init : option (bytes * sexpr)) (cond : option sexpr) (post : option fpost)
       (body : list tnode) (els : option (list tnode))
| NBreak
| NContinue
| NBreakIf (e : sexpr)
| NContinueIf (e : sexpr)
(* C06: a layout's @reserve(name) together with what the page inserts for it - the body of a block
   insert, or the expression of the short form, or nothing (rid is the parser's label of the
   statement, without meaning for the render) *)
| NReserve (name : bytes) (rid : nat) (blk : option (list tnode)) (arg : option sexpr)
(* C07: a use of a component - its arguments as written at the place of use and the nodes of the
   component file (with this use's slot bodies in its placeholders; cid is the parser's label) -
   and a slot placeholder with the body the caller passed, if any *)
| NComponent (name : bytes) (cid : nat) (args : option (list (bytes * sexpr))) (body : list tnode)
| NSlot (name : bytes) (body : option (list tnode)).

Inductive signal := SigNormal | SigBreak | SigContinue.

Definition scopes := list (list (bytes * value)).     (* innermost first *)

Inductive tres :=
| TOk (out : bytes) (sig : signal) (sc : scopes)
| TFail                          (* the render fails with an error *)
| TNoFuel                        (* the template does not terminate within the budget *)
| TUnprintable.                  (* a float outside the printable class *)

Definition flat (sc : scopes) : list (bytes * value) := concat sc.

Definition lookup_var (sc : scopes) (x : bytes) : option value := alookup x (flat sc).

Definition same_kind (a b : value) : bool := bytes_eqb (type_name a) (type_name b).

Definition loop_name : bytes := bs "loop".

(* assignment: 'loop' is reserved; a visible name keeps its type; the innermost block is written *)
Definition assign (sc : scopes) (x : bytes) (v : value) : option scopes :=
  if bytes_eqb x loop_name then None else
  match lookup_var sc x with
  | Some old => if same_kind old v
                then Some (match sc with f :: r => aset x v f :: r | [] => [[(x, v)]] end)
                else None
  | None => Some (match sc with f :: r => aset x v f :: r | [] => [[(x, v)]] end)
  end.

Definition loop_meta (i len : nat) : value :=
  VObj [(bs "index", VInt (Z.of_nat i)); (bs "first", VBool (Nat.eqb i 0));
        (bs "last", VBool (Nat.eqb (S i) len)); (bs "iter", VInt (Z.of_nat (S i)))].

Definition set_meta (sc : scopes) (i len : nat) : scopes :=
  match sc with f :: r => aset loop_name (loop_meta i len) f :: r | [] => [[(loop_name, loop_meta i len)]] end.

Section TemplateSem.
Variable call_spec : value -> bytes -> list value -> sres.

Definition ev (sc : scopes) (e : sexpr) : sres := sem call_spec (S (size e)) (flat sc) e.

(* the arguments of a component use, in key order: each is evaluated at the place of use (sc) and
   bound in the component's own scope chain (ne); None = unspecified value, Some None = error *)
Fixpoint bind_spec (sc : scopes) (ps : list (bytes * sexpr)) (ne : scopes) : option (option scopes) :=
  match ps with
  | [] => Some (Some ne)
  | (k, e) :: ps' =>
    match ev sc e with
    | SVal v => match assign ne k v with Some ne' => bind_spec sc ps' ne' | None => Some None end
    | SErr => Some None
    | SUnspec => None
    end
  end.

Fixpoint run_nodes (fuel : nat) (sc : scopes) (ns : list tnode) {struct fuel} : tres :=
  match fuel with
  | O => TNoFuel
  | S f =>
    match ns with
    | [] => TOk [] SigNormal sc
    | n :: ns' =>
      match run_node f sc n with
      | TOk o SigNormal sc1 =>
        match run_nodes f sc1 ns' with
        | TOk o2 s2 sc2 => TOk (o ++ o2) s2 sc2
        | r => r
        end
      | r => r          (* a signal ends the block after what was emitted; errors propagate *)
      end
    end
  end

(* a nested block: its own scope, discarded afterwards; signals pass through *)
with run_block (fuel : nat) (sc : scopes) (ns : list tnode) {struct fuel} : tres :=
  match fuel with
  | O => TNoFuel
  | S f =>
    match run_nodes f ([] :: sc) ns with
    | TOk o s sc1 => TOk o s (tl sc1)
    | r => r
    end
  end

with run_node (fuel : nat) (sc : scopes) (n : tnode) {struct fuel} : tres :=
  match fuel with
  | O => TNoFuel
  | S f =>
    match n with
    | NText s => TOk s SigNormal sc
    | NPrint e =>
      match ev sc e with
      | SVal v => match value_string v with Some s => TOk s SigNormal sc | None => TUnprintable end
      | SErr => TFail
      | SUnspec => TUnprintable
      end
    | NAssign x e =>
      match ev sc e with
      | SVal v => match assign sc x v with Some sc' => TOk [] SigNormal sc' | None => TFail end
      | SErr => TFail
      | SUnspec => TUnprintable
      end
    | NIf c thn elifs els =>
      match ev sc c with
      | SErr => TFail
      | SUnspec => TUnprintable
      | SVal v =>
        if truthy_spec v then run_block f sc thn else
        (fix branches (bs : list (sexpr * list tnode)) : tres :=
           match bs with
           | (c', b) :: bs' =>
             match ev sc c' with
             | SErr => TFail
             | SUnspec => TUnprintable
             | SVal v' => if truthy_spec v' then run_block f sc b else branches bs'
             end
           | [] => match els with Some b => run_block f sc b | None => TOk [] SigNormal sc end
           end) elifs
      end
    | NEach v arr body els =>
      match ev sc arr with
      | SVal (VArr elems) =>
        match elems, els with
        | [], Some b => run_block f sc b           (* signals of the @else body reach the enclosing loop *)
        | _, _ =>
          match each_passes f v body (List.length elems) O elems ([] :: sc) with
          | TOk o _ sc1 => TOk o SigNormal (tl sc1)
          | r => r
          end
        end
      | SVal _ => TFail                              (* iterating a non-array is an error *)
      | SErr => TFail
      | SUnspec => TUnprintable
      end
    | NFor init cond post body els =>
      let sc0 := [] :: sc in
      match (match init with
             | Some (x, e) => match ev sc0 e with
                              | SVal v => match assign sc0 x v with Some s => Some (Some s) | None => Some None end
                              | SErr => Some None
                              | SUnspec => None end
             | None => Some (Some sc0)
             end) with
      | Some (Some sc1) =>
        match (match cond with Some c => match ev sc1 c with SVal v => Some (Some (truthy_spec v))
                                                        | SErr => Some None | SUnspec => None end
                              | None => Some (Some true) end) with
        | None => TUnprintable
        | Some None => TFail
        | Some (Some enter) =>
          match enter, els with
          | false, Some b =>
            match run_nodes f sc1 b with TOk o s sc2 => TOk o s (tl sc2) | r => r end
          | _, _ =>
            match for_passes f cond post body sc1 with
            | TOk o _ sc2 => TOk o SigNormal (tl sc2)
            | r => r
            end
          end
        end
      | Some None => TFail
      | None => TUnprintable
      end
    | NBreak => TOk [] SigBreak sc
    | NContinue => TOk [] SigContinue sc
    | NBreakIf e =>
      match ev sc e with
      | SVal v => TOk [] (if truthy_spec v then SigBreak else SigNormal) sc
      | SErr => TFail
      | SUnspec => TUnprintable
      end
    | NContinueIf e =>
      match ev sc e with
      | SVal v => TOk [] (if truthy_spec v then SigContinue else SigNormal) sc
      | SErr => TFail
      | SUnspec => TUnprintable
      end
    (* the reserve is replaced by the insert's content, rendered where the reserve stands (in the
       scope of that place; a loop-control signal of the body ends the body and goes no further);
       by the value of the expression form; by nothing when the page inserts nothing *)
    | NReserve _ _ (Some b) _ =>
      match run_nodes f sc b with TOk o _ sc1 => TOk o SigNormal sc1 | r => r end
    | NReserve _ _ None (Some e) =>
      match ev sc e with
      | SVal v => match value_string v with Some s => TOk s SigNormal sc | None => TUnprintable end
      | SErr => TFail
      | SUnspec => TUnprintable
      end
    | NReserve _ _ None None => TOk [] SigNormal sc
    (* the component file rendered with every argument bound, in a fresh scope on top of the
       scope of the place of use (the surrounding variables stay visible); the caller's scopes are
       what they were *)
    | NComponent _ _ args body =>
      match (match args with
             | Some ps => bind_spec sc (asort ps) ([] :: sc)
             | None => Some (Some ([] :: sc))
             end) with
      | None => TUnprintable
      | Some None => TFail
      | Some (Some sc1) =>
        match run_nodes f sc1 body with
        | TOk o SigNormal sc2 => TOk o SigNormal (tl sc2)
        | TOk _ _ _ => TUnprintable     (* @break / @continue loose in a component file: nothing is claimed *)
        | r => r
        end
      end
    (* a placeholder shows the body the caller passed, rendered where the placeholder stands *)
    | NSlot _ (Some b) =>
      match run_nodes f sc b with TOk o _ sc1 => TOk o SigNormal sc1 | r => r end
    | NSlot _ None => TOk [] SigNormal sc
    end
  end

(* the passes of @each: one loop scope for all passes, v and loop rebound per pass *)
with each_passes (fuel : nat) (v : bytes) (body : list tnode) (len i : nat) (elems : list value)
                 (sc : scopes) {struct fuel} : tres :=
  match fuel with
  | O => TNoFuel
  | S f =>
    match elems with
    | [] => TOk [] SigNormal sc
    | x :: rest =>
      match assign sc v x with
      | None => TFail
      | Some sc1 =>
        match run_nodes f (set_meta sc1 i len) body with
        | TOk o SigBreak sc2 => TOk o SigNormal sc2
        | TOk o _ sc2 =>
          match each_passes f v body len (S i) rest sc2 with
          | TOk o2 s sc3 => TOk (o ++ o2) s sc3
          | r => r
          end
        | r => r
        end
      end
    end
  end

with for_passes (fuel : nat) (cond : option sexpr) (post : option fpost) (body : list tnode)
                (sc : scopes) {struct fuel} : tres :=
  match fuel with
  | O => TNoFuel
  | S f =>
    match (match cond with Some c => match ev sc c with SVal v => Some (Some (truthy_spec v))
                                                  | SErr => Some None | SUnspec => None end
                          | None => Some (Some true) end) with
    | None => TUnprintable
    | Some None => TFail
    | Some (Some false) => TOk [] SigNormal sc
    | Some (Some true) =>
      match run_nodes f sc body with
      | TOk o SigBreak sc1 => TOk o SigNormal sc1
      | TOk o _ sc1 =>
        let step (r : sres) (x : bytes) : option (option scopes) :=
          match r with SVal v => Some (assign sc1 x v) | SErr => Some None | SUnspec => None end in
        let after :=
          match post with
          | None => Some (Some sc1)
          | Some (PostInc x) => step (ev sc1 (XInc (XVar x))) x
          | Some (PostDec x) => step (ev sc1 (XDec (XVar x))) x
          | Some (PostAssign x e) => step (ev sc1 e) x
          end in
        match after with
        | None => TUnprintable
        | Some None => TFail
        | Some (Some sc2) =>
          match for_passes f cond post body sc2 with
          | TOk o2 s sc3 => TOk (o ++ o2) s sc3
          | r => r
          end
        end
      | r => r
      end
    end
  end.

(* the name loop can never be supplied as data *)
Definition run_template (fuel : nat) (data : list (bytes * value)) (ns : list tnode) : tres :=
  match alookup loop_name data with
  | Some _ => TFail
  | None => run_nodes fuel [data] ns
  end.

End TemplateSem.

(* ---- printer *)
Definition code (e : sexpr) : bytes := render_expr e [] [].

Definition post_text (p : fpost) : bytes :=
  match p with
  | PostInc x => x ++ bs "++"
  | PostDec x => x ++ bs "--"
  | PostAssign x e => x ++ bs " = " ++ code e
  end.

Fixpoint print_nodes (fuel : nat) (ns : list tnode) {struct fuel} : bytes :=
  match fuel with
  | O => []
  | S f =>
    let blk := print_nodes f in
    let opt_else (els : option (list tnode)) :=
      match els with Some b => bs "@else" ++ blk b | None => [] end in
    concat (map (fun n =>
      match n with
      | NText s => s
      | NPrint e => bs "{{ " ++ code e ++ bs " }}"
      | NAssign x e => bs "{{ " ++ x ++ bs " = " ++ code e ++ bs " }}"
      | NIf c thn elifs els =>
        bs "@if(" ++ code c ++ bs ")" ++ blk thn ++
        concat (map (fun cb => bs "@elseif(" ++ code (fst cb) ++ bs ")" ++ blk (snd cb)) elifs) ++
        opt_else els ++ bs "@end"
      | NEach v arr body els =>
        bs "@each(" ++ v ++ bs " in " ++ code arr ++ bs ")" ++ blk body ++ opt_else els ++ bs "@end"
      | NFor init cond post body els =>
        bs "@for(" ++ (match init with Some (x, e) => x ++ bs " = " ++ code e | None => [] end) ++ bs "; " ++
        (match cond with Some c => code c | None => [] end) ++ bs "; " ++
        (match post with Some p => post_text p | None => [] end) ++ bs ")" ++
        blk body ++ opt_else els ++ bs "@end"
      | NBreak => bs "@break"
      | NContinue => bs "@continue"
      | NBreakIf e => bs "@breakIf(" ++ code e ++ bs ")"
      | NContinueIf e => bs "@continueIf(" ++ code e ++ bs ")"
      | NReserve n _ _ _ => bs "@reserve(" ++ [34] ++ n ++ [34] ++ bs ")"
      | NComponent n _ _ _ => bs "@component(" ++ [34] ++ n ++ [34] ++ bs ")"
      | NSlot n _ => bs "@slot(" ++ [34] ++ n ++ [34] ++ bs ")"
      end) ns)
  end.

Definition print_template (ns : list tnode) : bytes := print_nodes 64 ns.
