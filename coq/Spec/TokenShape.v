(* The shape of a token stream that the termination and rejection theorems about the parser
   (Proofs/ParseTotal.v, Proofs/ParseReject.v) take as hypotheses, and that the lexer theorems
   (Proofs/LexAll.v) and the oracle of C08 establish for what the lexer produces.  No proofs
   here: the definitions are also extracted and evaluated on every generated input. *)
From TW Require Import Bytes GenToken Lexer.

Definition is_termT (t : tok) : bool := tok_eqb t T_EOF || tok_eqb t T_ILLEGAL.

(* the last token is EOF or ILLEGAL *)
Fixpoint tinv (ts : list token) : bool :=
  match ts with
  | [] => false
  | t :: ts' => match ts' with [] => is_termT (ttype t) | _ :: _ => tinv ts' end
  end.

Definition illT (t : token) : bool := tok_eqb (ttype t) T_ILLEGAL.

(* an ILLEGAL token is followed by ILLEGAL / EOF only *)
Fixpoint sok (ts : list token) : bool :=
  match ts with
  | a :: r => (match r with b :: _ => negb (illT a) || is_termT (ttype b) | [] => true end) && sok r
  | [] => true
  end.

(* EOF is the last token, if it occurs *)
Fixpoint eol (ts : list token) : bool :=
  match ts with
  | a :: r => (match r with _ :: _ => negb (tok_eqb (ttype a) T_EOF) | [] => true end) && eol r
  | [] => true
  end.
