(* Specification for C05, written from the property text: a reference scanner for
   template sources whose only active syntax is the fixed code block "{{ <digits> }}".
   Everything else is text: it passes through byte for byte, a backslash immediately
   before "{{" or before a directive keyword is removed (and what follows is literal),
   a comment "{{-- ... --}}" disappears.  Out of domain (None): any other active syntax. *)
From Coq Require Import String.
From TW Require Import Bytes GenToken.
Open Scope N_scope.

Inductive text_result :=
| TOut (out : bytes)
| TError                 (* an unterminated comment: the render must fail *)
| TOutOfDomain.

Definition directive_words : list bytes := map (fun p => bs (fst p)) directives.

Definition starts_directive (s : bytes) : bool := existsb (fun kw => prefixb kw s) directive_words.

Fixpoint find_term (s : bytes) (k : nat) : option nat :=
  match s with
  | [] => None
  | _ :: s' => if prefixb [45; 45; 125; 125] s then Some k else find_term s' (S k)
  end.

Definition is_digit (c : N) : bool := (48 <=? c) && (c <=? 57).

(* "{{ ddd }}" at the head of s: (digits, length) *)
Definition code_block (s : bytes) : option (bytes * nat) :=
  match s with
  | 123 :: 123 :: 32 :: r =>
    let ds := (fix go (r : bytes) : bytes :=
                 match r with c :: r' => if is_digit c then c :: go r' else [] | [] => [] end) r in
    let n := List.length ds in
    if Nat.ltb 0 n && Nat.ltb n 15 && negb (prefixb [48] ds && Nat.ltb 1 n) &&
       prefixb [32; 125; 125] (skipn n r)
    then Some (ds, (3 + n + 3)%nat) else None
  | _ => None
  end.

Fixpoint scan (fuel : nat) (s : bytes) : text_result :=
  match fuel with
  | O => TOutOfDomain
  | S f =>
    match s with
    | [] => TOut []
    | c :: s' =>
      let emit (b : bytes) (rest : bytes) :=
        match scan f rest with TOut o => TOut (b ++ o) | r => r end in
      if c =? 0 then TOutOfDomain
      else if (c =? 92) && prefixb [123; 123] s' then emit [123; 123] (skipn 2 s')
      else if (c =? 92) && starts_directive s' then emit [64] (skipn 1 s')
      else if prefixb [123; 123; 45; 45] s then
        match find_term (skipn 2 s) O with
        | Some k => scan f (skipn (2 + k + 4) s)
        | None => TError
        end
      else if prefixb [123; 123] s then
        match code_block s with
        | Some (ds, n) => emit ds (skipn n s)
        | None => TOutOfDomain
        end
      else if starts_directive s then TOutOfDomain
      else emit [c] s'
    end
  end.

Definition text_spec (s : bytes) : text_result := scan (S (List.length s)) s.

(* text with no NUL, no "{{" and no '@' that starts a directive keyword *)
Fixpoint plain (s : bytes) : bool :=
  match s with
  | [] => true
  | c :: s' => negb (c =? 0) && negb (prefixb [123; 123] s) && negb (starts_directive s) && plain s'
  end.
