(* Specification for C19, written from the property text:
   line/column of a byte offset as a pure function of the source, and the
   predicates "tokens are ordered, disjoint, carry their own text, gaps are
   blank" as one boolean checker over a token list. *)
From Coq Require Import String.
From TW Require Import Bytes GenToken Lexer.
Open Scope N_scope.

(* (number of LF in input[0,k), k - offset just after the last LF before k) *)
Fixpoint lc (input : bytes) (k : nat) {struct k} : nat * nat :=
  match k with
  | O => (O, O)
  | S k' => let '(ln, cl) := lc input k' in
            if nth k' input 0 =? 10 then (S ln, O) else (ln, S cl)
  end.

(* the same function as a table for offsets 0 .. length input (executable oracle) *)
Fixpoint lc_table_from (s : bytes) (ln cl : nat) : list (nat * nat) :=
  (ln, cl) :: match s with
              | [] => []
              | c :: s' => if c =? 10 then lc_table_from s' (S ln) O else lc_table_from s' ln (S cl)
              end.
Definition lc_table (input : bytes) : list (nat * nat) := lc_table_from input O O.

Fixpoint find_pos (tbl : list (nat * nat)) (ln cl : nat) (k : nat) : option nat :=
  match tbl with
  | [] => None
  | (a, b) :: tbl' => if Nat.eqb a ln && Nat.eqb b cl then Some k else find_pos tbl' ln cl (S k)
  end.

Definition offset_of (input : bytes) (ln cl : nat) : option nat := find_pos (lc_table input) ln cl O.

Definition sub (input : bytes) (s e : nat) : bytes := firstn (S e - s) (skipn s input).

(* ---- what the bytes of a token must be, by token kind *)

Definition is_directive_prefix (s : bytes) : bool :=
  existsb (fun kw => prefixb (bs (fst kw)) s) directives.

(* text with its escape backslashes removed: a backslash immediately before "{{" or
   before a directive keyword disappears *)
Fixpoint strip_escapes (s : bytes) : bytes :=
  match s with
  | [] => []
  | c :: s' =>
    if (c =? 92) && (prefixb [123; 123] s' || is_directive_prefix s')
    then strip_escapes s' else c :: strip_escapes s'
  end.

Definition str_text_ok (text lit : bytes) : bool :=
  match text with
  | q :: r =>
    ((q =? 34) || (q =? 39)) &&
    match rev r with
    | q' :: raw_rev => (q' =? q) && bytes_eqb (replace_all [92; q] [q] (rev raw_rev)) lit
    | [] => false
    end
  | [] => false
  end.

Definition illegal_text_ok (input : bytes) (text lit : bytes) (s e : nat) : bool :=
  (* a character that cannot start a token: covers exactly that byte *)
  (Nat.eqb s e && match text with [c] => bytes_eqb lit (string_of_byte c) | _ => false end) ||
  (* an unterminated string: from the quote to the end of input *)
  (match text with
   | q :: raw => ((q =? 34) || (q =? 39)) && bytes_eqb (replace_all [92; q] [q] raw) lit
                 && Nat.eqb (S e) (List.length input)
   | [] => false end) ||
  (* an unterminated comment: from its "{{" to the end of input *)
  (prefixb [123; 123; 45; 45] text && bytes_eqb lit [123; 123; 45; 45] && Nat.eqb (S e) (List.length input)).

Definition text_ok (input : bytes) (t : token) (s e : nat) : bool :=
  let text := sub input s e in
  match ttype t with
  | T_HTML => bytes_eqb (strip_escapes text) (tlit t)
  | T_STR => str_text_ok text (tlit t)
  | T_ILLEGAL => illegal_text_ok input text (tlit t) s e
  | _ => bytes_eqb text (tlit t)
  end.

(* ---- gaps: whitespace and complete comments *)
Fixpoint find_sub (pat s : bytes) (k : nat) : option nat :=
  match s with
  | [] => None
  | _ :: s' => if prefixb pat s then Some k else find_sub pat s' (S k)
  end.

Fixpoint gap_ok_fuel (fuel : nat) (allow_ws : bool) (g : bytes) : bool :=
  match fuel with
  | O => false
  | S f =>
    match g with
    | [] => true
    | c :: g' =>
      if prefixb [123; 123; 45; 45] g then
        (* the terminator is searched from the opening dashes on *)
        match find_sub [45; 45; 125; 125] (skipn 2 g) O with
        | Some k => gap_ok_fuel f allow_ws (skipn (2 + k + 4) g)
        | None => false
        end
      else allow_ws && isWs c && gap_ok_fuel f allow_ws g'
    end
  end.
Definition gap_ok (allow_ws : bool) (g : bytes) : bool := gap_ok_fuel (S (List.length g)) allow_ws g.

Definition is_html (t : tok) : bool := tok_eqb t T_HTML.

(* walks the tokens; [next] is the first offset not yet covered, [prev_html] whether the
   previous token was text.  Returns None when everything holds, else a reason code. *)
Fixpoint check_from (input : bytes) (ts : list token) (next : nat) (prev_html : bool) : option nat :=
  match ts with
  | [] => Some 1%nat                                   (* stream without an end *)
  | t :: ts' =>
    match offset_of input (tsl t) (tsc t), offset_of input (tel t) (tec t) with
    | Some s, Some e =>
      if tok_eqb (ttype t) T_EOF then
        match ts' with
        | [] =>
          if negb (Nat.eqb s (List.length input) && Nat.eqb e (List.length input)) then Some 2%nat
          else if negb (gap_ok (negb prev_html) (skipn next input)) then Some 3%nat
          else None
        | _ => Some 4%nat                               (* tokens after EOF *)
        end
      else if Nat.ltb s next then Some 5%nat            (* overlap / out of order *)
      else if Nat.ltb e s then Some 6%nat               (* ends before it starts *)
      else if Nat.leb (List.length input) e then Some 7%nat
      else if negb (gap_ok (negb prev_html) (sub input next (Nat.pred s)) || Nat.eqb next s)
           then Some 8%nat
      else if negb (text_ok input t s e) then Some 9%nat
      else match ts' with
           | [] => if tok_eqb (ttype t) T_ILLEGAL then None else Some 1%nat
           | _ => check_from input ts' (S e) (is_html (ttype t))
           end
    | _, _ => Some 10%nat                               (* a position that is no offset of the input *)
    end
  end.

Definition check_tokens (input : bytes) (ts : list token) : option nat := check_from input ts O false.

(* cursor containment (token/position.go Contains) *)
Definition contains (t : token) (ln cl : nat) : bool :=
  negb (Nat.ltb ln (tsl t) || Nat.ltb (tel t) ln) &&
  negb (Nat.eqb ln (tsl t) && Nat.ltb cl (tsc t)) &&
  negb (Nat.eqb ln (tel t) && Nat.ltb (tec t) cl).
