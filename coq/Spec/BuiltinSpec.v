(* Specification for C11, written from the property text: the contract of each
   built-in function over characters (code points) and value lists.  Characters are
   what Go's UTF-8 decoder yields (Builtins.runes / encode_runes are the shared,
   modelled library functions); everything else is stated independently of the model. *)
From Coq Require Import String.
From TW Require Import Bytes Floats Values Builtins Expr.
Open Scope N_scope.

Definition chars_of (s : bytes) : list N := runes s.
Definition of_chars (l : list N) : bytes := encode_runes l.

Definition nlen {A} (l : list A) : Z := Z.of_nat (List.length l).

(* clamp an index into [0, len] *)
Definition clamp0 (len x : Z) : Z := Z.max 0 (Z.min len x).

Definition ascii_up (c : N) : N := if (97 <=? c) && (c <=? 122) then c - 32 else c.
Definition ascii_low (c : N) : N := if (65 <=? c) && (c <=? 90) then c + 32 else c.

Definition in_set (cut : bytes) (c : N) : bool := existsb (N.eqb c) cut.
Fixpoint drop_while (p : N -> bool) (s : bytes) : bytes :=
  match s with c :: s' => if p c then drop_while p s' else s | [] => [] end.

Definition ws_set : bytes := [9; 32; 10; 13].

Fixpoint zeros (n : nat) : bytes := match n with O => [] | S n' => 48 :: zeros n' end.

(* is the text an optionally signed run of decimal digits that fits an int64 *)
Definition looks_int (s : bytes) : bool := str_is_int s.

Definition spec_str (fn : bytes) (s : bytes) (args : list value) : sres :=
  let is := bytes_eqb fn in
  let cs := chars_of s in
  if is (bs "len") then SVal (VInt (nlen cs))
  else if is (bs "reverse") then SVal (VStr (of_chars (rev cs)))
  else if is (bs "at") || is (bs "first") || is (bs "last") then
    match (if is (bs "first") then Some 0%Z else if is (bs "last") then Some (-1)%Z
           else match args with [] => Some 0%Z | VInt i :: _ => Some i | _ => None end) with
    | None => SErr
    | Some i =>
      let j := if (i <? 0)%Z then (nlen cs + i)%Z else i in
      if (j <? 0)%Z || (nlen cs <=? j)%Z then SVal VNil
      else SVal (VStr (of_chars [nth (Z.to_nat j) cs 0]))
    end
  else if is (bs "truncate") then
    match args with
    | VInt n :: rest =>
      let n' := Z.max 0 n in
      if (nlen cs <=? n')%Z then SVal (VStr s) else
      match rest with
      | [] => SVal (VStr (of_chars (firstn (Z.to_nat n') cs) ++ bs "..."))
      | VStr e :: _ => SVal (VStr (of_chars (firstn (Z.to_nat n') cs) ++ e))
      | _ => SErr
      end
    | _ => SErr
    end
  else if is (bs "capitalize") then
    match s with
    | [] => SVal (VStr [])
    | c :: r => if c <? 128 then SVal (VStr (ascii_up c :: r)) else SUnspec
    end
  else if is (bs "upper") then if is_ascii s then SVal (VStr (map ascii_up s)) else SUnspec
  else if is (bs "lower") then if is_ascii s then SVal (VStr (map ascii_low s)) else SUnspec
  else if is (bs "contains") then
    match args with VStr sub :: _ => SVal (VBool (containsb sub s)) | _ => SErr end
  else if is (bs "trim") || is (bs "trimLeft") || is (bs "trimRight") then
    match (match args with [] => Some ws_set | VStr c :: _ => Some c | _ => None end) with
    | None => SErr
    | Some cut =>
      if negb (is_ascii cut) then SUnspec else
      let l := if is (bs "trimRight") then s else drop_while (in_set cut) s in
      let r := if is (bs "trimLeft") then l else rev (drop_while (in_set cut) (rev l)) in
      SVal (VStr r)
    end
  else if is (bs "repeat") then
    match args with
    | VInt n :: _ => if (n <=? 0)%Z then SVal (VStr [])
                     else match s with [] => SVal (VStr []) | _ =>
                     (* an oversized result (longer than the limit read from the source) is refused *)
                     if repeat_too_long s n then SErr
                     else if (1000 <? n)%Z then SUnspec
                     else SVal (VStr (concat (repeat s (Z.to_nat n)))) end
    | _ => SErr
    end
  else if is (bs "decimal") then
    (* wrong argument kinds are an error for every receiver; a text that is no integer is returned as it is *)
    match args with
    | [] => if negb (looks_int s) then SVal (VStr s) else SVal (VStr (s ++ bs ".00"))
    | [VStr sep] => if negb (looks_int s) then SVal (VStr s) else SVal (VStr (s ++ sep ++ bs "00"))
    | [VStr sep; VInt d] => if negb (looks_int s) then SVal (VStr s)
                            else if (d <=? 0)%Z then SVal (VStr s)
                            else if (1000 <? d)%Z then SUnspec
                            else SVal (VStr (s ++ sep ++ zeros (Z.to_nat d)))
    | _ => SErr
    end
  else if is (bs "split") then
    match (match args with [] => Some [32] | VStr c :: _ => Some c | _ => None end) with
    | Some sep => SVal (VArr (map VStr (split sep s)))
    | None => SErr
    end
  else if is (bs "raw") then match unescape s with Some t => SVal (VStr t) | None => SUnspec end
  else SErr.

Definition firstn_z {A} (n : Z) (l : list A) : list A := firstn (Z.to_nat n) l.

Definition spec_arr (fn : bytes) (l : list value) (args : list value) : sres :=
  let is := bytes_eqb fn in
  if is (bs "len") then SVal (VInt (nlen l))
  else if is (bs "reverse") then SVal (VArr (rev l))
  else if is (bs "append") then match args with [] => SErr | _ => SVal (VArr (l ++ args)) end
  else if is (bs "prepend") then match args with [] => SErr | _ => SVal (VArr (args ++ l)) end
  else if is (bs "contains") then
    match args with x :: _ => SVal (VBool (existsb (fun e => value_eqb e x) l)) | [] => SErr end
  else if is (bs "slice") then
    match args with
    | [VInt a] => SVal (VArr (skipn (Z.to_nat (clamp0 (nlen l) a)) l))
    | VInt a :: VInt b :: _ =>
      let st := clamp0 (nlen l) a in
      let en := if (b <? 0)%Z || (nlen l <? b)%Z then nlen l else b in
      if (en <=? st)%Z then SVal (VArr [])
      else SVal (VArr (firstn (Z.to_nat (en - st)) (skipn (Z.to_nat st) l)))
    | _ => SErr
    end
  else if is (bs "join") then
    match (match args with [] => Some [44] | VStr c :: _ => Some c | _ => None end) with
    | Some sep => match all_some (map value_string l) with
                  | Some ss => SVal (VStr (join sep ss)) | None => SUnspec end
    | None => SErr
    end
  else if is (bs "shuffle") then
    (* a permutation of the receiver: determined for fewer than two elements, any permutation otherwise *)
    match l with [] | [_] => SVal (VArr l) | _ => SUnspec end
  else if is (bs "rand") then SVal (match l with [] => VNil | x :: _ => x end)
      (* "an element": the implementation returns the first; any element would meet the contract *)
  else SErr.

Definition spec_int (fn : bytes) (z : Z) (args : list value) : sres :=
  let is := bytes_eqb fn in
  if is (bs "abs") then SVal (VInt (wrap64 (Z.abs z)))
  else if is (bs "str") then SVal (VStr (Z_to_dec z))
  else if is (bs "float") then SVal (VFloat (f_ofZ z))
  else if is (bs "len") then SVal (VInt (nlen (Z_to_dec (Z.abs z))))
  else if is (bs "decimal") then spec_str fn (Z_to_dec z) args
  else SErr.

Definition spec_float (fn : bytes) (x : f64) (args : list value) : sres :=
  let is := bytes_eqb fn in
  if is (bs "abs") then SVal (VFloat (if f_ltb x (f_ofZ 0) then f_neg x else x))
  else if is (bs "int") then SVal (VInt (f_to_int x))
  else if is (bs "ceil") then SVal (VInt (f_to_int (f_ceil x)))
  else if is (bs "floor") then SVal (VInt (f_to_int (f_floor x)))
  else if is (bs "round") then SVal (VInt (f_to_int (f_round x)))
  else if is (bs "str") then match f_format x with Some s => SVal (VStr s) | None => SUnspec end
  else SErr.

Definition spec_bool (fn : bytes) (b : bool) (args : list value) : sres :=
  let is := bytes_eqb fn in
  if is (bs "binary") then SVal (VInt (if b then 1 else 0))
  else if is (bs "then") then
    match args with
    | [] => SErr
    | [a] => SVal (if b then a else VNil)
    | a :: c :: _ => SVal (if b then a else c)
    end
  else SErr.

Definition builtin_spec (recv : value) (fn : bytes) (args : list value) : sres :=
  match recv with
  | VStr s => spec_str fn s args
  | VArr l => spec_arr fn l args
  | VInt z => spec_int fn z args
  | VFloat x => spec_float fn x args
  | VBool b => spec_bool fn b args
  | _ => SErr
  end.

(* valid UTF-8 in, valid UTF-8 out *)
Fixpoint value_utf8_ok (v : value) : bool :=
  match v with
  | VStr s => utf8_valid s
  | VArr l => forallb value_utf8_ok l
  | _ => true
  end.
