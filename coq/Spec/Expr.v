(* Specification for C01, written from the property text: expression trees,
   precedence LEVELS (not Go's numbers), the textbook minimal-parenthesis
   printer with a layout oracle (separators, redundant parentheses), and the
   value semantics (wrapping int64, IEEE-754 binary64, byte strings). *)
From Coq Require Import String.
From TW Require Import Bytes Floats Values.
Open Scope N_scope.

Inductive binop := BAdd | BSub | BMul | BDiv | BMod | BEq | BNe | BLt | BGt | BLe | BGe.

Inductive sexpr :=
| XInt (z : Z)                         (* non-negative literal *)
| XFloat (m : Z) (k : nat)             (* the literal with digits m and k > 0 fractional digits *)
| XStr (s : bytes) (dq : bool)         (* content, double-quoted? *)
| XBool (b : bool)
| XNil
| XVar (name : bytes)
| XNeg (e : sexpr)
| XNot (e : sexpr)
| XInc (e : sexpr)
| XDec (e : sexpr)
| XBin (op : binop) (l r : sexpr)
| XTern (c a b : sexpr)
| XIndex (l i : sexpr)
| XProp (l : sexpr) (name : bytes)
| XCall (recv : sexpr) (fname : bytes) (args : list sexpr)
| XArr (els : list sexpr)
| XObj (pairs : list (bytes * sexpr)).

(* ternary < equality < comparison < additive < multiplicative < member access < prefix
   < index < postfix; atoms above everything *)
Inductive level := LTernary | LEq | LCmp | LAdd | LMul | LMember | LPrefix | LIndex | LPostfix | LAtom.

Definition lnum (l : level) : nat :=
  match l with
  | LTernary => 1 | LEq => 2 | LCmp => 3 | LAdd => 4 | LMul => 5 | LMember => 6
  | LPrefix => 7 | LIndex => 8 | LPostfix => 9 | LAtom => 10
  end%nat.

Definition op_level (o : binop) : level :=
  match o with
  | BEq | BNe => LEq
  | BLt | BGt | BLe | BGe => LCmp
  | BAdd | BSub => LAdd
  | BMul | BDiv | BMod => LMul
  end.

Definition level_of (e : sexpr) : level :=
  match e with
  | XTern _ _ _ => LTernary
  | XBin o _ _ => op_level o
  | XProp _ _ | XCall _ _ _ => LMember
  | XNeg _ | XNot _ => LPrefix
  | XIndex _ _ => LIndex
  | XInc _ | XDec _ => LPostfix
  | _ => LAtom
  end.

(* forms whose last operand is an open expression: a following suffix operator would be
   absorbed by that operand *)
Definition right_open (e : sexpr) : bool :=
  match e with
  | XTern _ _ _ | XBin _ _ _ | XNeg _ | XNot _ => true
  | _ => false
  end.

(* the lowest level met on the unparenthesised left spine of a postfix chain: in  - o.k++  the
   operand of the prefix operator is printed  o.k++ , whose leftmost operator is the member access;
   a prefix operator (level LPrefix) would take only  o  as its operand *)
Fixpoint spine_low (e : sexpr) : nat :=
  match e with
  | XInc x | XDec x | XIndex x _ => if right_open x then lnum (level_of e) else Nat.min (lnum (level_of e)) (spine_low x)
  | _ => lnum (level_of e)
  end.

(* ---- lexical items of the printer *)
Inductive ptok :=
| PInt (z : Z) | PFloat (m : Z) (k : nat) | PStr (s : bytes) (dq : bool)
| PWord (w : bytes)                    (* identifiers and keywords *)
| PSym (s : bytes).                    (* operators and punctuation *)

Definition op_sym (o : binop) : bytes :=
  bs (match o with
      | BAdd => "+" | BSub => "-" | BMul => "*" | BDiv => "/" | BMod => "%"
      | BEq => "==" | BNe => "!=" | BLt => "<" | BGt => ">" | BLe => "<=" | BGe => ">="
      end)%string.

(* the layout: an infinite-by-repetition supply of redundant-parenthesis choices *)
Definition paren_supply := list bool.
Definition take_paren (ps : paren_supply) : bool * paren_supply :=
  match ps with [] => (false, []) | b :: ps' => (b, ps') end.

Definition wrap (b : bool) (ts : list ptok) : list ptok :=
  if b then PSym [40] :: ts ++ [PSym [41]] else ts.

Fixpoint sep_list (sep : list ptok) (l : list (list ptok)) : list ptok :=
  match l with
  | [] => []
  | [x] => x
  | x :: l' => x ++ sep ++ sep_list sep l'
  end.

(* toks need ps e: tokens of e, parenthesised when [need] says so or the layout asks;
   returns the remaining supply *)
Fixpoint toks (fuel : nat) (ps : paren_supply) (need : bool) (e : sexpr) {struct fuel}
  : list ptok * paren_supply :=
  match fuel with
  | O => ([], ps)
  | S f =>
    let '(extra, ps0) := take_paren ps in
    let sub (ps : paren_supply) (need : bool) (x : sexpr) := toks f ps need x in
    let subs := fix go (ps : paren_supply) (xs : list sexpr) : list (list ptok) * paren_supply :=
      match xs with
      | [] => ([], ps)
      | x :: xs' => let '(t, ps1) := sub ps false x in
                    let '(ts, ps2) := go ps1 xs' in (t :: ts, ps2)
      end in
    let '(body, ps') :=
      match e with
      | XInt z => ([PInt z], ps0)
      | XFloat m k => ([PFloat m k], ps0)
      | XStr s dq => ([PStr s dq], ps0)
      | XBool b => ([PWord (if b then bs "true" else bs "false")], ps0)
      | XNil => ([PWord (bs "nil")], ps0)
      | XVar n => ([PWord n], ps0)
      | XNeg x =>
        let '(t, p1) := sub ps0 (Nat.ltb (spine_low x) (lnum LPrefix)) x in (PSym [45] :: t, p1)
      | XNot x =>
        let '(t, p1) := sub ps0 (Nat.ltb (spine_low x) (lnum LPrefix)) x in (PSym [33] :: t, p1)
      | XInc x =>
        let '(t, p1) := sub ps0 (right_open x) x in (t ++ [PSym [43; 43]], p1)
      | XDec x =>
        let '(t, p1) := sub ps0 (right_open x) x in (t ++ [PSym [45; 45]], p1)
      | XBin o l r =>
        let lv := lnum (op_level o) in
        let '(tl, p1) := sub ps0 (Nat.ltb (lnum (level_of l)) lv) l in
        let '(tr, p2) := sub p1 (Nat.leb (lnum (level_of r)) lv) r in
        (tl ++ [PSym (op_sym o)] ++ tr, p2)
      | XTern c a b =>
        let '(tc, p1) := sub ps0 (Nat.leb (lnum (level_of c)) (lnum LTernary)) c in
        let '(ta, p2) := sub p1 (Nat.leb (lnum (level_of a)) (lnum LTernary)) a in
        let '(tb, p3) := sub p2 false b in
        (tc ++ [PSym [63]] ++ ta ++ [PSym [58]] ++ tb, p3)
      | XIndex l i =>
        let '(tl, p1) := sub ps0 (right_open l) l in
        let '(ti, p2) := sub p1 false i in
        (tl ++ [PSym [91]] ++ ti ++ [PSym [93]], p2)
      | XProp l n =>
        let '(tl, p1) := sub ps0 (right_open l && Nat.ltb (lnum (level_of l)) (lnum LMember)) l in
        (tl ++ [PSym [46]; PWord n], p1)
      | XCall r fn args =>
        let '(tr, p1) := sub ps0 (right_open r && Nat.ltb (lnum (level_of r)) (lnum LMember)) r in
        let '(tas, p2) := subs p1 args in
        (tr ++ [PSym [46]; PWord fn; PSym [40]] ++ sep_list [PSym [44]] tas ++ [PSym [41]], p2)
      | XArr els =>
        let '(tes, p1) := subs ps0 els in
        ([PSym [91]] ++ sep_list [PSym [44]] tes ++ [PSym [93]], p1)
      | XObj pairs =>
        let '(tes, p1) :=
          (fix go (ps : paren_supply) (xs : list (bytes * sexpr)) : list (list ptok) * paren_supply :=
             match xs with
             | [] => ([], ps)
             | (k, x) :: xs' => let '(t, ps1) := sub ps false x in
                                let '(ts, ps2) := go ps1 xs' in
                                ((PWord k :: PSym [58] :: t) :: ts, ps2)
             end) ps0 pairs in
        ([PSym [123]] ++ sep_list [PSym [44]] tes ++ [PSym [125]], p1)
      end in
    (wrap (need || extra) body, ps')
  end.

Fixpoint size (e : sexpr) : nat :=
  S (match e with
     | XNeg x | XNot x | XInc x | XDec x => size x
     | XBin _ l r => size l + size r
     | XTern c a b => size c + size a + size b
     | XIndex l i => size l + size i
     | XProp l _ => size l
     | XCall r _ args => size r + fold_right (fun x n => size x + n) O args
     | XArr els => fold_right (fun x n => size x + n) O els
     | XObj pairs => fold_right (fun kx n => size (snd kx) + n) O pairs
     | _ => O
     end)%nat.

(* ---- text of the tokens *)
Definition float_text (m : Z) (k : nat) : bytes :=
  let ds := Z_to_dec m in
  let ds' := repeat 48 (S k - List.length ds) ++ ds in
  firstn (List.length ds' - k) ds' ++ [46] ++ skipn (List.length ds' - k) ds'.

Fixpoint escape_quote (q : N) (s : bytes) : bytes :=
  match s with
  | [] => []
  | c :: s' => if c =? q then 92 :: c :: escape_quote q s' else c :: escape_quote q s'
  end.

Definition ptok_text (t : ptok) : bytes :=
  match t with
  | PInt z => Z_to_dec z
  | PFloat m k => float_text m k
  | PStr s dq => let q := if dq then 34 else 39 in [q] ++ escape_quote q s ++ [q]
  | PWord w => w
  | PSym s => s
  end.

(* separators come from the layout, at least one byte of blank between any two tokens *)
Definition seps_table : list bytes :=
  [[32]; [10]; [9]; [32; 32]; [13; 10]; [32; 10; 32]; [10; 10]; [9; 32]].

Fixpoint render_toks (ts : list ptok) (seps : list nat) : bytes :=
  match ts with
  | [] => []
  | [t] => ptok_text t
  | t :: ts' =>
    let '(s, seps') := match seps with [] => (O, []) | s :: r => (s, r) end in
    ptok_text t ++ nth (s mod 8)%nat seps_table [32] ++ render_toks ts' seps'
  end.

Definition render_expr (e : sexpr) (ps : paren_supply) (seps : list nat) : bytes :=
  render_toks (fst (toks (S (size e)) ps false e)) seps.

(* ---- value semantics *)
(* SUnspec: the expression leaves the domain of this specification (non-ASCII case
   mapping, text of a float outside the printable class): nothing is claimed *)
Inductive sres := SVal (v : value) | SErr | SUnspec.

Definition sbind (r : sres) (k : value -> sres) : sres :=
  match r with SVal v => k v | SErr => SErr | SUnspec => SUnspec end.

(* HTML-escaping of literal text as the property states it: no raw < > &, quotes kept *)
Definition esc_spec (s : bytes) : bytes :=
  concat (map (fun c => if c =? 38 then bs "&amp;" else if c =? 60 then bs "&lt;"
                        else if c =? 62 then bs "&gt;" else [c]) s).

Definition truthy_spec (v : value) : bool :=
  match v with
  | VBool false | VNil => false
  | VInt z => negb (z =? 0)%Z
  | VFloat f => negb (f_is_zero f)
  | VStr [] => false
  | _ => true
  end.

Definition cmp_int (o : binop) (a b : Z) : bool :=
  match o with
  | BEq => (a =? b)%Z | BNe => negb (a =? b)%Z | BLt => (a <? b)%Z | BGt => (b <? a)%Z
  | BLe => (a <=? b)%Z | BGe => (b <=? a)%Z | _ => false
  end.

Definition cmp_float (o : binop) (a b : f64) : bool :=
  match o with
  | BEq => f_eqb a b | BNe => negb (f_eqb a b) | BLt => f_ltb a b | BGt => f_ltb b a
  | BLe => f_leb a b | BGe => f_leb b a | _ => false
  end.

Definition sem_bin (o : binop) (a b : value) : sres :=
  match a, b with
  | VInt x, VInt y =>
    match o with
    | BAdd => SVal (VInt (wrap64 (x + y)))
    | BSub => SVal (VInt (wrap64 (x - y)))
    | BMul => SVal (VInt (wrap64 (x * y)))
    | BDiv => if (y =? 0)%Z then SErr else SVal (VInt (wrap64 (Z.quot x y)))
    | BMod => if (y =? 0)%Z then SErr else SVal (VInt (wrap64 (Z.rem x y)))
    | _ => SVal (VBool (cmp_int o x y))
    end
  | VFloat x, VFloat y =>
    match o with
    | BAdd => SVal (VFloat (f_add x y))
    | BSub => SVal (VFloat (f_sub x y))
    | BMul => SVal (VFloat (f_mul x y))
    | BDiv => SVal (VFloat (f_div x y))
    | BMod => SErr
    | _ => SVal (VBool (cmp_float o x y))
    end
  | VStr x, VStr y =>
    match o with
    | BAdd => SVal (VStr (x ++ y))
    | BEq => SVal (VBool (bytes_eqb x y))
    | BNe => SVal (VBool (negb (bytes_eqb x y)))
    | _ => SErr
    end
  | _, _ => SErr       (* mixed operand types and the remaining value kinds *)
  end.

Definition lookup_prop (m : list (bytes * value)) (k : bytes) : sres :=
  match alookup k m with
  | Some v => SVal v
  | None =>
    match k with
    | c :: r =>
      if (97 <=? c) && (c <=? 122) then
        match alookup ((c - 32) :: r) m with Some v => SVal v | None => SErr end
      else if c <? 128 then SErr
      else SUnspec     (* a name that starts in the middle of a non-ASCII character: nothing is specified *)
    | [] => SErr
    end
  end.

(* the values of a list of expressions, left to right: the first one that is not a value decides *)
Inductive lres (A : Type) := LVal (l : list A) | LErr | LUnspec.
Arguments LVal {A} l.
Arguments LErr {A}.
Arguments LUnspec {A}.

(* "literal".raw() : the one call whose meaning C10 fixes *)
Definition raw_literal (r : sexpr) (fn : bytes) (args : list sexpr) : option bytes :=
  match r, args with
  | XStr lit _, [] => if bytes_eqb fn [114; 97; 119] then Some lit else None
  | _, _ => None
  end.

Section Sem.
(* the meaning of built-in calls is the subject of C11; C01 takes it as a parameter *)
Variable call_spec : value -> bytes -> list value -> sres.

Fixpoint sem (fuel : nat) (env : list (bytes * value)) (e : sexpr) {struct fuel} : sres :=
  match fuel with
  | O => SErr
  | S f =>
    let sems := fix go (xs : list sexpr) : lres value :=
      match xs with
      | [] => LVal []
      | x :: xs' => match sem f env x with
                    | SVal v => match go xs' with LVal vs => LVal (v :: vs) | LErr => LErr | LUnspec => LUnspec end
                    | SErr => LErr
                    | SUnspec => LUnspec
                    end
      end in
    match e with
    | XInt z => if (0 <=? z)%Z && (z <=? 9223372036854775807)%Z then SVal (VInt z) else SErr
    | XFloat m k =>
      (* the correctly rounded binary64 of the decimal text: digits / 10^k in one rounding
         (Floats.f_of_lit, the shared model of strconv.ParseFloat on the printable class) *)
      match f_of_lit (float_text m k) with Some x => SVal (VFloat x) | None => SUnspec end
    | XStr s _ => SVal (VStr (esc_spec s))
    | XBool b => SVal (VBool b)
    | XNil => SVal VNil
    | XVar n => match alookup n env with Some v => SVal v | None => SErr end
    | XNeg x =>
      sbind (sem f env x) (fun v =>
        match v with
        | VInt z => SVal (VInt (wrap64 (- z)))
        | VFloat x => SVal (VFloat (f_neg x))
        | _ => SErr
        end)
    | XNot x =>
      sbind (sem f env x) (fun v =>
        match v with
        | VBool b => SVal (VBool (negb b))
        | VNil => SVal (VBool true)
        | _ => SErr
        end)
    | XInc x =>
      sbind (sem f env x) (fun v =>
        match v with
        | VInt z => SVal (VInt (wrap64 (z + 1)))
        | VFloat x => SVal (VFloat (f_add x f_one))
        | _ => SErr
        end)
    | XDec x =>
      sbind (sem f env x) (fun v =>
        match v with
        | VInt z => SVal (VInt (wrap64 (z - 1)))
        | VFloat x =>
          (* the decrement of a float is specified where its decimal text is exact *)
          match f_format x with Some _ => SVal (VFloat (f_sub x f_one)) | None => SUnspec end
        | _ => SErr
        end)
    | XBin o l r =>
      sbind (sem f env l) (fun a => sbind (sem f env r) (fun b => sem_bin o a b))
    | XTern c a b =>
      sbind (sem f env c) (fun v => if truthy_spec v then sem f env a else sem f env b)
    | XIndex l i =>
      sbind (sem f env l) (fun a => sbind (sem f env i) (fun b =>
        match a, b with
        | VArr els, VInt k =>
          if (k <? 0)%Z || (Z.of_nat (List.length els) <=? k)%Z then SVal VNil
          else SVal (nth (Z.to_nat k) els VNil)
        | VObj m, VStr k => lookup_prop m k
        | _, _ => SErr
        end))
    | XProp l n =>
      sbind (sem f env l) (fun a =>
        match a with VObj m => lookup_prop m n | _ => SErr end)
    | XCall r fn args =>
      match raw_literal r fn args with
      | Some lit => SVal (VStr lit)                 (* "lit".raw() is the original text *)
      | None =>
      sbind (sem f env r) (fun rv =>
        match sems args with
        | LVal avs => call_spec rv fn avs
        | LErr => SErr
        | LUnspec => SUnspec
        end)
      end
    | XArr els =>
      match sems els with LVal vs => SVal (VArr vs) | LErr => SErr | LUnspec => SUnspec end
    | XObj pairs =>
      (* a Go map: the entries are evaluated and stored in key order *)
      match (fix go (xs : list (bytes * sexpr)) : lres (bytes * value) :=
               match xs with
               | [] => LVal []
               | (k, x) :: xs' =>
                 match sem f env x with
                 | SVal v => match go xs' with LVal vs => LVal ((k, v) :: vs) | LErr => LErr | LUnspec => LUnspec end
                 | SErr => LErr
                 | SUnspec => LUnspec
                 end
               end) (asort pairs) with
      | LVal kvs => SVal (VObj (fold_left (fun (acc : list (bytes * value)) kv =>
                                             aset (fst kv) (snd kv) acc) kvs []))
      | LErr => SErr
      | LUnspec => SUnspec
      end
    end
  end.
End Sem.

(* what a render of "{{ e }}" shows: the text of the value, or an error *)
Inductive shown := ShownText (s : bytes) | ShownError | ShownUnmodelled.

Definition show_sres (r : sres) : shown :=
  match r with
  | SErr => ShownError
  | SUnspec => ShownUnmodelled
  | SVal v => match value_string v with Some s => ShownText s | None => ShownUnmodelled end
  end.

(* ---- well-formedness of a spec expression: what the printer can spell *)
Definition ident_ok (n : bytes) : bool :=
  match n with
  | [] => false
  | c :: r =>
    (((97 <=? c) && (c <=? 122)) || ((65 <=? c) && (c <=? 90)) || (c =? 95)) &&
    forallb (fun c => ((97 <=? c) && (c <=? 122)) || ((65 <=? c) && (c <=? 90)) || (c =? 95)
                      || ((48 <=? c) && (c <=? 57))) r &&
    negb (existsb (bytes_eqb n) [bs "true"; bs "false"; bs "nil"; bs "in"])
  end.

Definition str_ok (s : bytes) : bool :=
  forallb (fun c => negb (c =? 92) && negb (c =? 0)) s.
