(* Spellings: a list of items (token type, source spelling, white space before it), the source they
   spell, the tokens they stand for with their positions, and the computable check under which
   Proofs/LexRound.v proves that the lexer model turns the one into the other.  No proofs here:
   this file is extracted, and the C19 oracle evaluates in_domain on every generated lexer input
   to report how much of the generated input lies inside the theorem's domain. *)
From Coq Require Import String ZArith.
From TW Require Import Bytes GenToken Lexer Text Positions.
Open Scope N_scope.

Record item := mkItem { ity : tok; isrc : bytes; igap : bytes }.
Record md := mkMd { mh : bool; mdir : bool; mp : Z; mb : Z }.

Definition okb (c : N) : bool := negb (c =? 0).

(* the source: the items one after the other, then a trailing gap tg *)
Fixpoint spell_t (its : list item) (tg : bytes) : bytes :=
  match its with [] => tg | it :: r => igap it ++ isrc it ++ spell_t r tg end.
Definition spell (its : list item) : bytes := spell_t its [].

(* text with its escapes removed: a backslash directly before "{{" or before a directive keyword goes *)
Fixpoint unesc (s : bytes) : bytes :=
  match s with
  | [] => []
  | c :: s' => if (c =? 92) && (prefixb [123; 123] s' || starts_directive s') then unesc s' else c :: unesc s'
  end.

(* the literal of a token spelled s: the spelling itself, except for a string - the text between
   the quotes with each backslash-quote pair replaced by the quote (strings.ReplaceAll) - and for
   text, whose escapes are removed *)
Definition lit_of (ty : tok) (s : bytes) : bytes :=
  if tok_eqb ty T_STR then replace_all [92; hd 0 s] [hd 0 s] (removelast (tl s))
  else if tok_eqb ty T_HTML then unesc s else s.

(* the token of type ty and literal lit whose first byte is at offset s and last byte at offset e *)
Definition tokAt (input : bytes) (ty : tok) (lit : bytes) (s e : nat) : token :=
  mkToken ty lit (fst (lc input s)) (snd (lc input s)) (fst (lc input e)) (snd (lc input e)).

(* the tokens: item by item from offset p, then EOF after a trailing gap of n bytes *)
Fixpoint place_t (input : bytes) (p : nat) (its : list item) (n : nat) : list token :=
  match its with
  | [] => let q := (p + n)%nat in
          [mkToken T_EOF [] (fst (lc input q)) (snd (lc input q)) (fst (lc input q)) (snd (lc input q))]
  | it :: r =>
    let s := (p + List.length (igap it))%nat in
    let k := List.length (isrc it) in
    tokAt input (ity it) (lit_of (ity it) (isrc it)) s (s + k - 1) :: place_t input (s + k) r n
  end.
Definition place (input : bytes) (p : nat) (its : list item) : list token := place_t input p its 0.

(* ---- the modes, on token types *)
Definition is_directive_ty (ty : tok) : bool := inb ty (map snd directives_b).

Definition next_md (m : md) (ty : tok) (fol : bytes) : md :=
  match ty with
  | T_LBRACES => mkMd false (mdir m) (mp m) (mb m)
  | T_RBRACES => mkMd true (mdir m) (mp m) (mb m)
  | T_LBRACE => mkMd (mh m) (mdir m) (mp m) (mb m + 1)
  | T_RBRACE => mkMd (mh m) (mdir m) (mp m) (mb m - 1)
  | T_LPAREN => if mdir m then mkMd (mh m) (mdir m) (mp m + 1) (mb m) else m
  | T_RPAREN =>
    if mdir m then
      if (mp m - 1 =? 0)%Z then mkMd true false (mp m - 1) (mb m) else mkMd (mh m) (mdir m) (mp m - 1) (mb m)
    else m
  | T_HTML => m
  | _ =>
    if mh m then
      let dir := (inb ty tokens_with_optional_parens && (hd 0 fol =? 40)) || negb (inb ty tokens_without_parens) in
      mkMd (negb dir) dir (mp m) (mb m)
    else m
  end.

(* ---- the check, item by item; fol is the source that follows the item *)
Definition idc (c : N) : bool := isIdent c || isNumber c.

Definition word_ok (s fol : bytes) : bool :=
  isIdent (hd 0 s) && forallb idc s && negb (idc (hd 0 fol)).

Fixpoint num_scan (w fol : bytes) : bool :=
  match w with
  | [] => negb (isNumber (hd 0 fol) || ((hd 0 fol =? 46) && isNumber (hd 0 (tl fol))))
  | c :: w' => (isNumber c || ((c =? 46) && isNumber (hd 0 (w' ++ fol)))) && num_scan w' fol
  end.
Definition nodots (w : bytes) : bool := forallb (fun c => negb (c =? 46)) w.
Definition num_ok (s fol : bytes) : bool := isNumber (hd 0 s) && num_scan s fol.

(* a string body: its first byte is not the quote, a later quote is preceded by a backslash, and
   the last byte is no backslash (it would escape the closing quote) *)
Fixpoint str_tail (q prev : N) (b : bytes) : bool :=
  match b with
  | [] => negb (prev =? 92)
  | c :: b' => negb ((c =? q) && negb (prev =? 92)) && str_tail q c b'
  end.
Definition body_ok (q : N) (body : bytes) : bool :=
  match body with [] => true | c :: b => negb (c =? q) && str_tail q c b end.

Definition str_ok (s : bytes) : bool :=
  match s with
  | q :: t => ((q =? 34) || (q =? 39)) && bytes_eqb t (removelast t ++ [q]) && body_ok q (removelast t)
  | [] => false
  end.

Definition pl_bytes (t : tok) (r : bytes) : bool :=
  (tok_eqb t T_ELSE && (hd 0 r =? 105) && (hd 0 (tl r) =? 102)) ||
  (tok_eqb t T_BREAK && (hd 0 r =? 73) && (hd 0 (tl r) =? 102)) ||
  (tok_eqb t T_CONTINUE && (hd 0 r =? 73) && (hd 0 (tl r) =? 102)).

Definition directive_ok (ty : tok) (s fol : bytes) : bool :=
  tok_eqb (lookupDirective s) ty && negb (tok_eqb ty T_ILLEGAL) && negb (pl_bytes ty fol).

(* a text run: no "{{" and no directive keyword starts inside it, except directly after a backslash
   (an escape: the two braces / the "@" are then plain text; the escaped braces and the whole keyword
   must lie inside the run).  skip counts the escaped bytes still to pass. *)
Fixpoint text_scan (skip : nat) (s fol : bytes) : bool :=
  match s with
  | [] => Nat.eqb skip 0
  | c :: s' =>
    match skip with
    | S k => text_scan k s' fol
    | O =>
      if c =? 92 then
        if prefixb [123; 123] (s' ++ fol) then prefixb [123; 123] s' && text_scan 2 s' fol
        else if starts_directive (s' ++ fol) then starts_directive s' && text_scan 1 s' fol
        else text_scan 0 s' fol
      else negb (starts_directive (s ++ fol)) && negb (prefixb [123; 123] (s ++ fol)) && text_scan 0 s' fol
    end
  end.
Definition text_end (fol : bytes) : bool :=
  match fol with [] => true | _ => prefixb [123; 123] fol || starts_directive fol end.
Definition text_ok (s fol : bytes) : bool :=
  negb (Nat.eqb (List.length s) 0) && text_scan 0 s fol && text_end fol && negb (last s 0 =? 92).

Definition is1 (s : bytes) (c : N) : bool := bytes_eqb s [c].
Definition is2 (s : bytes) (a b : N) : bool := bytes_eqb s [a; b].
Definition nxt (fol : bytes) (c : N) : bool := hd 0 fol =? c.

Definition code_ok (m : md) (ty : tok) (s fol : bytes) : bool :=
  match ty with
  | T_IDENT | T_TRUE | T_FALSE | T_NIL | T_IN => word_ok s fol && tok_eqb (lookupIdent s) ty
  | T_INT => num_ok s fol && nodots s
  | T_FLOAT => num_ok s fol && negb (nodots s)
  | T_STR => str_ok s
  | T_LTHAN_EQ => is2 s 60 61 | T_LTHAN => is1 s 60 && negb (nxt fol 61)
  | T_GTHAN_EQ => is2 s 62 61 | T_GTHAN => is1 s 62 && negb (nxt fol 61)
  | T_NOT_EQ => is2 s 33 61 | T_NOT => is1 s 33 && negb (nxt fol 61)
  | T_DEC => is2 s 45 45 | T_SUB => is1 s 45 && negb (nxt fol 45)
  | T_INC => is2 s 43 43 | T_ADD => is1 s 43 && negb (nxt fol 43)
  | T_EQ => is2 s 61 61 | T_ASSIGN => is1 s 61 && negb (nxt fol 61)
  | T_LBRACE => is1 s 123 && negb (nxt fol 123)
  | T_RBRACE => is1 s 125 && negb ((mb m =? 0)%Z && nxt fol 125)
  | T_LPAREN => is1 s 40
  | T_RPAREN => is1 s 41
  | T_RBRACES => is2 s 125 125 && (mb m =? 0)%Z
  | _ => match s with [c] => match simpleLookup c with Some t => tok_eqb t ty | None => false end | _ => false end
  end.

(* what may stand before an item of text mode (text, directive, {{): comments {{-- ... --}}, each
   ending at the first terminator the specification finds (Spec/Text.find_term) *)
Fixpoint cmts_ok (fuel : nat) (g : bytes) : bool :=
  match fuel with
  | O => false
  | S f =>
    match g with
    | [] => true
    | _ :: _ =>
      prefixb [123; 123; 45; 45] g &&
      match find_term (skipn 2 g) 0 with
      | Some k => (2 + k + 4 <=? List.length g)%nat && cmts_ok f (skipn (2 + k + 4) g)
      | None => false
      end
    end
  end.
Definition gap_html (g : bytes) : bool := cmts_ok (S (List.length g)) g.

Definition item_ok (m : md) (it : item) (fol : bytes) : bool :=
  match ity it with
  | T_EOF | T_ILLEGAL => false
  | T_LBRACES => is2 (isrc it) 123 123 && negb (prefixb [45; 45] fol) && (if mh m then gap_html (igap it) else forallb isWs (igap it))
  | T_HTML => mh m && gap_html (igap it) && text_ok (isrc it) fol
  | ty => if mh m then gap_html (igap it) && directive_ok ty (isrc it) fol
          else forallb isWs (igap it) && negb (isWs (hd 0 (isrc it))) && code_ok m ty (isrc it) fol
  end.

Definition final_ok (m : md) (tg : bytes) : bool := if mh m then gap_html tg else forallb isWs tg.

Fixpoint items_ok_t (m : md) (its : list item) (tg : bytes) : bool :=
  match its with
  | [] => final_ok m tg
  | it :: r => item_ok m it (spell_t r tg) && items_ok_t (next_md m (ity it) (spell_t r tg)) r tg
  end.

Definition m0 : md := mkMd true false 0 0.
Definition source_ok_t (its : list item) (tg : bytes) : bool := forallb okb (spell_t its tg) && items_ok_t m0 its tg.
Definition source_ok (its : list item) : bool := source_ok_t its [].

(* ---- reading items back from tokens (for examples and for measuring the domain of the theorem) *)
Fixpoint unlex (src : bytes) (p : nat) (ts : list token) : list item * nat :=
  match ts with
  | [] => ([], p)
  | t :: r =>
    if tok_eqb (ttype t) T_EOF then ([], p)
    else match offset_of src (tsl t) (tsc t), offset_of src (tel t) (tec t) with
         | Some s, Some e =>
           let '(its, q) := unlex src (S e) r in
           (mkItem (ttype t) (firstn (S e - s) (skipn s src)) (firstn (s - p) (skipn p src)) :: its, q)
         | _, _ => ([], p)
         end
  end.

(* is this source inside the domain of lex_spell_t?  (computable) *)
Definition in_domain (src : bytes) : bool :=
  match lex_all src with
  | Some ts => let '(its, q) := unlex src 0 ts in
               let tg := skipn q src in
               bytes_eqb (spell_t its tg) src && source_ok_t its tg
  | None => false
  end.
