(* Extraction of the executable model and specifications to OCaml.
   Only ExtrOcamlBasic is used: bool, option, unit, list, prod, sumbool, sumor
   map to their OCaml counterparts; nat, N, Z, positive stay inductive. *)
From Coq Require Import Extraction ExtrOcamlBasic.
From TW Require Import Bytes GenToken Lexer Ast Parser Floats Values Builtins Eval Render Api Positions Expr Text Template BuiltinSpec Wf TokenShape LexSpell.

Extraction Language OCaml.
Set Extraction KeepSingleton.

Extraction "twmodel_ext.ml"
  tok_index all_toks
  lex_all Z_to_dec parse_source decz f_of_bits f_to_bits evaluate_string render_program Z.add Z.mul Z.opp check_tokens contains lc render_expr sem show_sres call_builtin to_object text_spec plain print_template run_template run_history init_state step new_template builtin_spec value_utf8_ok wf_program tinv sok eol illT in_domain.
