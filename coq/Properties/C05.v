(* C05 - text passes through byte for byte.
   Proved: for EVERY byte string with no NUL, no "{{" and no '@' that starts a directive keyword
   (the keyword table is regenerated from token/token.go), the lexer model (mirror of lexer.go:
   readHTML, isDirectiveToken, areBracesToken) yields one text token whose literal is the input
   followed by EOF, the parser model one HTML statement, and the render of the model is the input
   itself, whatever the data; the reference scanner of Spec/Text.v is the identity on such text.
   Proved as well: for EVERY byte string whose only active syntax is escapes (a backslash directly
   before "{{" or before a directive keyword, any number of them, anywhere), the lexer model
   yields one text token holding the text with exactly those backslashes removed, the render is
   that text, and it is what the reference scanner of Spec/Text.v says; and for EVERY lexer state
   in text mode standing on a terminated comment, NextToken is NextToken of the state just after
   the terminator (found where the specification's find_term finds it), still in text mode - no
   token, whatever bytes the comment holds.
   Decided on generated instances (not theorems): text around code blocks and directives (the
   splice of text runs with {{ }} blocks), comments inside the whole pipeline - exhaustive short
   strings over the escape/comment alphabet, spliced segments, with the reference scanner as
   oracle. *)
From Coq Require Import String.
From TW Require Import Bytes GenToken Lexer Ast Parser Values Builtins Eval Render Text Passthrough Escapes Comments.
Open Scope N_scope.

Theorem C05_plain_text_renders_as_itself cx s data en :
  plain s = true -> env_from_map data = EnvOk en -> evaluate_string cx s data = RenderOk s.
Proof. exact (plain_text_renders_as_itself cx s data en). Qed.
Print Assumptions C05_plain_text_renders_as_itself.

Theorem C05_plain_text_is_one_token s :
  s <> [] -> plain s = true ->
  exists t e, lex_all s = Some [t; e] /\ ttype t = T_HTML /\ tlit t = s /\ ttype e = T_EOF.
Proof. exact (plain_text_lexes_to_one_html_token s). Qed.
Print Assumptions C05_plain_text_is_one_token.

Theorem C05_reference_scanner_is_identity_on_plain_text s : plain s = true -> text_spec s = TOut s.
Proof. exact (reference_scanner_is_identity_on_plain_text s). Qed.
Print Assumptions C05_reference_scanner_is_identity_on_plain_text.

(* ---- escapes *)
Theorem C05_escaped_text_renders_unescaped cx s o data en :
  esc_spec s = Some o -> env_from_map data = EnvOk en ->
  text_spec s = TOut o /\ evaluate_string cx s data = RenderOk o.
Proof. exact (escaped_text_renders_unescaped cx s o data en). Qed.
Print Assumptions C05_escaped_text_renders_unescaped.

Theorem C05_escaped_text_is_one_token s o :
  s <> [] -> esc_spec s = Some o ->
  exists t e, lex_all s = Some [t; e] /\ ttype t = T_HTML /\ tlit t = o /\ ttype e = T_EOF.
Proof. exact (escaped_text_lexes_to_one_html_token s o). Qed.
Print Assumptions C05_escaped_text_is_one_token.

Example C05_escapes_example :
  esc_spec (bs "a \{{ x }} b \@if(c) \\ \x @ me {") = Some (bs "a {{ x }} b @if(c) \\ \x @ me {") /\
  esc_spec (bs "\@endif \@end") = Some (bs "@endif @end") /\
  esc_spec (bs "{{ 1 }}") = None.
Proof. exact escapes_example. Qed.

(* ---- comments *)
Theorem C05_comment_produces_no_token fuel l k :
  isHTML l = true ->
  prefixb [123; 123; 45; 45] (rest l) = true ->
  find_term (skipn 2 (rest l)) 0 = Some k -> no_nul k (skipn 2 (rest l)) = true ->
  exists l', nextToken (S fuel) l = nextToken fuel l' /\
             rest l' = skipn (2 + k + 4) (rest l) /\ isHTML l' = true /\ isDirective l' = isDirective l.
Proof. exact (comment_is_skipped fuel l k). Qed.
Print Assumptions C05_comment_produces_no_token.

Example C05_comment_example :
  find_term (skipn 2 (bs "{{-- {{ 1 }} @if(x) -- }} --}}tail")) 0 = Some 24%nat /\
  find_term (skipn 2 (bs "{{--}}x")) 0 = Some 0%nat /\
  find_term (skipn 2 (bs "{{-- never closed")) 0 = None.
Proof. exact comment_example. Qed.

Example C05_example :
  plain (bs "a \ { } @ me@x.org -- <p class='q'> 100% }} {") = true /\
  plain (bs "x {{ 1 }}") = false /\ plain (bs "@if") = false.
Proof. exact plain_example. Qed.

(* ---- text between active syntax (Proofs/LexRound.v): in a source that spells a checked list of
   items, every text run between {{ }} blocks and directives - any bytes but NUL, line feeds and
   backslashes included - is one HTML token whose literal is the run with its escapes removed
   (Spec/LexSpell.unesc: a backslash directly before "{{" or before a directive keyword goes, every
   other byte stays; the check text_scan asks that "{{" and directive keywords start inside a run only
   directly after such a backslash and lie wholly inside it); comments {{-- ... --}} before any such
   item and at the end of the source yield no token, whatever they hold short of the terminator (a
   gap of the item: the check gap_html finds each comment's end with the specification's find_term).
   So escapes and live syntax in ONE source are covered: "\{{ x }} is {{ x }}" lexes to the text
   "{{ x }} is ", then the block. *)
From TW Require Import LexRound.

Theorem C05_text_between_syntax_is_kept its tg :
  source_ok_t its tg = true ->
  lex_all (spell_t its tg) = Some (place_t (spell_t its tg) 0 its (List.length tg)).
Proof. exact (lex_spell_t its tg). Qed.
Print Assumptions C05_text_between_syntax_is_kept.

Definition nl := String (Ascii.ascii_of_nat 10) EmptyString.
Example C05_text_between_syntax_example :
  in_domain (bs ("a < b > c {{ x }} 100% }} { @ me@x.org" ++ nl ++ "c:\dir \ @if(y) <p class='q'>" ++ nl ++ nl ++ " @end tail" ++ nl)) = true /\
  in_domain (bs ("{{-- {{ 1 }} @if(x) -- }} --}}a{{-- b --}}{{--}}{{ x }}{{-- c" ++ nl ++ "d --}}")) = true.
Proof. vm_compute. split; reflexivity. Qed.

(* escapes next to live syntax: the source is in the domain, and its first token is the text with
   the backslashes of the two escapes gone and the plain backslash kept *)
Example C05_escapes_beside_live_syntax :
  in_domain (bs "\{{ x }} and \@if(y) c:\dir is {{ x }} @if(y)z@end \@end") = true /\
  option_map (fun ts => map tlit (firstn 2 ts)) (lex_all (bs "\{{ x }} and \@if(y) c:\dir is {{ x }}")) =
    Some [bs "{{ x }} and @if(y) c:\dir is "; bs "{{"].
Proof. vm_compute. split; reflexivity. Qed.

(* ---- from the bytes to the output, escapes and live syntax side by side (Proofs/LinesPipeline.v on
   top of the round trip): the text nodes of the statement tree hold the runs with their escapes
   removed, and that is what is written *)
From TW Require Import Floats Values Expr Template Control ExprSem CleanValues TemplateRefine Pratt StmtParse TemplatePipeline LineIrrelevance LinesPipeline.

Theorem C05_from_source_bytes_to_output its ss ns eof fs gd (data : list (bytes * value)) :
  source_ok its = true -> place (spell its) 0 its = flats ss ++ [eof] -> wf_ss ss -> DensL ss ns ->
  env_from_map gd = EnvOk [data] ->
  forallb (fun kv : bytes * value => clean (snd kv)) data = true -> nodes_ok ns ->
  lex_all (spell its) = Some (flats ss ++ [eof]) /\
  parse_source (spell its) = ParsedOk (mkProgram (asts ss) None [] [] []) /\
  exists K, (K <= eval_fuel)%nat ->
    match run_nodes model_call_spec fs [data] ns with
    | TOk out SigNormal _ => evaluate_string cx0 (spell its) gd = RenderOk out
    | TOk _ _ _ => True
    | TFail => exists ln msg, evaluate_string cx0 (spell its) gd = RenderErr ln msg
    | TNoFuel | TUnprintable => True
    end.
Proof. exact (source_renders_lines its ss ns eof fs gd data). Qed.
Print Assumptions C05_from_source_bytes_to_output.

Definition esc_src : string := "\{{ x }} is {{ x }}, \@if(x) c:\dir".

Example C05_escaped_and_live_in_one_template :
  let ns := [NText (bs "{{ x }} is "); NPrint (XVar (bs "x")); NText (bs ", @if(x) c:\dir")] in
  exists its tg ss eof,
    lex_all (bs esc_src) = Some (flats ss ++ [eof]) /\ unlex (bs esc_src) 0 (flats ss ++ [eof]) = (its, tg) /\
    spell its = bs esc_src /\ source_ok its = true /\ place (spell its) 0 its = flats ss ++ [eof] /\
    wf_ss ss /\ DensL ss ns /\ nodes_ok ns /\
    evaluate_string cx0 (bs esc_src) [(bs "x", GInt 5)] = RenderOk (bs "{{ x }} is 5, @if(x) c:\dir").
Proof.
  intro ns.
  destruct (lex_all (bs esc_src)) as [ts|] eqn:E; [|vm_compute in E; discriminate E].
  vm_compute in E. injection E as <-.
  match goal with |- exists its tg ss eof, Some (?t1 :: ?lb :: ?v :: ?rb :: ?t2 :: ?eoft :: nil) = _ /\ _ =>
    set (ss0 := [TText t1; TCode lb rb (CAtom v); TText t2]); set (e0 := eoft) end.
  destruct (unlex (bs esc_src) 0 (flats ss0 ++ [e0])) as [its tg] eqn:U.
  exists its, tg, ss0, e0.
  split; [reflexivity|]. split; [exact U|].
  vm_compute in U. injection U as <- <-.
  split; [vm_compute; reflexivity|]. split; [vm_compute; reflexivity|]. split; [vm_compute; reflexivity|].
  split.
  { subst ss0. cbn [wf_ss wf_s wf wf_list_with llev rlev]. unfold tprec, INF. cbn [ttype].
    repeat split; try reflexivity; try discriminate; try (vm_compute; lia). }
  split.
  { subst ns ss0. apply LsCons; [apply DenL_text; vm_compute; reflexivity|].
    apply LsCons; [apply LCode; cbn; repeat split|].
    apply LsCons; [apply DenL_text; vm_compute; reflexivity|apply LsNil]. }
  split; [subst ns; cbn; repeat split|].
  vm_compute. reflexivity.
Qed.
