(* C05 - text passes through byte for byte.
   Proved: for EVERY byte string with no NUL, no "{{" and no '@' that starts a directive keyword
   (the keyword table is regenerated from token/token.go), the lexer model (mirror of lexer.go:
   readHTML, isDirectiveToken, areBracesToken) yields one text token whose literal is the input
   followed by EOF, the parser model one HTML statement, and the render of the model is the input
   itself, whatever the data; the reference scanner of Spec/Text.v is the identity on such text.
   Decided on generated instances (not theorems): the escapes "\{{" and "\@directive", comments,
   text around code blocks - exhaustive short strings over the escape/comment alphabet, spliced
   segments, with the reference scanner as oracle. *)
From Coq Require Import String.
From TW Require Import Bytes GenToken Lexer Ast Parser Values Builtins Eval Render Text Passthrough.
Open Scope N_scope.

Theorem C05_plain_text_renders_as_itself cx s data en :
  plain s = true -> env_from_map data = EnvOk en -> evaluate_string cx s data = RenderOk s.
Proof. exact (plain_text_renders_as_itself cx s data en). Qed.
Print Assumptions C05_plain_text_renders_as_itself.

Theorem C05_plain_text_is_one_token s :
  s <> [] -> plain s = true ->
  exists t e, lex_all s = Some [t; e] /\ ttype t = T_HTML /\ tlit t = s /\ ttype e = T_EOF.
Proof. exact (plain_text_lexes_to_one_html_token s). Qed.
Print Assumptions C05_plain_text_is_one_token.

Theorem C05_reference_scanner_is_identity_on_plain_text s : plain s = true -> text_spec s = TOut s.
Proof. exact (reference_scanner_is_identity_on_plain_text s). Qed.
Print Assumptions C05_reference_scanner_is_identity_on_plain_text.

Example C05_example :
  plain (bs "a \ { } @ me@x.org -- <p class='q'> 100% }} {") = true /\
  plain (bs "x {{ 1 }}") = false /\ plain (bs "@if") = false.
Proof. exact plain_example. Qed.
