(* C16 - a render depends only on its arguments, not on earlier calls. *)
From TW Require Import Bytes Values Eval Render Api Registry.

(* every render operation (String, Response, EvaluateString, EvaluateFile) leaves the loaded
   templates, the configuration and the registry unchanged *)
Theorem C16_render_preserves_state fs st o : is_render o = true -> fst (step fs st o) = st.
Proof. exact (render_preserves_state fs st o). Qed.
Print Assumptions C16_render_preserves_state.

(* hence, after ANY history of render operations, an operation observes exactly what it
   observes when it is issued first *)
Theorem C16_history_independent fs st h o :
  forallb is_render h = true ->
  snd (step fs (final_state fs st h) o) = snd (step fs st o).
Proof. exact (history_independent fs st h o). Qed.
Print Assumptions C16_history_independent.

(* the same on the code's own call graph (tables regenerated from /repo's source every run):
   evaluation assigns no field of a parsed program, and the only functions reachable from a
   rendering entry point that assign ast fields are the parser's (they build the fresh tree of the
   source handed to EvaluateString / the built-in error page) *)
From Coq Require Import String List NArith.
From TW Require Import GenFootprint Footprint.
Import ListNotations.
Local Open Scope string_scope.

Theorem C16_evaluation_assigns_no_program_field :
  collect fp_astw ["evaluator.Evaluator.Eval"; "object.EnvFromMap"; "textwire.getTemplatePath"] = [].
Proof. exact evaluation_assigns_no_ast_field. Qed.
Print Assumptions C16_evaluation_assigns_no_program_field.

Theorem C16_render_paths_assign_no_package_state : collect fp_writes render_entries = [].
Proof. exact render_paths_assign_nothing. Qed.
Print Assumptions C16_render_paths_assign_no_package_state.

Theorem C16_package_state_is_the_reviewed_list :
  pkg_vars =
  ["evaluator.BREAK"; "evaluator.CONTINUE"; "evaluator.FALSE"; "evaluator.NIL"; "evaluator.TRUE"; "evaluator.functions";
   "lexer.simpleTokens"; "lexer.tokensWithOptionalParens"; "lexer.tokensWithoutParens"; "object.outputHTML";
   "parser.precedences"; "textwire.customFunc"; "textwire.defaultErrorPage"; "textwire.userConfig";
   "textwire.usesTemplates"; "token.directives"; "token.keywords"; "token.tokens"].
Proof. exact pkg_vars_reviewed. Qed.
Print Assumptions C16_package_state_is_the_reviewed_list.
