(* C16 - a render depends only on its arguments, not on earlier calls. *)
From TW Require Import Bytes Values Eval Render Api Registry.

(* every render operation (String, Response, EvaluateString, EvaluateFile) leaves the loaded
   templates, the configuration and the registry unchanged *)
Theorem C16_render_preserves_state fs st o : is_render o = true -> fst (step fs st o) = st.
Proof. exact (render_preserves_state fs st o). Qed.
Print Assumptions C16_render_preserves_state.

(* hence, after ANY history of render operations, an operation observes exactly what it
   observes when it is issued first *)
Theorem C16_history_independent fs st h o :
  forallb is_render h = true ->
  snd (step fs (final_state fs st h) o) = snd (step fs st o).
Proof. exact (history_independent fs st h o). Qed.
Print Assumptions C16_history_independent.
