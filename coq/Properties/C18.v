(* C18 - templates are addressable by relative name; a bad file fails loading cleanly.
   Model/Api.v mirrors findTextwireFiles, nameFromPath, parsePrograms (files.go, parser_utils.go,
   textwire.go) over an abstract file system; the harness writes the same tree to disk. *)
From Coq Require Import String.
From TW Require Import Bytes Values Ast Builtins Eval Render Api Loading.
Open Scope N_scope.

Theorem C18_name_is_the_relative_path_without_extension dir ext name :
  trim_suffix ext (trim_prefix (dir ++ [47]) ((dir ++ [47]) ++ name ++ ext)) = name.
Proof. exact (name_of_file dir ext name). Qed.
Print Assumptions C18_name_is_the_relative_path_without_extension.

Theorem C18_distinct_files_have_distinct_names dir ext n1 n2 :
  trim_suffix ext (trim_prefix (dir ++ [47]) ((dir ++ [47]) ++ n1 ++ ext)) =
  trim_suffix ext (trim_prefix (dir ++ [47]) ((dir ++ [47]) ++ n2 ++ ext)) -> n1 = n2.
Proof. exact (names_are_injective dir ext n1 n2). Qed.
Print Assumptions C18_distinct_files_have_distinct_names.

Theorem C18_exactly_the_files_with_the_extension_are_loaded fs cfg l :
  walk_files fs cfg = LOk l -> map snd l = map fst (filter (is_template_file cfg) fs).
Proof. exact (found_files_are_exactly_the_template_files fs cfg l). Qed.
Print Assumptions C18_exactly_the_files_with_the_extension_are_loaded.

Theorem C18_found_files_end_in_the_extension fs cfg l name rel :
  walk_files fs cfg = LOk l -> In (name, rel) l ->
  (exists t, rel = t ++ c_ext cfg) /\
  (bytes_eqb (c_dir cfg) dot = false -> exists t, rel = (c_dir cfg ++ [47]) ++ t) /\
  name = trim_suffix (c_ext cfg) (trim_prefix (c_dir cfg ++ [47]) rel).
Proof. exact (found_file_has_extension_and_lives_under_dir fs cfg l name rel). Qed.
Print Assumptions C18_found_files_end_in_the_extension.

Theorem C18_one_faulty_file_fails_the_whole_load fs cfg files name rel e :
  In (name, rel) files -> load_page fs cfg rel = LErr e -> forall tpl, load_all fs cfg files <> LOk tpl.
Proof. exact (one_faulty_file_fails_the_load fs cfg files name rel e). Qed.
Print Assumptions C18_one_faulty_file_fails_the_whole_load.

Theorem C18_the_error_is_the_first_faulty_files fs cfg good name rel rest e :
  (forall n r, In (n, r) good -> exists pg, load_page fs cfg r = LOk pg) ->
  load_page fs cfg rel = LErr e ->
  load_all fs cfg (good ++ (name, rel) :: rest) = LErr e.
Proof. exact (load_reports_first_fault fs cfg good name rel rest e). Qed.
Print Assumptions C18_the_error_is_the_first_faulty_files.

Theorem C18_layouts_are_not_registered fs cfg name rel pg rest tpl :
  load_page fs cfg rel = LOk pg -> snd pg = true ->
  load_all fs cfg ((name, rel) :: rest) = LOk tpl -> load_all fs cfg rest = LOk tpl.
Proof. exact (layout_is_not_registered fs cfg name rel pg rest tpl). Qed.
Print Assumptions C18_layouts_are_not_registered.

Theorem C18_unknown_name_is_not_found cx cfg tpl name data en :
  env_from_map data = EnvOk en -> alookup name tpl = None ->
  template_string cx cfg tpl name data = StrErr (mkErr 0 (template_path cfg name) (fmt ErrTemplateNotFound [])).
Proof. exact (unknown_name_not_found cx cfg tpl name data en). Qed.
Print Assumptions C18_unknown_name_is_not_found.

Theorem C18_evaluating_a_file_is_evaluating_its_content fs st rel data content :
  read_file fs rel = ReadOk content ->
  snd (step fs st (OpEvalFile rel data)) = snd (step fs st (OpEvalStr content data)).
Proof. exact (evalfile_is_evalstring fs st rel data content). Qed.
Print Assumptions C18_evaluating_a_file_is_evaluating_its_content.

Example C18_example :
  trim_suffix (bs ".tw") (trim_prefix (bs "x.tw/") (bs "x.tw/a.tw.bak.tw")) = bs "a.tw.bak" /\
  has_suffix (bs ".tw") (bs "notes.twx") = false.
Proof. exact name_example. Qed.
