(* C09 - evaluation never crashes: every runtime fault becomes a Textwire error.
   Model/Eval.v mirrors evaluator.go with an explicit Panic outcome at every place where the Go
   code would panic (nil Expression / Statement, unchecked assertions); the built-ins have no
   panic outcome at all (their guards are part of Model/Builtins.v and are compared with the code
   by the correspondence run on boundary counts and wrong-kind arguments).
   The hypothesis wf_program is extracted and evaluated on every program the parser returns. *)
From Coq Require Import String.
From TW Require Import Bytes Values Ast Builtins Eval Wf NoPanic.

Theorem C09_render_never_panics cx p data :
  wf_program p = true -> render_program cx p data <> RenderPanic.
Proof. exact (render_no_panic cx p data). Qed.
Print Assumptions C09_render_never_panics.

(* the same at every level of the evaluator, for every amount of fuel and every environment *)
Theorem C09_expression_never_panics cx fuel en e :
  wf_expr e = true -> eval_expr cx fuel en e <> Panic.
Proof. exact (eval_expr_np cx fuel en e). Qed.
Print Assumptions C09_expression_never_panics.

Theorem C09_statement_never_panics cx fuel en s :
  wf_stmt s = true -> eval_stmt cx fuel en s <> Panic.
Proof. exact (proj1 (stmt_np cx fuel) en s). Qed.
Print Assumptions C09_statement_never_panics.

(* operators on any two values: a value or an error, never a panic (modulo / division by zero,
   mixed types, unknown operators included) *)
Theorem C09_operators_total ln op l r :
  eval_infix_op ln op l r <> Panic /\ eval_prefix_op ln op l <> Panic /\ eval_postfix_op ln op l <> Panic.
Proof. exact (conj (infix_np ln op l r) (conj (prefix_np ln op l) (postfix_np ln op l))). Qed.
Print Assumptions C09_operators_total.

(* property access with any name, the empty one included *)
Theorem C09_property_access_total ln m k : obj_index ln m k <> Panic.
Proof. exact (obj_index_np ln m k). Qed.
Print Assumptions C09_property_access_total.

(* non-vacuity: a program with every statement kind of the evaluator is well-formed *)
Example C09_wf_example :
  wf_program (mkProgram
    [SHtml 1 (bs "a"); SExpr (EInfix 1 (bs "%") (EInt 1 5) (EInt 1 0));
     SEach 1 (bs "x") (EInt 1 5) [SExpr (EDot 1 (EIdent 1 (bs "x")) (EIdent 1 (bs "k")))] None;
     SFor 1 SNull ENull SNull [SBreak] None;
     SIf 1 (EIndex 1 (EObj 1 []) (EStr 1 [])) [] [] None] None [] [] []) = true.
Proof. reflexivity. Qed.

(* ---- the hypothesis discharged (Proofs/ParseWf.v): every program the parser model returns without an
   error is well-formed - the walk of ParseTotal.v over the 20 parse functions with one more postcondition:
   a function records a new error or returns a well-formed answer - so, for EVERY byte string and every data
   map, the model of EvaluateString never reaches a branch in which the Go code would panic *)
From TW Require Import GenToken Lexer Parser Render ParseTotal ParseWf.

Theorem C09_every_parsed_program_is_well_formed ts p :
  tinv ts = true -> parse_tokens ts = ParsedOk p -> wf_program p = true.
Proof. exact (parsed_program_is_well_formed ts p). Qed.
Print Assumptions C09_every_parsed_program_is_well_formed.

Theorem C09_evaluate_string_never_panics cx src data : evaluate_string cx src data <> RenderPanic.
Proof. exact (evaluate_string_never_panics cx src data). Qed.
Print Assumptions C09_evaluate_string_never_panics.
