(* C01 - expressions follow the precedence table, left associativity and typed arithmetic.
   Proved here (semantic half): for EVERY specification expression, environment and sufficient
   fuel, the evaluator model (mirror of evaluator.go) applied to the expression's AST gives exactly
   the value of the specification semantics - wrapping 64-bit integers, IEEE-754 binary64 (Flocq),
   byte strings, same-type rule; an error for mixed operand types, division and modulo by zero and
   unknown identifiers - and Go's binding-power table, regenerated from parser.go on every run, is a
   strictly monotone image of the property's precedence levels with every operator on its level;
   the call-site precedences of parseExpression (right operand at the operator's own level, ternary
   branches, assignment value at LOWEST) are pinned by Proofs/GenTie.v.
   Proved here (syntactic half, on the parser model): for EVERY concrete syntax tree that respects
   the binding powers read from parser.go (Pratt.wf: atoms, parentheses - redundant or not -, the
   11 binary operators, prefix - and !, postfix ++ and --, the ternary, indexing, property access,
   method calls and array literals with any number of arguments), the token sequence of the tree
   parses to exactly the AST of the tree, with whatever fuel the parser returns and in particular
   with the fuel parse_tokens allots; two neighbouring binary operators group to the left exactly
   when the second does not bind tighter.
   Decided by the check on generated instances: that blanks and newlines do not change the token
   sequence (lexer model = lexer on every generated layout), object literals, and that the models
   are the implementation (implementation output = text of the specification value). *)
From Coq Require Import String.
From TW Require Import Bytes Floats Values Ast GenToken GenParser Lexer Parser Builtins Eval Expr ExprSem GenTie Pratt ExprPipeline.
Open Scope N_scope.

(* en is the chain of scopes (innermost first); the specification sees it flattened, so an inner
   binding shadows an outer one *)
Theorem C01_model_evaluates_like_the_specification (en : env) e fs :
  lits_ok e -> (size e <= fs)%nat ->
  exists n, forall fm, (n <= fm)%nat ->
    meets (eval_expr cx0 fm en (compile e)) (sem model_call_spec fs (flat_env en) e).
Proof. exact (model_evaluates_like_the_specification en e fs). Qed.
Print Assumptions C01_model_evaluates_like_the_specification.

Theorem C01_binary_operators_are_typed ln o a b : meets (eval_infix_op ln (op_sym o) a b) (sem_bin o a b).
Proof. exact (infix_meets ln o a b). Qed.
Print Assumptions C01_binary_operators_are_typed.

Theorem C01_binding_powers_follow_the_levels :
  forallb (fun a => forallb (fun b => Bool.eqb (Nat.ltb (lnum a) (lnum b)) (Nat.ltb (level_code a) (level_code b)))
                            all_levels) all_levels = true.
Proof. exact level_code_monotone. Qed.
Print Assumptions C01_binding_powers_follow_the_levels.

Theorem C01_every_operator_is_on_its_level :
  forallb (fun o => Nat.eqb (precOf (binop_tok o)) (level_code (op_level o))) all_binops = true /\
  precOf T_QUESTION = level_code LTernary /\ precOf T_DOT = level_code LMember /\
  precOf T_LBRACKET = level_code LIndex /\ precOf T_INC = level_code LPostfix /\ precOf T_DEC = level_code LPostfix /\
  (P_LOWEST < level_code LTernary)%nat.
Proof. exact operator_precedences_follow_levels. Qed.
Print Assumptions C01_every_operator_is_on_its_level.

(* right operand at the operator's own precedence, ternary consequence at TERNARY and alternative at
   LOWEST (right nesting), prefix operand at PREFIX, assignment value as a complete expression *)
Theorem C01_operand_precedences_in_the_source : parse_expression_sites = model_sites.
Proof. exact call_site_precedences_tied. Qed.
Print Assumptions C01_operand_precedences_in_the_source.

(* an integer literal above MaxInt64 is a parse error, not a value *)
Theorem C01_out_of_range_literal_is_rejected lit :
  (max_int64 < dec_value 0%Z lit)%Z -> parseInt lit = None.
Proof.
  intro H. unfold parseInt. destruct (dec_value 0 lit <=? max_int64)%Z eqn:E; [|reflexivity].
  apply Z.leb_le in E. exfalso. apply (Z.lt_irrefl max_int64). eapply Z.lt_le_trans; eassumption.
Qed.
Print Assumptions C01_out_of_range_literal_is_rejected.

(* ---- syntactic half *)

(* the tokens of a well-formed tree, followed by a token that cannot continue an expression,
   parse (for all sufficiently large fuel) to the AST of the tree; the parser stops on the last
   token of the tree *)
Theorem C01_parser_groups_by_the_table c st rest :
  wf c -> stops P_LOWEST rest -> (rdot c = true -> not_lparen rest) ->
  exists n, forall fuel, (n <= fuel)%nat ->
    parseExpression fuel P_LOWEST (setToks st (flat c ++ rest)) = POk (ast c) (setToks st (lastc c :: rest)).
Proof. exact (parse_of_tokens_is_the_tree c st rest). Qed.
Print Assumptions C01_parser_groups_by_the_table.

(* with any fuel: if the parser returns at all, it returns the tree *)
Theorem C01_parser_returns_the_tree c st rest fuel r s :
  wf c -> stops P_LOWEST rest -> (rdot c = true -> not_lparen rest) ->
  parseExpression fuel P_LOWEST (setToks st (flat c ++ rest)) = POk r s ->
  r = ast c /\ s = setToks st (lastc c :: rest).
Proof. exact (parse_returns_the_tree c st rest fuel r s). Qed.
Print Assumptions C01_parser_returns_the_tree.

(* the whole statement {{ c }} with the fuel the model really uses *)
Theorem C01_braces_statement_is_the_tree c lb rb eof :
  wf c -> ttype lb = T_LBRACES -> ttype rb = T_RBRACES -> ttype eof = T_EOF ->
  parse_tokens (lb :: flat c ++ [rb; eof]) = ParsedOk (mkProgram [SExpr (ast c)] None [] [] []).
Proof. exact (braces_block_parses c lb rb eof). Qed.
Print Assumptions C01_braces_statement_is_the_tree.

(* left to right within a level, tighter operators first *)
Theorem C01_two_neighbouring_operators a b c o1 o2 :
  atom_ast a <> None -> atom_ast b <> None -> atom_ast c <> None ->
  infix_of (ttype o1) = Some IK_Infix -> infix_of (ttype o2) = Some IK_Infix ->
  let t := if (tprec o2 <=? tprec o1)%nat
           then CBin o2 (CBin o1 (CAtom a) (CAtom b)) (CAtom c)
           else CBin o1 (CAtom a) (CBin o2 (CAtom b) (CAtom c)) in
  wf t /\ flat t = [a; o1; b; o2; c].
Proof. exact (two_operators a b c o1 o2). Qed.
Print Assumptions C01_two_neighbouring_operators.

(* non-vacuity on the real lexer's output: the tokens of  {{ (8 / 2 * 2) - -x.n[0] ? a.f(1, 2) : [3] }}
   are the tokens of a well-formed tree *)
Example C01_lexed_source_is_a_tree :
  exists lb rb eof c,
    lex_all (bs "{{ (8 / 2 * 2) - -x.n[0] ? a.f(1, 2) : [3] }}") = Some (lb :: flat c ++ [rb; eof]) /\
    ttype lb = T_LBRACES /\ ttype rb = T_RBRACES /\ ttype eof = T_EOF /\ wf c /\
    parse_tokens (lb :: flat c ++ [rb; eof]) = ParsedOk (mkProgram [SExpr (ast c)] None [] [] []).
Proof.
  destruct (lex_all (bs "{{ (8 / 2 * 2) - -x.n[0] ? a.f(1, 2) : [3] }}")) as [ts|] eqn:E; [|vm_compute in E; discriminate E].
  vm_compute in E. injection E as <-.
  match goal with |- exists lb rb eof c, Some (?t0 :: ?lp :: ?t8 :: ?dv :: ?t2 :: ?ml :: ?t2' :: ?rp :: ?mi :: ?ng :: ?x :: ?d1 :: ?n :: ?lk :: ?z :: ?rk :: ?q :: ?a :: ?d2 :: ?f :: ?l2 :: ?one :: ?cm :: ?two :: ?r2 :: ?col :: ?l3 :: ?three :: ?r3 :: ?rbt :: ?eoft :: nil) = _ /\ _ =>
    exists t0, rbt, eoft,
      (CTern q col
         (CBin mi (CPar lp rp (CBin ml (CBin dv (CAtom t8) (CAtom t2)) (CAtom t2')))
                  (CIdx lk rk (CDot d1 n (CPre ng (CAtom x))) (CAtom z)))
         (CCall d2 f l2 r2 (CAtom a) [(cm, CAtom one); (cm, CAtom two)])
         (CArr l3 r3 [(cm, CAtom three)]))
  end.
  split; [reflexivity|]. split; [reflexivity|]. split; [reflexivity|]. split; [reflexivity|].
  match goal with |- wf ?c /\ _ => assert (W : wf c) end; [|split; [exact W|apply braces_block_parses; [exact W|reflexivity..]]].
  cbn [wf wf_list_with llev rlev]. unfold tprec, INF. cbn [ttype].
  repeat split; try reflexivity; try discriminate; try (vm_compute; lia); try (left; reflexivity); try (right; reflexivity).
Qed.

(* ---- both halves: from the tokens of {{ c }} to the value of the expression c spells *)
Theorem C01_tokens_to_value c e lb rb eof (en : env) fs :
  wf c -> den c e -> lits_ok e -> (size e <= fs)%nat ->
  ttype lb = T_LBRACES -> ttype rb = T_RBRACES -> ttype eof = T_EOF ->
  parse_tokens (lb :: flat c ++ [rb; eof]) = ParsedOk (mkProgram [SExpr (compile e)] None [] [] []) /\
  exists n, forall fm, (n <= fm)%nat ->
    meets (eval_expr cx0 fm en (compile e)) (sem model_call_spec fs (flat_env en) e).
Proof. exact (braces_block_evaluates c e lb rb eof en fs). Qed.
Print Assumptions C01_tokens_to_value.

(* non-vacuity: the lexed source  {{ 8 / 2 * 2 - x }}  spells (8 / 2 * 2) - x *)
Example C01_lexed_source_spells_an_expression :
  exists lb rb eof c,
    lex_all (bs "{{ 8 / 2 * 2 - x }}") = Some (lb :: flat c ++ [rb; eof]) /\ wf c /\
    den c (XBin BSub (XBin BMul (XBin BDiv (XInt 8) (XInt 2)) (XInt 2)) (XVar (bs "x"))).
Proof.
  destruct (lex_all (bs "{{ 8 / 2 * 2 - x }}")) as [ts|] eqn:E; [|vm_compute in E; discriminate E].
  vm_compute in E. injection E as <-.
  match goal with |- exists lb rb eof c, Some (?t0 :: ?t8 :: ?dv :: ?t2 :: ?ml :: ?t2' :: ?mi :: ?x :: ?rbt :: ?eoft :: nil) = _ /\ _ =>
    exists t0, rbt, eoft, (CBin mi (CBin ml (CBin dv (CAtom t8) (CAtom t2)) (CAtom t2')) (CAtom x))
  end.
  split; [reflexivity|]. split.
  - cbn [wf llev rlev]. unfold tprec, INF. cbn [ttype].
    repeat split; try reflexivity; try discriminate; try (vm_compute; lia).
  - cbn [den]. repeat split; reflexivity.
Qed.

Example C01_example :
  sem model_call_spec 10 [] (XBin BMul (XBin BDiv (XInt 8) (XInt 2)) (XInt 2)) = SVal (VInt 8) /\
  eval_expr cx0 10 [[]] (compile (XBin BMul (XBin BDiv (XInt 8) (XInt 2)) (XInt 2))) = Ok (VInt 8) /\
  lits_ok (XBin BAdd (XFloat 15 1) (XInt 3)).
Proof. exact sem_example. Qed.

(* ---- from the source BYTES of {{ c }} (Proofs/LexRound.v reads the lexer backwards) *)
From TW Require Import LexRound.

Theorem C01_from_source_bytes_to_value its c e lb rb eof (en : env) fs :
  source_ok its = true -> place (spell its) 0 its = lb :: flat c ++ [rb; eof] ->
  wf c -> den c e -> lits_ok e -> (size e <= fs)%nat ->
  ttype lb = T_LBRACES -> ttype rb = T_RBRACES -> ttype eof = T_EOF ->
  parse_source (spell its) = ParsedOk (mkProgram [SExpr (compile e)] None [] [] []) /\
  exists n, forall fm, (n <= fm)%nat ->
    meets (eval_expr cx0 fm en (compile e)) (sem model_call_spec fs (flat_env en) e).
Proof. exact (source_expression_evaluates its c e lb rb eof en fs). Qed.
Print Assumptions C01_from_source_bytes_to_value.

Example C01_sources_in_the_domain :
  forallb (fun s => in_domain (bs s))
    ["{{ (8 / 2 * 2) - -x.n[0] ? a.f(1, 2) : [3] }}"; "{{ 8 / 2 * 2 - x }}"; "{{ 1.5e+1 }}";
     "{{ !true == false }}"; "{{ a<=b }}{{ a>=b }}{{ a!=b }}{{ i++ }}{{ i-- }}{{ -1 - -1 }}"]%string = true.
Proof. vm_compute. reflexivity. Qed.
