(* C01 - expressions follow the precedence table, left associativity and typed arithmetic.
   Proved here (semantic half): for EVERY specification expression, environment and sufficient
   fuel, the evaluator model (mirror of evaluator.go) applied to the expression's AST gives exactly
   the value of the specification semantics - wrapping 64-bit integers, IEEE-754 binary64 (Flocq),
   byte strings, same-type rule; an error for mixed operand types, division and modulo by zero and
   unknown identifiers - and Go's binding-power table, regenerated from parser.go on every run, is a
   strictly monotone image of the property's precedence levels with every operator on its level;
   the call-site precedences of parseExpression (right operand at the operator's own level, ternary
   branches, assignment value at LOWEST) are pinned by Proofs/GenTie.v.
   Decided by the check on generated instances (syntactic half, not a theorem yet): the printer's
   output for a tree - any layout of blanks, newlines, redundant parentheses - is parsed back to
   that tree by the lexer + Pratt parser (model = implementation on every case; implementation
   output = text of the specification value). *)
From Coq Require Import String.
From TW Require Import Bytes Floats Values Ast GenToken GenParser Lexer Parser Builtins Eval Expr ExprSem GenTie.
Open Scope N_scope.

(* en is the chain of scopes (innermost first); the specification sees it flattened, so an inner
   binding shadows an outer one *)
Theorem C01_model_evaluates_like_the_specification (en : env) e fs :
  lits_ok e -> (size e <= fs)%nat ->
  exists n, forall fm, (n <= fm)%nat ->
    meets (eval_expr cx0 fm en (compile e)) (sem model_call_spec fs (flat_env en) e).
Proof. exact (model_evaluates_like_the_specification en e fs). Qed.
Print Assumptions C01_model_evaluates_like_the_specification.

Theorem C01_binary_operators_are_typed ln o a b : meets (eval_infix_op ln (op_sym o) a b) (sem_bin o a b).
Proof. exact (infix_meets ln o a b). Qed.
Print Assumptions C01_binary_operators_are_typed.

Theorem C01_binding_powers_follow_the_levels :
  forallb (fun a => forallb (fun b => Bool.eqb (Nat.ltb (lnum a) (lnum b)) (Nat.ltb (level_code a) (level_code b)))
                            all_levels) all_levels = true.
Proof. exact level_code_monotone. Qed.
Print Assumptions C01_binding_powers_follow_the_levels.

Theorem C01_every_operator_is_on_its_level :
  forallb (fun o => Nat.eqb (precOf (binop_tok o)) (level_code (op_level o))) all_binops = true /\
  precOf T_QUESTION = level_code LTernary /\ precOf T_DOT = level_code LMember /\
  precOf T_LBRACKET = level_code LIndex /\ precOf T_INC = level_code LPostfix /\ precOf T_DEC = level_code LPostfix /\
  (P_LOWEST < level_code LTernary)%nat.
Proof. exact operator_precedences_follow_levels. Qed.
Print Assumptions C01_every_operator_is_on_its_level.

(* right operand at the operator's own precedence, ternary consequence at TERNARY and alternative at
   LOWEST (right nesting), prefix operand at PREFIX, assignment value as a complete expression *)
Theorem C01_operand_precedences_in_the_source : parse_expression_sites = model_sites.
Proof. exact call_site_precedences_tied. Qed.
Print Assumptions C01_operand_precedences_in_the_source.

(* an integer literal above MaxInt64 is a parse error, not a value *)
Theorem C01_out_of_range_literal_is_rejected lit :
  (max_int64 < dec_value 0%Z lit)%Z -> parseInt lit = None.
Proof.
  intro H. unfold parseInt. destruct (dec_value 0 lit <=? max_int64)%Z eqn:E; [|reflexivity].
  apply Z.leb_le in E. exfalso. apply (Z.lt_irrefl max_int64). eapply Z.lt_le_trans; eassumption.
Qed.
Print Assumptions C01_out_of_range_literal_is_rejected.

Example C01_example :
  sem model_call_spec 10 [] (XBin BMul (XBin BDiv (XInt 8) (XInt 2)) (XInt 2)) = SVal (VInt 8) /\
  eval_expr cx0 10 [[]] (compile (XBin BMul (XBin BDiv (XInt 8) (XInt 2)) (XInt 2))) = Ok (VInt 8) /\
  lits_ok (XBin BAdd (XFloat 15 1) (XInt 3)).
Proof. exact sem_example. Qed.
