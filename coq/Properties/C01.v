(* C01 - placeholder until Proofs/Pratt.v lands in this commit series: see below *)
From TW Require Import Bytes.
