(* C06 - layouts: reserves filled by inserts.
   Proved on the loader + evaluator model: a page that declares @use(L) loads to the layout's
   program alone (page text outside inserts is gone); inserts are attached to their reserves wherever
   these stand (inside @if / @each bodies too); a filled reserve shows exactly what the insert's body
   (or expression) renders in place with the data of the call, an unfilled one nothing; an insert
   without a reserve and a missing layout are load errors, a layout that uses a layout fails when
   rendered; '~x' is 'layouts/x'.  The end-to-end equation "String(page) = EvaluateString(layout
   text with every @reserve replaced by the insert's text)" is decided on generated trees. *)
From Coq Require Import String.
From TW Require Import Bytes GenToken Lexer Ast Parser Values Builtins Eval Render Api Layouts.
Open Scope N_scope.

Theorem C06_page_with_layout_is_the_layout fs cfg rel p uln lname ss isl :
  parse_file fs rel = LOk (PProg p) -> p_use p = Some (uln, lname) ->
  load_page fs cfg rel = LOk (ss, isl) ->
  exists hu lstmts, ss = [SUse uln lname (Some (true, hu, lstmts))].
Proof. exact (page_with_layout_is_the_layout fs cfg rel p uln lname ss isl). Qed.
Print Assumptions C06_page_with_layout_is_the_layout.

Theorem C06_use_renders_the_layout cx f en uln lname lstmts :
  eval_stmt cx (S f) en (SUse uln lname (Some (true, false, lstmts))) =
  (let! r := eval_program cx f en lstmts [] in Ok (VUse (VHtml (fst r)), snd r)).
Proof. exact (use_renders_the_layout cx f en uln lname lstmts). Qed.
Print Assumptions C06_use_renders_the_layout.

Theorem C06_reserve_filled_by_block cx f en ln rid n iln arg b :
  eval_stmt cx (S f) en (SReserve ln rid n (Some (iln, arg, Some b))) =
  (let! r := eval_block cx f en b [] in Ok (VReserve (fst r) None, snd r)) /\
  (forall v, value_string (VReserve v None) = value_string v).
Proof. exact (reserve_filled_by_block cx f en ln rid n iln arg b). Qed.
Print Assumptions C06_reserve_filled_by_block.

Theorem C06_reserve_filled_by_expression cx f en ln rid n iln arg :
  arg <> ENull ->
  eval_stmt cx (S f) en (SReserve ln rid n (Some (iln, arg, None))) =
  (let! v := eval_expr cx f en arg in Ok (VReserve VNil (Some v), en)) /\
  (forall v, value_string (VReserve VNil (Some v)) = value_string v).
Proof. exact (reserve_filled_by_expression cx f en ln rid n iln arg). Qed.
Print Assumptions C06_reserve_filled_by_expression.

Theorem C06_unfilled_reserve_shows_nothing cx f en ln rid n :
  eval_stmt cx (S f) en (SReserve ln rid n None) = Ok (VNil, en) /\ value_string VNil = Some [].
Proof. exact (unfilled_reserve_shows_nothing cx f en ln rid n). Qed.
Print Assumptions C06_unfilled_reserve_shows_nothing.

Theorem C06_inserts_reach_reserves_inside_blocks cb ri f ln c thn alts alt rid n old iln arg body :
  rw_stmt cb ri (S f) (SIf ln c thn alts alt) =
  SIf ln c (map (rw_stmt cb ri f) thn) (map (fun ab => (fst ab, map (rw_stmt cb ri f) (snd ab))) alts)
      (match alt with Some b => Some (map (rw_stmt cb ri f) b) | None => None end) /\
  (ri rid = Some (iln, arg, body) ->
   rw_stmt cb ri (S f) (SReserve ln rid n old) = SReserve ln rid n (Some (iln, arg, body))).
Proof.
  split; [exact (inserts_reach_reserves_inside_blocks cb ri f ln c thn alts alt)|
          exact (insert_attached_to_its_reserve cb ri f ln rid n old iln arg body)].
Qed.
Print Assumptions C06_inserts_reach_reserves_inside_blocks.

Theorem C06_undefined_insert_is_a_load_error fs cfg rel p uln lname lp i :
  parse_file fs rel = LOk (PProg p) -> p_use p = Some (uln, lname) ->
  parse_file fs (rel_of cfg lname) = LOk (PProg lp) ->
  undefined_insert (asort (p_inserts p)) (p_reserves lp) = Some i ->
  load_page fs cfg rel = LErr (mkErr (ins_ln i) (abs_path rel) (fmt ErrUndefinedInsert [ins_name i])).
Proof. exact (undefined_insert_is_a_load_error fs cfg rel p uln lname lp i). Qed.
Print Assumptions C06_undefined_insert_is_a_load_error.

Theorem C06_missing_layout_is_a_load_error fs cfg rel p uln lname ne msg :
  parse_file fs rel = LOk (PProg p) -> p_use p = Some (uln, lname) ->
  parse_file fs (rel_of cfg lname) = LOk (PReadErr ne msg) ->
  load_page fs cfg rel = LErr (mkErr uln (abs_path (rel_of cfg lname)) msg).
Proof. exact (missing_layout_is_a_load_error fs cfg rel p uln lname ne msg). Qed.
Print Assumptions C06_missing_layout_is_a_load_error.

Theorem C06_layout_using_a_layout_fails cx f en uln lname lstmts :
  eval_stmt cx (S f) en (SUse uln lname (Some (true, true, lstmts))) = Fail uln (fmt ErrUseStmtNotAllowed []).
Proof. exact (layout_using_a_layout_fails cx f en uln lname lstmts). Qed.
Print Assumptions C06_layout_using_a_layout_fails.

Theorem C06_tilde_alias st name dir :
  tlit (curT st) = 126 :: name -> aliasPath st dir = (dir ++ [47] ++ name, st).
Proof. exact (alias_path st name dir). Qed.
Print Assumptions C06_tilde_alias.
