(* C06 - layouts: reserves filled by inserts.
   Proved on the loader + evaluator model: a page that declares @use(L) loads to the layout's
   program alone (page text outside inserts is gone); inserts are attached to their reserves wherever
   these stand (inside @if / @each bodies too); a filled reserve shows exactly what the insert's body
   (or expression) renders in place with the data of the call, an unfilled one nothing; an insert
   without a reserve and a missing layout are load errors, a layout that uses a layout fails when
   rendered; '~x' is 'layouts/x'.
   END TO END (Proofs/LayoutRefine.v): for every layout tree - reserves at any nesting depth inside
   @if / @elseif / @else / @each / @for - and every assignment of inserts (block form, expression form
   or none, per reserve), a page that declares @use of that layout LOADS to the layout alone and
   RENDERS (Template.String on the loaded template) exactly what the big-step semantics of
   Spec/Template.v gives for the layout tree with the inserts put into its reserves (fill), with
   the data of the call; an error where the semantics says error.  The loader's rewriting with
   its depth budget, line-number irrelevance and the evaluator refinement (which covers reserve
   nodes) are composed.  The equation against the implementation is the correspondence run. *)
From Coq Require Import String.
From TW Require Import Bytes GenToken Lexer Ast Parser Values Builtins Eval Render Api Layouts.
Open Scope N_scope.

Theorem C06_page_with_layout_is_the_layout fs cfg rel p uln lname ss isl :
  parse_file fs rel = LOk (PProg p) -> p_use p = Some (uln, lname) ->
  load_page fs cfg rel = LOk (ss, isl) ->
  exists hu lstmts, ss = [SUse uln lname (Some (true, hu, lstmts))].
Proof. exact (page_with_layout_is_the_layout fs cfg rel p uln lname ss isl). Qed.
Print Assumptions C06_page_with_layout_is_the_layout.

Theorem C06_use_renders_the_layout cx f en uln lname lstmts :
  eval_stmt cx (S f) en (SUse uln lname (Some (true, false, lstmts))) =
  (let! r := eval_program cx f en lstmts [] in Ok (VUse (VHtml (fst r)), snd r)).
Proof. exact (use_renders_the_layout cx f en uln lname lstmts). Qed.
Print Assumptions C06_use_renders_the_layout.

Theorem C06_reserve_filled_by_block cx f en ln rid n iln arg b :
  eval_stmt cx (S f) en (SReserve ln rid n (Some (iln, arg, Some b))) =
  (let! r := eval_block cx f en b [] in Ok (VReserve (fst r) None, snd r)) /\
  (forall v, value_string (VReserve v None) = value_string v).
Proof. exact (reserve_filled_by_block cx f en ln rid n iln arg b). Qed.
Print Assumptions C06_reserve_filled_by_block.

Theorem C06_reserve_filled_by_expression cx f en ln rid n iln arg :
  arg <> ENull ->
  eval_stmt cx (S f) en (SReserve ln rid n (Some (iln, arg, None))) =
  (let! v := eval_expr cx f en arg in Ok (VReserve VNil (Some v), en)) /\
  (forall v, value_string (VReserve VNil (Some v)) = value_string v).
Proof. exact (reserve_filled_by_expression cx f en ln rid n iln arg). Qed.
Print Assumptions C06_reserve_filled_by_expression.

Theorem C06_unfilled_reserve_shows_nothing cx f en ln rid n :
  eval_stmt cx (S f) en (SReserve ln rid n None) = Ok (VNil, en) /\ value_string VNil = Some [].
Proof. exact (unfilled_reserve_shows_nothing cx f en ln rid n). Qed.
Print Assumptions C06_unfilled_reserve_shows_nothing.

Theorem C06_inserts_reach_reserves_inside_blocks cb ri f ln c thn alts alt rid n old iln arg body :
  rw_stmt cb ri (S f) (SIf ln c thn alts alt) =
  SIf ln c (map (rw_stmt cb ri f) thn) (map (fun ab => (fst ab, map (rw_stmt cb ri f) (snd ab))) alts)
      (match alt with Some b => Some (map (rw_stmt cb ri f) b) | None => None end) /\
  (ri rid = Some (iln, arg, body) ->
   rw_stmt cb ri (S f) (SReserve ln rid n old) = SReserve ln rid n (Some (iln, arg, body))).
Proof.
  split; [exact (inserts_reach_reserves_inside_blocks cb ri f ln c thn alts alt)|
          exact (insert_attached_to_its_reserve cb ri f ln rid n old iln arg body)].
Qed.
Print Assumptions C06_inserts_reach_reserves_inside_blocks.

Theorem C06_undefined_insert_is_a_load_error fs cfg rel p uln lname lp i :
  parse_file fs rel = LOk (PProg p) -> p_use p = Some (uln, lname) ->
  parse_file fs (rel_of cfg lname) = LOk (PProg lp) ->
  undefined_insert (asort (p_inserts p)) (p_reserves lp) = Some i ->
  load_page fs cfg rel = LErr (mkErr (ins_ln i) (abs_path rel) (fmt ErrUndefinedInsert [ins_name i])).
Proof. exact (undefined_insert_is_a_load_error fs cfg rel p uln lname lp i). Qed.
Print Assumptions C06_undefined_insert_is_a_load_error.

Theorem C06_missing_layout_is_a_load_error fs cfg rel p uln lname ne msg :
  parse_file fs rel = LOk (PProg p) -> p_use p = Some (uln, lname) ->
  parse_file fs (rel_of cfg lname) = LOk (PReadErr ne msg) ->
  load_page fs cfg rel = LErr (mkErr uln (abs_path (rel_of cfg lname)) msg).
Proof. exact (missing_layout_is_a_load_error fs cfg rel p uln lname ne msg). Qed.
Print Assumptions C06_missing_layout_is_a_load_error.

Theorem C06_layout_using_a_layout_fails cx f en uln lname lstmts :
  eval_stmt cx (S f) en (SUse uln lname (Some (true, true, lstmts))) = Fail uln (fmt ErrUseStmtNotAllowed []).
Proof. exact (layout_using_a_layout_fails cx f en uln lname lstmts). Qed.
Print Assumptions C06_layout_using_a_layout_fails.

Theorem C06_tilde_alias st name dir :
  tlit (curT st) = 126 :: name -> aliasPath st dir = (dir ++ [47] ++ name, st).
Proof. exact (alias_path st name dir). Qed.
Print Assumptions C06_tilde_alias.

(* ---- end to end: the page renders its layout, filled *)
From TW Require Import Expr Template ExprSem CleanValues TemplateRefine LineIrrelevance LayoutRefine.

Theorem C06_page_renders_its_layout_filled fs cfg rel p lp uln lname L ins fsp gd (data : list (bytes * value)) :
  parse_file fs rel = LOk (PProg p) -> p_use p = Some (uln, lname) -> p_components p = [] ->
  parse_file fs (rel_of cfg lname) = LOk (PProg lp) -> p_use lp = None ->
  undefined_insert (asort (p_inserts p)) (p_reserves lp) = None ->
  map strip_s (p_stmts lp) = map strip_s (map cnode L) ->
  Forall (lay (rid_name (p_reserves lp)) rw_fuel) L -> nodes_ok L ->
  (forall name, match ins_of_page p name with Some x => Some (strip_ins x) | None => None end =
                match ins name with Some i => Some (strip_ins (cins i)) | None => None end) ->
  ins_ok ins ->
  env_from_map gd = EnvOk [data] ->
  forallb (fun kv : bytes * value => clean (snd kv)) data = true ->
  exists ss isl, load_page fs cfg rel = LOk (ss, isl) /\
  exists K, (K <= eval_fuel)%nat -> forall tpl name, alookup name tpl = Some ss ->
    match run_nodes model_call_spec fsp [data] (map (fill ins) L) with
    | TOk out SigNormal _ => template_string cx0 cfg tpl name gd = StrOk out
    | TOk _ _ _ => True
    | TFail => exists e, template_string cx0 cfg tpl name gd = StrErr e
    | TNoFuel | TUnprintable => True
    end.
Proof. exact (page_renders_filled_layout fs cfg rel p lp uln lname L ins fsp gd data). Qed.
Print Assumptions C06_page_renders_its_layout_filled.

(* what a filled reserve shows, in the specification: the body rendered at the reserve's place
   (Spec/Template.run_node), the value of the expression form, nothing *)
Theorem C06_filled_reserve_in_the_specification f sc n rid b a e :
  run_node model_call_spec (S f) sc (NReserve n rid (Some b) a) =
    match run_nodes model_call_spec f sc b with TOk o _ sc1 => TOk o SigNormal sc1 | r => r end /\
  run_node model_call_spec (S f) sc (NReserve n rid None (Some e)) = run_node model_call_spec (S f) sc (NPrint e) /\
  run_node model_call_spec (S f) sc (NReserve n rid None None) = TOk [] SigNormal sc.
Proof.
  split; [exact (rn_reserve_block f sc n rid b a)|]. split; [|exact (rn_reserve_empty f sc n rid)].
  rewrite rn_reserve_expr, rn_print. reflexivity.
Qed.

(* non-vacuity: a layout with a reserve at top level, one two blocks deep inside @if and @each, and
   one the page does not fill; a page with junk between its inserts; all hypotheses of the theorem
   hold (by computation) and the loaded template renders the filled layout *)
Definition fs6 : fsys :=
  [(bs "templates/home.tw.html", FFile (bs "@use('~main')junk@insert('t', name)more@insert('b')<b>{{ n + 1 }}</b>@end tail"));
   (bs "templates/layouts/main.tw.html", FFile (bs "<t>@reserve('t')</t>@if(show)@each(i in [1, 2])[@reserve('b')]@end@end@reserve('none')"))].
Definition L6 : list tnode :=
  [NText (bs "<t>"); NReserve (bs "t") 0 None None; NText (bs "</t>");
   NIf (XVar (bs "show")) [NEach (bs "i") (XArr [XInt 1; XInt 2]) [NText (bs "["); NReserve (bs "b") 1 None None; NText (bs "]")] None] [] None;
   NReserve (bs "none") 2 None None].
Definition ins6 (nm : bytes) : option sinsert :=
  if bytes_eqb nm (bs "t") then Some (IExpr (XVar (bs "name")))
  else if bytes_eqb nm (bs "b") then Some (IBlock [NText (bs "<b>"); NPrint (XBin BAdd (XVar (bs "n")) (XInt 1)); NText (bs "</b>")])
  else None.
Definition gd6 : list (bytes * goval) := [(bs "name", GStr (bs "Ann")); (bs "n", GInt 41); (bs "show", GBool true)].

Example C06_filled_layout_example :
  exists p lp,
    parse_file fs6 (bs "templates/home.tw.html") = LOk (PProg p) /\ p_use p = Some (1%nat, bs "layouts/main") /\
    p_components p = [] /\
    parse_file fs6 (rel_of default_config (bs "layouts/main")) = LOk (PProg lp) /\ p_use lp = None /\
    undefined_insert (asort (p_inserts p)) (p_reserves lp) = None /\
    map strip_s (p_stmts lp) = map strip_s (map cnode L6) /\
    Forall (lay (rid_name (p_reserves lp)) rw_fuel) L6 /\ nodes_ok L6 /\ ins_ok ins6 /\
    (forall tpl, new_template fs6 default_config = LOk tpl ->
       template_string cx0 default_config tpl (bs "home") gd6 = StrOk (bs "<t>Ann</t>[<b>42</b>][<b>42</b>]")).
Proof.
  assert (Hr : match new_template fs6 default_config with
               | LOk tpl => template_string cx0 default_config tpl (bs "home") gd6
               | _ => StrPanic
               end = StrOk (bs "<t>Ann</t>[<b>42</b>][<b>42</b>]")) by (vm_compute; reflexivity).
  eexists. eexists.
  split; [vm_compute; reflexivity|]. split; [reflexivity|]. split; [reflexivity|].
  split; [vm_compute; reflexivity|]. split; [reflexivity|].
  split; [vm_compute; reflexivity|]. split; [vm_compute; reflexivity|].
  split.
  { apply (Forall_impl _ (fun n => lay_le _ 5 rw_fuel n ltac:(vm_compute; repeat constructor))). unfold L6. repeat constructor. }
  split; [cbn; repeat split; lia|].
  split.
  { intros nm i. unfold ins6. destruct (bytes_eqb nm (bs "t")); [intros [= <-]; exact I|].
    destruct (bytes_eqb nm (bs "b")); [intros [= <-]; cbn; repeat split; lia|discriminate]. }
  intros tpl Ht. rewrite Ht in Hr. exact Hr.
Qed.

(* ---- the wording taken literally: a filled reserve IS its content in its place (Proofs/ReserveSplice.v,
   on top of Proofs/SpecMono.v: the specification's budget only decides whether it answers) *)
From TW Require Import SpecMono ReserveSplice.

Theorem C06_specification_budget_only_decides_whether f g sc ns r :
  (f <= g)%nat -> run_nodes model_call_spec f sc ns = r -> r <> TNoFuel -> run_nodes model_call_spec g sc ns = r.
Proof. exact (run_nodes_fuel_mono f g sc ns r). Qed.
Print Assumptions C06_specification_budget_only_decides_whether.

Theorem C06_filled_reserve_is_its_content sc pre n rid b a post r :
  (forall sc' rb, RunsTo sc' b rb -> match rb with TOk _ s _ => s = SigNormal | _ => True end) ->
  RunsTo sc (pre ++ NReserve n rid (Some b) a :: post) r -> RunsTo sc (pre ++ b ++ post) r.
Proof. exact (filled_reserve_is_its_content sc pre n rid b a post r). Qed.
Print Assumptions C06_filled_reserve_is_its_content.

Theorem C06_inserts_of_quiet_nodes_qualify b :
  Forall quiet_node b -> forall sc' rb, RunsTo sc' b rb -> match rb with TOk _ s _ => s = SigNormal | _ => True end.
Proof. exact (quiet_list b). Qed.

Theorem C06_expression_reserve_is_a_print sc pre n rid e post f :
  run_nodes model_call_spec f sc (pre ++ NReserve n rid None (Some e) :: post) =
  run_nodes model_call_spec f sc (pre ++ NPrint e :: post).
Proof. exact (expression_reserve_is_a_print sc pre n rid e post f). Qed.

Theorem C06_unfilled_reserve_is_nothing sc pre n rid post r :
  RunsTo sc (pre ++ NReserve n rid None None :: post) r -> RunsTo sc (pre ++ post) r.
Proof. exact (unfilled_reserve_is_nothing sc pre n rid post r). Qed.
Print Assumptions C06_unfilled_reserve_is_nothing.

(* non-vacuity: the block insert of the example above consists of quiet nodes *)
Example C06_example_insert_is_quiet :
  Forall quiet_node [NText (bs "<b>"); NPrint (XBin BAdd (XVar (bs "n")) (XInt 1)); NText (bs "</b>")].
Proof. repeat constructor; first [apply quiet_text|apply quiet_print]. Qed.

(* ---- pages that also use components: the insert bodies reach the reserves with their component blocks
   attached (uses nested in slot bodies included) *)
Theorem C06_page_with_components_renders_its_layout_filled fs cfg rel p lp uln lname blocks L ins fsp gd (data : list (bytes * value)) :
  parse_file fs rel = LOk (PProg p) -> p_use p = Some (uln, lname) ->
  parse_file fs (rel_of cfg lname) = LOk (PProg lp) -> p_use lp = None ->
  undefined_insert (asort (p_inserts p)) (p_reserves lp) = None ->
  resolve_components fs cfg (abs_path rel) (p_components p) = LOk blocks ->
  map strip_s (p_stmts lp) = map strip_s (map cnode L) ->
  Forall (lay (rid_name (p_reserves lp)) rw_fuel) L -> nodes_ok L ->
  (forall name, match ins_of_page_att blocks p name with Some x => Some (strip_ins x) | None => None end =
                match ins name with Some i => Some (strip_ins (cins i)) | None => None end) ->
  ins_ok ins ->
  env_from_map gd = EnvOk [data] ->
  forallb (fun kv : bytes * value => clean (snd kv)) data = true ->
  exists ss isl, load_page fs cfg rel = LOk (ss, isl) /\
  exists K, (K <= eval_fuel)%nat -> forall tpl name, alookup name tpl = Some ss ->
    match run_nodes model_call_spec fsp [data] (map (fill ins) L) with
    | TOk out SigNormal _ => template_string cx0 cfg tpl name gd = StrOk out
    | TOk _ _ _ => True
    | TFail => exists e, template_string cx0 cfg tpl name gd = StrErr e
    | TNoFuel | TUnprintable => True
    end.
Proof. exact (page_with_components_renders_filled_layout fs cfg rel p lp uln lname blocks L ins fsp gd data). Qed.
Print Assumptions C06_page_with_components_renders_its_layout_filled.

Definition fs6c : fsys :=
  [(bs "templates/pg.tw.html", FFile (bs "@use('~m')@insert('b')@component('~a')@slot@component('~c', {y: n})@end@end@end"));
   (bs "templates/layouts/m.tw.html", FFile (bs "<L>@reserve('b')</L>"));
   (bs "templates/components/a.tw.html", FFile (bs "[@slot]"));
   (bs "templates/components/c.tw.html", FFile (bs "C{{ y }}"))].
Definition ins6c (nm : bytes) : option sinsert :=
  if bytes_eqb nm (bs "b")
  then Some (IBlock [NComponent (bs "components/a") 1 None
                       [NText (bs "[");
                        NSlot [] (Some [NComponent (bs "components/c") 0 (Some [(bs "y", XVar (bs "n"))]) [NText (bs "C"); NPrint (XVar (bs "y"))]]);
                        NText (bs "]")]])
  else None.

Example C06_components_in_an_insert_example :
  exists p blocks,
    parse_file fs6c (bs "templates/pg.tw.html") = LOk (PProg p) /\
    resolve_components fs6c default_config (abs_path (bs "templates/pg.tw.html")) (p_components p) = LOk blocks /\
    (match ins_of_page_att blocks p (bs "b") with Some x => Some (strip_ins x) | None => None end =
     match ins6c (bs "b") with Some i => Some (strip_ins (cins i)) | None => None end) /\
    ins_ok ins6c /\
    (forall tpl, new_template fs6c default_config = LOk tpl ->
       template_string cx0 default_config tpl (bs "pg") [(bs "n", GInt 3)] = StrOk (bs "<L>[C3]</L>")).
Proof.
  assert (Hr : match new_template fs6c default_config with
               | LOk tpl => template_string cx0 default_config tpl (bs "pg") [(bs "n", GInt 3)]
               | _ => StrPanic
               end = StrOk (bs "<L>[C3]</L>")) by (vm_compute; reflexivity).
  eexists. eexists.
  split; [vm_compute; reflexivity|]. split; [vm_compute; reflexivity|]. split; [vm_compute; reflexivity|].
  split.
  { intros nm i. unfold ins6c. destruct (bytes_eqb nm (bs "b")); [intros [= <-]; cbn; repeat split; lia|discriminate]. }
  intros tpl Ht. rewrite Ht in Hr. exact Hr.
Qed.
