(* C08 - lexing and parsing terminate on every input and end in a program or an error.
   Proved for every byte string, on the lexer and parser models:
   - NextToken always returns (the fuel of the model is sufficient);
   - each NextToken call consumes input, or returns EOF, or returns an ILLEGAL token that the next
     call returns again unchanged, so pulling tokens until the lexer repeats itself terminates;
   - the parser returns on every token list that ends in EOF or ILLEGAL, within the fuel the model
     gives it (6 per remaining token + 20), never through the branch in which the Go code would
     panic, with a program and no recorded error, or with at least one error, every error
     carrying a line >= 1.
   What remains with the correspondence and oracle runs: that the models are the Go code (and
   with it the absence of run-time panics outside the modelled branches), and the clause that a
   template with an unterminated block or argument list is *rejected* (decided on generated
   instances; C08_illegal_character_is_rejected and C08_illegal_token_is_rejected prove rejection
   for EVERY source whose token stream holds an ILLEGAL token - illegal character, unterminated
   string, unterminated comment: C08_source_with_illegal_token_is_rejected). *)
From Coq Require Import String.
From TW Require Import Bytes GenToken Lexer LexTotal GenTie Ast Parser ParseTotal LexAll ParseReject LexShape.
Local Open Scope string_scope.

Theorem C08_next_token_always_returns l : nextTok l <> None.
Proof. exact (nextTok_total l). Qed.
Print Assumptions C08_next_token_always_returns.

Theorem C08_next_token_fuel_bound fuel l :
  (List.length (rest l) < fuel)%nat -> nextToken fuel l <> None.
Proof. exact (nextToken_total fuel l). Qed.
Print Assumptions C08_next_token_fuel_bound.

(* the parser's loop guards are the ones read from parser.go: a block ends at @end, EOF or ILLEGAL *)
Theorem C08_block_loop_sees_eof_and_illegal :
  GenParser.block_guard_tokens = [T_END; T_EOF; T_ILLEGAL] /\
  GenParser.block_break_tokens = [T_ELSE; T_ELSE_IF; T_END].
Proof. exact block_tokens_tied. Qed.
Print Assumptions C08_block_loop_sees_eof_and_illegal.

(* one NextToken call: progress, EOF, or an ILLEGAL token that repeats *)
Theorem C08_next_token_progress input fuel l t l' :
  LexerPos.Inv input l -> nextToken fuel l = Some (t, l') ->
  (lpos l < lpos l')%nat \/ ttype t = T_EOF \/
  (ttype t = T_ILLEGAL /\ forall f, nextToken (S f) l' = Some (t, l')).
Proof. exact (nextToken_prog input fuel l t l'). Qed.
Print Assumptions C08_next_token_progress.

(* the token stream of every input is finite and ends in EOF or ILLEGAL *)
Theorem C08_lexing_terminates input : exists ts, lex_all input = Some ts /\ tinv ts = true.
Proof. exact (lex_all_total input). Qed.
Print Assumptions C08_lexing_terminates.

(* the parser on every such token list *)
Theorem C08_parser_terminates ts :
  tinv ts = true ->
  (exists p, parse_tokens ts = ParsedOk p) \/
  (exists es, parse_tokens ts = ParseErrors es /\ es <> [] /\ errs_ok es).
Proof. exact (parse_tokens_total ts). Qed.
Print Assumptions C08_parser_terminates.

(* the whole property, for every byte string *)
Theorem C08_program_or_error_with_line src :
  (exists p, parse_source src = ParsedOk p) \/
  (exists es, parse_source src = ParseErrors es /\ es <> [] /\
              List.Forall (fun e => 1 <= fst e)%nat es).
Proof. exact (parse_source_total src). Qed.
Print Assumptions C08_program_or_error_with_line.

(* an input on which the lexer stops at a character it cannot read (its token stream ends in
   ILLEGAL instead of EOF) is always rejected with at least one error *)
Theorem C08_illegal_character_is_rejected src ts :
  lex_all src = Some ts -> ttype (last ts eofTok) = T_ILLEGAL ->
  exists es, parse_source src = ParseErrors es /\ es <> [].
Proof. exact (stuck_lexer_is_rejected src ts). Qed.
Print Assumptions C08_illegal_character_is_rejected.

Example C08_illegal_character_example :
  exists ts, lex_all (bs "{{ 1 # 2 }}") = Some ts /\ ttype (last ts eofTok) = T_ILLEGAL.
Proof. vm_compute. eexists; split; reflexivity. Qed.

(* a token list in which an ILLEGAL token occurs anywhere - an illegal character, an unterminated string, an
   unterminated comment - is rejected: under the two facts about lexer output that an ILLEGAL token is followed
   only by ILLEGAL / EOF tokens (sok) and that EOF is the last token (eol), the parser records at least one error.
   (Proof: no parse function steps over a token before it has seen its type, or seen that the NEXT token is one that
   can not follow an ILLEGAL token; so a parse without errors ends on EOF with every ILLEGAL token still ahead.) *)
Theorem C08_illegal_token_is_rejected ts :
  tinv ts = true -> sok ts = true -> eol ts = true -> existsb illT ts = true ->
  exists es, parse_tokens ts = ParseErrors es /\ es <> [].
Proof. exact (parse_tokens_rejects_illegal ts). Qed.
Print Assumptions C08_illegal_token_is_rejected.

(* the two facts hold for the token stream of EVERY input: the ILLEGAL token of an unknown character repeats, the
   ILLEGAL tokens of an unterminated string or comment leave the lexer at the end of the input (the next token is
   EOF), and a directive that isDirectiveToken recognised is never lexed as ILLEGAL *)
Theorem C08_lexer_output_shape input :
  exists ts, lex_all input = Some ts /\ tinv ts = true /\ sok ts = true /\ eol ts = true.
Proof. exact (lex_all_shape input). Qed.
Print Assumptions C08_lexer_output_shape.

(* so: every source whose token stream holds an ILLEGAL token - an illegal character, an unterminated string, an
   unterminated comment, anywhere - is rejected with at least one error *)
Theorem C08_source_with_illegal_token_is_rejected src ts :
  lex_all src = Some ts -> existsb illT ts = true ->
  exists es, parse_source src = ParseErrors es /\ es <> [].
Proof. exact (source_with_illegal_token_is_rejected src ts). Qed.
Print Assumptions C08_source_with_illegal_token_is_rejected.

(* the hypotheses hold for the lexer's output on an unterminated string and on an unterminated comment *)
Example C08_unterminated_examples :
  (exists ts, lex_all (bs "a {{ ""abc }} b") = Some ts /\ tinv ts = true /\ sok ts = true /\ eol ts = true /\ existsb illT ts = true) /\
  (exists ts, lex_all (bs "x {{-- never closed") = Some ts /\ tinv ts = true /\ sok ts = true /\ eol ts = true /\ existsb illT ts = true) /\
  (exists ts, lex_all (bs "@if(a){{ 1 # }}@end") = Some ts /\ tinv ts = true /\ sok ts = true /\ eol ts = true /\ existsb illT ts = true).
Proof. repeat split; vm_compute; eexists; repeat split; reflexivity. Qed.

(* non-vacuity: a valid template, an unterminated block and an illegal character *)
Example C08_examples :
  (exists p, parse_source (bs "<b>{{ 1 + 2 }}</b>") = ParsedOk p) /\
  (exists es, parse_source (bs "@if(x)a") = ParseErrors es) /\
  (exists es, parse_source (bs "{{ 1 # 2 }}") = ParseErrors es).
Proof. repeat split; vm_compute; eexists; reflexivity. Qed.

(* ---- an unterminated block (Proofs/OpenBlocks.v): the tokens of any complete statements, then an @if or
   @each whose @end is missing - holding any complete statements and, nested to any depth, a further open
   block - or a {{ c / {{ x = c whose closing braces are missing, then the end of the input, are always
   rejected; with the fuel parse_tokens really allots *)
From Coq Require Import Lia.
From TW Require Import Pratt StmtParse OpenBlocks.

Theorem C08_unterminated_block_is_rejected pre o eof :
  wf_ss pre -> wf_o o -> ttype eof = T_EOF ->
  exists es, parse_tokens (flats pre ++ flat_o o ++ [eof])%list = ParseErrors es /\ es <> [].
Proof. exact (unterminated_block_is_rejected pre o eof). Qed.
Print Assumptions C08_unterminated_block_is_rejected.

(* non-vacuity: the lexed prefix  x@if(a)y@each(v in xs)z  of a valid template is such a token list *)
Example C08_lexed_prefix_is_an_open_block :
  exists pre o eof,
    lex_all (bs "x@if(a)y@each(v in xs)z") = Some (flats pre ++ flat_o o ++ [eof])%list /\
    wf_ss pre /\ wf_o o /\ ttype eof = T_EOF.
Proof.
  destruct (lex_all (bs "x@if(a)y@each(v in xs)z")) as [ts|] eqn:E; [|vm_compute in E; discriminate E].
  vm_compute in E. injection E as <-.
  match goal with |- exists pre o eof, Some (?x :: ?kw :: ?lp :: ?a :: ?rp :: ?y :: ?ke :: ?elp :: ?v :: ?inn :: ?xs :: ?erp :: ?z :: ?eoft :: nil) = _ /\ _ =>
    exists [TText x], (OIf kw lp rp (CAtom a) [TText y] (Some (OEach ke elp v inn erp (CAtom xs) [TText z] None))), eoft
  end.
  split; [reflexivity|].
  cbn [wf_ss wf_s wf_o wf]. cbn [ttype]. repeat split; try reflexivity; try discriminate.
Qed.

(* the same for a {{ }} block that is never closed, at the top level and inside an open @if *)
Example C08_lexed_prefix_with_open_braces :
  (exists pre o eof, lex_all (bs "x{{ 1 + 2") = Some (flats pre ++ flat_o o ++ [eof])%list /\ wf_ss pre /\ wf_o o /\ ttype eof = T_EOF) /\
  (exists pre o eof, lex_all (bs "@if(a)y{{ z = 3") = Some (flats pre ++ flat_o o ++ [eof])%list /\ wf_ss pre /\ wf_o o /\ ttype eof = T_EOF) /\
  (exists es, parse_source (bs "x{{ 1 + 2") = ParseErrors es) /\ (exists es, parse_source (bs "@if(a)y{{ z = 3") = ParseErrors es).
Proof.
  split; [|split; [|split; vm_compute; eexists; reflexivity]].
  - destruct (lex_all (bs "x{{ 1 + 2")) as [ts|] eqn:E; [|vm_compute in E; discriminate E].
    vm_compute in E. injection E as <-.
    match goal with |- exists pre o eof, Some (?x :: ?lb :: ?one :: ?pl :: ?two :: ?eoft :: nil) = _ /\ _ =>
      exists [TText x], (OCode lb (CBin pl (CAtom one) (CAtom two))), eoft end.
    split; [reflexivity|]. cbn [wf_ss wf_s wf_o wf llev rlev]. unfold tprec, INF. cbn [ttype].
    repeat split; try reflexivity; try discriminate; try (vm_compute; lia).
  - destruct (lex_all (bs "@if(a)y{{ z = 3")) as [ts|] eqn:E; [|vm_compute in E; discriminate E].
    vm_compute in E. injection E as <-.
    match goal with |- exists pre o eof, Some (?kw :: ?lp :: ?a :: ?rp :: ?y :: ?lb :: ?z :: ?eq :: ?three :: ?eoft :: nil) = _ /\ _ =>
      exists [], (OIf kw lp rp (CAtom a) [TText y] (Some (OAssign lb z eq (CAtom three)))), eoft end.
    split; [reflexivity|]. cbn [wf_ss wf_s wf_o wf]. cbn [ttype].
    repeat split; try reflexivity; try discriminate.
Qed.
