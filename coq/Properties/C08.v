(* C08 - lexing and parsing terminate.  PARTIAL: the theorem covers the lexer (NextToken always
   returns from every lexer state); termination of the parser model within its fuel bound and the
   program-or-error contract are decided by the correspondence and oracle runs (see DESIGN.md). *)
From TW Require Import Bytes GenToken Lexer LexTotal GenTie.

Theorem C08_next_token_always_returns l : nextTok l <> None.
Proof. exact (nextTok_total l). Qed.
Print Assumptions C08_next_token_always_returns.

Theorem C08_next_token_fuel_bound fuel l :
  (List.length (rest l) < fuel)%nat -> nextToken fuel l <> None.
Proof. exact (nextToken_total fuel l). Qed.
Print Assumptions C08_next_token_fuel_bound.

(* the parser's loop guards are the ones read from parser.go: a block ends at @end, EOF or ILLEGAL *)
Theorem C08_block_loop_sees_eof_and_illegal :
  GenParser.block_guard_tokens = [T_END; T_EOF; T_ILLEGAL] /\
  GenParser.block_break_tokens = [T_ELSE; T_ELSE_IF; T_END].
Proof. exact block_tokens_tied. Qed.
Print Assumptions C08_block_loop_sees_eof_and_illegal.
