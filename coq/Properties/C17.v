(* C17 - Response writes the rendered page or exactly one error page, returns the error, and with
   debug off the body leaks nothing: it does not depend on the failure at all.
   Model: Template.String / Template.Response / errorPage of template.go and textwire.go (Model/Api.v),
   the built-in page regenerated from textwire/default-error-page.tw on every run (Gen/GenMisc.v). *)
From TW Require Import Bytes Values Eval Render Api GenMisc ErrorPage Response.

Theorem C17_success_writes_the_page cx cfg tpl name data out :
  template_string cx cfg tpl name data = StrOk out ->
  template_response cx cfg tpl name data = RespOk out.
Proof. exact (response_success cx cfg tpl name data out). Qed.
Print Assumptions C17_success_writes_the_page.

Theorem C17_no_error_only_on_success cx cfg tpl name data out :
  template_response cx cfg tpl name data = RespOk out ->
  template_string cx cfg tpl name data = StrOk out.
Proof. exact (response_ok_is_string cx cfg tpl name data out). Qed.
Print Assumptions C17_no_error_only_on_success.

Theorem C17_failure_returns_an_error cx cfg tpl name data e :
  template_string cx cfg tpl name data = StrErr e ->
  forall b, template_response cx cfg tpl name data <> RespOk b.
Proof. exact (response_failure_returns_error cx cfg tpl name data e). Qed.
Print Assumptions C17_failure_returns_an_error.

(* custom page configured and debug off: the body is that page rendered with no data, or nothing *)
Theorem C17_custom_page_when_configured cx cfg tpl name data e :
  template_string cx cfg tpl name data = StrErr e ->
  uses_custom_page cfg = true ->
  match template_string cx cfg tpl (c_errpage cfg) [] with
  | StrOk page => template_response cx cfg tpl name data = RespFail page e
  | StrErr e2 => template_response cx cfg tpl name data = RespFailOther [] e2
  | _ => resp_body (template_response cx cfg tpl name data) = None
  end.
Proof. exact (response_failure_custom cx cfg tpl name data e). Qed.
Print Assumptions C17_custom_page_when_configured.

Theorem C17_builtin_page_otherwise cx cfg tpl name data e :
  template_string cx cfg tpl name data = StrErr e ->
  uses_custom_page cfg = false ->
  match builtin_error_page cx cfg e with
  | RenderOk page => template_response cx cfg tpl name data = RespFail page e
  | RenderErr ln msg => template_response cx cfg tpl name data = RespFailOther [] (mkErr ln [] msg)
  | _ => resp_body (template_response cx cfg tpl name data) = None
  end.
Proof. exact (response_failure_builtin cx cfg tpl name data e). Qed.
Print Assumptions C17_builtin_page_otherwise.

(* the built-in page with debug off is one constant, whatever the error *)
Theorem C17_quiet_page_is_constant cx dir ext tpl name data e :
  let cfg := mkConfig dir ext [] false in
  template_string cx cfg tpl name data = StrErr e ->
  template_response cx cfg tpl name data = RespFail quiet_page e.
Proof. exact (response_quiet cx dir ext tpl name data e). Qed.
Print Assumptions C17_quiet_page_is_constant.

(* non-interference: with debug off any two failures give the same body, so the body cannot
   contain the message, the path or the line of either *)
Theorem C17_no_leak cx cfg tpl n1 d1 e1 n2 d2 e2 :
  c_debug cfg = false ->
  template_string cx cfg tpl n1 d1 = StrErr e1 ->
  template_string cx cfg tpl n2 d2 = StrErr e2 ->
  resp_body (template_response cx cfg tpl n1 d1) = resp_body (template_response cx cfg tpl n2 d2).
Proof. exact (response_no_leak cx cfg tpl n1 d1 e1 n2 d2 e2). Qed.
Print Assumptions C17_no_leak.

(* debug on: the built-in page is shown (a configured custom page is bypassed) and it carries
   the path, the line and the message of the failure *)
Theorem C17_debug_page_shows_the_error cx dir ext page tpl name data e :
  let cfg := mkConfig dir ext page true in
  template_string cx cfg tpl name data = StrErr e ->
  exists body, template_response cx cfg tpl name data = RespFail body e /\
    has_sub (e_path e) body /\ has_sub (Z_to_dec (wrap64 (Z.of_nat (e_line e)))) body /\
    has_sub (e_msg e) body.
Proof. exact (response_debug_shows cx dir ext page tpl name data e). Qed.
Print Assumptions C17_debug_page_shows_the_error.

(* non-vacuity: the quiet page is a real page *)
Example C17_quiet_page_nonempty : quiet_page <> [].
Proof. exact quiet_page_nonempty. Qed.
