(* C03 - @each/@for: loop metadata, break/continue through nested blocks, @else, non-arrays. *)
From Coq Require Import String.
From TW Require Import Bytes Floats Values Ast Eval Expr Template Control.

(* the marker scan of evaluator/utils.go finds a marker exactly when one sits somewhere in the
   nested Block structure: @break / @continue under any depth of @if blocks reach the loop *)
Theorem C03_break_marker_found_at_any_depth v : has_break v = true <-> holds_break v.
Proof. exact (has_break_iff v). Qed.
Print Assumptions C03_break_marker_found_at_any_depth.

Theorem C03_continue_marker_found_at_any_depth v : has_continue v = true <-> holds_continue v.
Proof. exact (has_continue_iff v). Qed.
Print Assumptions C03_continue_marker_found_at_any_depth.

Theorem C03_block_stops_at_marker cx f en s ss acc r :
  eval_stmt cx f en s = Ok r ->
  (has_break (fst r) || has_continue (fst r)) = true ->
  eval_block cx (S f) en (s :: ss) acc = Ok (VBlock (rev (fst r :: acc)), snd r).
Proof. exact (block_stops_at_marker cx f en s ss acc r). Qed.
Print Assumptions C03_block_stops_at_marker.

Theorem C03_loop_metadata i n :
  loop_meta i n =
  VObj [(bs "index", VInt (Z.of_nat i)); (bs "first", VBool (Nat.eqb i 0));
        (bs "last", VBool (Nat.eqb (S i) n)); (bs "iter", VInt (Z.of_nat (S i)))].
Proof. exact (loop_metadata i n). Qed.
Print Assumptions C03_loop_metadata.

Theorem C03_each_pass cx f ln var body len i x xs en out en1 r str :
  env_set en var x = inl en1 ->
  eval_block cx f (env_set_loop en1 i len) body [] = Ok r ->
  str_of (fst r) = Ok str ->
  each_loop cx (S f) ln var body len i (x :: xs) en out =
  if has_break (fst r) then Ok (out ++ str, snd r)
  else each_loop cx f ln var body len (S i) xs (snd r) (out ++ str).
Proof. exact (each_pass cx f ln var body len i x xs en out en1 r str). Qed.
Print Assumptions C03_each_pass.

Theorem C03_each_empty_renders_else cx f en ln var arr body a :
  eval_expr cx f ([] :: en) arr = Ok (VArr []) ->
  eval_stmt cx (S f) en (SEach ln var arr body (Some a)) =
  (let! r := eval_block cx f ([] :: en) a [] in Ok (fst r, tl (snd r))).
Proof. exact (each_empty_renders_else cx f en ln var arr body a). Qed.
Print Assumptions C03_each_empty_renders_else.

Theorem C03_each_non_array_fails cx f en ln var arr body alt av :
  eval_expr cx f ([] :: en) arr = Ok av ->
  (match av with VArr _ => False | _ => True end) ->
  exists msg, eval_stmt cx (S f) en (SEach ln var arr body alt) = Fail ln msg.
Proof. exact (each_non_array_fails cx f en ln var arr body alt av). Qed.
Print Assumptions C03_each_non_array_fails.

(* ---- the full statement for loops: the model's each_loop / for_loop (marker objects scanned
   through nested Blocks, output concatenated per pass, the @for post value re-bound to the init
   variable) REFINE the specification's passes (signals Normal / Break / Continue): same output
   and same scope chain after any number of passes, a break ends the innermost loop only, a
   continue ends the pass only, an empty @each / a @for whose condition fails at entry renders the
   @else body (whose signals reach the enclosing loop). *)
From TW Require Import ExprSem CleanValues TemplateRefine.

Theorem C03_each_passes_refine_the_specification f v body len i elems sc :
  env_clean sc = true -> forallb clean elems = true -> nodes_ok body ->
  exists K, forall fm, (K <= fm)%nat -> forall ln out,
    Rl (each_loop cx0 fm ln v (map cnode body) len i elems sc out) out
       (each_passes model_call_spec f v body len i elems sc).
Proof. exact (proj1 (proj2 (proj2 (proj2 (refinement f)))) v body len i elems sc). Qed.
Print Assumptions C03_each_passes_refine_the_specification.

Theorem C03_for_passes_refine_the_specification f init cond post body sc :
  env_clean sc = true -> for_ok init cond post -> nodes_ok body ->
  exists K, forall fm, (K <= fm)%nat -> forall ln out,
    Rl (for_loop cx0 fm ln (for_init init) (for_cond cond) (for_post post) (map cnode body) sc out) out
       (for_passes model_call_spec f cond post body sc).
Proof. exact (proj1 (proj2 (proj2 (proj2 (proj2 (refinement f))))) init cond post body sc). Qed.
Print Assumptions C03_for_passes_refine_the_specification.

Theorem C03_loop_statements_refine_the_specification fs sc n :
  env_clean sc = true -> node_ok n ->
  exists K, forall fm, (K <= fm)%nat ->
    Rs (eval_stmt cx0 fm sc (cnode n)) (run_node model_call_spec fs sc n).
Proof. exact (statement_refines_specification fs sc n). Qed.
Print Assumptions C03_loop_statements_refine_the_specification.

(* in the specification a loop statement never lets a break or continue escape *)
Theorem C03_specification_break_stays_in_its_loop f v body len i x rest sc sc1 o sc2 :
  assign sc v x = Some sc1 ->
  run_nodes model_call_spec f (set_meta sc1 i len) body = TOk o SigBreak sc2 ->
  each_passes model_call_spec (S f) v body len i (x :: rest) sc = TOk o SigNormal sc2.
Proof. intros Ha Hr. rewrite each_passes_S, Ha, Hr. reflexivity. Qed.
Print Assumptions C03_specification_break_stays_in_its_loop.

(* ---- from the token stream: loops with their bodies, @else, @break / @continue / @breakIf / @continueIf are
   parsed to exactly the tree the tokens spell (Proofs/StmtParse.v), with the fuel the model really uses *)
From Coq Require Import String.
From TW Require Import GenToken Lexer Parser Pratt StmtParse.

Theorem C03_tokens_parse_to_the_statement_tree ss eof :
  wf_ss ss -> ttype eof = T_EOF ->
  parse_tokens (flats ss ++ [eof]) = ParsedOk (mkProgram (asts ss) None [] [] []).
Proof. exact (template_parses_to_its_tree ss eof). Qed.
Print Assumptions C03_tokens_parse_to_the_statement_tree.

Example C03_lexed_loop_is_a_tree :
  exists ss eof,
    lex_all (bs "@each(v in xs)[{{ v }}@breakIf(v == 2)@continue]@else none@end"%string) = Some (flats ss ++ [eof]) /\
    ttype eof = T_EOF /\ wf_ss ss.
Proof.
  destruct (lex_all (bs "@each(v in xs)[{{ v }}@breakIf(v == 2)@continue]@else none@end"%string)) as [ts|] eqn:E; [|vm_compute in E; discriminate E].
  vm_compute in E. injection E as <-.
  match goal with |- exists ss eof, Some (?kw :: ?lp :: ?v :: ?inn :: ?xs :: ?rp :: ?t1 :: ?lb :: ?v2 :: ?rb :: ?bk :: ?blp :: ?v3 :: ?eq :: ?two :: ?brp ::
                                         ?ct :: ?t2 :: ?te :: ?t3 :: ?en :: ?eoft :: nil) = _ /\ _ =>
    exists [TEach kw lp v inn rp en (CAtom xs)
                  [TText t1; TCode lb rb (CAtom v2); TBreakIf bk blp brp (CBin eq (CAtom v3) (CAtom two)); TContinue ct; TText t2]
                  (Some (te, [TText t3]))], eoft
  end.
  split; [reflexivity|]. split; [reflexivity|].
  cbn [wf_ss wf_s wf wf_list_with llev rlev]. unfold tprec, INF. cbn [ttype].
  repeat split; try reflexivity; try discriminate; try (vm_compute; lia).
Qed.

(* ---- both halves together: from the token stream of a loop to its output *)
From TW Require Import Template TemplatePipeline.

Theorem C03_from_tokens_to_output ss ns eof fs (data : list (bytes * value)) :
  wf_ss ss -> Dens ss ns -> ttype eof = T_EOF ->
  forallb (fun kv : bytes * value => clean (snd kv)) data = true -> nodes_ok ns ->
  parse_tokens (flats ss ++ [eof]) = ParsedOk (mkProgram (map cnode ns) None [] [] []) /\
  exists K, forall fm, (K <= fm)%nat ->
    match run_nodes model_call_spec fs [data] ns with
    | TOk out SigNormal _ => exists en', eval_program cx0 fm [data] (map cnode ns) [] = Ok (out, en')
    | TOk _ _ _ => True
    | TFail => exists ln msg, eval_program cx0 fm [data] (map cnode ns) [] = Fail ln msg
    | TNoFuel | TUnprintable => True
    end.
Proof. exact (template_tokens_render ss ns eof fs data). Qed.
Print Assumptions C03_from_tokens_to_output.

Example C03_lexed_loop_renders :
  let ns := [NEach (bs "v") (XVar (bs "xs"))
               [NText (bs "["); NPrint (XVar (bs "v")); NBreakIf (XBin BEq (XVar (bs "v")) (XInt 2)); NContinue; NText (bs "]")]
               (Some [NText (bs " none")])]%string in
  exists ss eof,
    lex_all (bs "@each(v in xs)[{{ v }}@breakIf(v == 2)@continue]@else none@end"%string) = Some (flats ss ++ [eof]) /\
    ttype eof = T_EOF /\ wf_ss ss /\ Dens ss ns /\ nodes_ok ns /\
    (exists sc, run_nodes model_call_spec 20 [[(bs "xs", VArr [VInt 1; VInt 2; VInt 3])]]%string ns = TOk (bs "[1[2"%string) SigNormal sc) /\
    (exists sc, run_nodes model_call_spec 20 [[(bs "xs", VArr [])]]%string ns = TOk (bs " none"%string) SigNormal sc).
Proof.
  intro ns.
  destruct (lex_all (bs "@each(v in xs)[{{ v }}@breakIf(v == 2)@continue]@else none@end"%string)) as [ts|] eqn:E; [|vm_compute in E; discriminate E].
  vm_compute in E. injection E as <-.
  match goal with |- exists ss eof, Some (?kw :: ?lp :: ?v :: ?inn :: ?xs :: ?rp :: ?t1 :: ?lb :: ?v2 :: ?rb :: ?bk :: ?blp :: ?v3 :: ?eq :: ?two :: ?brp ::
                                         ?ct :: ?t2 :: ?te :: ?t3 :: ?en :: ?eoft :: nil) = _ /\ _ =>
    exists [TEach kw lp v inn rp en (CAtom xs)
                  [TText t1; TCode lb rb (CAtom v2); TBreakIf bk blp brp (CBin eq (CAtom v3) (CAtom two)); TContinue ct; TText t2]
                  (Some (te, [TText t3]))], eoft
  end.
  split; [reflexivity|]. split; [reflexivity|].
  split.
  { cbn [wf_ss wf_s wf wf_list_with llev rlev]. unfold tprec, INF. cbn [ttype].
    repeat split; try reflexivity; try discriminate; try (vm_compute; lia). }
  split.
  { subst ns. apply DsCons; [|apply DsNil].
    apply DEach'.
    - reflexivity.
    - reflexivity.
    - cbn. repeat split.
    - apply DsCons; [apply DText'; reflexivity|].
      apply DsCons; [apply DCode; cbn; repeat split|].
      apply DsCons; [apply DBreakIf; [reflexivity|cbn; repeat split]|].
      apply DsCons; [apply DContinue|].
      apply DsCons; [apply DText'; reflexivity|apply DsNil].
    - apply DlSome. apply DsCons; [apply DText'; reflexivity|apply DsNil]. }
  split; [subst ns; cbn; repeat split; lia|].
  split; eexists; vm_compute; reflexivity.
Qed.

(* ---- from the source BYTES: a source that spells a checked list of items (Proofs/LexRound.v) whose
   tokens are those of ss, where ss spells the specification template ns, is lexed to those tokens,
   parsed to the program of ns and rendered by the model of EvaluateString as the specification says *)
From TW Require Import Render LexRound.

Theorem C03_from_source_bytes_to_output its ss ns eof fs gd (data : list (bytes * value)) :
  source_ok its = true -> place (spell its) 0 its = flats ss ++ [eof] -> wf_ss ss -> Dens ss ns ->
  env_from_map gd = EnvOk [data] ->
  forallb (fun kv : bytes * value => clean (snd kv)) data = true -> nodes_ok ns ->
  lex_all (spell its) = Some (flats ss ++ [eof]) /\
  parse_source (spell its) = ParsedOk (mkProgram (map cnode ns) None [] [] []) /\
  exists K, (K <= eval_fuel)%nat ->
    match run_nodes model_call_spec fs [data] ns with
    | TOk out SigNormal _ => evaluate_string cx0 (spell its) gd = RenderOk out
    | TOk _ _ _ => True
    | TFail => exists ln msg, evaluate_string cx0 (spell its) gd = RenderErr ln msg
    | TNoFuel | TUnprintable => True
    end.
Proof. exact (source_renders its ss ns eof fs gd data). Qed.
Print Assumptions C03_from_source_bytes_to_output.

Example C03_source_in_the_domain_and_rendered :
  in_domain (bs "@each(v in xs)[{{ v }}@breakIf(v == 2)@continue]@else none@end"%string) = true /\
  evaluate_string cx0 (bs "@each(v in xs)[{{ v }}@breakIf(v == 2)@continue]@else none@end"%string)
    [(bs "xs"%string, GSlice [GInt 1; GInt 2; GInt 3])] = RenderOk (bs "[1[2"%string).
Proof. split; vm_compute; reflexivity. Qed.

(* ---- @for: header clauses (each optional; the third an expression or an assignment), body, @else *)
Example C03_lexed_for_loop_renders :
  let ns := [NFor (Some (bs "i", XInt 0)) (Some (XBin BLt (XVar (bs "i")) (XInt 3))) (Some (PostInc (bs "i")))
               [NPrint (XVar (bs "i")); NText (bs ",")] None]%string in
  exists ss eof,
    lex_all (bs "@for(i = 0; i < 3; i++){{ i }},@end"%string) = Some (flats ss ++ [eof]) /\
    ttype eof = T_EOF /\ wf_ss ss /\ Dens ss ns /\ nodes_ok ns /\
    in_domain (bs "@for(i = 0; i < 3; i++){{ i }},@end"%string) = true /\
    (exists sc, run_nodes model_call_spec 30 [[]] ns = TOk (bs "0,1,2,"%string) SigNormal sc) /\
    evaluate_string cx0 (bs "@for(i = 0; i < 3; i++){{ i }},@end"%string) [] = RenderOk (bs "0,1,2,"%string).
Proof.
  intro ns.
  destruct (lex_all (bs "@for(i = 0; i < 3; i++){{ i }},@end"%string)) as [ts|] eqn:E; [|vm_compute in E; discriminate E].
  vm_compute in E. injection E as <-.
  match goal with |- exists ss eof, Some (?kw :: ?lp :: ?i1 :: ?eq :: ?zero :: ?s1 :: ?i2 :: ?lt :: ?three :: ?s2 :: ?i3 :: ?inc :: ?rp ::
                                         ?lb :: ?i4 :: ?rb :: ?txt :: ?en :: ?eoft :: nil) = _ /\ _ =>
    exists [TFor kw lp s1 s2 rp en (Some (i1, eq, CAtom zero)) (Some (CBin lt (CAtom i2) (CAtom three)))
                 (Some (FPE (CPost inc (CAtom i3)))) [TCode lb rb (CAtom i4); TText txt] None], eoft
  end.
  split; [reflexivity|]. split; [reflexivity|].
  split.
  { cbn [wf_ss wf_s wf wf_init wf_cond wf_post wf_list_with llev rlev]. unfold tprec, INF. cbn [ttype].
    repeat split; try reflexivity; try discriminate; try (vm_compute; lia). }
  split.
  { subst ns. apply DsCons; [|apply DsNil].
    apply DFor.
    - reflexivity.
    - cbn. repeat split.
    - cbn. repeat split.
    - cbn. repeat split.
    - apply DsCons; [apply DCode; cbn; repeat split|]. apply DsCons; [apply DText'; reflexivity|apply DsNil].
    - apply DlNone. }
  split; [subst ns; cbn; repeat split; lia|].
  split; [vm_compute; reflexivity|].
  split; [eexists; vm_compute; reflexivity|vm_compute; reflexivity].
Qed.

(* ---- templates on any number of lines (Proofs/LineIrrelevance.v: line numbers only show in the line of an
   error; Proofs/LinesPipeline.v: DensL is Dens without the demand that tokens stand on the first line) *)
From TW Require Import LineIrrelevance LinesPipeline.

Theorem C03_lines_only_matter_in_errors cx f en ss ss' out :
  map strip_s ss = map strip_s ss' -> sim (eval_program cx f en ss out) (eval_program cx f en ss' out).
Proof. exact (lines_do_not_matter cx f en ss ss' out). Qed.
Print Assumptions C03_lines_only_matter_in_errors.

Theorem C03_from_source_bytes_to_output_any_lines its ss ns eof fs gd (data : list (bytes * value)) :
  source_ok its = true -> place (spell its) 0 its = flats ss ++ [eof] -> wf_ss ss -> DensL ss ns ->
  env_from_map gd = EnvOk [data] ->
  forallb (fun kv : bytes * value => clean (snd kv)) data = true -> nodes_ok ns ->
  lex_all (spell its) = Some (flats ss ++ [eof]) /\
  parse_source (spell its) = ParsedOk (mkProgram (asts ss) None [] [] []) /\
  exists K, (K <= eval_fuel)%nat ->
    match run_nodes model_call_spec fs [data] ns with
    | TOk out SigNormal _ => evaluate_string cx0 (spell its) gd = RenderOk out
    | TOk _ _ _ => True
    | TFail => exists ln msg, evaluate_string cx0 (spell its) gd = RenderErr ln msg
    | TNoFuel | TUnprintable => True
    end.
Proof. exact (source_renders_lines its ss ns eof fs gd data). Qed.
Print Assumptions C03_from_source_bytes_to_output_any_lines.

(* non-vacuity: a list template written the usual way, on five lines *)
Definition nl5 := String (Ascii.ascii_of_nat 10) EmptyString.
Definition list_src : string := ("<ul>" ++ nl5 ++ "@each(v in xs)" ++ nl5 ++ "  <li>{{ v }}</li>" ++ nl5 ++ "@end" ++ nl5 ++ "</ul>" ++ nl5)%string.

Example C03_five_line_template :
  let ns := [NText (bs ("<ul>" ++ nl5)); NEach (bs "v") (XVar (bs "xs")) [NText (bs (nl5 ++ "  <li>")); NPrint (XVar (bs "v")); NText (bs ("</li>" ++ nl5))] None;
             NText (bs (nl5 ++ "</ul>" ++ nl5))]%string in
  exists its tg ss eof,
    lex_all (bs list_src) = Some (flats ss ++ [eof]) /\ unlex (bs list_src) 0 (flats ss ++ [eof]) = (its, tg) /\
    spell its = bs list_src /\ source_ok its = true /\ place (spell its) 0 its = flats ss ++ [eof] /\
    wf_ss ss /\ DensL ss ns /\ nodes_ok ns /\
    evaluate_string cx0 (bs list_src) [(bs "xs"%string, GSlice [GInt 1; GInt 2])] =
      RenderOk (bs ("<ul>" ++ nl5 ++ nl5 ++ "  <li>1</li>" ++ nl5 ++ nl5 ++ "  <li>2</li>" ++ nl5 ++ nl5 ++ "</ul>" ++ nl5)%string).
Proof.
  intro ns.
  destruct (lex_all (bs list_src)) as [ts|] eqn:E; [|vm_compute in E; discriminate E].
  vm_compute in E. injection E as <-.
  match goal with |- exists its tg ss eof, Some (?t1 :: ?kw :: ?lp :: ?v :: ?inn :: ?xs :: ?rp :: ?t2 :: ?lb :: ?v2 :: ?rb :: ?t3 :: ?en :: ?t4 :: ?eoft :: nil) = _ /\ _ =>
    set (ss0 := [TText t1; TEach kw lp v inn rp en (CAtom xs) [TText t2; TCode lb rb (CAtom v2); TText t3] None; TText t4]);
    set (e0 := eoft)
  end.
  destruct (unlex (bs list_src) 0 (flats ss0 ++ [e0])) as [its tg] eqn:U.
  exists its, tg, ss0, e0.
  split; [reflexivity|]. split; [exact U|].
  vm_compute in U. injection U as <- <-.
  split; [vm_compute; reflexivity|]. split; [vm_compute; reflexivity|]. split; [vm_compute; reflexivity|].
  split.
  { subst ss0. cbn [wf_ss wf_s wf wf_list_with llev rlev]. unfold tprec, INF. cbn [ttype].
    repeat split; try reflexivity; try discriminate; try (vm_compute; lia). }
  split.
  { subst ns ss0. apply LsCons; [apply DenL_text; vm_compute; reflexivity|].
    apply LsCons; [|apply LsCons; [apply DenL_text; vm_compute; reflexivity|apply LsNil]].
    apply DenL_each.
    - vm_compute. reflexivity.
    - cbn. repeat split.
    - apply LsCons; [apply DenL_text; vm_compute; reflexivity|].
      apply LsCons; [apply LCode; cbn; repeat split|].
      apply LsCons; [apply DenL_text; vm_compute; reflexivity|apply LsNil].
    - apply LlNone. }
  split; [subst ns; cbn; repeat split|].
  vm_compute. reflexivity.
Qed.
