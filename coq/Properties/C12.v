(* C12 - Go data handed to a render is visible with the same structure.
   goval is the abstract Go value (the harness builds the real one from the same description by
   reflection: all integer widths, float32/64, pointers, nil pointers, slices, string-keyed maps,
   run-time struct types with exported and unexported fields, unsupported kinds); to_object mirrors
   object.NativeToObject, env_from_map mirrors EnvFromMap, obj_index mirrors evalObjectIndexExp.
   Caller-data immutability is immediate in the model; for the code the harness deep-compares the
   data before and after every render. *)
From Coq Require Import String.
From TW Require Import Bytes Floats Values Ast Builtins Eval DataBinding.
Open Scope N_scope.

(* an unsupported kind ANYWHERE (slice element, map value, exported field, behind a pointer)
   makes the conversion fail; without one it succeeds *)
Theorem C12_converts_iff_supported g : to_object g <> None <-> supported g = true.
Proof. exact (to_object_some_iff_supported g). Qed.
Print Assumptions C12_converts_iff_supported.

Theorem C12_scalars_keep_their_value :
  to_object GNil = Some VNil /\ (forall b, to_object (GBool b) = Some (VBool b)) /\
  (forall z, to_object (GInt z) = Some (VInt (wrap64 z))) /\
  (forall f, to_object (GFloat f) = Some (VFloat f)) /\
  (forall s, to_object (GStr s) = Some (VStr s)).
Proof. exact scalars_keep_their_value. Qed.
Print Assumptions C12_scalars_keep_their_value.

Theorem C12_pointers_are_transparent v : to_object (GPtr v) = to_object v /\ to_object GNilPtr = Some VNil.
Proof. exact (pointers_are_transparent v). Qed.
Print Assumptions C12_pointers_are_transparent.

Theorem C12_slice_elements_by_position l vs :
  to_object (GSlice l) = Some (VArr vs) ->
  List.length vs = List.length l /\
  forall i x, nth_error l i = Some x -> exists v, nth_error vs i = Some v /\ to_object x = Some v.
Proof. exact (slice_elements l vs). Qed.
Print Assumptions C12_slice_elements_by_position.

Theorem C12_map_entries_by_key m o :
  NoDup (map fst m) -> to_object (GMap m) = Some (VObj o) ->
  forall k, alookup k o = match alookup k m with Some g => to_object g | None => None end.
Proof. exact (map_entries m o). Qed.
Print Assumptions C12_map_entries_by_key.

Theorem C12_struct_fields_by_name fs o :
  NoDup (field_names fs) -> to_object (GStruct fs) = Some (VObj o) ->
  forall n, alookup n o = match field_lookup n fs with Some (true, v) => to_object v | _ => None end.
Proof. exact (struct_fields fs o). Qed.
Print Assumptions C12_struct_fields_by_name.

Theorem C12_field_by_lowercase_first_letter ln fs o c r v :
  NoDup (field_names fs) -> to_object (GStruct fs) = Some (VObj o) ->
  (65 <=? c) && (c <=? 90) = true ->
  field_lookup (c :: r) fs = Some (true, v) -> field_lookup ((c + 32) :: r) fs = None ->
  obj_index ln o ((c + 32) :: r) = match to_object v with Some w => Ok w | None => obj_index ln o ((c + 32) :: r) end.
Proof. exact (field_by_lowercase_name ln fs o c r v). Qed.
Print Assumptions C12_field_by_lowercase_first_letter.

Theorem C12_unexported_fields_unreachable ln fs o n v :
  NoDup (field_names fs) -> to_object (GStruct fs) = Some (VObj o) ->
  field_lookup n fs = Some (false, v) ->
  field_lookup (upper_first n) fs = None \/ upper_first n = n ->
  exists msg, obj_index ln o n = Fail ln msg.
Proof. exact (unexported_field_unreachable ln fs o n v). Qed.
Print Assumptions C12_unexported_fields_unreachable.

Theorem C12_data_entry_is_bound k g v :
  bytes_eqb k str_loop = false -> to_object g = Some v -> env_from_map [(k, g)] = EnvOk [[(k, v)]].
Proof. exact (data_entry_visible k g v). Qed.
Print Assumptions C12_data_entry_is_bound.

(* every data map EnvFromMap accepts, in any presentation order: each entry is bound in the root scope to the
   conversion of its Go value and no other name is bound (Proofs/DataVisible.v) *)
From TW Require Import DataVisible.
Theorem C12_every_entry_of_every_data_map_is_bound (data : list (bytes * goval)) root :
  NoDup (map fst data) -> env_from_map data = EnvOk root ->
  (exists fr, root = [fr]) /\
  (forall k g, In (k, g) data -> exists v, to_object g = Some v /\ env_get root k = Some v) /\
  (forall k, ~ In k (map fst data) -> env_get root k = None).
Proof. exact (data_map_binds_every_entry data root). Qed.
Print Assumptions C12_every_entry_of_every_data_map_is_bound.

Example C12_example :
  to_object (GStruct [(bs "Name", true, GStr (bs "bob")); (bs "age", false, GInt 3);
                      (bs "Tags", true, GSlice [GPtr (GInt 7); GNilPtr])]) =
  Some (VObj [(bs "Name", VStr (bs "bob")); (bs "Tags", VArr [VInt 7; VNil])]) /\
  supported (GMap [(bs "k", GSlice [GStruct [(bs "F", true, GOther)]])]) = false.
Proof. exact binding_example. Qed.
