(* C07 - components: own arguments, own slots, every use independent.
   Proved on the loader + evaluator model: every use of a component is resolved on its own (the block
   attached to a use is a function of the component file and THAT use's slots; two uses with the same
   slots get the same block); a passed body goes to the first top-level placeholder of its name and
   nothing else changes; an undeclared slot, a slot passed twice and a missing component file are load
   errors naming the component; a use evaluates its arguments in the caller's scope, binds them in a
   fresh scope on top of it and renders the component's program there; a placeholder shows the passed
   body or nothing.  The end-to-end output of pages with several uses (inside loops and conditionals)
   is decided on generated trees against the per-use substitution oracle. *)
From Coq Require Import String.
From TW Require Import Bytes GenToken Lexer Ast Parser Values Builtins Eval Render Api Layouts.
Open Scope N_scope.

Theorem C07_uses_are_resolved_independently fs cfg page_abs c rest :
  resolve_components fs cfg page_abs (c :: rest) =
  (let? a := resolve_components fs cfg page_abs [c] in
   let? b := resolve_components fs cfg page_abs rest in LOk (a ++ b)).
Proof. exact (component_uses_are_independent fs cfg page_abs c rest). Qed.
Print Assumptions C07_uses_are_resolved_independently.

Theorem C07_same_use_same_block fs cfg page_abs cid1 cid2 cl name slots r1 r2 :
  resolve_components fs cfg page_abs [(cid1, cl, name, slots)] = LOk r1 ->
  resolve_components fs cfg page_abs [(cid2, cl, name, slots)] = LOk r2 ->
  map snd r1 = map snd r2.
Proof. exact (same_use_same_block fs cfg page_abs cid1 cid2 cl name slots r1 r2). Qed.
Print Assumptions C07_same_use_same_block.

Theorem C07_slot_body_goes_to_its_placeholder ss n b ss' :
  set_slot_body ss n b = Some ss' ->
  exists pre ln old post, ss = pre ++ SSlot ln n old :: post /\ ss' = pre ++ SSlot ln n (Some b) :: post.
Proof. exact (slot_body_goes_to_its_placeholder ss n b ss'). Qed.
Print Assumptions C07_slot_body_goes_to_its_placeholder.

Theorem C07_undeclared_slot_is_a_load_error page_abs cline name sln sn body cprog cl :
  sn <> [] -> set_slot_body (p_stmts cprog) sn body = None ->
  apply_component page_abs cline name [(sln, sn, body)] cprog cl =
  LErr (mkErr cl page_abs (fmt ErrSlotNotDefined [sn; name])).
Proof. exact (undeclared_slot_is_a_load_error page_abs cline name sln sn body cprog cl). Qed.
Print Assumptions C07_undeclared_slot_is_a_load_error.

Theorem C07_slot_passed_twice_is_a_load_error page_abs cline name l1 l2 sn b1 b2 cprog cl :
  name <> [] ->
  apply_component page_abs cline name [(l1, sn, b1); (l2, sn, b2)] cprog cl =
  LErr (mkErr cl page_abs (fmt ErrDuplicateSlotUsage [sn; nat_to_dec 2; name])).
Proof. exact (duplicate_slot_is_a_load_error page_abs cline name l1 l2 sn b1 b2 cprog cl). Qed.
Print Assumptions C07_slot_passed_twice_is_a_load_error.

Theorem C07_missing_component_is_a_load_error fs cfg page_abs cid cline name slots rest msg :
  parse_file fs (rel_of cfg name) = LOk (PReadErr true msg) ->
  resolve_components fs cfg page_abs ((cid, cline, name, slots) :: rest) =
  LErr (mkErr cline page_abs (fmt ErrUndefinedComponent [name])).
Proof. exact (missing_component_is_a_load_error fs cfg page_abs cid cline name slots rest msg). Qed.
Print Assumptions C07_missing_component_is_a_load_error.

Theorem C07_a_use_evaluates_its_arguments_at_the_place_of_use cx f en ln cid name l1 pairs slots ss :
  eval_stmt cx (S f) en (SComponent ln cid name (Some (EObj l1 pairs)) slots (Some ss)) =
  (let! en1 := bind_args cx f ln en (asort pairs) ([] :: en) in
   let! r := eval_program cx f en1 ss [] in
   Ok (VComponent (VHtml (fst r)), tl (snd r))).
Proof. exact (component_use_renders cx f en ln cid name l1 pairs slots ss). Qed.
Print Assumptions C07_a_use_evaluates_its_arguments_at_the_place_of_use.

(* every argument is bound: when the binding succeeds, each key is visible in the component's
   scope with the value its expression has at the place of use (en), every other name keeps the
   binding it has there *)
Theorem C07_every_argument_is_bound cx f ln en ps ne ne' :
  ne <> [] -> NoDup (map fst ps) -> bind_args cx f ln en ps ne = Ok ne' ->
  (forall k x, In (k, x) ps -> exists v, eval_expr cx f en x = Ok v /\ env_get ne' k = Some v) /\
  (forall k2, ~ In k2 (map fst ps) -> env_get ne' k2 = env_get ne k2).
Proof. exact (bind_args_binds cx f ln en ps ne ne'). Qed.
Print Assumptions C07_every_argument_is_bound.

(* and an argument that cannot be bound fails the render; it is never skipped silently *)
Theorem C07_an_argument_that_cannot_be_bound_fails cx f en ln cid name l1 k x slots ss v msg :
  eval_expr cx f en x = Ok v -> env_set ([] :: en) k v = inr msg ->
  eval_stmt cx (S f) en (SComponent ln cid name (Some (EObj l1 [(k, x)])) slots (Some ss)) = Fail ln msg.
Proof. exact (component_argument_that_cannot_be_bound_fails cx f en ln cid name l1 k x slots ss v msg). Qed.
Print Assumptions C07_an_argument_that_cannot_be_bound_fails.

Theorem C07_placeholder_shows_the_passed_body cx f en ln n b :
  eval_stmt cx (S f) en (SSlot ln n (Some b)) =
  (let! r := eval_block cx f en b [] in Ok (VSlot (fst r), snd r)) /\
  eval_stmt cx (S f) en (SSlot ln n None) = Ok (VSlot VNil, en) /\
  (forall v, value_string (VSlot v) = value_string v) /\ value_string (VSlot VNil) = Some [].
Proof. exact (slot_shows_the_passed_body cx f en ln n b). Qed.
Print Assumptions C07_placeholder_shows_the_passed_body.
