(* C07 - components: own arguments, own slots, every use independent.
   Proved on the loader + evaluator model: every use of a component is resolved on its own (the block
   attached to a use is a function of the component file and THAT use's slots; two uses with the same
   slots get the same block); a passed body goes to the first top-level placeholder of its name and
   nothing else changes; an undeclared slot, a slot passed twice and a missing component file are load
   errors naming the component; a use evaluates its arguments in the caller's scope, binds them in a
   fresh scope on top of it and renders the component's program there; a placeholder shows the passed
   body or nothing.
   EVALUATION, END TO END (Proofs/TemplateRefine.v, Proofs/LoadedRender.v): the big-step semantics of
   Spec/Template.v has component uses (arguments in key order, each evaluated at the place of use and
   bound in a fresh scope on top of the scopes of that place - the surrounding variables stay
   visible -, the component file rendered there, the caller's scopes as they were) and slot
   placeholders (the passed body rendered where the placeholder stands, or nothing); the refinement
   theorem covers them, so for EVERY page tree with any number of uses at any depth - in loops, in
   conditionals, in slot bodies, the same component several times with different arguments and
   bodies - Template.String on a loaded template whose statements are those of the tree (up to
   lines) is what the semantics gives.  Every use is independent because the semantics is
   compositional: a use is a node with its own arguments and its own body.
   LOADER, ALL SLOTS OF ONE USE (Proofs/SlotFill.v): ApplyComponent puts every passed body into the
   first top-level placeholder of its name, in the order written - the block attached to a use is,
   up to lines, the component's tree with fill_slots applied; an undeclared slot makes the load
   fail.  Not a theorem: the walk that attaches the blocks to ALL uses of a page at once
   (rw_stmt over nested slot bodies); the example below discharges it by computation for one
   page, the run for generated trees. *)
From Coq Require Import String.
From TW Require Import Bytes GenToken Lexer Ast Parser Values Builtins Eval Render Api Layouts.
Open Scope N_scope.

Theorem C07_uses_are_resolved_independently fs cfg page_abs c rest :
  resolve_components fs cfg page_abs (c :: rest) =
  (let? a := resolve_components fs cfg page_abs [c] in
   let? b := resolve_components fs cfg page_abs rest in LOk (a ++ b)).
Proof. exact (component_uses_are_independent fs cfg page_abs c rest). Qed.
Print Assumptions C07_uses_are_resolved_independently.

Theorem C07_same_use_same_block fs cfg page_abs cid1 cid2 cl name slots r1 r2 :
  resolve_components fs cfg page_abs [(cid1, cl, name, slots)] = LOk r1 ->
  resolve_components fs cfg page_abs [(cid2, cl, name, slots)] = LOk r2 ->
  map snd r1 = map snd r2.
Proof. exact (same_use_same_block fs cfg page_abs cid1 cid2 cl name slots r1 r2). Qed.
Print Assumptions C07_same_use_same_block.

Theorem C07_slot_body_goes_to_its_placeholder ss n b ss' :
  set_slot_body ss n b = Some ss' ->
  exists pre ln old post, ss = pre ++ SSlot ln n old :: post /\ ss' = pre ++ SSlot ln n (Some b) :: post.
Proof. exact (slot_body_goes_to_its_placeholder ss n b ss'). Qed.
Print Assumptions C07_slot_body_goes_to_its_placeholder.

Theorem C07_undeclared_slot_is_a_load_error page_abs cline name sln sn body cprog cl :
  sn <> [] -> set_slot_body (p_stmts cprog) sn body = None ->
  apply_component page_abs cline name [(sln, sn, body)] cprog cl =
  LErr (mkErr cl page_abs (fmt ErrSlotNotDefined [sn; name])).
Proof. exact (undeclared_slot_is_a_load_error page_abs cline name sln sn body cprog cl). Qed.
Print Assumptions C07_undeclared_slot_is_a_load_error.

Theorem C07_slot_passed_twice_is_a_load_error page_abs cline name l1 l2 sn b1 b2 cprog cl :
  name <> [] ->
  apply_component page_abs cline name [(l1, sn, b1); (l2, sn, b2)] cprog cl =
  LErr (mkErr cl page_abs (fmt ErrDuplicateSlotUsage [sn; nat_to_dec 2; name])).
Proof. exact (duplicate_slot_is_a_load_error page_abs cline name l1 l2 sn b1 b2 cprog cl). Qed.
Print Assumptions C07_slot_passed_twice_is_a_load_error.

Theorem C07_missing_component_is_a_load_error fs cfg page_abs cid cline name slots rest msg :
  parse_file fs (rel_of cfg name) = LOk (PReadErr true msg) ->
  resolve_components fs cfg page_abs ((cid, cline, name, slots) :: rest) =
  LErr (mkErr cline page_abs (fmt ErrUndefinedComponent [name])).
Proof. exact (missing_component_is_a_load_error fs cfg page_abs cid cline name slots rest msg). Qed.
Print Assumptions C07_missing_component_is_a_load_error.

Theorem C07_a_use_evaluates_its_arguments_at_the_place_of_use cx f en ln cid name l1 pairs slots ss :
  eval_stmt cx (S f) en (SComponent ln cid name (Some (EObj l1 pairs)) slots (Some ss)) =
  (let! en1 := bind_args cx f ln en (asort pairs) ([] :: en) in
   let! r := eval_program cx f en1 ss [] in
   Ok (VComponent (VHtml (fst r)), tl (snd r))).
Proof. exact (component_use_renders cx f en ln cid name l1 pairs slots ss). Qed.
Print Assumptions C07_a_use_evaluates_its_arguments_at_the_place_of_use.

(* every argument is bound: when the binding succeeds, each key is visible in the component's
   scope with the value its expression has at the place of use (en), every other name keeps the
   binding it has there *)
Theorem C07_every_argument_is_bound cx f ln en ps ne ne' :
  ne <> [] -> NoDup (map fst ps) -> bind_args cx f ln en ps ne = Ok ne' ->
  (forall k x, In (k, x) ps -> exists v, eval_expr cx f en x = Ok v /\ env_get ne' k = Some v) /\
  (forall k2, ~ In k2 (map fst ps) -> env_get ne' k2 = env_get ne k2).
Proof. exact (bind_args_binds cx f ln en ps ne ne'). Qed.
Print Assumptions C07_every_argument_is_bound.

(* and an argument that cannot be bound fails the render; it is never skipped silently *)
Theorem C07_an_argument_that_cannot_be_bound_fails cx f en ln cid name l1 k x slots ss v msg :
  eval_expr cx f en x = Ok v -> env_set ([] :: en) k v = inr msg ->
  eval_stmt cx (S f) en (SComponent ln cid name (Some (EObj l1 [(k, x)])) slots (Some ss)) = Fail ln msg.
Proof. exact (component_argument_that_cannot_be_bound_fails cx f en ln cid name l1 k x slots ss v msg). Qed.
Print Assumptions C07_an_argument_that_cannot_be_bound_fails.

Theorem C07_placeholder_shows_the_passed_body cx f en ln n b :
  eval_stmt cx (S f) en (SSlot ln n (Some b)) =
  (let! r := eval_block cx f en b [] in Ok (VSlot (fst r), snd r)) /\
  eval_stmt cx (S f) en (SSlot ln n None) = Ok (VSlot VNil, en) /\
  (forall v, value_string (VSlot v) = value_string v) /\ value_string (VSlot VNil) = Some [].
Proof. exact (slot_shows_the_passed_body cx f en ln n b). Qed.
Print Assumptions C07_placeholder_shows_the_passed_body.

(* ---- evaluation, end to end *)
From TW Require Import Expr Template ExprSem CleanValues TemplateRefine LineIrrelevance LoadedRender.

Theorem C07_a_use_in_the_specification f sc n cid args body :
  run_node model_call_spec (S f) sc (NComponent n cid args body) =
  match (match args with
         | Some ps => bind_spec model_call_spec sc (asort ps) ([] :: sc)
         | None => Some (Some ([] :: sc))
         end) with
  | None => TUnprintable
  | Some None => TFail
  | Some (Some sc1) =>
    match run_nodes model_call_spec f sc1 body with
    | TOk o SigNormal sc2 => TOk o SigNormal (tl sc2)
    | TOk _ _ _ => TUnprintable
    | r => r
    end
  end.
Proof. exact (rn_component f sc n cid args body). Qed.

Theorem C07_statements_with_components_refine_the_specification fs sc n :
  env_clean sc = true -> node_ok n ->
  exists K, forall fm, (K <= fm)%nat -> Rs (eval_stmt cx0 fm sc (cnode n)) (run_node model_call_spec fs sc n).
Proof. exact (statement_refines_specification fs sc n). Qed.
Print Assumptions C07_statements_with_components_refine_the_specification.

Theorem C07_loaded_page_renders_as_specified cfg tpl name ss P fsp gd (data : list (bytes * value)) :
  alookup name tpl = Some ss ->
  map strip_s ss = map strip_s (map cnode P) -> nodes_ok P ->
  env_from_map gd = EnvOk [data] ->
  forallb (fun kv : bytes * value => clean (snd kv)) data = true ->
  exists K, (K <= eval_fuel)%nat ->
    match run_nodes model_call_spec fsp [data] P with
    | TOk out SigNormal _ => template_string cx0 cfg tpl name gd = StrOk out
    | TOk _ _ _ => True
    | TFail => exists e, template_string cx0 cfg tpl name gd = StrErr e
    | TNoFuel | TUnprintable => True
    end.
Proof. exact (loaded_template_renders cfg tpl name ss P fsp gd data). Qed.
Print Assumptions C07_loaded_page_renders_as_specified.

Theorem C07_loaded_page_renders_whenever_it_answers cfg tpl name ss P fsp gd (data : list (bytes * value)) :
  alookup name tpl = Some ss ->
  map strip_s ss = map strip_s (map cnode P) -> nodes_ok P ->
  env_from_map gd = EnvOk [data] ->
  forallb (fun kv : bytes * value => clean (snd kv)) data = true ->
  template_string cx0 cfg tpl name gd <> StrOutOfFuel ->
  match run_nodes model_call_spec fsp [data] P with
  | TOk out SigNormal _ => template_string cx0 cfg tpl name gd = StrOk out
  | TOk _ _ _ => True
  | TFail => exists e, template_string cx0 cfg tpl name gd = StrErr e
  | TNoFuel | TUnprintable => True
  end.
Proof. exact (loaded_template_renders_when_it_answers cfg tpl name ss P fsp gd data). Qed.
Print Assumptions C07_loaded_page_renders_whenever_it_answers.

(* non-vacuity: one component used in a loop with the loop variable and an outer variable as
   arguments and a slot body that reads the loop variable, then once more with other arguments
   and no slot body; the loaded page is the tree P7 up to lines, the semantics gives the output,
   and so does the model *)
Definition fs7 : fsys :=
  [(bs "templates/home.tw.html", FFile (bs "@each(i in [1, 2])@component('~card', {v: i, t: title})@slot<b>{{ i }}</b>@end@end@end|@component('~card', {v: 9, t: ""x""})"));
   (bs "templates/components/card.tw.html", FFile (bs "[{{ t }}:{{ v }}@slot]"))].
Definition card7 (slot : option (list tnode)) : list tnode :=
  [NText (bs "["); NPrint (XVar (bs "t")); NText (bs ":"); NPrint (XVar (bs "v")); NSlot [] slot; NText (bs "]")].
Definition P7 : list tnode :=
  [NEach (bs "i") (XArr [XInt 1; XInt 2])
     [NComponent (bs "components/card") 0 (Some [(bs "v", XVar (bs "i")); (bs "t", XVar (bs "title"))])
        (card7 (Some [NText (bs "<b>"); NPrint (XVar (bs "i")); NText (bs "</b>")]))] None;
   NText (bs "|");
   NComponent (bs "components/card") 1 (Some [(bs "v", XInt 9); (bs "t", XStr (bs "x") true)]) (card7 None)].
Definition gd7 : list (bytes * goval) := [(bs "title", GStr (bs "T"))].

Example C07_two_uses_example :
  exists tpl ss,
    new_template fs7 default_config = LOk tpl /\ alookup (bs "home") tpl = Some ss /\
    map strip_s ss = map strip_s (map cnode P7) /\ nodes_ok P7 /\
    run_nodes model_call_spec 40 [[(bs "title", VStr (bs "T"))]] P7 =
      TOk (bs "[T:1<b>1</b>][T:2<b>2</b>]|[x:9]") SigNormal [[(bs "title", VStr (bs "T"))]] /\
    template_string cx0 default_config tpl (bs "home") gd7 = StrOk (bs "[T:1<b>1</b>][T:2<b>2</b>]|[x:9]").
Proof.
  eexists. eexists.
  split; [vm_compute; reflexivity|]. split; [vm_compute; reflexivity|].
  split; [vm_compute; reflexivity|]. split; [cbn; repeat split; lia|].
  split; vm_compute; reflexivity.
Qed.

(* ---- the loader: all slots of one use *)
From TW Require Import SlotFill.

Theorem C07_all_slots_of_a_use_are_filled page_abs cline name slots sslots cprog cl C :
  slots_match slots sslots ->
  map strip_s (p_stmts cprog) = map strip_s (map cnode C) ->
  find_duplicate_slot slots slots = None ->
  match fill_slots C sslots with
  | Some C' => exists ss, apply_component page_abs cline name slots cprog cl = Api.LOk ss /\
                          map strip_s ss = map strip_s (map cnode C')
  | None => exists e, apply_component page_abs cline name slots cprog cl = Api.LErr e
  end.
Proof. exact (apply_component_is_fill_slots page_abs cline name slots sslots cprog cl C). Qed.
Print Assumptions C07_all_slots_of_a_use_are_filled.

Theorem C07_one_use_gets_the_filled_tree fs cfg page_abs cid cline name slots sslots cp C C' :
  parse_file fs (rel_of cfg name) = Api.LOk (PProg cp) ->
  slots_match slots sslots ->
  map strip_s (p_stmts cp) = map strip_s (map cnode C) ->
  find_duplicate_slot slots slots = None ->
  fill_slots C sslots = Some C' ->
  exists ss, resolve_components fs cfg page_abs [(cid, cline, name, slots)] = Api.LOk [(cid, ss)] /\
             map strip_s ss = map strip_s (map cnode C').
Proof. exact (one_use_gets_the_filled_tree fs cfg page_abs cid cline name slots sslots cp C C'). Qed.
Print Assumptions C07_one_use_gets_the_filled_tree.

(* non-vacuity: the card of the example with the first use's default-slot body *)
Example C07_fill_slots_example :
  fill_slots (card7 None) [([], [NText (bs "<b>"); NPrint (XVar (bs "i")); NText (bs "</b>")])] =
    Some (card7 (Some [NText (bs "<b>"); NPrint (XVar (bs "i")); NText (bs "</b>")])) /\
  fill_slots (card7 None) [(bs "nosuch", [])] = None.
Proof. split; reflexivity. Qed.

(* ---- every use is independent, on the specification (Proofs/SpecScopes.v): a use leaves the scope
   chain exactly as it was, so two uses in a row render what each renders alone from the same scopes *)
From TW Require Import SpecMono ReserveSplice SpecScopes.

Theorem C07_a_use_restores_the_scopes f sc n cid args body o s sc' :
  sc <> [] -> run_node model_call_spec f sc (NComponent n cid args body) = TOk o s sc' -> sc' = sc /\ s = SigNormal.
Proof. exact (component_use_restores_the_scopes f sc n cid args body o s sc'). Qed.
Print Assumptions C07_a_use_restores_the_scopes.

Theorem C07_uses_are_independent sc n1 c1 a1 b1 n2 c2 a2 b2 o1 s1 sc1 o2 s2 sc2 :
  sc <> [] ->
  RunsToN sc (NComponent n1 c1 a1 b1) (TOk o1 s1 sc1) -> RunsToN sc (NComponent n2 c2 a2 b2) (TOk o2 s2 sc2) ->
  RunsTo sc [NComponent n1 c1 a1 b1; NComponent n2 c2 a2 b2] (TOk (o1 ++ o2) SigNormal sc).
Proof. exact (uses_are_independent sc n1 c1 a1 b1 n2 c2 a2 b2 o1 s1 sc1 o2 s2 sc2). Qed.
Print Assumptions C07_uses_are_independent.
