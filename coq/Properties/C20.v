(* C20 - custom functions: unique registration per (type, name), independent per type,
   never replaced; the registry survives every later operation (loads, renders, registrations). *)
From TW Require Import Bytes Values Eval Render Api Registry.

Theorem C20_register_once fs st ty name f :
  let '(st', ob) := step fs st (OpReg ty name f) in
  (reg_lookup (g_funcs st) ty name = None ->
     ob = ObsRegOk /\ reg_lookup (g_funcs st') ty name = Some f) /\
  (forall g, reg_lookup (g_funcs st) ty name = Some g ->
     (exists e, ob = ObsErr e) /\ st' = st) /\
  (forall ty' name', (bytes_eqb ty ty' && bytes_eqb name name') = false ->
     reg_lookup (g_funcs st') ty' name' = reg_lookup (g_funcs st) ty' name') /\
  g_cfg st' = g_cfg st /\ g_tpl st' = g_tpl st.
Proof. exact (register_step fs st ty name f). Qed.
Print Assumptions C20_register_once.

Theorem C20_registered_stays fs ops st ty name f :
  reg_lookup (g_funcs st) ty name = Some f ->
  reg_lookup (g_funcs (final_state fs st ops)) ty name = Some f.
Proof. exact (registered_stays fs ops st ty name f). Qed.
Print Assumptions C20_registered_stays.

(* the evaluator consults exactly this registry *)
Theorem C20_dispatch_uses_registry fs ty name :
  lookup_custom (mkCtx fs) ty name = reg_lookup fs ty name.
Proof. exact (reg_lookup_is_lookup_custom fs ty name). Qed.
Print Assumptions C20_dispatch_uses_registry.
