(* C15 - theorems follow in this commit series *)
From TW Require Import Bytes.
