(* C15 - concurrent use of the rendering entry points is safe.
   What is proved: (a) on the call graph and footprint tables regenerated from /repo's source on
   every run, no function reachable from String / Response / EvaluateString / EvaluateFile assigns
   a package-level variable, the only method called on one is the ATOMIC store of the mode flag,
   and that flag is read by nothing reachable from them; (b) the generic theorem: when no step of
   any call changes what steps read, then in EVERY interleaving each call is exactly where it would
   be running alone - so it returns what it returns alone.
   What is not proved (named in DESIGN.md section 10): the Go memory model, that per-call heap
   objects (environment, evaluator, buffers) are not shared between calls, and the call-graph
   over-approximation of the translator. The race-detector runs of the check look for a schedule
   that contradicts (a). *)
From Coq Require Import String List NArith.
From TW Require Import GenFootprint Footprint.
Import ListNotations.
Local Open Scope string_scope.

Theorem C15_render_paths_assign_no_shared_variable : collect fp_writes render_entries = [].
Proof. exact render_paths_assign_nothing. Qed.
Print Assumptions C15_render_paths_assign_no_shared_variable.

Theorem C15_only_shared_effect_is_the_atomic_flag_store :
  collect fp_touches render_entries = ["textwire.usesTemplates.Store"].
Proof. exact render_paths_touch_only_the_atomic_flag. Qed.
Print Assumptions C15_only_shared_effect_is_the_atomic_flag_store.

Theorem C15_no_render_path_reads_the_flag :
  In "textwire.usesTemplates" (collect fp_reads render_entries) -> False.
Proof. exact render_paths_never_read_the_flag. Qed.
Print Assumptions C15_no_render_path_reads_the_flag.

Theorem C15_shared_state_read_is_the_reviewed_list :
  collect fp_reads render_entries =
  ["evaluator.BREAK"; "evaluator.CONTINUE"; "evaluator.FALSE"; "evaluator.NIL"; "evaluator.TRUE"; "evaluator.functions";
   "lexer.simpleTokens"; "lexer.tokensWithOptionalParens"; "lexer.tokensWithoutParens"; "object.outputHTML";
   "parser.precedences"; "textwire.customFunc"; "textwire.defaultErrorPage"; "textwire.userConfig";
   "token.directives"; "token.keywords"; "token.tokens"].
Proof. exact render_paths_read_only_reviewed_state. Qed.
Print Assumptions C15_shared_state_read_is_the_reviewed_list.

Theorem C15_every_interleaving_is_sequential
  (S L R : Type) (view : S -> S) (step : S -> L -> S * (L + R))
  (frame : forall s l, view (fst (step s l)) = view s)
  (blind : forall s s' l, view s = view s' -> snd (step s l) = snd (step s' l))
  sched s ts i c0 :
  nth_error ts i = Some c0 ->
  view (fst (run S L R step sched s ts)) = view s /\
  nth_error (snd (run S L R step sched s ts)) i = Some (alone S L R step (count i sched) s c0).
Proof. exact (schedule_independent S L R view step frame blind sched s ts i c0). Qed.
Print Assumptions C15_every_interleaving_is_sequential.

Theorem C15_finished_calls_return_what_they_return_alone
  (S L R : Type) (view : S -> S) (step : S -> L -> S * (L + R))
  (frame : forall s l, view (fst (step s l)) = view s)
  (blind : forall s s' l, view s = view s' -> snd (step s l) = snd (step s' l))
  sched s ts i l r :
  nth_error ts i = Some (inl l) ->
  nth_error (snd (run S L R step sched s ts)) i = Some (inr r) ->
  alone S L R step (count i sched) s (inl l) = inr r.
Proof. exact (finished_result_is_the_sequential_one S L R view step frame blind sched s ts i l r). Qed.
Print Assumptions C15_finished_calls_return_what_they_return_alone.

(* non-vacuity of the analysis: the entry points are found, and loading / registering DO write *)
Example C15_entry_points_found : List.length (entries render_entries) = 4%nat.
Proof. exact render_entries_exist. Qed.
Example C15_analysis_sees_writes : collect fp_writes ["textwire.NewTemplate"; "textwire.RegisterStrFunc"] <> [].
Proof. exact load_paths_do_write. Qed.
