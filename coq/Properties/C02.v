(* C02 - @if/@elseif/@else renders exactly the first truthy branch.
   The theorems are about the evaluator model (tied to evaluator.go by the correspondence run);
   the specification semantics of Spec/Template.v is the oracle of the check. *)
From TW Require Import Bytes Floats Values Ast Eval Expr Template Control.

Theorem C02_one_truthiness v : truthy v = truthy_spec v.
Proof. exact (truthy_is_spec v). Qed.
Print Assumptions C02_one_truthiness.

Theorem C02_falsy_values :
  truthy (VBool false) = false /\ truthy VNil = false /\ truthy (VInt 0) = false /\
  truthy (VFloat (f_ofZ 0)) = false /\ truthy (VFloat (f_neg (f_ofZ 0))) = false /\ truthy (VStr []) = false /\
  truthy (VArr []) = true /\ truthy (VObj []) = true.
Proof. exact falsy_values. Qed.
Print Assumptions C02_falsy_values.

Theorem C02_if_true_branch cx f en ln c thn alts alt cv :
  eval_expr cx f en c = Ok cv -> truthy cv = true ->
  eval_stmt cx (S f) en (SIf ln c thn alts alt) =
  (let! r := eval_block cx f ([] :: en) thn [] in Ok (fst r, tl (snd r))).
Proof. exact (if_true_branch cx f en ln c thn alts alt cv). Qed.
Print Assumptions C02_if_true_branch.

(* the chosen @elseif branch: the right-hand side does not mention the later branches, so their
   conditions are not evaluated and an error in them cannot surface *)
Theorem C02_first_truthy_elseif cx f en c b rest alt cv :
  eval_expr cx f en c = Ok cv -> truthy cv = true ->
  eval_alts cx (S f) en ((c, b) :: rest) alt =
  (let! r := eval_block cx f ([] :: en) b [] in Ok (fst r, tl (snd r))).
Proof. exact (elseif_true_branch cx f en c b rest alt cv). Qed.
Print Assumptions C02_first_truthy_elseif.

Theorem C02_falsy_condition_skips cx f en c b rest alt cv :
  eval_expr cx f en c = Ok cv -> truthy cv = false ->
  eval_alts cx (S f) en ((c, b) :: rest) alt = eval_alts cx f en rest alt.
Proof. exact (elseif_false_goes_on cx f en c b rest alt cv). Qed.
Print Assumptions C02_falsy_condition_skips.

Theorem C02_nothing_when_no_branch cx f en : eval_alts cx (S f) en [] None = Ok (VNil, en).
Proof. exact (no_branch_no_else cx f en). Qed.
Print Assumptions C02_nothing_when_no_branch.

Theorem C02_text_around_is_unaffected cx f en s ss out r str :
  eval_stmt cx f en s = Ok r -> str_of (fst r) = Ok str ->
  eval_program cx (S f) en (s :: ss) out = eval_program cx f (snd r) ss (out ++ str).
Proof. exact (program_concatenates cx f en s ss out r str). Qed.
Print Assumptions C02_text_around_is_unaffected.

(* ---- the full statement: the model's statement evaluator REFINES the clean big-step semantics
   of Spec/Template.v on the AST of every specification template (induction on the specification's
   fuel over nodes, blocks, @each passes and @for passes together).  For @if this says: exactly the
   branch the specification picks - the first one whose condition is truthy, conditions evaluated
   left to right in the enclosing scope and none after the chosen one - is what the model renders,
   with the same output, signal and scope chain; an error where the specification says error. *)
From TW Require Import ExprSem CleanValues TemplateRefine.

Theorem C02_statements_refine_the_specification fs sc n :
  env_clean sc = true -> node_ok n ->
  exists K, forall fm, (K <= fm)%nat ->
    Rs (eval_stmt cx0 fm sc (cnode n)) (run_node model_call_spec fs sc n).
Proof. exact (statement_refines_specification fs sc n). Qed.
Print Assumptions C02_statements_refine_the_specification.

(* what the specification says about @if, spelled out: the chosen branch, later conditions absent *)
Theorem C02_specification_of_if f sc c thn elifs els v :
  ev model_call_spec sc c = SVal v -> truthy_spec v = true ->
  run_node model_call_spec (S f) sc (NIf c thn elifs els) = run_block model_call_spec f sc thn.
Proof. intros Hc Ht. rewrite rn_if, Hc, Ht. reflexivity. Qed.
Print Assumptions C02_specification_of_if.

Theorem C02_whole_template_renders_like_the_specification fs (data : list (bytes * value)) ns :
  forallb (fun kv : bytes * value => clean (snd kv)) data = true -> nodes_ok ns ->
  exists K, forall fm, (K <= fm)%nat ->
    match run_nodes model_call_spec fs [data] ns with
    | TOk out SigNormal _ => exists en', eval_program cx0 fm [data] (map cnode ns) [] = Ok (out, en')
    | TOk _ _ _ => True
    | TFail => exists ln msg, eval_program cx0 fm [data] (map cnode ns) [] = Fail ln msg
    | TNoFuel | TUnprintable => True
    end.
Proof. exact (template_refines_specification fs data ns). Qed.
Print Assumptions C02_whole_template_renders_like_the_specification.

(* ---- from the token stream: the statement parser builds exactly the tree the tokens spell (text,
   {{ e }}, assignments, @if / @elseif / @else, @each with @else, @break, @continue, @breakIf,
   @continueIf; any nesting, any body length, empty bodies), with the fuel the model really uses *)
From Coq Require Import String.
From TW Require Import GenToken Lexer Parser Pratt StmtParse.

Theorem C02_tokens_parse_to_the_statement_tree ss eof :
  wf_ss ss -> ttype eof = T_EOF ->
  parse_tokens (flats ss ++ [eof]) = ParsedOk (mkProgram (asts ss) None [] [] []).
Proof. exact (template_parses_to_its_tree ss eof). Qed.
Print Assumptions C02_tokens_parse_to_the_statement_tree.

(* non-vacuity: the lexed source of a template with text around an @if / @elseif / @else is such a tree *)
Example C02_lexed_template_is_a_tree :
  exists ss eof,
    lex_all (bs "<p>@if(a)x@elseif(b == 1){{ y }}@else z@end</p>"%string) = Some (flats ss ++ [eof]) /\
    ttype eof = T_EOF /\ wf_ss ss /\
    parse_tokens (flats ss ++ [eof]) = ParsedOk (mkProgram (asts ss) None [] [] []).
Proof.
  destruct (lex_all (bs "<p>@if(a)x@elseif(b == 1){{ y }}@else z@end</p>"%string)) as [ts|] eqn:E; [|vm_compute in E; discriminate E].
  vm_compute in E. injection E as <-.
  match goal with |- exists ss eof, Some (?t1 :: ?kw :: ?lp :: ?a :: ?rp :: ?x :: ?ke :: ?elp :: ?b :: ?eq :: ?one :: ?erp ::
                                         ?lb :: ?y :: ?rb :: ?te :: ?z :: ?en :: ?t2 :: ?eoft :: nil) = _ /\ _ =>
    exists [TText t1;
            TIf kw lp rp en (CAtom a) [TText x] [(ke, elp, erp, CBin eq (CAtom b) (CAtom one), [TCode lb rb (CAtom y)])]
                (Some (te, [TText z]));
            TText t2], eoft
  end.
  split; [reflexivity|]. split; [reflexivity|].
  match goal with |- wf_ss ?l /\ _ => assert (W : wf_ss l) end; [|split; [exact W|apply template_parses_to_its_tree; [exact W|reflexivity]]].
  cbn [wf_ss wf_s wf wf_list_with llev rlev]. unfold tprec, INF. cbn [ttype].
  repeat split; try reflexivity; try discriminate; try (vm_compute; lia).
Qed.

(* ---- both halves together: from the token stream of a template to its output.  [Dens ss ns]
   (Proofs/TemplatePipeline.v) says the concrete trees ss spell the specification template ns. *)
From TW Require Import Template TemplatePipeline.

Theorem C02_from_tokens_to_output ss ns eof fs (data : list (bytes * value)) :
  wf_ss ss -> Dens ss ns -> ttype eof = T_EOF ->
  forallb (fun kv : bytes * value => clean (snd kv)) data = true -> nodes_ok ns ->
  parse_tokens (flats ss ++ [eof]) = ParsedOk (mkProgram (map cnode ns) None [] [] []) /\
  exists K, forall fm, (K <= fm)%nat ->
    match run_nodes model_call_spec fs [data] ns with
    | TOk out SigNormal _ => exists en', eval_program cx0 fm [data] (map cnode ns) [] = Ok (out, en')
    | TOk _ _ _ => True
    | TFail => exists ln msg, eval_program cx0 fm [data] (map cnode ns) [] = Fail ln msg
    | TNoFuel | TUnprintable => True
    end.
Proof. exact (template_tokens_render ss ns eof fs data). Qed.
Print Assumptions C02_from_tokens_to_output.

(* non-vacuity: a lexed source, the specification template it spells, and what the specification renders *)
Example C02_lexed_template_renders :
  let ns := [NText (bs "<p>"); NIf (XVar (bs "a")) [NText (bs "x")] [(XBin BEq (XVar (bs "b")) (XInt 1), [NPrint (XVar (bs "y"))])]
                                (Some [NText (bs " z")]); NText (bs "</p>")]%string in
  exists ss eof,
    lex_all (bs "<p>@if(a)x@elseif(b == 1){{ y }}@else z@end</p>"%string) = Some (flats ss ++ [eof]) /\
    ttype eof = T_EOF /\ wf_ss ss /\ Dens ss ns /\ nodes_ok ns /\
    run_nodes model_call_spec 20 [[(bs "a", VBool false); (bs "b", VInt 1); (bs "y", VStr (bs "Y"))]]%string ns
      = TOk (bs "<p>Y</p>"%string) SigNormal [[(bs "a", VBool false); (bs "b", VInt 1); (bs "y", VStr (bs "Y"))]]%string.
Proof.
  intro ns.
  destruct (lex_all (bs "<p>@if(a)x@elseif(b == 1){{ y }}@else z@end</p>"%string)) as [ts|] eqn:E; [|vm_compute in E; discriminate E].
  vm_compute in E. injection E as <-.
  match goal with |- exists ss eof, Some (?t1 :: ?kw :: ?lp :: ?a :: ?rp :: ?x :: ?ke :: ?elp :: ?b :: ?eq :: ?one :: ?erp ::
                                         ?lb :: ?y :: ?rb :: ?te :: ?z :: ?en :: ?t2 :: ?eoft :: nil) = _ /\ _ =>
    exists [TText t1;
            TIf kw lp rp en (CAtom a) [TText x] [(ke, elp, erp, CBin eq (CAtom b) (CAtom one), [TCode lb rb (CAtom y)])]
                (Some (te, [TText z]));
            TText t2], eoft
  end.
  split; [reflexivity|]. split; [reflexivity|].
  split.
  { cbn [wf_ss wf_s wf wf_list_with llev rlev]. unfold tprec, INF. cbn [ttype].
    repeat split; try reflexivity; try discriminate; try (vm_compute; lia). }
  split.
  { subst ns.
    apply DsCons; [apply DText'; reflexivity|].
    apply DsCons; [|apply DsCons; [apply DText'; reflexivity|apply DsNil]].
    apply DIf.
    - reflexivity.
    - cbn. repeat split.
    - apply DsCons; [apply DText'; reflexivity|apply DsNil].
    - apply DeCons; [cbn; repeat split| |apply DeNil].
      apply DsCons; [|apply DsNil]. apply DCode. cbn. repeat split.
    - apply DlSome. apply DsCons; [apply DText'; reflexivity|apply DsNil]. }
  split; [subst ns; cbn; repeat split; lia|].
  vm_compute. reflexivity.
Qed.

(* ---- from the source BYTES: a source that spells a checked list of items (Proofs/LexRound.v) whose
   tokens are those of ss, where ss spells the specification template ns, is lexed to those tokens,
   parsed to the program of ns and rendered by the model of EvaluateString as the specification says *)
From TW Require Import Render LexRound.

Theorem C02_from_source_bytes_to_output its ss ns eof fs gd (data : list (bytes * value)) :
  source_ok its = true -> place (spell its) 0 its = flats ss ++ [eof] -> wf_ss ss -> Dens ss ns ->
  env_from_map gd = EnvOk [data] ->
  forallb (fun kv : bytes * value => clean (snd kv)) data = true -> nodes_ok ns ->
  lex_all (spell its) = Some (flats ss ++ [eof]) /\
  parse_source (spell its) = ParsedOk (mkProgram (map cnode ns) None [] [] []) /\
  exists K, (K <= eval_fuel)%nat ->
    match run_nodes model_call_spec fs [data] ns with
    | TOk out SigNormal _ => evaluate_string cx0 (spell its) gd = RenderOk out
    | TOk _ _ _ => True
    | TFail => exists ln msg, evaluate_string cx0 (spell its) gd = RenderErr ln msg
    | TNoFuel | TUnprintable => True
    end.
Proof. exact (source_renders its ss ns eof fs gd data). Qed.
Print Assumptions C02_from_source_bytes_to_output.

Example C02_source_in_the_domain_and_rendered :
  in_domain (bs "<p>@if(a)x@elseif(b == 1){{ y }}@else z@end</p>"%string) = true /\
  evaluate_string cx0 (bs "<p>@if(a)x@elseif(b == 1){{ y }}@else z@end</p>"%string)
    [(bs "a", GBool false); (bs "b", GInt 1); (bs "y", GStr (bs "Y"))]%string = RenderOk (bs "<p>Y</p>"%string).
Proof. split; vm_compute; reflexivity. Qed.

(* ---- templates on any number of lines: line numbers only show in the line of an error
   (Proofs/LineIrrelevance.v), so the chain holds without the demand that tokens stand on the first line *)
From TW Require Import LineIrrelevance LinesPipeline.

Theorem C02_from_source_bytes_to_output_any_lines its ss ns eof fs gd (data : list (bytes * value)) :
  source_ok its = true -> place (spell its) 0 its = flats ss ++ [eof] -> wf_ss ss -> DensL ss ns ->
  env_from_map gd = EnvOk [data] ->
  forallb (fun kv : bytes * value => clean (snd kv)) data = true -> nodes_ok ns ->
  lex_all (spell its) = Some (flats ss ++ [eof]) /\
  parse_source (spell its) = ParsedOk (mkProgram (asts ss) None [] [] []) /\
  exists K, (K <= eval_fuel)%nat ->
    match run_nodes model_call_spec fs [data] ns with
    | TOk out SigNormal _ => evaluate_string cx0 (spell its) gd = RenderOk out
    | TOk _ _ _ => True
    | TFail => exists ln msg, evaluate_string cx0 (spell its) gd = RenderErr ln msg
    | TNoFuel | TUnprintable => True
    end.
Proof. exact (source_renders_lines its ss ns eof fs gd data). Qed.
Print Assumptions C02_from_source_bytes_to_output_any_lines.

(* ---- the evaluator's fuel only decides whether it answers (Proofs/EvalMono.v): an outcome other than
   out-of-fuel is the outcome for every larger fuel - so the chain needs no bound on the fixed eval_fuel:
   whenever the model of EvaluateString answers, it answers what the specification says *)
From TW Require Import EvalMono.

Theorem C02_fuel_only_decides_whether cx f g en ss out r :
  (f <= g)%nat -> eval_program cx f en ss out = r -> r <> OutOfFuel -> eval_program cx g en ss out = r.
Proof. exact (eval_program_fuel_mono cx f g en ss out r). Qed.
Print Assumptions C02_fuel_only_decides_whether.

Theorem C02_from_source_bytes_whenever_it_answers its ss ns eof fs gd (data : list (bytes * value)) :
  source_ok its = true -> place (spell its) 0 its = flats ss ++ [eof] -> wf_ss ss -> DensL ss ns ->
  env_from_map gd = EnvOk [data] ->
  forallb (fun kv : bytes * value => clean (snd kv)) data = true -> nodes_ok ns ->
  evaluate_string cx0 (spell its) gd <> RenderOutOfFuel ->
  match run_nodes model_call_spec fs [data] ns with
  | TOk out SigNormal _ => evaluate_string cx0 (spell its) gd = RenderOk out
  | TOk _ _ _ => True
  | TFail => exists ln msg, evaluate_string cx0 (spell its) gd = RenderErr ln msg
  | TNoFuel | TUnprintable => True
  end.
Proof. exact (source_renders_when_it_answers its ss ns eof fs gd data). Qed.
Print Assumptions C02_from_source_bytes_whenever_it_answers.
