(* C02 - @if/@elseif/@else renders exactly the first truthy branch.
   The theorems are about the evaluator model (tied to evaluator.go by the correspondence run);
   the specification semantics of Spec/Template.v is the oracle of the check. *)
From TW Require Import Bytes Floats Values Ast Eval Expr Template Control.

Theorem C02_one_truthiness v : truthy v = truthy_spec v.
Proof. exact (truthy_is_spec v). Qed.
Print Assumptions C02_one_truthiness.

Theorem C02_falsy_values :
  truthy (VBool false) = false /\ truthy VNil = false /\ truthy (VInt 0) = false /\
  truthy (VFloat (f_ofZ 0)) = false /\ truthy (VFloat (f_neg (f_ofZ 0))) = false /\ truthy (VStr []) = false /\
  truthy (VArr []) = true /\ truthy (VObj []) = true.
Proof. exact falsy_values. Qed.
Print Assumptions C02_falsy_values.

Theorem C02_if_true_branch cx f en ln c thn alts alt cv :
  eval_expr cx f en c = Ok cv -> truthy cv = true ->
  eval_stmt cx (S f) en (SIf ln c thn alts alt) =
  (let! r := eval_block cx f ([] :: en) thn [] in Ok (fst r, tl (snd r))).
Proof. exact (if_true_branch cx f en ln c thn alts alt cv). Qed.
Print Assumptions C02_if_true_branch.

(* the chosen @elseif branch: the right-hand side does not mention the later branches, so their
   conditions are not evaluated and an error in them cannot surface *)
Theorem C02_first_truthy_elseif cx f en c b rest alt cv :
  eval_expr cx f en c = Ok cv -> truthy cv = true ->
  eval_alts cx (S f) en ((c, b) :: rest) alt =
  (let! r := eval_block cx f ([] :: en) b [] in Ok (fst r, tl (snd r))).
Proof. exact (elseif_true_branch cx f en c b rest alt cv). Qed.
Print Assumptions C02_first_truthy_elseif.

Theorem C02_falsy_condition_skips cx f en c b rest alt cv :
  eval_expr cx f en c = Ok cv -> truthy cv = false ->
  eval_alts cx (S f) en ((c, b) :: rest) alt = eval_alts cx f en rest alt.
Proof. exact (elseif_false_goes_on cx f en c b rest alt cv). Qed.
Print Assumptions C02_falsy_condition_skips.

Theorem C02_nothing_when_no_branch cx f en : eval_alts cx (S f) en [] None = Ok (VNil, en).
Proof. exact (no_branch_no_else cx f en). Qed.
Print Assumptions C02_nothing_when_no_branch.

Theorem C02_text_around_is_unaffected cx f en s ss out r str :
  eval_stmt cx f en s = Ok r -> str_of (fst r) = Ok str ->
  eval_program cx (S f) en (s :: ss) out = eval_program cx f (snd r) ss (out ++ str).
Proof. exact (program_concatenates cx f en s ss out r str). Qed.
Print Assumptions C02_text_around_is_unaffected.

(* ---- the full statement: the model's statement evaluator REFINES the clean big-step semantics
   of Spec/Template.v on the AST of every specification template (induction on the specification's
   fuel over nodes, blocks, @each passes and @for passes together).  For @if this says: exactly the
   branch the specification picks - the first one whose condition is truthy, conditions evaluated
   left to right in the enclosing scope and none after the chosen one - is what the model renders,
   with the same output, signal and scope chain; an error where the specification says error. *)
From TW Require Import ExprSem CleanValues TemplateRefine.

Theorem C02_statements_refine_the_specification fs sc n :
  env_clean sc = true -> node_ok n ->
  exists K, forall fm, (K <= fm)%nat ->
    Rs (eval_stmt cx0 fm sc (cnode n)) (run_node model_call_spec fs sc n).
Proof. exact (statement_refines_specification fs sc n). Qed.
Print Assumptions C02_statements_refine_the_specification.

(* what the specification says about @if, spelled out: the chosen branch, later conditions absent *)
Theorem C02_specification_of_if f sc c thn elifs els v :
  ev model_call_spec sc c = SVal v -> truthy_spec v = true ->
  run_node model_call_spec (S f) sc (NIf c thn elifs els) = run_block model_call_spec f sc thn.
Proof. intros Hc Ht. rewrite rn_if, Hc, Ht. reflexivity. Qed.
Print Assumptions C02_specification_of_if.

Theorem C02_whole_template_renders_like_the_specification fs (data : list (bytes * value)) ns :
  forallb (fun kv : bytes * value => clean (snd kv)) data = true -> nodes_ok ns ->
  exists K, forall fm, (K <= fm)%nat ->
    match run_nodes model_call_spec fs [data] ns with
    | TOk out SigNormal _ => exists en', eval_program cx0 fm [data] (map cnode ns) [] = Ok (out, en')
    | TOk _ _ _ => True
    | TFail => exists ln msg, eval_program cx0 fm [data] (map cnode ns) [] = Fail ln msg
    | TNoFuel | TUnprintable => True
    end.
Proof. exact (template_refines_specification fs data ns). Qed.
Print Assumptions C02_whole_template_renders_like_the_specification.
