(* C02 - @if/@elseif/@else renders exactly the first truthy branch.
   The theorems are about the evaluator model (tied to evaluator.go by the correspondence run);
   the specification semantics of Spec/Template.v is the oracle of the check. *)
From TW Require Import Bytes Floats Values Ast Eval Expr Template Control.

Theorem C02_one_truthiness v : truthy v = truthy_spec v.
Proof. exact (truthy_is_spec v). Qed.
Print Assumptions C02_one_truthiness.

Theorem C02_falsy_values :
  truthy (VBool false) = false /\ truthy VNil = false /\ truthy (VInt 0) = false /\
  truthy (VFloat (f_ofZ 0)) = false /\ truthy (VFloat (f_neg (f_ofZ 0))) = false /\ truthy (VStr []) = false /\
  truthy (VArr []) = true /\ truthy (VObj []) = true.
Proof. exact falsy_values. Qed.
Print Assumptions C02_falsy_values.

Theorem C02_if_true_branch cx f en ln c thn alts alt cv :
  eval_expr cx f en c = Ok cv -> truthy cv = true ->
  eval_stmt cx (S f) en (SIf ln c thn alts alt) =
  (let! r := eval_block cx f ([] :: en) thn [] in Ok (fst r, tl (snd r))).
Proof. exact (if_true_branch cx f en ln c thn alts alt cv). Qed.
Print Assumptions C02_if_true_branch.

(* the chosen @elseif branch: the right-hand side does not mention the later branches, so their
   conditions are not evaluated and an error in them cannot surface *)
Theorem C02_first_truthy_elseif cx f en c b rest alt cv :
  eval_expr cx f en c = Ok cv -> truthy cv = true ->
  eval_alts cx (S f) en ((c, b) :: rest) alt =
  (let! r := eval_block cx f ([] :: en) b [] in Ok (fst r, tl (snd r))).
Proof. exact (elseif_true_branch cx f en c b rest alt cv). Qed.
Print Assumptions C02_first_truthy_elseif.

Theorem C02_falsy_condition_skips cx f en c b rest alt cv :
  eval_expr cx f en c = Ok cv -> truthy cv = false ->
  eval_alts cx (S f) en ((c, b) :: rest) alt = eval_alts cx f en rest alt.
Proof. exact (elseif_false_goes_on cx f en c b rest alt cv). Qed.
Print Assumptions C02_falsy_condition_skips.

Theorem C02_nothing_when_no_branch cx f en : eval_alts cx (S f) en [] None = Ok (VNil, en).
Proof. exact (no_branch_no_else cx f en). Qed.
Print Assumptions C02_nothing_when_no_branch.

Theorem C02_text_around_is_unaffected cx f en s ss out r str :
  eval_stmt cx f en s = Ok r -> str_of (fst r) = Ok str ->
  eval_program cx (S f) en (s :: ss) out = eval_program cx f (snd r) ss (out ++ str).
Proof. exact (program_concatenates cx f en s ss out r str). Qed.
Print Assumptions C02_text_around_is_unaffected.
