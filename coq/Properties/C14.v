(* C14 - rendering is deterministic: the result does not depend on the order in which a Go map
   presents its entries.  In the model a Go map is an association list with distinct keys and a
   presentation order is any permutation of it.  Every consumer that iterates a map in the code
   (EnvFromMap, Obj.String / Dump, object literals, component arguments, checkUndefinedInsert,
   parsePrograms) sorts the keys first; the theorems say the results are EQUAL for any two
   presentations.  That the code sorts at these sites (and iterates maps nowhere else on a
   render path) is what the repetition / fresh-process runs of the check observe. *)
From Coq Require Import String Sorting.Permutation.
From TW Require Import Bytes Values Ast Builtins Eval Api Order.

Theorem C14_sort_is_presentation_independent {A} (m1 m2 : list (bytes * A)) :
  NoDup (map fst m1) -> Permutation m1 m2 -> asort m1 = asort m2.
Proof. exact (asort_order_independent m1 m2). Qed.
Print Assumptions C14_sort_is_presentation_independent.

Theorem C14_data_binding cx p d1 d2 :
  NoDup (map fst d1) -> Permutation d1 d2 -> render_program cx p d1 = render_program cx p d2.
Proof. exact (render_data_order_independent cx p d1 d2). Qed.
Print Assumptions C14_data_binding.

Theorem C14_object_printing m1 m2 :
  NoDup (map fst m1) -> Permutation m1 m2 -> value_string (VObj m1) = value_string (VObj m2).
Proof. exact (object_print_order_independent m1 m2). Qed.
Print Assumptions C14_object_printing.

Theorem C14_object_dump ident m1 m2 :
  NoDup (map fst m1) -> Permutation m1 m2 -> dump_value ident (VObj m1) = dump_value ident (VObj m2).
Proof. exact (object_dump_order_independent ident m1 m2). Qed.
Print Assumptions C14_object_dump.

Theorem C14_object_literal cx fuel en ln p1 p2 :
  NoDup (map fst p1) -> Permutation p1 p2 ->
  eval_expr cx fuel en (EObj ln p1) = eval_expr cx fuel en (EObj ln p2).
Proof. exact (object_literal_order_independent cx fuel en ln p1 p2). Qed.
Print Assumptions C14_object_literal.

Theorem C14_component_arguments cx fuel en ln cid name l1 p1 p2 slots block :
  NoDup (map fst p1) -> Permutation p1 p2 ->
  eval_stmt cx fuel en (SComponent ln cid name (Some (EObj l1 p1)) slots block) =
  eval_stmt cx fuel en (SComponent ln cid name (Some (EObj l1 p2)) slots block).
Proof. exact (component_args_order_independent cx fuel en ln cid name l1 p1 p2 slots block). Qed.
Print Assumptions C14_component_arguments.

Theorem C14_first_undefined_insert (i1 i2 : list (bytes * insert_rec)) reserves :
  NoDup (map fst i1) -> Permutation i1 i2 ->
  undefined_insert (asort i1) reserves = undefined_insert (asort i2) reserves.
Proof. exact (undefined_insert_order_independent i1 i2 reserves). Qed.
Print Assumptions C14_first_undefined_insert.

Theorem C14_first_faulty_file fs cfg (f1 f2 : list (bytes * bytes)) :
  NoDup (map fst f1) -> Permutation f1 f2 ->
  load_all fs cfg (asort f1) = load_all fs cfg (asort f2).
Proof. exact (load_order_independent fs cfg f1 f2). Qed.
Print Assumptions C14_first_faulty_file.

Example C14_example :
  asort [(bs "b", 2); (bs "a", 1); (bs "c", 3)] = asort [(bs "c", 3); (bs "b", 2); (bs "a", 1)].
Proof. exact order_example. Qed.
