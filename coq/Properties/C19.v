(* C19 - token positions are exact, ordered and tile the source.
   Only statements, closed by [exact]; proofs live in Proofs/LexerPos.v. *)
From TW Require Import Bytes GenToken Lexer Positions LexerPos.
Open Scope N_scope.

(* the counters are the position function, at every offset the lexer can reach,
   including offsets past the end of the input *)
Theorem C19_counters_exact input l :
  Inv input l -> Inv input (readChar l) /\ lpos (readChar l) = S (lpos l).
Proof. exact (readChar_inv input l). Qed.
Print Assumptions C19_counters_exact.

Theorem C19_initial_state input : Inv input (newLexer input).
Proof. exact (newLexer_inv input). Qed.
Print Assumptions C19_initial_state.

Theorem C19_fixed_width_tokens input l k ty lit :
  Inv input l -> (0 < k)%nat -> tok_eqb ty T_EOF = false ->
  let '(t, l') := fixedToken l k ty lit in
  (tsl t, tsc t) = lc input (lpos l) /\
  (tel t, tec t) = lc input (lpos l + k - 1) /\
  Inv input l' /\ lpos l' = (lpos l + k)%nat.
Proof. exact (fixed_width_token_pos input l k ty lit). Qed.
Print Assumptions C19_fixed_width_tokens.

Theorem C19_eof_position input l :
  Inv input l ->
  let l' := tokenBegins l in
  let t := newToken l' T_EOF [] in
  (tsl t, tsc t) = lc input (lpos l) /\ (tel t, tec t) = lc input (lpos l).
Proof. exact (eof_token_pos input l). Qed.
Print Assumptions C19_eof_position.

Theorem C19_oracle_table_is_spec input k :
  (k <= List.length input)%nat -> nth k (lc_table input) (O, O) = lc input k.
Proof. exact (lc_table_spec input k). Qed.
Print Assumptions C19_oracle_table_is_spec.

(* ---- all tokens (text runs, strings, identifiers, numbers, directives, operators, braces;
   comments skipped on the way): NextToken's answer starts and ends at the (line, column) of byte
   offsets of the input, never before the position the lexer was at, a token that consumed input
   ends strictly before the lexer's new position, and the counters remain the position function *)
From TW Require Import LexerTokens.

Theorem C19_every_token_is_exact input l t l' :
  Inv input l -> nextTok l = Some (t, l') -> Tok input l t l'.
Proof. exact (next_tok_exact input l t l'). Qed.
Print Assumptions C19_every_token_is_exact.

Theorem C19_token_list_is_exact_and_ordered input ts : lex_all input = Some ts -> chain input 0 ts.
Proof. exact (all_tokens_exact_and_ordered input ts). Qed.
Print Assumptions C19_token_list_is_exact_and_ordered.
