(* C19 - token positions are exact, ordered and tile the source.
   Only statements, closed by [exact]; proofs live in Proofs/LexerPos.v. *)
From Coq Require Import String.
From TW Require Import Bytes GenToken Lexer Positions LexerPos.
Open Scope N_scope.

(* the counters are the position function, at every offset the lexer can reach,
   including offsets past the end of the input *)
Theorem C19_counters_exact input l :
  Inv input l -> Inv input (readChar l) /\ lpos (readChar l) = S (lpos l).
Proof. exact (readChar_inv input l). Qed.
Print Assumptions C19_counters_exact.

Theorem C19_initial_state input : Inv input (newLexer input).
Proof. exact (newLexer_inv input). Qed.
Print Assumptions C19_initial_state.

Theorem C19_fixed_width_tokens input l k ty lit :
  Inv input l -> (0 < k)%nat -> tok_eqb ty T_EOF = false ->
  let '(t, l') := fixedToken l k ty lit in
  (tsl t, tsc t) = lc input (lpos l) /\
  (tel t, tec t) = lc input (lpos l + k - 1) /\
  Inv input l' /\ lpos l' = (lpos l + k)%nat.
Proof. exact (fixed_width_token_pos input l k ty lit). Qed.
Print Assumptions C19_fixed_width_tokens.

Theorem C19_eof_position input l :
  Inv input l ->
  let l' := tokenBegins l in
  let t := newToken l' T_EOF [] in
  (tsl t, tsc t) = lc input (lpos l) /\ (tel t, tec t) = lc input (lpos l).
Proof. exact (eof_token_pos input l). Qed.
Print Assumptions C19_eof_position.

Theorem C19_oracle_table_is_spec input k :
  (k <= List.length input)%nat -> nth k (lc_table input) (O, O) = lc input k.
Proof. exact (lc_table_spec input k). Qed.
Print Assumptions C19_oracle_table_is_spec.

(* ---- all tokens (text runs, strings, identifiers, numbers, directives, operators, braces;
   comments skipped on the way): NextToken's answer starts and ends at the (line, column) of byte
   offsets of the input, never before the position the lexer was at, a token that consumed input
   ends strictly before the lexer's new position, and the counters remain the position function *)
From TW Require Import LexerTokens.

Theorem C19_every_token_is_exact input l t l' :
  Inv input l -> nextTok l = Some (t, l') -> Tok input l t l'.
Proof. exact (next_tok_exact input l t l'). Qed.
Print Assumptions C19_every_token_is_exact.

Theorem C19_token_list_is_exact_and_ordered input ts : lex_all input = Some ts -> chain input 0 ts.
Proof. exact (all_tokens_exact_and_ordered input ts). Qed.
Print Assumptions C19_token_list_is_exact_and_ordered.

(* ---- the lexer read backwards (Proofs/LexRound.v): for every list of items (token type, source
   spelling, spaces before it) that passes the computable check source_ok - text runs, {{ }},
   directives with and without parentheses, identifiers, keywords, numbers, strings, every
   operator and bracket, nested braces and parentheses, any white space between the tokens of code;
   any number of lines, any bytes but NUL, backslashes and escapes (\{{ and \@keyword, whose
   backslash is not part of the literal while the token still spans the whole run) inside text,
   comments before the items of text mode - the lexer model
   returns exactly the tokens of the items, each with its literal and the (line, column) of its first
   and last byte as the position function lc of Spec/Positions.v gives them, then EOF at the end *)
From TW Require Import LexRound.

Theorem C19_spelled_items_lex_to_their_tokens_and_positions its :
  source_ok its = true -> lex_all (spell its) = Some (place (spell its) 0 its).
Proof. exact (lex_spell its). Qed.
Print Assumptions C19_spelled_items_lex_to_their_tokens_and_positions.

(* non-vacuity: these sources are spellings of checked item lists (decided by computation) *)
Definition nl := String (Ascii.ascii_of_nat 10) EmptyString.
Example C19_sources_in_the_domain :
  forallb (fun s => in_domain (bs s))
    ["<p>@if(a)x@elseif(b == 1){{ y }}@else z@end</p>";
     "@each(v in xs)[{{ v }}@breakIf(v == 2)@continue]@else none@end";
     "{{ {""a"": 1, ""b"": [1,2.5]}.a + f(3)-1 }}";
     "{{ ""s"".upper() }}<b>@component(""c"", {x: 1})@slot(""n"")hi@end@end";
     "@for(i = 0; i < 3; i++){{i}}@end";
     "{{ a ? b : !c }}@dump(a)@use(""l"")@insert(""t"", 1)@reserve(""t"")";
     ("<ul>" ++ nl ++ "@each(v in xs)" ++ nl ++ "  <li>{{ v }}</li>" ++ nl ++ "@end" ++ nl ++ "</ul>" ++ nl);
     ("{{ a +" ++ nl ++ "   b }} c:\dir {{ ""two" ++ nl ++ "lines"" }} \ tail");
     ("{{-- a comment {{ 1 }} @if --}}<p>{{-- two --}}{{--}}@if(x){{-- three" ++ nl ++ " lines --}}{{ x }}@end{{-- last --}}");
     "\{{ x }} is {{ x }}, \@if(y) is @if(y)live@end \@end \{{"]%string = true.
Proof. vm_compute. reflexivity. Qed.

Theorem C19_domain_check_is_sound src :
  in_domain src = true ->
  exists its tg, spell_t its tg = src /\ source_ok_t its tg = true /\
                 lex_all src = Some (place_t src 0 its (List.length tg)).
Proof. exact (in_domain_sound src). Qed.
Print Assumptions C19_domain_check_is_sound.

(* with a trailing gap: comments at the end of a template, white space at the end of unfinished code *)
Theorem C19_spelled_items_with_trailing_gap its tg :
  source_ok_t its tg = true ->
  lex_all (spell_t its tg) = Some (place_t (spell_t its tg) 0 its (List.length tg)).
Proof. exact (lex_spell_t its tg). Qed.
Print Assumptions C19_spelled_items_with_trailing_gap.

(* ---- tiling (Proofs/Tiling.v): in the domain of the round trip the tokens and the bytes between them
   tile the source - gap, token, gap, token, ..., trailing gap; every gap is blank (inside code) or a
   run of comments (in text mode) *)
From TW Require Import Tiling.

Theorem C19_tokens_tile_the_source its tg :
  source_ok_t its tg = true ->
  lex_all (spell_t its tg) = Some (place_t (spell_t its tg) 0 its (List.length tg)) /\
  spell_t its tg = fold_right (fun it acc => igap it ++ isrc it ++ acc) tg its /\
  Forall (fun it => gap_fine (igap it)) its /\ gap_fine tg.
Proof. exact (tokens_tile_the_source its tg). Qed.
Print Assumptions C19_tokens_tile_the_source.
