(* C11 - built-in functions meet their contracts.
   Spec/BuiltinSpec.v states the contract of every built-in from the property text (over characters
   and value lists); Model/Builtins.v mirrors evaluator/*_func.go and is tied to it by the
   correspondence run (receivers x argument tuples x boundary counts).  Theorem: for EVERY function
   name, receiver and argument list the model's answer meets the contract: the contract's value
   where it gives one, an error (or "no such function") where it says error; SUnspec marks what the
   contract leaves open (non-ASCII case mapping, shuffle of 2+ elements, float text outside the
   printable class).  Purity is immediate in the model (values are immutable); for the code it is
   observed by the harness (receiver and arguments re-read after the call).
   Not proved here: UTF-8 validity of results (checked on every implementation output of the run). *)
From Coq Require Import String.
From TW Require Import Bytes Floats Values Builtins Expr BuiltinSpec Ast Eval BuiltinContracts.

Theorem C11_builtins_meet_their_contracts fn recv args :
  ints_in_range recv -> agrees (call_builtin fn recv args) (builtin_spec recv fn args).
Proof. exact (builtins_meet_contracts fn recv args). Qed.
Print Assumptions C11_builtins_meet_their_contracts.

Theorem C11_string_functions fn s args : agrees (builtin_str fn s args) (spec_str fn s args).
Proof. exact (str_agrees fn s args). Qed.
Print Assumptions C11_string_functions.

Theorem C11_array_functions fn l args : agrees (builtin_arr fn l args) (spec_arr fn l args).
Proof. exact (arr_agrees fn l args). Qed.
Print Assumptions C11_array_functions.

Theorem C11_slice_is_a_segment l a b r :
  spec_arr (bs "slice") l [VInt a; VInt b] = SVal (VArr r) -> exists pre post, l = pre ++ r ++ post.
Proof. exact (slice_is_a_segment l a b r). Qed.
Print Assumptions C11_slice_is_a_segment.

Theorem C11_reverse_is_an_involution l r r2 :
  spec_arr (bs "reverse") l [] = SVal (VArr r) -> spec_arr (bs "reverse") r [] = SVal (VArr r2) -> r2 = l.
Proof. exact (reverse_is_an_involution l r r2). Qed.
Print Assumptions C11_reverse_is_an_involution.

Theorem C11_append_prepend_extend l args r :
  (spec_arr (bs "append") l args = SVal (VArr r) -> r = l ++ args /\ args <> []) /\
  (spec_arr (bs "prepend") l args = SVal (VArr r) -> r = args ++ l /\ args <> []).
Proof. exact (conj (append_extends l args r) (prepend_extends l args r)). Qed.
Print Assumptions C11_append_prepend_extend.

Theorem C11_builtin_name_wins_over_custom cx f en ln recv fname args rv avs r :
  eval_expr cx f en recv = Ok rv -> has_func_table rv = true ->
  eval_exprs cx f en args = Ok avs ->
  call_builtin fname rv avs = Some r ->
  eval_expr cx (S f) en (ECall ln recv fname args) =
  match r with BOk v => Ok v | BErr msg => Fail ln msg | BUnmodelled => Unmodelled end.
Proof. exact (builtin_shadows_custom cx f en ln recv fname args rv avs r). Qed.
Print Assumptions C11_builtin_name_wins_over_custom.

(* non-vacuity *)
Example C11_example :
  call_builtin (bs "slice") (VArr [VInt 1; VInt 2; VInt 3; VInt 4]) [VInt 1; VInt 3] = Some (BOk (VArr [VInt 2; VInt 3])) /\
  builtin_spec (VStr (bs "abc")) (bs "at") [VInt (-1)] = SVal (VStr (bs "c")).
Proof. split; reflexivity. Qed.

(* ---- valid UTF-8 out, for the built-ins that work on characters, for ANY receiver bytes:
   decoding any byte string yields Unicode scalar values only, encoding scalar values and decoding
   them again is the identity, so whatever is encoded from decoded characters is valid UTF-8 *)
From TW Require Import Utf8.

Theorem C11_decoded_characters_are_scalar_values s : Forall scalar (runes s).
Proof. exact (decoded_characters_are_scalars s). Qed.
Print Assumptions C11_decoded_characters_are_scalar_values.

Theorem C11_encode_then_decode_is_identity l : Forall scalar l -> runes (encode_runes l) = l.
Proof. exact (runes_of_encoded l). Qed.
Print Assumptions C11_encode_then_decode_is_identity.

Theorem C11_character_results_are_valid_utf8 s i n :
  utf8_valid (encode_runes (rev (runes s))) = true /\
  utf8_valid (encode_runes [nth i (runes s) 0]) = true /\
  utf8_valid (encode_runes (firstn n (runes s))) = true.
Proof.
  exact (conj (reverse_is_valid_utf8 s) (conj (character_at_is_valid_utf8 s i) (truncated_prefix_is_valid_utf8 s n))).
Qed.
Print Assumptions C11_character_results_are_valid_utf8.
