(* C13 - errors name the line (and file) of the faulty construct.
   Every AST node of the model keeps the 1-based line on which its token ends (eline t = S (tel t));
   that the lexer's tel is the number of line feeds before the token's last byte - however many
   multi-line text runs, strings, comments or CRLF line ends precede it - is C19's theorem (counters =
   position function at every reachable offset).  Proved here: which node's line each kind of fault
   reports, and that every enclosing construct passes the error on unchanged; for loaded templates
   the error carries the path of the template's own file.  The end-to-end statement (source text ->
   reported line) is decided on generated instances: a single fault of each kind injected at a
   position whose line is known by construction, behind every kind of multi-line token. *)
From Coq Require Import String.
From TW Require Import Bytes GenToken Lexer Ast Parser Values Builtins Eval Render Api ErrorLines.
Open Scope N_scope.

Theorem C13_node_line_is_where_its_token_ends t : eline t = S (tel t).
Proof. exact (node_line_is_token_end_line t). Qed.
Print Assumptions C13_node_line_is_where_its_token_ends.

Theorem C13_unexpected_token_reports_the_peeked_token st t a b :
  peekIs st t = false -> tokenString t = Some a -> tokenString (ttype (peekT st)) = Some b ->
  expectPeek st t = (false, addErr st (eline (peekT st)) (fmt ErrWrongNextToken [a; b])).
Proof. exact (unexpected_token_line st t a b). Qed.
Print Assumptions C13_unexpected_token_reports_the_peeked_token.

Theorem C13_undefined_identifier cx f en ln n :
  env_get en n = None -> eval_expr cx (S f) en (EIdent ln n) = Fail ln (fmt ErrIdentifierNotFound [n]).
Proof. exact (undefined_identifier_line cx f en ln n). Qed.
Print Assumptions C13_undefined_identifier.

Theorem C13_mistyped_operands_report_the_left_operand cx f en ln op l r lv rv ll :
  eval_expr cx f en l = Ok lv -> eval_expr cx f en r = Ok rv -> expr_line l = Some ll ->
  same_type lv rv = false ->
  eval_expr cx (S f) en (EInfix ln op l r) = Fail ll (fmt ErrTypeMismatch [type_name lv; op; type_name rv]).
Proof. exact (mistyped_operands_line cx f en ln op l r lv rv ll). Qed.
Print Assumptions C13_mistyped_operands_report_the_left_operand.

Theorem C13_division_by_zero cx f en ln l r a ll :
  eval_expr cx f en l = Ok (VInt a) -> eval_expr cx f en r = Ok (VInt 0) -> expr_line l = Some ll ->
  eval_expr cx (S f) en (EInfix ln (bs "/") l r) = Fail ll (fmt ErrDivisionByZero []) /\
  eval_expr cx (S f) en (EInfix ln (bs "%") l r) = Fail ll (fmt ErrDivisionByZero []).
Proof. exact (division_by_zero_line cx f en ln l r a ll). Qed.
Print Assumptions C13_division_by_zero.

Theorem C13_unknown_function cx f en ln recv fname args rv avs :
  eval_expr cx f en recv = Ok rv -> has_func_table rv = true -> eval_exprs cx f en args = Ok avs ->
  call_builtin fname rv avs = None -> lookup_custom cx (type_name rv) fname = None ->
  eval_expr cx (S f) en (ECall ln recv fname args) = Fail ln (fmt ErrNoFuncForThisType [fname; type_name rv]).
Proof. exact (unknown_function_line cx f en ln recv fname args rv avs). Qed.
Print Assumptions C13_unknown_function.

Theorem C13_unknown_property cx f en ln l kln k m i il :
  eval_expr cx f en l = Ok (VObj m) -> alookup k m = None -> alookup (upper_first k) m = None ->
  eval_expr cx (S f) en (EDot ln l (EIdent kln k)) = Fail ln (fmt ErrPropertyNotFound [k; bs "OBJECT"]) /\
  (eval_expr cx f en i = Ok (VStr k) -> expr_line i = Some il ->
   eval_expr cx (S f) en (EIndex ln l i) = Fail il (fmt ErrPropertyNotFound [k; bs "OBJECT"])).
Proof.
  intros Hl H1 H2. split; [exact (unknown_property_line_dot cx f en ln l kln k m Hl H1 H2)|].
  intros Hi Hil. exact (unknown_property_line_bracket cx f en ln l i k m il Hl Hi Hil H1 H2).
Qed.
Print Assumptions C13_unknown_property.

Theorem C13_enclosing_constructs_keep_the_line cx f en s ss out acc ln msg :
  eval_stmt cx f en s = Fail ln msg ->
  eval_program cx (S f) en (s :: ss) out = Fail ln msg /\ eval_block cx (S f) en (s :: ss) acc = Fail ln msg.
Proof.
  intro H. split; [exact (error_passes_through_program cx f en s ss out ln msg H)|
                   exact (error_passes_through_block cx f en s ss acc ln msg H)].
Qed.
Print Assumptions C13_enclosing_constructs_keep_the_line.

Theorem C13_render_reports_line_and_file cx cfg tpl name data en ss ln msg :
  env_from_map data = EnvOk en -> alookup name tpl = Some ss ->
  eval_program cx eval_fuel en ss [] = Fail ln msg ->
  template_string cx cfg tpl name data = StrErr (mkErr ln (template_path cfg name) msg).
Proof. exact (template_error_names_its_file cx cfg tpl name data en ss ln msg). Qed.
Print Assumptions C13_render_reports_line_and_file.

Theorem C13_load_error_names_the_parsed_file fs rel content ln msg rest :
  read_file fs rel = ReadOk content -> parse_source content = ParseErrors ((ln, msg) :: rest) ->
  parse_file fs rel = LOk (PFail (mkErr ln (abs_path rel) msg)).
Proof. exact (load_error_names_the_parsed_file fs rel content ln msg rest). Qed.
Print Assumptions C13_load_error_names_the_parsed_file.

(* ---- from the source text to the reported line: every token of the lexer ends on the line given
   by the position function (number of line feeds before its last byte), whatever precedes it *)
From TW Require Import Positions LexerTokens.

Theorem C13_token_end_line_counts_the_line_feeds input ts t :
  lex_all input = Some ts -> In t ts -> exists e, tel t = fst (lc input e).
Proof. exact (token_line_counts_line_feeds input ts t). Qed.
Print Assumptions C13_token_end_line_counts_the_line_feeds.

(* ---- from the source bytes (Proofs/ErrorLinePipeline.v): any text T - any number of lines - followed by
   {{ name }} with name unbound fails with "identifier not found" at line 1 + (line feeds in T): the
   line on which the identifier stands, with the exact message *)
From TW Require Import Eval Render ExprSem LexSpell ErrorLinePipeline.

Theorem C13_undefined_identifier_is_reported_at_its_line T name gd en :
  und_ok T name = true -> env_from_map gd = EnvOk en -> env_get en name = None ->
  evaluate_string cx0 (und_source T name) gd =
    RenderErr (S (count_lf T)) (fmt ErrIdentifierNotFound [name]).
Proof. exact (undefined_identifier_error_line T name gd en). Qed.
Print Assumptions C13_undefined_identifier_is_reported_at_its_line.

Definition nl13 := String (Ascii.ascii_of_nat 10) EmptyString.
Example C13_from_source_example :
  let T := bs ("<h1>title</h1>" ++ nl13 ++ "<p>c:\dir \{{ not code }}" ++ nl13 ++ nl13 ++ "  ")%string in
  und_ok T (bs "user") = true /\ count_lf T = 3%nat /\
  evaluate_string cx0 (und_source T (bs "user")) [] = RenderErr 4 (bs "identifier 'user' not found").
Proof. repeat split; vm_compute; reflexivity. Qed.

(* the same template in a FILE of a loaded tree: the error carries the line and the path of that file *)
Theorem C13_undefined_identifier_in_a_file_names_line_and_file fs cfg rel T name :
  read_file fs rel = ReadOk (und_source T name) -> und_ok T name = true ->
  exists ss, load_page fs cfg rel = Api.LOk (ss, false) /\
    forall tpl nm gd en, alookup nm tpl = Some ss -> env_from_map gd = EnvOk en -> env_get en name = None ->
      template_string cx0 cfg tpl nm gd =
        StrErr (mkErr (S (count_lf T)) (template_path cfg nm) (fmt ErrIdentifierNotFound [name])).
Proof. exact (undefined_identifier_in_a_file fs cfg rel T name). Qed.
Print Assumptions C13_undefined_identifier_in_a_file_names_line_and_file.

Example C13_file_example :
  let T := bs ("<h1>title</h1>" ++ nl13 ++ nl13)%string in
  let fs := [(bs "templates/blog/post.tw.html", FFile (und_source T (bs "user")))] in
  forall tpl, new_template fs default_config = Api.LOk tpl ->
    template_string cx0 default_config tpl (bs "blog/post") [] =
      StrErr (mkErr 3 (bs "$ROOT/templates/blog/post.tw.html") (bs "identifier 'user' not found")).
Proof.
  intros T fs.
  assert (Hr : match new_template fs default_config with
               | Api.LOk tpl => template_string cx0 default_config tpl (bs "blog/post") []
               | _ => StrPanic end =
               StrErr (mkErr 3 (bs "$ROOT/templates/blog/post.tw.html") (bs "identifier 'user' not found"))) by (vm_compute; reflexivity).
  intros tpl Ht. rewrite Ht in Hr. exact Hr.
Qed.
