(* C10 - string literals are HTML-escaped on output; raw() is the exact opt-out. *)
From Coq Require Import String.
From TW Require Import Bytes Values Builtins Expr Escape.
Open Scope N_scope.

(* what the evaluator stores for a literal is the specification escaper's output *)
Theorem C10_model_escapes_like_spec s : eval_string_lit s = esc_spec s.
Proof. exact (eval_string_lit_is_esc_spec s). Qed.
Print Assumptions C10_model_escapes_like_spec.

Theorem C10_no_raw_angle_brackets s x : In x (esc_spec s) -> x <> 60 /\ x <> 62.
Proof. exact (esc_no_angle s x). Qed.
Print Assumptions C10_no_raw_angle_brackets.

Theorem C10_every_amp_is_an_entity s : amp_ok (esc_spec s) = true.
Proof. exact (esc_amp_entities s). Qed.
Print Assumptions C10_every_amp_is_an_entity.

Theorem C10_quotes_stay s : filter is_quote (esc_spec s) = filter is_quote s.
Proof. exact (esc_quotes_kept s). Qed.
Print Assumptions C10_quotes_stay.

Theorem C10_unescape_gives_back_literal s : unescape (esc_spec s) = Some s.
Proof. exact (unescape_esc s). Qed.
Print Assumptions C10_unescape_gives_back_literal.

(* raw() on the stored literal yields exactly the original text *)
Theorem C10_raw_is_exact_opt_out s :
  call_builtin (bs "raw") (VStr (eval_string_lit s)) [] = Some (BOk (VStr s)).
Proof.
  rewrite eval_string_lit_is_esc_spec.
  change (call_builtin (bs "raw") (VStr (esc_spec s)) [])
    with (Some (match unescape (esc_spec s) with Some t => BOk (VStr t) | None => BUnmodelled end)).
  rewrite unescape_esc. reflexivity.
Qed.
Print Assumptions C10_raw_is_exact_opt_out.

(* non-vacuity *)
Example C10_example : esc_spec (bs "<a href='x'>&amp;</a>") = bs "&lt;a href='x'&gt;&amp;amp;&lt;/a&gt;".
Proof. reflexivity. Qed.

(* ---- from the source bytes (Proofs/LiteralPipeline.v): for EVERY literal content s - any bytes but NUL,
   the quote character in use and the backslash; line feeds, the other quote, < > & and bytes that
   are not valid UTF-8 included - the template {{ "s" }} (either quote style) is lexed to {{, ONE string
   token whose literal is s, }}; parsed to one expression statement; and rendered as esc_spec s,
   whatever the data.  The theorems above say what esc_spec s is. *)
From TW Require Import GenToken Lexer Ast Parser Eval Render ExprSem LexSpell LexRound LiteralPipeline.

Theorem C10_string_literal_renders_escaped_from_source_bytes q s gd en :
  (q = 34 \/ q = 39) -> plain_lit q s = true -> env_from_map gd = EnvOk en ->
  exists t, lex_all (lit_source q s) = Some (place (lit_source q s) 0 (lit_items q s)) /\
            nth_error (place (lit_source q s) 0 (lit_items q s)) 1 = Some t /\ ttype t = T_STR /\ tlit t = s /\
            parse_source (lit_source q s) = ParsedOk (mkProgram [SExpr (EStr (eline t) s)] None [] [] []) /\
            evaluate_string cx0 (lit_source q s) gd = RenderOk (esc_spec s).
Proof. exact (string_literal_renders_escaped q s gd en). Qed.
Print Assumptions C10_string_literal_renders_escaped_from_source_bytes.

Example C10_from_source_example :
  lit_source 34 (bs "<a href='x'>&amp;</a>") = bs "{{ ""<a href='x'>&amp;</a>"" }}" /\
  plain_lit 34 (bs "<a href='x'>&amp;</a>") = true /\
  evaluate_string cx0 (bs "{{ ""<a href='x'>&amp;</a>"" }}") [] = RenderOk (bs "&lt;a href='x'&gt;&amp;amp;&lt;/a&gt;").
Proof. repeat split; vm_compute; reflexivity. Qed.
