(* C04 - variables are block scoped, type stable, and 'loop' is reserved. *)
From TW Require Import Bytes Values Ast Eval Scopes ScopesEval.

(* evaluating any statement changes at most the innermost frame of the scope chain:
   an assignment inside a nested block never changes what the enclosing blocks see *)
Theorem C04_statement_touches_innermost_scope_only cx f en s v en' :
  en <> [] -> eval_stmt cx f en s = Ok (v, en') -> tl en' = tl en.
Proof. exact (stmt_changes_innermost_frame_only cx f en s v en'). Qed.
Print Assumptions C04_statement_touches_innermost_scope_only.

(* a whole @if ... @elseif ... @else ... @end leaves the scope chain exactly as it was *)
Theorem C04_if_leaves_scope_unchanged cx f en ln c thn alts alt v en' :
  en <> [] -> eval_stmt cx f en (SIf ln c thn alts alt) = Ok (v, en') -> en' = en.
Proof. exact (if_leaves_scope_unchanged cx f en ln c thn alts alt v en'). Qed.
Print Assumptions C04_if_leaves_scope_unchanged.

(* the type of every visible name is stable under any sequence of successful assignments *)
Theorem C04_types_stable ops e e' k old :
  e <> [] -> env_get e k = Some old -> set_all e ops = Some e' ->
  exists now, env_get e' k = Some now /\ same_type old now = true.
Proof. exact (types_stable_under_assignments ops e e' k old). Qed.
Print Assumptions C04_types_stable.

Theorem C04_loop_reserved e v ops e' : set_all e ((str_loop, v) :: ops) = Some e' -> False.
Proof. exact (loop_never_assignable e v ops e'). Qed.
Print Assumptions C04_loop_reserved.

Theorem C04_assignment_binds e k v e' : e <> [] -> env_set e k v = inl e' -> env_get e' k = Some v.
Proof. exact (env_set_get_same e k v e'). Qed.
Print Assumptions C04_assignment_binds.

(* ---- with the refinement theorem the scope chain of the model after any statement IS the scope
   chain of the specification (assignment binds in the innermost block, one child scope per @if /
   loop, discarded at @end; a visible name keeps its type; 'loop' is reserved): part of Rs. *)
From TW Require Import Expr Template ExprSem CleanValues TemplateRefine.

Theorem C04_scopes_of_model_and_specification_agree fs sc n out sig sc' :
  env_clean sc = true -> node_ok n ->
  run_node model_call_spec fs sc n = TOk out sig sc' ->
  exists K, forall fm, (K <= fm)%nat -> exists v, eval_stmt cx0 fm sc (cnode n) = Ok (v, sc').
Proof.
  intros Hc Hok Hr. destruct (statement_refines_specification fs sc n Hc Hok) as [K H].
  exists K. intros fm Hfm. specialize (H fm Hfm). rewrite Hr in H.
  destruct H as (v & He & _). exists v. exact He.
Qed.
Print Assumptions C04_scopes_of_model_and_specification_agree.

Theorem C04_assignment_is_the_specifications sc x v :
  match assign sc x v with
  | Some sc' => env_set sc x v = inl sc'
  | None => exists msg, env_set sc x v = inr msg
  end.
Proof. exact (assign_is_env_set sc x v). Qed.
Print Assumptions C04_assignment_is_the_specifications.

(* ---- from the token stream: the tokens of a template with assignments at any nesting position are
   parsed to the tree TemplateRefine.v is about, whose scope chain the specification prescribes *)
From Coq Require Import String Lia.
From TW Require Import GenToken Lexer Parser Pratt StmtParse TemplatePipeline.

Theorem C04_from_tokens_to_scopes ss ns eof fs (data : list (bytes * value)) :
  wf_ss ss -> Dens ss ns -> ttype eof = T_EOF ->
  forallb (fun kv : bytes * value => clean (snd kv)) data = true -> nodes_ok ns ->
  parse_tokens (flats ss ++ [eof]) = ParsedOk (mkProgram (map cnode ns) None [] [] []) /\
  exists K, forall fm, (K <= fm)%nat ->
    match run_nodes model_call_spec fs [data] ns with
    | TOk out SigNormal _ => exists en', eval_program cx0 fm [data] (map cnode ns) [] = Ok (out, en')
    | TOk _ _ _ => True
    | TFail => exists ln msg, eval_program cx0 fm [data] (map cnode ns) [] = Fail ln msg
    | TNoFuel | TUnprintable => True
    end.
Proof. exact (template_tokens_render ss ns eof fs data). Qed.
Print Assumptions C04_from_tokens_to_scopes.

(* non-vacuity: an assignment inside @if does not change what the template sees afterwards, and the
   name it introduced is gone (reading it fails the render) *)
Example C04_lexed_assignments_scope :
  let ns := [NAssign (bs "x") (XInt 1);
             NIf (XBool true) [NAssign (bs "x") (XInt 2); NAssign (bs "y") (XInt 5); NPrint (XVar (bs "y"))] [] None;
             NPrint (XVar (bs "x"))]%string in
  exists ss eof,
    lex_all (bs "{{ x = 1 }}@if(true){{ x = 2 }}{{ y = 5 }}{{ y }}@end{{ x }}"%string) = Some (flats ss ++ [eof]) /\
    ttype eof = T_EOF /\ wf_ss ss /\ Dens ss ns /\ nodes_ok ns /\
    run_nodes model_call_spec 20 [[]] ns = TOk (bs "51"%string) SigNormal [[(bs "x"%string, VInt 1)]] /\
    run_nodes model_call_spec 20 [[]] (ns ++ [NPrint (XVar (bs "y"%string))]) = TFail.
Proof.
  intro ns.
  destruct (lex_all (bs "{{ x = 1 }}@if(true){{ x = 2 }}{{ y = 5 }}{{ y }}@end{{ x }}"%string)) as [ts|] eqn:E; [|vm_compute in E; discriminate E].
  vm_compute in E. injection E as <-.
  match goal with |- exists ss eof, Some (?l1 :: ?x1 :: ?e1 :: ?one :: ?r1 :: ?kw :: ?lp :: ?tr :: ?rp ::
                                         ?l2 :: ?x2 :: ?e2 :: ?two :: ?r2 :: ?l3 :: ?y3 :: ?e3 :: ?five :: ?r3 ::
                                         ?l4 :: ?y4 :: ?r4 :: ?en :: ?l5 :: ?x5 :: ?r5 :: ?eoft :: nil) = _ /\ _ =>
    exists [TAssign l1 x1 e1 (CAtom one); TClose r1;
            TIf kw lp rp en (CAtom tr)
                [TAssign l2 x2 e2 (CAtom two); TClose r2; TAssign l3 y3 e3 (CAtom five); TClose r3; TCode l4 r4 (CAtom y4)] [] None;
            TCode l5 r5 (CAtom x5)], eoft
  end.
  split; [reflexivity|]. split; [reflexivity|].
  split.
  { cbn [wf_ss wf_s wf wf_list_with llev rlev]. unfold tprec, INF. cbn [ttype].
    repeat split; try reflexivity; try discriminate; try (vm_compute; lia). }
  split.
  { subst ns.
    apply DsCons; [apply DAssign'; [reflexivity|reflexivity|cbn; repeat split]|]. apply DsClose.
    apply DsCons; [|apply DsCons; [apply DCode; cbn; repeat split|apply DsNil]].
    apply DIf.
    - reflexivity.
    - cbn. repeat split.
    - apply DsCons; [apply DAssign'; [reflexivity|reflexivity|cbn; repeat split]|]. apply DsClose.
      apply DsCons; [apply DAssign'; [reflexivity|reflexivity|cbn; repeat split]|]. apply DsClose.
      apply DsCons; [apply DCode; cbn; repeat split|apply DsNil].
    - apply DeNil.
    - apply DlNone. }
  split; [subst ns; cbn; repeat split; lia|].
  split; vm_compute; reflexivity.
Qed.

(* ---- from the source BYTES: a source that spells a checked list of items (Proofs/LexRound.v) whose
   tokens are those of ss, where ss spells the specification template ns, is lexed to those tokens,
   parsed to the program of ns and rendered by the model of EvaluateString as the specification says *)
From TW Require Import Render LexRound.

Theorem C04_from_source_bytes_to_output its ss ns eof fs gd (data : list (bytes * value)) :
  source_ok its = true -> place (spell its) 0 its = flats ss ++ [eof] -> wf_ss ss -> Dens ss ns ->
  env_from_map gd = EnvOk [data] ->
  forallb (fun kv : bytes * value => clean (snd kv)) data = true -> nodes_ok ns ->
  lex_all (spell its) = Some (flats ss ++ [eof]) /\
  parse_source (spell its) = ParsedOk (mkProgram (map cnode ns) None [] [] []) /\
  exists K, (K <= eval_fuel)%nat ->
    match run_nodes model_call_spec fs [data] ns with
    | TOk out SigNormal _ => evaluate_string cx0 (spell its) gd = RenderOk out
    | TOk _ _ _ => True
    | TFail => exists ln msg, evaluate_string cx0 (spell its) gd = RenderErr ln msg
    | TNoFuel | TUnprintable => True
    end.
Proof. exact (source_renders its ss ns eof fs gd data). Qed.
Print Assumptions C04_from_source_bytes_to_output.

Example C04_source_in_the_domain_and_rendered :
  in_domain (bs "{{ x = 1 }}@if(true){{ x = 2 }}{{ y = 5 }}{{ y }}@end{{ x }}"%string) = true /\
  evaluate_string cx0 (bs "{{ x = 1 }}@if(true){{ x = 2 }}{{ y = 5 }}{{ y }}@end{{ x }}"%string) [] = RenderOk (bs "51"%string).
Proof. split; vm_compute; reflexivity. Qed.

(* ---- the same on the specification (Proofs/SpecScopes.v): whatever a list of statements does, it
   leaves every scope but the innermost as it was; a nested block leaves the whole chain as it was *)
From TW Require Import SpecMono ReserveSplice SpecScopes.

Theorem C04_specification_writes_the_innermost_scope_only f sc ns o s sc' :
  sc <> [] -> run_nodes model_call_spec f sc ns = TOk o s sc' -> tl sc' = tl sc /\ sc' <> [].
Proof. intros Hne H. pose proof (proj1 (spec_scopes f) sc ns Hne) as K. rewrite H in K. exact K. Qed.

Theorem C04_specification_block_restores_the_scopes f sc ns o s sc' :
  sc <> [] -> run_block model_call_spec f sc ns = TOk o s sc' -> sc' = sc.
Proof. intros Hne H. pose proof (proj1 (proj2 (spec_scopes f)) sc ns Hne) as K. rewrite H in K. exact K. Qed.

(* ---- "every variable supplied in the data map is visible everywhere unless shadowed" (Proofs/DataVisible.v):
   for every data map EnvFromMap accepts (distinct keys, any presentation order) each entry is bound in the one
   root scope to the conversion of its Go value; a name is read through any nesting of scopes that do not bind
   it, the nearest binding wins otherwise, and whatever is assigned in a nested scope is gone with that scope *)
From TW Require Import DataVisible.

Theorem C04_data_map_binds_every_entry (data : list (bytes * goval)) root :
  NoDup (map fst data) -> env_from_map data = EnvOk root ->
  (exists fr, root = [fr]) /\
  (forall k g, In (k, g) data -> exists v, to_object g = Some v /\ env_get root k = Some v) /\
  (forall k, ~ In k (map fst data) -> env_get root k = None).
Proof. exact (data_map_binds_every_entry data root). Qed.
Print Assumptions C04_data_map_binds_every_entry.

Theorem C04_visible_through_scopes_that_do_not_bind_it (frs : list (list (bytes * value))) (en : env) k :
  Forall (fun fr => alookup k fr = None) frs -> env_get (frs ++ en) k = env_get en k.
Proof. exact (visible_under_unshadowing_frames frs en k). Qed.
Print Assumptions C04_visible_through_scopes_that_do_not_bind_it.

Theorem C04_nearest_binding_shadows (frs : list (list (bytes * value))) fr (en : env) k v :
  Forall (fun fr => alookup k fr = None) frs -> alookup k fr = Some v -> env_get (frs ++ fr :: en) k = Some v.
Proof. exact (shadowed_by_nearest_frame frs fr en k v). Qed.
Print Assumptions C04_nearest_binding_shadows.

Theorem C04_data_entry_read_everywhere (data : list (bytes * goval)) root frs ops e' k g :
  NoDup (map fst data) -> env_from_map data = EnvOk root -> In (k, g) data ->
  Forall (fun fr => alookup k fr = None) frs ->
  set_all ([] :: frs ++ root) ops = Some e' ->
  exists v, to_object g = Some v /\ env_get (tl e') k = Some v.
Proof. exact (data_entry_read_everywhere data root frs ops e' k g). Qed.
Print Assumptions C04_data_entry_read_everywhere.

(* ---- the loops: a whole @for ... @end / @each ... @end leaves the scope chain exactly as it was - header clauses,
   passes and the @else branch write the loop's own frame only, also when the @for has no init clause *)
Theorem C04_for_leaves_scope_unchanged cx f en ln init c post body alt v en' :
  en <> [] -> eval_stmt cx f en (SFor ln init c post body alt) = Ok (v, en') -> en' = en.
Proof. exact (for_leaves_scope_unchanged cx f en ln init c post body alt v en'). Qed.
Print Assumptions C04_for_leaves_scope_unchanged.

Theorem C04_each_leaves_scope_unchanged cx f en ln var arr body alt v en' :
  en <> [] -> eval_stmt cx f en (SEach ln var arr body alt) = Ok (v, en') -> en' = en.
Proof. exact (each_leaves_scope_unchanged cx f en ln var arr body alt v en'). Qed.
Print Assumptions C04_each_leaves_scope_unchanged.
