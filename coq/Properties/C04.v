(* C04 - variables are block scoped, type stable, and 'loop' is reserved. *)
From TW Require Import Bytes Values Ast Eval Scopes ScopesEval.

(* evaluating any statement changes at most the innermost frame of the scope chain:
   an assignment inside a nested block never changes what the enclosing blocks see *)
Theorem C04_statement_touches_innermost_scope_only cx f en s v en' :
  en <> [] -> eval_stmt cx f en s = Ok (v, en') -> tl en' = tl en.
Proof. exact (stmt_changes_innermost_frame_only cx f en s v en'). Qed.
Print Assumptions C04_statement_touches_innermost_scope_only.

(* a whole @if ... @elseif ... @else ... @end leaves the scope chain exactly as it was *)
Theorem C04_if_leaves_scope_unchanged cx f en ln c thn alts alt v en' :
  en <> [] -> eval_stmt cx f en (SIf ln c thn alts alt) = Ok (v, en') -> en' = en.
Proof. exact (if_leaves_scope_unchanged cx f en ln c thn alts alt v en'). Qed.
Print Assumptions C04_if_leaves_scope_unchanged.

(* the type of every visible name is stable under any sequence of successful assignments *)
Theorem C04_types_stable ops e e' k old :
  e <> [] -> env_get e k = Some old -> set_all e ops = Some e' ->
  exists now, env_get e' k = Some now /\ same_type old now = true.
Proof. exact (types_stable_under_assignments ops e e' k old). Qed.
Print Assumptions C04_types_stable.

Theorem C04_loop_reserved e v ops e' : set_all e ((str_loop, v) :: ops) = Some e' -> False.
Proof. exact (loop_never_assignable e v ops e'). Qed.
Print Assumptions C04_loop_reserved.

Theorem C04_assignment_binds e k v e' : e <> [] -> env_set e k v = inl e' -> env_get e' k = Some v.
Proof. exact (env_set_get_same e k v e'). Qed.
Print Assumptions C04_assignment_binds.

(* ---- with the refinement theorem the scope chain of the model after any statement IS the scope
   chain of the specification (assignment binds in the innermost block, one child scope per @if /
   loop, discarded at @end; a visible name keeps its type; 'loop' is reserved): part of Rs. *)
From TW Require Import Expr Template ExprSem CleanValues TemplateRefine.

Theorem C04_scopes_of_model_and_specification_agree fs sc n out sig sc' :
  env_clean sc = true -> node_ok n ->
  run_node model_call_spec fs sc n = TOk out sig sc' ->
  exists K, forall fm, (K <= fm)%nat -> exists v, eval_stmt cx0 fm sc (cnode n) = Ok (v, sc').
Proof.
  intros Hc Hok Hr. destruct (statement_refines_specification fs sc n Hc Hok) as [K H].
  exists K. intros fm Hfm. specialize (H fm Hfm). rewrite Hr in H.
  destruct H as (v & He & _). exists v. exact He.
Qed.
Print Assumptions C04_scopes_of_model_and_specification_agree.

Theorem C04_assignment_is_the_specifications sc x v :
  match assign sc x v with
  | Some sc' => env_set sc x v = inl sc'
  | None => exists msg, env_set sc x v = inr msg
  end.
Proof. exact (assign_is_env_set sc x v). Qed.
Print Assumptions C04_assignment_is_the_specifications.
