(* Bytes, byte strings and a few list utilities shared by every layer.
   A byte is an N (inputs are built from bytes < 256); a Go string is a list of bytes. *)
From Coq Require Export List NArith ZArith Bool Lia.
From Coq Require Import String Ascii.
Export ListNotations.
Open Scope N_scope.

Definition byte := N.
Definition bytes := list N.

Definition bs (s : String.string) : bytes :=
  map N_of_ascii (list_ascii_of_string s).
Arguments bs s%string.

Fixpoint bytes_eqb (a b : bytes) : bool :=
  match a, b with
  | [], [] => true
  | x :: a', y :: b' => (x =? y) && bytes_eqb a' b'
  | _, _ => false
  end.

Lemma bytes_eqb_eq a b : bytes_eqb a b = true <-> a = b.
Proof.
  revert b; induction a as [|x a IH]; intros [|y b]; simpl; split; intro H;
    try reflexivity; try discriminate.
  - apply andb_true_iff in H as [H1 H2]. apply N.eqb_eq in H1. apply IH in H2. congruence.
  - inversion H; subst. rewrite N.eqb_refl. simpl. apply IH. reflexivity.
Qed.

Lemma bytes_eqb_refl a : bytes_eqb a a = true.
Proof. apply bytes_eqb_eq. reflexivity. Qed.

(* p is a prefix of s *)
Fixpoint prefixb (p s : bytes) : bool :=
  match p, s with
  | [], _ => true
  | x :: p', y :: s' => (x =? y) && prefixb p' s'
  | _ :: _, [] => false
  end.

Lemma prefixb_app p s : prefixb p (p ++ s) = true.
Proof. induction p as [|x p IH]; simpl; [reflexivity|]. rewrite N.eqb_refl. exact IH. Qed.

Lemma prefixb_spec p s : prefixb p s = true <-> exists t, s = p ++ t.
Proof.
  revert s; induction p as [|x p IH]; intros s; simpl.
  - split; [intros _; exists s; reflexivity | reflexivity].
  - destruct s as [|y s].
    + split; [discriminate | intros [t Ht]; discriminate].
    + rewrite andb_true_iff, N.eqb_eq, IH. split.
      * intros [-> [t ->]]. exists t. reflexivity.
      * intros [t Ht]. inversion Ht; subst. split; [reflexivity | exists t; reflexivity].
Qed.

(* association lists keyed by byte strings *)
Fixpoint alookup {A} (k : bytes) (m : list (bytes * A)) : option A :=
  match m with
  | [] => None
  | (k', v) :: m' => if bytes_eqb k k' then Some v else alookup k m'
  end.

Fixpoint aremove {A} (k : bytes) (m : list (bytes * A)) : list (bytes * A) :=
  match m with
  | [] => []
  | (k', v) :: m' => if bytes_eqb k k' then aremove k m' else (k', v) :: aremove k m'
  end.

(* Go map assignment m[k] = v: replace in place when present, else append *)
Fixpoint aset {A} (k : bytes) (v : A) (m : list (bytes * A)) : list (bytes * A) :=
  match m with
  | [] => [(k, v)]
  | (k', v') :: m' => if bytes_eqb k k' then (k, v) :: m' else (k', v') :: aset k v m'
  end.

(* lexicographic order on byte strings = Go's string order *)
Fixpoint bytes_ltb (a b : bytes) : bool :=
  match a, b with
  | [], [] => false
  | [], _ :: _ => true
  | _ :: _, [] => false
  | x :: a', y :: b' => (x <? y) || ((x =? y) && bytes_ltb a' b')
  end.

Definition bytes_leb (a b : bytes) : bool := negb (bytes_ltb b a).

(* insertion sort of an association list by key (Go: sort.Strings(keys)) *)
Fixpoint ainsert {A} (kv : bytes * A) (m : list (bytes * A)) : list (bytes * A) :=
  match m with
  | [] => [kv]
  | kv' :: m' => if bytes_leb (fst kv) (fst kv') then kv :: kv' :: m' else kv' :: ainsert kv m'
  end.

Definition asort {A} (m : list (bytes * A)) : list (bytes * A) :=
  fold_right ainsert [] m.

Fixpoint replace_all_fuel (fuel : nat) (old new s : bytes) : bytes :=
  match fuel with
  | O => s
  | S fuel' =>
    match s with
    | [] => []
    | c :: s' =>
      if prefixb old s
      then new ++ replace_all_fuel fuel' old new (skipn (List.length old) s)
      else c :: replace_all_fuel fuel' old new s'
    end
  end.

(* strings.ReplaceAll for a non-empty old *)
Definition replace_all (old new s : bytes) : bytes :=
  replace_all_fuel (S (List.length s)) old new s.

Fixpoint containsb (sub s : bytes) : bool :=
  prefixb sub s ||
  match s with
  | [] => false
  | _ :: s' => containsb sub s'
  end.

Definition nat_of_digit (c : N) : N := c - 48.

(* decimal rendering of a natural number / integer (strconv.Itoa) *)
Fixpoint digits_fuel (fuel : nat) (n : N) (acc : bytes) : bytes :=
  match fuel with
  | O => acc
  | S f =>
    let d := (48 + n mod 10) in
    if n <? 10 then d :: acc else digits_fuel f (n / 10) (d :: acc)
  end.

Definition N_to_dec (n : N) : bytes := digits_fuel (S (N.to_nat (N.log2 n))) n [].

Definition Z_to_dec (z : Z) : bytes :=
  match z with
  | Z0 => [48]
  | Zpos p => N_to_dec (Npos p)
  | Zneg p => 45 :: N_to_dec (Npos p)
  end.

Definition nat_to_dec (n : nat) : bytes := N_to_dec (N.of_nat n).

(* ---------- fmt.Sprintf for the verbs used in fail.go *)
Definition fmt_verb (c : N) : bool := (c =? 115) || (c =? 100) || (c =? 84) || (c =? 118).

Fixpoint fmtb (t : bytes) (args : list bytes) : bytes :=
  match t with
  | [] => []
  | c0 :: t0 =>
    if c0 =? 37 then
      match t0 with
      | c :: t' =>
        if fmt_verb c then
          match args with
          | a :: args' => a ++ fmtb t' args'
          | [] => 37 :: fmtb t0 args
          end
        else 37 :: fmtb t0 args
      | [] => [37]
      end
    else c0 :: fmtb t0 args
  end.

Definition fmt (t : String.string) (args : list bytes) : bytes := fmtb (bs t) args.
Arguments fmt t%string args.

