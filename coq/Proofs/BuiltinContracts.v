(* C11: the model of every built-in (Model/Builtins.v, mirror of evaluator/*_func.go) agrees
   with the contract written from the property text (Spec/BuiltinSpec.v): same value where the
   contract gives one, an error (or no such function) where the contract says error.  Plus facts
   about the contracts themselves. *)
From Coq Require Import String Lia.
From TW Require Import Bytes Floats Values Builtins GenMisc Expr BuiltinSpec.
Open Scope N_scope.

(* what it means for the model's answer to meet the contract's *)
Definition agrees (r : option bres) (s : sres) : Prop :=
  match s with
  | SUnspec => True
  | SVal v => r = Some (BOk v)
  | SErr => match r with Some (BErr _) | None => True | _ => False end
  end.

Ltac name_case f s :=
  let E := fresh "E" in
  destruct (bytes_eqb f (bs s)) eqn:E; [apply bytes_eqb_eq in E; subst f|].

(* ---------- small equalities between the model's helpers and the contract's *)
Lemma trim_left_is_drop_while cut s : trim_left cut s = drop_while (in_set cut) s.
Proof. induction s as [|c s IH]; cbn; [reflexivity|]. unfold inset, in_set. destruct (existsb _ cut); [exact IH|reflexivity]. Qed.

Lemma repeat_bytes_is_concat n s : repeat_bytes n s = concat (repeat s n).
Proof. induction n as [|n IH]; cbn; [reflexivity|]. rewrite IH. reflexivity. Qed.

Lemma repeat_bytes_zeros n : repeat_bytes n [48] = zeros n.
Proof. induction n as [|n IH]; cbn; [reflexivity|]. rewrite IH. reflexivity. Qed.

Lemma upper_is_ascii_up c : upper_byte c = ascii_up c.
Proof. reflexivity. Qed.

Lemma lower_is_ascii_low c : lower_byte c = ascii_low c.
Proof. reflexivity. Qed.

(* ---------- arrays *)
Lemma clamp_same n s : (0 <= n)%Z -> clampZ 0 n s = clamp0 n s.
Proof. intro H. unfold clampZ, clamp0. destruct (s <? 0)%Z eqn:A; destruct (n <? s)%Z eqn:B; lia. Qed.

Definition slice_e1 (n e : Z) : Z := if (e <? 0)%Z || (n <? e)%Z then n else e.

Lemma slice_end_empty n s e :
  (0 <= n)%Z -> (slice_e1 n e <=? clamp0 n s)%Z = true ->
  Z.to_nat ((if (slice_e1 n e <? clamp0 n s)%Z then clamp0 n s else slice_e1 n e) - clamp0 n s) = 0%nat.
Proof. intros H L. destruct (slice_e1 n e <? clamp0 n s)%Z eqn:A; lia. Qed.

Lemma slice_end_keep n s e :
  (slice_e1 n e <=? clamp0 n s)%Z = false ->
  (if (slice_e1 n e <? clamp0 n s)%Z then clamp0 n s else slice_e1 n e) = slice_e1 n e.
Proof. intros L. destruct (slice_e1 n e <? clamp0 n s)%Z eqn:A; lia. Qed.

Lemma arr_agrees fn l args : agrees (builtin_arr fn l args) (spec_arr fn l args).
Proof.
  name_case fn "len"%string; [reflexivity|].
  name_case fn "reverse"%string; [reflexivity|].
  name_case fn "append"%string; [destruct args; [exact I|reflexivity]|].
  name_case fn "prepend"%string; [destruct args; [exact I|reflexivity]|].
  name_case fn "contains"%string; [destruct args; [exact I|reflexivity]|].
  name_case fn "slice"%string.
  { unfold builtin_arr, spec_arr. cbn [bytes_eqb bs].
    change (bytes_eqb (bs "slice") (bs "len")) with false.
    change (bytes_eqb (bs "slice") (bs "join")) with false.
    change (bytes_eqb (bs "slice") (bs "rand")) with false.
    change (bytes_eqb (bs "slice") (bs "reverse")) with false.
    change (bytes_eqb (bs "slice") (bs "slice")) with true.
    change (bytes_eqb (bs "slice") (bs "append")) with false.
    change (bytes_eqb (bs "slice") (bs "prepend")) with false.
    change (bytes_eqb (bs "slice") (bs "contains")) with false.
    cbv beta iota.
    destruct args as [|a rest]; [exact I|].
    destruct a; try exact I.
    assert (Hn : (0 <= Z.of_nat (List.length l))%Z) by lia.
    unfold nlen. rewrite (clamp_same _ z Hn).
    destruct rest as [|b rest]; [reflexivity|].
    destruct b; try exact I.
    fold (slice_e1 (Z.of_nat (List.length l)) z0).
    destruct (slice_e1 (Z.of_nat (List.length l)) z0 <=? clamp0 (Z.of_nat (List.length l)) z)%Z eqn:Hle; cbn [agrees].
    + rewrite (slice_end_empty _ z z0 Hn Hle). reflexivity.
    + rewrite (slice_end_keep _ z z0 Hle). reflexivity. }
  name_case fn "join"%string.
  { unfold builtin_arr, spec_arr, str_arg0.
    change (bytes_eqb (bs "join") (bs "len")) with false.
    change (bytes_eqb (bs "join") (bs "join")) with true.
    change (bytes_eqb (bs "join") (bs "reverse")) with false.
    change (bytes_eqb (bs "join") (bs "append")) with false.
    change (bytes_eqb (bs "join") (bs "prepend")) with false.
    change (bytes_eqb (bs "join") (bs "contains")) with false.
    change (bytes_eqb (bs "join") (bs "slice")) with false.
    cbv beta iota.
    destruct args as [|a rest].
    - destruct (all_some (map value_string l)); [reflexivity|exact I].
    - destruct a; try exact I. destruct (all_some (map value_string l)); [reflexivity|exact I]. }
  name_case fn "shuffle"%string; [destruct l as [|x [|y l]]; try reflexivity; exact I|].
  name_case fn "rand"%string; [reflexivity|].
  (* any other name: the contract says error and the model has no such function *)
  unfold builtin_arr, spec_arr. rewrite E, E0, E1, E2, E3, E4, E5, E6, E7. exact I.
Qed.

(* ---------- booleans, floats *)
Lemma bool_agrees fn b args : agrees (builtin_bool fn b args) (spec_bool fn b args).
Proof.
  name_case fn "binary"%string; [reflexivity|].
  name_case fn "then"%string.
  { destruct args as [|a [|c rest]]; [exact I| |]; destruct b; reflexivity. }
  unfold builtin_bool, spec_bool. rewrite E, E0. exact I.
Qed.

Lemma float_agrees fn x args : agrees (builtin_float fn x args) (spec_float fn x args).
Proof.
  name_case fn "abs"%string; [reflexivity|].
  name_case fn "int"%string; [reflexivity|].
  name_case fn "ceil"%string; [reflexivity|].
  name_case fn "floor"%string; [reflexivity|].
  name_case fn "round"%string; [reflexivity|].
  name_case fn "str"%string.
  { unfold builtin_float, spec_float.
    change (bytes_eqb (bs "str") (bs "int")) with false. change (bytes_eqb (bs "str") (bs "str")) with true.
    change (bytes_eqb (bs "str") (bs "abs")) with false. change (bytes_eqb (bs "str") (bs "ceil")) with false.
    change (bytes_eqb (bs "str") (bs "floor")) with false. change (bytes_eqb (bs "str") (bs "round")) with false.
    cbv beta iota. destruct (f_format x); [reflexivity|exact I]. }
  unfold builtin_float, spec_float. rewrite E, E0, E1, E2, E3, E4. exact I.
Qed.

(* ---------- decimal (strings and integers) *)
Ltac eval_names :=
  repeat match goal with
         | |- context [bytes_eqb (bs ?a) (bs ?b)] =>
           let v := eval vm_compute in (bytes_eqb (bs a) (bs b)) in
           change (bytes_eqb (bs a) (bs b)) with v
         end;
  cbn [orb andb negb]; cbv beta iota.

Lemma max_repeat_ge_1000 : (1000 <=? maxRepeatLen) = true.
Proof. vm_compute. reflexivity. Qed.

Lemma zeros_not_too_long d : (0 < d)%Z -> (d <= 1000)%Z -> repeat_too_long [48] d = false.
Proof.
  intros H0 H1. unfold repeat_too_long. cbn [List.length]. change (N.of_nat 1) with 1%N.
  rewrite N.div_1_r. apply N.ltb_ge.
  pose proof max_repeat_ge_1000 as M. apply N.leb_le in M. lia.
Qed.

Lemma decimal_agrees val ty args :
  agrees (Some (addDecimals val ty args)) (spec_str (bs "decimal") val args).
Proof.
  unfold spec_str. eval_names. unfold addDecimals, looks_int.
  destruct args as [|a [|b [|c rest]]]; cbn [List.length Nat.ltb Nat.leb].
  - destruct (negb (str_is_int val)); reflexivity.
  - destruct a; try exact I. destruct (negb (str_is_int val)); reflexivity.
  - destruct a; try exact I. destruct b; try exact I.
    destruct (negb (str_is_int val)); [reflexivity|].
    destruct (z <=? 0)%Z eqn:Hz; [reflexivity|].
    destruct (1000 <? z)%Z eqn:Hk; [exact I|].
    rewrite zeros_not_too_long by lia.
    assert ((100000 <? z)%Z = false) as -> by lia.
    cbn [agrees]. rewrite repeat_bytes_zeros. reflexivity.
  - destruct a; try exact I. destruct b; exact I.
Qed.

Definition in_int64 (z : Z) : Prop := (- 2 ^ 63 <= z < 2 ^ 63)%Z.

Lemma wrap64_in_range z : in_int64 z -> wrap64 z = z.
Proof.
  unfold in_int64, wrap64. intro H.
  rewrite Z.mod_small by lia. lia.
Qed.

(* integers: for every int64 receiver *)
Lemma int_agrees fn z args : in_int64 z -> agrees (builtin_int fn z args) (spec_int fn z args).
Proof.
  intro Hr.
  name_case fn "abs"%string.
  { unfold builtin_int, spec_int. eval_names. cbn [agrees]. do 3 f_equal.
    destruct (z <? 0)%Z eqn:Hz.
    - rewrite Z.abs_neq by lia. reflexivity.
    - rewrite Z.abs_eq by lia. symmetry. apply wrap64_in_range, Hr. }
  name_case fn "str"%string; [reflexivity|].
  name_case fn "float"%string; [reflexivity|].
  name_case fn "len"%string; [reflexivity|].
  name_case fn "decimal"%string.
  { unfold builtin_int, spec_int. eval_names. apply decimal_agrees. }
  unfold builtin_int, spec_int. rewrite E, E0, E1, E2, E3. exact I.
Qed.

(* ---------- strings *)
Lemma str_at_agrees val i :
  agrees (Some (str_at val [VInt i]))
         (let cs := chars_of val in
          let j := if (i <? 0)%Z then (nlen cs + i)%Z else i in
          if (j <? 0)%Z || (nlen cs <=? j)%Z then SVal VNil
          else SVal (VStr (of_chars [nth (Z.to_nat j) cs 0]))).
Proof.
  unfold str_at, chars_of, nlen, of_chars, encode_runes. cbv zeta.
  set (n := Z.of_nat (List.length (runes val))).
  assert (Hn : (0 <= n)%Z) by (subst n; lia).
  destruct (n =? 0)%Z eqn:Hz.
  - assert (((if (i <? 0)%Z then (n + i)%Z else i) <? 0)%Z || (n <=? (if (i <? 0)%Z then (n + i)%Z else i))%Z = true) as ->.
    { destruct (i <? 0)%Z eqn:Hi; apply orb_true_iff; lia. }
    reflexivity.
  - destruct (((if (i <? 0)%Z then (n + i)%Z else i) <? 0)%Z || (n <=? (if (i <? 0)%Z then (n + i)%Z else i))%Z); [reflexivity|].
    cbn [agrees map concat]. rewrite app_nil_r. reflexivity.
Qed.

Lemma str_agrees fn s args : agrees (builtin_str fn s args) (spec_str fn s args).
Proof.
  name_case fn "len"%string; [reflexivity|].
  name_case fn "reverse"%string; [reflexivity|].
  name_case fn "at"%string.
  { unfold builtin_str, spec_str. eval_names.
    destruct args as [|a rest].
    - apply (str_at_agrees s 0).
    - destruct a; try exact I. apply (str_at_agrees s z). }
  name_case fn "first"%string.
  { unfold builtin_str, spec_str. eval_names. apply (str_at_agrees s 0). }
  name_case fn "last"%string.
  { unfold builtin_str, spec_str. eval_names. apply (str_at_agrees s (-1)). }
  name_case fn "truncate"%string.
  { unfold builtin_str, spec_str. eval_names. unfold chars_of, nlen, of_chars.
    destruct args as [|a rest]; [exact I|]. destruct a; try exact I.
    assert (Hm : (if (z <? 0)%Z then 0%Z else z) = Z.max 0 z) by (destruct (z <? 0)%Z eqn:Hz; lia).
    rewrite Hm.
    destruct (Z.of_nat (List.length (runes s)) <=? Z.max 0 z)%Z; [reflexivity|].
    destruct rest as [|e rest]; [reflexivity|]. destruct e; try exact I. reflexivity. }
  name_case fn "capitalize"%string.
  { unfold builtin_str, spec_str. eval_names. destruct s as [|c r]; [reflexivity|].
    destruct (c <? 128); [reflexivity|exact I]. }
  name_case fn "upper"%string.
  { unfold builtin_str, spec_str. eval_names. destruct (is_ascii s); [reflexivity|exact I]. }
  name_case fn "lower"%string.
  { unfold builtin_str, spec_str. eval_names. destruct (is_ascii s); [reflexivity|exact I]. }
  name_case fn "contains"%string.
  { unfold builtin_str, spec_str. eval_names. destruct args as [|a rest]; [exact I|]. destruct a; try exact I. reflexivity. }
  name_case fn "trim"%string.
  { unfold builtin_str, spec_str, str_arg0. eval_names.
    destruct args as [|a rest].
    - cbn [agrees]. unfold trim_right. rewrite !trim_left_is_drop_while. reflexivity.
    - destruct a; try exact I. destruct (negb (is_ascii s0)); [exact I|].
      cbn [agrees]. unfold trim_right. rewrite !trim_left_is_drop_while. reflexivity. }
  name_case fn "trimLeft"%string.
  { unfold builtin_str, spec_str, str_arg0. eval_names.
    destruct args as [|a rest].
    - cbn [agrees]. rewrite trim_left_is_drop_while. reflexivity.
    - destruct a; try exact I. destruct (negb (is_ascii s0)); [exact I|].
      cbn [agrees]. rewrite trim_left_is_drop_while. reflexivity. }
  name_case fn "trimRight"%string.
  { unfold builtin_str, spec_str, str_arg0. eval_names.
    destruct args as [|a rest].
    - cbn [agrees]. unfold trim_right. rewrite trim_left_is_drop_while. reflexivity.
    - destruct a; try exact I. destruct (negb (is_ascii s0)); [exact I|].
      cbn [agrees]. unfold trim_right. rewrite trim_left_is_drop_while. reflexivity. }
  name_case fn "repeat"%string.
  { unfold builtin_str, spec_str. eval_names.
    destruct args as [|a rest]; [exact I|]. destruct a; try exact I.
    destruct (z <=? 0)%Z eqn:Hz; [reflexivity|].
    destruct s as [|c r]; [reflexivity|].
    destruct (repeat_too_long (c :: r) z); [exact I|].
    destruct (1000 <? z)%Z eqn:Hk; [exact I|].
    assert ((100000 <? z)%Z = false) as -> by lia.
    cbn [agrees]. rewrite repeat_bytes_is_concat. reflexivity. }
  name_case fn "decimal"%string.
  { unfold builtin_str. eval_names. apply decimal_agrees. }
  name_case fn "split"%string.
  { unfold builtin_str, spec_str, str_arg0. eval_names.
    destruct args as [|a rest]; [reflexivity|]. destruct a; try exact I. reflexivity. }
  name_case fn "raw"%string.
  { unfold builtin_str, spec_str. eval_names. destruct (unescape s); [reflexivity|exact I]. }
  unfold builtin_str, spec_str.
  rewrite E, E0, E1, E2, E3, E4, E5, E6, E7, E8, E9, E10, E11, E12, E13, E14, E15. cbn [orb]. exact I.
Qed.

(* ---------- all receivers: the model's dispatch meets the contract *)
Definition ints_in_range (v : value) : Prop :=
  match v with VInt z => in_int64 z | _ => True end.

Theorem builtins_meet_contracts fn recv args :
  ints_in_range recv -> agrees (call_builtin fn recv args) (builtin_spec recv fn args).
Proof.
  intro Hr. destruct recv; cbn [call_builtin builtin_spec]; try exact I.
  - apply bool_agrees.
  - apply int_agrees, Hr.
  - apply float_agrees.
  - apply str_agrees.
  - apply arr_agrees.
Qed.

(* ---------- facts about the contracts *)
Lemma firstn_skipn_segment {A} (l : list A) i k :
  exists pre post, l = pre ++ firstn k (skipn i l) ++ post.
Proof.
  exists (firstn i l), (skipn k (skipn i l)).
  rewrite firstn_skipn. rewrite firstn_skipn. reflexivity.
Qed.

(* slice returns a contiguous segment of the receiver, for every pair of bounds *)
Theorem slice_is_a_segment l a b r :
  spec_arr (bs "slice") l [VInt a; VInt b] = SVal (VArr r) ->
  exists pre post, l = pre ++ r ++ post.
Proof.
  unfold spec_arr. eval_names.
  destruct ((if (b <? 0)%Z || (nlen l <? b)%Z then nlen l else b) <=? clamp0 (nlen l) a)%Z.
  - intros [= <-]. exists [], l. reflexivity.
  - intros [= <-]. apply firstn_skipn_segment.
Qed.

Theorem slice_from_is_a_suffix l a r :
  spec_arr (bs "slice") l [VInt a] = SVal (VArr r) -> exists pre, l = pre ++ r.
Proof.
  unfold spec_arr. eval_names. intros [= <-].
  exists (firstn (Z.to_nat (clamp0 (nlen l) a)) l). rewrite firstn_skipn. reflexivity.
Qed.

Theorem reverse_is_an_involution l r r2 :
  spec_arr (bs "reverse") l [] = SVal (VArr r) -> spec_arr (bs "reverse") r [] = SVal (VArr r2) -> r2 = l.
Proof. unfold spec_arr. eval_names. intros [= <-] [= <-]. apply rev_involutive. Qed.

Theorem append_extends l args r :
  spec_arr (bs "append") l args = SVal (VArr r) -> r = l ++ args /\ args <> [].
Proof. unfold spec_arr. eval_names. destruct args; [discriminate|]. intros [= <-]. split; [reflexivity|discriminate]. Qed.

Theorem prepend_extends l args r :
  spec_arr (bs "prepend") l args = SVal (VArr r) -> r = args ++ l /\ args <> [].
Proof. unfold spec_arr. eval_names. destruct args; [discriminate|]. intros [= <-]. split; [reflexivity|discriminate]. Qed.

Theorem len_counts_elements l : spec_arr (bs "len") l [] = SVal (VInt (Z.of_nat (List.length l))).
Proof. reflexivity. Qed.

Theorem str_len_counts_characters s : spec_str (bs "len") s [] = SVal (VInt (Z.of_nat (List.length (runes s)))).
Proof. reflexivity. Qed.

Theorem then_selects_by_truth b x y :
  spec_bool (bs "then") b [x; y] = SVal (if b then x else y) /\
  spec_bool (bs "then") b [x] = SVal (if b then x else VNil).
Proof. split; reflexivity. Qed.

(* ---------- a built-in name wins over a custom function of the same name:
   call_builtin is consulted first, the registry only when it answers None *)
From TW Require Import Ast Eval.

Theorem builtin_shadows_custom cx f en ln recv fname args rv avs r :
  eval_expr cx f en recv = Ok rv -> has_func_table rv = true ->
  eval_exprs cx f en args = Ok avs ->
  call_builtin fname rv avs = Some r ->
  eval_expr cx (S f) en (ECall ln recv fname args) =
  match r with BOk v => Ok v | BErr msg => Fail ln msg | BUnmodelled => Unmodelled end.
Proof.
  intros Hr Ht Ha Hb. cbn [eval_expr]. rewrite Hr. cbv beta iota. rewrite Ht. cbn [negb].
  rewrite Ha. cbv beta iota. rewrite Hb. reflexivity.
Qed.
