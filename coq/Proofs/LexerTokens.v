(* C19 / C13: EVERY token NextToken returns - text runs, strings, identifiers, numbers, directives,
   operators, braces, comments skipped on the way - carries exactly the (line, column) of the byte
   offsets where it starts and ends, the offsets never go backwards, and the lexer stays in a state
   whose counters are the position function.  Everything the lexer does to its position is
   readChar; the reading loops are iterated readChar. *)
From Coq Require Import String Lia.
From TW Require Import Bytes GenToken Lexer Positions LexerPos.
Open Scope N_scope.

(* l' is reached from l by reading characters (and switching modes / counters) within one token *)
Definition Adv (input : bytes) (l l' : lexer) : Prop :=
  Inv input l' /\ startLine l' = startLine l /\ startCol l' = startCol l /\ (lpos l <= lpos l')%nat.

Lemma adv_refl input l : Inv input l -> Adv input l l.
Proof. intro H. split; [exact H|]. repeat split; lia. Qed.

Lemma adv_trans input a b c : Adv input a b -> Adv input b c -> Adv input a c.
Proof. intros (_ & A1 & A2 & A3) (B0 & B1 & B2 & B3). split; [exact B0|]. repeat split; try congruence; lia. Qed.

Lemma adv_read input l : Inv input l -> Adv input l (readChar l).
Proof.
  intro H. destruct (readChar_inv input l H) as [H1 H2]. split; [exact H1|]. repeat split; try reflexivity; rewrite H2; lia.
Qed.

Lemma adv_read_strict input l : Inv input l -> (lpos l < lpos (readChar l))%nat.
Proof. intro H. destruct (readChar_inv input l H) as [_ H2]. lia. Qed.

Lemma adv_modes input l a b : Inv input l -> Adv input l (setModes l a b).
Proof. intro H. split; [exact H|]. repeat split; cbn; lia. Qed.

Lemma adv_counts input l a b : Inv input l -> Adv input l (setCounts l a b).
Proof. intro H. split; [exact H|]. repeat split; cbn; lia. Qed.

Lemma adv_inv input l l' : Adv input l l' -> Inv input l'.
Proof. intros (H & _). exact H. Qed.

Lemma adv_readN input n l : Inv input l -> Adv input l (readN n l) /\ lpos (readN n l) = (lpos l + n)%nat.
Proof.
  intro H. destruct (readN_inv input n l H) as (A & B & C & D). split; [|exact B].
  split; [exact A|]. repeat split; try assumption. lia.
Qed.

(* ---- the reading loops *)
Lemma skipWs_adv input r : forall l, Inv input l -> Adv input l (skipWs r l).
Proof.
  induction r as [|c r IH]; intros l H; cbn [skipWs]; [apply adv_refl, H|].
  destruct (isWs (cur l)); [|apply adv_refl, H].
  eapply adv_trans; [apply adv_read, H|]. apply IH. apply (adv_inv input l). apply adv_read, H.
Qed.

Lemma readIdent_adv input r : forall l acc, Inv input l -> Adv input l (fst (readIdent_loop r l acc)).
Proof.
  induction r as [|c r IH]; intros l acc H; cbn [readIdent_loop]; [apply adv_refl, H|].
  destruct (isIdent (cur l) || isNumber (cur l)); [|apply adv_refl, H].
  eapply adv_trans; [apply adv_read, H|]. apply IH. apply (adv_inv input l), adv_read, H.
Qed.

Lemma readNumber_adv input r : forall l acc b, Inv input l -> Adv input l (fst (fst (readNumber_loop r l acc b))).
Proof.
  induction r as [|c r IH]; intros l acc b H; cbn [readNumber_loop]; [apply adv_refl, H|].
  destruct (isNumber (cur l) || (cur l =? 46)); [|apply adv_refl, H].
  destruct ((cur l =? 46) && negb (isNumber (peekChar l))); [apply adv_refl, H|].
  eapply adv_trans; [apply adv_read, H|]. apply IH. apply (adv_inv input l), adv_read, H.
Qed.

Lemma readString_adv input r : forall l q acc, Inv input l -> Adv input l (fst (readString_loop r l q acc)).
Proof.
  induction r as [|c r IH]; intros l q acc H; cbn [readString_loop]; [apply adv_refl, H|].
  destruct (cur l =? 0); [apply adv_refl, H|].
  destruct ((cur (readChar l) =? q) && negb (cur l =? 92)); cbn [fst]; [apply adv_read, H|].
  eapply adv_trans; [apply adv_read, H|]. apply IH. apply (adv_inv input l), adv_read, H.
Qed.

Lemma skipComment_adv input r : forall l, Inv input l -> Adv input l (skipComment_loop r l).
Proof.
  induction r as [|c r IH]; intros l H; cbn [skipComment_loop]; [apply adv_refl, H|].
  destruct ((cur l =? 0) || prefixb [45; 45; 125; 125] (rest l)); [apply adv_refl, H|].
  eapply adv_trans; [apply adv_read, H|]. apply IH. apply (adv_inv input l), adv_read, H.
Qed.

Lemma readDirective_adv input r : forall l kw t, Inv input l ->
  Adv input l (fst (fst (readDirective_loop r l kw t))).
Proof.
  induction r as [|c r IH]; intros l kw t H; cbn [readDirective_loop]; [apply adv_refl, H|].
  destruct (negb (isLetterWord (cur l))); [apply adv_refl, H|].
  destruct (negb (isPotentiallyLong (readChar l) (lookupDirective (kw ++ [cur l]))) &&
            negb (tok_eqb (lookupDirective (kw ++ [cur l])) T_ILLEGAL)); cbn [fst]; [apply adv_read, H|].
  eapply adv_trans; [apply adv_read, H|]. apply IH. apply (adv_inv input l), adv_read, H.
Qed.

Lemma readHTML_adv_n input n : forall r l out, (List.length r <= n)%nat -> Inv input l ->
  Adv input l (fst (readHTML_loop r l out)).
Proof.
  induction n as [|n IH]; intros r l out Hn H.
  - destruct r; [cbn; apply adv_refl, H|cbn in Hn; lia].
  - destruct r as [|c r]; cbn [readHTML_loop]; [apply adv_refl, H|]. cbn [List.length] in Hn.
    destruct (negb (isHTML l) || (cur l =? 0)); [apply adv_refl, H|].
    destruct (isDirectiveToken l) as [isDir escDir]. destruct (areBracesToken l) as [areBr escBr].
    destruct (areBr || isDir); [apply adv_refl, H|].
    pose proof (adv_read input l H) as A1. pose proof (adv_inv _ _ _ A1) as H1.
    destruct escBr.
    + pose proof (adv_read input _ H1) as A2. pose proof (adv_inv _ _ _ A2) as H2.
      destruct r as [|c2 r2]; cbn [fst].
      * eapply adv_trans; eassumption.
      * eapply adv_trans; [exact A1|]. eapply adv_trans; [exact A2|]. apply IH; [cbn in Hn |- *; lia|exact H2].
    + eapply adv_trans; [exact A1|]. apply IH; [lia|exact H1].
Qed.

Lemma readHTML_adv input r l out : Inv input l -> Adv input l (fst (readHTML_loop r l out)).
Proof. apply (readHTML_adv_n input (List.length r)). lia. Qed.

(* ---- what it means for NextToken's answer to be exact *)
Definition Tok (input : bytes) (l : lexer) (t : token) (l' : lexer) : Prop :=
  Inv input l' /\ (lpos l <= lpos l')%nat /\
  exists s e, (tsl t, tsc t) = lc input s /\ (tel t, tec t) = lc input e /\
              (lpos l <= s)%nat /\ (s <= e)%nat /\
              ((e < lpos l')%nat \/ (e = lpos l' /\ (ttype t = T_EOF \/ ttype t = T_ILLEGAL))).

(* a token that begins at the current position and ends after at least one character *)
Lemma span_token input l l' ty lit :
  Inv input l -> Adv input (tokenBegins l) l' -> (lpos l < lpos l')%nat -> tok_eqb ty T_EOF = false ->
  Tok input l (newToken l' ty lit) l'.
Proof.
  intros H (Hi & Hsl & Hsc & Hle) Hlt Hty. split; [exact Hi|]. split; [cbn in Hle; lia|].
  exists (lpos l), (lpos l' - 1)%nat. unfold newToken. rewrite Hty. cbn [tsl tsc tel tec ttype].
  rewrite Hsl, Hsc. cbn [startLine startCol tokenBegins].
  destruct H as (_ & Hlc & _). destruct Hi as (_ & _ & _ & Hp & _).
  split; [exact Hlc|]. split; [apply Hp; lia|]. split; [lia|]. split; [lia|]. left. lia.
Qed.

Lemma tok_weaken input l0 l t l' : (lpos l0 <= lpos l)%nat -> Tok input l t l' -> Tok input l0 t l'.
Proof.
  intros Hle (Hi & Hp & s & e & A & B & C & D & E). split; [exact Hi|]. split; [lia|].
  exists s, e. repeat split; try assumption; lia.
Qed.

Lemma fixed_tok input l k ty lit :
  Inv input l -> (0 < k)%nat -> tok_eqb ty T_EOF = false ->
  Tok input l (fst (fixedToken l k ty lit)) (snd (fixedToken l k ty lit)).
Proof.
  intros H Hk Hty. unfold fixedToken. cbn [fst snd].
  destruct (adv_readN input k (tokenBegins l) (tokenBegins_inv _ _ H)) as [A B].
  apply span_token; try assumption. rewrite B. cbn [lpos tokenBegins]. lia.
Qed.

Lemma braces_tok input l ty lit :
  Inv input l -> tok_eqb ty T_EOF = false ->
  Tok input l (fst (bracesToken l ty lit)) (snd (bracesToken l ty lit)).
Proof.
  intros H Hty. unfold bracesToken.
  apply (tok_weaken input l (setModes l (negb (tok_eqb ty T_LBRACES)) (isDirective l))); [cbn; lia|].
  apply fixed_tok; [apply setModes_inv, H|lia|exact Hty].
Qed.

Lemma illegal_tok input l0 l :
  Inv input l -> (lpos l0 <= lpos l)%nat ->
  Tok input l0 (fst (illegalToken l)) (snd (illegalToken l)).
Proof.
  intros H Hle. unfold illegalToken. cbn [fst snd]. split; [apply tokenBegins_inv, H|]. split; [cbn; lia|].
  exists (lpos l), (lpos l). cbn [tsl tsc tel tec ttype startLine startCol tokenBegins lpos].
  destruct H as (_ & Hlc & _). repeat split; try exact Hlc; try lia. right. split; [reflexivity|right; reflexivity].
Qed.

Lemma eof_tok input l0 l :
  Inv input l -> (lpos l0 <= lpos l)%nat ->
  Tok input l0 (newToken (tokenBegins l) T_EOF []) (tokenBegins l).
Proof.
  intros H Hle. split; [apply tokenBegins_inv, H|]. split; [cbn; lia|].
  exists (lpos l), (lpos l). unfold newToken. change (tok_eqb T_EOF T_EOF) with true.
  cbn [tsl tsc tel tec ttype startLine startCol line col tokenBegins lpos].
  destruct H as (_ & Hlc & _). repeat split; try exact Hlc; try lia. right. split; [reflexivity|left; reflexivity].
Qed.

(* ---- loops that are entered with a character they accept consume it *)
Lemma rest_cons_of_cur input l : Inv input l -> cur l <> 0 -> exists c r, rest l = c :: r /\ cur l = c.
Proof. intros _ Hc. unfold cur in *. destruct (rest l) as [|c r]; [cbn in Hc; congruence|]. exists c, r. split; reflexivity. Qed.

Lemma ident_strict input l :
  Inv input l -> isIdent (cur l) = true ->
  (lpos l < lpos (fst (readIdent_loop (rest l) l [])))%nat.
Proof.
  intros H Hi. assert (Hc : cur l <> 0) by (intro E; rewrite E in Hi; discriminate).
  destruct (rest_cons_of_cur input l H Hc) as (c & r & Hr & _). rewrite Hr. cbn [readIdent_loop]. rewrite Hi. cbn [orb].
  pose proof (adv_read input l H) as A. pose proof (adv_read_strict input l H) as S1.
  destruct (readIdent_adv input r (readChar l) [cur l] (adv_inv _ _ _ A)) as (_ & _ & _ & Hle). lia.
Qed.

Lemma number_strict input l :
  Inv input l -> isNumber (cur l) = true ->
  (lpos l < lpos (fst (fst (readNumber_loop (rest l) l [] true))))%nat.
Proof.
  intros H Hi. assert (Hc : cur l <> 0) by (intro E; rewrite E in Hi; discriminate).
  destruct (rest_cons_of_cur input l H Hc) as (c & r & Hr & _). rewrite Hr. cbn [readNumber_loop]. rewrite Hi. cbn [orb].
  assert (H46 : (cur l =? 46) = false).
  { unfold isNumber in Hi. apply andb_true_iff in Hi as [A B]. apply N.leb_le in A, B. apply N.eqb_neq. lia. }
  rewrite H46. cbn [andb].
  pose proof (adv_read input l H) as A. pose proof (adv_read_strict input l H) as S1.
  destruct (readNumber_adv input r (readChar l) [cur l] true (adv_inv _ _ _ A)) as (_ & _ & _ & Hle). lia.
Qed.

Lemma directive_strict input l :
  Inv input l -> cur l = 64 ->
  (lpos l < lpos (fst (fst (readDirective_loop (rest l) l [] T_ILLEGAL))))%nat.
Proof.
  intros H Hi. assert (Hc : cur l <> 0) by (rewrite Hi; discriminate).
  destruct (rest_cons_of_cur input l H Hc) as (c & r & Hr & _). rewrite Hr. cbn [readDirective_loop]. rewrite Hi.
  change (negb (isLetterWord 64)) with false. cbv iota.
  pose proof (adv_read input l H) as A. pose proof (adv_read_strict input l H) as S1.
  destruct (negb (isPotentiallyLong (readChar l) (lookupDirective ([] ++ [64]))) &&
            negb (tok_eqb (lookupDirective ([] ++ [64])) T_ILLEGAL)); cbn [fst]; [exact S1|].
  destruct (readDirective_adv input r (readChar l) ([] ++ [64]) (lookupDirective ([] ++ [64])) (adv_inv _ _ _ A)) as (_ & _ & _ & Hle). lia.
Qed.

(* ---- table lookups never produce the EOF token type *)
Lemma alookup_value_in {A} k (m : list (bytes * A)) v : alookup k m = Some v -> In v (map snd m).
Proof.
  induction m as [|[k' v'] m IH]; cbn [alookup map snd]; [discriminate|].
  destruct (bytes_eqb k k'); [intros [= <-]; left; reflexivity|intro H; right; apply IH, H].
Qed.

Lemma directive_values_not_eof : forallb (fun t => negb (tok_eqb t T_EOF)) (map snd directives_b) = true.
Proof. vm_compute. reflexivity. Qed.

Lemma keyword_values_not_eof : forallb (fun t => negb (tok_eqb t T_EOF)) (map snd keywords_b) = true.
Proof. vm_compute. reflexivity. Qed.

Lemma lookupDirective_not_eof kw : tok_eqb (lookupDirective kw) T_EOF = false.
Proof.
  unfold lookupDirective. destruct (alookup kw directives_b) as [t|] eqn:E; [|reflexivity].
  apply alookup_value_in in E. pose proof directive_values_not_eof as F. rewrite forallb_forall in F.
  apply negb_true_iff. apply F, E.
Qed.

Lemma lookupIdent_not_eof id : tok_eqb (lookupIdent id) T_EOF = false.
Proof.
  unfold lookupIdent. destruct (alookup id keywords_b) as [t|] eqn:E; [|reflexivity].
  apply alookup_value_in in E. pose proof keyword_values_not_eof as F. rewrite forallb_forall in F.
  apply negb_true_iff. apply F, E.
Qed.

Lemma readDirective_tok_not_eof r : forall l kw t,
  tok_eqb t T_EOF = false -> tok_eqb (snd (readDirective_loop r l kw t)) T_EOF = false.
Proof.
  induction r as [|c r IH]; intros l kw t Ht; cbn [readDirective_loop]; [exact Ht|].
  destruct (negb (isLetterWord (cur l))); [exact Ht|].
  destruct (negb (isPotentiallyLong (readChar l) (lookupDirective (kw ++ [cur l]))) &&
            negb (tok_eqb (lookupDirective (kw ++ [cur l])) T_ILLEGAL)); cbn [snd].
  - apply lookupDirective_not_eof.
  - apply IH, lookupDirective_not_eof.
Qed.

(* ---- the token constructors of NextToken *)
Lemma directive_tok input l :
  Inv input l -> Tok input l (fst (directiveToken l)) (snd (directiveToken l)).
Proof.
  intro H. unfold directiveToken.
  destruct (negb (cur l =? 64)) eqn:E64; [apply illegal_tok; [exact H|lia]|].
  apply negb_false_iff, N.eqb_eq in E64.
  unfold readDirective.
  pose proof (readDirective_adv input (rest (tokenBegins l)) (tokenBegins l) [] T_ILLEGAL (tokenBegins_inv _ _ H)) as A.
  pose proof (directive_strict input (tokenBegins l) (tokenBegins_inv _ _ H) E64) as S1.
  pose proof (readDirective_tok_not_eof (rest (tokenBegins l)) (tokenBegins l) [] T_ILLEGAL eq_refl) as Hne.
  destruct (readDirective_loop (rest (tokenBegins l)) (tokenBegins l) [] T_ILLEGAL) as [[l1 kw] t]. cbn [fst snd] in A, S1, Hne.
  destruct (tok_eqb t T_ILLEGAL) eqn:Et.
  - apply illegal_tok; [exact (adv_inv _ _ _ A)|]. cbn [lpos tokenBegins] in S1. lia.
  - cbv zeta. cbn [fst snd].
    set (l2 := setModes l1 _ _).
    apply span_token; [exact H| |cbn [lpos tokenBegins] in S1; subst l2; cbn; lia|].
    + eapply adv_trans; [exact A|]. apply adv_modes, (adv_inv _ _ _ A).
    + exact Hne.
Qed.

Lemma string_tok input l :
  Inv input l ->
  Tok input l (newToken (snd (readString l)) (if snd (fst (readString l)) then T_STR else T_ILLEGAL) (fst (fst (readString l))))
      (snd (readString l)).
Proof.
  intro H. unfold readString.
  pose proof (adv_read input (tokenBegins l) (tokenBegins_inv _ _ H)) as A0.
  pose proof (adv_read_strict input (tokenBegins l) (tokenBegins_inv _ _ H)) as S0. cbn [lpos tokenBegins] in S0.
  set (l0 := readChar (tokenBegins l)) in *. pose proof (adv_inv _ _ _ A0) as H0.
  destruct (cur l0 =? cur l) eqn:Eq; cbn [fst snd].
  - (* the empty string *)
    apply span_token; [exact H| |pose proof (adv_read_strict input l0 H0); lia|reflexivity].
    eapply adv_trans; [exact A0|apply adv_read, H0].
  - pose proof (readString_adv input (rest l0) l0 (cur l) [] H0) as A1.
    destruct (readString_loop (rest l0) l0 (cur l) []) as [l1 acc]. cbn [fst snd] in A1 |- *.
    pose proof (adv_inv _ _ _ A1) as H1.
    assert (Hle1 : (lpos l0 <= lpos l1)%nat) by (destruct A1 as (_ & _ & _ & X); exact X).
    destruct (cur l1 =? cur l); cbn [fst snd].
    + apply span_token; [exact H| |pose proof (adv_read_strict input l1 H1); lia|reflexivity].
      eapply adv_trans; [exact A0|]. eapply adv_trans; [exact A1|apply adv_read, H1].
    + apply span_token; [exact H| |lia|reflexivity].
      eapply adv_trans; [exact A0|exact A1].
Qed.

Lemma ident_tok input l :
  Inv input l -> isIdent (cur l) = true ->
  Tok input l (newToken (snd (readIdentifier l)) (lookupIdent (fst (readIdentifier l))) (fst (readIdentifier l)))
      (snd (readIdentifier l)).
Proof.
  intros H Hi. unfold readIdentifier.
  pose proof (readIdent_adv input (rest (tokenBegins l)) (tokenBegins l) [] (tokenBegins_inv _ _ H)) as A.
  pose proof (ident_strict input (tokenBegins l) (tokenBegins_inv _ _ H) Hi) as S1.
  destruct (readIdent_loop (rest (tokenBegins l)) (tokenBegins l) []) as [l1 acc]. cbn [fst snd] in *.
  apply span_token; [exact H|exact A|cbn [lpos tokenBegins] in S1; exact S1|apply lookupIdent_not_eof].
Qed.

Lemma number_tok input l :
  Inv input l -> isNumber (cur l) = true ->
  Tok input l (newToken (snd (readNumber l)) (if snd (fst (readNumber l)) then T_INT else T_FLOAT) (fst (fst (readNumber l))))
      (snd (readNumber l)).
Proof.
  intros H Hi. unfold readNumber.
  pose proof (readNumber_adv input (rest (tokenBegins l)) (tokenBegins l) [] true (tokenBegins_inv _ _ H)) as A.
  pose proof (number_strict input (tokenBegins l) (tokenBegins_inv _ _ H) Hi) as S1.
  destruct (readNumber_loop (rest (tokenBegins l)) (tokenBegins l) [] true) as [[l1 acc] isInt]. cbn [fst snd] in *.
  apply span_token; [exact H|exact A|cbn [lpos tokenBegins] in S1; exact S1|destruct isInt; reflexivity].
Qed.

Lemma simple_lookup_not_eof c t : simpleLookup c = Some t -> tok_eqb t T_EOF = false.
Proof.
  unfold simpleLookup.
  assert (F : forallb (fun p : N * tok => negb (tok_eqb (snd p) T_EOF)) simple_tokens = true) by (vm_compute; reflexivity).
  revert F. generalize simple_tokens. intro m. induction m as [|[k t'] m IH]; intro F.
  - intro E. discriminate E.
  - cbn [forallb snd] in F. apply andb_true_iff in F as [F1 F2].
    destruct (c =? k).
    + intro E. inversion E; subst t'. apply negb_true_iff, F1.
    + apply (IH F2).
Qed.

Lemma embedded_tok input l :
  Inv input l -> Tok input l (fst (embeddedCodeToken l)) (snd (embeddedCodeToken l)).
Proof.
  intro H. unfold embeddedCodeToken.
  destruct (simpleLookup (cur l)) as [t|] eqn:Es.
  { apply fixed_tok; [exact H|lia|eapply simple_lookup_not_eof; exact Es]. }
  destruct (cur l =? 123).
  { eapply tok_weaken; [|apply fixed_tok; [apply setCounts_inv, H|lia|reflexivity]]. cbn; lia. }
  destruct (cur l =? 125).
  { eapply tok_weaken; [|apply fixed_tok; [apply setCounts_inv, H|lia|reflexivity]]. cbn; lia. }
  destruct (cur l =? 40).
  { destruct (isDirective l).
    - eapply tok_weaken; [|apply fixed_tok; [apply setCounts_inv, H|lia|reflexivity]]. cbn; lia.
    - apply fixed_tok; [exact H|lia|reflexivity]. }
  destruct (cur l =? 41).
  { set (l1 := if isDirective l then setCounts l (parenCount l - 1)%Z (braceCount l) else l).
    assert (H1 : Inv input l1 /\ lpos l1 = lpos l) by (subst l1; destruct (isDirective l); split; try reflexivity; try exact H; apply setCounts_inv, H).
    destruct H1 as [H1 P1].
    set (l2 := if isDirective l1 && (parenCount l1 =? 0)%Z then setModes l1 true false else l1).
    assert (H2 : Inv input l2 /\ lpos l2 = lpos l1) by (subst l2; destruct (isDirective l1 && _); split; try reflexivity; try exact H1; apply setModes_inv, H1).
    destruct H2 as [H2 P2].
    eapply tok_weaken; [|apply fixed_tok; [exact H2|lia|reflexivity]]. lia. }
  destruct ((cur l =? 34) || (cur l =? 39)).
  { pose proof (string_tok input l H) as Hs.
    destruct (readString l) as [[s term] l1]. cbn [fst snd] in Hs |- *. exact Hs. }
  destruct (cur l =? 60); [destruct (peekChar l =? 61); apply fixed_tok; try exact H; try lia; reflexivity|].
  destruct (cur l =? 62); [destruct (peekChar l =? 61); apply fixed_tok; try exact H; try lia; reflexivity|].
  destruct (cur l =? 33); [destruct (peekChar l =? 61); apply fixed_tok; try exact H; try lia; reflexivity|].
  destruct (cur l =? 45); [destruct (peekChar l =? 45); apply fixed_tok; try exact H; try lia; reflexivity|].
  destruct (cur l =? 43); [destruct (peekChar l =? 43); apply fixed_tok; try exact H; try lia; reflexivity|].
  destruct (cur l =? 61); [destruct (peekChar l =? 61); apply fixed_tok; try exact H; try lia; reflexivity|].
  destruct (isIdent (cur l)) eqn:Ei.
  { pose proof (ident_tok input l H Ei) as Hs.
    destruct (readIdentifier l) as [id l1]. cbn [fst snd] in Hs |- *. exact Hs. }
  destruct (isNumber (cur l)) eqn:En.
  { pose proof (number_tok input l H En) as Hs.
    destruct (readNumber l) as [[num isInt] l1]. cbn [fst snd] in Hs |- *. exact Hs. }
  apply illegal_tok; [exact H|lia].
Qed.

(* a text run: entered only when the current character is neither NUL, nor the start of "{{", nor
   the start of a directive, so at least one character is read *)
Lemma html_tok input l :
  Inv input l -> isHTML l = true -> cur l <> 0 ->
  (cur l =? 123) && (peekChar l =? 123) = false -> fst (isDirectiveToken l) = false ->
  Tok input l (newToken (snd (readHTML l)) T_HTML (fst (readHTML l))) (snd (readHTML l)).
Proof.
  intros H Hh Hc Hb Hd. unfold readHTML. cbv zeta.
  pose proof (readHTML_adv input (rest (tokenBegins l)) (tokenBegins l) [] (tokenBegins_inv _ _ H)) as A.
  assert (S1 : (lpos l < lpos (fst (readHTML_loop (rest (tokenBegins l)) (tokenBegins l) [])))%nat).
  { destruct (rest_cons_of_cur input l H Hc) as (c & r & Hr & _).
    change (rest (tokenBegins l)) with (rest l). rewrite Hr. cbn [readHTML_loop].
    change (isHTML (tokenBegins l)) with (isHTML l). rewrite Hh. cbn [negb orb].
    change (cur (tokenBegins l)) with (cur l).
    destruct (cur l =? 0) eqn:E0; [apply N.eqb_eq in E0; congruence|].
    change (isDirectiveToken (tokenBegins l)) with (isDirectiveToken l).
    change (areBracesToken (tokenBegins l)) with (areBracesToken l).
    destruct (isDirectiveToken l) as [isDir escDir]. cbn [fst] in Hd. subst isDir.
    unfold areBracesToken. rewrite Hb. cbn [andb orb].
    pose proof (tokenBegins_inv _ _ H) as Hb0.
    pose proof (adv_read input _ Hb0) as A1. pose proof (adv_read_strict input _ Hb0) as S0.
    cbn [lpos tokenBegins] in S0.
    rewrite andb_false_r.
    destruct (readHTML_adv input r (readChar (tokenBegins l)) (cur l :: (if escDir || false then tl [] else []))
                           (adv_inv _ _ _ A1)) as (_ & _ & _ & Hle).
    lia. }
  destruct (readHTML_loop (rest (tokenBegins l)) (tokenBegins l) []) as [l1 out]. cbn [fst snd] in *.
  apply span_token; [exact H|exact A|exact S1|reflexivity].
Qed.

(* ---- NextToken *)
Theorem next_token_exact input fuel : forall l t l',
  Inv input l -> nextToken fuel l = Some (t, l') -> Tok input l t l'.
Proof.
  induction fuel as [|f IH]; intros l t l' H; [discriminate|]. cbn [nextToken].
  set (l1 := if isHTML l then l else skipWhitespace l).
  assert (A1 : Adv input l l1).
  { subst l1. destruct (isHTML l); [apply adv_refl, H|apply skipWs_adv, H]. }
  pose proof (adv_inv _ _ _ A1) as H1.
  assert (Hle : (lpos l <= lpos l1)%nat) by (destruct A1 as (_ & _ & _ & X); exact X).
  destruct (cur l1 =? 0) eqn:E0.
  { intros [= <- <-]. apply eof_tok; assumption. }
  destruct ((cur l1 =? 123) && (peekChar l1 =? 123)) eqn:Eb.
  { (* "{{" : a code block opens, or a comment is skipped *)
    pose proof (braces_tok input l1 T_LBRACES [123; 123] H1 eq_refl) as Hbt.
    unfold bracesToken in *. unfold fixedToken in *. cbn [fst snd] in Hbt.
    set (l1' := setModes l1 (negb (tok_eqb T_LBRACES T_LBRACES)) (isDirective l1)) in *.
    assert (H1' : Inv input l1') by (apply setModes_inv, H1).
    destruct (adv_readN input 2 (tokenBegins l1') (tokenBegins_inv _ _ H1')) as [A2 P2].
    set (l2 := readN 2 (tokenBegins l1')) in *.
    destruct ((cur l2 =? 45) && (peekChar l2 =? 45)).
    - unfold skipComment.
      pose proof (skipComment_adv input (rest l2) l2 (adv_inv _ _ _ A2)) as A3.
      set (l3 := skipComment_loop (rest l2) l2) in *.
      pose proof (adv_modes input l3 true (isDirective l3) (adv_inv _ _ _ A3)) as A4.
      set (l4 := setModes l3 true (isDirective l3)) in *.
      assert (A24 : Adv input (tokenBegins l1') l4) by (eapply adv_trans; [exact A2|]; eapply adv_trans; eassumption).
      destruct (cur l4 =? 0).
      + (* unterminated comment: an ILLEGAL token from "{{" to the end of the input *)
        intros [= <- <-]. apply (tok_weaken input l l1'); [cbn; lia|].
        apply span_token; [exact H1'|exact A24| |reflexivity].
        destruct A3 as (_ & _ & _ & X3). cbn [lpos tokenBegins setModes] in P2 |- *. subst l4. cbn [lpos setModes]. lia.
      + destruct (adv_readN input 4 l4 (adv_inv _ _ _ A24)) as [A5 P5].
        intro Hn. apply IH in Hn; [|exact (adv_inv _ _ _ A5)].
        apply (tok_weaken input l (readN 4 l4)); [|exact Hn].
        destruct A24 as (_ & _ & _ & X). cbn [lpos tokenBegins setModes] in X. subst l1'. cbn [lpos setModes] in X. lia.
    - intros [= <- <-]. apply (tok_weaken input l l1); [lia|exact Hbt]. }
  destruct (negb (isHTML l1) && (cur l1 =? 125) && (peekChar l1 =? 125) && (braceCount l1 =? 0)%Z).
  { intro E. pose proof (braces_tok input l1 T_RBRACES [125; 125] H1 eq_refl) as Ht.
    destruct (bracesToken l1 T_RBRACES [125; 125]) as [t0 l0]. inversion E; subst. cbn [fst snd] in Ht.
    apply (tok_weaken input l l1); [lia|exact Ht]. }
  destruct (negb (isHTML l1)) eqn:Eh.
  { intro E. pose proof (embedded_tok input l1 H1) as Ht.
    destruct (embeddedCodeToken l1) as [t0 l0]. inversion E; subst. cbn [fst snd] in Ht.
    apply (tok_weaken input l l1); [lia|exact Ht]. }
  destruct (fst (isDirectiveToken l1)) eqn:Ed.
  { intro E. pose proof (directive_tok input l1 H1) as Ht.
    destruct (directiveToken l1) as [t0 l0]. inversion E; subst. cbn [fst snd] in Ht.
    apply (tok_weaken input l l1); [lia|exact Ht]. }
  apply negb_false_iff in Eh. apply N.eqb_neq in E0.
  pose proof (html_tok input l1 H1 Eh E0 Eb Ed) as Ht.
  destruct (readHTML l1) as [s l2]. cbn [fst snd] in Ht. intros [= <- <-].
  apply (tok_weaken input l l1); [lia|exact Ht].
Qed.

Theorem next_tok_exact input l t l' : Inv input l -> nextTok l = Some (t, l') -> Tok input l t l'.
Proof. intros H E. exact (next_token_exact input _ l t l' H E). Qed.

(* ---- the whole token list *)
Fixpoint chain (input : bytes) (lo : nat) (ts : list token) : Prop :=
  match ts with
  | [] => True
  | t :: ts' =>
    exists s e lo',
      (tsl t, tsc t) = lc input s /\ (tel t, tec t) = lc input e /\
      (lo <= s)%nat /\ (s <= e)%nat /\ (lo <= lo')%nat /\
      ((e < lo')%nat \/ ttype t = T_EOF \/ ttype t = T_ILLEGAL) /\
      chain input lo' ts'
  end.

Lemma lex_loop_chain input fuel : forall l prev ts,
  Inv input l -> lex_loop fuel l prev = Some ts -> chain input (lpos l) ts.
Proof.
  induction fuel as [|f IH]; intros l prev ts H; [discriminate|]. cbn [lex_loop].
  destruct (nextTok l) as [[t l']|] eqn:En; [|discriminate].
  pose proof (next_tok_exact input l t l' H En) as (Hi & Hle & s & e & Hs & He & Hls & Hse & Hend).
  assert (Hhead : forall ts', chain input (lpos l') ts' -> chain input (lpos l) (t :: ts')).
  { intros ts' Hc. cbn [chain]. exists s, e, (lpos l'). repeat split; try assumption.
    destruct Hend as [Hlt|[_ [Ht|Ht]]]; [left; exact Hlt|right; left; exact Ht|right; right; exact Ht]. }
  destruct (tok_eqb (ttype t) T_EOF).
  - intros [= <-]. apply Hhead. exact I.
  - destruct (tok_eqb (ttype t) T_ILLEGAL && match prev with Some p => token_eqb p t | None => false end).
    + intros [= <-]. exact I.
    + destruct (lex_loop f l' (Some t)) as [ts'|] eqn:El; [|discriminate].
      intros [= <-]. apply Hhead. exact (IH l' (Some t) ts' Hi El).
Qed.

(* every token the lexer produces for an input starts and ends at the (line, column) of byte
   offsets of that input, the offsets never go backwards, and a token that consumed input ends
   strictly before the next one starts *)
Theorem all_tokens_exact_and_ordered input ts : lex_all input = Some ts -> chain input 0 ts.
Proof.
  unfold lex_all. intro E.
  exact (lex_loop_chain input _ (newLexer input) None ts (newLexer_inv input) E).
Qed.

(* the line an error reports for a token (C13): one more than the number of line feeds before
   the token's last byte *)
Corollary token_line_counts_line_feeds input ts t :
  lex_all input = Some ts -> In t ts -> exists e, tel t = fst (lc input e).
Proof.
  intros E Hin. pose proof (all_tokens_exact_and_ordered input ts E) as Hc. clear E.
  revert Hc. generalize 0%nat. induction ts as [|t0 ts IH]; intros lo Hc; [destruct Hin|].
  cbn [chain] in Hc. destruct Hc as (s & e & lo' & _ & He & _ & _ & _ & _ & Hrest).
  destruct Hin as [<-|Hin].
  - exists e. rewrite <- He. reflexivity.
  - apply (IH Hin lo' Hrest).
Qed.

(* non-vacuity: a multi-line input with a comment, a string holding a line feed and text *)
Example chain_example :
  match lex_all (bs "a
{{-- c
--}}{{ 'x
y' }}b") with Some ts => List.length ts = 6%nat /\ map tel ts = [0; 2; 3; 3; 3; 3]%nat | None => False end.
Proof. vm_compute. split; reflexivity. Qed.
