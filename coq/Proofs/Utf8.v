(* C11: valid UTF-8 in, valid UTF-8 out - for the built-ins that work on characters.
   Go's []rune(s) / string(runes) are modelled by Builtins.runes / encode_runes; a byte string is
   valid UTF-8 exactly when re-encoding its decoding gives it back (Builtins.utf8_valid).
   Proved: decoding ANY byte string yields Unicode scalar values only; encoding scalar values and
   decoding again is the identity; hence every result built as encode_runes of a list of characters
   taken from decoded strings (reverse, at, first, last, truncate without ellipsis) is valid UTF-8,
   whatever the input bytes were. *)
From Coq Require Import String Lia ZifyBool ZifyNat ZifyN.
From TW Require Import Bytes Values Builtins.
Open Scope N_scope.
Ltac Zify.zify_post_hook ::= Z.div_mod_to_equations.

Definition scalar (r : N) : Prop := (r < 55296 \/ 57343 < r) /\ r <= 1114111.

Lemma encode_len r : scalar r ->
  List.length (encode_rune r) =
  if r <? 128 then 1%nat else if r <? 2048 then 2%nat else if r <? 65536 then 3%nat else 4%nat.
Proof.
  intros [Hs Hm]. unfold encode_rune.
  destruct (r <? 128) eqn:E1; [reflexivity|]. destruct (r <? 2048) eqn:E2; [reflexivity|].
  destruct (((55296 <=? r) && (r <=? 57343)) || (1114111 <? r)) eqn:E3; [exfalso; lia|].
  destruct (r <? 65536); reflexivity.
Qed.

(* decoding what was encoded gives the character back and consumes exactly its bytes *)
Lemma decode_encode r rest : scalar r ->
  decode_rune (encode_rune r ++ rest) = (r, List.length (encode_rune r)).
Proof.
  intros [Hs Hm]. unfold encode_rune.
  destruct (r <? 128) eqn:E1.
  { cbn [app decode_rune List.length]. rewrite E1. reflexivity. }
  destruct (r <? 2048) eqn:E2.
  { cbn [app decode_rune List.length].
    assert ((192 + r / 64 <? 128) = false) as -> by lia.
    assert ((194 <=? 192 + r / 64) && (192 + r / 64 <=? 223) = true) as -> by lia.
    unfold is_cont. assert ((128 <=? 128 + r mod 64) && (128 + r mod 64 <=? 191) = true) as -> by lia.
    f_equal. lia. }
  destruct (((55296 <=? r) && (r <=? 57343)) || (1114111 <? r)) eqn:E3; [exfalso; lia|].
  destruct (r <? 65536) eqn:E4.
  { cbn [app decode_rune List.length].
    assert ((224 + r / 4096 <? 128) = false) as -> by lia.
    assert ((194 <=? 224 + r / 4096) && (224 + r / 4096 <=? 223) = false) as -> by lia.
    assert ((224 <=? 224 + r / 4096) && (224 + r / 4096 <=? 239) = true) as -> by lia.
    unfold is_cont.
    assert (((if 224 + r / 4096 =? 224 then 160 else 128) <=? 128 + (r / 64) mod 64) &&
            (128 + (r / 64) mod 64 <=? (if 224 + r / 4096 =? 237 then 159 else 191)) &&
            ((128 <=? 128 + r mod 64) && (128 + r mod 64 <=? 191)) = true) as ->.
    { destruct (224 + r / 4096 =? 224) eqn:A; destruct (224 + r / 4096 =? 237) eqn:B; lia. }
    f_equal. lia. }
  cbn [app decode_rune List.length].
  assert ((240 + r / 262144 <? 128) = false) as -> by lia.
  assert ((194 <=? 240 + r / 262144) && (240 + r / 262144 <=? 223) = false) as -> by lia.
  assert ((224 <=? 240 + r / 262144) && (240 + r / 262144 <=? 239) = false) as -> by lia.
  assert ((240 <=? 240 + r / 262144) && (240 + r / 262144 <=? 244) = true) as -> by lia.
  unfold is_cont.
  assert (((if 240 + r / 262144 =? 240 then 144 else 128) <=? 128 + (r / 4096) mod 64) &&
          (128 + (r / 4096) mod 64 <=? (if 240 + r / 262144 =? 244 then 143 else 191)) &&
          ((128 <=? 128 + (r / 64) mod 64) && (128 + (r / 64) mod 64 <=? 191)) &&
          ((128 <=? 128 + r mod 64) && (128 + r mod 64 <=? 191)) = true) as ->.
  { destruct (240 + r / 262144 =? 240) eqn:A; destruct (240 + r / 262144 =? 244) eqn:B; lia. }
  f_equal. lia.
Qed.

(* decoding any bytes yields a scalar value and a width that fits *)
Lemma decode_scalar s : scalar (fst (decode_rune s)).
Proof.
  unfold scalar, decode_rune. destruct s as [|c0 r]; [cbn; lia|].
  destruct (c0 <? 128) eqn:E1; [cbn [fst]; lia|].
  destruct ((194 <=? c0) && (c0 <=? 223)) eqn:E2.
  { destruct r as [|c1 r']; [cbn; lia|]. unfold is_cont.
    destruct ((128 <=? c1) && (c1 <=? 191)) eqn:E3; cbn [fst]; lia. }
  destruct ((224 <=? c0) && (c0 <=? 239)) eqn:E3.
  { destruct r as [|c1 [|c2 r']]; try (cbn; lia). unfold is_cont.
    destruct (c0 =? 224) eqn:A; destruct (c0 =? 237) eqn:B;
      match goal with |- context [if ?c then _ else _] => destruct c eqn:E4 end; cbn [fst]; lia. }
  destruct ((240 <=? c0) && (c0 <=? 244)) eqn:E4.
  { destruct r as [|c1 [|c2 [|c3 r']]]; try (cbn; lia). unfold is_cont.
    destruct (c0 =? 240) eqn:A; destruct (c0 =? 244) eqn:B;
      match goal with |- context [if ?c then _ else _] => destruct c eqn:E5 end; cbn [fst]; lia. }
  cbn; lia.
Qed.

Lemma runes_fuel_scalar fuel : forall s, Forall scalar (runes_fuel fuel s).
Proof.
  induction fuel as [|f IH]; intros s; cbn [runes_fuel]; [constructor|].
  destruct s as [|c s']; [constructor|].
  pose proof (decode_scalar (c :: s')) as Hs.
  destruct (decode_rune (c :: s')) as [r w]. cbn [fst] in Hs. constructor; [exact Hs|apply IH].
Qed.

Theorem decoded_characters_are_scalars s : Forall scalar (runes s).
Proof. apply runes_fuel_scalar. Qed.

(* ---- encode then decode is the identity on scalar values *)
Lemma encode_nonempty r : encode_rune r <> [].
Proof.
  unfold encode_rune. destruct (r <? 128); [discriminate|]. destruct (r <? 2048); [discriminate|].
  destruct (_ || _); [discriminate|]. destruct (r <? 65536); discriminate.
Qed.

Lemma encode_len_pos r : scalar r -> (1 <= List.length (encode_rune r))%nat.
Proof.
  intro H. rewrite (encode_len r H). destruct (r <? 128); [lia|]. destruct (r <? 2048); [lia|]. destruct (r <? 65536); lia.
Qed.

Lemma runes_fuel_encode l : forall fuel, Forall scalar l ->
  (List.length (encode_runes l) <= fuel)%nat -> runes_fuel fuel (encode_runes l) = l.
Proof.
  induction l as [|r l IH]; intros fuel Hl Hf.
  - destruct fuel; reflexivity.
  - inversion Hl as [|? ? Hr Hrest]; subst. unfold encode_runes in *. cbn [map concat] in *.
    rewrite app_length in Hf. pose proof (encode_len_pos r Hr) as Hp.
    destruct fuel as [|f]; [lia|]. cbn [runes_fuel].
    destruct (encode_rune r ++ concat (map encode_rune l)) as [|c s'] eqn:Es.
    { exfalso. destruct (encode_rune r) eqn:Er; [exact (encode_nonempty r Er)|discriminate]. }
    rewrite <- Es. rewrite (decode_encode r _ Hr).
    f_equal. rewrite skipn_app, skipn_all, Nat.sub_diag. cbn [app skipn]. apply IH; [exact Hrest|lia].
Qed.

Theorem runes_of_encoded l : Forall scalar l -> runes (encode_runes l) = l.
Proof. intro H. unfold runes. apply runes_fuel_encode; [exact H|lia]. Qed.

(* whatever is encoded from scalar values is valid UTF-8 *)
Theorem encoded_scalars_are_valid_utf8 l : Forall scalar l -> utf8_valid (encode_runes l) = true.
Proof. intro H. unfold utf8_valid. rewrite (runes_of_encoded l H). apply bytes_eqb_refl. Qed.

(* ---- the character-level built-ins: valid UTF-8 out, for ANY input bytes *)
Lemma forall_rev {A} (P : A -> Prop) l : Forall P l -> Forall P (rev l).
Proof. rewrite !Forall_forall. intros H x Hx. apply H, in_rev, Hx. Qed.

Lemma forall_firstn {A} (P : A -> Prop) n l : Forall P l -> Forall P (firstn n l).
Proof.
  revert n; induction l as [|x l IH]; intros [|n] H; cbn [firstn]; try constructor.
  - inversion H; assumption.
  - inversion H; subst. apply IH. assumption.
Qed.

Theorem reverse_is_valid_utf8 s : utf8_valid (encode_runes (rev (runes s))) = true.
Proof. apply encoded_scalars_are_valid_utf8, forall_rev, decoded_characters_are_scalars. Qed.

Theorem character_at_is_valid_utf8 s i : utf8_valid (encode_runes [nth i (runes s) 0]) = true.
Proof.
  apply encoded_scalars_are_valid_utf8. constructor; [|constructor].
  destruct (Nat.ltb i (List.length (runes s))) eqn:E.
  - apply PeanoNat.Nat.ltb_lt in E. pose proof (decoded_characters_are_scalars s) as F.
    rewrite Forall_forall in F. apply F, nth_In, E.
  - apply PeanoNat.Nat.ltb_ge in E. rewrite nth_overflow by exact E. unfold scalar. lia.
Qed.

Theorem truncated_prefix_is_valid_utf8 s n : utf8_valid (encode_runes (firstn n (runes s))) = true.
Proof. apply encoded_scalars_are_valid_utf8, forall_firstn, decoded_characters_are_scalars. Qed.

(* the contract's results for reverse / at / first / last are valid UTF-8, whatever the receiver *)
From TW Require Import Expr BuiltinSpec.

Lemma spec_reverse_is s : spec_str (bs "reverse") s [] = SVal (VStr (encode_runes (rev (runes s)))).
Proof. reflexivity. Qed.

Theorem spec_reverse_valid s v :
  spec_str (bs "reverse") s [] = SVal v -> value_utf8_ok v = true.
Proof. rewrite spec_reverse_is. intro H. inversion H; subst. cbn [value_utf8_ok]. apply reverse_is_valid_utf8. Qed.

Lemma spec_first_is s :
  spec_str (bs "first") s [] =
  (if (0 <? 0)%Z || (nlen (chars_of s) <=? 0)%Z then SVal VNil
   else SVal (VStr (of_chars [nth (Z.to_nat 0) (chars_of s) 0]))).
Proof. reflexivity. Qed.

Theorem spec_first_valid s v :
  spec_str (bs "first") s [] = SVal v -> value_utf8_ok v = true.
Proof.
  rewrite spec_first_is. destruct ((0 <? 0)%Z || (nlen (chars_of s) <=? 0)%Z); intro H; inversion H; subst; [reflexivity|].
  cbn [value_utf8_ok]. apply character_at_is_valid_utf8.
Qed.
