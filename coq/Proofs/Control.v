(* C02 / C03: truthiness and loop control.
   - the model's isTruthy is the specification's truthiness (one predicate for @if, the ternary,
     @breakIf and @continueIf);
   - the marker-object scan of evaluator/utils.go (hasControlStmt through nested Blocks) finds a
     marker exactly when one is stored somewhere in the nested Block structure. *)
From Coq Require Import String.
From TW Require Import Bytes Floats Values Ast Eval Expr Template.
Open Scope N_scope.

Theorem truthy_is_spec v : truthy v = truthy_spec v.
Proof.
  destruct v as [ | b | z | f | s | l | m | s | l | | | c | c a | c | c | vs ]; try reflexivity;
    try (destruct b; reflexivity); try (destruct s; reflexivity).
Qed.

(* false, nil, 0, 0.0, -0.0 and "" are falsy; arrays and objects - even empty ones - are truthy *)
Theorem falsy_values :
  truthy (VBool false) = false /\ truthy VNil = false /\ truthy (VInt 0) = false /\
  truthy (VFloat (f_ofZ 0)) = false /\ truthy (VFloat (f_neg (f_ofZ 0))) = false /\ truthy (VStr []) = false /\
  truthy (VArr []) = true /\ truthy (VObj []) = true.
Proof. repeat split; reflexivity. Qed.

Theorem int_truthy z : truthy (VInt z) = negb (z =? 0)%Z.
Proof. reflexivity. Qed.

Theorem str_truthy c s : truthy (VStr (c :: s)) = true.
Proof. reflexivity. Qed.

(* where a marker object sits inside nested Blocks *)
Inductive holds_break : value -> Prop :=
| HB_here : holds_break VBreak
| HB_in l v : In v l -> holds_break v -> holds_break (VBlock l).

Inductive holds_continue : value -> Prop :=
| HC_here : holds_continue VContinue
| HC_in l v : In v l -> holds_continue v -> holds_continue (VBlock l).

(* size measure for induction through the nested list *)
Fixpoint vsize (v : value) : nat :=
  match v with
  | VBlock l => S (fold_right (fun x n => vsize x + n)%nat O l)
  | _ => 1%nat
  end.

Lemma vsize_in l v : In v l -> (vsize v < vsize (VBlock l))%nat.
Proof.
  induction l as [|x l IH]; intros []; subst; cbn [vsize fold_right] in *.
  - lia.
  - specialize (IH H). cbn [vsize] in IH. lia.
Qed.

Theorem has_break_iff v : has_break v = true <-> holds_break v.
Proof.
  remember (vsize v) as n eqn:En. revert v En.
  induction n as [n IH] using lt_wf_ind. intros v En.
  destruct v; cbn [has_break]; try (split; [discriminate | intros H; inversion H]).
  - (* VBlock *)
    rewrite existsb_exists. split.
    + intros (x & Hin & Hx). apply (HB_in l x Hin).
      apply (IH (vsize x)); [subst n; apply vsize_in; exact Hin | reflexivity | exact Hx].
    + intros H. inversion H as [|l' x Hin Hx]; subst. exists x. split; [exact Hin|].
      apply (IH (vsize x)); [apply vsize_in; exact Hin | reflexivity | exact Hx].
  - split; [intros _; constructor | reflexivity].
Qed.

Theorem has_continue_iff v : has_continue v = true <-> holds_continue v.
Proof.
  remember (vsize v) as n eqn:En. revert v En.
  induction n as [n IH] using lt_wf_ind. intros v En.
  destruct v; cbn [has_continue]; try (split; [discriminate | intros H; inversion H]).
  - rewrite existsb_exists. split.
    + intros (x & Hin & Hx). apply (HC_in l x Hin).
      apply (IH (vsize x)); [subst n; apply vsize_in; exact Hin | reflexivity | exact Hx].
    + intros H. inversion H as [|l' x Hin Hx]; subst. exists x. split; [exact Hin|].
      apply (IH (vsize x)); [apply vsize_in; exact Hin | reflexivity | exact Hx].
  - split; [intros _; constructor | reflexivity].
Qed.

(* markers render as nothing: text before a @break in the current pass is all that is emitted *)
Theorem markers_print_nothing : value_string VBreak = Some [] /\ value_string VContinue = Some [].
Proof. split; reflexivity. Qed.

(* a block stops right after the first statement that carries a marker (evalBlockStmt) *)
Theorem block_stops_at_marker cx f en s ss acc r :
  eval_stmt cx f en s = Ok r ->
  (has_break (fst r) || has_continue (fst r)) = true ->
  eval_block cx (S f) en (s :: ss) acc = Ok (VBlock (rev (fst r :: acc)), snd r).
Proof. intros Hs Hm. cbn [eval_block]. rewrite Hs, Hm. reflexivity. Qed.

(* loop metadata of the i-th pass over n elements, as the specification states it *)
Theorem loop_metadata i n :
  loop_meta i n =
  VObj [(bs "index", VInt (Z.of_nat i)); (bs "first", VBool (Nat.eqb i 0));
        (bs "last", VBool (Nat.eqb (S i) n)); (bs "iter", VInt (Z.of_nat (S i)))].
Proof. reflexivity. Qed.

(* the model binds the same object *)
Theorem model_loop_object i n (f : frame) (r : env) :
  env_set_loop (f :: r) i n = aset str_loop (loop_meta i n) f :: r.
Proof. reflexivity. Qed.

(* ---- @if / @elseif / @else on the model: the first truthy branch, later conditions untouched *)
Theorem if_true_branch cx f en ln c thn alts alt cv :
  eval_expr cx f en c = Ok cv -> truthy cv = true ->
  eval_stmt cx (S f) en (SIf ln c thn alts alt) =
  (let! r := eval_block cx f ([] :: en) thn [] in Ok (fst r, tl (snd r))).
Proof. intros Hc Ht. cbn [eval_stmt]. rewrite Hc, Ht. reflexivity. Qed.

Theorem if_false_goes_on cx f en ln c thn alts alt cv :
  eval_expr cx f en c = Ok cv -> truthy cv = false ->
  eval_stmt cx (S f) en (SIf ln c thn alts alt) = eval_alts cx f en alts alt.
Proof. intros Hc Ht. cbn [eval_stmt]. rewrite Hc, Ht. reflexivity. Qed.

(* the chosen @elseif: the result does not mention the later branches at all *)
Theorem elseif_true_branch cx f en c b rest alt cv :
  eval_expr cx f en c = Ok cv -> truthy cv = true ->
  eval_alts cx (S f) en ((c, b) :: rest) alt =
  (let! r := eval_block cx f ([] :: en) b [] in Ok (fst r, tl (snd r))).
Proof. intros Hc Ht. cbn [eval_alts]. rewrite Hc, Ht. reflexivity. Qed.

Theorem elseif_false_goes_on cx f en c b rest alt cv :
  eval_expr cx f en c = Ok cv -> truthy cv = false ->
  eval_alts cx (S f) en ((c, b) :: rest) alt = eval_alts cx f en rest alt.
Proof. intros Hc Ht. cbn [eval_alts]. rewrite Hc, Ht. reflexivity. Qed.

Theorem no_branch_no_else cx f en : eval_alts cx (S f) en [] None = Ok (VNil, en).
Proof. reflexivity. Qed.

(* a failing condition that IS reached fails the render *)
Theorem elseif_failing_condition cx f en c b rest alt ln msg :
  eval_expr cx f en c = Fail ln msg ->
  eval_alts cx (S f) en ((c, b) :: rest) alt = Fail ln msg.
Proof. intros Hc. cbn [eval_alts]. rewrite Hc. reflexivity. Qed.

(* text around a construct is unaffected: evalProgram concatenates statement by statement *)
Theorem program_concatenates cx f en s ss out r str :
  eval_stmt cx f en s = Ok r -> str_of (fst r) = Ok str ->
  eval_program cx (S f) en (s :: ss) out = eval_program cx f (snd r) ss (out ++ str).
Proof. intros Hs Hstr. cbn [eval_program]. rewrite Hs, Hstr. reflexivity. Qed.

(* ---- @each on the model *)
Theorem each_non_array_fails cx f en ln var arr body alt av :
  eval_expr cx f ([] :: en) arr = Ok av ->
  (match av with VArr _ => False | _ => True end) ->
  exists msg, eval_stmt cx (S f) en (SEach ln var arr body alt) = Fail ln msg.
Proof.
  intros Ha Hna. cbn [eval_stmt]. rewrite Ha.
  destruct av; try (eexists; reflexivity). destruct Hna.
Qed.

Theorem each_empty_renders_else cx f en ln var arr body a :
  eval_expr cx f ([] :: en) arr = Ok (VArr []) ->
  eval_stmt cx (S f) en (SEach ln var arr body (Some a)) =
  (let! r := eval_block cx f ([] :: en) a [] in Ok (fst r, tl (snd r))).
Proof. intros Ha. cbn [eval_stmt]. rewrite Ha. reflexivity. Qed.

(* @break ends the loop after what the pass emitted; without it the loop goes on to the next element *)
Theorem each_pass cx f ln var body len i x xs en out en1 r str :
  env_set en var x = inl en1 ->
  eval_block cx f (env_set_loop en1 i len) body [] = Ok r ->
  str_of (fst r) = Ok str ->
  each_loop cx (S f) ln var body len i (x :: xs) en out =
  if has_break (fst r) then Ok (out ++ str, snd r)
  else each_loop cx f ln var body len (S i) xs (snd r) (out ++ str).
Proof. intros Hs Hb Hstr. cbn [each_loop]. rewrite Hs, Hb, Hstr. reflexivity. Qed.
