(* C01, semantic half: the evaluator model computes, for the AST of a specification expression,
   exactly the value the specification semantics gives (wrapping int64, IEEE-754 binary64, byte
   strings, same-type rule, errors for mixed types, /0, %0, unknown identifiers), for EVERY
   expression, environment and (sufficient) fuel.  Plus the tie of Go's binding-power table to the
   property's precedence levels.  The syntactic half (printer -> lexer -> Pratt parser gives back
   the tree) is decided by the check: every generated tree is printed with a layout, parsed by the
   model and by the implementation, and compared (Spec/Expr.v, tools/props.py C01). *)
From Coq Require Import String Lia.
From TW Require Import Bytes Floats Values Ast GenToken GenParser Lexer Parser Builtins Eval Expr Escape.
Open Scope N_scope.

(* ---------- the binding-power table read from parser.go follows the property's levels *)
Definition level_code (l : level) : nat :=
  match l with
  | LTernary => P_TERNARY | LEq => P_EQ | LCmp => P_LESS_GREATER | LAdd => P_SUM | LMul => P_PRODUCT
  | LMember => P_MEMBER_ACCESS | LPrefix => P_PREFIX | LIndex => P_INDEX | LPostfix => P_POSTFIX
  | LAtom => S P_POSTFIX
  end.

Definition all_levels := [LTernary; LEq; LCmp; LAdd; LMul; LMember; LPrefix; LIndex; LPostfix; LAtom].

(* strictly monotone: the order of Go's numbers is the order of the levels, whatever the numbers are *)
Lemma level_code_monotone :
  forallb (fun a => forallb (fun b => Bool.eqb (Nat.ltb (lnum a) (lnum b)) (Nat.ltb (level_code a) (level_code b)))
                            all_levels) all_levels = true.
Proof. vm_compute. reflexivity. Qed.

Definition binop_tok (o : binop) : tok :=
  match o with
  | BAdd => T_ADD | BSub => T_SUB | BMul => T_MUL | BDiv => T_DIV | BMod => T_MOD
  | BEq => T_EQ | BNe => T_NOT_EQ | BLt => T_LTHAN | BGt => T_GTHAN | BLe => T_LTHAN_EQ | BGe => T_GTHAN_EQ
  end.

Definition all_binops := [BAdd; BSub; BMul; BDiv; BMod; BEq; BNe; BLt; BGt; BLe; BGe].

Lemma operator_precedences_follow_levels :
  forallb (fun o => Nat.eqb (precOf (binop_tok o)) (level_code (op_level o))) all_binops = true /\
  precOf T_QUESTION = level_code LTernary /\ precOf T_DOT = level_code LMember /\
  precOf T_LBRACKET = level_code LIndex /\ precOf T_INC = level_code LPostfix /\ precOf T_DEC = level_code LPostfix /\
  (P_LOWEST < level_code LTernary)%nat.
Proof. vm_compute. repeat split; lia. Qed.

(* ---------- the AST of a specification expression (line numbers are irrelevant to values) *)
Fixpoint compile (e : sexpr) : expr :=
  match e with
  | XInt z => EInt 1 z
  | XFloat m k => EFloat 1 (float_text m k)
  | XStr s _ => EStr 1 s
  | XBool b => EBool 1 b
  | XNil => ENil 1
  | XVar n => EIdent 1 n
  | XNeg x => EPrefix 1 [45] (compile x)
  | XNot x => EPrefix 1 [33] (compile x)
  | XInc x => EPostfix 1 [43; 43] (compile x)
  | XDec x => EPostfix 1 [45; 45] (compile x)
  | XBin o l r => EInfix 1 (op_sym o) (compile l) (compile r)
  | XTern c a b => ETernary 1 (compile c) (compile a) (compile b)
  | XIndex l i => EIndex 1 (compile l) (compile i)
  | XProp l n => EDot 1 (compile l) (EIdent 1 n)
  | XCall r fn args => ECall 1 (compile r) fn (map compile args)
  | XArr els => EArr 1 (map compile els)
  | XObj pairs => EObj 1 (map (fun kx => (fst kx, compile (snd kx))) pairs)
  end.

(* the model's answer meets the specification's *)
Definition meets (o : outcome value) (s : sres) : Prop :=
  match s with
  | SVal v => o = Ok v
  | SErr => exists ln msg, o = Fail ln msg
  | SUnspec => True
  end.

(* ---------- operators *)
Lemma op_sym_cases o :
  op_sym o = bs (match o with
                 | BAdd => "+" | BSub => "-" | BMul => "*" | BDiv => "/" | BMod => "%"
                 | BEq => "==" | BNe => "!=" | BLt => "<" | BGt => ">" | BLe => "<=" | BGe => ">="
                 end)%string.
Proof. destruct o; reflexivity. Qed.

Lemma infix_meets ln o a b : meets (eval_infix_op ln (op_sym o) a b) (sem_bin o a b).
Proof.
  unfold eval_infix_op.
  destruct a; destruct b; cbn [same_type type_name sem_bin];
    try (cbn; do 2 eexists; reflexivity).
  - (* int *)
    change (negb (same_type (VInt z) (VInt z0))) with false. cbv beta iota.
    destruct o; cbn [sem_bin meets cmp_int]; try reflexivity.
    + unfold eval_int_infix. cbn. destruct (z0 =? 0)%Z; cbn; [do 2 eexists; reflexivity|reflexivity].
    + unfold eval_int_infix. cbn. destruct (z0 =? 0)%Z; cbn; [do 2 eexists; reflexivity|reflexivity].
  - (* float *)
    change (negb (same_type (VFloat f) (VFloat f0))) with false. cbv beta iota.
    destruct o; cbn [sem_bin meets cmp_float]; try reflexivity.
    cbn. do 2 eexists; reflexivity.
  - (* string *)
    change (negb (same_type (VStr s) (VStr s0))) with false. cbv beta iota.
    destruct o; cbn [sem_bin meets]; try reflexivity; cbn; do 2 eexists; reflexivity.
Qed.

(* ---------- induction over specification expressions, through their lists *)
Section SexprInd.
  Variable P : sexpr -> Prop.
  Hypothesis Hint : forall z, P (XInt z).
  Hypothesis Hfloat : forall m k, P (XFloat m k).
  Hypothesis Hstr : forall s d, P (XStr s d).
  Hypothesis Hbool : forall b, P (XBool b).
  Hypothesis Hnil : P XNil.
  Hypothesis Hvar : forall n, P (XVar n).
  Hypothesis Hneg : forall x, P x -> P (XNeg x).
  Hypothesis Hnot : forall x, P x -> P (XNot x).
  Hypothesis Hinc : forall x, P x -> P (XInc x).
  Hypothesis Hdec : forall x, P x -> P (XDec x).
  Hypothesis Hbin : forall o l r, P l -> P r -> P (XBin o l r).
  Hypothesis Htern : forall c a b, P c -> P a -> P b -> P (XTern c a b).
  Hypothesis Hindex : forall l i, P l -> P i -> P (XIndex l i).
  Hypothesis Hprop : forall l n, P l -> P (XProp l n).
  Hypothesis Hcall : forall r fn args, P r -> Forall P args -> P (XCall r fn args).
  Hypothesis Harr : forall els, Forall P els -> P (XArr els).
  Hypothesis Hobj : forall pairs, Forall (fun kx => P (snd kx)) pairs -> P (XObj pairs).

  Fixpoint sexpr_ind' (e : sexpr) : P e :=
    let fix go (l : list sexpr) : Forall P l :=
      match l with [] => Forall_nil _ | x :: l' => Forall_cons _ (sexpr_ind' x) (go l') end in
    match e with
    | XInt z => Hint z
    | XFloat m k => Hfloat m k
    | XStr s d => Hstr s d
    | XBool b => Hbool b
    | XNil => Hnil
    | XVar n => Hvar n
    | XNeg x => Hneg x (sexpr_ind' x)
    | XNot x => Hnot x (sexpr_ind' x)
    | XInc x => Hinc x (sexpr_ind' x)
    | XDec x => Hdec x (sexpr_ind' x)
    | XBin o l r => Hbin o l r (sexpr_ind' l) (sexpr_ind' r)
    | XTern c a b => Htern c a b (sexpr_ind' c) (sexpr_ind' a) (sexpr_ind' b)
    | XIndex l i => Hindex l i (sexpr_ind' l) (sexpr_ind' i)
    | XProp l n => Hprop l n (sexpr_ind' l)
    | XCall r fn args => Hcall r fn args (sexpr_ind' r) (go args)
    | XArr els => Harr els (go els)
    | XObj pairs =>
      Hobj pairs ((fix gop (l : list (bytes * sexpr)) : Forall (fun kx => P (snd kx)) l :=
                     match l with [] => Forall_nil _ | x :: l' => Forall_cons _ (sexpr_ind' (snd x)) (gop l') end) pairs)
    end.
End SexprInd.

(* ---------- the theorem *)
From TW Require Import Control Order.

(* calls: the contract of the built-ins is C11's subject; here the specification semantics is
   instantiated with the model's own built-ins and no custom functions *)
Definition model_call_spec (rv : value) (fn : bytes) (avs : list value) : sres :=
  if negb (has_func_table rv) then SErr else
  match call_builtin fn rv avs with
  | Some (BOk v) => SVal v
  | Some (BErr _) => SErr
  | Some BUnmodelled => SUnspec
  | None => SErr
  end.

Definition cx0 : ctx := mkCtx [].

(* literals the printer can spell and the parser accepts *)
Fixpoint lits_ok (e : sexpr) : Prop :=
  match e with
  | XInt z => (0 <= z <= 9223372036854775807)%Z
  | XNeg x | XNot x | XInc x | XDec x => lits_ok x
  | XBin _ l r => lits_ok l /\ lits_ok r
  | XTern c a b => lits_ok c /\ lits_ok a /\ lits_ok b
  | XIndex l i => lits_ok l /\ lits_ok i
  | XProp l _ => lits_ok l
  | XCall r _ args => lits_ok r /\ (fix go (l : list sexpr) : Prop := match l with [] => True | x :: l' => lits_ok x /\ go l' end) args
  | XArr els => (fix go (l : list sexpr) : Prop := match l with [] => True | x :: l' => lits_ok x /\ go l' end) els
  | XObj pairs => (fix go (l : list (bytes * sexpr)) : Prop := match l with [] => True | x :: l' => lits_ok (snd x) /\ go l' end) pairs
  | _ => True
  end.

Definition all_ok (l : list sexpr) : Prop :=
  (fix go (l : list sexpr) : Prop := match l with [] => True | x :: l' => lits_ok x /\ go l' end) l.
Definition all_ok_pairs (l : list (bytes * sexpr)) : Prop :=
  (fix go (l : list (bytes * sexpr)) : Prop := match l with [] => True | x :: l' => lits_ok (snd x) /\ go l' end) l.

Definition lsize (l : list sexpr) : nat := fold_right (fun x n => size x + n)%nat O l.
Definition psize (l : list (bytes * sexpr)) : nat := fold_right (fun kx n => size (snd kx) + n)%nat O l.

(* the property carried by the induction: with enough fuel on both sides the model meets the spec *)
(* the environment is a chain of scopes, innermost first; the specification sees it flattened *)
Definition flat_env (en : env) : list (bytes * value) := concat en.

Definition good (en : env) (e : sexpr) : Prop :=
  lits_ok e -> forall fs, (size e <= fs)%nat ->
  exists n, forall fm, (n <= fm)%nat ->
    meets (eval_expr cx0 fm en (compile e)) (sem model_call_spec fs (flat_env en) e).

Definition meets_list {A} (o : outcome (list A)) (s : lres A) : Prop :=
  match s with
  | LVal l => o = Ok l
  | LErr => exists ln msg, o = Fail ln msg
  | LUnspec => True
  end.

(* the inner list evaluation of sem, named *)
Definition sems (fs : nat) (env : list (bytes * value)) : list sexpr -> lres value :=
  fix go (xs : list sexpr) : lres value :=
    match xs with
    | [] => LVal []
    | x :: xs' => match sem model_call_spec fs env x with
                  | SVal v => match go xs' with LVal vs => LVal (v :: vs) | LErr => LErr | LUnspec => LUnspec end
                  | SErr => LErr
                  | SUnspec => LUnspec
                  end
    end.

Definition semp (fs : nat) (env : list (bytes * value)) : list (bytes * sexpr) -> lres (bytes * value) :=
  fix go (xs : list (bytes * sexpr)) : lres (bytes * value) :=
    match xs with
    | [] => LVal []
    | (k, x) :: xs' =>
      match sem model_call_spec fs env x with
      | SVal v => match go xs' with LVal vs => LVal ((k, v) :: vs) | LErr => LErr | LUnspec => LUnspec end
      | SErr => LErr
      | SUnspec => LUnspec
      end
    end.

Lemma size_le_lsize x l : In x l -> (size x <= lsize l)%nat.
Proof. induction l as [|y l IH]; [intros []|]. intros [<-|H]; unfold lsize in *; cbn [fold_right]; [lia|]. specialize (IH H). lia. Qed.

Lemma exprs_meet (en : env) args fs :
  Forall (good en) args -> all_ok args -> (lsize args <= fs)%nat ->
  exists n, forall fm, (n <= fm)%nat ->
    meets_list (eval_exprs cx0 fm en (map compile args)) (sems fs (flat_env en) args).
Proof.
  set (env := flat_env en). induction args as [|x args IH]; intros Hg Hok Hsz.
  - exists 1%nat. intros fm Hfm. destruct fm; [lia|]. reflexivity.
  - inversion Hg as [|? ? Hx Hrest]; subst. destruct Hok as [Hokx Hokr]. cbn [lsize fold_right] in Hsz.
    destruct (Hx Hokx fs ltac:(lia)) as [n1 H1]. fold env in H1.
    destruct (IH Hrest Hokr ltac:(unfold lsize; lia)) as [n2 H2].
    exists (S (Nat.max n1 n2)). intros fm Hfm. destruct fm as [|fm]; [lia|].
    cbn [map eval_exprs sems].
    specialize (H1 fm ltac:(lia)). specialize (H2 fm ltac:(lia)).
    fold (sems fs env args).
    destruct (sem model_call_spec fs env x) as [v| |]; cbn [meets] in H1.
    + rewrite H1. cbv beta iota.
      destruct (sems fs env args) as [vs| |]; cbn [meets_list] in H2 |- *.
      * rewrite H2. reflexivity.
      * destruct H2 as (ln & msg & ->). do 2 eexists. reflexivity.
      * exact I.
    + destruct H1 as (ln & msg & ->). cbn. do 2 eexists. reflexivity.
    + exact I.
Qed.

Lemma pairs_meet (en : env) ps fs :
  Forall (fun kx => good en (snd kx)) ps -> all_ok_pairs ps -> (psize ps <= fs)%nat ->
  exists n, forall fm, (n <= fm)%nat ->
    meets_list (eval_pairs cx0 fm en (map (fun kx => (fst kx, compile (snd kx))) ps)) (semp fs (flat_env en) ps).
Proof.
  set (env := flat_env en). induction ps as [|[k x] ps IH]; intros Hg Hok Hsz.
  - exists 1%nat. intros fm Hfm. destruct fm; [lia|]. reflexivity.
  - inversion Hg as [|? ? Hx Hrest]; subst. destruct Hok as [Hokx Hokr]. cbn [psize fold_right snd] in Hsz, Hx, Hokx.
    destruct (Hx Hokx fs ltac:(lia)) as [n1 H1]. fold env in H1.
    destruct (IH Hrest Hokr ltac:(unfold psize; lia)) as [n2 H2].
    exists (S (Nat.max n1 n2)). intros fm Hfm. destruct fm as [|fm]; [lia|].
    cbn [map eval_pairs semp fst snd].
    specialize (H1 fm ltac:(lia)). specialize (H2 fm ltac:(lia)).
    fold (semp fs env ps).
    destruct (sem model_call_spec fs env x) as [v| |]; cbn [meets] in H1.
    + rewrite H1. cbv beta iota.
      destruct (semp fs env ps) as [vs| |]; cbn [meets_list] in H2 |- *.
      * rewrite H2. reflexivity.
      * destruct H2 as (ln & msg & ->). do 2 eexists. reflexivity.
      * exact I.
    + destruct H1 as (ln & msg & ->). cbn. do 2 eexists. reflexivity.
    + exact I.
Qed.

Lemma asort_map_values {A B} (g : A -> B) (l : list (bytes * A)) :
  asort (map (fun kx => (fst kx, g (snd kx))) l) = map (fun kx => (fst kx, g (snd kx))) (asort l).
Proof.
  unfold asort. induction l as [|[k x] l IH]; [reflexivity|]. cbn [map fold_right fst snd]. rewrite IH.
  generalize (fold_right ainsert [] l). intro m. induction m as [|[k2 y] m IHm]; [reflexivity|].
  cbn [ainsert map fst snd]. destruct (bytes_leb k k2); [reflexivity|]. cbn [map fst snd]. rewrite IHm. reflexivity.
Qed.

Lemma forall_asort {A} (P : bytes * A -> Prop) l : Forall P l -> Forall P (asort l).
Proof.
  rewrite !Forall_forall. intros H x Hx. apply H.
  eapply Permutation.Permutation_in; [apply Permutation.Permutation_sym, Order.asort_perm|exact Hx].
Qed.

Lemma all_ok_pairs_asort l : all_ok_pairs l -> all_ok_pairs (asort l).
Proof.
  assert (H : forall m, all_ok_pairs m <-> Forall (fun kx => lits_ok (snd kx)) m).
  { induction m as [|x m IH]; [split; constructor|]. split.
    - intros [A B]. constructor; [exact A|apply IH, B].
    - intro F. inversion F; subst. split; [assumption|apply IH; assumption]. }
  intro Hl. apply H. apply forall_asort. apply H, Hl.
Qed.

Lemma psize_asort l : psize (asort l) = psize l.
Proof.
  unfold asort, psize. induction l as [|x l IH]; [reflexivity|]. cbn [fold_right]. rewrite <- IH.
  generalize (fold_right ainsert [] l). intro m. induction m as [|y m IHm]; [reflexivity|].
  cbn [ainsert fold_right]. destruct (bytes_leb (fst x) (fst y)); cbn [fold_right]; [reflexivity|]. rewrite IHm. lia.
Qed.

Lemma alookup_app {A} n (a b : list (bytes * A)) :
  alookup n (a ++ b) = match alookup n a with Some v => Some v | None => alookup n b end.
Proof.
  induction a as [|[k v] a IH]; cbn [app alookup]; [reflexivity|]. destruct (bytes_eqb n k); [reflexivity|exact IH].
Qed.

Lemma env_get_flat (en : env) n : env_get en n = alookup n (flat_env en).
Proof.
  unfold flat_env. induction en as [|fr en IH]; cbn [env_get concat]; [reflexivity|].
  rewrite alookup_app, IH. reflexivity.
Qed.

Lemma compile_line e : expr_line (compile e) = Some 1%nat.
Proof. destruct e; reflexivity. Qed.

Lemma obj_index_meets ln m k : meets (obj_index ln m k) (lookup_prop m k).
Proof.
  unfold obj_index, lookup_prop. destruct (alookup k m) eqn:E1; [reflexivity|].
  destruct k as [|c r]; [cbn; do 2 eexists; reflexivity|].
  unfold upper_first. destruct (c <? 128) eqn:Hc.
  - unfold upper_byte. destruct ((97 <=? c) && (c <=? 122)) eqn:Hl.
    + destruct (alookup ((c - 32) :: r) m); [reflexivity|cbn; do 2 eexists; reflexivity].
    + rewrite E1. cbn. do 2 eexists. reflexivity.
  - destruct ((97 <=? c) && (c <=? 122)) eqn:Hl.
    + apply andb_true_iff in Hl as [_ H2]. apply N.leb_le in H2. apply N.ltb_ge in Hc. lia.
    + exact I.
Qed.

Lemma prefix_neg_meets ln v :
  meets (eval_prefix_op ln [45] v)
        (match v with VInt z => SVal (VInt (wrap64 (- z))) | VFloat x => SVal (VFloat (f_neg x)) | _ => SErr end).
Proof. destruct v; cbn; try reflexivity; do 2 eexists; reflexivity. Qed.

Lemma prefix_not_meets ln v :
  meets (eval_prefix_op ln [33] v)
        (match v with VBool b => SVal (VBool (negb b)) | VNil => SVal (VBool true) | _ => SErr end).
Proof. destruct v; cbn; try reflexivity; do 2 eexists; reflexivity. Qed.

Lemma postfix_inc_meets ln v :
  meets (eval_postfix_op ln [43; 43] v)
        (match v with VInt z => SVal (VInt (wrap64 (z + 1))) | VFloat x => SVal (VFloat (f_add x f_one)) | _ => SErr end).
Proof. destruct v; cbn; try reflexivity; do 2 eexists; reflexivity. Qed.

Lemma postfix_dec_meets ln v :
  meets (eval_postfix_op ln [45; 45] v)
        (match v with
         | VInt z => SVal (VInt (wrap64 (z - 1)))
         | VFloat x => match f_format x with Some _ => SVal (VFloat (f_sub x f_one)) | None => SUnspec end
         | _ => SErr end).
Proof.
  destruct v; cbn; try reflexivity; try (do 2 eexists; reflexivity).
  unfold float_dec. destruct (f_format f); [reflexivity|exact I].
Qed.

(* sequencing: a sub-expression that meets its specification, then a continuation that does *)
Lemma bind_meets (o : outcome value) (s : sres) (k : value -> outcome value) (ks : value -> sres) :
  meets o s -> (forall v, meets (k v) (ks v)) ->
  meets (let! v := o in k v) (sbind s ks).
Proof.
  intros Ho Hk. destruct s as [v| |]; cbn [meets sbind] in *.
  - rewrite Ho. apply Hk.
  - destruct Ho as (ln & msg & ->). do 2 eexists. reflexivity.
  - exact I.
Qed.

Theorem all_good (en : env) e : good en e.
Proof.
  induction e using sexpr_ind'; intros Hok fs Hsz; (destruct fs as [|f]; [cbn [size] in Hsz; lia|]).
  - (* XInt *)
    exists 1%nat. intros fm Hfm. destruct fm; [lia|]. cbn [compile eval_expr sem lits_ok] in *.
    assert ((0 <=? z)%Z && (z <=? 9223372036854775807)%Z = true) as -> by (apply andb_true_iff; lia).
    reflexivity.
  - (* XFloat *)
    exists 1%nat. intros fm Hfm. destruct fm; [lia|]. cbn [compile eval_expr sem].
    destruct (f_of_lit (float_text m k)); [reflexivity|exact I].
  - (* XStr *)
    exists 1%nat. intros fm Hfm. destruct fm; [lia|]. cbn [compile eval_expr sem meets].
    rewrite eval_string_lit_is_esc_spec. reflexivity.
  - exists 1%nat. intros fm Hfm. destruct fm; [lia|]. reflexivity.
  - exists 1%nat. intros fm Hfm. destruct fm; [lia|]. reflexivity.
  - (* XVar *)
    exists 1%nat. intros fm Hfm. destruct fm; [lia|]. cbn [compile eval_expr sem]. rewrite env_get_flat.
    destruct (alookup n (flat_env en)); cbn; [reflexivity|do 2 eexists; reflexivity].
  - (* XNeg *)
    cbn [size] in Hsz. destruct (IHe Hok f ltac:(lia)) as [n Hn]. exists (S n). intros fm Hfm.
    destruct fm as [|fm]; [lia|]. cbn [compile eval_expr sem].
    apply bind_meets; [apply Hn; lia|]. intro v. apply prefix_neg_meets.
  - (* XNot *)
    cbn [size] in Hsz. destruct (IHe Hok f ltac:(lia)) as [n Hn]. exists (S n). intros fm Hfm.
    destruct fm as [|fm]; [lia|]. cbn [compile eval_expr sem].
    apply bind_meets; [apply Hn; lia|]. intro v. apply prefix_not_meets.
  - (* XInc *)
    cbn [size] in Hsz. destruct (IHe Hok f ltac:(lia)) as [n Hn]. exists (S n). intros fm Hfm.
    destruct fm as [|fm]; [lia|]. cbn [compile eval_expr sem].
    apply bind_meets; [apply Hn; lia|]. intro v. apply postfix_inc_meets.
  - (* XDec *)
    cbn [size] in Hsz. destruct (IHe Hok f ltac:(lia)) as [n Hn]. exists (S n). intros fm Hfm.
    destruct fm as [|fm]; [lia|]. cbn [compile eval_expr sem].
    apply bind_meets; [apply Hn; lia|]. intro v. apply postfix_dec_meets.
  - (* XBin *)
    cbn [size] in Hsz. destruct Hok as [Hok1 Hok2].
    destruct (IHe1 Hok1 f ltac:(lia)) as [n1 H1]. destruct (IHe2 Hok2 f ltac:(lia)) as [n2 H2].
    exists (S (Nat.max n1 n2)). intros fm Hfm. destruct fm as [|fm]; [lia|]. cbn [compile eval_expr sem].
    apply bind_meets; [apply H1; lia|]. intro a.
    apply bind_meets; [apply H2; lia|]. intro b.
    rewrite compile_line. apply infix_meets.
  - (* XTern *)
    cbn [size] in Hsz. destruct Hok as (Hok1 & Hok2 & Hok3).
    destruct (IHe1 Hok1 f ltac:(lia)) as [n1 H1]. destruct (IHe2 Hok2 f ltac:(lia)) as [n2 H2].
    destruct (IHe3 Hok3 f ltac:(lia)) as [n3 H3].
    exists (S (Nat.max n1 (Nat.max n2 n3))). intros fm Hfm. destruct fm as [|fm]; [lia|]. cbn [compile eval_expr sem].
    apply bind_meets; [apply H1; lia|]. intro v. rewrite truthy_is_spec.
    destruct (truthy_spec v); [apply H2|apply H3]; lia.
  - (* XIndex *)
    cbn [size] in Hsz. destruct Hok as [Hok1 Hok2].
    destruct (IHe1 Hok1 f ltac:(lia)) as [n1 H1]. destruct (IHe2 Hok2 f ltac:(lia)) as [n2 H2].
    exists (S (Nat.max n1 n2)). intros fm Hfm. destruct fm as [|fm]; [lia|]. cbn [compile eval_expr sem].
    apply bind_meets; [apply H1; lia|]. intro a.
    apply bind_meets; [apply H2; lia|]. intro b.
    destruct a; try (cbn; do 2 eexists; reflexivity); destruct b; try (cbn; do 2 eexists; reflexivity).
    + destruct ((z <? 0)%Z || _); reflexivity.
    + rewrite compile_line. apply obj_index_meets.
  - (* XProp *)
    cbn [size] in Hsz. destruct (IHe Hok f ltac:(lia)) as [n1 H1].
    exists (S n1). intros fm Hfm. destruct fm as [|fm]; [lia|]. cbn [compile eval_expr sem].
    apply bind_meets; [apply H1; lia|]. intro a.
    destruct a; try (cbn; do 2 eexists; reflexivity). apply obj_index_meets.
  - (* XCall *)
    cbn [size] in Hsz. destruct Hok as [Hokr Hoka]. fold (all_ok args) in Hoka. fold (lsize args) in Hsz.
    destruct (IHe Hokr f ltac:(lia)) as [n1 H1].
    destruct (exprs_meet en args f H Hoka ltac:(lia)) as [n2 H2].
    exists (S (S (Nat.max n1 n2))). intros fm Hfm. destruct fm as [|fm]; [lia|].
    cbn [compile eval_expr sem]. fold (sems f (flat_env en)).
    destruct (raw_literal e fn args) as [lit|] eqn:Hraw.
    + (* "literal".raw() *)
      unfold raw_literal in Hraw. destruct e; try discriminate. destruct args; [|discriminate].
      destruct (bytes_eqb fn [114; 97; 119]) eqn:Hfn; [|discriminate]. inversion Hraw; subst lit.
      apply bytes_eqb_eq in Hfn. subst fn.
      destruct fm as [|fm]; [lia|]. cbn [compile map eval_expr eval_exprs has_func_table negb].
      cbv beta iota. cbn [meets].
      change (call_builtin [114; 97; 119] (VStr (eval_string_lit s)) [])
        with (Some (match unescape (eval_string_lit s) with Some t => BOk (VStr t) | None => BUnmodelled end)).
      rewrite eval_string_lit_is_esc_spec, unescape_esc. reflexivity.
    + apply bind_meets; [apply H1; lia|]. intro rv.
      unfold model_call_spec.
      destruct (negb (has_func_table rv)) eqn:Ht.
      * (* no function table for this kind of value: an error whatever the arguments are *)
        destruct (sems f (flat_env en) args); cbn; try exact I; do 2 eexists; reflexivity.
      * specialize (H2 fm ltac:(lia)).
        destruct (sems f (flat_env en) args) as [avs| |]; cbn [meets_list] in H2.
        -- rewrite H2. cbv beta iota.
           destruct (call_builtin fn rv avs) as [[v|msg|]|]; cbn; try reflexivity; try exact I; do 2 eexists; reflexivity.
        -- destruct H2 as (ln & msg & ->). cbn. do 2 eexists. reflexivity.
        -- exact I.
  - (* XArr *)
    cbn [size] in Hsz. fold (all_ok els) in Hok. fold (lsize els) in Hsz.
    destruct (exprs_meet en els f H Hok ltac:(lia)) as [n2 H2].
    exists (S n2). intros fm Hfm. destruct fm as [|fm]; [lia|].
    cbn [compile eval_expr sem]. fold (sems f (flat_env en)).
    specialize (H2 fm ltac:(lia)).
    destruct (sems f (flat_env en) els) as [vs| |]; cbn [meets_list] in H2.
    + rewrite H2. reflexivity.
    + destruct H2 as (ln & msg & ->). cbn. do 2 eexists. reflexivity.
    + exact I.
  - (* XObj *)
    cbn [size] in Hsz. fold (all_ok_pairs pairs) in Hok. fold (psize pairs) in Hsz.
    destruct (pairs_meet en (asort pairs) f (forall_asort _ _ H) (all_ok_pairs_asort _ Hok)
                         ltac:(rewrite psize_asort; lia)) as [n2 H2].
    exists (S n2). intros fm Hfm. destruct fm as [|fm]; [lia|].
    cbn [compile eval_expr sem]. fold (semp f (flat_env en)).
    rewrite asort_map_values.
    specialize (H2 fm ltac:(lia)).
    destruct (semp f (flat_env en) (asort pairs)) as [kvs| |]; cbn [meets_list] in H2.
    + rewrite H2. reflexivity.
    + destruct H2 as (ln & msg & ->). cbn. do 2 eexists. reflexivity.
    + exact I.
Qed.

(* ---------- the statement for a rendered expression *)
Theorem model_evaluates_like_the_specification (en : env) e fs :
  lits_ok e -> (size e <= fs)%nat ->
  exists n, forall fm, (n <= fm)%nat ->
    meets (eval_expr cx0 fm en (compile e)) (sem model_call_spec fs (flat_env en) e).
Proof. intros Hok Hsz. exact (all_good en e Hok fs Hsz). Qed.

(* non-vacuity: 8 / 2 * 2 is (8 / 2) * 2 = 8 for the specification, and the model agrees *)
Example sem_example :
  sem model_call_spec 10 [] (XBin BMul (XBin BDiv (XInt 8) (XInt 2)) (XInt 2)) = SVal (VInt 8) /\
  eval_expr cx0 10 [[]] (compile (XBin BMul (XBin BDiv (XInt 8) (XInt 2)) (XInt 2))) = Ok (VInt 8) /\
  lits_ok (XBin BAdd (XFloat 15 1) (XInt 3)).
Proof. split; [reflexivity|split; [reflexivity|]]. split; [exact I|cbn; lia]. Qed.
