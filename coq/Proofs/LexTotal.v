(* C08, lexer half: NextToken always returns.  The model's only fuel bounds the recursion of
   NextToken after a comment; S (length of the remaining input) is always enough because a
   comment consumes at least its two opening braces. *)
From TW Require Import Bytes GenToken Lexer.
Open Scope N_scope.

Definition remaining (l : lexer) : nat := List.length (rest l).

Lemma readChar_remaining l : remaining (readChar l) = pred (remaining l).
Proof. unfold remaining, readChar; cbn [rest]. destruct (rest l); reflexivity. Qed.

Lemma readN_remaining n : forall l, remaining (readN n l) = (remaining l - n)%nat.
Proof.
  induction n as [|n IH]; intros l; cbn [readN]; [lia|].
  rewrite IH, readChar_remaining. lia.
Qed.

Lemma skipWs_remaining r : forall l, (remaining (skipWs r l) <= remaining l)%nat.
Proof.
  induction r as [|c r IH]; intros l; cbn [skipWs]; [lia|].
  destruct (isWs (cur l)); [|lia]. specialize (IH (readChar l)). rewrite readChar_remaining in IH. lia.
Qed.

Lemma skipComment_loop_remaining r : forall l, (remaining (skipComment_loop r l) <= remaining l)%nat.
Proof.
  induction r as [|c r IH]; intros l; cbn [skipComment_loop]; [lia|].
  destruct ((cur l =? 0) || prefixb [45; 45; 125; 125] (rest l)); [lia|].
  specialize (IH (readChar l)). rewrite readChar_remaining in IH. lia.
Qed.

Lemma skipComment_remaining l : (remaining (snd (skipComment l)) <= remaining l)%nat.
Proof.
  unfold skipComment.
  pose proof (skipComment_loop_remaining (rest l) l) as H.
  set (l1 := skipComment_loop (rest l) l) in *.
  destruct (cur (setModes l1 true (isDirective l1)) =? 0); cbn [snd].
  - exact H.
  - rewrite readN_remaining. unfold remaining in *. cbn [rest setModes] in *. lia.
Qed.

(* "{{" is there: bracesToken consumes two bytes *)
Lemma braces_consumes l t lit :
  cur l = 123 -> peekChar l = 123 ->
  (remaining (snd (bracesToken l t lit)) + 2 = remaining l)%nat.
Proof.
  intros Hc Hp. unfold bracesToken, fixedToken. cbn [snd].
  rewrite readN_remaining. unfold remaining. cbn [rest tokenBegins setModes].
  unfold cur, peekChar in *. destruct (rest l) as [|a [|b r]]; cbn in *; try discriminate; lia.
Qed.

Theorem nextToken_total : forall fuel l, (remaining l < fuel)%nat -> nextToken fuel l <> None.
Proof.
  induction fuel as [|fuel IH]; intros l Hf; [lia|].
  cbn [nextToken].
  set (l1 := if isHTML l then l else skipWhitespace l).
  assert (H1 : (remaining l1 <= remaining l)%nat).
  { unfold l1. destruct (isHTML l); [lia|]. unfold skipWhitespace. apply skipWs_remaining. }
  destruct (cur l1 =? 0); [discriminate|].
  destruct ((cur l1 =? 123) && (peekChar l1 =? 123)) eqn:Eb.
  - apply andb_true_iff in Eb as [Ec Ep]. apply N.eqb_eq in Ec. apply N.eqb_eq in Ep.
    pose proof (braces_consumes l1 T_LBRACES [123; 123] Ec Ep) as Hb.
    destruct (bracesToken l1 T_LBRACES [123; 123]) as [t l2]. cbn [snd] in Hb.
    destruct ((cur l2 =? 45) && (peekChar l2 =? 45)); [|discriminate].
    pose proof (skipComment_remaining l2) as Hs.
    destruct (skipComment l2) as [terminated l3]. cbn [snd] in Hs.
    destruct terminated; [|discriminate].
    apply IH. lia.
  - destruct (negb (isHTML l1) && (cur l1 =? 125) && (peekChar l1 =? 125) && (braceCount l1 =? 0)%Z);
      [discriminate|].
    destruct (negb (isHTML l1)); [discriminate|].
    destruct (fst (isDirectiveToken l1)); [discriminate|].
    destruct (readHTML l1). discriminate.
Qed.

Theorem nextTok_total l : nextTok l <> None.
Proof. unfold nextTok. apply nextToken_total. unfold remaining. lia. Qed.
