(* C19, tiling: in a source that spells a checked list of items (the domain of the round-trip theorem)
   the tokens and the bytes between them tile the source: the source is gap_1 token_1 gap_2 token_2
   ... trailing gap, every token occupies exactly the bytes of its spelling (LexRound.lex_spell_t
   places it there), and every gap is blank (inside code) or a run of comments (in text mode). *)
From Coq Require Import String Lia.
From TW Require Import Bytes GenToken Lexer Positions LexSpell LexRound.
Open Scope N_scope.

Definition gap_fine (g : bytes) : Prop := forallb isWs g = true \/ gap_html g = true.

Lemma item_gap_fine m it fol : item_ok m it fol = true -> gap_fine (igap it).
Proof.
  unfold item_ok, gap_fine. intro H.
  destruct (ity it); try discriminate H; destruct (mh m);
    repeat match type of H with _ && _ = true => let A := fresh in apply andb_true_iff in H as [H A] end;
    first [left; assumption | right; assumption | discriminate].
Qed.

Theorem gaps_are_blank_or_comments : forall its m tg,
  items_ok_t m its tg = true -> Forall (fun it => gap_fine (igap it)) its /\ gap_fine tg.
Proof.
  induction its as [|it r IH]; intros m tg H; cbn [items_ok_t] in H.
  - split; [constructor|]. unfold final_ok in H. unfold gap_fine. destruct (mh m); [right|left]; exact H.
  - apply andb_true_iff in H as [H1 H2]. destruct (IH _ _ H2) as [F G].
    split; [constructor; [exact (item_gap_fine m it _ H1)|exact F]|exact G].
Qed.

(* the source is its items and gaps, in order (definition of spell_t), the tokens are exactly the
   items at those places (lex_spell_t), the gaps are blank or comments *)
Theorem tokens_tile_the_source its tg :
  source_ok_t its tg = true ->
  lex_all (spell_t its tg) = Some (place_t (spell_t its tg) 0 its (List.length tg)) /\
  spell_t its tg = fold_right (fun it acc => igap it ++ isrc it ++ acc) tg its /\
  Forall (fun it => gap_fine (igap it)) its /\ gap_fine tg.
Proof.
  intro H. split; [exact (lex_spell_t its tg H)|]. split.
  - clear H. induction its as [|it r IH]; [reflexivity|]. cbn [spell_t fold_right]. rewrite IH. reflexivity.
  - unfold source_ok_t in H. apply andb_true_iff in H as [_ H]. exact (gaps_are_blank_or_comments its m0 tg H).
Qed.
