(* C12: Go data handed to a render is visible with the same structure.
   goval (Model/Values.v) is the abstract Go value the harness builds by reflection; to_object
   mirrors object.NativeToObject; env_from_map mirrors EnvFromMap. *)
From Coq Require Import String Lia.
From TW Require Import Bytes Floats Values Ast Builtins Eval.
Open Scope N_scope.

(* ---- induction over Go values, through the lists *)
Section GovalInd.
  Variable P : goval -> Prop.
  Hypothesis Hnil : P GNil.
  Hypothesis Hbool : forall b, P (GBool b).
  Hypothesis Hint : forall z, P (GInt z).
  Hypothesis Hfloat : forall f, P (GFloat f).
  Hypothesis Hstr : forall s, P (GStr s).
  Hypothesis Hslice : forall l, Forall P l -> P (GSlice l).
  Hypothesis Hmap : forall m, Forall (fun kv => P (snd kv)) m -> P (GMap m).
  Hypothesis Hstruct : forall fs, Forall (fun f => P (snd f)) fs -> P (GStruct fs).
  Hypothesis Hptr : forall v, P v -> P (GPtr v).
  Hypothesis Hnilptr : P GNilPtr.
  Hypothesis Hother : P GOther.

  Fixpoint goval_ind' (g : goval) : P g :=
    match g with
    | GNil => Hnil
    | GBool b => Hbool b
    | GInt z => Hint z
    | GFloat f => Hfloat f
    | GStr s => Hstr s
    | GSlice l => Hslice l ((fix go (l : list goval) : Forall P l :=
                              match l with [] => Forall_nil _ | x :: l' => Forall_cons _ (goval_ind' x) (go l') end) l)
    | GMap m => Hmap m ((fix go (m : list (bytes * goval)) : Forall (fun kv => P (snd kv)) m :=
                           match m with [] => Forall_nil _ | x :: m' => Forall_cons _ (goval_ind' (snd x)) (go m') end) m)
    | GStruct fs => Hstruct fs ((fix go (fs : list (bytes * bool * goval)) : Forall (fun f => P (snd f)) fs :=
                                   match fs with [] => Forall_nil _ | x :: fs' => Forall_cons _ (goval_ind' (snd x)) (go fs') end) fs)
    | GPtr v => Hptr v (goval_ind' v)
    | GNilPtr => Hnilptr
    | GOther => Hother
    end.
End GovalInd.

(* ---- which Go values are supported: no unsupported kind at any depth, except under an
   unexported struct field (those are never looked at) *)
Fixpoint supported (g : goval) : bool :=
  match g with
  | GOther => false
  | GSlice l => forallb supported l
  | GMap m => forallb (fun kv : bytes * goval => supported (snd kv)) m
  | GStruct fs => forallb (fun f : bytes * bool * goval => match f with (_, ex, v) => if ex then supported v else true end) fs
  | GPtr v => supported v
  | _ => true
  end.

Lemma all_some_map_some {A B} (f : A -> option B) l :
  all_some_map f l <> None <-> Forall (fun x => f x <> None) l.
Proof.
  induction l as [|x l IH]; cbn [all_some_map].
  - split; [constructor|discriminate].
  - destruct (f x) eqn:E.
    + destruct (all_some_map f l) eqn:E2.
      * split; [intros _; constructor; [congruence|apply IH; discriminate]|discriminate].
      * split; [congruence|]. intro H. inversion H; subst. apply IH in H3. congruence.
    + split; [congruence|]. intro H. inversion H; subst. congruence.
Qed.

(* the conversion succeeds exactly on the supported values: an unsupported kind ANYWHERE in the
   data (in a slice, a map, an exported field, behind a pointer) makes it fail *)
Theorem to_object_some_iff_supported g : to_object g <> None <-> supported g = true.
Proof.
  induction g as [| | | | |l IH|m IH|fs IH|v IH| |] using goval_ind'; cbn [to_object supported];
    try (split; [reflexivity|discriminate]).
  - (* slice *)
    rewrite forallb_forall. rewrite Forall_forall in IH.
    destruct (all_some_map to_object l) eqn:E.
    + split; [|discriminate]. intros _ x Hx.
      assert (H : all_some_map to_object l <> None) by congruence.
      apply all_some_map_some in H. rewrite Forall_forall in H. apply IH; [exact Hx|apply H, Hx].
    + split; [congruence|]. intro H. exfalso.
      assert (H2 : all_some_map to_object l <> None).
      { apply all_some_map_some. apply Forall_forall. intros x Hx. apply IH; [exact Hx|apply H, Hx]. }
      congruence.
  - (* map *)
    rewrite forallb_forall. rewrite Forall_forall in IH.
    set (f := fun kv : bytes * goval => let (k, x) := kv in match to_object x with Some v => Some (k, v) | None => None end).
    assert (Hf : forall kv, f kv <> None <-> to_object (snd kv) <> None).
    { intros [k x]. cbn. destruct (to_object x); split; congruence. }
    destruct (all_some_map f m) eqn:E.
    + split; [|discriminate]. intros _ x Hx.
      assert (H : all_some_map f m <> None) by congruence.
      apply all_some_map_some in H. rewrite Forall_forall in H. apply IH; [exact Hx|]. apply Hf, H, Hx.
    + split; [congruence|]. intro H. exfalso.
      assert (H2 : all_some_map f m <> None).
      { apply all_some_map_some. apply Forall_forall. intros x Hx. apply Hf. apply IH; [exact Hx|apply H, Hx]. }
      congruence.
  - (* struct *)
    rewrite forallb_forall. rewrite Forall_forall in IH.
    set (f := fun fl : bytes * bool * goval =>
                let (p, v) := fl in let (n, ex) := p in
                if ex then match to_object v with Some o => Some (Some (n, o)) | None => None end
                else Some (@None (bytes * value))).
    assert (Hf : forall fl, f fl <> None <->
                            (let '(_, ex, v) := fl in if ex then to_object v <> None else True)).
    { intros [[n ex] v]. cbn. destruct ex; [destruct (to_object v); split; congruence|split; [trivial|discriminate]]. }
    destruct (all_some_map f fs) eqn:E.
    + split; [|discriminate]. intros _ [[n ex] v] Hx.
      assert (H : all_some_map f fs <> None) by congruence.
      apply all_some_map_some in H. rewrite Forall_forall in H.
      destruct ex; [|reflexivity]. apply (IH _ Hx). specialize (H _ Hx). apply Hf in H. exact H.
    + split; [congruence|]. intro H. exfalso.
      assert (H2 : all_some_map f fs <> None).
      { apply all_some_map_some. apply Forall_forall. intros [[n ex] v] Hx. apply Hf.
        destruct ex; [|exact I]. apply (IH _ Hx). exact (H _ Hx). }
      congruence.
  - exact IH.
  - split; [congruence|discriminate].
Qed.

Corollary unsupported_anywhere_fails g : supported g = false -> to_object g = None.
Proof.
  intro H. destruct (to_object g) eqn:E; [|reflexivity].
  assert (to_object g <> None) by congruence. apply to_object_some_iff_supported in H0. congruence.
Qed.

(* ---- shape: what each kind of Go value becomes *)
Lemma all_some_map_spec {A B} (f : A -> option B) l r :
  all_some_map f l = Some r <-> Forall2 (fun x y => f x = Some y) l r.
Proof.
  revert r; induction l as [|x l IH]; intros r; cbn [all_some_map].
  - split; [intros [= <-]; constructor|intro H; inversion H; reflexivity].
  - destruct (f x) eqn:E.
    + destruct (all_some_map f l) eqn:E2.
      * split.
        -- intros [= <-]. constructor; [exact E|apply IH; reflexivity].
        -- intro H. inversion H; subst. apply IH in H4. congruence.
      * split; [discriminate|]. intro H. inversion H; subst. apply IH in H4. discriminate.
    + split; [discriminate|]. intro H. inversion H; subst. congruence.
Qed.

Theorem scalars_keep_their_value :
  to_object GNil = Some VNil /\ (forall b, to_object (GBool b) = Some (VBool b)) /\
  (forall z, to_object (GInt z) = Some (VInt (wrap64 z))) /\
  (forall f, to_object (GFloat f) = Some (VFloat f)) /\
  (forall s, to_object (GStr s) = Some (VStr s)).
Proof. repeat split. Qed.

Theorem pointers_are_transparent v : to_object (GPtr v) = to_object v /\ to_object GNilPtr = Some VNil.
Proof. split; reflexivity. Qed.

(* a slice becomes the array of its converted elements, position by position *)
Theorem slice_elements l vs :
  to_object (GSlice l) = Some (VArr vs) ->
  List.length vs = List.length l /\
  forall i x, nth_error l i = Some x -> exists v, nth_error vs i = Some v /\ to_object x = Some v.
Proof.
  cbn [to_object]. destruct (all_some_map to_object l) as [r|] eqn:E; [|discriminate].
  intros [= <-]. apply all_some_map_spec in E.
  induction E as [|x y l r Hxy _ IH]; [split; [reflexivity|intros [|i] x H; discriminate]|].
  destruct IH as [Hlen Hnth]. split; [cbn; congruence|].
  intros [|i] z Hz; cbn in *.
  - inversion Hz; subst. exists y. split; [reflexivity|exact Hxy].
  - apply Hnth, Hz.
Qed.

(* ---- lookup in what fold_left aset builds *)
Lemma alookup_aset {A} k k' (v : A) m :
  alookup k (aset k' v m) = if bytes_eqb k k' then Some v else alookup k m.
Proof.
  induction m as [|[k2 v2] m IH]; cbn [aset alookup].
  - reflexivity.
  - destruct (bytes_eqb k' k2) eqn:E2; cbn [alookup].
    + apply bytes_eqb_eq in E2. subst k2. destruct (bytes_eqb k k'); reflexivity.
    + destruct (bytes_eqb k k2) eqn:E3.
      * apply bytes_eqb_eq in E3. subst k2.
        destruct (bytes_eqb k k') eqn:E4; [|reflexivity].
        apply bytes_eqb_eq in E4. subst k'. rewrite bytes_eqb_refl in E2. discriminate.
      * exact IH.
Qed.

Lemma alookup_fold_aset {A} k (kvs : list (bytes * A)) acc :
  NoDup (map fst kvs) ->
  alookup k (fold_left (fun (a : list (bytes * A)) kv => aset (fst kv) (snd kv) a) kvs acc) =
  match alookup k kvs with Some v => Some v | None => alookup k acc end.
Proof.
  revert acc; induction kvs as [|[k1 v1] kvs IH]; intros acc Hnd; cbn [fold_left alookup map fst snd].
  - reflexivity.
  - inversion Hnd as [|? ? Hni Hnd']; subst. rewrite IH by exact Hnd'. rewrite alookup_aset.
    destruct (bytes_eqb k k1) eqn:E.
    + apply bytes_eqb_eq in E. subst k1.
      assert (alookup k kvs = None) as ->; [|reflexivity].
      clear -Hni. induction kvs as [|[k2 v2] kvs IH]; [reflexivity|]. cbn [alookup map fst] in *.
      destruct (bytes_eqb k k2) eqn:E; [apply bytes_eqb_eq in E; subst; exfalso; apply Hni; left; reflexivity|].
      apply IH. intro H. apply Hni. right. exact H.
    + reflexivity.
Qed.

(* a string-keyed Go map (distinct keys): every key is a property holding the converted value,
   and there are no other properties *)
Theorem map_entries m o :
  NoDup (map fst m) -> to_object (GMap m) = Some (VObj o) ->
  forall k, alookup k o = match alookup k m with
                          | Some g => to_object g
                          | None => None
                          end.
Proof.
  intros Hnd. cbn [to_object].
  set (f := fun kv : bytes * goval => let (k, x) := kv in match to_object x with Some v => Some (k, v) | None => None end).
  destruct (all_some_map f m) as [kvs|] eqn:E; [|discriminate].
  intros [= <-] k. apply all_some_map_spec in E.
  assert (Hk : map fst kvs = map fst m).
  { clear -E. induction E as [|[k1 x] [k2 v] l r H _ IH]; [reflexivity|]. cbn in *.
    destruct (to_object x); [|discriminate]. inversion H; subst. f_equal. exact IH. }
  rewrite alookup_fold_aset by (rewrite Hk; exact Hnd). cbn [alookup].
  clear Hk Hnd. induction E as [|[k1 x] [k2 v] l r H _ IH]; [reflexivity|].
  cbn in H. destruct (to_object x) eqn:Ex; [|discriminate]. inversion H; subst k2 v.
  cbn [alookup]. destruct (bytes_eqb k k1); [symmetry; exact Ex|exact IH].
Qed.

(* ---- structs: exported fields are properties, unexported ones are not reachable *)
Fixpoint field_lookup (n : bytes) (fs : list (bytes * bool * goval)) : option (bool * goval) :=
  match fs with
  | [] => None
  | (n', ex, v) :: fs' => if bytes_eqb n n' then Some (ex, v) else field_lookup n fs'
  end.

Lemma alookup_fold_aset_opt {A} k (kvs : list (option (bytes * A))) acc :
  alookup k (fold_left (fun (a : list (bytes * A)) kv => match kv with Some (k', v) => aset k' v a | None => a end) kvs acc) =
  match alookup k (rev (flat_map (fun kv => match kv with Some p => [p] | None => [] end) kvs)) with
  | Some v => Some v | None => alookup k acc end.
Proof.
  revert acc; induction kvs as [|[[k1 v1]|] kvs IH]; intros acc; cbn [fold_left flat_map rev app].
  - reflexivity.
  - rewrite IH. cbn [app]. rewrite alookup_aset.
    set (l := rev (flat_map _ kvs)).
    assert (Happ : forall (l1 : list (bytes * A)) x, alookup k (l1 ++ [x]) =
                    match alookup k l1 with Some v => Some v | None => alookup k [x] end).
    { induction l1 as [|[k2 v2] l1 IHl]; intros x; cbn [app alookup]; [destruct x; reflexivity|].
      destruct (bytes_eqb k k2); [reflexivity|apply IHl]. }
    rewrite Happ. cbn [alookup]. destruct (alookup k l); [reflexivity|]. destruct (bytes_eqb k k1); reflexivity.
  - apply IH.
Qed.

(* the exported fields, converted, in declaration order *)
Fixpoint exported (fs : list (bytes * bool * goval)) : option (list (bytes * value)) :=
  match fs with
  | [] => Some []
  | (n, true, v) :: r =>
    match to_object v, exported r with Some o, Some l => Some ((n, o) :: l) | _, _ => None end
  | (_, false, _) :: r => exported r
  end.

Definition field_names (fs : list (bytes * bool * goval)) : list bytes :=
  map (fun f : bytes * bool * goval => fst (fst f)) fs.

Lemma exported_names fs l x : exported fs = Some l -> In x (map fst l) -> In x (field_names fs).
Proof.
  revert l; induction fs as [|[[n ex] v] fs IH]; intros l H Hx; cbn [exported] in H.
  - inversion H; subst. exact Hx.
  - destruct ex.
    + destruct (to_object v); [|discriminate]. destruct (exported fs) as [l'|]; [|discriminate].
      inversion H; subst l. cbn in Hx |- *. destruct Hx as [<-|Hx]; [left; reflexivity|right; eapply IH; [reflexivity|exact Hx]].
    + cbn. right. eapply IH; eassumption.
Qed.

Lemma exported_nodup fs l : NoDup (field_names fs) -> exported fs = Some l -> NoDup (map fst l).
Proof.
  revert l; induction fs as [|[[n ex] v] fs IH]; intros l Hnd H; cbn [exported] in H.
  - inversion H; subst. constructor.
  - inversion Hnd as [|? ? Hni Hnd']; subst. destruct ex.
    + destruct (to_object v); [|discriminate]. destruct (exported fs) as [l'|] eqn:E; [|discriminate].
      inversion H; subst l. cbn. constructor; [|apply IH; [exact Hnd'|reflexivity]].
      intro Hin. apply Hni. eapply exported_names; [exact E|exact Hin].
    + apply IH; assumption.
Qed.

Lemma exported_lookup fs l n :
  NoDup (field_names fs) -> exported fs = Some l ->
  alookup n l = match field_lookup n fs with Some (true, v) => to_object v | _ => None end.
Proof.
  revert l; induction fs as [|[[n1 ex] v] fs IH]; intros l Hnd H; cbn [exported] in H; cbn [field_lookup].
  - inversion H; subst. reflexivity.
  - inversion Hnd as [|? ? Hni Hnd']; subst. destruct ex.
    + destruct (to_object v) eqn:Ev; [|discriminate]. destruct (exported fs) as [l'|] eqn:E; [|discriminate].
      inversion H; subst l. cbn [alookup]. destruct (bytes_eqb n n1); [symmetry; exact Ev|apply IH; [exact Hnd'|reflexivity]].
    + destruct (bytes_eqb n n1) eqn:En; [|apply IH; assumption].
      apply bytes_eqb_eq in En. subst n1.
      (* the name is an unexported field: no exported field has it, so nothing is bound under it *)
      destruct (alookup n l) eqn:Ea; [|reflexivity]. exfalso. apply Hni.
      eapply exported_names; [exact H|].
      clear -Ea. induction l as [|[k w] l IHl]; [discriminate|]. cbn [alookup map fst] in *.
      destruct (bytes_eqb n k) eqn:E; [apply bytes_eqb_eq in E; subst; left; reflexivity|right; apply IHl, Ea].
Qed.

Lemma struct_conversion fs :
  to_object (GStruct fs) =
  match exported fs with
  | Some l => Some (VObj (fold_left (fun (a : list (bytes * value)) kv => aset (fst kv) (snd kv) a) l []))
  | None => None
  end.
Proof.
  cbn [to_object].
  set (f := fun fl : bytes * bool * goval =>
              let (p, v) := fl in let (n, ex) := p in
              if ex then match to_object v with Some o => Some (Some (n, o)) | None => None end
              else Some (@None (bytes * value))).
  set (g := fun (acc : list (bytes * value)) (kv : option (bytes * value)) =>
              match kv with Some (k, v) => aset k v acc | None => acc end).
  set (h := fun (a : list (bytes * value)) (kv : bytes * value) => aset (fst kv) (snd kv) a).
  assert (H : forall acc,
             match all_some_map f fs with Some kvs => Some (VObj (fold_left g kvs acc)) | None => None end =
             match exported fs with Some l => Some (VObj (fold_left h l acc)) | None => None end).
  { induction fs as [|[[n ex] v] fs IH]; intros acc; [reflexivity|].
    cbn [all_some_map exported f]. destruct ex.
    - destruct (to_object v); [|reflexivity].
      specialize (IH (aset n v0 acc)).
      destruct (all_some_map f fs), (exported fs); cbn [fold_left g h fst snd] in *; try exact IH; try discriminate; reflexivity.
    - specialize (IH acc).
      destruct (all_some_map f fs), (exported fs); cbn [fold_left g] in *; try exact IH; try discriminate; reflexivity. }
  apply H.
Qed.

Theorem struct_fields fs o :
  NoDup (field_names fs) ->
  to_object (GStruct fs) = Some (VObj o) ->
  forall n, alookup n o = match field_lookup n fs with
                          | Some (true, v) => to_object v
                          | _ => None           (* no such field, or an unexported one *)
                          end.
Proof.
  intros Hnd H n. rewrite struct_conversion in H.
  destruct (exported fs) as [l|] eqn:E; [|discriminate]. inversion H; subst o.
  rewrite alookup_fold_aset by (eapply exported_nodup; eassumption). cbn [alookup].
  rewrite (exported_lookup fs l n Hnd E).
  destruct (field_lookup n fs) as [[[|] v]|]; try reflexivity. destruct (to_object v); reflexivity.
Qed.

(* the Go convention {{ user.name }} for the exported field Name: the evaluator retries with the
   first letter upper-cased *)
Theorem field_by_lowercase_name ln fs o c r v :
  NoDup (field_names fs) ->
  to_object (GStruct fs) = Some (VObj o) ->
  (65 <=? c) && (c <=? 90) = true ->
  field_lookup (c :: r) fs = Some (true, v) ->
  field_lookup ((c + 32) :: r) fs = None ->
  obj_index ln o ((c + 32) :: r) = match to_object v with Some w => Ok w | None => obj_index ln o ((c + 32) :: r) end.
Proof.
  intros Hnd Ho Hc Hf Hl.
  pose proof (struct_fields fs o Hnd Ho) as Hlook.
  unfold obj_index. rewrite (Hlook ((c + 32) :: r)), Hl.
  assert (Hup : upper_first ((c + 32) :: r) = c :: r).
  { unfold upper_first, upper_byte. apply andb_true_iff in Hc as [H1 H2].
    apply N.leb_le in H1, H2.
    assert ((c + 32 <? 128) = true) as -> by (apply N.ltb_lt; lia).
    assert ((97 <=? c + 32) && (c + 32 <=? 122) = true) as ->
        by (apply andb_true_iff; split; apply N.leb_le; lia).
    f_equal. lia. }
  rewrite Hup, (Hlook (c :: r)), Hf. destruct (to_object v); reflexivity.
Qed.

Theorem unexported_field_unreachable ln fs o n v :
  NoDup (field_names fs) ->
  to_object (GStruct fs) = Some (VObj o) ->
  field_lookup n fs = Some (false, v) ->
  field_lookup (upper_first n) fs = None \/ upper_first n = n ->
  exists msg, obj_index ln o n = Fail ln msg.
Proof.
  intros Hnd Ho Hf Hup. pose proof (struct_fields fs o Hnd Ho) as Hlook.
  unfold obj_index. rewrite (Hlook n), Hf.
  destruct n as [|c r]; [eexists; reflexivity|].
  rewrite (Hlook (upper_first (c :: r))).
  destruct Hup as [Hup|Hup]; [rewrite Hup|rewrite Hup, Hf]; eexists; reflexivity.
Qed.

(* ---- binding the data map *)
Theorem data_entry_visible k g v :
  bytes_eqb k str_loop = false -> to_object g = Some v ->
  env_from_map [(k, g)] = EnvOk [[(k, v)]].
Proof.
  intros Hk Hv. unfold env_from_map. cbn [asort fold_right ainsert env_from_sorted]. rewrite Hv.
  unfold env_set. rewrite Hk. cbn [env_get alookup aset]. reflexivity.
Qed.

Theorem unsupported_data_fails k g rest :
  supported g = false -> NoDup (map fst ((k, g) :: rest)) ->
  (forall k' g', In (k', g') rest -> bytes_eqb k' str_loop = false /\ supported g' = true) ->
  bytes_eqb k str_loop = false ->
  env_from_map [(k, g)] = EnvUnsupported.
Proof.
  intros Hs _ _ Hk. unfold env_from_map. cbn [asort fold_right ainsert env_from_sorted].
  rewrite (unsupported_anywhere_fails g Hs). reflexivity.
Qed.

Theorem reserved_name_in_data_fails g v :
  to_object g = Some v -> exists msg, env_from_map [(str_loop, g)] = EnvErr msg.
Proof.
  intro Hv. unfold env_from_map. cbn [asort fold_right ainsert env_from_sorted]. rewrite Hv.
  unfold env_set. rewrite bytes_eqb_refl. eexists; reflexivity.
Qed.

(* non-vacuity *)
Example binding_example :
  to_object (GStruct [(bs "Name", true, GStr (bs "bob")); (bs "age", false, GInt 3);
                      (bs "Tags", true, GSlice [GPtr (GInt 7); GNilPtr])]) =
  Some (VObj [(bs "Name", VStr (bs "bob")); (bs "Tags", VArr [VInt 7; VNil])]) /\
  supported (GMap [(bs "k", GSlice [GStruct [(bs "F", true, GOther)]])]) = false.
Proof. split; reflexivity. Qed.
