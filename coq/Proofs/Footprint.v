(* C15 / C16: shared-state footprint of the rendering entry points, computed from the tables the
   translator regenerates from every non-test .go file of /repo on every run (Gen/GenFootprint.v),
   and the generic theorem that calls whose steps do not change what any step reads return, in
   every interleaving, exactly what they return alone. *)
From Coq Require Import String List NArith MSets.MSetPositive Lia.
From TW Require Import GenFootprint.
Import ListNotations.
Local Open Scope string_scope.

(* ---------- reachability in the call graph *)
Definition key (n : N) : positive := N.succ_pos n.

Fixpoint reach (fuel : nat) (todo : list N) (seen : PositiveSet.t) (acc : list N) : list N :=
  match fuel with
  | O => acc
  | S k =>
    match todo with
    | [] => acc
    | f :: rest =>
      if PositiveSet.mem (key f) seen then reach k rest seen acc
      else
        match nth_error fn_table (N.to_nat f) with
        | None => reach k rest seen acc
        | Some fp => reach k (fp_callees fp ++ rest) (PositiveSet.add (key f) seen) (f :: acc)
        end
    end
  end.

Definition total_edges : nat := fold_left (fun n fp => n + S (List.length (fp_callees fp)))%nat fn_table 0%nat.

Fixpoint index_of (s : string) (l : list string) (i : N) : option N :=
  match l with
  | [] => None
  | x :: l' => if String.eqb s x then Some i else index_of s l' (N.succ i)
  end.

Definition entries (names : list string) : list N :=
  flat_map (fun s => match index_of s fn_names 0%N with Some i => [i] | None => [] end) names.

Definition reachable (names : list string) : list N :=
  reach (S (S total_edges + List.length names)) (entries names) PositiveSet.empty [].

Definition fps (l : list N) : list fn_fp :=
  flat_map (fun i => match nth_error fn_table (N.to_nat i) with Some fp => [fp] | None => [] end) l.

Fixpoint insert_str (s : string) (l : list string) : list string :=
  match l with
  | [] => [s]
  | x :: l' => match String.compare s x with
               | Lt => s :: l
               | Eq => l
               | Gt => x :: insert_str s l'
               end
  end.
Definition sort_dedup (l : list string) : list string := fold_right insert_str [] l.

Definition collect (proj : fn_fp -> list string) (names : list string) : list string :=
  sort_dedup (flat_map proj (fps (reachable names))).

(* ---------- the entry points *)
Definition render_entries : list string :=
  ["textwire.Template.String"; "textwire.Template.Response"; "textwire.EvaluateString"; "textwire.EvaluateFile"].

Lemma render_entries_exist : List.length (entries render_entries) = 4%nat.
Proof. vm_compute. reflexivity. Qed.

(* the package-level variables of the module: a new one has to be looked at *)
Lemma pkg_vars_reviewed :
  pkg_vars =
  ["evaluator.BREAK"; "evaluator.CONTINUE"; "evaluator.FALSE"; "evaluator.NIL"; "evaluator.TRUE"; "evaluator.functions";
   "lexer.simpleTokens"; "lexer.tokensWithOptionalParens"; "lexer.tokensWithoutParens"; "object.outputHTML";
   "parser.precedences"; "textwire.customFunc"; "textwire.defaultErrorPage"; "textwire.userConfig";
   "textwire.usesTemplates"; "token.directives"; "token.keywords"; "token.tokens"].
Proof. vm_compute. reflexivity. Qed.

(* 1. no function reachable from a rendering entry point assigns a package-level variable
      (or takes the address of one) *)
Theorem render_paths_assign_nothing : collect fp_writes render_entries = [].
Proof. vm_compute. reflexivity. Qed.

(* 2. the only method called on a package-level variable is the atomic store of the mode flag *)
Theorem render_paths_touch_only_the_atomic_flag :
  collect fp_touches render_entries = ["textwire.usesTemplates.Store"].
Proof. vm_compute. reflexivity. Qed.

(* 3. ... and nothing reachable from a rendering entry point reads that flag: what is read is
      the reviewed list of tables, singletons, configuration and registry *)
Theorem render_paths_read_only_reviewed_state :
  collect fp_reads render_entries =
  ["evaluator.BREAK"; "evaluator.CONTINUE"; "evaluator.FALSE"; "evaluator.NIL"; "evaluator.TRUE"; "evaluator.functions";
   "lexer.simpleTokens"; "lexer.tokensWithOptionalParens"; "lexer.tokensWithoutParens"; "object.outputHTML";
   "parser.precedences"; "textwire.customFunc"; "textwire.defaultErrorPage"; "textwire.userConfig";
   "token.directives"; "token.keywords"; "token.tokens"].
Proof. vm_compute. reflexivity. Qed.

Corollary render_paths_never_read_the_flag :
  In "textwire.usesTemplates" (collect fp_reads render_entries) -> False.
Proof.
  rewrite render_paths_read_only_reviewed_state. cbn [In].
  intro H. repeat (destruct H as [H|H]; [discriminate H|]). exact H.
Qed.

(* 4. the functions reachable from a rendering entry point that assign a field of an ast node are
      all methods of the parser, which builds the tree of the source it was handed (EvaluateString /
      the error page); the evaluator, the object package and Template.String itself assign none *)
Definition is_parser_fn (i : N) : bool :=
  match nth_error fn_names (N.to_nat i) with
  | Some s => String.prefix "parser.Parser." s
  | None => false
  end.

Theorem ast_writers_on_render_paths_are_the_parser :
  forallb (fun i => match nth_error fn_table (N.to_nat i) with
                    | Some fp => match fp_astw fp with [] => true | _ => is_parser_fn i end
                    | None => true end) (reachable render_entries) = true.
Proof. vm_compute. reflexivity. Qed.

Theorem evaluation_assigns_no_ast_field :
  collect fp_astw ["evaluator.Evaluator.Eval"; "object.EnvFromMap"; "textwire.getTemplatePath"] = [].
Proof. vm_compute. reflexivity. Qed.

(* 5. by contrast the loading / configuration / registration entry points do write: the analysis sees writes *)
Example load_paths_do_write :
  collect fp_writes ["textwire.NewTemplate"; "textwire.RegisterStrFunc"] <> [].
Proof. vm_compute. discriminate. Qed.

(* ---------- schedule independence *)
Section Interleaving.
  (* S: shared state; L: the private state of one call; R: its result.
     One atomic step of a call reads the shared state and either continues or finishes. *)
  Variables (S L R : Type).
  Variable view : S -> S.                         (* the part of the shared state that steps read *)
  Variable step : S -> L -> S * (L + R).
  (* no step changes what steps read (it may store to the rest: the write-only flag) *)
  Hypothesis frame : forall s l, view (fst (step s l)) = view s.
  (* the outcome of a step depends only on what steps read *)
  Hypothesis blind : forall s s' l, view s = view s' -> snd (step s l) = snd (step s' l).

  (* a call running alone from shared state s *)
  Fixpoint alone (fuel : nat) (s : S) (c : L + R) : L + R :=
    match fuel with
    | O => c
    | Datatypes.S k => match c with
             | inl l => let (s', c') := step s l in alone k s' c'
             | inr r => inr r
             end
    end.

  (* threads: each is a call in progress or finished; a schedule picks who moves next *)
  Fixpoint upd (i : nat) (c : L + R) (ts : list (L + R)) : list (L + R) :=
    match ts, i with
    | [], _ => []
    | _ :: ts', O => c :: ts'
    | t :: ts', Datatypes.S j => t :: upd j c ts'
    end.

  Fixpoint run (sched : list nat) (s : S) (ts : list (L + R)) : S * list (L + R) :=
    match sched with
    | [] => (s, ts)
    | i :: rest =>
      match nth_error ts i with
      | Some (inl l) => let (s', c') := step s l in run rest s' (upd i c' ts)
      | _ => run rest s ts
      end
    end.

  Fixpoint count (i : nat) (sched : list nat) : nat :=
    match sched with
    | [] => O
    | j :: r => (if Nat.eqb i j then 1 else 0) + count i r
    end.

  Lemma alone_view k : forall s s' c, view s = view s' -> alone k s c = alone k s' c.
  Proof.
    induction k as [|k IH]; intros s s' c Hv; cbn [alone]; [reflexivity|].
    destruct c as [l|r]; [|reflexivity].
    pose proof (blind s s' l Hv) as Hb. pose proof (frame s l) as F1. pose proof (frame s' l) as F2.
    destruct (step s l) as [s1 c1], (step s' l) as [s2 c2]. cbn [fst snd] in *. subst c2.
    apply IH. congruence.
  Qed.

  Lemma alone_plus a : forall b s c, alone (a + b) s c = alone b s (alone a s c).
  Proof.
    induction a as [|a IH]; intros b s c; cbn [Nat.add alone]; [reflexivity|].
    destruct c as [l|r].
    - pose proof (frame s l) as F. destruct (step s l) as [s1 c1]. cbn [fst] in F.
      rewrite IH. rewrite (alone_view b s1 s), (alone_view a s1 s) by exact F. reflexivity.
    - clear IH. induction b as [|b IHb]; cbn [alone]; [|]; reflexivity.
  Qed.

  Lemma nth_upd_same i c : forall ts, (i < List.length ts)%nat -> nth_error (upd i c ts) i = Some c.
  Proof. induction i as [|i IH]; intros [|t ts] H; cbn in *; try lia; [reflexivity|]. apply IH. lia. Qed.

  Lemma nth_upd_other i j c : forall ts, i <> j -> nth_error (upd i c ts) j = nth_error ts j.
  Proof.
    revert j; induction i as [|i IH]; intros j [|t ts] H; cbn; try reflexivity.
    - destruct j; [congruence|reflexivity].
    - destruct j; [reflexivity|]. cbn. apply IH. congruence.
  Qed.

  Lemma upd_length i c ts : List.length (upd i c ts) = List.length ts.
  Proof. revert i; induction ts as [|t ts IH]; intros [|i]; cbn; try reflexivity. f_equal. apply IH. Qed.

  (* In EVERY schedule, every thread is exactly where it would be after taking its own steps alone
     from the initial shared state, and the readable part of the shared state never changes. *)
  Theorem schedule_independent sched : forall s ts i c0,
    nth_error ts i = Some c0 ->
    view (fst (run sched s ts)) = view s /\
    nth_error (snd (run sched s ts)) i = Some (alone (count i sched) s c0).
  Proof.
    induction sched as [|j rest IH]; intros s ts i c0 Hi; cbn [run count].
    - split; [reflexivity|exact Hi].
    - destruct (nth_error ts j) as [[l|r]|] eqn:Hj.
      + pose proof (frame s l) as F. destruct (step s l) as [s1 c1] eqn:Hst. cbn [fst] in F.
        destruct (Nat.eqb i j) eqn:E.
        * apply PeanoNat.Nat.eqb_eq in E. subst j. rewrite Hi in Hj. inversion Hj; subst c0.
          assert (Hlen : (i < List.length ts)%nat) by (apply nth_error_Some; rewrite Hi; discriminate).
          destruct (IH s1 (upd i c1 ts) i c1 (nth_upd_same i c1 ts Hlen)) as [Hv Hn].
          split; [congruence|]. rewrite Hn. cbn [Nat.add alone]. rewrite Hst. reflexivity.
        * apply PeanoNat.Nat.eqb_neq in E.
          assert (Hi' : nth_error (upd j c1 ts) i = Some c0) by (rewrite nth_upd_other; [exact Hi|congruence]).
          destruct (IH s1 (upd j c1 ts) i c0 Hi') as [Hv Hn].
          split; [congruence|]. rewrite Hn. cbn [Nat.add]. f_equal. apply alone_view. congruence.
      + destruct (IH s ts i c0 Hi) as [Hv Hn]. split; [exact Hv|]. rewrite Hn.
        destruct (Nat.eqb i j) eqn:E; cbn [Nat.add]; [|reflexivity].
        apply PeanoNat.Nat.eqb_eq in E. subst j. rewrite Hi in Hj. inversion Hj; subst c0.
        f_equal. destruct (count i rest); reflexivity.
      + destruct (IH s ts i c0 Hi) as [Hv Hn]. split; [exact Hv|]. rewrite Hn.
        destruct (Nat.eqb i j) eqn:E; cbn [Nat.add]; [|reflexivity].
        apply PeanoNat.Nat.eqb_eq in E. subst j. rewrite Hi in Hj. discriminate.
  Qed.

  (* hence: a call that has finished under some schedule has the result it has alone *)
  Corollary finished_result_is_the_sequential_one sched s ts i l r :
    nth_error ts i = Some (inl l) ->
    nth_error (snd (run sched s ts)) i = Some (inr r) ->
    alone (count i sched) s (inl l) = inr r.
  Proof.
    intros Hi Hr. destruct (schedule_independent sched s ts i (inl l) Hi) as [_ Hn].
    rewrite Hn in Hr. inversion Hr. reflexivity.
  Qed.
End Interleaving.
