(* C13 from the source bytes: a template that consists of any text T (any number of lines, any bytes
   the lexer takes as text up to the block) followed by {{ name }}, rendered with data in which
   name is not bound, fails with "identifier not found" at line 1 + (number of line feeds in T) -
   the line on which the identifier stands.  Lexer round trip (LexRound.v: exact positions),
   statement parser theorem (StmtParse.v), then the evaluator. *)
From Coq Require Import String Lia.
From TW Require Import Bytes Floats Values GenToken GenParser GenFail Lexer Ast Parser Builtins Eval Render.
From TW Require Import Expr ExprSem Positions LexSpell LexRound Pratt StmtParse.
Open Scope N_scope.

Definition count_lf (s : bytes) : nat := List.length (filter (fun c => c =? 10) s).

Lemma firstn_S_nth {A} (d : A) : forall k (l : list A), (k < List.length l)%nat -> firstn (S k) l = firstn k l ++ [nth k l d].
Proof.
  induction k as [|k IH]; intros [|x l] H; cbn [List.length] in H; try lia; [reflexivity|].
  cbn [firstn nth app]. f_equal. apply IH. lia.
Qed.

Lemma lc_line input : forall k, (k <= List.length input)%nat -> fst (lc input k) = count_lf (firstn k input).
Proof.
  induction k as [|k IH]; intro Hk; [reflexivity|].
  cbn [lc]. destruct (lc input k) as [ln cl] eqn:E. cbn [fst] in IH.
  assert (Hk' : (k < List.length input)%nat) by lia.
  rewrite (firstn_S_nth 0 k input Hk'). unfold count_lf. rewrite filter_app, app_length. cbn [filter].
  specialize (IH ltac:(lia)). unfold count_lf in IH.
  destruct (nth k input 0 =? 10); cbn [fst List.length]; lia.
Qed.

Lemma firstn_pred_removelast {A} : forall (l : list A), firstn (List.length l - 1) l = removelast l.
Proof.
  induction l as [|c [|d r] IH]; [reflexivity|reflexivity|].
  cbn [List.length removelast]. cbn [List.length] in IH.
  replace (S (S (List.length r)) - 1)%nat with (S (S (List.length r) - 1)) by lia.
  cbn [firstn]. f_equal. exact IH.
Qed.

Lemma removelast_in {A} : forall (l : list A) x, In x (removelast l) -> In x l.
Proof.
  induction l as [|c [|d r] IH]; intros x Hx; [destruct Hx|destruct Hx|].
  cbn [removelast] in Hx. destruct Hx as [->|Hx]; [left; reflexivity|right; apply IH, Hx].
Qed.

Lemma filter_none {A} (f : A -> bool) : forall l, (forall x, In x l -> f x = false) -> filter f l = [].
Proof.
  induction l as [|c r IH]; intro H; [reflexivity|]. cbn [filter]. rewrite (H c (or_introl eq_refl)).
  apply IH. intros x Hx. apply H. right. exact Hx.
Qed.

Definition und_items (T name : bytes) : list item :=
  [mkItem T_HTML T []; mkItem T_LBRACES [123; 123] []; mkItem T_IDENT name [32]; mkItem T_RBRACES [125; 125] [32]].

Definition und_source (T name : bytes) : bytes := T ++ [123; 123; 32] ++ name ++ [32; 125; 125].

Lemma und_source_spelled T name : spell (und_items T name) = und_source T name.
Proof. unfold spell, und_items, und_source. cbn [spell_t igap isrc app]. rewrite ?app_nil_r. reflexivity. Qed.

(* the conditions on the text and on the name, all computable *)
Definition und_ok (T name : bytes) : bool :=
  forallb okb T && forallb okb name &&
  text_ok T ([123; 123; 32] ++ name ++ [32; 125; 125]) &&
  word_ok name [32; 125; 125] && tok_eqb (lookupIdent name) T_IDENT.

Lemma und_source_ok T name : und_ok T name = true -> source_ok (und_items T name) = true.
Proof.
  unfold und_ok. intro H. apply andb_true_iff in H as [H Hk]. apply andb_true_iff in H as [H Hw].
  apply andb_true_iff in H as [H Ht]. apply andb_true_iff in H as [HoT Hon].
  unfold source_ok, source_ok_t. apply andb_true_iff. split.
  - change (spell_t (und_items T name) []) with (spell (und_items T name)). rewrite und_source_spelled. unfold und_source.
    rewrite !forallb_app, HoT, Hon. reflexivity.
  - unfold und_items. cbn [items_ok_t item_ok ity isrc igap spell_t app next_md m0 mh mdir mp mb code_ok].
    rewrite ?app_nil_r.
    assert (Hws : isWs (hd 0 name) = false).
    { unfold word_ok in Hw. apply andb_true_iff in Hw as [Hw _]. apply andb_true_iff in Hw as [Hi _].
      apply (idc_not_ws (hd 0 name)). unfold idc. rewrite Hi. reflexivity. }
    cbn [app] in Ht. rewrite Ht, Hw, Hk, Hws. vm_compute. reflexivity.
Qed.

Lemma und_source_parses T name :
  und_ok T name = true ->
  exists l1 h, parse_source (und_source T name) =
    ParsedOk (mkProgram [SHtml l1 h; SExpr (EIdent (S (count_lf T)) name)] None [] [] []).
Proof.
  intros Hok.
  pose proof (und_source_ok T name Hok) as Hs.
  pose proof (lex_spell (und_items T name) Hs) as L. rewrite und_source_spelled in L.
  set (src := und_source T name) in *.
  unfold und_ok in Hok. apply andb_true_iff in Hok as [Hok Hk]. apply andb_true_iff in Hok as [Hok Hw].
  apply andb_true_iff in Hok as [Hok Ht]. apply andb_true_iff in Hok as [HoT Hon].
  assert (Hne : name <> []).
  { intro X. subst name. unfold word_ok in Hw. cbn in Hw. discriminate Hw. }
  assert (HT : T <> []).
  { intro X. subst T. unfold text_ok in Ht. cbn in Ht. discriminate Ht. }
  (* the four tokens *)
  set (e := (List.length T + 2 + 1 + List.length name - 1)%nat).
  assert (Pl : exists t1 lb tn rb eof, place src 0 (und_items T name) = [t1; lb; tn; rb; eof] /\
             ttype t1 = T_HTML /\ ttype lb = T_LBRACES /\ ttype tn = T_IDENT /\ tlit tn = name /\
             tel tn = fst (lc src e) /\ ttype rb = T_RBRACES /\ ttype eof = T_EOF).
  { unfold place, und_items. cbn [place_t ity isrc igap List.length]. do 5 eexists. split; [reflexivity|].
    unfold tokAt, lit_of. cbn [ttype tlit tel tok_eqb]. repeat split.
    f_equal. f_equal. subst e. lia. }
  destruct Pl as (t1 & lb & tn & rb & eof & Pl & T1 & Tlb & Tn & Ln & Eln & Trb & Teof).
  set (ss := [TText t1; TCode lb rb (CAtom tn)]).
  assert (W : wf_ss ss).
  { unfold ss, wf_ss. cbn. unfold atom_ast. rewrite Tn. repeat split; try assumption; cbn; discriminate. }
  pose proof (template_parses_to_its_tree ss eof W Teof) as P.
  assert (Fl : flats ss ++ [eof] = [t1; lb; tn; rb; eof]) by reflexivity.
  assert (As : asts ss = [SHtml (eline t1) (tlit t1); SExpr (EIdent (eline tn) name)]).
  { unfold ss, asts. cbn [map ast_s ast]. unfold atom_ast. rewrite Tn, Ln. reflexivity. }
  rewrite Fl, As in P.
  assert (PS : parse_source src = ParsedOk (mkProgram [SHtml (eline t1) (tlit t1); SExpr (EIdent (eline tn) name)] None [] [] [])).
  { unfold parse_source. rewrite L, Pl. exact P. }
  (* the line of the identifier *)
  assert (Hline : eline tn = S (count_lf T)).
  { unfold eline. rewrite Eln. f_equal.
    assert (Hlen : (e <= List.length src)%nat).
    { subst e src. unfold und_source. rewrite !app_length. cbn [List.length]. lia. }
    rewrite (lc_line src e Hlen).
    assert (Hf : firstn e src = T ++ [123; 123; 32] ++ removelast name).
    { subst e src. unfold und_source.
      rewrite firstn_app. rewrite firstn_all2 by lia.
      replace (List.length T + 2 + 1 + List.length name - 1 - List.length T)%nat with (3 + (List.length name - 1))%nat by (destruct name; [congruence|cbn [List.length]; lia]).
      f_equal. change ([123; 123; 32] ++ name ++ [32; 125; 125]) with (123 :: 123 :: 32 :: name ++ [32; 125; 125]).
      cbn [firstn Nat.add app]. f_equal. f_equal. f_equal.
      rewrite firstn_app. replace (List.length name - 1 - List.length name)%nat with 0%nat by lia. cbn [firstn]. rewrite app_nil_r.
      apply firstn_pred_removelast. }
    rewrite Hf. unfold count_lf. rewrite !filter_app, !app_length. cbn [filter N.eqb Pos.eqb List.length].
    assert (Hn0 : filter (fun c : N => c =? 10) (removelast name) = []).
    { unfold word_ok in Hw. apply andb_true_iff in Hw as [Hw _]. apply andb_true_iff in Hw as [_ Hid].
      rewrite forallb_forall in Hid. apply filter_none. intros x Hx.
      apply (idc_not x 10 (Hid x (removelast_in name x Hx))). reflexivity. }
    rewrite Hn0. cbn [List.length]. lia. }
  exists (eline t1), (tlit t1). rewrite PS, Hline. reflexivity.
Qed.

Lemma und_program_fails l1 h ln name en out0 :
  env_get en name = None ->
  eval_program cx0 eval_fuel en [SHtml l1 h; SExpr (EIdent ln name)] out0 = Fail ln (fmt ErrIdentifierNotFound [name]).
Proof.
  intro Hg.
  assert (HF : exists F, eval_fuel = S (S (S (S F)))) by (exists (Nat.pred (Nat.pred (Nat.pred (Nat.pred eval_fuel)))); reflexivity).
  destruct HF as [F ->]. cbn [eval_program eval_stmt]. cbv beta iota. cbn [fst snd].
  unfold str_of. cbn [value_string]. cbv beta iota. cbn [eval_program eval_stmt eval_expr]. rewrite Hg. reflexivity.
Qed.

Theorem undefined_identifier_error_line T name gd en :
  und_ok T name = true -> env_from_map gd = EnvOk en -> env_get en name = None ->
  evaluate_string cx0 (und_source T name) gd =
    RenderErr (S (count_lf T)) (fmt ErrIdentifierNotFound [name]).
Proof.
  intros Hok He Hg. destruct (und_source_parses T name Hok) as (l1 & h & PS).
  unfold evaluate_string. rewrite PS. unfold render_program. rewrite He. cbn [p_stmts].
  rewrite (und_program_fails l1 h _ name en [] Hg). reflexivity.
Qed.

(* ---------- the same for a template FILE: the error also names the file *)
From TW Require Import Api LineIrrelevance LayoutRefine.

Theorem undefined_identifier_in_a_file fs cfg rel T name :
  read_file fs rel = ReadOk (und_source T name) -> und_ok T name = true ->
  exists ss, load_page fs cfg rel = Api.LOk (ss, false) /\
    forall tpl nm gd en, alookup nm tpl = Some ss -> env_from_map gd = EnvOk en -> env_get en name = None ->
      template_string cx0 cfg tpl nm gd =
        StrErr (mkErr (S (count_lf T)) (template_path cfg nm) (fmt ErrIdentifierNotFound [name])).
Proof.
  intros Hr Hok. destruct (und_source_parses T name Hok) as (l1 & h & PS).
  exists [SHtml l1 h; SExpr (EIdent (S (count_lf T)) name)]. split.
  - unfold load_page, parse_file. rewrite Hr, PS. cbv beta iota. cbn [p_use p_components resolve_components p_stmts p_reserves].
    cbv beta iota. cbn [map]. rewrite !rw_nothing by reflexivity. reflexivity.
  - intros tpl nm gd en Ht He Hg. unfold template_string. rewrite He, Ht.
    rewrite (und_program_fails l1 h _ name en [] Hg). reflexivity.
Qed.
