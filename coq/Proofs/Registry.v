(* C20 / C16: the API state machine of Model/Api.v.
   - registration: the first function registered for (type, name) stays, later attempts fail;
   - frame property: render operations leave the state unchanged, hence an operation's
     observation does not depend on the render operations issued before it. *)
From Coq Require Import String.
From TW Require Import Bytes Values Eval Render Api.

Definition is_render (o : op) : bool :=
  match o with
  | OpString _ _ | OpResponse _ _ | OpEvalStr _ _ | OpEvalFile _ _ => true
  | _ => false
  end.

Lemma render_preserves_state fs st o : is_render o = true -> fst (step fs st o) = st.
Proof.
  destruct o; simpl; try discriminate; intros _.
  - destruct (g_tpl st); reflexivity.
  - destruct (g_tpl st); reflexivity.
  - reflexivity.
  - reflexivity.
Qed.

Fixpoint final_state (fs : fsys) (st : gstate) (ops : list op) : gstate :=
  match ops with
  | [] => st
  | o :: ops' => final_state fs (fst (step fs st o)) ops'
  end.

Lemma renders_preserve_state fs ops : forall st,
  forallb is_render ops = true -> final_state fs st ops = st.
Proof.
  induction ops as [|o ops IH]; intros st H; simpl in *; [reflexivity|].
  apply andb_true_iff in H as [Ho Hr].
  rewrite (render_preserves_state fs st o Ho). apply IH. exact Hr.
Qed.

(* history independence: after any history of render operations, an operation observes
   what it observes when issued first *)
Theorem history_independent fs st h o :
  forallb is_render h = true ->
  snd (step fs (final_state fs st h) o) = snd (step fs st o).
Proof.
  intros H. rewrite (renders_preserve_state fs h st H). reflexivity.
Qed.

(* ---- the registry *)
Definition reg_lookup (fs : list (bytes * bytes * fnid)) (ty name : bytes) : option fnid :=
  (fix go (l : list (bytes * bytes * fnid)) :=
     match l with
     | [] => None
     | (t, n, f) :: l' => if bytes_eqb t ty && bytes_eqb n name then Some f else go l'
     end) fs.

Lemma reg_lookup_is_lookup_custom fs ty name :
  lookup_custom (mkCtx fs) ty name = reg_lookup fs ty name.
Proof. reflexivity. Qed.

Lemma has_func_lookup fs ty name :
  has_func fs ty name = match reg_lookup fs ty name with Some _ => true | None => false end.
Proof.
  induction fs as [|[[t n] f] fs IH]; simpl; [reflexivity|].
  destruct (bytes_eqb t ty && bytes_eqb n name); simpl; [reflexivity | exact IH].
Qed.

Lemma reg_lookup_app fs ty name t n f :
  reg_lookup (fs ++ [(t, n, f)]) ty name =
  match reg_lookup fs ty name with
  | Some g => Some g
  | None => if bytes_eqb t ty && bytes_eqb n name then Some f else None
  end.
Proof.
  induction fs as [|[[t' n'] f'] fs IH]; simpl.
  - destruct (bytes_eqb t ty && bytes_eqb n name); reflexivity.
  - destruct (bytes_eqb t' ty && bytes_eqb n' name); [reflexivity | exact IH].
Qed.

(* one registration step: succeeds iff nothing is registered yet for (type, name);
   never replaces an existing entry; leaves every other (type, name) alone *)
Theorem register_step fs st ty name f :
  let '(st', ob) := step fs st (OpReg ty name f) in
  (reg_lookup (g_funcs st) ty name = None ->
     ob = ObsRegOk /\ reg_lookup (g_funcs st') ty name = Some f) /\
  (forall g, reg_lookup (g_funcs st) ty name = Some g ->
     (exists e, ob = ObsErr e) /\ st' = st) /\
  (forall ty' name', (bytes_eqb ty ty' && bytes_eqb name name') = false ->
     reg_lookup (g_funcs st') ty' name' = reg_lookup (g_funcs st) ty' name') /\
  g_cfg st' = g_cfg st /\ g_tpl st' = g_tpl st.
Proof.
  simpl. rewrite has_func_lookup.
  destruct (reg_lookup (g_funcs st) ty name) as [g0|] eqn:E; simpl.
  - split; [intros H; discriminate|].
    split; [intros g _; split; [eexists; reflexivity | reflexivity]|].
    split; [intros; reflexivity|]. split; reflexivity.
  - split; [intros _; split; [reflexivity|]|].
    + rewrite reg_lookup_app, E, !bytes_eqb_refl. reflexivity.
    + split; [intros g Hg; discriminate|].
      split; [|split; reflexivity].
      intros ty' name' Hne. rewrite reg_lookup_app, Hne.
      destruct (reg_lookup (g_funcs st) ty' name'); reflexivity.
Qed.

(* over whole histories: once registered, (type, name) keeps its function forever *)
Theorem registered_stays fs ops : forall st ty name f,
  reg_lookup (g_funcs st) ty name = Some f ->
  reg_lookup (g_funcs (final_state fs st ops)) ty name = Some f.
Proof.
  induction ops as [|o ops IH]; intros st ty name f H; simpl; [exact H|].
  apply IH. destruct o; simpl; try exact H.
  - destruct (new_template fs _); simpl; exact H.
  - destruct (g_tpl st); exact H.
  - destruct (g_tpl st); exact H.
  - rewrite has_func_lookup.
    destruct (reg_lookup (g_funcs st) ty0 name0) eqn:E; simpl; [exact H|].
    rewrite reg_lookup_app, H. reflexivity.
Qed.

(* non-vacuity: a concrete history in which the second registration fails and the first function stays *)
Example registry_example :
  let ops := [OpReg (bs "STRING") (bs "f") F_const; OpReg (bs "STRING") (bs "f") F_const2;
              OpReg (bs "ARRAY") (bs "f") F_const2] in
  let st := final_state [] init_state ops in
  reg_lookup (g_funcs st) (bs "STRING") (bs "f") = Some F_const /\
  reg_lookup (g_funcs st) (bs "ARRAY") (bs "f") = Some F_const2.
Proof. vm_compute. split; reflexivity. Qed.
