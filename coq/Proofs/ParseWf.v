(* C09, the hypothesis of the never-panics theorem discharged: every program the parser model
   returns WITHOUT AN ERROR is well-formed in the sense of Spec/Wf.v - no nil node where the
   evaluator dereferences one, the key of a dot expression is an identifier, the argument of
   @component is an object literal.  With NoPanic.v and ParseTotal.v: for every byte string the
   model of EvaluateString never reaches the branch in which the Go code would panic.

   The proof is the walk of ParseTotal.v / ParseReject.v over the 20 parse functions with one more
   postcondition: a function either records a new error or returns a well-formed answer (for the
   loops: well-formed provided the accumulator was). *)
From Coq Require Import String Lia.
From TW Require Import Bytes GenToken GenParser Lexer Ast Parser GenTie ParseTotal Wf.

Definition QT (ts : list token) : Prop := True.
Lemma QT_tail a b r : QT (a :: b :: r) -> QT (b :: r).
Proof. trivial. Qed.

Definition gd := good QT.
Definition E (st : pstate) : nat := List.length (errs st).

Definition okresW {A} (pre : Prop) (W : A -> bool) (st : pstate) (r : pres A) : Prop :=
  exists a st', r = POk a st' /\ gd st' /\ (mu st' <= mu st)%nat /\ (E st <= E st')%nat /\
                (E st' = E st -> pre -> W a = true).

Lemma gd_advance st : gd st -> gd (advance st).
Proof. apply (good_advance QT QT_tail). Qed.
Lemma gd_addErr st t m : gd st -> gd (addErr st (eline t) m).
Proof. apply (good_addErr QT). Qed.
Lemma E_advance st : E (advance st) = E st.
Proof. unfold E, advance. destruct (toks st) as [|a [|b r]]; reflexivity. Qed.
Lemma E_addErr st l m : E (addErr st l m) = S (E st).
Proof. reflexivity. Qed.

Lemma expectPeek_specW st t :
  gd st -> is_termT t = false ->
  (expectPeek st t = (true, advance st) /\ (2 <= mu st)%nat /\ peekIs st t = true) \/
  (exists st', expectPeek st t = (false, st') /\ gd st' /\ mu st' = mu st /\ E st' = S (E st)).
Proof.
  intros G Ht. unfold expectPeek. destruct (peekIs st t) eqn:Ep.
  - left. split; [reflexivity|]. split; [exact (peek_nonterm QT st t G Ep Ht)|reflexivity].
  - right. destruct (tokenString t) as [a|] eqn:Ea; [|exfalso; exact (tokenString_some _ Ea)].
    destruct (tokenString (ttype (peekT st))) as [b|] eqn:Eb; [|exfalso; exact (tokenString_some _ Eb)].
    eexists. split; [reflexivity|]. split; [apply gd_addErr, G|]. split; reflexivity.
Qed.

Lemma freshId_specW st a st' : freshId st = (a, st') -> (gd st -> gd st') /\ mu st' = mu st /\ E st' = E st.
Proof. unfold freshId. intros [= _ <-]. split; [intro H; exact H|]. split; reflexivity. Qed.

Lemma aliasPath_specW st s n st' : aliasPath st s = (n, st') -> (gd st -> gd st') /\ mu st' = mu st /\ (E st <= E st')%nat.
Proof.
  unfold aliasPath. destruct (tlit (curT st)) as [|c r].
  - intros [= _ <-]. split; [apply gd_addErr|]. split; [reflexivity|rewrite E_addErr; lia].
  - destruct (c =? 126)%N; intros [= _ <-]; (split; [intro H; exact H|]; split; [reflexivity|lia]).
Qed.

Lemma okresW_ret {A} (pre : Prop) (W : A -> bool) st (a : A) st' :
  gd st' -> (mu st' <= mu st)%nat -> (E st <= E st')%nat -> (E st' = E st -> pre -> W a = true) ->
  okresW pre W st (POk a st').
Proof. intros G M L K. exists a, st'. auto 10. Qed.

(* ---------- what well-formed means for the answers of the loops *)
Definition wf_pair (p : bytes * expr) : bool := wf_expr (snd p).
Definition wf_oexprs (o : option (list expr)) : bool := match o with Some l => forallb wf_expr l | None => false end.
Definition nw (s : stmt) : bool := stmt_is_null s || wf_stmt s.         (* Go's nil statement, or a well-formed one *)
Definition wf_alt (a : expr * list stmt) : bool := wf_expr (fst a) && forallb wf_stmt (snd a).
Definition wf_oalts (o : option (list (expr * list stmt))) : bool := match o with Some l => forallb wf_alt l | None => true end.
Definition wf_ostmts (o : option (list stmt)) : bool := match o with Some l => forallb wf_stmt l | None => false end.
Definition anything {A} (_ : A) : bool := true.

Lemma forallb_rev {A} (f : A -> bool) l : forallb f (rev l) = forallb f l.
Proof.
  induction l as [|a l IH]; [reflexivity|]. cbn [rev forallb]. rewrite forallb_app, IH. cbn [forallb].
  rewrite andb_true_r. apply andb_comm.
Qed.

Lemma forallb_aset {A} (f : bytes * A -> bool) k v m : f (k, v) = true -> forallb f m = true -> forallb f (aset k v m) = true.
Proof.
  intros Hk. induction m as [|[k' v'] m IH]; cbn [aset forallb]; intro H; [rewrite Hk; reflexivity|].
  apply andb_true_iff in H as [H1 H2]. destruct (bytes_eqb k k'); cbn [forallb]; [rewrite Hk, H2; reflexivity|rewrite H1, (IH H2); reflexivity].
Qed.

Definition nwm (s : stmt) : bool := match s with SNull => true | _ => wf_stmt s end.
Lemma nw_init s : nw s = true -> nwm s = true.
Proof. unfold nw, nwm. destruct s; cbn; auto. Qed.
Lemma wf_opt_of_wf e : wf_expr e = true -> wf_opt_expr e = true.
Proof. destruct e; cbn; auto. Qed.
Lemma nw_cons s acc : nw s = true -> forallb wf_stmt acc = true ->
  forallb wf_stmt (if stmt_is_null s then acc else s :: acc) = true.
Proof. unfold nw. destruct s; cbn [stmt_is_null orb forallb]; intros H1 H2; rewrite ?H1, ?H2; reflexivity. Qed.

(* ---------- automation *)
Ltac good_tac :=
  repeat first [ assumption | apply gd_advance | apply gd_addErr
               | match goal with
                 | |- gd (setUse ?s _) => change (gd s)
                 | |- gd (addComponent ?s _) => change (gd s)
                 | |- gd (addReserve ?s _ _) => change (gd s)
                 | |- gd (addInsert ?s _ _) => change (gd s)
                 end ].

Ltac mu_norm := repeat rewrite ?mu_advance, ?mu_addErr, ?mu_setUse, ?mu_addComponent, ?mu_addReserve, ?mu_addInsert in *.
Ltac mu_tac := mu_norm; lia.

Ltac head_scrut t :=
  lazymatch t with
  | match ?X with _ => _ end => head_scrut X
  | _ => t
  end.
Ltac last_arg X := lazymatch X with ?F ?s => s end.

Ltac e_norm :=
  repeat match goal with
         | H : context [E (advance ?s)] |- _ => rewrite (E_advance s) in H
         | |- context [E (advance ?s)] => rewrite (E_advance s)
         | H : context [E (addErr ?s ?l ?m)] |- _ => rewrite (E_addErr s l m) in H
         | |- context [E (addErr ?s ?l ?m)] => rewrite (E_addErr s l m)
         | H : context [E (setUse ?s ?u)] |- _ => change (E (setUse s u)) with (E s) in H
         | |- context [E (setUse ?s ?u)] => change (E (setUse s u)) with (E s)
         | H : context [E (addComponent ?s ?u)] |- _ => change (E (addComponent s u)) with (E s) in H
         | |- context [E (addComponent ?s ?u)] => change (E (addComponent s u)) with (E s)
         | H : context [E (addReserve ?s ?u ?v)] |- _ => change (E (addReserve s u v)) with (E s) in H
         | |- context [E (addReserve ?s ?u ?v)] => change (E (addReserve s u v)) with (E s)
         | H : context [E (addInsert ?s ?u ?v)] |- _ => change (E (addInsert s u v)) with (E s) in H
         | |- context [E (addInsert ?s ?u ?v)] => change (E (addInsert s u v)) with (E s)
         end.
Ltac e_tac := e_norm; lia.

(* close a goal "... = true" about well-formedness from the facts collected so far *)
Ltac wf_facts :=
  repeat match goal with
         | H : wf_oexprs ?o = true |- _ => destruct o; cbn [wf_oexprs] in H; [|discriminate H]
         | H : wf_ostmts ?o = true |- _ => destruct o; cbn [wf_ostmts] in H; [|discriminate H]
         end.

Ltac wf_norm :=
  cbn [wf_stmt] in |- *;
  repeat match goal with
         | H : nw ?s = true |- _ =>
           lazymatch goal with
           | H2 : nwm s = true |- _ => fail
           | _ => pose proof (nw_init s H); try fold (nwm s)
           end
         end;
  unfold nw, wf_oexprs, wf_oalts, wf_ostmts, anything in *;
  rewrite ?forallb_rev in *;
  repeat match goal with H1 : stmt_is_null ?s = false, H2 : context [stmt_is_null ?s || _] |- _ => rewrite H1 in H2 end;
  cbn [wf_expr wf_stmt wf_opt_expr wf_oblock stmt_is_null forallb fst snd andb orb] in *;
  repeat match goal with H : nwm ?s = true |- context [wf_stmt ?s] => progress fold (nwm s) end;
  change (forallb (fun a : expr * list stmt => wf_expr (fst a) && forallb wf_stmt (snd a))) with (forallb wf_alt) in *;
  change (forallb (fun p : bytes * expr => wf_expr (snd p))) with (forallb wf_pair) in *;
  repeat match goal with
         | |- context [wf_alt (?c, ?b)] => change (wf_alt (c, b)) with (wf_expr c && forallb wf_stmt b)
         | |- context [wf_pair (?k, ?v)] => change (wf_pair (k, v)) with (wf_expr v)
         end;
  rewrite ?forallb_rev in *.

Ltac wf_solve :=
  wf_facts; wf_norm;
  repeat match goal with H : wf_expr ?e = true |- context [wf_opt_expr ?e] => rewrite (wf_opt_of_wf e H) end;
  repeat match goal with H : ?x = true |- context [?x] => rewrite H end;
  cbn [andb orb];
  first [ reflexivity | assumption
        | apply forallb_aset; [unfold wf_pair; cbn [snd]; assumption|assumption]
        | apply wf_opt_of_wf; assumption
        | apply nw_cons; wf_norm; assumption ].

(* use the conclusions of the calls made on the path, oldest first: each applies because no error was added *)
Ltac use_calls :=
  repeat match goal with
         | K : (E ?x = E ?y -> ?pre -> _ = true) |- _ =>
           let H := fresh "He" in
           assert (H : E x = E y) by e_tac;
           let Hp := fresh "Hp" in
           assert (Hp : pre) by (first [exact I | assumption | solve [wf_solve]]);
           specialize (K H Hp); clear H Hp
         end.

Ltac leaf :=
  apply okresW_ret;
  [ solve [good_tac] | solve [mu_tac] | solve [e_tac]
  | let HE := fresh "HE" in let HP := fresh "HP" in intros HE HP;
    first [ solve [exfalso; e_tac] | use_calls; solve [wf_solve] ] ].

Ltac side := first [ solve [good_tac] | solve [mu_tac] | reflexivity | assumption
                   | solve [eapply (cur_nonterm QT); [good_tac | first [ eapply prefix_nonterm; eassumption
                                                                     | eapply infix_nonterm; eassumption
                                                                     | eapply guard_nonterm; eassumption ]]] ].

Ltac ep X :=
  lazymatch X with
  | expectPeek ?s ?t =>
    let G := fresh "G" in
    assert (G : gd s) by good_tac;
    let T := fresh "T" in
    assert (T : is_termT t = false) by (first [reflexivity | assumption]);
    let Ex := fresh "Ex" in let M := fresh "M" in let P := fresh "P" in let s' := fresh "s" in let G' := fresh "G" in
    let Ee := fresh "Ee" in
    destruct (expectPeek_specW s t G T) as [(Ex & M & P)|(s' & Ex & G' & M & Ee)]; rewrite Ex; clear Ex T
  end.

Ltac ifstep X :=
  match X with
  | context [peekIs ?s ?t] =>
    let Ep := fresh "Ep" in
    destruct (peekIs s t) eqn:Ep;
    [ try (let G := fresh "G" in assert (G : gd s) by good_tac;
           let P := fresh "P" in first [ pose proof (peek_nonterm QT s t G Ep eq_refl) as P
                                       | match goal with T : is_termT t = false |- _ => pose proof (peek_nonterm QT s t G Ep T) as P end ]) | ]
  | _ => destruct X eqn:?
  end.

Ltac pairstep X :=
  lazymatch X with
  | freshId ?s =>
    let a := fresh "id" in let s' := fresh "s" in let Ex := fresh "Ex" in
    destruct (freshId s) as [a s'] eqn:Ex; apply freshId_specW in Ex;
    let Hg := fresh "Hg" in let Hm := fresh "Hm" in let He := fresh "Hee" in
    destruct Ex as (Hg & Hm & He);
    let G := fresh "G" in assert (G : gd s') by (apply Hg; good_tac); clear Hg
  | aliasPath ?s ?n =>
    let a := fresh "nm" in let s' := fresh "s" in let Ex := fresh "Ex" in
    destruct (aliasPath s n) as [a s'] eqn:Ex; apply aliasPath_specW in Ex;
    let Hg := fresh "Hg" in let Hm := fresh "Hm" in let He := fresh "Hee" in
    destruct Ex as (Hg & Hm & He);
    let G := fresh "G" in assert (G : gd s') by (apply Hg; good_tac); clear Hg
  end.

Ltac stepwith call :=
  cbv beta match zeta; cbn [negb andb orb];
  lazymatch goal with
  | |- okresW _ _ ?s0 ?body =>
    let X := head_scrut body in
    lazymatch X with
    | POk _ _ => first [ match X with context [if ?b then _ else _] => ifstep b end | leaf ]
    | expectPeek _ _ => ep X
    | freshId _ => pairstep X
    | aliasPath _ _ => pairstep X
    | tokenString ?t =>
      let Ex := fresh "Ex" in destruct (tokenString t) eqn:Ex; [|exfalso; exact (tokenString_some _ Ex)]
    | _ => let T := type of X in
           lazymatch T with
           | pres _ => first [ match X with context [if ?b then _ else _] => ifstep b end | call X ]
           | bool => ifstep X
           | _ => destruct X eqn:?
           end
    end
  end.

Ltac callE X :=
  let s := last_arg X in
  let H := fresh "Hc" in
  eassert (H : okresW _ _ s X); [ match goal with IH : _ |- _ => apply IH; side end | ];
  let a := fresh "a" in let s' := fresh "s" in let Ex := fresh "Ex" in let G := fresh "G" in let M := fresh "M" in
  let L := fresh "Le" in let K := fresh "K" in
  destruct H as (a & s' & Ex & G & M & L & K); rewrite Ex; clear Ex.

(* ---------- expressions *)
Definition We n := forall prec st, gd st -> (6 * mu st + 4 <= n)%nat -> okresW True wf_expr st (parseExpression n prec st).
Definition Wpre n := forall k st, gd st -> prefix_of (ttype (curT st)) = Some k -> (6 * mu st + 3 <= n)%nat ->
                                  okresW True wf_expr st (parsePrefix n k st).
Definition Wobj n := forall ln pairs st, gd st -> (6 * mu st + 5 <= n)%nat ->
                                         okresW (forallb wf_pair pairs = true) wf_expr st (parseObjectLoop n ln pairs st).
Definition Wpratt n := forall prec left st, gd st -> (6 * mu st + 1 <= n)%nat ->
                                            okresW (wf_expr left = true) wf_expr st (prattLoop n prec left st).
Definition Winf n := forall k left st, gd st -> (0 < mu st)%nat -> (6 * mu st + 2 <= n)%nat ->
                                       okresW (wf_expr left = true) wf_expr st (parseInfix n k left st).
Definition Wel n := forall e st, is_termT e = false -> gd st -> (0 < mu st)%nat -> (6 * mu st + 2 <= n)%nat ->
                                 okresW True wf_oexprs st (parseExpressionList n e st).
Definition Well n := forall e acc st, is_termT e = false -> gd st -> (6 * mu st + 1 <= n)%nat ->
                                      okresW (forallb wf_expr acc = true) wf_oexprs st (exprListLoop n e acc st).

Lemma expr_group_wf n : We n /\ Wpre n /\ Wobj n /\ Wpratt n /\ Winf n /\ Wel n /\ Well n.
Proof.
  induction n as [|f (IHe & IHpre & IHobj & IHpratt & IHinf & IHel & IHell)].
  { unfold We, Wpre, Wobj, Wpratt, Winf, Wel, Well. repeat split; intros; lia. }
  unfold We, Wpre, Wobj, Wpratt, Winf, Wel, Well in *.
  repeat split.
  - intros prec st G B. cbn [parseExpression]. repeat stepwith callE.
  - intros k st G Hk B. pose proof (cur_nonterm QT st G (prefix_nonterm _ _ Hk)) as P. cbn [parsePrefix]. repeat stepwith callE.
  - intros ln pairs st G B. cbn [parseObjectLoop]. repeat stepwith callE.
  - intros prec left st G B. cbn [prattLoop].
    stepwith callE; [|stepwith callE]. stepwith callE; [|stepwith callE].
    assert (P : (2 <= mu st)%nat) by (apply (peekT_nonterm QT); [exact G|eapply infix_nonterm; eassumption]).
    repeat stepwith callE.
  - intros k left st G P B. cbn [parseInfix]. repeat stepwith callE.
  - intros e st T G P B. cbn [parseExpressionList]. repeat stepwith callE.
  - intros e acc st T G B. cbn [exprListLoop]. repeat stepwith callE.
Qed.

Lemma parseExpression_wf n prec st :
  gd st -> (6 * mu st + 4 <= n)%nat -> okresW True wf_expr st (parseExpression n prec st).
Proof. apply expr_group_wf. Qed.

Lemma parseExpressionList_wf n e st :
  is_termT e = false -> gd st -> (0 < mu st)%nat -> (6 * mu st + 2 <= n)%nat ->
  okresW True wf_oexprs st (parseExpressionList n e st).
Proof. apply expr_group_wf. Qed.

(* ---------- statement helpers *)
Lemma parseExpressionStmt_wf n st :
  gd st -> (6 * mu st + 4 <= n)%nat -> okresW True nw st (parseExpressionStmt n st).
Proof. intros G B. unfold parseExpressionStmt. pose proof parseExpression_wf as IH. repeat stepwith callE. Qed.

Lemma parseAssignStmt_wf n st :
  gd st -> (6 * mu st + 4 <= n)%nat -> okresW True nw st (parseAssignStmt n st).
Proof. intros G B. unfold parseAssignStmt. pose proof parseExpression_wf as IH. repeat stepwith callE. Qed.

Lemma parseEmbeddedCode_wf n st :
  gd st -> (6 * mu st + 4 <= n)%nat -> okresW True nw st (parseEmbeddedCode n st).
Proof.
  intros G B. unfold parseEmbeddedCode.
  pose proof parseExpressionStmt_wf as IH1. pose proof parseAssignStmt_wf as IH2. repeat stepwith callE.
Qed.

Lemma parseBracesStmt_wf n st :
  gd st -> (6 * mu st + 4 <= n)%nat -> okresW True nw st (parseBracesStmt n st).
Proof. intros G B. unfold parseBracesStmt. pose proof parseEmbeddedCode_wf as IH. repeat stepwith callE. Qed.

Lemma parseCondDirective_wf n mk st :
  (forall ln c, wf_expr c = true -> nw (mk ln c) = true) ->
  gd st -> (6 * mu st + 4 <= n)%nat -> okresW True nw st (parseCondDirective n mk st).
Proof.
  intros Hmk G B. unfold parseCondDirective. pose proof parseExpression_wf as IH.
  repeat stepwith callE.
  all: apply okresW_ret; [solve [good_tac]|solve [mu_tac]|solve [e_tac]|];
    intros HE _; first [solve [exfalso; e_tac]|use_calls; apply Hmk; assumption].
Qed.

Lemma parseUseStmt_wf st : gd st -> okresW True nw st (parseUseStmt st).
Proof. intros G. unfold parseUseStmt. repeat stepwith callE. Qed.

Lemma parseReserveStmt_wf st : gd st -> okresW True nw st (parseReserveStmt st).
Proof. intros G. unfold parseReserveStmt. repeat stepwith callE. Qed.

Lemma parseSlotStmt_wf st : gd st -> okresW True nw st (parseSlotStmt st).
Proof. intros G. unfold parseSlotStmt. repeat stepwith callE. Qed.

Lemma parseDumpStmt_wf n st :
  gd st -> (6 * mu st + 4 <= n)%nat -> okresW True nw st (parseDumpStmt n st).
Proof. intros G B. unfold parseDumpStmt. pose proof parseExpressionList_wf as IH. repeat stepwith callE. Qed.

(* ---------- statements *)
Definition Ws n := forall st, gd st -> (6 * mu st + 5 <= n)%nat -> okresW True nw st (parseStatement n st).
Definition Wbl n := forall acc st, gd st -> (6 * mu st + 6 <= n)%nat ->
                                   okresW (forallb wf_stmt acc = true) (forallb wf_stmt) st (blockLoop n acc st).
Definition Wbs n := forall st, gd st -> (6 * mu st + 7 <= n)%nat -> okresW True (forallb wf_stmt) st (parseBlockStmt n st).
Definition Wbody n := forall st, gd st -> (6 * mu st + 8 <= n)%nat -> okresW True (forallb wf_stmt) st (parseBody n st).
Definition Wei n := forall acc st, gd st -> (6 * mu st + 9 <= n)%nat ->
                                   okresW (forallb wf_alt acc = true) wf_oalts st (elseIfLoop n acc st).
Definition Wsl n := forall acc st, gd st -> (6 * mu st + 9 <= n)%nat -> okresW True anything st (parseSlots n acc st).

Lemma nw_breakif ln c : wf_expr c = true -> nw (SBreakIf ln c) = true.
Proof. intro H. unfold nw. cbn. exact H. Qed.
Lemma nw_continueif ln c : wf_expr c = true -> nw (SContinueIf ln c) = true.
Proof. intro H. unfold nw. cbn. exact H. Qed.

Lemma stmt_group_wf n : Ws n /\ Wbl n /\ Wbs n /\ Wbody n /\ Wei n /\ Wsl n.
Proof.
  induction n as [|f (IHs & IHbl & IHbs & IHbody & IHei & IHsl)].
  { unfold Ws, Wbl, Wbs, Wbody, Wei, Wsl. repeat split; intros; lia. }
  unfold Ws, Wbl, Wbs, Wbody, Wei, Wsl in *.
  pose proof parseExpression_wf as L1. pose proof parseEmbeddedCode_wf as L2. pose proof parseBracesStmt_wf as L2b.
  pose proof (fun n st => parseCondDirective_wf n SBreakIf st nw_breakif) as L3a.
  pose proof (fun n st => parseCondDirective_wf n SContinueIf st nw_continueif) as L3b.
  pose proof parseDumpStmt_wf as L4.
  pose proof parseUseStmt_wf as L5. pose proof parseReserveStmt_wf as L6.
  pose proof parseSlotStmt_wf as L7.
  repeat split.
  - intros st G B. cbn [parseStatement]. repeat stepwith callE.
  - intros acc st G B. cbn [blockLoop]. stepwith callE; [stepwith callE|].
    assert (P : (0 < mu st)%nat) by (eapply (cur_nonterm QT); [exact G|eapply guard_nonterm; eassumption]).
    repeat stepwith callE.
  - intros st G B. cbn [parseBlockStmt]. repeat stepwith callE.
  - intros st G B. cbn [parseBody]. repeat stepwith callE.
  - intros acc st G B. cbn [elseIfLoop]. repeat stepwith callE.
  - intros acc st G B. cbn [parseSlots]. repeat stepwith callE.
Qed.

Lemma parseStatement_wf n st : gd st -> (6 * mu st + 5 <= n)%nat -> okresW True nw st (parseStatement n st).
Proof. apply stmt_group_wf. Qed.

(* ---------- the program loop *)
Lemma programLoop_wf n : forall acc st, gd st -> (6 * mu st + 6 <= n)%nat ->
  okresW (forallb wf_stmt acc = true) wf_ostmts st (programLoop n acc st).
Proof.
  induction n as [|f IH]; intros acc st G B; [lia|].
  pose proof parseStatement_wf as L.
  destruct (Nat.eq_dec (mu st) 0) as [Z|NZ].
  - (* the last token: EOF ends the program, ILLEGAL is an error *)
    pose proof (cur_term_at_end QT st G Z) as T.
    destruct f as [|f]; [lia|]. cbn [programLoop].
    unfold curIs at 1. destruct (tok_eqb (ttype (curT st)) T_EOF) eqn:Ee.
    + apply okresW_ret; [exact G|lia|lia|]. intros _ HP. cbn [wf_ostmts]. rewrite forallb_rev. exact HP.
    + unfold is_termT in T. rewrite Ee in T. cbn [orb] in T. apply tok_eqb_eq in T.
      cbn [parseStatement]. rewrite T. unfold curIs. rewrite T. change (tok_eqb T_ILLEGAL T_ILLEGAL) with true.
      cbv beta iota. apply okresW_ret; [apply gd_addErr, G|rewrite mu_addErr; lia|rewrite E_addErr; lia|].
      intro HE. rewrite E_addErr in HE. lia.
  - assert (P : (0 < mu st)%nat) by lia. cbn [programLoop]. repeat stepwith callE.
Qed.

(* ---------- the theorem: a program returned without an error is well-formed *)
Theorem parsed_program_is_well_formed ts p :
  tinv ts = true -> parse_tokens ts = ParsedOk p -> wf_program p = true.
Proof.
  intros T H. unfold parse_tokens, parse_tokens_fuel in H.
  assert (G : gd (initP ts)) by (apply (good_init QT); [exact T|exact I]).
  destruct (programLoop_wf (parse_fuel ts) [] (initP ts) G) as (o & st' & Ex & G' & _ & _ & K).
  { unfold parse_fuel, mu. cbn [toks initP]. lia. }
  rewrite Ex in H. destruct (ppanic st'); [discriminate H|].
  destruct (errs st') as [|e es] eqn:Ee; [|discriminate H].
  destruct o as [ss|]; [|discriminate H]. injection H as <-.
  unfold wf_program. cbn [p_stmts].
  apply K; [|reflexivity]. unfold E. rewrite Ee. reflexivity.
Qed.

(* ---------- EvaluateString never panics, for every source and every data map *)
From TW Require Import Values Eval Render NoPanic LexAll.

Theorem evaluate_string_never_panics cx src data : evaluate_string cx src data <> RenderPanic.
Proof.
  unfold evaluate_string, parse_source.
  destruct (lex_all_total src) as (ts & -> & T).
  destruct (parse_tokens_total ts T) as [[p Ep]|(es & Ep & Hne & _)]; rewrite Ep.
  - apply render_no_panic. exact (parsed_program_is_well_formed ts p T Ep).
  - destruct es as [|[ln msg] es]; [congruence|discriminate].
Qed.
