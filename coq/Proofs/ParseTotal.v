(* C08, parser half: the parser model returns on every token list that ends in EOF or
   ILLEGAL (which is what the lexer produces), within the fuel parse_tokens gives it, and ends
   in a program with no errors or in a non-empty list of errors that each carry a line >= 1;
   it never takes the branch the Go code would panic in.

   The argument is the usual one for a Pratt / recursive-descent parser, made explicit: mu, the
   number of tokens after the current one, never grows; every loop iteration and every call that
   closes a cycle of the call graph strictly lowers it; calls on an unchanged position go down a
   fixed rank.  So the depth of the call tree - which is what the shared, per-call decreasing
   fuel of the model measures - is at most 6 * mu + rank. *)
From Coq Require Import String Lia.
From TW Require Import Bytes GenToken GenParser Lexer Ast Parser GenTie.
From TW Require Export TokenShape.

Definition mu (st : pstate) : nat := List.length (toks st) - 1.

Definition errs_ok (es : list (nat * bytes)) : Prop := Forall (fun e => 1 <= fst e)%nat es.

(* Q: any further property of the remaining tokens that is kept when the first one is dropped *)
Section WithQ.
Variable Q : list token -> Prop.
Hypothesis Q_tail : forall a b r, Q (a :: b :: r) -> Q (b :: r).

Definition good (st : pstate) : Prop :=
  tinv (toks st) = true /\ ppanic st = false /\ errs_ok (errs st) /\ Q (toks st).

Definition okres {A} (st : pstate) (r : pres A) : Prop :=
  exists a st', r = POk a st' /\ good st' /\ (mu st' <= mu st)%nat.

(* ---------- tokens *)
Lemma tok_eqb_eq a b : tok_eqb a b = true -> a = b.
Proof. destruct a, b; (reflexivity || (intro H; vm_compute in H; discriminate H)). Qed.

Lemma tokenString_some t : tokenString t <> None.
Proof. destruct t; vm_compute; discriminate. Qed.

Lemma prefix_nonterm t k : prefix_of t = Some k -> is_termT t = false.
Proof. destruct t; (reflexivity || discriminate). Qed.

Lemma infix_nonterm t k : infix_of t = Some k -> is_termT t = false.
Proof. destruct t; (reflexivity || discriminate). Qed.

Lemma guard_nonterm t : inb t block_guard_tokens = false -> is_termT t = false.
Proof. destruct t; (reflexivity || (intro H; vm_compute in H; discriminate H)). Qed.

(* ---------- the measure and the invariant under the state transformers *)
Lemma mu_advance st : mu (advance st) = (mu st - 1)%nat.
Proof.
  unfold mu, advance. destruct (toks st) as [|a [|b r]] eqn:E; cbn [setToks toks List.length]; rewrite ?E; cbn [List.length]; lia.
Qed.

Lemma good_advance st : good st -> good (advance st).
Proof.
  intros (A & B & C & D). unfold good, advance. destruct (toks st) as [|a [|b r]] eqn:E; cbn [setToks toks ppanic errs].
  - rewrite E. auto.
  - rewrite E. auto.
  - cbn [tinv] in A. apply Q_tail in D. auto.
Qed.

Lemma good_addErr st t m : good st -> good (addErr st (eline t) m).
Proof.
  intros (A & B & C & D). unfold good, addErr; cbn [toks ppanic errs]. repeat split; try assumption.
  constructor; [cbn; unfold eline; lia|exact C].
Qed.

Lemma mu_addErr st l m : mu (addErr st l m) = mu st.
Proof. reflexivity. Qed.

Lemma good_setUse st u : good st -> good (setUse st u).
Proof. intros H; exact H. Qed.
Lemma mu_setUse st u : mu (setUse st u) = mu st.
Proof. reflexivity. Qed.
Lemma good_addComponent st c : good st -> good (addComponent st c).
Proof. intros H; exact H. Qed.
Lemma mu_addComponent st c : mu (addComponent st c) = mu st.
Proof. reflexivity. Qed.
Lemma good_addReserve st n r : good st -> good (addReserve st n r).
Proof. intros H; exact H. Qed.
Lemma mu_addReserve st n r : mu (addReserve st n r) = mu st.
Proof. reflexivity. Qed.
Lemma good_addInsert st n i : good st -> good (addInsert st n i).
Proof. intros H; exact H. Qed.
Lemma mu_addInsert st n i : mu (addInsert st n i) = mu st.
Proof. reflexivity. Qed.

Lemma freshId_spec st a st' : freshId st = (a, st') -> (good st -> good st') /\ mu st' = mu st.
Proof. unfold freshId. intros [= _ <-]. split; [intro H; exact H|reflexivity]. Qed.

Lemma aliasPath_spec st s n st' : aliasPath st s = (n, st') -> (good st -> good st') /\ mu st' = mu st.
Proof.
  unfold aliasPath. destruct (tlit (curT st)) as [|c r].
  - intros [= _ <-]. split; [apply good_addErr|reflexivity].
  - destruct (c =? 126)%N; intros [= _ <-]; (split; [intro H; exact H|reflexivity]).
Qed.

Lemma cur_nonterm st : good st -> is_termT (ttype (curT st)) = false -> (0 < mu st)%nat.
Proof.
  intros (A & _) H. unfold mu, curT in *. destruct (toks st) as [|a [|b r]]; cbn in *; try lia; congruence.
Qed.

Lemma peek_nonterm st t : good st -> peekIs st t = true -> is_termT t = false -> (2 <= mu st)%nat.
Proof.
  intros (A & _) H Ht. unfold peekIs in H. apply tok_eqb_eq in H. subst t.
  unfold mu, peekT in *. destruct (toks st) as [|a [|b [|c r]]]; cbn in *; try lia; congruence.
Qed.

Lemma peek_is_cur_of_advance st t : peekIs st t = true -> curIs (advance st) t = true.
Proof.
  unfold peekIs, curIs, peekT, curT, advance.
  destruct (toks st) as [|a [|b r]] eqn:E; cbn [setToks toks hd]; rewrite ?E; cbn [hd]; auto.
Qed.

Lemma expectPeek_spec st t :
  good st -> is_termT t = false ->
  (expectPeek st t = (true, advance st) /\ (2 <= mu st)%nat) \/
  (exists st', expectPeek st t = (false, st') /\ good st' /\ mu st' = mu st).
Proof.
  intros G Ht. unfold expectPeek. destruct (peekIs st t) eqn:E.
  - left. split; [reflexivity|]. exact (peek_nonterm st t G E Ht).
  - right. destruct (tokenString t) as [a|] eqn:Ea; [|exfalso; exact (tokenString_some _ Ea)].
    destruct (tokenString (ttype (peekT st))) as [b|] eqn:Eb; [|exfalso; exact (tokenString_some _ Eb)].
    eexists. split; [reflexivity|]. split; [apply good_addErr, G|reflexivity].
Qed.

Lemma okres_ret {A} st (a : A) st' : good st' -> (mu st' <= mu st)%nat -> okres st (POk a st').
Proof. intros G M. exists a, st'. auto. Qed.

(* ---------- proof automation: walk the body of a parse function one scrutinee at a time *)
Ltac good_tac :=
  repeat first [ assumption
               | apply good_advance | apply good_addErr | apply good_setUse
               | apply good_addComponent | apply good_addReserve | apply good_addInsert ].

Ltac mu_norm :=
  repeat rewrite ?mu_advance, ?mu_addErr, ?mu_setUse, ?mu_addComponent, ?mu_addReserve, ?mu_addInsert in *.

Ltac mu_tac := mu_norm; lia.

Ltac head_scrut t :=
  lazymatch t with
  | match ?X with _ => _ end => head_scrut X
  | _ => t
  end.

(* the state a parse-function call is applied to: its last argument *)
Ltac last_arg X := lazymatch X with ?F ?s => s end.

Lemma peekT_nonterm st : good st -> is_termT (ttype (peekT st)) = false -> (2 <= mu st)%nat.
Proof.
  intros G H. apply (peek_nonterm st (ttype (peekT st)) G); [|exact H].
  unfold peekIs, tok_eqb. apply Nat.eqb_refl.
Qed.

Ltac pos_tac :=
  first [ solve [mu_tac]
        | solve [eapply cur_nonterm; [good_tac | first [ eapply prefix_nonterm; eassumption
                                                       | eapply infix_nonterm; eassumption
                                                       | eapply guard_nonterm; eassumption ]]] ].

Ltac side := first [ solve [good_tac] | solve [pos_tac] | reflexivity | assumption ].

Ltac ep X :=
  lazymatch X with
  | expectPeek ?s ?t =>
    let G := fresh "G" in
    assert (G : good s) by good_tac;
    let T := fresh "T" in
    assert (T : is_termT t = false) by (first [reflexivity | assumption]);
    let E := fresh "E" in let M := fresh "M" in let s' := fresh "s" in let G' := fresh "G" in
    destruct (expectPeek_spec s t G T) as [[E M]|(s' & E & G' & M)]; rewrite E; clear E T
  end.

Ltac ifstep X :=
  match X with
  | context [peekIs ?s ?t] =>
    let E := fresh "Ep" in
    destruct (peekIs s t) eqn:E;
    [ try (let G := fresh "G" in assert (G : good s) by good_tac;
           let P := fresh "P" in pose proof (peek_nonterm s t G E eq_refl) as P) | ]
  | _ => destruct X eqn:?
  end.

Ltac pairstep X :=
  lazymatch X with
  | freshId ?s =>
    let a := fresh "id" in let s' := fresh "s" in let E := fresh "E" in
    destruct (freshId s) as [a s'] eqn:E; apply freshId_spec in E; let Hg := fresh "Hg" in destruct E as [Hg ?];
    let G := fresh "G" in assert (G : good s') by (apply Hg; good_tac); clear Hg
  | aliasPath ?s ?n =>
    let a := fresh "nm" in let s' := fresh "s" in let E := fresh "E" in
    destruct (aliasPath s n) as [a s'] eqn:E; apply aliasPath_spec in E; let Hg := fresh "Hg" in destruct E as [Hg ?];
    let G := fresh "G" in assert (G : good s') by (apply Hg; good_tac); clear Hg
  end.

Ltac stepwith call :=
  cbv beta iota zeta; cbn [negb andb orb];
  lazymatch goal with
  | |- okres ?s0 ?body =>
    let X := head_scrut body in
    lazymatch X with
    | POk _ _ => first [ match X with context [if ?b then _ else _] => ifstep b end
                       | apply okres_ret; [solve [good_tac] | solve [mu_tac]] ]
    | expectPeek _ _ => ep X
    | freshId _ => pairstep X
    | aliasPath _ _ => pairstep X
    | tokenString ?t =>
      let E := fresh "E" in destruct (tokenString t) eqn:E; [|exfalso; exact (tokenString_some _ E)]
    | _ => let T := type of X in
           lazymatch T with
           | pres _ => first [ match X with context [if ?b then _ else _] => ifstep b end | call X ]
           | bool => ifstep X
           | _ => destruct X eqn:?
           end
    end
  end.

(* a call of a parse function: find the induction hypothesis (or lemma in the context) that gives
   okres for it, discharge its side conditions, and continue with the returned state *)
Ltac callE X :=
  let s := last_arg X in
  let H := fresh "Hc" in
  assert (H : okres s X);
  [ match goal with IH : _ |- _ => apply IH; side end
  | let a := fresh "a" in let s' := fresh "s" in let E := fresh "E" in let G := fresh "G" in let M := fresh "M" in
    destruct H as (a & s' & E & G & M); rewrite E; clear E ].

(* ---------- expressions *)
Definition Pe n := forall prec st, good st -> (6 * mu st + 4 <= n)%nat -> okres st (parseExpression n prec st).
Definition Ppre n := forall k st, good st -> (0 < mu st)%nat -> (6 * mu st + 3 <= n)%nat -> okres st (parsePrefix n k st).
Definition Pobj n := forall ln pairs st, good st -> (6 * mu st + 5 <= n)%nat -> okres st (parseObjectLoop n ln pairs st).
Definition Ppratt n := forall prec left st, good st -> (6 * mu st + 1 <= n)%nat -> okres st (prattLoop n prec left st).
Definition Pinf n := forall k left st, good st -> (0 < mu st)%nat -> (6 * mu st + 2 <= n)%nat -> okres st (parseInfix n k left st).
Definition Pel n := forall e st, is_termT e = false -> good st -> (0 < mu st)%nat -> (6 * mu st + 2 <= n)%nat ->
                                 okres st (parseExpressionList n e st).
Definition Pell n := forall e acc st, is_termT e = false -> good st -> (6 * mu st + 1 <= n)%nat ->
                                      okres st (exprListLoop n e acc st).

Lemma expr_group_total n : Pe n /\ Ppre n /\ Pobj n /\ Ppratt n /\ Pinf n /\ Pel n /\ Pell n.
Proof.
  induction n as [|f (IHe & IHpre & IHobj & IHpratt & IHinf & IHel & IHell)].
  { unfold Pe, Ppre, Pobj, Ppratt, Pinf, Pel, Pell. repeat split; intros; lia. }
  unfold Pe, Ppre, Pobj, Ppratt, Pinf, Pel, Pell in *.
  repeat split.
  - intros prec st G B. cbn [parseExpression]. repeat stepwith callE.
  - intros k st G P B. cbn [parsePrefix]. repeat stepwith callE.
  - intros ln pairs st G B. cbn [parseObjectLoop]. repeat stepwith callE.
  - intros prec left st G B. cbn [prattLoop].
    stepwith callE; [|stepwith callE]. stepwith callE; [|stepwith callE].
    assert (P : (2 <= mu st)%nat) by (apply peekT_nonterm; [exact G|eapply infix_nonterm; eassumption]).
    repeat stepwith callE.
  - intros k left st G P B. cbn [parseInfix]. repeat stepwith callE.
  - intros e st T G P B. cbn [parseExpressionList]. repeat stepwith callE.
  - intros e acc st T G B. cbn [exprListLoop]. repeat stepwith callE.
Qed.

Lemma parseExpression_total n prec st :
  good st -> (6 * mu st + 4 <= n)%nat -> okres st (parseExpression n prec st).
Proof. apply expr_group_total. Qed.

Lemma parseExpressionList_total n e st :
  is_termT e = false -> good st -> (0 < mu st)%nat -> (6 * mu st + 2 <= n)%nat ->
  okres st (parseExpressionList n e st).
Proof. apply expr_group_total. Qed.

(* ---------- the statement helpers that are not themselves recursive *)
Lemma parseExpressionStmt_total n st :
  good st -> (6 * mu st + 4 <= n)%nat -> okres st (parseExpressionStmt n st).
Proof.
  intros G B. unfold parseExpressionStmt.
  pose proof parseExpression_total as IH. repeat stepwith callE.
Qed.

Lemma parseAssignStmt_total n st :
  good st -> (6 * mu st + 4 <= n)%nat -> okres st (parseAssignStmt n st).
Proof.
  intros G B. unfold parseAssignStmt.
  pose proof parseExpression_total as IH. repeat stepwith callE.
Qed.

Lemma parseEmbeddedCode_total n st :
  good st -> (6 * mu st + 4 <= n)%nat -> okres st (parseEmbeddedCode n st).
Proof.
  intros G B. unfold parseEmbeddedCode.
  pose proof parseExpressionStmt_total as IH1. pose proof parseAssignStmt_total as IH2.
  repeat stepwith callE.
Qed.

Lemma parseCondDirective_total n mk st :
  good st -> (6 * mu st + 4 <= n)%nat -> okres st (parseCondDirective n mk st).
Proof.
  intros G B. unfold parseCondDirective.
  pose proof parseExpression_total as IH. repeat stepwith callE.
Qed.

Lemma parseUseStmt_total st : good st -> okres st (parseUseStmt st).
Proof. intros G. unfold parseUseStmt. repeat stepwith callE. Qed.

Lemma parseReserveStmt_total st : good st -> okres st (parseReserveStmt st).
Proof. intros G. unfold parseReserveStmt. repeat stepwith callE. Qed.

Lemma parseBracesStmt_total n st :
  good st -> (6 * mu st + 4 <= n)%nat -> okres st (parseBracesStmt n st).
Proof.
  intros G B. unfold parseBracesStmt.
  pose proof parseEmbeddedCode_total as IH. repeat stepwith callE.
Qed.

Lemma parseSlotStmt_total st : good st -> okres st (parseSlotStmt st).
Proof. intros G. unfold parseSlotStmt. repeat stepwith callE. Qed.

Lemma parseDumpStmt_total n st :
  good st -> (6 * mu st + 4 <= n)%nat -> okres st (parseDumpStmt n st).
Proof.
  intros G B. unfold parseDumpStmt.
  pose proof parseExpressionList_total as IH. repeat stepwith callE.
Qed.

(* ---------- statements *)
Definition Ps n := forall st, good st -> (6 * mu st + 5 <= n)%nat -> okres st (parseStatement n st).
Definition Pbl n := forall acc st, good st -> (6 * mu st + 6 <= n)%nat -> okres st (blockLoop n acc st).
Definition Pbs n := forall st, good st -> (6 * mu st + 7 <= n)%nat -> okres st (parseBlockStmt n st).
Definition Pbody n := forall st, good st -> (6 * mu st + 8 <= n)%nat -> okres st (parseBody n st).
Definition Pei n := forall acc st, good st -> (6 * mu st + 9 <= n)%nat -> okres st (elseIfLoop n acc st).
Definition Psl n := forall acc st, good st -> (6 * mu st + 9 <= n)%nat -> okres st (parseSlots n acc st).

Lemma stmt_group_total n : Ps n /\ Pbl n /\ Pbs n /\ Pbody n /\ Pei n /\ Psl n.
Proof.
  induction n as [|f (IHs & IHbl & IHbs & IHbody & IHei & IHsl)].
  { unfold Ps, Pbl, Pbs, Pbody, Pei, Psl. repeat split; intros; lia. }
  unfold Ps, Pbl, Pbs, Pbody, Pei, Psl in *.
  pose proof parseExpression_total as L1. pose proof parseEmbeddedCode_total as L2. pose proof parseBracesStmt_total as L2b.
  pose proof parseCondDirective_total as L3. pose proof parseDumpStmt_total as L4.
  pose proof parseUseStmt_total as L5. pose proof parseReserveStmt_total as L6.
  pose proof parseSlotStmt_total as L7.
  repeat split.
  - intros st G B. cbn [parseStatement]. repeat stepwith callE.
  - intros acc st G B. cbn [blockLoop]. stepwith callE; [stepwith callE|].
    assert (P : (0 < mu st)%nat) by pos_tac.
    repeat stepwith callE.
  - intros st G B. cbn [parseBlockStmt]. repeat stepwith callE.
  - intros st G B. cbn [parseBody]. repeat stepwith callE.
  - intros acc st G B. cbn [elseIfLoop]. repeat stepwith callE.
  - intros acc st G B. cbn [parseSlots]. repeat stepwith callE.
Qed.

Lemma parseStatement_total n st : good st -> (6 * mu st + 5 <= n)%nat -> okres st (parseStatement n st).
Proof. apply stmt_group_total. Qed.

(* ---------- the program loop *)
Definition progres (r : pres (option (list stmt))) : Prop :=
  exists o st', r = POk o st' /\ good st' /\ (o = None -> errs st' <> []) /\ (o <> None -> curIs st' T_EOF = true).

Lemma cur_term_at_end st : good st -> mu st = 0%nat -> is_termT (ttype (curT st)) = true.
Proof.
  intros (A & _) M. unfold mu, curT in *. destruct (toks st) as [|a [|b r]]; cbn in *; try congruence; lia.
Qed.

Lemma programLoop_end f acc st : good st -> mu st = 0%nat -> (2 <= f)%nat -> progres (programLoop f acc st).
Proof.
  intros G M F. pose proof (cur_term_at_end st G M) as T.
  destruct f as [|[|f]]; try lia. cbn [programLoop].
  unfold curIs at 1. destruct (tok_eqb (ttype (curT st)) T_EOF) eqn:E.
  - exists (Some (rev acc)), st. split; [reflexivity|]. split; [exact G|]. split; [discriminate|intros _; exact E].
  - unfold is_termT in T. rewrite E in T. cbn [orb] in T. apply tok_eqb_eq in T.
    cbn [parseStatement]. rewrite T. unfold curIs. rewrite T. change (tok_eqb T_ILLEGAL T_ILLEGAL) with true.
    cbv beta iota. eexists _, _. split; [reflexivity|]. split; [apply good_addErr, G|].
    split; [intros _; cbn [errs addErr]; discriminate|intro X; exfalso; apply X; reflexivity].
Qed.

Lemma programLoop_total n : forall acc st, good st -> (6 * mu st + 6 <= n)%nat -> progres (programLoop n acc st).
Proof.
  induction n as [|f IH]; intros acc st G B; [lia|].
  destruct (Nat.eq_dec (mu st) 0) as [Z|NZ]; [apply programLoop_end; [exact G|exact Z|lia]|].
  cbn [programLoop]. destruct (curIs st T_EOF) eqn:Ec.
  - exists (Some (rev acc)), st. split; [reflexivity|]. split; [exact G|]. split; [discriminate|intros _; exact Ec].
  - destruct (parseStatement_total f st G ltac:(lia)) as (s & st1 & E & G1 & M1). rewrite E.
    destruct (curIs st1 T_ILLEGAL).
    + eexists _, _. split; [reflexivity|]. split; [apply good_addErr, G1|].
      split; [intros _; cbn [errs addErr]; discriminate|intro X; exfalso; apply X; reflexivity].
    + apply IH; [apply good_advance, G1|]. rewrite mu_advance. lia.
Qed.

Lemma good_init ts : tinv ts = true -> Q ts -> good (initP ts).
Proof. intros H HQ. split; [exact H|]. split; [reflexivity|]. split; [constructor|exact HQ]. Qed.

Lemma programLoop_final ts :
  tinv ts = true -> Q ts -> progres (programLoop (parse_fuel ts) [] (initP ts)).
Proof.
  intros H HQ. apply programLoop_total; [exact (good_init ts H HQ)|].
  unfold parse_fuel, mu. cbn [toks initP]. lia.
Qed.

End WithQ.

(* every token list that ends in EOF or ILLEGAL is parsed, within the fuel the model allots,
   to a program without errors or to a non-empty list of errors with lines >= 1 *)
Theorem parse_tokens_total ts :
  tinv ts = true ->
  (exists p, parse_tokens ts = ParsedOk p) \/
  (exists es, parse_tokens ts = ParseErrors es /\ es <> [] /\ errs_ok es).
Proof.
  intro H. unfold parse_tokens, parse_tokens_fuel.
  destruct (programLoop_final (fun _ => True) (fun _ _ _ _ => I) ts H I) as (o & st' & E & (A & P & C & _) & N & _).
  rewrite E, P. destruct (errs st') as [|e es] eqn:Ee.
  - destruct o as [ss|]; [left; eexists; reflexivity|]. exfalso. apply N; reflexivity.
  - right. exists (rev (e :: es)). split; [reflexivity|]. split.
    + intro R. apply (f_equal (@List.length _)) in R. rewrite rev_length in R. discriminate R.
    + unfold errs_ok. apply Forall_rev. exact C.
Qed.

Corollary parse_tokens_terminates ts : tinv ts = true -> parse_tokens ts <> ParseOutOfFuel.
Proof. intros H. destruct (parse_tokens_total ts H) as [[p E]|(es & E & _)]; rewrite E; discriminate. Qed.

Corollary parse_tokens_never_panics ts : tinv ts = true -> parse_tokens ts <> ParsePanic.
Proof. intros H. destruct (parse_tokens_total ts H) as [[p E]|(es & E & _)]; rewrite E; discriminate. Qed.

(* a token list with no EOF token in it - the lexer stopped at an illegal character - is never
   accepted: the parser can only leave its loop through the ILLEGAL check, which records an error *)
Definition neof (ts : list token) : Prop := Forall (fun t => tok_eqb (ttype t) T_EOF = false) ts.

Theorem parse_tokens_rejects_without_eof ts :
  tinv ts = true -> neof ts -> exists es, parse_tokens ts = ParseErrors es /\ es <> [].
Proof.
  intros H HQ. unfold parse_tokens, parse_tokens_fuel.
  assert (QT : forall a b r, neof (a :: b :: r) -> neof (b :: r)) by (intros a b r X; inversion X; assumption).
  destruct (programLoop_final neof QT ts H HQ) as (o & st' & E & (A & P & C & D) & N & F).
  rewrite E, P.
  assert (O : o = None).
  { destruct o as [ss|]; [|reflexivity]. exfalso.
    assert (X : curIs st' T_EOF = true) by (apply F; discriminate).
    unfold curIs, curT in X. destruct (toks st') as [|a r]; [discriminate A|].
    inversion D as [|? ? Y _]. cbn [hd] in X. congruence. }
  subst o. destruct (errs st') as [|e es] eqn:Ee; [exfalso; apply N; reflexivity|].
  exists (rev (e :: es)). split; [reflexivity|].
  intro R. apply (f_equal (@List.length _)) in R. rewrite rev_length in R. discriminate R.
Qed.
