(* C04 / C12: "every variable supplied in the data map is visible everywhere unless shadowed".
   - [data_map_binds_every_entry]: for EVERY data map (an association list with distinct keys, in any
     presentation order) that EnvFromMap accepts, every entry is bound in the root scope to the
     conversion of its Go value, and nothing else is bound;
   - [visible_under_unshadowing_frames]: a name of the root scope is read through any number of nested
     scopes that do not bind it; [shadowed_by_nearest_frame]: the nearest binding wins;
   - [data_survives_nested_assignments]: whatever is assigned inside nested scopes, once those scopes
     are dropped the data entry reads as it did. *)
From Coq Require Import String Sorting.Permutation Sorting.Sorted.
From TW Require Import Bytes Values Ast Builtins Eval Api Scopes Order.
Open Scope N_scope.

Lemma env_from_sorted_spec : forall l e e',
  e <> [] -> NoDup (map fst l) -> env_from_sorted l e = EnvOk e' ->
  e' <> [] /\ tl e' = tl e /\
  (forall k g, In (k, g) l -> exists v, to_object g = Some v /\ env_get e' k = Some v) /\
  (forall k, ~ In k (map fst l) -> env_get e' k = env_get e k).
Proof.
  induction l as [|[k0 g0] l IH]; intros e e' Hne Hnd H; cbn [env_from_sorted] in H.
  - inversion H; subst. split; [exact Hne|]. split; [reflexivity|]. split; [intros k g []|].
    intros k _. reflexivity.
  - destruct (to_object g0) as [v0|] eqn:Ev; [|discriminate].
    destruct (env_set e k0 v0) as [e1|msg] eqn:Es; [|discriminate].
    cbn [map fst] in Hnd. inversion Hnd as [|x xs Hnotin Hnd']; subst.
    pose proof (env_set_nonempty _ _ _ _ Es) as Hne1.
    destruct (IH e1 e' Hne1 Hnd' H) as (Hne' & Htl & Hin & Hout).
    split; [exact Hne'|]. split; [rewrite Htl; exact (env_set_outer_unchanged _ _ _ _ Es)|]. split.
    + intros k g [Heq|Hi].
      * inversion Heq; subst k g. exists v0. split; [exact Ev|].
        rewrite (Hout k0 Hnotin). exact (env_set_get_same _ _ _ _ Hne Es).
      * exact (Hin k g Hi).
    + intros k Hk. cbn [map fst] in Hk.
      assert (Hk0 : bytes_eqb k k0 = false).
      { destruct (bytes_eqb k k0) eqn:E; [|reflexivity]. apply bytes_eqb_eq in E. subst. exfalso. apply Hk. left; reflexivity. }
      rewrite (Hout k (fun Hi => Hk (or_intror Hi))).
      exact (env_set_get_other _ _ _ _ _ Hne Hk0 Es).
Qed.

(* every accepted data map, whatever the order in which the Go map presents its entries *)
Theorem data_map_binds_every_entry (data : list (bytes * goval)) root :
  NoDup (map fst data) -> env_from_map data = EnvOk root ->
  (exists fr, root = [fr]) /\
  (forall k g, In (k, g) data -> exists v, to_object g = Some v /\ env_get root k = Some v) /\
  (forall k, ~ In k (map fst data) -> env_get root k = None).
Proof.
  intros Hnd H. unfold env_from_map in H.
  pose proof (asort_perm data) as P.
  assert (Hnd' : NoDup (map fst (asort data))).
  { eapply Permutation_NoDup; [apply Permutation_map; exact P | exact Hnd]. }
  assert (Hne : ([[]] : env) <> []) by discriminate.
  destruct (env_from_sorted_spec _ _ _ Hne Hnd' H) as (Hne' & Htl & Hin & Hout).
  split; [|split].
  - destruct root as [|fr r]; [congruence|]. cbn [tl] in Htl. subst r. exists fr. reflexivity.
  - intros k g Hi. apply Hin. eapply Permutation_in; [exact P | exact Hi].
  - intros k Hk. rewrite Hout; [reflexivity|].
    intro Hi. apply Hk. eapply Permutation_in; [apply Permutation_sym, Permutation_map; exact P | exact Hi].
Qed.

(* reading through nested scopes *)
Theorem visible_under_unshadowing_frames (frs : list (list (bytes * value))) (en : env) k :
  Forall (fun fr => alookup k fr = None) frs -> env_get (frs ++ en) k = env_get en k.
Proof.
  induction 1 as [|fr frs Hfr _ IH]; [reflexivity|].
  cbn [app env_get]. rewrite Hfr. exact IH.
Qed.

Theorem shadowed_by_nearest_frame (frs : list (list (bytes * value))) fr (en : env) k v :
  Forall (fun fr => alookup k fr = None) frs -> alookup k fr = Some v ->
  env_get (frs ++ fr :: en) k = Some v.
Proof.
  intros Hf Hl. rewrite (visible_under_unshadowing_frames frs (fr :: en) k Hf).
  cbn [env_get]. rewrite Hl. reflexivity.
Qed.

(* assignments inside a nested scope, then the end of that scope *)
Theorem data_survives_nested_assignments (en : env) ops e' k :
  set_all ([] :: en) ops = Some e' -> env_get (tl e') k = env_get en k.
Proof. intro H. rewrite (outer_frames_untouched ops _ _ H). reflexivity. Qed.

(* end to end: an entry of the data map, read inside any nesting of scopes that do not bind its name,
   after any assignments made in (and dropped with) deeper scopes *)
Theorem data_entry_read_everywhere (data : list (bytes * goval)) root frs ops e' k g :
  NoDup (map fst data) -> env_from_map data = EnvOk root -> In (k, g) data ->
  Forall (fun fr => alookup k fr = None) frs ->
  set_all ([] :: frs ++ root) ops = Some e' ->
  exists v, to_object g = Some v /\ env_get (tl e') k = Some v.
Proof.
  intros Hnd Hr Hi Hf Hs.
  destruct (data_map_binds_every_entry data root Hnd Hr) as (_ & Hin & _).
  destruct (Hin k g Hi) as (v & Hv & Hg). exists v. split; [exact Hv|].
  rewrite (data_survives_nested_assignments _ _ _ _ Hs).
  rewrite (visible_under_unshadowing_frames frs root k Hf). exact Hg.
Qed.

(* non-vacuity: a two-entry map given in descending key order *)
Example data_visible_example :
  let data := [(bs "y", GInt 2); (bs "x", GStr (bs "s"))] in
  exists root, env_from_map data = EnvOk root /\ env_get ([(bs "z", VNil)] :: root) (bs "x") = Some (VStr (bs "s"))
               /\ env_get root (bs "y") = Some (VInt 2).
Proof. eexists. vm_compute. repeat split; reflexivity. Qed.
