(* C08: the shape of the lexer's output that Proofs/ParseReject.v assumes.  For every input the
   token stream of lex_all ends in EOF or ILLEGAL (LexAll.v), has EOF only as its last token,
   and an ILLEGAL token in it is followed by ILLEGAL / EOF tokens only: the ILLEGAL token for an
   unknown character does not move the lexer (it repeats), the ILLEGAL tokens for an unterminated
   string or comment leave the lexer at the end of the input, and a directive that
   isDirectiveToken has recognised is never lexed as ILLEGAL. *)
From Coq Require Import String Lia.
From TW Require Import Bytes GenToken Lexer Positions LexerPos LexTotal LexerTokens LexAll TokenShape.
From TW Require Import Text Passthrough Escapes GenTie.
Open Scope N_scope.

(* ---------- EOF is last *)
Lemma lex_loop_eol : forall fuel l prev ts, lex_loop fuel l prev = Some ts -> eol ts = true.
Proof.
  induction fuel as [|f IH]; intros l prev ts; [discriminate|]. cbn [lex_loop].
  destruct (nextTok l) as [[t l']|]; [|discriminate].
  destruct (tok_eqb (ttype t) T_EOF) eqn:Ee; [intros [= <-]; reflexivity|].
  destruct (tok_eqb (ttype t) T_ILLEGAL && match prev with Some p => token_eqb p t | None => false end); [intros [= <-]; reflexivity|].
  destruct (lex_loop f l' (Some t)) as [ts'|] eqn:El; [|discriminate]. intros [= <-].
  cbn [eol]. rewrite (IH _ _ _ El). rewrite Ee. destruct ts'; reflexivity.
Qed.

(* ---------- a recognised directive is never ILLEGAL *)
Lemma letterword_keyword kw : In kw directive_words -> forallb isLetterWord kw = true.
Proof.
  intro I. pose proof directives_well_formed as F. rewrite forallb_forall in F.
  unfold directive_words in I. apply in_map_iff in I as (p & <- & Ip). specialize (F p Ip).
  destruct (bs (fst p)) as [|c r]; [discriminate F|]. apply andb_true_iff in F as [F1 F2].
  apply N.eqb_eq in F1. subst c. cbn [forallb]. rewrite F2. reflexivity.
Qed.

Lemma lookup_is_keyword kw : tok_eqb (lookupDirective kw) T_ILLEGAL = false -> In kw directive_words.
Proof.
  unfold lookupDirective. destruct (alookup kw directives_b) eqn:E; [|intro H; discriminate H].
  intros _. rewrite directive_words_are_keys. exact (alookup_in _ _ _ E).
Qed.

(* what isPotentiallyLong says *)
Lemma potentially_long l t :
  isPotentiallyLong l t = true ->
  (t = T_ELSE /\ cur l = 105 /\ peekChar l = 102) \/
  (t = T_BREAK /\ cur l = 73 /\ peekChar l = 102) \/
  (t = T_CONTINUE /\ cur l = 73 /\ peekChar l = 102).
Proof.
  unfold isPotentiallyLong. intro H.
  apply orb_true_iff in H as [H|H]; [apply orb_true_iff in H as [H|H]|];
    apply andb_true_iff in H as [H Hp]; apply andb_true_iff in H as [Ht Hc];
    apply N.eqb_eq in Hp, Hc; apply ParseTotal.tok_eqb_eq in Ht; auto.
Qed.

Lemma lookup_key_of t (key : bytes) :
  (forall k, In k directive_words -> lookupDirective k = t -> k = key) ->
  forall kw, lookupDirective kw = t -> tok_eqb t T_ILLEGAL = false -> kw = key.
Proof.
  intros U kw H Ht. apply U; [|exact H]. apply lookup_is_keyword. rewrite H. exact Ht.
Qed.

Lemma keys_of_long :
  forall k, In k directive_words ->
    (lookupDirective k = T_ELSE -> k = bs "@else") /\
    (lookupDirective k = T_BREAK -> k = bs "@break") /\
    (lookupDirective k = T_CONTINUE -> k = bs "@continue").
Proof.
  intros k I. unfold directive_words in I.
  assert (D : forall l : list (string * tok), In k (map (fun p => bs (fst p)) l) ->
              forallb (fun p => let kk := bs (fst p) in
                         (negb (tok_eqb (lookupDirective kk) T_ELSE) || bytes_eqb kk (bs "@else")) &&
                         (negb (tok_eqb (lookupDirective kk) T_BREAK) || bytes_eqb kk (bs "@break")) &&
                         (negb (tok_eqb (lookupDirective kk) T_CONTINUE) || bytes_eqb kk (bs "@continue"))) l = true ->
              (lookupDirective k = T_ELSE -> k = bs "@else") /\
              (lookupDirective k = T_BREAK -> k = bs "@break") /\
              (lookupDirective k = T_CONTINUE -> k = bs "@continue")).
  { induction l as [|p l IHl]; [intros []|]. cbn [map In forallb]. intros [E|I'] F.
    - apply andb_true_iff in F as [F _]. subst k. cbv zeta in F.
      apply andb_true_iff in F as [F F3]. apply andb_true_iff in F as [F1 F2].
      repeat split; intro H; rewrite H in *; cbn [negb orb] in *;
        match goal with X : bytes_eqb _ _ = true |- _ => apply bytes_eqb_eq in X; exact X | _ => idtac end.
      + change (tok_eqb T_ELSE T_ELSE) with true in F1. cbn [negb orb] in F1. apply bytes_eqb_eq in F1. exact F1.
      + change (tok_eqb T_BREAK T_BREAK) with true in F2. cbn [negb orb] in F2. apply bytes_eqb_eq in F2. exact F2.
      + change (tok_eqb T_CONTINUE T_CONTINUE) with true in F3. cbn [negb orb] in F3. apply bytes_eqb_eq in F3. exact F3.
    - apply andb_true_iff in F as [_ F]. exact (IHl I' F). }
  apply (D directives I). vm_compute. reflexivity.
Qed.

Lemma long_forms :
  tok_eqb (lookupDirective (bs "@else" ++ [105])) T_ILLEGAL = true /\ lookupDirective ((bs "@else" ++ [105]) ++ [102]) = T_ELSE_IF /\
  tok_eqb (lookupDirective (bs "@break" ++ [73])) T_ILLEGAL = true /\ lookupDirective ((bs "@break" ++ [73]) ++ [102]) = T_BREAK_IF /\
  tok_eqb (lookupDirective (bs "@continue" ++ [73])) T_ILLEGAL = true /\ lookupDirective ((bs "@continue" ++ [73]) ++ [102]) = T_CONTINUE_IF.
Proof. vm_compute. repeat split. Qed.

Lemma cur_peek_rest l x y : cur l = x -> peekChar l = y -> x <> 0 -> y <> 0 -> exists r, rest l = x :: y :: r.
Proof.
  unfold cur, peekChar. destruct (rest l) as [|a [|b r]]; cbn [hd tl]; intros; subst; try congruence. eexists; reflexivity.
Qed.

(* the keyword has been read (kw', with token t' that may become a longer directive: "if" / "If" follows) *)
Lemma long_continues r l kw' t' (x : N) :
  rest l = r -> isPotentiallyLong l t' = true -> lookupDirective kw' = t' ->
  tok_eqb (snd (readDirective_loop r l kw' t')) T_ILLEGAL = false.
Proof.
  intros Hr PL Hk.
  assert (Ht : tok_eqb t' T_ILLEGAL = false).
  { destruct (potentially_long l t' PL) as [(-> & _)|[(-> & _)|(-> & _)]]; reflexivity. }
  pose proof (keys_of_long kw' (lookup_is_keyword kw' ltac:(rewrite Hk; exact Ht))) as (K1 & K2 & K3).
  destruct long_forms as (A1 & A2 & B1 & B2 & C1 & C2).
  destruct (potentially_long l t' PL) as [(Et & Hc & Hp)|[(Et & Hc & Hp)|(Et & Hc & Hp)]]; rewrite Et in Hk;
    destruct (cur_peek_rest l _ _ Hc Hp ltac:(discriminate) ltac:(discriminate)) as (r2 & Er);
    rewrite <- Hr; rewrite Er;
    [ rewrite (K1 Hk) | rewrite (K2 Hk) | rewrite (K3 Hk) ];
    cbn [readDirective_loop]; rewrite Hc;
    match goal with |- context [isLetterWord ?c] => change (negb (isLetterWord c)) with false end; cbv match;
    [ rewrite A1 | rewrite B1 | rewrite C1 ]; rewrite andb_false_r; cbv match;
    assert (Hc2 : cur (readChar l) = 102) by (unfold cur; cbn [readChar rest]; rewrite Er; reflexivity);
    rewrite Hc2; change (negb (isLetterWord 102)) with false; cbv match;
    [ rewrite A2 | rewrite B2 | rewrite C2 ];
    match goal with |- context [isPotentiallyLong ?a ?b] =>
      assert (P0 : isPotentiallyLong a b = false) by (unfold isPotentiallyLong; reflexivity); rewrite P0 end;
    reflexivity.
Qed.

(* reading on from a position where i more bytes complete a directive keyword never ends in ILLEGAL *)
Lemma readDirective_loop_finds : forall i r l kw t,
  rest l = r -> (1 <= i <= List.length r)%nat ->
  tok_eqb (lookupDirective (kw ++ firstn i r)) T_ILLEGAL = false ->
  forallb isLetterWord (firstn i r) = true ->
  tok_eqb (snd (readDirective_loop r l kw t)) T_ILLEGAL = false.
Proof.
  induction i as [|i IH]; intros r l kw t Hr Hi Hl Hw; [lia|].
  destruct r as [|c r']; [cbn in Hi; lia|].
  cbn [firstn forallb] in Hw. apply andb_true_iff in Hw as [Hc Hw].
  assert (Ec : cur l = c) by (unfold cur; rewrite Hr; reflexivity).
  cbn [readDirective_loop]. rewrite Ec, Hc. cbn [negb]. cbv match.
  assert (Hr' : rest (readChar l) = r') by (cbn [readChar rest]; rewrite Hr; reflexivity).
  destruct (tok_eqb (lookupDirective (kw ++ [c])) T_ILLEGAL) eqn:Et.
  - rewrite andb_false_r. cbv match.
    destruct i as [|i'].
    + cbn [firstn] in Hl. rewrite Et in Hl. discriminate Hl.
    + apply (IH r' (readChar l) (kw ++ [c]) _ Hr'); [cbn [List.length] in Hi; lia| |exact Hw].
      rewrite <- app_assoc. exact Hl.
  - cbn [negb]. rewrite andb_true_r.
    destruct (isPotentiallyLong (readChar l) (lookupDirective (kw ++ [c]))) eqn:PL; cbn [negb]; cbv match.
    + exact (long_continues r' (readChar l) (kw ++ [c]) _ 0 Hr' PL eq_refl).
    + cbn [snd]. exact Et.
Qed.

Lemma isDirTok_loop_true n : forall i l,
  (1 <= i)%nat -> fst (isDirTok_loop n i l) = true ->
  exists j, (1 <= j <= List.length (rest l))%nat /\ tok_eqb (lookupDirective (firstn j (rest l))) T_ILLEGAL = false.
Proof.
  induction n as [|n IH]; intros i l Hi; cbn [isDirTok_loop]; [discriminate|].
  destruct (Nat.ltb_spec (List.length (rest l)) i); [discriminate|].
  destruct (tok_eqb (lookupDirective (firstn i (rest l))) T_ILLEGAL) eqn:Et.
  - intro H1. apply (IH (S i) l); [lia|exact H1].
  - intros _. exists i. split; [lia|exact Et].
Qed.

Lemma firstn_firstn_le (j : nat) (r : bytes) : firstn j (firstn j r) = firstn j r.
Proof. rewrite firstn_firstn, Nat.min_id. reflexivity. Qed.

(* the directive branch of NextToken never yields ILLEGAL *)
Lemma directive_not_illegal l :
  fst (isDirectiveToken l) = true -> tok_eqb (ttype (fst (directiveToken l))) T_ILLEGAL = false.
Proof.
  intro H. pose proof (isDirectiveToken_at l H) as C.
  unfold isDirectiveToken in H. rewrite C in H. change (negb (64 =? 64)) with false in H. cbv match in H.
  destruct (isDirTok_loop_true _ 1 l ltac:(lia) H) as (j & Hj & Hl).
  unfold directiveToken. rewrite C. change (negb (64 =? 64)) with false. cbv match.
  unfold readDirective. cbv zeta. change (rest (tokenBegins l)) with (rest l).
  pose proof (readDirective_loop_finds j (rest l) (tokenBegins l) [] T_ILLEGAL eq_refl Hj Hl) as F.
  assert (W : forallb isLetterWord (firstn j (rest l)) = true) by (apply letterword_keyword, lookup_is_keyword, Hl).
  specialize (F W).
  destruct (readDirective_loop (rest l) (tokenBegins l) [] T_ILLEGAL) as [[l1 kw] t]. cbn [snd] in F.
  rewrite F. cbn [fst]. rewrite newToken_type. exact F.
Qed.

(* ---------- what follows an ILLEGAL token *)
(* the scanning loop of a string stops at its closing quote or at the end of the input *)
Lemma readString_loop_stops r : forall l q acc,
  (List.length (rest l) <= List.length r)%nat ->
  let l1 := fst (readString_loop r l q acc) in cur l1 = 0 \/ cur l1 = q.
Proof.
  induction r as [|c r IH]; intros l q acc Hl; cbn [readString_loop].
  - left. cbn [fst]. unfold cur. destruct (rest l); [reflexivity|cbn in Hl; lia].
  - destruct (cur l =? 0) eqn:E0; [left; cbn [fst]; apply N.eqb_eq, E0|].
    destruct ((cur (readChar l) =? q) && negb (cur l =? 92)) eqn:Eq.
    + right. cbn [fst]. apply andb_true_iff in Eq as [Eq _]. apply N.eqb_eq, Eq.
    + apply IH. cbn [readChar rest]. destruct (rest l); cbn in *; lia.
Qed.

Lemma readString_unterminated l :
  snd (fst (readString l)) = false -> cur (snd (readString l)) = 0.
Proof.
  unfold readString. set (l0 := readChar (tokenBegins l)).
  destruct (cur l0 =? cur l); cbn [fst snd]; [discriminate|].
  pose proof (readString_loop_stops (rest l0) l0 (cur l) [] ltac:(lia)) as H. cbv zeta in H.
  destruct (readString_loop (rest l0) l0 (cur l) []) as [l1 acc]. cbn [fst snd] in *.
  destruct (cur l1 =? cur l) eqn:Eq; cbn [fst snd]; [discriminate|]. intros _.
  destruct H as [H|H]; [exact H|]. rewrite H in Eq. rewrite N.eqb_refl in Eq. discriminate Eq.
Qed.

Lemma simple_tokens_legal c t : simpleLookup c = Some t -> tok_eqb t T_ILLEGAL = false.
Proof.
  unfold simpleLookup.
  assert (F : forallb (fun p : N * tok => negb (tok_eqb (snd p) T_ILLEGAL)) simple_tokens = true) by (vm_compute; reflexivity).
  revert F. generalize simple_tokens. intro m. induction m as [|[k t'] m IH]; intro F.
  - intro E. discriminate E.
  - cbn [forallb snd] in F. apply andb_true_iff in F as [F1 F2].
    destruct (c =? k).
    + intro E. inversion E; subst t'. apply negb_true_iff, F1.
    + apply (IH F2).
Qed.

Lemma lookupIdent_legal id : tok_eqb (lookupIdent id) T_ILLEGAL = false.
Proof.
  unfold lookupIdent. destruct (alookup id keywords_b) as [t|] eqn:E; [|reflexivity].
  assert (F : forallb (fun t => negb (tok_eqb t T_ILLEGAL)) (map snd keywords_b) = true) by (vm_compute; reflexivity).
  rewrite forallb_forall in F. apply negb_true_iff, F. exact (alookup_value_in _ _ _ E).
Qed.

Definition After (t : token) (l' : lexer) : Prop :=
  (forall f, nextToken (S f) l' = Some (t, l')) \/ cur l' = 0.

(* inside {{ }} *)
Lemma embedded_after l :
  isHTML l = false -> isWs (cur l) = false -> (cur l =? 0) = false ->
  (cur l =? 123) && (peekChar l =? 123) = false ->
  negb (isHTML l) && (cur l =? 125) && (peekChar l =? 125) && (braceCount l =? 0)%Z = false ->
  tok_eqb (ttype (fst (embeddedCodeToken l))) T_ILLEGAL = true ->
  After (fst (embeddedCodeToken l)) (snd (embeddedCodeToken l)).
Proof.
  intros Hh Hw E0 Eb Er.
  assert (R : forall f, nextToken (S f) (tokenBegins l) = Some (embeddedCodeToken l)).
  { intro f. cbn [nextToken]. change (isHTML (tokenBegins l)) with (isHTML l). rewrite Hh.
    rewrite (skipWhitespace_fixed l Hw).
    change (cur (tokenBegins l)) with (cur l). change (peekChar (tokenBegins l)) with (peekChar l).
    change (isHTML (tokenBegins l)) with (isHTML l). change (braceCount (tokenBegins l)) with (braceCount l).
    rewrite E0, Eb, Er, Hh. cbn [negb]. rewrite tb_embedded. reflexivity. }
  unfold embeddedCodeToken in *. unfold fixedToken in *.
  destruct (simpleLookup (cur l)) as [t|] eqn:Es.
  { cbn [fst]. rewrite newToken_type. rewrite (simple_tokens_legal _ _ Es). discriminate. }
  destruct (cur l =? 123); [cbn [fst]; rewrite newToken_type; discriminate|].
  destruct (cur l =? 125); [cbn [fst]; rewrite newToken_type; discriminate|].
  destruct (cur l =? 40); [cbn [fst]; rewrite newToken_type; discriminate|].
  destruct (cur l =? 41); [cbn [fst]; rewrite newToken_type; discriminate|].
  destruct ((cur l =? 34) || (cur l =? 39)).
  { pose proof (readString_unterminated l) as U.
    destruct (readString l) as [[s term] l1]. cbn [fst snd] in *. rewrite newToken_type.
    destruct term; [discriminate|]. intros _. right. apply U. reflexivity. }
  destruct (cur l =? 60); [destruct (peekChar l =? 61); cbn [fst]; rewrite newToken_type; discriminate|].
  destruct (cur l =? 62); [destruct (peekChar l =? 61); cbn [fst]; rewrite newToken_type; discriminate|].
  destruct (cur l =? 33); [destruct (peekChar l =? 61); cbn [fst]; rewrite newToken_type; discriminate|].
  destruct (cur l =? 45); [destruct (peekChar l =? 45); cbn [fst]; rewrite newToken_type; discriminate|].
  destruct (cur l =? 43); [destruct (peekChar l =? 43); cbn [fst]; rewrite newToken_type; discriminate|].
  destruct (cur l =? 61); [destruct (peekChar l =? 61); cbn [fst]; rewrite newToken_type; discriminate|].
  destruct (isIdent (cur l)).
  { destruct (readIdentifier l) as [id l1]. cbn [fst]. rewrite newToken_type, lookupIdent_legal. discriminate. }
  destruct (isNumber (cur l)).
  { destruct (readNumber l) as [[num isInt] l1]. cbn [fst]. rewrite newToken_type. destruct isInt; discriminate. }
  intros _. left. exact R.
Qed.

Theorem illegal_after : forall fuel l t l',
  nextToken fuel l = Some (t, l') -> tok_eqb (ttype t) T_ILLEGAL = true -> After t l'.
Proof.
  induction fuel as [|f IH]; intros l t l'; [discriminate|]. cbn [nextToken].
  set (l1 := if isHTML l then l else skipWhitespace l).
  destruct (cur l1 =? 0) eqn:E0.
  { intros [= <- <-]. rewrite newToken_type. discriminate. }
  destruct ((cur l1 =? 123) && (peekChar l1 =? 123)) eqn:Eb.
  { unfold bracesToken, fixedToken.
    set (l2 := readN 2 (tokenBegins (setModes l1 (negb (tok_eqb T_LBRACES T_LBRACES)) (isDirective l1)))).
    destruct ((cur l2 =? 45) && (peekChar l2 =? 45)).
    - unfold skipComment.
      set (l3 := skipComment_loop (rest l2) l2).
      destruct (cur (setModes l3 true (isDirective l3)) =? 0) eqn:Ec.
      + intros [= <- <-] _. right. apply N.eqb_eq, Ec.
      + intros Hn Ht. exact (IH _ _ _ Hn Ht).
    - intros [= <- <-]. rewrite newToken_type. discriminate. }
  destruct (negb (isHTML l1) && (cur l1 =? 125) && (peekChar l1 =? 125) && (braceCount l1 =? 0)%Z) eqn:Er.
  { unfold bracesToken, fixedToken. intros [= <- <-]. rewrite newToken_type. discriminate. }
  destruct (negb (isHTML l1)) eqn:Eh.
  { intro E. apply negb_true_iff in Eh.
    assert (Hh : isHTML l = false).
    { subst l1. destruct (isHTML l) eqn:X; [congruence|reflexivity]. }
    assert (Hw : isWs (cur l1) = false).
    { subst l1. rewrite Hh. unfold skipWhitespace. apply skipWs_not_ws. lia. }
    pose proof (embedded_after l1 Eh Hw E0 Eb) as Ht.
    rewrite Eh in Ht. cbn [negb] in Ht. specialize (Ht Er).
    destruct (embeddedCodeToken l1) as [t0 l0]. inversion E; subst t0 l0. exact Ht. }
  destruct (fst (isDirectiveToken l1)) eqn:Ed.
  { intro E. pose proof (directive_not_illegal l1 Ed) as Ht.
    destruct (directiveToken l1) as [t0 l0]. inversion E; subst t0 l0. cbn [fst] in Ht. rewrite Ht. discriminate. }
  destruct (readHTML l1) as [s l2]. intros [= <- <-]. rewrite newToken_type. discriminate.
Qed.

(* at the end of the input (also: on a NUL byte) NextToken is EOF *)
Lemma eof_when_cur_zero f l t l' : cur l = 0 -> nextToken (S f) l = Some (t, l') -> ttype t = T_EOF.
Proof.
  intros C. cbn [nextToken].
  assert (E : cur (if isHTML l then l else skipWhitespace l) = 0).
  { destruct (isHTML l); [exact C|]. unfold skipWhitespace. destruct (rest l) as [|c r] eqn:Er; cbn [skipWs]; [exact C|].
    rewrite C. change (isWs 0) with false. cbv match. exact C. }
  rewrite E. change (0 =? 0) with true. cbv match. intros [= <- _]. apply newToken_type.
Qed.

Lemma after_next_is_terminal t l' t2 l2 :
  tok_eqb (ttype t) T_ILLEGAL = true -> After t l' -> nextTok l' = Some (t2, l2) -> is_termT (ttype t2) = true.
Proof.
  intros Ht [R|C] H; unfold nextTok in H.
  - rewrite R in H. injection H as <- _. unfold is_termT. rewrite Ht. apply orb_true_r.
  - rewrite (eof_when_cur_zero _ _ _ _ C H). reflexivity.
Qed.

(* ---------- the whole stream *)
Lemma lex_loop_sok : forall fuel l prev ts,
  (forall p, prev = Some p -> illT p = true -> forall t2 l2, nextTok l = Some (t2, l2) -> is_termT (ttype t2) = true) ->
  lex_loop fuel l prev = Some ts ->
  sok ts = true /\
  (forall p, prev = Some p -> illT p = true -> match ts with t :: _ => is_termT (ttype t) = true | [] => True end).
Proof.
  induction fuel as [|f IH]; intros l prev ts Hp; [discriminate|]. cbn [lex_loop].
  destruct (nextTok l) as [[t l']|] eqn:En; [|discriminate].
  assert (Hhead : forall p, prev = Some p -> illT p = true -> is_termT (ttype t) = true).
  { intros p Ep Ip. exact (Hp p Ep Ip t l' eq_refl). }
  destruct (tok_eqb (ttype t) T_EOF) eqn:Ee.
  { intros [= <-]. split; [reflexivity|]. exact Hhead. }
  destruct (tok_eqb (ttype t) T_ILLEGAL && match prev with Some p => token_eqb p t | None => false end).
  { intros [= <-]. split; [reflexivity|]. intros; exact I. }
  destruct (lex_loop f l' (Some t)) as [ts'|] eqn:El; [|discriminate]. intros [= <-].
  destruct (IH l' (Some t) ts') as [S1 S2]; [|exact El|].
  { intros p [= <-] Ip t2 l2 H2. unfold illT in Ip.
    apply (after_next_is_terminal t l' t2 l2 Ip); [|exact H2].
    unfold nextTok in En. exact (illegal_after _ _ _ _ En Ip). }
  split; [|exact Hhead].
  cbn [sok]. rewrite S1, andb_true_r. destruct ts' as [|b r]; [reflexivity|].
  destruct (illT t) eqn:It; [|reflexivity]. cbn [negb orb]. exact (S2 t eq_refl It).
Qed.

Theorem lex_all_shape input :
  exists ts, lex_all input = Some ts /\ tinv ts = true /\ sok ts = true /\ eol ts = true.
Proof.
  destruct (lex_all_total input) as (ts & E & T). exists ts. split; [exact E|]. split; [exact T|].
  unfold lex_all in E. split.
  - apply (lex_loop_sok (List.length input + 3) (newLexer input) None ts); [intros p X; discriminate X|exact E].
  - exact (lex_loop_eol _ _ _ _ E).
Qed.

(* ---------- with the parser: any source whose token stream holds an ILLEGAL token is rejected *)
From TW Require Import Ast Parser ParseTotal ParseReject.

Theorem source_with_illegal_token_is_rejected src ts :
  lex_all src = Some ts -> existsb illT ts = true ->
  exists es, parse_source src = ParseErrors es /\ es <> [].
Proof.
  intros E X. destruct (lex_all_shape src) as (ts0 & E0 & T & S1 & S2). rewrite E in E0. injection E0 as <-.
  unfold parse_source. rewrite E. exact (parse_tokens_rejects_illegal ts T S1 S2 X).
Qed.
