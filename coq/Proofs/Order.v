(* C14: every place where the Go code iterates over a map goes through a sort of the keys
   (fix: commits e782e91 453e9e8 203127f defbffb de312ce); the model mirrors that with [asort].
   A Go map presents its entries in an arbitrary order: in the model, an arbitrary permutation of
   an association list with distinct keys.  [asort] of two such presentations is THE SAME list,
   so everything computed from the sorted list is independent of the presentation. *)
From Coq Require Import String Sorting.Permutation Sorting.Sorted.
From TW Require Import Bytes Values Ast Builtins Eval Api.
Open Scope N_scope.

(* ---- the key order is a strict total order *)
Lemma bytes_ltb_irrefl a : bytes_ltb a a = false.
Proof.
  induction a as [|x a IH]; cbn [bytes_ltb]; [reflexivity|].
  rewrite N.ltb_irrefl, N.eqb_refl, IH. reflexivity.
Qed.

Lemma bytes_ltb_trans a b c : bytes_ltb a b = true -> bytes_ltb b c = true -> bytes_ltb a c = true.
Proof.
  revert b c; induction a as [|x a IH]; intros [|y b] [|z c]; cbn [bytes_ltb]; try discriminate; auto.
  intros H1 H2.
  apply orb_true_iff in H1. apply orb_true_iff in H2. apply orb_true_iff.
  destruct H1 as [H1|H1], H2 as [H2|H2].
  - left. apply N.ltb_lt in H1, H2. apply N.ltb_lt. lia.
  - apply andb_true_iff in H2 as [E _]. apply N.eqb_eq in E. subst. left. exact H1.
  - apply andb_true_iff in H1 as [E _]. apply N.eqb_eq in E. subst. left. exact H2.
  - apply andb_true_iff in H1 as [E1 L1]. apply andb_true_iff in H2 as [E2 L2].
    apply N.eqb_eq in E1, E2. subst. right. rewrite N.eqb_refl. cbn. eapply IH; eassumption.
Qed.

Lemma bytes_ltb_total a b : bytes_ltb a b = false -> bytes_ltb b a = false -> a = b.
Proof.
  revert b; induction a as [|x a IH]; intros [|y b]; cbn [bytes_ltb]; try discriminate; auto.
  intros H1 H2.
  apply orb_false_iff in H1 as [L1 R1]. apply orb_false_iff in H2 as [L2 R2].
  apply N.ltb_ge in L1, L2. assert (x = y) by lia. subst y.
  rewrite N.eqb_refl in R1, R2. cbn in R1, R2. f_equal. apply IH; assumption.
Qed.

Definition klt {A} (x y : bytes * A) : Prop := bytes_ltb (fst x) (fst y) = true.

Lemma klt_trans {A} (x y z : bytes * A) : klt x y -> klt y z -> klt x z.
Proof. unfold klt. apply bytes_ltb_trans. Qed.

Lemma klt_irrefl {A} (x : bytes * A) : ~ klt x x.
Proof. unfold klt. rewrite bytes_ltb_irrefl. discriminate. Qed.

(* ---- insertion keeps the list a sorted permutation *)
Lemma ainsert_perm {A} (kv : bytes * A) m : Permutation (kv :: m) (ainsert kv m).
Proof.
  induction m as [|kv' m IH]; cbn [ainsert]; [apply Permutation_refl|].
  destruct (bytes_leb (fst kv) (fst kv')); [apply Permutation_refl|].
  eapply Permutation_trans; [apply perm_swap|]. apply perm_skip. exact IH.
Qed.

Lemma asort_perm {A} (m : list (bytes * A)) : Permutation m (asort m).
Proof.
  unfold asort. induction m as [|kv m IH]; cbn [fold_right]; [apply Permutation_refl|].
  eapply Permutation_trans; [apply perm_skip; exact IH|]. apply ainsert_perm.
Qed.

Lemma ainsert_sorted {A} (kv : bytes * A) m :
  StronglySorted klt m -> ~ In (fst kv) (map fst m) -> StronglySorted klt (ainsert kv m).
Proof.
  induction m as [|kv' m IH]; cbn [ainsert]; intros Hs Hn.
  - constructor; constructor.
  - inversion Hs as [|? ? Hs' Hall]; subst.
    unfold bytes_leb. destruct (bytes_ltb (fst kv') (fst kv)) eqn:E; cbn [negb].
    + constructor.
      * apply IH; [exact Hs'|]. intro Hin. apply Hn. right. exact Hin.
      * apply Forall_forall. intros z Hz.
        apply (Permutation_in _ (Permutation_sym (ainsert_perm kv m))) in Hz.
        destruct Hz as [<-|Hz]; [exact E|]. rewrite Forall_forall in Hall. apply Hall, Hz.
    + assert (Hlt : klt kv kv').
      { unfold klt. destruct (bytes_ltb (fst kv) (fst kv')) eqn:E2; [reflexivity|].
        exfalso. apply Hn. left. symmetry. apply bytes_ltb_total; assumption. }
      constructor; [exact Hs|]. constructor; [exact Hlt|].
      rewrite Forall_forall in Hall |- *. intros z Hz. eapply klt_trans; [exact Hlt|]. apply Hall, Hz.
Qed.

Lemma asort_sorted {A} (m : list (bytes * A)) : NoDup (map fst m) -> StronglySorted klt (asort m).
Proof.
  unfold asort. induction m as [|kv m IH]; cbn [fold_right map]; intro Hnd; [constructor|].
  inversion Hnd as [|? ? Hni Hnd']; subst.
  apply ainsert_sorted; [apply IH, Hnd'|].
  intro Hin. apply Hni.
  eapply Permutation_in; [apply Permutation_sym, Permutation_map, asort_perm|]. exact Hin.
Qed.

(* ---- a strictly sorted list is determined by its elements *)
Lemma sorted_perm_eq {A} (l1 l2 : list (bytes * A)) :
  StronglySorted klt l1 -> StronglySorted klt l2 -> Permutation l1 l2 -> l1 = l2.
Proof.
  revert l2; induction l1 as [|a l1 IH]; intros l2 H1 H2 Hp.
  - apply Permutation_nil in Hp. subst. reflexivity.
  - destruct l2 as [|b l2]; [apply Permutation_sym, Permutation_nil in Hp; discriminate|].
    inversion H1 as [|? ? H1' F1]; subst. inversion H2 as [|? ? H2' F2]; subst.
    rewrite Forall_forall in F1, F2.
    assert (a = b) as ->.
    { assert (Ha : In a (b :: l2)) by (eapply Permutation_in; [exact Hp|left; reflexivity]).
      assert (Hb : In b (a :: l1)) by (eapply Permutation_in; [apply Permutation_sym, Hp|left; reflexivity]).
      destruct Ha as [->|Ha]; [reflexivity|]. destruct Hb as [->|Hb]; [reflexivity|].
      exfalso. apply (klt_irrefl a). eapply klt_trans; [apply F1, Hb|apply F2, Ha]. }
    f_equal. apply IH; [assumption..|]. eapply Permutation_cons_inv, Hp.
Qed.

(* the sort does not depend on the order in which the map presents its entries *)
Theorem asort_order_independent {A} (m1 m2 : list (bytes * A)) :
  NoDup (map fst m1) -> Permutation m1 m2 -> asort m1 = asort m2.
Proof.
  intros Hnd Hp.
  assert (Hnd2 : NoDup (map fst m2)) by (eapply Permutation_NoDup; [apply Permutation_map, Hp|exact Hnd]).
  apply sorted_perm_eq; try apply asort_sorted; try assumption.
  eapply Permutation_trans; [apply Permutation_sym, asort_perm|].
  eapply Permutation_trans; [exact Hp|apply asort_perm].
Qed.

(* ---- the consumers *)

(* EnvFromMap: binding the data map *)
Theorem env_from_map_order_independent d1 d2 :
  NoDup (map fst d1) -> Permutation d1 d2 -> env_from_map d1 = env_from_map d2.
Proof. intros Hnd Hp. unfold env_from_map. rewrite (asort_order_independent d1 d2 Hnd Hp). reflexivity. Qed.

(* Obj.String(): printing an object *)
Theorem object_print_order_independent m1 m2 :
  NoDup (map fst m1) -> Permutation m1 m2 -> value_string (VObj m1) = value_string (VObj m2).
Proof.
  intros Hnd Hp. cbn [value_string].
  set (f := fun kv : bytes * value => let (k, x) := kv in (k, value_string x)).
  assert (E : asort (map f m1) = asort (map f m2)).
  { apply asort_order_independent; [|apply Permutation_map, Hp].
    rewrite map_map. erewrite map_ext; [exact Hnd|]. intros [k x]. reflexivity. }
  rewrite E. reflexivity.
Qed.

(* Obj.Dump(): what @dump shows for an object *)
Theorem object_dump_order_independent ident m1 m2 :
  NoDup (map fst m1) -> Permutation m1 m2 -> dump_value ident (VObj m1) = dump_value ident (VObj m2).
Proof.
  intros Hnd Hp. cbn [dump_value].
  set (f := fun kv : bytes * value => let (k, x) := kv in (k, dump_value (S ident) x)).
  assert (E : asort (map f m1) = asort (map f m2)).
  { apply asort_order_independent; [|apply Permutation_map, Hp].
    rewrite map_map. erewrite map_ext; [exact Hnd|]. intros [k x]. reflexivity. }
  rewrite E, (Permutation_length Hp). reflexivity.
Qed.

(* evaluating an object literal: which entry fails first, and the resulting object *)
Theorem object_literal_order_independent cx fuel en ln p1 p2 :
  NoDup (map fst p1) -> Permutation p1 p2 ->
  eval_expr cx fuel en (EObj ln p1) = eval_expr cx fuel en (EObj ln p2).
Proof.
  intros Hnd Hp. destruct fuel as [|f]; [reflexivity|]. cbn [eval_expr].
  rewrite (asort_order_independent p1 p2 Hnd Hp). reflexivity.
Qed.

(* component arguments *)
Theorem component_args_order_independent cx fuel en ln cid name l1 p1 p2 slots block :
  NoDup (map fst p1) -> Permutation p1 p2 ->
  eval_stmt cx fuel en (SComponent ln cid name (Some (EObj l1 p1)) slots block) =
  eval_stmt cx fuel en (SComponent ln cid name (Some (EObj l1 p2)) slots block).
Proof.
  intros Hnd Hp. destruct fuel as [|f]; [reflexivity|]. cbn [eval_stmt].
  rewrite (asort_order_independent p1 p2 Hnd Hp). reflexivity.
Qed.

(* the whole render of a program is independent of the presentation of the data map *)
Theorem render_data_order_independent cx p d1 d2 :
  NoDup (map fst d1) -> Permutation d1 d2 -> render_program cx p d1 = render_program cx p d2.
Proof.
  intros Hnd Hp. unfold render_program. rewrite (env_from_map_order_independent d1 d2 Hnd Hp). reflexivity.
Qed.

(* checkUndefinedInsert: which undefined insert is reported *)
Theorem undefined_insert_order_independent (i1 i2 : list (bytes * insert_rec)) reserves :
  NoDup (map fst i1) -> Permutation i1 i2 ->
  undefined_insert (asort i1) reserves = undefined_insert (asort i2) reserves.
Proof. intros Hnd Hp. rewrite (asort_order_independent i1 i2 Hnd Hp). reflexivity. Qed.

(* parsePrograms: which faulty file is reported, and the registered programs *)
Theorem load_order_independent fs cfg (f1 f2 : list (bytes * bytes)) :
  NoDup (map fst f1) -> Permutation f1 f2 ->
  load_all fs cfg (asort f1) = load_all fs cfg (asort f2).
Proof. intros Hnd Hp. rewrite (asort_order_independent f1 f2 Hnd Hp). reflexivity. Qed.

(* non-vacuity *)
Example order_example :
  asort [(bs "b", 2); (bs "a", 1); (bs "c", 3)] = asort [(bs "c", 3); (bs "b", 2); (bs "a", 1)].
Proof. reflexivity. Qed.
