(* C10 from the source bytes: for EVERY literal content s - any bytes but NUL, the quote character
   and the backslash; line feeds included - the template  {{ "s" }}  (either quote style) is lexed
   to {{, one string token whose literal is s, }}, parsed to one expression statement, and rendered
   as esc_spec s, the specification's escaping of s.  Composed from the lexer round trip
   (LexRound.v), the statement parser theorem (StmtParse.v) and Escape.v. *)
From Coq Require Import String Lia.
From TW Require Import Bytes Floats Values GenToken GenParser Lexer Ast Parser Builtins Eval Render.
From TW Require Import Expr ExprSem Positions LexSpell LexRound Pratt StmtParse Escape.
Open Scope N_scope.

Definition plain_lit (q : N) (s : bytes) : bool :=
  forallb (fun c => negb (c =? 0) && negb (c =? q) && negb (c =? 92)) s.

Definition lit_items (q : N) (s : bytes) : list item :=
  [mkItem T_LBRACES [123; 123] []; mkItem T_STR (q :: s ++ [q]) [32]; mkItem T_RBRACES [125; 125] [32]].

Definition lit_source (q : N) (s : bytes) : bytes := [123; 123; 32] ++ q :: s ++ [q] ++ [32; 125; 125].

Lemma lit_source_spelled q s : spell (lit_items q s) = lit_source q s.
Proof. unfold spell, lit_items, lit_source. cbn [spell_t igap isrc app]. rewrite <- !app_assoc. reflexivity. Qed.

Lemma removelast_snoc {A} (l : list A) x : removelast (l ++ [x]) = l.
Proof. rewrite removelast_app by discriminate. cbn. apply app_nil_r. Qed.

Lemma str_tail_plain q : forall s prev, plain_lit q s = true -> (prev =? 92) = false -> str_tail q prev s = true.
Proof.
  induction s as [|c s IH]; intros prev H Hp; cbn [str_tail].
  - rewrite Hp. reflexivity.
  - cbn [plain_lit forallb] in H. apply andb_true_iff in H as [Hc Hs]. apply andb_true_iff in Hc as [Hc H92].
    apply andb_true_iff in Hc as [_ Hq]. apply negb_true_iff in Hq, H92. rewrite Hq. cbn [andb negb].
    apply IH; assumption.
Qed.

Lemma replace_plain q : forall fuel s, plain_lit q s = true -> replace_all_fuel fuel [92; q] [q] s = s.
Proof.
  induction fuel as [|f IH]; intros s H; [reflexivity|]. destruct s as [|c s]; [reflexivity|].
  cbn [plain_lit forallb] in H. apply andb_true_iff in H as [Hc Hs]. apply andb_true_iff in Hc as [_ H92].
  apply negb_true_iff in H92. cbn [replace_all_fuel prefixb]. rewrite N.eqb_sym, H92. cbn [andb].
  rewrite (IH s Hs). reflexivity.
Qed.

Lemma lit_of_plain q s : plain_lit q s = true -> lit_of T_STR (q :: s ++ [q]) = s.
Proof.
  intro H. unfold lit_of. cbn [tok_eqb hd tl]. change (tok_eqb T_STR T_STR) with true. cbv iota.
  rewrite removelast_snoc. unfold replace_all. apply replace_plain. exact H.
Qed.

Lemma lit_source_ok q s : (q = 34 \/ q = 39) -> plain_lit q s = true -> source_ok (lit_items q s) = true.
Proof.
  intros Hq H. unfold source_ok, source_ok_t. apply andb_true_iff. split.
  - change (spell_t (lit_items q s) []) with (spell (lit_items q s)). rewrite lit_source_spelled. unfold lit_source.
    assert (Hs : forallb okb s = true).
    { unfold plain_lit in H. rewrite forallb_forall in H. apply forallb_forall. intros x Hx. specialize (H x Hx).
      apply andb_true_iff in H as [H _]. apply andb_true_iff in H as [H _]. exact H. }
    assert (Oq : okb q = true) by (destruct Hq as [-> | ->]; reflexivity).
    cbn [app forallb]. rewrite !forallb_app. cbn [forallb]. rewrite Hs, Oq. reflexivity.
  - unfold lit_items. cbn [items_ok_t item_ok ity isrc igap spell_t app next_md m0 mh mdir mp mb].
    assert (Eb : bytes_eqb (s ++ [q]) (removelast (s ++ [q]) ++ [q]) = true) by (rewrite removelast_snoc; apply bytes_eqb_refl).
    assert (Bo : body_ok q (removelast (s ++ [q])) = true).
    { rewrite removelast_snoc. destruct s as [|c s']; [reflexivity|]. cbn [body_ok].
      pose proof H as H'. cbn [plain_lit forallb] in H'. apply andb_true_iff in H' as [Hc Hs'].
      apply andb_true_iff in Hc as [Hc H92]. apply andb_true_iff in Hc as [_ Hcq]. rewrite Hcq. cbn [andb].
      apply str_tail_plain; [exact Hs'|apply negb_true_iff; exact H92]. }
    destruct Hq as [-> | ->]; cbn [str_ok code_ok] ; rewrite Eb, Bo; vm_compute; reflexivity.
Qed.

(* ---------- bytes -> tokens -> statement -> output *)
Theorem string_literal_renders_escaped q s gd en :
  (q = 34 \/ q = 39) -> plain_lit q s = true -> env_from_map gd = EnvOk en ->
  exists t, lex_all (lit_source q s) = Some (place (lit_source q s) 0 (lit_items q s)) /\
            nth_error (place (lit_source q s) 0 (lit_items q s)) 1 = Some t /\ ttype t = T_STR /\ tlit t = s /\
            parse_source (lit_source q s) = ParsedOk (mkProgram [SExpr (EStr (eline t) s)] None [] [] []) /\
            evaluate_string cx0 (lit_source q s) gd = RenderOk (esc_spec s).
Proof.
  intros Hq H He.
  pose proof (lit_source_ok q s Hq H) as Hs.
  pose proof (lex_spell (lit_items q s) Hs) as L. rewrite lit_source_spelled in L.
  set (src := lit_source q s) in *.
  assert (Pl : exists lb t rb eof, place src 0 (lit_items q s) = [lb; t; rb; eof] /\
             ttype lb = T_LBRACES /\ ttype t = T_STR /\ tlit t = s /\ ttype rb = T_RBRACES /\ ttype eof = T_EOF).
  { unfold place, lit_items. cbn [place_t ity isrc igap]. do 4 eexists. split; [reflexivity|].
    unfold tokAt. cbn [ttype tlit]. rewrite (lit_of_plain q s H). repeat split. }
  destruct Pl as (lb & t & rb & eof & Pl & Tlb & Tt & Lt & Trb & Teof).
  exists t. split; [exact L|]. split; [rewrite Pl; reflexivity|]. split; [exact Tt|]. split; [exact Lt|].
  set (ss := [TCode lb rb (CAtom t)]).
  assert (W : wf_ss ss).
  { unfold ss, wf_ss. cbn. unfold atom_ast. rewrite Tt. repeat split; try assumption; cbn; discriminate. }
  pose proof (template_parses_to_its_tree ss eof W Teof) as P.
  assert (Fl : flats ss ++ [eof] = [lb; t; rb; eof]) by reflexivity.
  assert (As : asts ss = [SExpr (EStr (eline t) s)]).
  { unfold ss, asts. cbn [map ast_s ast]. unfold atom_ast. rewrite Tt, Lt. reflexivity. }
  rewrite Fl, As in P.
  assert (PS : parse_source src = ParsedOk (mkProgram [SExpr (EStr (eline t) s)] None [] [] [])).
  { unfold parse_source. rewrite L, Pl. exact P. }
  split; [exact PS|].
  unfold evaluate_string. rewrite PS. unfold render_program. rewrite He. cbn [p_stmts].
  assert (HF : exists F, eval_fuel = S (S (S F))) by (exists (Nat.pred (Nat.pred (Nat.pred eval_fuel))); reflexivity).
  destruct HF as [F ->]. cbn [eval_program eval_stmt eval_expr]. cbv beta iota. cbn [fst snd].
  unfold str_of. cbn [value_string]. cbv beta iota. cbn [eval_program app fst].
  rewrite eval_string_lit_is_esc_spec. reflexivity.
Qed.
