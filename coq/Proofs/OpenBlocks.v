(* C08, "an unterminated block is rejected": the tokens of complete statements followed by an @if
   or @each whose @end is missing - nested to any depth, each level holding any complete
   statements before the next open block - or by a {{ c / {{ x = c whose closing braces are
   missing, and then the end of the input, always end in errors.
   (Cuts at statement boundaries; a cut inside an expression, string or comment is the subject of
   ParseReject.v / ParseTotal.v: ILLEGAL tokens and "a program or an error".) *)
From Coq Require Import String Lia.
From TW Require Import Bytes GenToken GenParser Lexer Ast Parser GenTie Pratt ParseTotal FuelMono StmtParse.

(* ---------- open blocks *)
Inductive ost :=
| OIf (kw lp rp : token) (c : cst) (body : list sst) (inner : option ost)                (* @if(c) body inner? <EOF> *)
| OEach (kw lp var inn rp : token) (c : cst) (body : list sst) (inner : option ost)      (* @each(v in c) body inner? <EOF> *)
| OCode (lb : token) (c : cst)                                                           (* {{ c <EOF> *)
| OAssign (lb id eq : token) (c : cst).                                                  (* {{ x = c <EOF> *)

Fixpoint flat_o (o : ost) : list token :=
  match o with
  | OIf kw lp rp c body inner =>
    kw :: lp :: flat c ++ rp :: flats body ++ match inner with Some o' => flat_o o' | None => [] end
  | OEach kw lp var inn rp c body inner =>
    kw :: lp :: var :: inn :: flat c ++ rp :: flats body ++ match inner with Some o' => flat_o o' | None => [] end
  | OCode lb c => lb :: flat c
  | OAssign lb id eq c => lb :: id :: eq :: flat c
  end.

Fixpoint wf_o (o : ost) : Prop :=
  match o with
  | OIf kw lp rp c body inner =>
    ttype kw = T_IF /\ ttype lp = T_LPAREN /\ ttype rp = T_RPAREN /\ wf c /\ wf_ss body /\
    match inner with Some o' => wf_o o' | None => True end
  | OEach kw lp var inn rp c body inner =>
    ttype kw = T_EACH /\ ttype lp = T_LPAREN /\ ttype inn = T_IN /\ ttype rp = T_RPAREN /\ wf c /\ wf_ss body /\
    match inner with Some o' => wf_o o' | None => True end
  | OCode lb c => ttype lb = T_LBRACES /\ wf c
  | OAssign lb id eq c => ttype lb = T_LBRACES /\ ttype id = T_IDENT /\ ttype eq = T_ASSIGN /\ wf c
  end.

Lemma lastc_not_rbraces c : wf c -> tok_eqb (ttype (lastc c)) T_RBRACES = false.
Proof.
  induction c as [t|lp rp c IHc|o c1 c2 IHc1 IHc2|o c IHc|o c IHc|q col c1 c2 c3 IHc1 IHc2 IHc3|lb rb c1 c2 IHc1 IHc2|dot name c IHc|dot name lp rp c args IHc IHargs|lb rb els IHels] using cst_ind';
    cbn [wf lastc].
  - intro W. unfold atom_ast in W. destruct (ttype t); try reflexivity. cbn in W. congruence.
  - intros (_ & H & _). rewrite H. reflexivity.
  - intros (_ & _ & W & _). exact (IHc2 W).
  - intros (_ & W & _). exact (IHc W).
  - intros (H & _). destruct (ttype o); try reflexivity. discriminate H.
  - intros (_ & _ & _ & _ & W & _). exact (IHc3 W).
  - intros (_ & H & _). rewrite H. reflexivity.
  - intros (_ & H & _). rewrite H. reflexivity.
  - intros (_ & _ & _ & H & _). rewrite H. reflexivity.
  - intros (_ & H & _). rewrite H. reflexivity.
Qed.

Section WithEof.
Variable eof : token.
Hypothesis Heof : ttype eof = T_EOF.

(* the parser stands on the end of the input, or on the last token before it, with at least one error recorded *)
Definition Open (st sf : pstate) : Prop :=
  peekT sf = eof /\ toks (advance sf) = [eof] /\ tok_eqb (ttype (curT sf)) T_ILLEGAL = false /\
  errs sf <> [] /\ ppanic sf = ppanic st.

Lemma errs_advance s : errs (advance s) = errs s.
Proof. unfold advance. destruct (toks s) as [|a [|b r]]; reflexivity. Qed.
Lemma ppanic_advance s : ppanic (advance s) = ppanic s.
Proof. unfold advance. destruct (toks s) as [|a [|b r]]; reflexivity. Qed.

Lemma at_eof_cur s : toks s = [eof] -> curT s = eof.
Proof. intro H. unfold curT. rewrite H. reflexivity. Qed.
Lemma at_eof_peek s : toks s = [eof] -> peekT s = eof.
Proof. intro H. unfold peekT. rewrite H. reflexivity. Qed.
Lemma at_eof_advance s : toks s = [eof] -> advance s = s.
Proof. intro H. unfold advance. rewrite H. reflexivity. Qed.

Lemma expect_end_fails s : toks s = [eof] ->
  exists s', expectPeek s T_END = (false, s') /\ toks s' = [eof] /\ errs s' <> [] /\ ppanic s' = ppanic s.
Proof.
  intro H. unfold expectPeek, peekIs. rewrite (at_eof_peek s H), Heof. change (tok_eqb T_EOF T_END) with false. cbv match.
  destruct (tokenString T_END) as [a|] eqn:Ea; [|discriminate Ea].
  destruct (tokenString T_EOF) as [b|] eqn:Eb; [|discriminate Eb].
  eexists. split; [reflexivity|]. cbn [addErr toks errs ppanic]. split; [exact H|]. split; [discriminate|reflexivity].
Qed.

(* the first token of an open block starts a statement *)
Lemma flat_o_cons o : wf_o o -> exists a r, flat_o o = a :: r /\
  inb (ttype a) block_guard_tokens = false /\ inb (ttype a) block_break_tokens = false /\ inb (ttype a) blockTerminators = false.
Proof.
  destruct o; cbn [wf_o flat_o]; intros (A & _); eexists _, _; (split; [reflexivity|]); rewrite A; repeat split.
Qed.

Definition Po (o : ost) : Prop :=
  forall st, exists sf, conv (fun f => parseStatement f (setToks st (flat_o o ++ [eof]))) SNull sf /\ Open st sf.

Definition tail_of (inner : option ost) : list token := match inner with Some o => flat_o o | None => [] end.

(* the loop of parseBlockStmt over complete statements, then an open block or nothing, then the end *)
Lemma open_block_loop inner :
  (match inner with Some o => wf_o o /\ Po o | None => True end) ->
  forall ss, wf_ss ss -> forall st acc,
  exists sf, conv (fun f => blockLoop f acc (setToks st (flats ss ++ tail_of inner ++ [eof]))) (rev acc ++ asts ss) sf /\
             toks sf = [eof] /\ ppanic sf = ppanic st /\
             (match inner with Some _ => errs sf <> [] | None => errs sf = errs st end).
Proof.
  intros Hin. induction ss as [|s ss IH]; intros W st acc.
  - cbn [flats map concat app asts filter]. rewrite app_nil_r.
    destruct inner as [o|]; cbn [tail_of].
    + destruct Hin as [Wo Ho]. destruct (Ho st) as (sf & Hc & Hpk & Hadv & Hill & He & Hp).
      destruct (flat_o_cons o Wo) as (a & r & Ea & Ga & Ba & _).
      exists (advance sf). split; [|split; [exact Hadv|split; [rewrite ppanic_advance; exact Hp|rewrite errs_advance; exact He]]].
      eapply (conv_bind (fun f => parseStatement f (setToks st (flat_o o ++ [eof])))
                        (fun f x st1 =>
                           let acc' := if stmt_is_null x then acc else x :: acc in
                           if peekIn st1 block_break_tokens then POk (rev acc') st1 else blockLoop f acc' (advance st1))).
      * exact Hc.
      * cbv beta zeta. cbn [stmt_is_null]. unfold peekIn. rewrite Hpk, Heof. cbv match.
        exists 1%nat. intros fuel Hf. destruct fuel as [|f]; [lia|]. cbn [blockLoop]. rewrite (at_eof_cur _ Hadv), Heof. reflexivity.
      * intro f. cbn [blockLoop]. rewrite Ea. cbn [app]. rewrite curT_cons, Ga. reflexivity.
    + exists (setToks st [eof]). split; [|repeat split].
      exists 1%nat. intros fuel Hf. destruct fuel as [|f]; [lia|]. cbn [blockLoop app]. rewrite curT_cons, Heof. reflexivity.
  - destruct W as (Ws & W' & Wa).
    destruct (flat_s_cons s Ws) as (a & r & Ea & Ga & Ba).
    rewrite flats_cons, <- app_assoc.
    set (R := flats ss ++ tail_of inner ++ [eof]).
    assert (RN : R <> []) by (subst R; destruct (flats ss); [destruct (tail_of inner); discriminate|discriminate]).
    assert (FO : follow_ok s R).
    { destruct s; try exact I. destruct ss as [|[] ss']; try contradiction.
      destruct W' as (Wc & _). cbn [wf_s] in Wc. subst R. cbn [flats map concat flat_s app].
      split; [split; [left; rewrite Wc; reflexivity|intros _; cbn [not_lparen]; rewrite Wc; discriminate]|rewrite Wc; reflexivity]. }
    destruct (IH W' st (if stmt_is_null (ast_s s) then acc else ast_s s :: acc)) as (sf & Hc & Ht & Hp & He).
    exists sf. split; [|repeat split; assumption].
    eapply (conv_bind (fun f => parseStatement f (setToks st (flat_s s ++ R)))
                      (fun f x st1 =>
                         let acc' := if stmt_is_null x then acc else x :: acc in
                         if peekIn st1 block_break_tokens then POk (rev acc') st1 else blockLoop f acc' (advance st1))).
    + exact (stmt_parses s Ws st R RN FO).
    + cbv beta zeta.
      (* the next token starts a statement or is the end: not a block terminator *)
      assert (Hnext : exists b rb, R = b :: rb /\ inb (ttype b) block_break_tokens = false).
      { subst R. destruct ss as [|s2 ss'].
        - cbn [flats map concat app]. destruct inner as [o|]; cbn [tail_of app].
          + destruct Hin as [Wo _]. destruct (flat_o_cons o Wo) as (b & rb & Eb & _ & Bb & _). rewrite Eb. eexists _, _. split; [reflexivity|exact Bb].
          + eexists _, _. split; [reflexivity|]. rewrite Heof. reflexivity.
        - destruct W' as (Ws2 & _). destruct (flat_s_cons s2 Ws2) as (b & rb & Eb & _ & Bb).
          rewrite flats_cons, Eb. eexists _, _. split; [reflexivity|exact Bb]. }
      destruct Hnext as (b & rb & ER & Bb). rewrite ER. rewrite peekIn_cons, Bb. rewrite advance_cons. rewrite <- ER.
      rewrite asts_cons.
      destruct (stmt_is_null (ast_s s)).
      * cbn [app]. exact Hc.
      * cbn [rev] in Hc. rewrite <- app_assoc in Hc. exact Hc.
    + intro f. cbn [blockLoop]. rewrite Ea. cbn [app]. rewrite curT_cons, Ga. reflexivity.
Qed.

(* parseBody on "header-closing token, complete statements, open block or nothing, end" *)
Lemma open_body inner :
  (match inner with Some o => wf_o o /\ Po o | None => True end) ->
  forall ss, wf_ss ss -> forall st prev,
  exists sf, conv (fun f => parseBody f (setToks st (prev :: flats ss ++ tail_of inner ++ [eof]))) (asts ss) sf /\
             toks sf = [eof] /\ ppanic sf = ppanic st /\
             (match inner with Some _ => errs sf <> [] | None => errs sf = errs st end).
Proof.
  intros Hin ss W st prev.
  destruct (open_block_loop inner Hin ss W st []) as (sf & (n & Hn) & Ht & Hp & He).
  exists sf. split; [|repeat split; assumption].
  assert (Hnext : exists b rb, flats ss ++ tail_of inner ++ [eof] = b :: rb /\ inb (ttype b) blockTerminators = false).
  { destruct ss as [|s2 ss'].
    - cbn [flats map concat app]. destruct inner as [o|]; cbn [tail_of app].
      + destruct Hin as [Wo _]. destruct (flat_o_cons o Wo) as (b & rb & Eb & _ & _ & Tb). rewrite Eb. eexists _, _. split; [reflexivity|exact Tb].
      + eexists _, _. split; [reflexivity|]. rewrite Heof. reflexivity.
    - destruct W as (Ws2 & _). destruct (flat_s_cons s2 Ws2) as (b & rb & Eb & _ & Bb).
      rewrite flats_cons, Eb. eexists _, _. split; [reflexivity|]. rewrite body_terminators_tied. exact Bb. }
  destruct Hnext as (b & rb & ER & Tb).
  exists (S (S n)). intros fuel Hf. destruct fuel as [|[|f]]; try lia.
  cbn [parseBody parseBlockStmt]. rewrite ER. rewrite peekIn_cons, Tb. rewrite advance_cons. rewrite <- ER.
  cbn [rev app] in Hn. rewrite Hn by lia. reflexivity.
Qed.

(* what is left of @if / @each after the body when the input has ended: no @elseif, no @else, no @end *)
Lemma after_open_body s mk :
  toks s = [eof] ->
  exists s', (let '(ok, st7) := expectPeek s T_END in if ok then POk (mk tt) st7 else POk SNull st7) = POk SNull s' /\
             toks s' = [eof] /\ errs s' <> [] /\ ppanic s' = ppanic s.
Proof.
  intro H. destruct (expect_end_fails s H) as (s' & E & A & B & C). exists s'. rewrite E. repeat split; assumption.
Qed.

Theorem open_parses : forall o, wf_o o -> Po o.
Proof.
  fix IHo 1. intros o W st. destruct o as [kw lp rp c body inner|kw lp var inn rp c body inner|lb c|lb id eq c].
  - (* @if *)
    destruct W as (Hkw & Hlp & Hrp & Wc & Wb & Wi).
    assert (Hin : match inner with Some o => wf_o o /\ Po o | None => True end).
    { destruct inner as [o'|]; [split; [exact Wi|exact (IHo o' Wi)]|exact I]. }
    cbn [flat_o]. fold (tail_of inner).
    set (R := flats body ++ tail_of inner ++ [eof]).
    assert (Etoks : (kw :: lp :: flat c ++ rp :: flats body ++ tail_of inner) ++ [eof] = kw :: lp :: flat c ++ rp :: R).
    { subst R. cbn [app]. rewrite <- !app_assoc. cbn [app]. rewrite <- !app_assoc. reflexivity. }
    rewrite Etoks.
    destruct (open_body inner Hin body Wb st rp) as (sf & Hb & Ht & Hp & He). fold R in Hb.
    destruct (expect_end_fails sf Ht) as (s' & Ee & At & Ae & Ap).
    exists s'. split; [|split; [exact (at_eof_peek s' At)|split; [rewrite (at_eof_advance s' At); exact At|
                       split; [rewrite (at_eof_cur s' At), Heof; reflexivity|split; [exact Ae|congruence]]]]].
    destruct (flat_nonempty c) as (c0 & cr & Ec).
    apply (conv_shift (fun f =>
      match parseExpression f P_LOWEST (setToks st (flat c ++ rp :: R)) with
      | POk cc st2 =>
        let '(ok2, st3) := expectPeek st2 T_RPAREN in
        if negb ok2 then POk SNull st3 else
        do (cons, st4) <- parseBody f st3;
        do (alts, st5) <- elseIfLoop f [] st4;
        match alts with
        | None => POk SNull st5
        | Some alts' =>
          if peekIs st5 T_ELSE then
            do (alt, st6) <- parseBody f (advance st5);
            if peekIs st6 T_ELSE_IF
            then POk SNull (addErr st6 (eline (peekT st6)) (fmt ErrElseifCannotFollowElse []))
            else let '(ok3, st7) := expectPeek st6 T_END in
                 if ok3 then POk (SIf (eline kw) cc cons alts' (Some alt)) st7 else POk SNull st7
          else let '(ok3, st7) := expectPeek st5 T_END in
               if ok3 then POk (SIf (eline kw) cc cons alts' None) st7 else POk SNull st7
        end
      | POOF => POOF
      end)).
    { intro f. rewrite parseStatement_if by (rewrite curT_cons; exact Hkw). cbv zeta. rewrite curT_cons.
      rewrite (expectPeek_ok _ _ _ _ _ Hlp). cbn [negb]. rewrite Ec. cbn [app]. rewrite advance_cons. reflexivity. }
    eapply (conv_bind0 _ _ (ast c) (setToks st (lastc c :: rp :: R))).
    { apply parse_of_tokens_is_the_tree; [exact Wc|left; rewrite Hrp; reflexivity|].
      intros _. cbn [not_lparen]. rewrite Hrp. discriminate. }
    cbv beta. rewrite (expectPeek_ok _ _ _ _ _ Hrp). cbn [negb].
    eapply (conv_bind0 _ _ (asts body) sf); [exact Hb|].
    cbv beta. exists 1%nat. intros fuel Hf. destruct fuel as [|f]; [lia|].
    cbn [elseIfLoop]. unfold peekIs. rewrite (at_eof_peek sf Ht), Heof.
    change (tok_eqb T_EOF T_ELSE_IF) with false. cbn [negb rev]. cbv match.
    rewrite (at_eof_peek sf Ht), Heof. change (tok_eqb T_EOF T_ELSE) with false. cbv match.
    rewrite Ee. reflexivity.
  - (* @each *)
    destruct W as (Hkw & Hlp & Hin0 & Hrp & Wc & Wb & Wi).
    assert (Hin : match inner with Some o => wf_o o /\ Po o | None => True end).
    { destruct inner as [o'|]; [split; [exact Wi|exact (IHo o' Wi)]|exact I]. }
    cbn [flat_o]. fold (tail_of inner).
    set (R := flats body ++ tail_of inner ++ [eof]).
    assert (Etoks : (kw :: lp :: var :: inn :: flat c ++ rp :: flats body ++ tail_of inner) ++ [eof] =
                    kw :: lp :: var :: inn :: flat c ++ rp :: R).
    { subst R. cbn [app]. rewrite <- !app_assoc. cbn [app]. rewrite <- !app_assoc. reflexivity. }
    rewrite Etoks.
    destruct (open_body inner Hin body Wb st rp) as (sf & Hb & Ht & Hp & He). fold R in Hb.
    destruct (expect_end_fails sf Ht) as (s' & Ee & At & Ae & Ap).
    exists s'. split; [|split; [exact (at_eof_peek s' At)|split; [rewrite (at_eof_advance s' At); exact At|
                       split; [rewrite (at_eof_cur s' At), Heof; reflexivity|split; [exact Ae|congruence]]]]].
    destruct (flat_nonempty c) as (c0 & cr & Ec).
    apply (conv_shift (fun f =>
      match parseExpression f P_LOWEST (setToks st (flat c ++ rp :: R)) with
      | POk arr st4 =>
        let '(ok3, st5) := expectPeek st4 T_RPAREN in
        if negb ok3 then POk SNull st5 else
        do (bd, st6) <- parseBody f st5;
        do (alt, st7) <- (if peekIs st6 T_ELSE
                          then do (a, s) <- parseBody f (advance st6); POk (Some a) s
                          else POk None st6);
        let '(ok4, st8) := expectPeek st7 T_END in
        if ok4 then POk (SEach (eline kw) (tlit var) arr bd alt) st8 else POk SNull st8
      | POOF => POOF
      end)).
    { intro f. rewrite parseStatement_each by (rewrite curT_cons; exact Hkw). cbv zeta. rewrite curT_cons.
      rewrite (expectPeek_ok _ _ _ _ _ Hlp). cbn [negb]. rewrite advance_cons. rewrite curT_cons.
      rewrite (expectPeek_ok _ _ _ _ _ Hin0). cbn [negb]. rewrite Ec. cbn [app]. rewrite advance_cons. reflexivity. }
    eapply (conv_bind0 _ _ (ast c) (setToks st (lastc c :: rp :: R))).
    { apply parse_of_tokens_is_the_tree; [exact Wc|left; rewrite Hrp; reflexivity|].
      intros _. cbn [not_lparen]. rewrite Hrp. discriminate. }
    cbv beta. rewrite (expectPeek_ok _ _ _ _ _ Hrp). cbn [negb].
    eapply (conv_bind0 _ _ (asts body) sf); [exact Hb|].
    cbv beta. unfold peekIs. rewrite (at_eof_peek sf Ht), Heof. change (tok_eqb T_EOF T_ELSE) with false. cbv match.
    rewrite Ee. apply conv_const.
  - (* {{ c *)
    destruct W as (Hlb & Wc). cbn [flat_o app].
    destruct (first_not_rbraces c Wc) as (a & r' & Ea & Ha).
    destruct (tokenString T_RBRACES) as [ta|] eqn:Eta; [|discriminate Eta].
    destruct (tokenString T_EOF) as [tb|] eqn:Etb; [|discriminate Etb].
    exists (addErr (setToks st [lastc c; eof]) (eline eof) (fmt ErrWrongNextToken [ta; tb])).
    split; [|split; [reflexivity|split; [reflexivity|split; [exact (lastc_legal c Wc)|split; [discriminate|reflexivity]]]]].
    apply (conv_shift (fun f => parseBracesStmt f (setToks st (lb :: flat c ++ [eof])))).
    { intro f. exact (parseStatement_at f st lb _ T_LBRACES Hlb). }
    unfold parseBracesStmt.
    eapply (conv_bind0 (fun f => parseEmbeddedCode f (setToks st (lb :: flat c ++ [eof]))) _ (SExpr (ast c)) (setToks st [lastc c; eof])).
    + eapply (conv_ext _ (fun f => match parseExpression f P_LOWEST (setToks st (flat c ++ [eof])) with
                                   | POk e st1 => POk (SExpr e) (if peekIs st1 T_RBRACES then advance st1 else st1)
                                   | POOF => POOF end)).
      { intro f. unfold parseEmbeddedCode. rewrite Ea. cbn [app]. rewrite advance_cons.
        unfold curIs. rewrite curT_cons, Ha. cbv match.
        assert (C2 : tok_eqb (ttype a) T_IDENT && peekIs (setToks st (a :: r' ++ [eof])) T_ASSIGN = false).
        { apply andb_false_iff. right. unfold peekIs, peekT. cbn [toks setToks].
          destruct r' as [|b r'']; cbn [app].
          - rewrite Heof. reflexivity.
          - assert (N : ttype b <> T_ASSIGN) by (apply (no_assign c Wc); rewrite Ea; right; left; reflexivity).
            destruct (ttype b); try reflexivity. congruence. }
        rewrite C2. reflexivity. }
      eapply (conv_bind0 (fun f => parseExpression f P_LOWEST (setToks st (flat c ++ [eof])))
                         (fun f e st1 => POk (SExpr e) (if peekIs st1 T_RBRACES then advance st1 else st1))).
      * apply parse_of_tokens_is_the_tree; [exact Wc|right; right; rewrite Heof; reflexivity|].
        intros _. cbn [not_lparen]. rewrite Heof. discriminate.
      * cbv beta. rewrite peekIs_cons, Heof. change (tok_eqb T_EOF T_RBRACES) with false. cbv match. apply conv_const.
    + cbv beta. cbn [errs setToks]. rewrite Nat.eqb_refl. cbn [negb orb].
      unfold curIs. rewrite curT_cons. rewrite (lastc_not_rbraces c Wc). cbn [orb].
      rewrite peekIn_cons, Heof. cbv match. rewrite peekT_cons, Heof, Eta, Etb. apply conv_const.
  - (* {{ x = c *)
    destruct W as (Hlb & Hid & Heq & Wc). cbn [flat_o app].
    destruct (tokenString T_RBRACES) as [ta|] eqn:Eta; [|discriminate Eta].
    destruct (tokenString T_EOF) as [tb|] eqn:Etb; [|discriminate Etb].
    exists (addErr (setToks st [lastc c; eof]) (eline eof) (fmt ErrWrongNextToken [ta; tb])).
    split; [|split; [reflexivity|split; [reflexivity|split; [exact (lastc_legal c Wc)|split; [discriminate|reflexivity]]]]].
    apply (conv_shift (fun f => parseBracesStmt f (setToks st (lb :: id :: eq :: flat c ++ [eof])))).
    { intro f. exact (parseStatement_at f st lb _ T_LBRACES Hlb). }
    unfold parseBracesStmt.
    eapply (conv_bind0 (fun f => parseEmbeddedCode f (setToks st (lb :: id :: eq :: flat c ++ [eof]))) _
                       (SAssign (eline id) (tlit id) (ast c)) (setToks st [lastc c; eof])).
    + apply header_assign_parses; try assumption.
      * right; right. rewrite Heof. reflexivity.
      * cbn [not_lparen]. rewrite Heof. discriminate.
      * discriminate.
    + cbv beta. cbn [errs setToks]. rewrite Nat.eqb_refl. cbn [negb orb].
      unfold curIs. rewrite curT_cons. rewrite (lastc_not_rbraces c Wc). cbn [orb].
      rewrite peekIn_cons, Heof. cbv match. rewrite peekT_cons, Heof, Eta, Etb. apply conv_const.
Qed.

(* ---------- whole inputs: complete statements, then an open block, then the end *)
Lemma open_program o : wf_o o -> forall pre, wf_ss pre -> forall st acc,
  exists sf r, conv (fun f => programLoop f acc (setToks st (flats pre ++ flat_o o ++ [eof]))) r sf /\
               errs sf <> [] /\ ppanic sf = ppanic st.
Proof.
  intros Wo. induction pre as [|s ss IH]; intros W st acc.
  - cbn [flats map concat app].
    destruct (open_parses o Wo st) as (sf & Hc & Hpk & Hadv & Hill & He & Hp).
    destruct (flat_o_cons o Wo) as (a & r & Ea & Ga & _).
    assert (NE : tok_eqb (ttype a) T_EOF = false).
    { destruct (tok_eqb (ttype a) T_EOF) eqn:X; [|reflexivity]. apply ParseTotal.tok_eqb_eq in X. rewrite X in Ga. discriminate Ga. }
    exists (advance sf), (Some (rev acc)). split; [|split; [rewrite errs_advance; exact He|rewrite ppanic_advance; exact Hp]].
    eapply (conv_bind (fun f => parseStatement f (setToks st (flat_o o ++ [eof])))
                      (fun f x st1 =>
                         if curIs st1 T_ILLEGAL
                         then POk None (addErr st1 (eline (curT st1)) (fmt ErrIllegalToken [tlit (curT st1)]))
                         else programLoop f (if stmt_is_null x then acc else x :: acc) (advance st1))).
    + exact Hc.
    + cbv beta. unfold curIs. rewrite Hill. cbv match. cbn [stmt_is_null].
      exists 1%nat. intros fuel Hf. destruct fuel as [|f]; [lia|]. cbn [programLoop]. unfold curIs. rewrite (at_eof_cur _ Hadv), Heof. reflexivity.
    + intro f. cbn [programLoop]. rewrite Ea. cbn [app]. unfold curIs at 1. rewrite curT_cons, NE. reflexivity.
  - pose proof W as (Ws & W' & Wa).
    destruct (flat_s_cons s Ws) as (a & r & Ea & Ga & Ba).
    rewrite flats_cons, <- app_assoc.
    set (R := flats ss ++ flat_o o ++ [eof]).
    assert (RN : R <> []) by (subst R; destruct (flats ss); [destruct (flat_o o); discriminate|discriminate]).
    assert (FO : follow_ok s R).
    { destruct s; try exact I. destruct ss as [|[] ss']; try contradiction.
      destruct W' as (Wc & _). cbn [wf_s] in Wc. subst R. cbn [flats map concat flat_s app].
      split; [split; [left; rewrite Wc; reflexivity|intros _; cbn [not_lparen]; rewrite Wc; discriminate]|rewrite Wc; reflexivity]. }
    assert (NE : tok_eqb (ttype a) T_EOF = false).
    { destruct (tok_eqb (ttype a) T_EOF) eqn:X; [|reflexivity]. apply ParseTotal.tok_eqb_eq in X. rewrite X in Ga. discriminate Ga. }
    destruct (IH W' st (if stmt_is_null (ast_s s) then acc else ast_s s :: acc)) as (sf & res & Hc & He & Hp).
    exists sf, res. split; [|split; assumption].
    eapply (conv_bind (fun f => parseStatement f (setToks st (flat_s s ++ R)))
                      (fun f x st1 =>
                         if curIs st1 T_ILLEGAL
                         then POk None (addErr st1 (eline (curT st1)) (fmt ErrIllegalToken [tlit (curT st1)]))
                         else programLoop f (if stmt_is_null x then acc else x :: acc) (advance st1))).
    + exact (stmt_parses s Ws st R RN FO).
    + cbv beta. unfold curIs. rewrite curT_cons, (last_s_legal s Ws). cbv match.
      assert (Adv : advance (setToks st (last_s s :: R)) = setToks st R).
      { destruct R eqn:X; [congruence|]. reflexivity. }
      rewrite Adv. exact Hc.
    + intro f. cbn [programLoop]. rewrite Ea. cbn [app]. unfold curIs at 1. rewrite curT_cons, NE. reflexivity.
Qed.

End WithEof.

(* the unterminated block is rejected, with the fuel parse_tokens really allots *)
Theorem unterminated_block_is_rejected pre o eof :
  wf_ss pre -> wf_o o -> ttype eof = T_EOF ->
  exists es, parse_tokens (flats pre ++ flat_o o ++ [eof]) = ParseErrors es /\ es <> [].
Proof.
  intros W Wo He. unfold parse_tokens, parse_tokens_fuel.
  set (ts := flats pre ++ flat_o o ++ [eof]).
  assert (T : tinv ts = true).
  { subst ts. rewrite app_assoc. generalize (flats pre ++ flat_o o). clear - He. induction l as [|a l IHl]; cbn [app tinv].
    - unfold is_termT. rewrite He. reflexivity.
    - destruct (l ++ [eof]) eqn:X; [destruct l; discriminate X|exact IHl]. }
  destruct (ParseTotal.programLoop_final (fun _ => True) (fun _ _ _ _ => I) ts T I) as (r0 & st' & Ex & _).
  destruct (open_program eof He o Wo pre W (initP ts) []) as (sf & res & (n & Hn) & Herr & Hp).
  change (setToks (initP ts) (flats pre ++ flat_o o ++ [eof])) with (initP ts) in Hn.
  pose proof (FuelMono.programLoop_fuel_mono (parse_fuel ts) (Nat.max (parse_fuel ts) n) _ _ _ _ ltac:(lia) Ex) as H1.
  rewrite Hn in H1 by lia. injection H1 as <- <-. rewrite Ex.
  cbn [initP ppanic] in Hp. rewrite Hp.
  destruct (errs sf) as [|e es] eqn:E; [congruence|].
  exists (rev (e :: es)). split; [reflexivity|]. intro X. apply (f_equal (@List.length _)) in X. rewrite rev_length in X. discriminate X.
Qed.
