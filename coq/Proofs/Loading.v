(* C18: templates are addressable by their path relative to the template directory without the
   extension; a faulty file fails loading as a whole; layouts are not renderable; an unknown name
   is "template not found"; evaluating a file is evaluating its content.
   Model: findTextwireFiles / nameFromPath / parsePrograms of files.go, parser_utils.go (Model/Api.v). *)
From Coq Require Import String Lia.
From TW Require Import Bytes Values Ast Builtins Eval Render Api.
Open Scope N_scope.

(* ---- names: suffix and prefix trimming are exact *)
Lemma prefixb_skipn p s : prefixb p s = true -> s = p ++ skipn (List.length p) s.
Proof.
  revert s; induction p as [|x p IH]; intros s H; [reflexivity|].
  destruct s as [|y s]; [discriminate|]. cbn in H |- *.
  apply andb_true_iff in H as [E H]. apply N.eqb_eq in E. subst y. f_equal. apply IH, H.
Qed.

Lemma has_suffix_spec suf s : has_suffix suf s = true <-> exists t, s = t ++ suf.
Proof.
  unfold has_suffix. rewrite prefixb_spec. split.
  - intros [t Ht]. exists (rev t). rewrite <- (rev_involutive s), Ht, rev_app_distr, rev_involutive. reflexivity.
  - intros [t ->]. exists (rev t). rewrite rev_app_distr. reflexivity.
Qed.

Lemma trim_suffix_app t suf : trim_suffix suf (t ++ suf) = t.
Proof.
  unfold trim_suffix. assert (has_suffix suf (t ++ suf) = true) as -> by (apply has_suffix_spec; eexists; reflexivity).
  rewrite app_length. replace (List.length t + List.length suf - List.length suf)%nat with (List.length t) by lia.
  rewrite firstn_app, firstn_all, Nat.sub_diag. cbn. apply app_nil_r.
Qed.

Lemma trim_prefix_app p t : trim_prefix p (p ++ t) = t.
Proof.
  unfold trim_prefix. rewrite prefixb_app.
  rewrite skipn_app, skipn_all, Nat.sub_diag. reflexivity.
Qed.

(* the registered name of a file dir/NAME.ext is exactly NAME, whatever occurs inside NAME
   (the extension, the directory name, dots) *)
Theorem name_of_file dir ext name :
  trim_suffix ext (trim_prefix (dir ++ [47]) ((dir ++ [47]) ++ name ++ ext)) = name.
Proof. rewrite trim_prefix_app. apply trim_suffix_app. Qed.

(* so two different files under the directory never share a name *)
Theorem names_are_injective dir ext n1 n2 :
  trim_suffix ext (trim_prefix (dir ++ [47]) ((dir ++ [47]) ++ n1 ++ ext)) =
  trim_suffix ext (trim_prefix (dir ++ [47]) ((dir ++ [47]) ++ n2 ++ ext)) -> n1 = n2.
Proof. rewrite !name_of_file. exact (fun H => H). Qed.

(* ---- which files are found *)
Definition is_template_file (cfg : config) (kv : bytes * fnode) : bool :=
  let dir := c_dir cfg in
  let pre := if bytes_eqb dir dot then [] else dir ++ [47] in
  prefixb pre (fst kv) && match snd kv with FDir => false | _ => true end && has_suffix (c_ext cfg) (fst kv).

Theorem found_files_are_exactly_the_template_files fs cfg l :
  walk_files fs cfg = LOk l ->
  map snd l = map fst (filter (is_template_file cfg) fs).
Proof.
  unfold walk_files. destruct (negb (dir_exists fs (c_dir cfg))); [discriminate|].
  intros [= <-]. rewrite map_map. cbn [snd]. reflexivity.
Qed.

Theorem found_file_has_extension_and_lives_under_dir fs cfg l name rel :
  walk_files fs cfg = LOk l -> In (name, rel) l ->
  (exists t, rel = t ++ c_ext cfg) /\
  (bytes_eqb (c_dir cfg) dot = false -> exists t, rel = (c_dir cfg ++ [47]) ++ t) /\
  name = trim_suffix (c_ext cfg) (trim_prefix (c_dir cfg ++ [47]) rel).
Proof.
  unfold walk_files. destruct (negb (dir_exists fs (c_dir cfg))); [discriminate|].
  intros [= <-] Hin. apply in_map_iff in Hin as ([p nd] & Heq & Hf). inversion Heq; subst name rel. clear Heq.
  apply filter_In in Hf as [_ Hf]. cbn [fst snd] in *.
  apply andb_true_iff in Hf as [Hf Hs]. apply andb_true_iff in Hf as [Hp _].
  split; [apply has_suffix_spec, Hs|]. split; [|reflexivity].
  intro Hd. rewrite Hd in Hp. apply prefixb_spec, Hp.
Qed.

(* ---- loading is all or nothing *)
Theorem load_all_or_nothing fs cfg files tpl :
  load_all fs cfg files = LOk tpl ->
  forall name rel, In (name, rel) files -> exists pg, load_page fs cfg rel = LOk pg.
Proof.
  revert tpl; induction files as [|[n r] files IH]; intros tpl H name rel Hin; [destruct Hin|].
  cbn [load_all] in H.
  destruct (load_page fs cfg r) as [pg| | |] eqn:Ep; try discriminate.
  destruct (load_all fs cfg files) as [more| | |] eqn:Em; try discriminate.
  destruct Hin as [Heq|Hin].
  - inversion Heq; subst. exists pg. exact Ep.
  - eapply IH; [reflexivity|exact Hin].
Qed.

Corollary one_faulty_file_fails_the_load fs cfg files name rel e :
  In (name, rel) files -> load_page fs cfg rel = LErr e ->
  forall tpl, load_all fs cfg files <> LOk tpl.
Proof.
  intros Hin He tpl H. destruct (load_all_or_nothing fs cfg files tpl H name rel Hin) as [pg Hp]. congruence.
Qed.

(* the error reported is the error of the FIRST faulty file in name order *)
Theorem load_reports_first_fault fs cfg good name rel rest e :
  (forall n r, In (n, r) good -> exists pg, load_page fs cfg r = LOk pg) ->
  load_page fs cfg rel = LErr e ->
  load_all fs cfg (good ++ (name, rel) :: rest) = LErr e.
Proof.
  induction good as [|[n r] good IH]; intros Hg He; cbn [app load_all].
  - rewrite He. reflexivity.
  - destruct (Hg n r (or_introl eq_refl)) as [pg ->].
    rewrite IH; [reflexivity| |exact He]. intros n' r' Hin. apply (Hg n' r'). right. exact Hin.
Qed.

(* ---- layouts are not registered; registered names are a subset of the found names *)
Theorem registered_names_come_from_files fs cfg files tpl name :
  load_all fs cfg files = LOk tpl -> In name (map fst tpl) -> In name (map fst files).
Proof.
  revert tpl; induction files as [|[n r] files IH]; intros tpl H Hin; cbn [load_all] in H.
  - inversion H; subst. exact Hin.
  - destruct (load_page fs cfg r) as [pg| | |]; try discriminate.
    destruct (load_all fs cfg files) as [more| | |] eqn:Em; try discriminate.
    inversion H; subst tpl. cbn [map fst]. destruct (snd pg).
    + right. eapply IH; [reflexivity|exact Hin].
    + cbn in Hin. destruct Hin as [<-|Hin]; [left; reflexivity|right; eapply IH; [reflexivity|exact Hin]].
Qed.

Theorem layout_is_not_registered fs cfg name rel pg rest tpl :
  load_page fs cfg rel = LOk pg -> snd pg = true ->
  load_all fs cfg ((name, rel) :: rest) = LOk tpl ->
  load_all fs cfg rest = LOk tpl.
Proof.
  intros Hp Hl. cbn [load_all]. rewrite Hp. destruct (load_all fs cfg rest); try discriminate.
  rewrite Hl. exact (fun H => H).
Qed.

(* ---- an unknown name is "template not found"; it never renders anything *)
Theorem unknown_name_not_found cx cfg tpl name data en :
  env_from_map data = EnvOk en -> alookup name tpl = None ->
  template_string cx cfg tpl name data =
  StrErr (mkErr 0 (template_path cfg name) (fmt ErrTemplateNotFound [])).
Proof. intros He Hn. unfold template_string. rewrite He, Hn. reflexivity. Qed.

(* ---- EvaluateFile(path) is EvaluateString(content of path) *)
Theorem evalfile_is_evalstring fs st rel data content :
  read_file fs rel = ReadOk content ->
  snd (step fs st (OpEvalFile rel data)) = snd (step fs st (OpEvalStr content data)).
Proof. intro H. cbn [step snd]. rewrite H. reflexivity. Qed.

(* non-vacuity: a directory named like the extension, the extension inside a name *)
Example name_example :
  trim_suffix (bs ".tw") (trim_prefix (bs "x.tw/") (bs "x.tw/a.tw.bak.tw")) = bs "a.tw.bak" /\
  has_suffix (bs ".tw") (bs "notes.twx") = false.
Proof. split; reflexivity. Qed.
