(* C17: the built-in error page (textwire/default-error-page.tw, regenerated into GenMisc on
   every run) evaluated by the model with the error's path, line and message left as VARIABLES.
   - debug off: the body is one constant, whatever the error: it cannot contain message, path or
     line (non-interference);
   - debug on: the body contains the path, the line and the message. *)
From Coq Require Import String.
From TW Require Import Bytes Values Eval Render Api GenMisc.
Open Scope N_scope.

Definition page_of (r : render_result) : bytes := match r with RenderOk b => b | _ => [] end.

(* the page with debug off, computed once from the regenerated template *)
Definition quiet_page : bytes :=
  Eval vm_compute in
    page_of (builtin_error_page (mkCtx []) (mkConfig [] [] [] false) (mkErr 0 [] [])).

Theorem error_page_quiet cx dir ext page (e : terr) :
  builtin_error_page cx (mkConfig dir ext page false) e = RenderOk quiet_page.
Proof.
  unfold builtin_error_page. cbn [c_debug].
  generalize (Z.of_nat (e_line e)) (e_path e) (e_msg e). intros z p m.
  unfold evaluate_string, render_program, env_from_map.
  assert (H : asort [(bs "path", GStr p); (bs "line", GInt z); (bs "message", GStr m); (bs "debugMode", GBool false)]
             = [(bs "debugMode", GBool false); (bs "line", GInt z); (bs "message", GStr m); (bs "path", GStr p)])
    by (vm_compute; reflexivity).
  rewrite H. clear H. cbn [env_from_sorted to_object].
  generalize (wrap64 z). intro w.
  vm_compute. reflexivity.
Qed.

(* non-interference: with debug off two different errors give the same body *)
Theorem error_page_no_leak cx cfg e1 e2 :
  c_debug cfg = false -> builtin_error_page cx cfg e1 = builtin_error_page cx cfg e2.
Proof.
  destruct cfg as [dir ext page dbg]. cbn [c_debug]. intros ->.
  rewrite !error_page_quiet. reflexivity.
Qed.

Lemma quiet_page_nonempty : quiet_page <> [].
Proof. discriminate. Qed.

(* ---- debug on *)
Definition has_sub (p t : bytes) : Prop := exists a b, t = a ++ p ++ b.

Lemma sub_here p r : has_sub p (p ++ r).
Proof. exists [], r. reflexivity. Qed.

Lemma sub_cons c t p : has_sub p t -> has_sub p (c :: t).
Proof. intros (a & b & ->). exists (c :: a), b. reflexivity. Qed.

Lemma sub_skip q r p : has_sub p r -> has_sub p (q ++ r).
Proof. intros (a & b & ->). exists (q ++ a), b. rewrite app_assoc. reflexivity. Qed.

(* the body with debug on, as a function of the three texts: the page is evaluated once with
   the texts left symbolic *)
Definition debug_body (cx : ctx) (dir ext page : bytes) (line : nat) (path msg : bytes) : bytes :=
  page_of (builtin_error_page cx (mkConfig dir ext page true) (mkErr line path msg)).

Definition debug_shape (pt lt mt : bytes) : bytes :=
  Eval vm_compute in
    (fun pt lt mt : bytes =>
       page_of (render_program (mkCtx []) 
          match parse_source default_error_page with ParsedOk p => p | _ => mkProgram [] None [] [] [] end
          [(bs "path", GStr pt); (bs "line", GStr lt); (bs "message", GStr mt); (bs "debugMode", GBool true)])) pt lt mt.

Lemma debug_page_shape cx dir ext page line path msg :
  builtin_error_page cx (mkConfig dir ext page true) (mkErr line path msg) =
  RenderOk (debug_shape path (Z_to_dec (wrap64 (Z.of_nat line))) msg).
Proof.
  unfold builtin_error_page. cbn [c_debug e_line e_path e_msg].
  unfold evaluate_string, render_program, env_from_map.
  assert (H : asort [(bs "path", GStr path); (bs "line", GInt (Z.of_nat line)); (bs "message", GStr msg);
                     (bs "debugMode", GBool true)]
             = [(bs "debugMode", GBool true); (bs "line", GInt (Z.of_nat line)); (bs "message", GStr msg);
                (bs "path", GStr path)])
    by (vm_compute; reflexivity).
  rewrite H. clear H. cbn [env_from_sorted to_object].
  generalize (wrap64 (Z.of_nat line)). intro w.
  vm_compute. reflexivity.
Qed.

Lemma debug_body_shape cx dir ext page line path msg :
  debug_body cx dir ext page line path msg =
  debug_shape path (Z_to_dec (wrap64 (Z.of_nat line))) msg.
Proof. unfold debug_body. rewrite debug_page_shape. reflexivity. Qed.

(* reflection: the computed body is a tree of literal bytes, the three texts and appends *)
Inductive sx := SNil | SCons (c : N) (t : sx) | SVar (n : nat) | SApp (a b : sx).

Fixpoint den (rho : nat -> bytes) (e : sx) : bytes :=
  match e with
  | SNil => []
  | SCons c t => c :: den rho t
  | SVar n => rho n
  | SApp a b => den rho a ++ den rho b
  end.

Fixpoint occ (n : nat) (e : sx) : bool :=
  match e with
  | SNil => false
  | SCons _ t => occ n t
  | SVar m => Nat.eqb n m
  | SApp a b => occ n a || occ n b
  end.

Lemma sub_app_l p t r : has_sub p t -> has_sub p (t ++ r).
Proof. intros (a & b & ->). exists a, (b ++ r). rewrite <- !app_assoc. reflexivity. Qed.

Lemma occ_sub rho n e : occ n e = true -> has_sub (rho n) (den rho e).
Proof.
  induction e as [|c t IH|m|a IHa b IHb]; cbn [occ den]; intro H.
  - discriminate.
  - apply sub_cons, IH, H.
  - apply Nat.eqb_eq in H. subst m. exists [], []. rewrite app_nil_r. reflexivity.
  - apply orb_true_iff in H. destruct H as [H|H].
    + apply sub_app_l, IHa, H.
    + apply sub_skip, IHb, H.
Qed.

Ltac reify pt lt mt t :=
  lazymatch t with
  | @nil _ => constr:(SNil)
  | @cons _ ?c ?t' => let r := reify pt lt mt t' in constr:(SCons c r)
  | @app _ ?a ?b => let ra := reify pt lt mt a in let rb := reify pt lt mt b in constr:(SApp ra rb)
  | pt => constr:(SVar 0)
  | lt => constr:(SVar 1)
  | mt => constr:(SVar 2)
  end.

Definition rho3 (pt lt mt : bytes) (n : nat) : bytes :=
  match n with O => pt | S O => lt | _ => mt end.

Ltac shape_sub pt lt mt k :=
  unfold debug_shape; fold (@app N);
  lazymatch goal with
  | |- has_sub _ ?t =>
    let e := reify pt lt mt t in
    change (has_sub (rho3 pt lt mt k) (den (rho3 pt lt mt) e));
    apply occ_sub; vm_compute; reflexivity
  end.

Lemma shape_shows_path pt lt mt : has_sub pt (debug_shape pt lt mt).
Proof. Time shape_sub pt lt mt 0%nat. Time Qed.

Lemma shape_shows_line pt lt mt : has_sub lt (debug_shape pt lt mt).
Proof. shape_sub pt lt mt 1%nat. Qed.

Lemma shape_shows_message pt lt mt : has_sub mt (debug_shape pt lt mt).
Proof. shape_sub pt lt mt 2%nat. Qed.

(* with debug on the body shows the path, the line and the message *)
Theorem error_page_debug_shows_path cx dir ext page line path msg :
  has_sub path (debug_body cx dir ext page line path msg).
Proof. rewrite debug_body_shape. apply shape_shows_path. Qed.

Theorem error_page_debug_shows_line cx dir ext page line path msg :
  has_sub (Z_to_dec (wrap64 (Z.of_nat line))) (debug_body cx dir ext page line path msg).
Proof. rewrite debug_body_shape. apply shape_shows_line. Qed.

Theorem error_page_debug_shows_message cx dir ext page line path msg :
  has_sub msg (debug_body cx dir ext page line path msg).
Proof. rewrite debug_body_shape. apply shape_shows_message. Qed.
