(* The specification's own fuel (Spec/Template.v) only decides whether it answers: a result other
   than TNoFuel is the result for every larger budget (mutual induction over run_nodes, run_block,
   run_node, each_passes, for_passes), stated for the built-in table of the model. *)
From Coq Require Import String Lia.
From TW Require Import Bytes Floats Values Ast Builtins Eval Expr Template ExprSem Control CleanValues TemplateRefine.
Open Scope N_scope.

Notation T := model_call_spec.

Definition text (a a' : tres) : Prop := a <> TNoFuel -> a' = a.

Lemma text_refl a : text a a.
Proof. intro; reflexivity. Qed.

Lemma text_case (a a' : tres) (k k' : bytes -> signal -> scopes -> tres) :
  text a a' -> (forall o s sc, text (k o s sc) (k' o s sc)) ->
  text (match a with TOk o s sc => k o s sc | TFail => TFail | TNoFuel => TNoFuel | TUnprintable => TUnprintable end)
       (match a' with TOk o s sc => k' o s sc | TFail => TFail | TNoFuel => TNoFuel | TUnprintable => TUnprintable end).
Proof.
  intros Ha Hk H. destruct a; try (rewrite (Ha ltac:(discriminate)); try reflexivity).
  - apply Hk. exact H.
  - congruence.
Qed.

Ltac step tac :=
  first
    [ apply text_refl
    | match goal with
      | |- text (match ?x with _ => _ end) (match ?x with _ => _ end) => destruct x
      | |- text (if ?x then _ else _) (if ?x then _ else _) => destruct x
      | |- text (match ?a with TOk o1 s1 sc1 => @?k o1 s1 sc1 | TFail => TFail | TNoFuel => TNoFuel | TUnprintable => TUnprintable end)
                (match ?a' with TOk o2 s2 sc2 => @?k' o2 s2 sc2 | TFail => TFail | TNoFuel => TNoFuel | TUnprintable => TUnprintable end) =>
        apply (text_case a a' k k'); [solve [tac]|intros ? ? ?]
      end ].

Definition MT (f g : nat) : Prop :=
  (forall sc ns, text (run_nodes T f sc ns) (run_nodes T g sc ns)) /\
  (forall sc ns, text (run_block T f sc ns) (run_block T g sc ns)) /\
  (forall sc n, text (run_node T f sc n) (run_node T g sc n)) /\
  (forall v body len i elems sc, text (each_passes T f v body len i elems sc) (each_passes T g v body len i elems sc)) /\
  (forall cond post body sc, text (for_passes T f cond post body sc) (for_passes T g cond post body sc)).

Lemma spec_mono : forall f g, (f <= g)%nat -> MT f g.
Proof.
  induction f as [|f IH]; intros g Hle;
    [repeat split; intros; intro H; exfalso; apply H; reflexivity|].
  destruct g as [|g]; [lia|]. destruct (IH g ltac:(lia)) as (INs & IB & IN & IE & IF).
  split; [|split; [|split; [|split]]].
  - intros sc ns. destruct ns as [|n ns]; [apply text_refl|]. rewrite !run_nodes_cons.
    repeat step ltac:(first [apply IN|apply INs]).
  - intros sc ns. rewrite !run_block_S. repeat step ltac:(apply INs).
  - intros sc n. destruct n.
    + apply text_refl.
    + rewrite !rn_print. apply text_refl.
    + rewrite !rn_assign. apply text_refl.
    + rewrite !rn_if. destruct (ev T sc c); try apply text_refl. destruct (truthy_spec v); [apply IB|].
      induction elifs as [|[c' b] elifs IHe]; cbn [branches]; [destruct els; [apply IB|apply text_refl]|].
      destruct (ev T sc c'); try apply text_refl. destruct (truthy_spec v0); [apply IB|exact IHe].
    + rewrite !rn_each. destruct (ev T sc arr) as [av| |]; try apply text_refl. destruct av; try apply text_refl.
      destruct l; destruct els; try apply IB; repeat step ltac:(apply IE).
    + rewrite !rn_for. repeat step ltac:(first [apply IF|apply INs]).
    + apply text_refl.
    + apply text_refl.
    + rewrite !rn_breakif. apply text_refl.
    + rewrite !rn_continueif. apply text_refl.
    + destruct blk as [b|].
      * rewrite !rn_reserve_block. repeat step ltac:(apply INs).
      * destruct arg; [rewrite !rn_reserve_expr|rewrite !rn_reserve_empty]; apply text_refl.
    + rewrite !rn_component. repeat step ltac:(apply INs).
    + destruct body as [b|]; [rewrite !rn_slot_body; repeat step ltac:(apply INs)|rewrite !rn_slot_empty; apply text_refl].
  - intros v body len i elems sc. rewrite !each_passes_S. repeat step ltac:(first [apply INs|apply IE]).
  - intros cond post body sc. rewrite !for_passes_S. repeat step ltac:(first [apply INs|apply IF]).
Qed.

Theorem run_nodes_fuel_mono f g sc ns r :
  (f <= g)%nat -> run_nodes T f sc ns = r -> r <> TNoFuel -> run_nodes T g sc ns = r.
Proof.
  intros L E N. pose proof (proj1 (spec_mono f g L) sc ns) as X. unfold text in X. rewrite E in X. apply X, N.
Qed.

Theorem run_node_fuel_mono f g sc n r :
  (f <= g)%nat -> run_node T f sc n = r -> r <> TNoFuel -> run_node T g sc n = r.
Proof.
  intros L E N. pose proof (proj1 (proj2 (proj2 (spec_mono f g L))) sc n) as X. unfold text in X. rewrite E in X. apply X, N.
Qed.
