(* The lexer read backwards: for every list of items (token type, source spelling, white space
   before it) that passes the computable check [source_ok], lexing the concatenated spelling yields
   exactly the tokens the items describe - type, literal, start and end (line, column) - then EOF.
   Together with Pratt.v / StmtParse.v / TemplatePipeline.v this ties source BYTES to output.
   Scope: any number of lines, any bytes but NUL; text runs may hold backslashes (not last, and not
   before active syntax - escapes are Escapes.v); string bodies hold no backslash; comments
   {{-- ... --}} before any item of text mode and at the end, white space before any token of code. *)
From Coq Require Import String Lia ZArith.
From TW Require Export LexSpell.
From TW Require Import Bytes GenToken Lexer Text GenTie LexTotal LexerPos LexerTokens LexAll Passthrough Escapes LexShape.
From TW Require Comments.
Open Scope N_scope.

(* ---- the state the lexer is in between tokens: at offset p of the input, counters exact (Inv),
   the byte before is no backslash, modes m, r left to read *)
Section WithInput.
Variable input : bytes.

Definition St (l : lexer) (p : nat) (m : md) (r : bytes) : Prop :=
  rest l = r /\ forallb okb r = true /\ Inv input l /\ lpos l = p /\ lprev l <> 92 /\
  isHTML l = mh m /\ isDirective l = mdir m /\ parenCount l = mp m /\ braceCount l = mb m.

Lemma okb_hd c r : forallb okb (c :: r) = true -> c <> 0 /\ forallb okb r = true.
Proof.
  cbn [forallb]. intro H. apply andb_true_iff in H as [H Hr]. unfold okb in H.
  apply negb_true_iff in H. apply N.eqb_neq in H. auto.
Qed.

Lemma readN_modes n : forall l,
  isHTML (readN n l) = isHTML l /\ isDirective (readN n l) = isDirective l /\
  parenCount (readN n l) = parenCount l /\ braceCount (readN n l) = braceCount l.
Proof. induction n as [|n IH]; intro l; [repeat split|]. cbn [readN]. destruct (IH (readChar l)) as (A&B&C&D). repeat split; assumption. Qed.

Lemma last_default {A} (w : list A) d d' : w <> [] -> last w d = last w d'.
Proof. induction w as [|a w IH]; intro H; [congruence|]. destruct w as [|b w]; [reflexivity|]. cbn [last] in *. apply IH. discriminate. Qed.

Lemma lprev_readN w : forall l r, rest l = w ++ r -> lprev (readN (List.length w) l) = last w (lprev l).
Proof.
  induction w as [|c w IH]; intros l r H; [reflexivity|]. cbn [List.length readN].
  rewrite (IH (readChar l) r) by (cbn [readChar rest]; rewrite H; reflexivity).
  cbn [readChar lprev]. unfold cur. rewrite H. cbn [app hd]. destruct w as [|c' w']; [reflexivity|]. change (last (c :: c' :: w') (lprev l)) with (last (c' :: w') (lprev l)). apply last_default. discriminate.
Qed.

Lemma rest_readN w : forall l r, rest l = w ++ r -> rest (readN (List.length w) l) = r.
Proof.
  induction w as [|c w IH]; intros l r H; [exact H|]. cbn [List.length readN]. apply IH. cbn [readChar rest]. rewrite H. reflexivity.
Qed.

Lemma readN_St w l p m r :
  St l p m (w ++ r) -> last w 1 <> 92 ->
  St (readN (List.length w) l) (p + List.length w) m r /\
  startLine (readN (List.length w) l) = startLine l /\ startCol (readN (List.length w) l) = startCol l.
Proof.
  intros (Hr & Hc & Hi & Hp & Hv & M1 & M2 & M3 & M4) Hl.
  destruct (readN_inv input (List.length w) l Hi) as (I1 & I2 & I3 & I4).
  destruct (readN_modes (List.length w) l) as (A & B & C & D).
  split; [|split; assumption].
  unfold St. split; [exact (rest_readN w l r Hr)|].
  split; [rewrite forallb_app in Hc; apply andb_true_iff in Hc as [_ Hc]; exact Hc|].
  split; [exact I1|]. split; [rewrite I2, Hp; reflexivity|].
  split.
  - rewrite (lprev_readN w l r Hr). destruct w as [|c w]; [exact Hv|].
    rewrite (last_default (c :: w) _ 1) by discriminate. exact Hl.
  - rewrite A, B, C, D. repeat split; assumption.
Qed.

Lemma newToken_fields l ty lit : tok_eqb ty T_EOF = false ->
  newToken l ty lit = mkToken ty lit (startLine l) (startCol l) (prevLine l) (prevCol l).
Proof. intro H. unfold newToken. rewrite H. reflexivity. Qed.

(* the token made after reading the non-empty spelling w from the state l *)
Lemma token_after w l p m r ty lit :
  St l p m (w ++ r) -> w <> [] -> last w 1 <> 92 -> tok_eqb ty T_EOF = false ->
  let l' := readN (List.length w) (tokenBegins l) in
  newToken l' ty lit = tokAt input ty lit p (p + List.length w - 1) /\ St l' (p + List.length w) m r.
Proof.
  intros H Hw Hl Ht. cbv zeta.
  assert (H' : St (tokenBegins l) p m (w ++ r)) by exact H.
  destruct (readN_St w (tokenBegins l) p m r H' Hl) as (I1 & I2 & I3).
  split; [|exact I1]. rewrite (newToken_fields _ _ _ Ht), I2, I3.
  destruct H as (_ & _ & Hi & Hp & _). destruct Hi as (_ & Hlc & _).
  destruct I1 as (_ & _ & Hi' & Hp' & _). destruct Hi' as (_ & _ & _ & Hpv & _).
  assert (Hpos : (0 < lpos (readN (List.length w) (tokenBegins l)))%nat).
  { rewrite Hp'. destruct w; [congruence|cbn [List.length]; lia]. }
  specialize (Hpv Hpos). rewrite Hp' in Hpv.
  cbn [tokenBegins startLine startCol]. unfold tokAt. rewrite <- Hpv. rewrite Hp in Hlc. rewrite <- Hlc. reflexivity.
Qed.

Lemma St_modes l p m r h d : St l p m r -> St (setModes l h d) p (mkMd h d (mp m) (mb m)) r.
Proof. intros (A&B&C&D&E&F&G&H&I). unfold St. cbn. repeat split; try assumption; apply C. Qed.
Lemma St_counts l p m r a b : St l p m r -> St (setCounts l a b) p (mkMd (mh m) (mdir m) a b) r.
Proof. intros (A&B&C&D&E&F&G&H&I). unfold St. cbn. repeat split; try assumption; apply C. Qed.

Lemma St_cur l p m c r : St l p m (c :: r) -> cur l = c.
Proof. intros (H & _). unfold cur. rewrite H. reflexivity. Qed.
Lemma St_peek l p m c r : St l p m (c :: r) -> peekChar l = hd 0 r.
Proof. intros (H & _). unfold peekChar. rewrite H. reflexivity. Qed.
Lemma St_prev l p m r : St l p m r -> (prevChar l =? 92) = false.
Proof. intros (_&_&_&_&F&_). unfold prevChar. destruct (Nat.eqb (lpos l) 0); [reflexivity|]. apply N.eqb_neq, F. Qed.

(* ---- white space *)
Lemma skipWs_gap g : forall l r,
  rest l = g ++ r -> forallb isWs g = true -> isWs (hd 0 r) = false -> skipWs (g ++ r) l = readN (List.length g) l.
Proof.
  induction g as [|c g IH]; intros l r H Hg Hw.
  - cbn [app List.length readN] in *. destruct r as [|c r]; [reflexivity|]. cbn [skipWs].
    unfold cur. rewrite H. cbn [hd] in *. rewrite Hw. reflexivity.
  - cbn [app List.length readN forallb] in *. apply andb_true_iff in Hg as [Hc Hg]. cbn [skipWs].
    unfold cur. rewrite H. cbn [hd]. rewrite Hc.
    apply IH; [cbn [readChar rest]; rewrite H; reflexivity|exact Hg|exact Hw].
Qed.

Lemma ws_last g : forallb isWs g = true -> last g 1 <> 92.
Proof.
  induction g as [|c g IH]; [discriminate|]. cbn [forallb]. intro H. apply andb_true_iff in H as [Hc Hg].
  destruct g as [|c' g']; [|exact (IH Hg)]. cbn [last]. intro E. subst c. discriminate Hc.
Qed.

Lemma skipWhitespace_gap g l p m r :
  St l p m (g ++ r) -> forallb isWs g = true -> isWs (hd 0 r) = false ->
  skipWhitespace l = readN (List.length g) l /\ St (readN (List.length g) l) (p + List.length g) m r.
Proof.
  intros H Hg Hw. split.
  - unfold skipWhitespace. destruct H as (Hr & H'). rewrite Hr. apply (skipWs_gap g l r Hr Hg Hw).
  - exact (proj1 (readN_St g l p m r H (ws_last g Hg))).
Qed.

Lemma skipWhitespace_nogap l p m r : St l p m r -> isWs (hd 0 r) = false -> skipWhitespace l = l.
Proof. intros H Hw. exact (proj1 (skipWhitespace_gap [] l p m r H eq_refl Hw)). Qed.

Lemma no92_last w : forallb (fun c => negb (c =? 92)) w = true -> last w 1 <> 92.
Proof.
  induction w as [|c w IH]; [discriminate|]. cbn [forallb]. intro H. apply andb_true_iff in H as [Hc Hw].
  destruct w as [|c' w']; [|exact (IH Hw)]. cbn [last]. apply negb_true_iff in Hc. apply N.eqb_neq in Hc. exact Hc.
Qed.

Lemma forallb_imp {A} (P Q : A -> bool) w : (forall x, P x = true -> Q x = true) -> forallb P w = true -> forallb Q w = true.
Proof. intros I H. rewrite forallb_forall in *. intros x Hx. apply I, H, Hx. Qed.

(* ---- the scanning loops read exactly the spelling *)

Lemma readIdent_exact w : forall l fol acc,
  rest l = w ++ fol -> forallb idc w = true -> idc (hd 0 fol) = false ->
  readIdent_loop (w ++ fol) l acc = (readN (List.length w) l, rev w ++ acc).
Proof.
  induction w as [|c w IH]; intros l fol acc Hr Hw Hf.
  - cbn [app List.length readN rev]. destruct fol as [|c fol]; [reflexivity|]. cbn [readIdent_loop].
    unfold cur. cbn [app] in Hr. rewrite Hr. cbn [hd] in *. unfold idc in Hf. rewrite Hf. reflexivity.
  - cbn [app List.length readN rev forallb] in *. apply andb_true_iff in Hw as [Hc Hw]. cbn [readIdent_loop].
    assert (Ec : cur l = c) by (unfold cur; rewrite Hr; reflexivity). rewrite Ec. unfold idc in Hc. rewrite Hc.
    rewrite (IH (readChar l) fol (c :: acc)); [|cbn [readChar rest]; rewrite Hr; reflexivity|exact Hw|exact Hf].
    rewrite <- app_assoc. reflexivity.
Qed.

Lemma readNumber_exact w : forall l fol acc b,
  rest l = w ++ fol -> num_scan w fol = true ->
  readNumber_loop (w ++ fol) l acc b = (readN (List.length w) l, rev w ++ acc, b && nodots w).
Proof.
  induction w as [|c w IH]; intros l fol acc b Hr Hs.
  - cbn [app List.length readN rev nodots forallb]. rewrite andb_true_r. cbn [num_scan] in Hs. apply negb_true_iff in Hs.
    destruct fol as [|c fol]; [reflexivity|]. cbn [readNumber_loop]. cbn [app] in Hr.
    unfold cur, peekChar. rewrite Hr. cbn [hd tl] in *.
    apply orb_false_iff in Hs as [H1 H2]. rewrite H1. cbn [orb].
    destruct (c =? 46) eqn:E; [|reflexivity]. cbn [andb] in *. rewrite H2. reflexivity.
  - cbn [app List.length readN rev] in *. cbn [num_scan] in Hs. apply andb_true_iff in Hs as [Hc Hs].
    cbn [readNumber_loop].
    assert (Ec : cur l = c) by (unfold cur; rewrite Hr; reflexivity). rewrite Ec.
    assert (Ep : peekChar l = hd 0 (w ++ fol)) by (unfold peekChar; rewrite Hr; reflexivity). rewrite Ep.
    assert (Hr' : rest (readChar l) = w ++ fol) by (cbn [readChar rest]; rewrite Hr; reflexivity).
    rewrite <- app_assoc. cbn [app].
    destruct (isNumber c) eqn:En.
    + cbn [orb]. assert (E46 : (c =? 46) = false).
      { destruct (c =? 46) eqn:E; [|reflexivity]. apply N.eqb_eq in E. subst c. discriminate En. }
      rewrite E46. cbn [andb]. rewrite (IH _ _ _ _ Hr' Hs). cbn [nodots forallb]. rewrite E46. reflexivity.
    + cbn [orb] in *. apply andb_true_iff in Hc as [E46 Hn]. rewrite E46. cbn [andb]. rewrite Hn. cbn [negb].
      rewrite (IH _ _ _ _ Hr' Hs). cbn [nodots forallb]. rewrite E46. cbn [negb andb]. rewrite andb_false_r. reflexivity.
Qed.

(* a string body is read up to its closing quote: a quote after a backslash does not end it *)
Lemma readString_exact b : forall c l q fol acc,
  rest l = c :: b ++ q :: fol -> forallb okb (c :: b) = true -> str_tail q c b = true ->
  readString_loop (c :: b ++ q :: fol) l q acc = (readN (S (List.length b)) l, rev (c :: b) ++ acc).
Proof.
  induction b as [|c' b IH]; intros c l q fol acc Hr Hok Ht.
  - cbn [app List.length readN rev] in *. cbn [readString_loop].
    assert (Ec : cur l = c) by (unfold cur; rewrite Hr; reflexivity). rewrite Ec.
    destruct (okb_hd _ _ Hok) as (C0 & _). apply N.eqb_neq in C0. rewrite C0.
    assert (Ec' : cur (readChar l) = q) by (unfold cur; cbn [readChar rest]; rewrite Hr; reflexivity).
    rewrite Ec', N.eqb_refl. cbn [str_tail] in Ht. rewrite Ht. reflexivity.
  - cbn [app List.length readN] in *.
    assert (Hr' : rest (readChar l) = c' :: b ++ q :: fol) by (cbn [readChar rest]; rewrite Hr; reflexivity).
    remember (c' :: b ++ q :: fol) as r' eqn:Er'. cbn [readString_loop].
    assert (Ec : cur l = c) by (unfold cur; rewrite Hr; reflexivity). rewrite Ec.
    destruct (okb_hd _ _ Hok) as (C0 & Hok'). apply N.eqb_neq in C0. rewrite C0. subst r'.
    assert (Ec' : cur (readChar l) = c') by (unfold cur; rewrite Hr'; reflexivity).
    rewrite Ec'. cbn [str_tail] in Ht. apply andb_true_iff in Ht as [Hq Ht]. apply negb_true_iff in Hq. rewrite Hq.
    rewrite (IH c' (readChar l) q fol (c :: acc) Hr' Hok' Ht).
    cbn [rev]. rewrite <- !app_assoc. reflexivity.
Qed.

(* ---- directives: the keyword table read incrementally *)
Fixpoint pref_ok (pre suf : bytes) : bool :=
  match suf with
  | [] => true
  | c :: suf' =>
    match suf' with
    | [] => true
    | _ :: _ => (tok_eqb (lookupDirective (pre ++ [c])) T_ILLEGAL || pl_bytes (lookupDirective (pre ++ [c])) suf') &&
                pref_ok (pre ++ [c]) suf'
    end
  end.

(* no proper prefix of a directive keyword is itself one, except @else / @break / @continue inside their long forms *)
Lemma table_prefixes : forallb (pref_ok []) directive_words = true.
Proof. vm_compute. reflexivity. Qed.

Lemma pl_bytes_app t x fol : pl_bytes t x = true -> pl_bytes t (x ++ fol) = true.
Proof.
  unfold pl_bytes. destruct x as [|a [|b x]]; cbn [hd tl app]; intro H.
  - change (0 =? 105) with false in H. change (0 =? 73) with false in H. rewrite !andb_false_r in H. discriminate H.
  - change (0 =? 102) with false in H. rewrite !andb_false_r in H. discriminate H.
  - exact H.
Qed.

Lemma isPotentiallyLong_bytes l t : isPotentiallyLong l t = pl_bytes t (rest l).
Proof. reflexivity. Qed.

Lemma readDirective_exact suf : forall pre l fol t0,
  rest l = suf ++ fol -> suf <> [] -> forallb isLetterWord suf = true -> pref_ok pre suf = true ->
  tok_eqb (lookupDirective (pre ++ suf)) T_ILLEGAL = false ->
  pl_bytes (lookupDirective (pre ++ suf)) fol = false ->
  readDirective_loop (suf ++ fol) l pre t0 = (readN (List.length suf) l, pre ++ suf, lookupDirective (pre ++ suf)).
Proof.
  induction suf as [|c suf IH]; intros pre l fol t0 Hr Hne Hw Hp Hl Hf; [congruence|].
  cbn [forallb] in Hw. apply andb_true_iff in Hw as [Hc Hw].
  cbn [app List.length readN readDirective_loop].
  assert (Ec : cur l = c) by (unfold cur; rewrite Hr; reflexivity). rewrite Ec, Hc. cbn [negb]. cbv match.
  assert (Hr' : rest (readChar l) = suf ++ fol) by (cbn [readChar rest]; rewrite Hr; reflexivity).
  rewrite isPotentiallyLong_bytes, Hr'.
  destruct suf as [|c' suf'].
  - cbn [app] in *. rewrite Hf, Hl. reflexivity.
  - cbn [pref_ok] in Hp. apply andb_true_iff in Hp as [Hp1 Hp2].
    assert (X : negb (pl_bytes (lookupDirective (pre ++ [c])) ((c' :: suf') ++ fol)) &&
                negb (tok_eqb (lookupDirective (pre ++ [c])) T_ILLEGAL) = false).
    { apply orb_true_iff in Hp1 as [E|E].
      - rewrite E. apply andb_false_r.
      - rewrite (pl_bytes_app _ _ fol E). reflexivity. }
    rewrite X.
    replace (pre ++ c :: c' :: suf') with ((pre ++ [c]) ++ c' :: suf') in * by (rewrite <- app_assoc; reflexivity).
    exact (IH (pre ++ [c]) (readChar l) fol _ Hr' ltac:(discriminate) Hw Hp2 Hl Hf).
Qed.

Lemma keyword_at s : In s directive_words -> exists s', s = 64 :: s'.
Proof.
  intro I. pose proof directives_well_formed as F. rewrite forallb_forall in F.
  unfold directive_words in I. apply in_map_iff in I as (p & E & Ip). specialize (F p Ip). rewrite E in F.
  destruct s as [|c s']; [discriminate F|]. apply andb_true_iff in F as [F _]. apply N.eqb_eq in F. subst c.
  eexists; reflexivity.
Qed.

Lemma setModes_newToken l a b ty lit : newToken (setModes l a b) ty lit = newToken l ty lit.
Proof. reflexivity. Qed.

Lemma letterword_last s : forallb isLetterWord s = true -> last s 1 <> 92.
Proof.
  intro H. apply no92_last. revert H. apply forallb_imp. intros c Hc.
  destruct (c =? 92) eqn:E; [|reflexivity]. apply N.eqb_eq in E. subst c. discriminate Hc.
Qed.

Lemma directive_item l p m ty s fol :
  St l p m (s ++ fol) -> directive_ok ty s fol = true ->
  let dir := (inb ty tokens_with_optional_parens && (hd 0 fol =? 40)) || negb (inb ty tokens_without_parens) in
  fst (isDirectiveToken l) = true /\
  exists l', directiveToken l = (tokAt input ty s p (p + List.length s - 1), l') /\
             St l' (p + List.length s) (mkMd (negb dir) dir (mp m) (mb m)) fol.
Proof.
  intros H Hd. cbv zeta. unfold directive_ok in Hd.
  apply andb_true_iff in Hd as [Hd Hpl]. apply andb_true_iff in Hd as [Hlk Hill].
  apply ParseTotal.tok_eqb_eq in Hlk. apply negb_true_iff in Hill, Hpl.
  assert (Hl : tok_eqb (lookupDirective s) T_ILLEGAL = false) by (rewrite Hlk; exact Hill).
  pose proof (lookup_is_keyword s Hl) as I.
  destruct (keyword_at s I) as (s' & Es).
  assert (Hr : rest l = s ++ fol) by apply H.
  assert (C : cur l = 64) by (unfold cur; rewrite Hr, Es; reflexivity).
  split.
  { rewrite (isDirectiveToken_found l).
    - rewrite (St_prev _ _ _ _ H). reflexivity.
    - unfold starts_directive. apply existsb_exists. exists s. split; [exact I|]. rewrite Hr. apply prefixb_app. }
  unfold directiveToken. rewrite C. change (negb (64 =? 64)) with false. cbv match.
  unfold readDirective. cbv zeta. change (rest (tokenBegins l)) with (rest l). rewrite Hr.
  pose proof table_prefixes as TP. rewrite forallb_forall in TP.
  rewrite (readDirective_exact s [] (tokenBegins l) fol T_ILLEGAL Hr ltac:(rewrite Es; discriminate)
             (letterword_keyword s I) (TP s I) Hl ltac:(cbn [app]; rewrite Hlk; exact Hpl)).
  cbn [app]. rewrite Hlk, Hill. cbv match.
  assert (Hne : s <> []) by (rewrite Es; discriminate).
  assert (Heof : tok_eqb ty T_EOF = false) by (rewrite <- Hlk; apply lookupDirective_not_eof).
  destruct (token_after s l p m fol ty s H Hne (letterword_last s (letterword_keyword s I)) Heof) as [T1 T2].
  assert (Ecur : cur (readN (List.length s) (tokenBegins l)) = hd 0 fol).
  { unfold cur. destruct T2 as (R & _). rewrite R. reflexivity. }
  rewrite Ecur. eexists. split.
  - rewrite setModes_newToken, T1. reflexivity.
  - apply St_modes. exact T2.
Qed.

(* ---- text *)
Lemma areBraces_here l r : (prevChar l =? 92) = false -> rest l = r -> prefixb [123; 123] r = true -> areBracesToken l = (true, false).
Proof.
  intros Hv Hr P. rewrite two_braces_prefix in P. unfold areBracesToken. rewrite Hv.
  unfold cur, peekChar. rewrite Hr, P. reflexivity.
Qed.

Lemma last_cons {A} (c : A) w d : last (c :: w) d = last w c.
Proof. destruct w as [|b w]; [reflexivity|]. change (last (c :: b :: w) d) with (last (b :: w) d). apply last_default. discriminate. Qed.

Lemma prefixb_app_false p s t : prefixb p (s ++ t) = false -> prefixb p s = false.
Proof.
  intro H. destruct (prefixb p s) eqn:E; [|reflexivity]. apply prefixb_spec in E as (u & ->).
  rewrite <- app_assoc, prefixb_app in H. discriminate H.
Qed.

Lemma starts_directive_app_false s t : starts_directive (s ++ t) = false -> starts_directive s = false.
Proof.
  unfold starts_directive. intro H. destruct (existsb (fun kw => prefixb kw s) directive_words) eqn:E; [|reflexivity].
  apply existsb_exists in E as (kw & I & P). apply prefixb_spec in P as (u & ->).
  assert (X : existsb (fun kw0 => prefixb kw0 ((kw ++ u) ++ t)) directive_words = true).
  { apply existsb_exists. exists kw. split; [exact I|]. rewrite <- app_assoc. apply prefixb_app. }
  rewrite X in H. discriminate H.
Qed.

(* the loop of readHTML reads the run and removes the backslashes of its escapes *)
Lemma readHTML_exact : forall n s, (List.length s <= n)%nat -> forall l fol out,
  rest l = s ++ fol -> forallb okb (s ++ fol) = true -> isHTML l = true ->
  text_scan 0 s fol = true -> text_end fol = true -> (last s (prevChar l) =? 92) = false ->
  readHTML_loop (s ++ fol) l out = (readN (List.length s) l, rev (unesc s) ++ out).
Proof.
  induction n as [|n IH]; intros s Hn l fol out Hr Hok Hh Hs He Hv.
  { destruct s; [|cbn in Hn; lia]. clear Hn.
    cbn [app List.length readN rev unesc last] in *. destruct fol as [|c fol]; [reflexivity|].
    cbn [readHTML_loop]. rewrite Hh. cbn [negb orb].
    assert (Ec : cur l = c) by (unfold cur; rewrite Hr; reflexivity). rewrite Ec.
    destruct (okb_hd _ _ Hok) as (C0 & _). apply N.eqb_neq in C0. rewrite C0.
    cbn [text_end] in He. apply orb_true_iff in He as [E|E].
    + rewrite (areBraces_here l _ Hv Hr E). destruct (isDirectiveToken l) as [a b]. reflexivity.
    + rewrite (isDirectiveToken_found l) by (rewrite Hr; exact E). rewrite Hv.
      destruct (areBracesToken l) as [a b]. rewrite orb_true_r. reflexivity. }
  destruct s as [|c s'].
  { apply (IH [] ltac:(cbn; lia) l fol out Hr Hok Hh Hs He Hv). }
  cbn [List.length] in Hn.
  cbn [app] in Hr, Hok. destruct (okb_hd _ _ Hok) as (C0 & Hok'). apply N.eqb_neq in C0.
  assert (Hr1 : rest (readChar l) = s' ++ fol) by (cbn [readChar rest]; rewrite Hr; reflexivity).
  assert (Pv : prevChar (readChar l) = c) by (unfold prevChar, cur; cbn [readChar lpos lprev Nat.eqb]; unfold cur; rewrite Hr; reflexivity).
  cbn [text_scan] in Hs.
  destruct (c =? 92) eqn:E92.
  - apply N.eqb_eq in E92. subst c.
    destruct (backslash_not_special (s' ++ fol)) as [B1 B2].
    cbn [app List.length readN].
    rewrite (readHTML_loop_step 92 (s' ++ fol) l out Hr Hh eq_refl B1 B2).
    set (l1 := readChar l) in *.
    destruct (prefixb [123; 123] (s' ++ fol)) eqn:Eb.
    + (* \{{ : the backslash goes, both braces are text *)
      apply andb_true_iff in Hs as [Pb Hs]. apply prefixb_spec in Pb as (s2 & ->).
      cbn [app] in Hr1, Hok', Hs, Hv, Hn |- *. cbn [text_scan] in Hs.
      cbn [unesc]. change (92 =? 92) with true. replace (prefixb [123; 123] (123 :: 123 :: s2)) with true by reflexivity. cbn [andb orb]. cbv match.
      cbn [unesc]. change (123 =? 92) with false. cbn [andb]. cbv match.
      cbn [List.length readN]. fold l1.
      cbn [readHTML_loop]. change (isHTML l1) with (isHTML l). rewrite Hh. cbn [negb orb].
      assert (Hc1 : cur l1 = 123) by (unfold cur; rewrite Hr1; reflexivity).
      assert (Hp1 : peekChar l1 = 123) by (unfold peekChar; rewrite Hr1; reflexivity).
      rewrite Hc1. change (123 =? 0) with false. cbv match.
      unfold isDirectiveToken. rewrite Hc1. change (negb (123 =? 64)) with true. cbv match.
      unfold areBracesToken. rewrite Hc1, Hp1, Pv. cbn [N.eqb Pos.eqb andb negb orb]. cbv match. cbn [tl].
      set (l2 := readChar l1).
      assert (Hr2 : rest l2 = 123 :: s2 ++ fol) by (unfold l2; cbn [readChar rest]; rewrite Hr1; reflexivity).
      assert (Hc2 : cur l2 = 123) by (unfold cur; rewrite Hr2; reflexivity).
      rewrite Hc2.
      assert (Hr3 : rest (readChar l2) = s2 ++ fol) by (cbn [readChar rest]; rewrite Hr2; reflexivity).
      assert (Pv3 : prevChar (readChar l2) = 123) by (unfold prevChar; cbn [readChar lpos lprev Nat.eqb]; exact Hc2).
      destruct (okb_hd _ _ Hok') as (_ & Hok2). destruct (okb_hd _ _ Hok2) as (_ & Hok3).
      assert (Hv3 : (last s2 (prevChar (readChar l2)) =? 92) = false).
      { rewrite Pv3. destruct s2 as [|x s2']; [reflexivity|]. rewrite !last_cons in Hv. rewrite last_cons. exact Hv. }
      rewrite (IH s2 ltac:(cbn [List.length] in Hn; lia) (readChar l2) fol (123 :: 123 :: out) Hr3 Hok3 Hh Hs He Hv3).
      cbn [rev]. rewrite <- !app_assoc. reflexivity.
    + destruct (starts_directive (s' ++ fol)) eqn:Ed.
      * (* \@directive : the backslash goes, the keyword is text *)
        apply andb_true_iff in Hs as [Pd Hs]. destruct (starts_directive_at s' Pd) as (s3 & ->).
        cbn [app] in Hr1, Hok', Hs, Hv, Hn |- *. cbn [text_scan] in Hs.
        cbn [unesc]. change (92 =? 92) with true. rewrite Pd. rewrite orb_true_r. cbn [andb]. cbv match.
        change (64 =? 92) with false. cbn [andb]. cbv match.
        cbn [List.length readN]. fold l1.
        cbn [readHTML_loop]. change (isHTML l1) with (isHTML l). rewrite Hh. cbn [negb orb].
        assert (Hc1 : cur l1 = 64) by (unfold cur; rewrite Hr1; reflexivity).
        rewrite Hc1. change (64 =? 0) with false. cbv match.
        rewrite (isDirectiveToken_found l1) by (rewrite Hr1; exact Ed). rewrite Pv. change (92 =? 92) with true. cbv match.
        unfold areBracesToken. rewrite Hc1. change (64 =? 123) with false. cbn [andb orb]. rewrite andb_false_r. cbv match. cbn [tl].
        assert (Hr3 : rest (readChar l1) = s3 ++ fol) by (cbn [readChar rest]; rewrite Hr1; reflexivity).
        assert (Pv3 : prevChar (readChar l1) = 64) by (unfold prevChar; cbn [readChar lpos lprev Nat.eqb]; exact Hc1).
        destruct (okb_hd _ _ Hok') as (_ & Hok3).
        assert (Hv3 : (last s3 (prevChar (readChar l1)) =? 92) = false).
        { rewrite Pv3. destruct s3 as [|x s3']; [reflexivity|]. rewrite !last_cons in Hv. rewrite last_cons. exact Hv. }
        rewrite (IH s3 ltac:(cbn [List.length] in Hn; lia) (readChar l1) fol (64 :: out) Hr3 Hok3 Hh Hs He Hv3).
        cbn [rev]. rewrite <- !app_assoc. reflexivity.
      * (* a backslash that escapes nothing *)
        cbn [unesc]. change (92 =? 92) with true.
        rewrite (prefixb_app_false _ _ _ Eb), (starts_directive_app_false _ _ Ed). cbn [andb orb]. cbv match.
        assert (Hv1 : (last s' (prevChar l1) =? 92) = false) by (rewrite Pv; rewrite last_cons in Hv; exact Hv).
        rewrite (IH s' ltac:(lia) l1 fol (92 :: out) Hr1 Hok' Hh Hs He Hv1).
        cbn [rev]. rewrite <- app_assoc. reflexivity.
  - apply andb_true_iff in Hs as [Hs1 Hs]. apply andb_true_iff in Hs1 as [Hd Hb]. apply negb_true_iff in Hd, Hb.
    cbn [app List.length readN].
    rewrite (readHTML_loop_step c (s' ++ fol) l out Hr Hh C0 Hb Hd).
    cbn [unesc]. rewrite E92. cbn [andb]. cbv match.
    assert (Hv1 : (last s' (prevChar (readChar l)) =? 92) = false) by (rewrite Pv; rewrite last_cons in Hv; exact Hv).
    rewrite (IH s' ltac:(lia) (readChar l) fol (c :: out) Hr1 Hok' Hh Hs He Hv1).
    cbn [rev]. rewrite <- app_assoc. reflexivity.
Qed.

(* ---- tokens of code *)
Lemma fixed_item w l p m fol ty lit :
  St l p m (w ++ fol) -> w <> [] -> last w 1 <> 92 -> tok_eqb ty T_EOF = false ->
  fixedToken l (List.length w) ty lit = (tokAt input ty lit p (p + List.length w - 1), readN (List.length w) (tokenBegins l)) /\
  St (readN (List.length w) (tokenBegins l)) (p + List.length w) m fol.
Proof.
  intros H Hw Hl Ht. destruct (token_after w l p m fol ty lit H Hw Hl Ht) as [T1 T2].
  unfold fixedToken. cbv zeta. rewrite T1. split; [reflexivity|exact T2].
Qed.

Lemma simple_go_none c : forall tbl : list (N * tok),
  forallb (fun e => negb (idc (fst e)) && negb (fst e =? 34) && negb (fst e =? 39)) tbl = true ->
  idc c = true \/ c = 34 \/ c = 39 ->
  (fix go (m : list (N * tok)) := match m with [] => None | (k, t) :: m' => if c =? k then Some t else go m' end) tbl = None.
Proof.
  induction tbl as [|[k t] tbl IH]; intros F Hc; [reflexivity|].
  cbn [forallb fst] in F. apply andb_true_iff in F as [Fk F]. apply andb_true_iff in Fk as [Fk F39].
  apply andb_true_iff in Fk as [Fk F34]. apply negb_true_iff in Fk, F34, F39.
  destruct (c =? k) eqn:E; [|exact (IH F Hc)].
  apply N.eqb_eq in E. subst k. destruct Hc as [Hc|[->| ->]]; [congruence|discriminate F34|discriminate F39].
Qed.

Lemma simpleLookup_none c : idc c = true \/ c = 34 \/ c = 39 -> simpleLookup c = None.
Proof. intro H. unfold simpleLookup. apply simple_go_none; [vm_compute; reflexivity|exact H]. Qed.

Lemma idc_not c k : idc c = true -> idc k = false -> (c =? k) = false.
Proof. intros H1 H2. destruct (c =? k) eqn:E; [|reflexivity]. apply N.eqb_eq in E. subst k. congruence. Qed.

Lemma isNumber_not_ident c : isNumber c = true -> isIdent c = false.
Proof.
  unfold isNumber, isIdent. intro H. apply andb_true_iff in H as [H1 H2]. apply N.leb_le in H1, H2.
  destruct (97 <=? c) eqn:A; [apply N.leb_le in A; lia|]. destruct (65 <=? c) eqn:B; [apply N.leb_le in B; lia|].
  destruct (c =? 95) eqn:C; [apply N.eqb_eq in C; lia|]. reflexivity.
Qed.

Lemma idc_not_ws c : idc c = true -> isWs c = false.
Proof.
  intro H. unfold isWs. rewrite !(idc_not c _ H) by reflexivity. reflexivity.
Qed.

Ltac lits :=
  repeat match goal with
  | |- context [N.eqb ?a ?b] =>
    let v := eval vm_compute in (N.eqb a b) in
    match v with
    | true => change (N.eqb a b) with true
    | false => change (N.eqb a b) with false
    end
  | |- context [simpleLookup ?c] =>
    let v := eval vm_compute in (simpleLookup c) in
    match v with
    | None => change (simpleLookup c) with (@None tok)
    | Some ?t => change (simpleLookup c) with (Some t)
    end
  end.

Lemma readN_snoc k : forall l, readN (S k) l = readChar (readN k l).
Proof. induction k as [|k IH]; intro l; [reflexivity|]. change (readN (S (S k)) l) with (readN (S k) (readChar l)). rewrite IH. reflexivity. Qed.

Lemma removelast_snoc {A} (l : list A) x : removelast (l ++ [x]) = l.
Proof. rewrite removelast_app by discriminate. cbn. apply app_nil_r. Qed.

(* the spelling of a string *)
Lemma str_ok_shape s : str_ok s = true ->
  exists q body, s = q :: body ++ [q] /\ (q = 34 \/ q = 39) /\ body_ok q body = true /\
                 lit_of T_STR s = replace_all [92; q] [q] body.
Proof.
  destruct s as [|q t]; [discriminate|]. cbn [str_ok]. intro H.
  apply andb_true_iff in H as [H Hb]. apply andb_true_iff in H as [Hq Ht]. apply bytes_eqb_eq in Ht.
  exists q, (removelast t). split; [rewrite <- Ht; reflexivity|]. split.
  - apply orb_true_iff in Hq as [E|E]; apply N.eqb_eq in E; auto.
  - split; [exact Hb|]. unfold lit_of. change (tok_eqb T_STR T_STR) with true. cbv match. reflexivity.
Qed.

Lemma last_snoc {A} (w : list A) x d : last (w ++ [x]) d = x.
Proof. apply last_last. Qed.

Lemma string_item l p m s fol :
  St l p m (s ++ fol) -> str_ok s = true ->
  exists l', readString l = (lit_of T_STR s, true, l') /\ St l' (p + List.length s) m fol /\
             newToken l' T_STR (lit_of T_STR s) = tokAt input T_STR (lit_of T_STR s) p (p + List.length s - 1).
Proof.
  intros H Hs. destruct (str_ok_shape s Hs) as (q & body & Es & Hq & Hb & Hl). rewrite Hl. subst s.
  assert (Hne : q :: body ++ [q] <> []) by discriminate.
  assert (Hlast : last (q :: body ++ [q]) 1 <> 92).
  { rewrite last_cons, last_snoc. destruct Hq as [-> | ->]; discriminate. }
  destruct (token_after (q :: body ++ [q]) l p m fol T_STR (replace_all [92; q] [q] body) H Hne Hlast eq_refl) as [T1 T2].
  cbv zeta in T1, T2.
  exists (readN (List.length (q :: body ++ [q])) (tokenBegins l)). split; [|split; [exact T2|exact T1]].
  cbn [List.length]. rewrite app_length. cbn [List.length]. rewrite Nat.add_1_r.
  change (readN (S (S (List.length body))) (tokenBegins l)) with (readN (S (List.length body)) (readChar (tokenBegins l))).
  rewrite readN_snoc.
  unfold readString. cbv zeta.
  assert (Hr : rest l = q :: body ++ q :: fol).
  { destruct H as (R & _). rewrite R. cbn [app]. rewrite <- app_assoc. reflexivity. }
  assert (Hc : cur l = q) by (unfold cur; rewrite Hr; reflexivity). rewrite Hc.
  set (l0 := readChar (tokenBegins l)).
  assert (R0 : rest l0 = body ++ q :: fol) by (unfold l0; cbn [readChar tokenBegins rest]; rewrite Hr; reflexivity).
  assert (Hok0 : forallb okb body = true).
  { destruct H as (_ & Ok & _). cbn [app] in Ok. destruct (okb_hd _ _ Ok) as (_ & Ok'). rewrite <- app_assoc in Ok'.
    rewrite forallb_app in Ok'. apply andb_true_iff in Ok' as [Ok' _]. exact Ok'. }
  destruct body as [|c body'].
  - cbn [app] in *. assert (C0 : cur l0 = q) by (unfold cur; rewrite R0; reflexivity). rewrite C0, N.eqb_refl. reflexivity.
  - assert (C0 : cur l0 = c) by (unfold cur; rewrite R0; reflexivity). rewrite C0.
    cbn [body_ok] in Hb. apply andb_true_iff in Hb as [Hcq Hb']. apply negb_true_iff in Hcq. rewrite Hcq.
    rewrite R0. cbn [app] in R0 |- *.
    rewrite (readString_exact body' c l0 q fol [] R0 Hok0 Hb').
    rewrite app_nil_r, rev_involutive.
    assert (C1 : cur (readN (S (List.length body')) l0) = q).
    { unfold cur. change (S (List.length body')) with (List.length (c :: body')).
      rewrite (rest_readN (c :: body') l0 (q :: fol) R0). reflexivity. }
    cbn [List.length]. rewrite C1, N.eqb_refl. reflexivity.
Qed.

(* ---- one call of NextToken in code mode, no space in front *)
Lemma simple_table_facts :
  forallb (fun e => negb (fst e =? 123) && negb (fst e =? 125) && negb (fst e =? 0) && negb (isWs (fst e)) &&
                    negb (tok_eqb (snd e) T_EOF) && negb (fst e =? 92)) simple_tokens = true.
Proof. vm_compute. reflexivity. Qed.

Lemma simpleLookup_in c t : simpleLookup c = Some t -> In (c, t) simple_tokens.
Proof.
  unfold simpleLookup. induction simple_tokens as [|[k t'] tbl IH]; [discriminate|].
  destruct (c =? k) eqn:E; [|intro H; right; exact (IH H)].
  intros [= <-]. apply N.eqb_eq in E. subst k. left. reflexivity.
Qed.

Ltac simp := cbn [andb orb negb]; cbv match.

Ltac enter H Hh Esk :=
  cbn [nextToken]; rewrite Hh; cbv match; rewrite Esk; cbv zeta; cbn [app] in H;
  rewrite (St_cur _ _ _ _ _ H), ?(St_peek _ _ _ _ _ H); lits; simp; rewrite ?Hh; simp.

Ltac embedded H :=
  unfold embeddedCodeToken; rewrite (St_cur _ _ _ _ _ H), ?(St_peek _ _ _ _ _ H); lits; simp.

Ltac finish_fixed H Hm :=
  let F1 := fresh "F1" in let F2 := fresh "F2" in
  match goal with |- exists l', Some (fixedToken ?l0 _ ?ty ?lit) = _ /\ St _ _ _ ?fol =>
    change (lit_of ty lit) with lit;
    destruct (fixed_item lit l0 _ _ fol ty lit H ltac:(discriminate) ltac:(cbn; discriminate) eq_refl) as [F1 F2];
    cbn [List.length] in F1, F2; cbn [List.length]; rewrite F1; eexists; split; [reflexivity|];
    cbn [next_md]; rewrite ?Hm; exact F2
  end.

Lemma simple_item f l p m c ty fol :
  St l p m ([c] ++ fol) -> mh m = false -> simpleLookup c = Some ty ->
  exists l', nextToken (S f) l = Some (tokAt input ty [c] p p, l') /\ St l' (p + 1) m fol.
Proof.
  intros H Hm E.
  assert (Hh : isHTML l = false) by (destruct H as (_&_&_&_&_&Hh&_); rewrite Hh; exact Hm).
  pose proof simple_table_facts as F. rewrite forallb_forall in F. specialize (F _ (simpleLookup_in c ty E)). cbn [fst snd] in F.
  apply andb_true_iff in F as [F F6]. apply andb_true_iff in F as [F F5]. apply andb_true_iff in F as [F F4]. apply andb_true_iff in F as [F F3].
  apply andb_true_iff in F as [F1 F2]. apply negb_true_iff in F1, F2, F3, F4, F5, F6.
  assert (Esk : skipWhitespace l = l) by (apply (skipWhitespace_nogap l p m _ H); exact F4).
  cbn [nextToken]. rewrite Hh. cbv match. rewrite Esk. cbv zeta. cbn [app] in H.
  rewrite (St_cur _ _ _ _ _ H). rewrite F1, F2, F3. simp. rewrite Hh. simp.
  unfold embeddedCodeToken. rewrite (St_cur _ _ _ _ _ H), E.
  destruct (fixed_item [c] l p m fol ty [c] H ltac:(discriminate) ltac:(cbn [last]; apply N.eqb_neq; exact F6) F5) as [G1 G2]. cbn [List.length] in G1, G2.
  rewrite G1. eexists. split; [f_equal; f_equal; f_equal; lia|exact G2].
Qed.

Lemma word_item f l p m s fol :
  St l p m (s ++ fol) -> mh m = false -> word_ok s fol = true ->
  exists l', nextToken (S f) l = Some (tokAt input (lookupIdent s) s p (p + List.length s - 1), l') /\
             St l' (p + List.length s) m fol.
Proof.
  intros H Hm Hw. unfold word_ok in Hw. apply andb_true_iff in Hw as [Hw Hf]. apply andb_true_iff in Hw as [Hi Hall].
  apply negb_true_iff in Hf.
  destruct s as [|c s']; [discriminate Hi|]. cbn [hd] in Hi.
  assert (Hc : idc c = true) by (unfold idc; rewrite Hi; reflexivity).
  assert (Hh : isHTML l = false) by (destruct H as (_&_&_&_&_&Hh&_); rewrite Hh; exact Hm).
  assert (Esk : skipWhitespace l = l) by (apply (skipWhitespace_nogap l p m _ H); exact (idc_not_ws c Hc)).
  cbn [nextToken]. rewrite Hh. cbv match. rewrite Esk. cbv zeta.
  assert (Ec : cur l = c) by (cbn [app] in H; exact (St_cur _ _ _ _ _ H)).
  rewrite Ec. rewrite !(idc_not c _ Hc) by reflexivity. simp. rewrite Hh. simp.
  unfold embeddedCodeToken. rewrite Ec, (simpleLookup_none c (or_introl Hc)).
  rewrite !(idc_not c _ Hc) by reflexivity. simp. rewrite Hi.
  unfold readIdentifier. cbv zeta. change (rest (tokenBegins l)) with (rest l).
  assert (Hr : rest l = (c :: s') ++ fol) by apply H. rewrite Hr.
  rewrite (readIdent_exact (c :: s') (tokenBegins l) fol [] Hr Hall Hf). rewrite app_nil_r, rev_involutive.
  assert (Hlast : last (c :: s') 1 <> 92).
  { apply no92_last. revert Hall. apply forallb_imp. intros x Hx. rewrite (idc_not x 92 Hx eq_refl). reflexivity. }
  destruct (token_after (c :: s') l p m fol (lookupIdent (c :: s')) (c :: s') H ltac:(discriminate) Hlast
              (lookupIdent_not_eof _)) as [T1 T2].
  cbv zeta in T1, T2. rewrite T1. eexists. split; [reflexivity|exact T2].
Qed.

Lemma num_scan_no92 w fol : num_scan w fol = true -> forallb (fun c => negb (c =? 92)) w = true.
Proof.
  induction w as [|c w IH]; [reflexivity|]. cbn [num_scan forallb]. intro H. apply andb_true_iff in H as [Hc Hw].
  rewrite (IH Hw), andb_true_r. destruct (c =? 92) eqn:E; [|reflexivity]. apply N.eqb_eq in E. subst c. discriminate Hc.
Qed.

Lemma number_item f l p m s fol :
  St l p m (s ++ fol) -> mh m = false -> num_ok s fol = true ->
  exists l', nextToken (S f) l = Some (tokAt input (if nodots s then T_INT else T_FLOAT) s p (p + List.length s - 1), l') /\
             St l' (p + List.length s) m fol.
Proof.
  intros H Hm Hw. unfold num_ok in Hw. apply andb_true_iff in Hw as [Hi Hs].
  destruct s as [|c s']; [discriminate Hi|]. cbn [hd] in Hi.
  assert (Hc : idc c = true) by (unfold idc; rewrite Hi; apply orb_true_r).
  assert (Hh : isHTML l = false) by (destruct H as (_&_&_&_&_&Hh&_); rewrite Hh; exact Hm).
  assert (Esk : skipWhitespace l = l) by (apply (skipWhitespace_nogap l p m _ H); exact (idc_not_ws c Hc)).
  cbn [nextToken]. rewrite Hh. cbv match. rewrite Esk. cbv zeta.
  assert (Ec : cur l = c) by (cbn [app] in H; exact (St_cur _ _ _ _ _ H)).
  rewrite Ec. rewrite !(idc_not c _ Hc) by reflexivity. simp. rewrite Hh. simp.
  unfold embeddedCodeToken. rewrite Ec, (simpleLookup_none c (or_introl Hc)).
  rewrite !(idc_not c _ Hc) by reflexivity. simp. rewrite (isNumber_not_ident c Hi), Hi.
  unfold readNumber. cbv zeta. change (rest (tokenBegins l)) with (rest l).
  assert (Hr : rest l = (c :: s') ++ fol) by apply H. rewrite Hr.
  rewrite (readNumber_exact (c :: s') (tokenBegins l) fol [] true Hr Hs). rewrite app_nil_r, rev_involutive.
  cbn [andb].
  assert (Heof : tok_eqb (if nodots (c :: s') then T_INT else T_FLOAT) T_EOF = false) by (destruct (nodots (c :: s')); reflexivity).
  assert (Hlast : last (c :: s') 1 <> 92) by (apply no92_last; exact (num_scan_no92 _ _ Hs)).
  destruct (token_after (c :: s') l p m fol _ (c :: s') H ltac:(discriminate) Hlast Heof) as [T1 T2].
  cbv zeta in T1, T2. rewrite T1. eexists. split; [reflexivity|exact T2].
Qed.

Lemma str_item f l p m s fol :
  St l p m (s ++ fol) -> mh m = false -> str_ok s = true ->
  exists l', nextToken (S f) l = Some (tokAt input T_STR (lit_of T_STR s) p (p + List.length s - 1), l') /\
             St l' (p + List.length s) m fol.
Proof.
  intros H Hm Hs.
  destruct (string_item l p m s fol H Hs) as (l' & E & S' & T').
  destruct (str_ok_shape s Hs) as (q & body & Es & Hq & _ & _).
  assert (Hh : isHTML l = false) by (destruct H as (_&_&_&_&_&Hh&_); rewrite Hh; exact Hm).
  assert (Ec : cur l = q) by (rewrite Es in H; cbn [app] in H; exact (St_cur _ _ _ _ _ H)).
  assert (Esk : skipWhitespace l = l).
  { apply (skipWhitespace_nogap l p m _ H). rewrite Es. cbn [app hd]. destruct Hq as [-> | ->]; reflexivity. }
  exists l'. split; [|exact S'].
  cbn [nextToken]. rewrite Hh. cbv match. rewrite Esk. cbv zeta. rewrite Ec.
  destruct Hq as [-> | ->]; lits; simp; rewrite Hh; simp; unfold embeddedCodeToken; rewrite Ec; lits; simp;
    rewrite E; cbv match; rewrite T'; reflexivity.
Qed.

Lemma simpleLookup_not_html c : simpleLookup c <> Some T_HTML.
Proof.
  intro E. apply simpleLookup_in in E.
  assert (A : forallb (fun kt : N * tok => negb (tok_eqb (snd kt) T_HTML)) simple_tokens = true) by (vm_compute; reflexivity).
  rewrite forallb_forall in A. specialize (A _ E). discriminate A.
Qed.

Lemma code_item f l p m ty s fol :
  St l p m (s ++ fol) -> mh m = false -> code_ok m ty s fol = true -> tok_eqb ty T_LBRACES = false ->
  exists l', nextToken (S f) l = Some (tokAt input ty (lit_of ty s) p (p + List.length s - 1), l') /\
             St l' (p + List.length s) (next_md m ty fol) fol.
Proof.
  intros H Hm Hok Hnb.
  assert (Hh : isHTML l = false) by (destruct H as (_&_&_&_&_&Hh&_); rewrite Hh; exact Hm).
  assert (Hb : braceCount l = mb m) by apply H.
  assert (Hd : isDirective l = mdir m) by apply H.
  assert (Hp : parenCount l = mp m) by apply H.
  destruct ty; try discriminate Hnb; cbn [code_ok] in Hok.
  (* two bytes, no condition *)
  all: try (match type of Hok with is2 _ _ _ = true => idtac end;
            apply bytes_eqb_eq in Hok; subst s;
            assert (Esk : skipWhitespace l = l) by (apply (skipWhitespace_nogap l p m _ H); reflexivity);
            enter H Hh Esk; embedded H; cbn [hd]; lits; simp; finish_fixed H Hm).
  (* one byte, a condition on the next *)
  all: try (match type of Hok with is1 _ _ && negb (nxt _ _) = true => idtac end;
            apply andb_true_iff in Hok as [Hs Hn]; apply bytes_eqb_eq in Hs; subst s; apply negb_true_iff in Hn; unfold nxt in Hn;
            assert (Esk : skipWhitespace l = l) by (apply (skipWhitespace_nogap l p m _ H); reflexivity);
            enter H Hh Esk; rewrite ?Hn; simp; embedded H; rewrite ?Hn; simp; finish_fixed H Hm).
  (* words *)
  all: try (match type of Hok with word_ok _ _ && _ = true => idtac end;
            apply andb_true_iff in Hok as [Hw Ht]; apply ParseTotal.tok_eqb_eq in Ht;
            destruct (word_item f l p m s fol H Hm Hw) as (l' & E & S'); rewrite Ht in E;
            exists l'; split; [exact E|cbn [next_md]; rewrite Hm; exact S']).
  (* numbers *)
  all: try (match type of Hok with num_ok _ _ && _ = true => idtac end;
            apply andb_true_iff in Hok as [Hw Ht]; try apply negb_true_iff in Ht;
            destruct (number_item f l p m s fol H Hm Hw) as (l' & E & S'); rewrite Ht in E;
            exists l'; split; [exact E|cbn [next_md]; rewrite Hm; exact S']).
  (* strings *)
  all: try (match type of Hok with str_ok _ = true => idtac end;
            destruct (str_item f l p m s fol H Hm Hok) as (l' & E & S');
            exists l'; split; [exact E|cbn [next_md]; rewrite Hm; exact S']).
  (* text is not a token of code *)
  all: try (match goal with |- context [lit_of T_HTML] => idtac end; exfalso;
            destruct s as [|c [|c2 s2]]; try discriminate Hok;
            destruct (simpleLookup c) as [t|] eqn:E; try discriminate Hok;
            apply ParseTotal.tok_eqb_eq in Hok; subst t; exact (simpleLookup_not_html c E)).
  (* one-byte tokens of the table *)
  all: try (destruct s as [|c [|c2 s2]]; try discriminate Hok;
            destruct (simpleLookup c) as [t|] eqn:E; try discriminate Hok;
            apply ParseTotal.tok_eqb_eq in Hok; subst t;
            destruct (simple_item f l p m c _ fol H Hm E) as (l' & E' & S');
            exists l'; cbn [List.length]; split;
            [rewrite E'; match goal with |- context [lit_of ?ty ?x] => change (lit_of ty x) with x end;
             f_equal; f_equal; f_equal; lia
            |cbn [next_md]; rewrite ?Hm; exact S']).
  - (* }} *)
    apply andb_true_iff in Hok as [Hs Hz]. apply bytes_eqb_eq in Hs. subst s.
    assert (Esk : skipWhitespace l = l) by (apply (skipWhitespace_nogap l p m _ H); reflexivity).
    enter H Hh Esk. cbn [hd]. lits. rewrite Hb, Hz. simp.
    unfold bracesToken. change (tok_eqb T_RBRACES T_LBRACES) with false. cbn [negb].
    pose proof (St_modes l p m _ true (isDirective l) H) as H2.
    match goal with |- exists l', Some (fixedToken ?l0 _ ?ty ?lit) = _ /\ _ =>
      destruct (fixed_item lit l0 _ _ fol ty lit H2 ltac:(discriminate) ltac:(cbn; discriminate) eq_refl) as [F1 F2] end.
    cbn [List.length] in *. rewrite F1. eexists. split; [reflexivity|]. cbn [next_md]. rewrite <- Hd. exact F2.
  - (* { *)
    apply andb_true_iff in Hok as [Hs Hn]. apply bytes_eqb_eq in Hs. subst s. apply negb_true_iff in Hn. unfold nxt in Hn.
    assert (Esk : skipWhitespace l = l) by (apply (skipWhitespace_nogap l p m _ H); reflexivity).
    enter H Hh Esk. rewrite ?Hn. simp. embedded H.
    pose proof (St_counts l p m _ (parenCount l) (braceCount l + 1)%Z H) as H2.
    match goal with |- exists l', Some (fixedToken ?l0 _ ?ty ?lit) = _ /\ _ =>
      destruct (fixed_item lit l0 _ _ fol ty lit H2 ltac:(discriminate) ltac:(cbn; discriminate) eq_refl) as [F1 F2] end.
    cbn [List.length] in *. rewrite F1. eexists. split; [reflexivity|]. cbn [next_md]. rewrite <- Hb, <- Hp at 1.
    rewrite Hm in F2. rewrite Hm. exact F2.
  - (* } *)
    apply andb_true_iff in Hok as [Hs Hn]. apply bytes_eqb_eq in Hs. subst s. apply negb_true_iff in Hn. unfold nxt in Hn.
    assert (Esk : skipWhitespace l = l) by (apply (skipWhitespace_nogap l p m _ H); reflexivity).
    enter H Hh Esk. rewrite Hb.
    assert (X : (hd 0 fol =? 125) && (mb m =? 0)%Z = false) by (rewrite andb_comm; exact Hn). rewrite X.
    embedded H.
    pose proof (St_counts l p m _ (parenCount l) (braceCount l - 1)%Z H) as H2.
    match goal with |- exists l', Some (fixedToken ?l0 _ ?ty ?lit) = _ /\ _ =>
      destruct (fixed_item lit l0 _ _ fol ty lit H2 ltac:(discriminate) ltac:(cbn; discriminate) eq_refl) as [F1 F2] end.
    cbn [List.length] in *. rewrite F1. eexists. split; [reflexivity|]. cbn [next_md]. rewrite <- Hb, <- Hp at 1.
    rewrite Hm in F2. rewrite Hm. exact F2.
  - (* ( *)
    apply bytes_eqb_eq in Hok. subst s.
    assert (Esk : skipWhitespace l = l) by (apply (skipWhitespace_nogap l p m _ H); reflexivity).
    enter H Hh Esk. embedded H. rewrite Hd. cbn [next_md].
    destruct (mdir m) eqn:Edir.
    + pose proof (St_counts l p m _ (parenCount l + 1)%Z (braceCount l) H) as H2.
      match goal with |- exists l', Some (fixedToken ?l0 _ ?ty ?lit) = _ /\ _ =>
        destruct (fixed_item lit l0 _ _ fol ty lit H2 ltac:(discriminate) ltac:(cbn; discriminate) eq_refl) as [F1 F2] end.
      cbn [List.length] in *. rewrite F1. eexists. split; [reflexivity|]. rewrite <- Hb, <- Hp.
      rewrite Hm, Edir in F2. rewrite Hm. exact F2.
    + match goal with |- exists l', Some (fixedToken ?l0 _ ?ty ?lit) = _ /\ _ =>
        destruct (fixed_item lit l0 _ _ fol ty lit H ltac:(discriminate) ltac:(cbn; discriminate) eq_refl) as [F1 F2] end.
      cbn [List.length] in *. rewrite F1. eexists. split; [reflexivity|exact F2].
  - (* ) *)
    apply bytes_eqb_eq in Hok. subst s.
    assert (Esk : skipWhitespace l = l) by (apply (skipWhitespace_nogap l p m _ H); reflexivity).
    enter H Hh Esk. embedded H. rewrite Hd. cbn [next_md].
    destruct (mdir m) eqn:Edir.
    + cbn [setCounts isDirective parenCount]. rewrite Hd, Hp. cbn [andb].
      pose proof (St_counts l p m _ (mp m - 1)%Z (braceCount l) H) as H2.
      destruct (mp m - 1 =? 0)%Z eqn:Ez.
      * pose proof (St_modes _ p _ _ true false H2) as H3. cbn [mp mb] in H3.
        match goal with |- exists l', Some (fixedToken ?l0 _ ?ty ?lit) = _ /\ _ =>
          destruct (fixed_item lit l0 _ _ fol ty lit H3 ltac:(discriminate) ltac:(cbn; discriminate) eq_refl) as [F1 F2] end.
        cbn [List.length] in *. rewrite F1. eexists. split; [reflexivity|]. rewrite <- Hb. exact F2.
      * match goal with |- exists l', Some (fixedToken ?l0 _ ?ty ?lit) = _ /\ _ =>
          destruct (fixed_item lit l0 _ _ fol ty lit H2 ltac:(discriminate) ltac:(cbn; discriminate) eq_refl) as [F1 F2] end.
        cbn [List.length] in *. rewrite F1. eexists. split; [reflexivity|]. rewrite <- Hb.
        rewrite Hm, Edir in F2. rewrite Hm. exact F2.
    + rewrite Hd. cbn [andb]. match goal with |- exists l', Some (fixedToken ?l0 _ ?ty ?lit) = _ /\ _ =>
        destruct (fixed_item lit l0 _ _ fol ty lit H ltac:(discriminate) ltac:(cbn; discriminate) eq_refl) as [F1 F2] end.
      cbn [List.length] in *. rewrite F1. eexists. split; [reflexivity|exact F2].
Qed.

(* ---- {{ in either mode *)
Lemma two_dashes_prefix r : prefixb [45; 45] r = (hd 0 r =? 45) && (hd 0 (tl r) =? 45).
Proof.
  destruct r as [|a [|b r]]; cbn [prefixb hd tl].
  - reflexivity.
  - rewrite (N.eqb_sym 45 a). rewrite andb_false_r. change (0 =? 45) with false. rewrite andb_false_r. reflexivity.
  - rewrite (N.eqb_sym 45 a), (N.eqb_sym 45 b), andb_true_r. reflexivity.
Qed.

Lemma lbraces_item f l p m fol :
  St l p m ([123; 123] ++ fol) -> prefixb [45; 45] fol = false ->
  exists l', nextToken (S f) l = Some (tokAt input T_LBRACES [123; 123] p (p + 1), l') /\
             St l' (p + 2) (mkMd false (mdir m) (mp m) (mb m)) fol.
Proof.
  intros H Hc.
  assert (Hd : isDirective l = mdir m) by apply H.
  assert (E1 : (if isHTML l then l else skipWhitespace l) = l).
  { destruct (isHTML l); [reflexivity|]. apply (skipWhitespace_nogap l p m _ H). reflexivity. }
  cbn [nextToken]. rewrite E1. cbv zeta. cbn [app] in H.
  rewrite (St_cur _ _ _ _ _ H), (St_peek _ _ _ _ _ H). cbn [hd]. lits. simp.
  unfold bracesToken. change (tok_eqb T_LBRACES T_LBRACES) with true. cbn [negb].
  pose proof (St_modes l p m _ false (isDirective l) H) as H2.
  destruct (fixed_item [123; 123] _ _ _ fol T_LBRACES [123; 123] H2 ltac:(discriminate) ltac:(cbn; discriminate) eq_refl) as [F1 F2].
  cbn [List.length] in F1, F2. rewrite F1.
  set (l2 := readN 2 (tokenBegins (setModes l false (isDirective l)))) in *.
  assert (C : (cur l2 =? 45) && (peekChar l2 =? 45) = false).
  { rewrite two_dashes_prefix in Hc. unfold cur, peekChar. destruct F2 as (R & _). rewrite R. exact Hc. }
  rewrite C. exists l2. split; [f_equal; f_equal; f_equal; lia|]. rewrite <- Hd. exact F2.
Qed.

Lemma text_item f l p m s fol :
  St l p m (s ++ fol) -> mh m = true -> text_ok s fol = true ->
  exists l', nextToken (S f) l = Some (tokAt input T_HTML (unesc s) p (p + List.length s - 1), l') /\
             St l' (p + List.length s) m fol.
Proof.
  intros H Hm Hok. unfold text_ok in Hok. apply andb_true_iff in Hok as [Hok H92]. apply andb_true_iff in Hok as [Hok He].
  apply andb_true_iff in Hok as [Hn Hs]. apply negb_true_iff in H92.
  destruct s as [|c s']; [discriminate Hn|].
  assert (Hh : isHTML l = true) by (destruct H as (_&_&_&_&_&Hh&_); rewrite Hh; exact Hm).
  assert (Hr : rest l = (c :: s') ++ fol) by apply H.
  assert (Hdb : starts_directive ((c :: s') ++ fol) = false /\ prefixb [123; 123] ((c :: s') ++ fol) = false).
  { pose proof Hs as Hs0. cbn [text_scan] in Hs0. destruct (c =? 92) eqn:E92.
    - apply N.eqb_eq in E92. subst c. destruct (backslash_not_special (s' ++ fol)) as [B1 B2]. split; assumption.
    - apply andb_true_iff in Hs0 as [Hs1 _]. apply andb_true_iff in Hs1 as [Hd Hb].
      apply negb_true_iff in Hd, Hb. split; assumption. }
  destruct Hdb as [Hd Hb].
  assert (C0 : (cur l =? 0) = false).
  { destruct H as (_ & Ok & _). cbn [app] in Ok. destruct (okb_hd _ _ Ok) as (X & _). unfold cur. rewrite Hr. apply N.eqb_neq. exact X. }
  assert (Cb : (cur l =? 123) && (peekChar l =? 123) = false).
  { rewrite two_braces_prefix in Hb. unfold cur, peekChar. rewrite Hr. exact Hb. }
  cbn [nextToken]. rewrite Hh. cbv match. cbv zeta. rewrite C0, Cb. simp. rewrite Hh. simp.
  rewrite (isDirectiveToken_none l) by (rewrite Hr; exact Hd). cbn [fst]. cbv match.
  unfold readHTML. cbv zeta. change (rest (tokenBegins l)) with (rest l). rewrite Hr.
  assert (Hok : forallb okb ((c :: s') ++ fol) = true) by apply H.
  rewrite (readHTML_exact _ (c :: s') (le_n _) (tokenBegins l) fol [] Hr Hok Hh Hs He
             ltac:(rewrite (last_default (c :: s') _ 0) by discriminate; exact H92)).
  rewrite app_nil_r, rev_involutive.
  assert (Hlast : last (c :: s') 1 <> 92).
  { rewrite (last_default (c :: s') _ 0) by discriminate. apply N.eqb_neq. exact H92. }
  destruct (token_after (c :: s') l p m fol T_HTML (unesc (c :: s')) H ltac:(discriminate) Hlast eq_refl) as [T1 T2].
  cbv zeta in T1, T2. rewrite T1. eexists. split; [reflexivity|exact T2].
Qed.

Lemma lookupDirective_value s : tok_eqb (lookupDirective s) T_ILLEGAL = false -> In (lookupDirective s) (map snd directives_b).
Proof.
  unfold lookupDirective. destruct (alookup s directives_b) as [t|] eqn:E; [|discriminate]. intros _.
  exact (alookup_value_in _ _ _ E).
Qed.

Lemma directive_step f l p m ty s fol :
  St l p m (s ++ fol) -> mh m = true -> directive_ok ty s fol = true ->
  exists l', nextToken (S f) l = Some (tokAt input ty s p (p + List.length s - 1), l') /\
             St l' (p + List.length s) (next_md m ty fol) fol.
Proof.
  intros H Hm Hok.
  destruct (directive_item l p m ty s fol H Hok) as (Hdir & l' & E & S').
  assert (Hh : isHTML l = true) by (destruct H as (_&_&_&_&_&Hh&_); rewrite Hh; exact Hm).
  unfold directive_ok in Hok. apply andb_true_iff in Hok as [Hok _]. apply andb_true_iff in Hok as [Hlk Hill].
  apply ParseTotal.tok_eqb_eq in Hlk. apply negb_true_iff in Hill.
  assert (Hl : tok_eqb (lookupDirective s) T_ILLEGAL = false) by (rewrite Hlk; exact Hill).
  pose proof (lookupDirective_value s Hl) as Hin. rewrite Hlk in Hin.
  destruct (keyword_at s (lookup_is_keyword s Hl)) as (s' & Es).
  assert (Ec : cur l = 64) by (rewrite Es in H; cbn [app] in H; exact (St_cur _ _ _ _ _ H)).
  exists l'. split.
  - cbn [nextToken]. rewrite Hh. cbv match. cbv zeta. rewrite Ec. lits. simp. rewrite Hh. simp. rewrite Hdir, E. reflexivity.
  - destruct ty; try (exfalso; vm_compute in Hin; intuition discriminate); cbn [next_md]; rewrite Hm; exact S'.
Qed.

(* ---- comments before an item of text mode *)
Lemma readN_add b : forall a l, readN a (readN b l) = readN (b + a) l.
Proof. induction b as [|b IH]; intros a l; [reflexivity|]. cbn [readN plus]. apply IH. Qed.

Lemma readN_setModes n : forall l a b, readN n (setModes l a b) = setModes (readN n l) a b.
Proof. induction n as [|n IH]; intros l a b; [reflexivity|]. cbn [readN]. rewrite <- IH. reflexivity. Qed.

Lemma find_term_app s : forall t k0 k, find_term s k0 = Some k -> find_term (s ++ t) k0 = Some k.
Proof.
  induction s as [|c s IH]; intros t k0 k; [discriminate|]. intro H. cbn [find_term] in H.
  change ((c :: s) ++ t) with (c :: (s ++ t)). cbn [find_term].
  destruct (prefixb [45; 45; 125; 125] (c :: s)) eqn:E.
  - injection H as <-.
    assert (E2 : prefixb [45; 45; 125; 125] (c :: s ++ t) = true).
    { apply prefixb_spec in E as (u & E). apply prefixb_spec. exists (u ++ t).
      change (c :: s ++ t) with ((c :: s) ++ t). rewrite E, <- app_assoc. reflexivity. }
    rewrite E2. reflexivity.
  - pose proof H as H0. apply IH with (t := t) in H.
    destruct (prefixb [45; 45; 125; 125] (c :: s ++ t)) eqn:E2; [|exact H].
    (* a terminator that needs bytes of t cannot start before one that lies inside s *)
    exfalso.
    assert (G : forall u a b, find_term u a = Some b -> exists j, (b = a + j)%nat /\ prefixb [45; 45; 125; 125] (skipn j u) = true).
    { induction u as [|y u IHu]; intros a b; cbn [find_term]; [discriminate|].
      destruct (prefixb [45; 45; 125; 125] (y :: u)) eqn:Ey.
      - intros [= <-]. exists O. split; [lia|exact Ey].
      - intro X. destruct (IHu _ _ X) as (j & -> & Pj). exists (S j). split; [lia|exact Pj]. }
    destruct (G _ _ _ H0) as (j & _ & Pj). apply prefixb_spec in Pj as (u & Pj).
    assert (L : (4 <= List.length s)%nat).
    { pose proof (f_equal (@List.length N) Pj) as L. rewrite skipn_length in L. cbn [List.length app] in L. lia. }
    destruct s as [|s1 [|s2 [|s3 s]]]; cbn [List.length] in L; try lia.
    cbn [prefixb app] in E, E2. rewrite E2 in E. discriminate E.
Qed.

Lemma no_nul_okb s : forall k, forallb okb s = true -> Comments.no_nul k s = true.
Proof.
  induction s as [|c s IH]; intros k H; destruct k; try reflexivity.
  cbn [Comments.no_nul]. destruct (okb_hd _ _ H) as (C0 & H'). apply N.eqb_neq in C0. rewrite C0. cbn [negb andb]. exact (IH k H').
Qed.

Lemma skipn_app_le {A} n (a b : list A) : (n <= List.length a)%nat -> skipn n (a ++ b) = skipn n a ++ b.
Proof. intro H. rewrite skipn_app. replace (n - List.length a)%nat with O by lia. reflexivity. Qed.

Lemma comment_step f l p m g r k :
  St l p m (g ++ r) -> mh m = true ->
  prefixb [123; 123; 45; 45] g = true -> find_term (skipn 2 g) 0 = Some k -> (2 + k + 4 <= List.length g)%nat ->
  exists l', nextToken (S f) l = nextToken f l' /\ St l' (p + (2 + k + 4)) m (skipn (2 + k + 4) g ++ r).
Proof.
  intros H Hm Hp Hf Hlen.
  assert (Hh : isHTML l = true) by (destruct H as (_&_&_&_&_&Hh&_); rewrite Hh; exact Hm).
  assert (Hr : rest l = g ++ r) by apply H.
  assert (Hok : forallb okb (g ++ r) = true) by apply H.
  apply prefixb_spec in Hp as (body & Hg).
  assert (Hf' : find_term (skipn 2 (rest l)) 0 = Some k).
  { rewrite Hr, skipn_app_le by lia. apply find_term_app. exact Hf. }
  cbn [nextToken]. rewrite Hh.
  assert (Hc : cur l = 123) by (unfold cur; rewrite Hr, Hg; reflexivity).
  assert (Hpk : peekChar l = 123) by (unfold peekChar; rewrite Hr, Hg; reflexivity).
  rewrite Hc, Hpk. change (123 =? 0) with false. change ((123 =? 123) && (123 =? 123)) with true. cbv iota.
  unfold bracesToken, fixedToken.
  set (l0 := setModes l (negb (tok_eqb T_LBRACES T_LBRACES)) (isDirective l)).
  set (l2 := readN 2 (tokenBegins l0)).
  assert (Hr2 : rest l2 = skipn 2 (rest l)) by (unfold l2; rewrite Comments.rest_readN; reflexivity).
  assert (Hr2' : rest l2 = 45 :: 45 :: body ++ r) by (rewrite Hr2, Hr, Hg; reflexivity).
  assert (Hc2 : cur l2 = 45) by (unfold cur; rewrite Hr2'; reflexivity).
  assert (Hp2 : peekChar l2 = 45) by (unfold peekChar; rewrite Hr2'; reflexivity).
  rewrite Hc2, Hp2. change ((45 =? 45) && (45 =? 45)) with true. cbv iota.
  unfold skipComment.
  assert (Hn : Comments.no_nul k (rest l2) = true).
  { apply no_nul_okb. rewrite Hr2, Hr. rewrite <- (firstn_skipn 2 (g ++ r)) in Hok. rewrite forallb_app in Hok.
    apply andb_true_iff in Hok as [_ Hok]. exact Hok. }
  destruct (Comments.skipComment_loop_find (rest l2) l2 0 k eq_refl) with (fuel_list := rest l2) as [Hl3 Hterm];
    [rewrite Hr2; exact Hf'|exact Hn|lia|].
  rewrite Hl3.
  set (l3 := readN k l2) in *.
  set (l4 := setModes l3 true (isDirective l3)).
  assert (Hr4 : rest l4 = skipn k (rest l2)) by (unfold l4, l3; cbn [rest setModes]; apply Comments.rest_readN).
  apply prefixb_spec in Hterm as (tail & Ht).
  assert (Hc4 : cur l4 = 45) by (unfold cur; rewrite Hr4, Ht; reflexivity).
  rewrite Hc4. change (45 =? 0) with false. cbv iota.
  exists (readN 4 l4). split; [reflexivity|].
  (* the state after the comment *)
  assert (Hd3 : isDirective l3 = isDirective l).
  { unfold l3, l2. rewrite (proj1 (proj2 (readN_modes k _))), (proj1 (proj2 (readN_modes 2 _))). reflexivity. }
  assert (E' : readN 4 l4 = readN (2 + k + 4) (setModes (tokenBegins l) true (isDirective l))).
  { unfold l4. rewrite Hd3. unfold l3, l2. rewrite <- readN_setModes, <- readN_setModes.
    rewrite !readN_add. replace (2 + k + 4)%nat with (2 + k + 4)%nat by lia. reflexivity. }
  rewrite E'.
  (* g = w ++ rest, w the comment, ending in "--}}" *)
  set (w := firstn (2 + k + 4) g).
  assert (Hw : g = w ++ skipn (2 + k + 4) g) by (symmetry; apply firstn_skipn).
  assert (Lw : List.length w = (2 + k + 4)%nat) by (unfold w; rewrite firstn_length; lia).
  assert (Hlast : last w 1 <> 92).
  { assert (Ew : w = firstn (2 + k) g ++ [45; 45; 125; 125]).
    { assert (Eg : skipn (2 + k) g ++ r = 45 :: 45 :: 125 :: 125 :: tail).
      { change (45 :: 45 :: 125 :: 125 :: tail) with ([45; 45; 125; 125] ++ tail).
        rewrite <- Ht, Hr2, Hr, Comments.skipn_add, skipn_app_le by lia. reflexivity. }
      unfold w. rewrite <- (firstn_skipn (2 + k) g) at 1.
      rewrite firstn_app, firstn_length, firstn_firstn.
      replace (Nat.min (2 + k + 4) (2 + k)) with (2 + k)%nat by lia.
      replace (2 + k + 4 - Nat.min (2 + k) (List.length g))%nat with 4%nat by lia.
      f_equal.
      assert (L4 : (4 <= List.length (skipn (2 + k) g))%nat) by (rewrite skipn_length; lia).
      destruct (skipn (2 + k) g) as [|a1 [|a2 [|a3 [|a4 q]]]]; cbn [List.length] in L4; try lia.
      cbn [app] in Eg. injection Eg as -> -> -> -> _. reflexivity. }
    rewrite Ew. change [45; 45; 125; 125] with ([45; 45; 125] ++ [125]). rewrite app_assoc, last_last. discriminate. }
  assert (Hs : St (setModes (tokenBegins l) true (isDirective l)) p m (w ++ skipn (2 + k + 4) g ++ r)).
  { rewrite app_assoc, <- Hw.
    pose proof (St_modes (tokenBegins l) p m (g ++ r) true (isDirective l) H) as X.
    replace (mkMd true (isDirective l) (mp m) (mb m)) with m in X; [exact X|].
    destruct H as (_&_&_&_&_&_&Hd&_). rewrite Hd. destruct m as [a b c d]. cbn in *. subst a. reflexivity. }
  pose proof (proj1 (readN_St w _ p m _ Hs Hlast)) as X. rewrite Lw in X. exact X.
Qed.

Lemma comments_step : forall n g f l p m r,
  St l p m (g ++ r) -> mh m = true -> cmts_ok n g = true -> (List.length g <= f)%nat ->
  exists l' f', nextToken (S f) l = nextToken (S f') l' /\ St l' (p + List.length g) m r.
Proof.
  induction n as [|n IH]; intros g f l p m r H Hm Hc Hf; [discriminate Hc|].
  cbn [cmts_ok] in Hc. destruct g as [|c g'].
  - exists l, f. cbn [app List.length] in *. rewrite Nat.add_0_r. split; [reflexivity|exact H].
  - set (g := c :: g') in *. apply andb_true_iff in Hc as [Hp Hc].
    destruct (find_term (skipn 2 g) 0) as [k|] eqn:Ef; [|discriminate Hc].
    apply andb_true_iff in Hc as [Hlen Hc]. apply Nat.leb_le in Hlen.
    destruct f as [|f]; [unfold g in Hf; cbn in Hf; lia|].
    destruct (comment_step (S f) l p m g r k H Hm Hp Ef Hlen) as (l1 & E1 & S1).
    assert (Lg : List.length (skipn (2 + k + 4) g) = (List.length g - (2 + k + 4))%nat) by apply skipn_length.
    destruct (IH (skipn (2 + k + 4) g) f l1 _ m r S1 Hm Hc ltac:(lia)) as (l' & f' & E2 & S2).
    exists l', f'. split; [rewrite E1; exact E2|].
    replace (p + List.length g)%nat with (p + (2 + k + 4) + List.length (skipn (2 + k + 4) g))%nat by lia. exact S2.
Qed.

(* ---- one item *)
Lemma skipWs_fixed r l : isWs (cur l) = false -> skipWs r l = l.
Proof. intro H. destruct r; cbn [skipWs]; [reflexivity|]. rewrite H. reflexivity. Qed.

Lemma nextToken_after_ws f l : isHTML l = false -> nextToken (S f) l = nextToken (S f) (skipWhitespace l).
Proof.
  intro Hh.
  assert (Hh2 : isHTML (skipWhitespace l) = false) by (unfold skipWhitespace; rewrite skipWs_isHTML; exact Hh).
  assert (Hid : skipWhitespace (skipWhitespace l) = skipWhitespace l).
  { unfold skipWhitespace at 1. apply skipWs_fixed. unfold skipWhitespace. apply skipWs_not_ws. lia. }
  cbn [nextToken]. rewrite Hh, Hh2, Hid. cbv zeta. rewrite ?Hh2. reflexivity.
Qed.

Lemma item_step f l p m it fol :
  St l p m (igap it ++ isrc it ++ fol) -> item_ok m it fol = true -> (List.length (igap it) <= f)%nat ->
  exists l',
    nextToken (S f) l =
      Some (tokAt input (ity it) (lit_of (ity it) (isrc it)) (p + List.length (igap it))
              (p + List.length (igap it) + List.length (isrc it) - 1), l') /\
    St l' (p + List.length (igap it) + List.length (isrc it)) (next_md m (ity it) fol) fol /\
    tok_eqb (ity it) T_EOF = false /\ tok_eqb (ity it) T_ILLEGAL = false.
Proof.
  destruct it as [ty s gap]. cbn [ity isrc igap]. intros H Hok Hfuel. unfold item_ok in Hok. cbn [ity isrc igap] in Hok.
  destruct (mh m) eqn:Hm.
  - (* text mode: comments first *)
    assert (Hg : gap_html gap = true /\ (tok_eqb ty T_LBRACES = true \/ tok_eqb ty T_HTML = true \/ directive_ok ty s fol = true)).
    { destruct ty; try discriminate Hok; cbv beta match in Hok; cbn [negb orb andb] in Hok;
        repeat match type of Hok with _ && _ = true => let A := fresh in apply andb_true_iff in Hok as [Hok A] end;
        (split; [assumption|auto]). }
    destruct Hg as [Hgap Hcase].
    destruct (comments_step _ gap f l p m (s ++ fol) H Hm Hgap Hfuel) as (l1 & f1 & E1 & S1). rewrite E1.
    set (q := (p + List.length gap)%nat) in *.
    destruct Hcase as [E|[E|E]].
    + apply ParseTotal.tok_eqb_eq in E. subst ty. cbv beta match in Hok.
      apply andb_true_iff in Hok as [Hok _]. apply andb_true_iff in Hok as [Hs Hc]. apply bytes_eqb_eq in Hs. subst s.
      apply negb_true_iff in Hc.
      destruct (lbraces_item f1 l1 q m fol S1 Hc) as (l' & E & S'). exists l'. cbn [List.length next_md].
      split; [rewrite E; f_equal; f_equal; f_equal; lia|]. split; [exact S'|split; reflexivity].
    + apply ParseTotal.tok_eqb_eq in E. subst ty. cbv beta match in Hok.
      apply andb_true_iff in Hok as [_ Ht].
      destruct (text_item f1 l1 q m s fol S1 Hm Ht) as (l' & E & S'). exists l'. cbn [next_md].
      split; [exact E|]. split; [exact S'|split; reflexivity].
    + destruct (directive_step f1 l1 q m ty s fol S1 Hm E) as (l' & E' & S'). exists l'.
      assert (Hne : tok_eqb ty T_EOF = false /\ tok_eqb ty T_ILLEGAL = false).
      { unfold directive_ok in E. apply andb_true_iff in E as [E _]. apply andb_true_iff in E as [Hlk Hill].
        apply ParseTotal.tok_eqb_eq in Hlk. apply negb_true_iff in Hill. split; [rewrite <- Hlk; apply lookupDirective_not_eof|exact Hill]. }
      split; [|split; [exact S'|exact Hne]].
      rewrite E'. f_equal. f_equal. f_equal.
      assert (Hin : In ty (map snd directives_b)).
      { unfold directive_ok in E. apply andb_true_iff in E as [E _]. apply andb_true_iff in E as [Hlk Hill].
        apply ParseTotal.tok_eqb_eq in Hlk. apply negb_true_iff in Hill.
        assert (Hl : tok_eqb (lookupDirective s) T_ILLEGAL = false) by (rewrite Hlk; exact Hill).
        pose proof (lookupDirective_value s Hl) as Hin. rewrite Hlk in Hin. exact Hin. }
      unfold lit_of. destruct (tok_eqb ty T_STR) eqn:X.
      { apply ParseTotal.tok_eqb_eq in X. subst ty. exfalso. vm_compute in Hin. intuition discriminate. }
      destruct (tok_eqb ty T_HTML) eqn:Y; [|reflexivity].
      apply ParseTotal.tok_eqb_eq in Y. subst ty. exfalso. vm_compute in Hin. intuition discriminate.
  - (* code: skip the gap first *)
    assert (Hh : isHTML l = false) by (destruct H as (_&_&_&_&_&Hh&_); rewrite Hh; exact Hm).
    assert (Hws : forallb isWs gap = true /\ isWs (hd 0 (s ++ fol)) = false /\
                  ((tok_eqb ty T_LBRACES = true /\ s = [123; 123] /\ prefixb [45; 45] fol = false) \/
                   (tok_eqb ty T_LBRACES = false /\ code_ok m ty s fol = true /\ tok_eqb ty T_EOF = false /\ tok_eqb ty T_ILLEGAL = false))).
    { destruct ty; try discriminate Hok; cbv beta match in Hok; cbn [negb orb andb] in Hok;
        repeat match type of Hok with _ && _ = true => let A := fresh in apply andb_true_iff in Hok as [Hok A] end;
        (split; [assumption|]);
        try (match goal with X : is2 s 123 123 = true |- _ => apply bytes_eqb_eq in X; subst s end;
             split; [reflexivity|left; repeat split; apply negb_true_iff; assumption]);
        (split; [destruct s; [discriminate|cbn [app hd] in *; apply negb_true_iff; assumption]
                |right; repeat split; assumption]). }
    destruct Hws as (Hgap & Hws & Hcase).
    destruct (skipWhitespace_gap gap l p m (s ++ fol) H Hgap Hws) as [Esk H1].
    rewrite (nextToken_after_ws f l Hh), Esk.
    destruct Hcase as [(E & -> & Hc)|(E & Hc & N1 & N2)].
    + apply ParseTotal.tok_eqb_eq in E. subst ty.
      destruct (lbraces_item f _ _ m fol H1 Hc) as (l' & E & S'). exists l'. cbn [List.length next_md].
      split; [rewrite E; f_equal; f_equal; f_equal; lia|]. split; [exact S'|split; reflexivity].
    + destruct (code_item f _ _ m ty s fol H1 Hm Hc E) as (l' & E' & S'). exists l'. auto.
Qed.

(* ---- all items *)
Lemma eof_here l p m : St l p m [] ->
  nextToken 1 l = Some (mkToken T_EOF [] (fst (Positions.lc input p)) (snd (Positions.lc input p)) (fst (Positions.lc input p)) (snd (Positions.lc input p)), tokenBegins l) /\
  forall f, nextToken (S f) l = nextToken 1 l.
Proof.
  intro H. assert (Hr : rest l = []) by apply H.
  assert (E1 : (if isHTML l then l else skipWhitespace l) = l).
  { destruct (isHTML l); [reflexivity|]. unfold skipWhitespace. rewrite Hr. reflexivity. }
  assert (G : forall f, nextToken (S f) l = Some (newToken (tokenBegins l) T_EOF [], tokenBegins l)).
  { intro f. cbn [nextToken]. rewrite E1. cbv zeta. unfold cur. rewrite Hr. cbn [hd]. change (0 =? 0) with true. reflexivity. }
  split; [|intro f; rewrite !G; reflexivity].
  rewrite G. unfold newToken. change (tok_eqb T_EOF T_EOF) with true. cbv match.
  cbn [tokenBegins startLine startCol line col].
  destruct H as (_ & _ & Hi & Hp & _). destruct Hi as (_ & Hlc & _). rewrite Hp in Hlc. rewrite <- Hlc. reflexivity.
Qed.

Lemma lex_items : forall its tg l p m fuel prev,
  St l p m (spell_t its tg) -> items_ok_t m its tg = true -> (List.length its < fuel)%nat ->
  lex_loop fuel l prev = Some (place_t input p its (List.length tg)).
Proof.
  induction its as [|it its IH]; intros tg l p m fuel prev H Hok Hf.
  - destruct fuel as [|fuel]; [lia|]. cbn [lex_loop place_t spell_t items_ok_t] in *.
    unfold nextTok. unfold final_ok in Hok. destruct (mh m) eqn:Hm.
    + (* comments, then the end *)
      assert (Hr : rest l = tg) by apply H.
      destruct (comments_step _ tg (List.length (rest l)) l p m [] ltac:(rewrite app_nil_r; exact H) Hm Hok
                  ltac:(rewrite Hr; lia)) as (l1 & f1 & E1 & S1).
      rewrite E1. destruct (eof_here l1 _ m S1) as [E2 E3]. rewrite E3, E2. reflexivity.
    + (* white space, then the end *)
      assert (Hh : isHTML l = false) by (destruct H as (_&_&_&_&_&Hh&_); rewrite Hh; exact Hm).
      destruct (skipWhitespace_gap tg l p m [] ltac:(rewrite app_nil_r; exact H) Hok eq_refl) as [Esk S1].
      rewrite (nextToken_after_ws _ l Hh), Esk.
      destruct (eof_here _ _ m S1) as [E2 E3]. rewrite E3, E2. reflexivity.
  - destruct fuel as [|fuel]; [lia|]. cbn [items_ok_t] in Hok. apply andb_true_iff in Hok as [Hi Hok].
    cbn [spell_t] in H.
    assert (Hlen : (List.length (igap it) <= List.length (rest l))%nat).
    { destruct H as (Hr & _). rewrite Hr, app_length. lia. }
    destruct (item_step (List.length (rest l)) l p m it (spell_t its tg) H Hi Hlen) as (l' & E & S' & N1 & N2).
    cbn [lex_loop place_t]. unfold nextTok. rewrite E. unfold tokAt. cbn [ttype]. rewrite N1, N2. cbn [andb].
    cbv match.
    rewrite (IH tg l' _ _ fuel _ S' Hok ltac:(cbn [List.length] in Hf; lia)). reflexivity.
Qed.

End WithInput.

Lemma newLexer_St input : forallb okb input = true -> St input (newLexer input) 0 m0 input.
Proof.
  intro H. unfold St. split; [reflexivity|]. split; [exact H|]. split; [apply newLexer_inv|].
  cbn. repeat split. discriminate.
Qed.

Lemma item_src_nonempty m it fol : item_ok m it fol = true -> isrc it <> [].
Proof.
  destruct it as [ty s gap]. unfold item_ok. cbn [ity isrc igap]. intro H.
  destruct s as [|c s]; [|discriminate]. exfalso.
  destruct ty; try discriminate H; destruct (mh m); cbn [andb negb orb] in H; cbv beta match in H;
    repeat match type of H with _ && _ = true => let A := fresh in apply andb_true_iff in H as [H A] end;
    try discriminate;
    repeat match goal with X : _ && _ = true |- _ => let A := fresh in apply andb_true_iff in X as [X A] end;
    try discriminate.
Qed.

Lemma items_le_spell : forall its tg m, items_ok_t m its tg = true -> (List.length its <= List.length (spell_t its tg))%nat.
Proof.
  induction its as [|it its IH]; intros tg m H; [cbn; lia|]. cbn [items_ok_t] in H. apply andb_true_iff in H as [Hi H].
  pose proof (item_src_nonempty _ _ _ Hi) as Hne. specialize (IH _ _ H).
  cbn [spell_t List.length]. rewrite !app_length. destruct (isrc it); [congruence|]. cbn [List.length]. lia.
Qed.

(* THE ROUND TRIP: the lexer model turns the spelling of the items into exactly their tokens *)
Theorem lex_spell_t its tg :
  source_ok_t its tg = true ->
  lex_all (spell_t its tg) = Some (place_t (spell_t its tg) 0 its (List.length tg)).
Proof.
  unfold source_ok_t. intro H. apply andb_true_iff in H as [Hc Hok].
  unfold lex_all. apply (lex_items (spell_t its tg) its tg _ 0%nat m0); [apply newLexer_St, Hc|exact Hok|].
  pose proof (items_le_spell its tg m0 Hok). lia.
Qed.

Theorem lex_spell its :
  source_ok its = true -> lex_all (spell its) = Some (place (spell its) 0 its).
Proof. exact (lex_spell_t its []). Qed.

Theorem in_domain_sound src :
  in_domain src = true ->
  exists its tg, spell_t its tg = src /\ source_ok_t its tg = true /\
                 lex_all src = Some (place_t src 0 its (List.length tg)).
Proof.
  unfold in_domain. destruct (lex_all src) as [ts|] eqn:E; [|discriminate].
  destruct (unlex src 0 ts) as [its q]. intro H. apply andb_true_iff in H as [H1 H2].
  apply bytes_eqb_eq in H1. exists its, (skipn q src). split; [exact H1|]. split; [exact H2|].
  pose proof (lex_spell_t _ _ H2) as L. rewrite H1, E in L. exact L.
Qed.
