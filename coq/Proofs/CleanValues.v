(* Data values: what the data binding and expression evaluation produce.  No marker object
   (BREAK / CONTINUE), Block, or directive result can sit in a variable or inside an array/object,
   so the marker scan of the evaluator only ever finds markers that loop-control directives put
   there. *)
From Coq Require Import String Lia.
From TW Require Import Bytes Floats Values Ast Builtins Eval.
Open Scope N_scope.

Fixpoint clean (v : value) : bool :=
  match v with
  | VNil | VBool _ | VInt _ | VFloat _ | VStr _ => true
  | VArr l => forallb clean l
  | VObj m => forallb (fun kv : bytes * value => clean (snd kv)) m
  | _ => false
  end.

Definition frame_clean (f : frame) : bool := forallb (fun kv : bytes * value => clean (snd kv)) f.
Definition env_clean (e : env) : bool := forallb frame_clean e.

Lemma clean_no_markers v : clean v = true -> has_break v = false /\ has_continue v = false.
Proof. destruct v; try discriminate; intros _; split; reflexivity. Qed.

Lemma alookup_clean k (m : list (bytes * value)) v :
  forallb (fun kv => clean (snd kv)) m = true -> alookup k m = Some v -> clean v = true.
Proof.
  induction m as [|[k' v'] m IH]; cbn [forallb alookup snd]; [discriminate|].
  intros H. apply andb_true_iff in H as [H1 H2]. destruct (bytes_eqb k k'); [intros [= <-]; exact H1|apply IH, H2].
Qed.

Lemma aset_clean k v (m : list (bytes * value)) :
  forallb (fun kv => clean (snd kv)) m = true -> clean v = true ->
  forallb (fun kv => clean (snd kv)) (aset k v m) = true.
Proof.
  induction m as [|[k' v'] m IH]; cbn [aset forallb snd]; intros H Hv.
  - rewrite Hv. reflexivity.
  - apply andb_true_iff in H as [H1 H2]. destruct (bytes_eqb k k'); cbn [forallb snd].
    + rewrite Hv, H2. reflexivity.
    + rewrite H1, (IH H2 Hv). reflexivity.
Qed.

Lemma env_get_clean e k v : env_clean e = true -> env_get e k = Some v -> clean v = true.
Proof.
  induction e as [|f e IH]; cbn [env_clean forallb env_get]; [discriminate|].
  intro H. apply andb_true_iff in H as [H1 H2].
  destruct (alookup k f) eqn:E; [intros [= <-]; eapply alookup_clean; eassumption|apply IH, H2].
Qed.

Lemma env_set_clean e k v e' :
  env_clean e = true -> clean v = true -> env_set e k v = inl e' -> env_clean e' = true.
Proof.
  unfold env_set. destruct (bytes_eqb k str_loop); [discriminate|].
  intros He Hv.
  assert (Hgoal : env_clean (match e with f :: e0 => aset k v f :: e0 | [] => [[(k, v)]] end) = true).
  { destruct e as [|f e0]; cbn [env_clean forallb frame_clean snd].
    - rewrite Hv. reflexivity.
    - cbn [env_clean forallb] in He. apply andb_true_iff in He as [H1 H2].
      unfold frame_clean in *. rewrite (aset_clean k v f H1 Hv), H2. reflexivity. }
  destruct (env_get e k); [destruct (negb _); [discriminate|]|]; intros [= <-]; exact Hgoal.
Qed.

Lemma env_set_loop_clean e i len : env_clean e = true -> env_clean (env_set_loop e i len) = true.
Proof.
  intro He. unfold env_set_loop.
  destruct e as [|f e0]; cbn [env_clean forallb frame_clean snd clean]; [reflexivity|].
  cbn [env_clean forallb] in He. apply andb_true_iff in He as [H1 H2]. unfold frame_clean in *.
  rewrite aset_clean; [rewrite H2; reflexivity|exact H1|reflexivity].
Qed.

Lemma push_clean e : env_clean e = true -> env_clean ([] :: e) = true.
Proof. intro H. cbn [env_clean forallb frame_clean]. exact H. Qed.

Lemma tl_clean e : env_clean e = true -> env_clean (tl e) = true.
Proof. destruct e as [|f e]; [reflexivity|]. cbn [env_clean forallb tl]. intro H. apply andb_true_iff in H as [_ H]. exact H. Qed.

(* ---- operators *)
Lemma infix_clean ln op l r v : eval_infix_op ln op l r = Ok v -> clean v = true.
Proof.
  unfold eval_infix_op. destruct (negb (same_type l r)); [discriminate|].
  destruct l; try discriminate; destruct r; try discriminate.
  - unfold eval_int_infix.
    repeat match goal with |- context [if ?c then _ else _] => destruct c end;
      intro H; inversion H; reflexivity.
  - unfold eval_float_infix.
    repeat match goal with |- context [if ?c then _ else _] => destruct c end;
      intro H; inversion H; reflexivity.
  - unfold eval_str_infix.
    repeat match goal with |- context [if ?c then _ else _] => destruct c end;
      intro H; inversion H; reflexivity.
Qed.

Lemma prefix_clean ln op r v : eval_prefix_op ln op r = Ok v -> clean v = true.
Proof.
  unfold eval_prefix_op. destruct (bytes_eqb op (bs "-")); [destruct r; try discriminate; intros [= <-]; reflexivity|].
  destruct (bytes_eqb op (bs "!")); [destruct r; try discriminate; intros [= <-]; reflexivity|discriminate].
Qed.

Lemma postfix_clean ln op l v : eval_postfix_op ln op l = Ok v -> clean v = true.
Proof.
  unfold eval_postfix_op, float_dec.
  destruct (bytes_eqb op (bs "++")); [destruct l; try discriminate; intros [= <-]; reflexivity|].
  destruct (bytes_eqb op (bs "--")); [|discriminate].
  destruct l; try discriminate; [intros [= <-]; reflexivity|].
  destruct (f_format f); [intros [= <-]; reflexivity|discriminate].
Qed.

Lemma obj_index_clean ln m k v :
  forallb (fun kv => clean (snd kv)) m = true -> obj_index ln m k = Ok v -> clean v = true.
Proof.
  intro Hm. unfold obj_index.
  destruct (alookup k m) as [w|] eqn:E.
  - intro H. inversion H; subst w. eapply alookup_clean; eassumption.
  - destruct k as [|c k'].
    + intro H. discriminate H.
    + destruct (alookup (upper_first (c :: k')) m) as [w|] eqn:E2.
      * intro H. inversion H; subst w. eapply alookup_clean; eassumption.
      * intro H. discriminate H.
Qed.

Lemma nth_clean l i : forallb clean l = true -> clean (nth i l VNil) = true.
Proof.
  revert i; induction l as [|x l IH]; intros [|i] H; cbn [nth]; try reflexivity;
    cbn [forallb] in H; apply andb_true_iff in H as [H1 H2]; [exact H1|apply IH, H2].
Qed.

Lemma forallb_app_clean a b : forallb clean (a ++ b) = forallb clean a && forallb clean b.
Proof. apply forallb_app. Qed.

Lemma forallb_rev_clean l : forallb clean (rev l) = forallb clean l.
Proof.
  induction l as [|x l IH]; [reflexivity|]. cbn [rev forallb]. rewrite forallb_app, IH. cbn [forallb].
  rewrite andb_true_r. apply andb_comm.
Qed.

Lemma forallb_firstn_clean n l : forallb clean l = true -> forallb clean (firstn n l) = true.
Proof.
  revert n; induction l as [|x l IH]; intros [|n] H; cbn [firstn forallb]; try reflexivity.
  cbn [forallb] in H. apply andb_true_iff in H as [H1 H2]. rewrite H1, (IH n H2). reflexivity.
Qed.

Lemma forallb_skipn_clean n l : forallb clean l = true -> forallb clean (skipn n l) = true.
Proof.
  revert n; induction l as [|x l IH]; intros [|n] H; cbn [skipn]; try exact H; try reflexivity.
  cbn [forallb] in H. apply andb_true_iff in H as [_ H2]. apply IH, H2.
Qed.

Lemma map_vstr_clean l : forallb clean (map VStr l) = true.
Proof. induction l as [|x l IH]; [reflexivity|]. cbn [map forallb clean]. exact IH. Qed.

(* ---- built-ins return data values when given data values *)
Ltac split_all :=
  repeat match goal with
         | |- context [if ?c then _ else _] => destruct c
         | |- context [match ?x with _ => _ end] => destruct x
         end.

Ltac done_ok :=
  let H := fresh in
  intro H; try discriminate H; inversion H; subst; clear H;
  try reflexivity; try apply map_vstr_clean.

Lemma str_builtin_clean fn s args v : builtin_str fn s args = Some (BOk v) -> clean v = true.
Proof. unfold builtin_str, str_at, addDecimals, str_arg0. split_all; done_ok. Qed.

Lemma int_builtin_clean fn z args v : builtin_int fn z args = Some (BOk v) -> clean v = true.
Proof. unfold builtin_int, addDecimals. split_all; done_ok. Qed.

Lemma float_builtin_clean fn x args v : builtin_float fn x args = Some (BOk v) -> clean v = true.
Proof. unfold builtin_float. split_all; done_ok. Qed.

Lemma bool_builtin_clean fn b args v :
  forallb clean args = true -> builtin_bool fn b args = Some (BOk v) -> clean v = true.
Proof.
  intro Ha. unfold builtin_bool.
  destruct (bytes_eqb fn (bs "binary")); [done_ok|].
  destruct (bytes_eqb fn (bs "then")); [|discriminate].
  destruct args as [|a rest]; [discriminate|]. cbn [forallb] in Ha. apply andb_true_iff in Ha as [Ha Hr].
  destruct b; [intro H; inversion H; subst; exact Ha|].
  destruct rest as [|c rest]; [done_ok|]. cbn [forallb] in Hr. apply andb_true_iff in Hr as [Hc _].
  intro H; inversion H; subst; exact Hc.
Qed.

Lemma arr_builtin_clean fn l args v :
  forallb clean l = true -> forallb clean args = true ->
  builtin_arr fn l args = Some (BOk v) -> clean v = true.
Proof.
  intros Hl Ha. unfold builtin_arr, str_arg0.
  destruct (bytes_eqb fn (bs "len")); [done_ok|].
  destruct (bytes_eqb fn (bs "join")); [split_all; done_ok|].
  destruct (bytes_eqb fn (bs "rand")).
  { destruct l as [|x l']; [done_ok|]. cbn [forallb] in Hl. apply andb_true_iff in Hl as [Hx _].
    intro H; inversion H; subst; exact Hx. }
  destruct (bytes_eqb fn (bs "reverse")).
  { intro H; inversion H; subst. change (forallb clean (rev l) = true). rewrite forallb_rev_clean. exact Hl. }
  destruct (bytes_eqb fn (bs "slice")).
  { destruct args as [|a rest]; [discriminate|]. destruct a; try discriminate.
    destruct rest as [|b rest].
    - intro H; inversion H; subst. change (forallb clean (skipn (Z.to_nat (clampZ 0 (Z.of_nat (List.length l)) z)) l) = true).
      apply forallb_skipn_clean, Hl.
    - destruct b; try discriminate. intro H; inversion H; subst.
      match goal with |- clean (VArr (firstn ?n (skipn ?k l))) = true =>
        change (forallb clean (firstn n (skipn k l)) = true) end.
      apply forallb_firstn_clean, forallb_skipn_clean, Hl. }
  destruct (bytes_eqb fn (bs "shuffle")).
  { destruct l as [|x [|y l']]; try discriminate; intro H; inversion H; subst; exact Hl. }
  destruct (bytes_eqb fn (bs "contains")); [destruct args; [discriminate|done_ok]|].
  destruct (bytes_eqb fn (bs "append")).
  { destruct args as [|a rest]; [discriminate|]. intro H; inversion H; subst.
    change (forallb clean (l ++ a :: rest) = true). rewrite forallb_app, Hl, Ha. reflexivity. }
  destruct (bytes_eqb fn (bs "prepend")); [|discriminate].
  destruct args as [|a rest]; [discriminate|]. intro H; inversion H; subst.
  change (forallb clean ((a :: rest) ++ l) = true). rewrite forallb_app, Hl, Ha. reflexivity.
Qed.

Lemma builtin_clean fn rv avs v :
  clean rv = true -> forallb clean avs = true ->
  call_builtin fn rv avs = Some (BOk v) -> clean v = true.
Proof.
  intros Hr Ha. destruct rv; cbn [call_builtin]; try discriminate.
  - apply bool_builtin_clean, Ha.
  - apply int_builtin_clean.
  - apply float_builtin_clean.
  - apply str_builtin_clean.
  - cbn [clean] in Hr. apply arr_builtin_clean; assumption.
Qed.

(* ---- expressions over a clean environment give clean values (no custom functions) *)
Definition cxe : ctx := mkCtx [].

Lemma fold_aset_clean kvs : forall acc,
  forallb (fun kv : bytes * value => clean (snd kv)) kvs = true ->
  forallb (fun kv : bytes * value => clean (snd kv)) acc = true ->
  forallb (fun kv : bytes * value => clean (snd kv))
          (fold_left (fun (a : list (bytes * value)) kv => aset (fst kv) (snd kv) a) kvs acc) = true.
Proof.
  induction kvs as [|[k v] kvs IH]; intros acc Hk Ha; cbn [fold_left]; [exact Ha|].
  cbn [forallb snd] in Hk. apply andb_true_iff in Hk as [Hv Hk]. apply IH; [exact Hk|]. apply aset_clean; assumption.
Qed.

Lemma expr_clean fuel :
  (forall en e v, env_clean en = true -> eval_expr cxe fuel en e = Ok v -> clean v = true) /\
  (forall en es vs, env_clean en = true -> eval_exprs cxe fuel en es = Ok vs -> forallb clean vs = true) /\
  (forall en ps kvs, env_clean en = true -> eval_pairs cxe fuel en ps = Ok kvs ->
                     forallb (fun kv : bytes * value => clean (snd kv)) kvs = true).
Proof.
  induction fuel as [|f (IHe & IHes & IHps)]; [repeat split; intros; discriminate|].
  repeat split.
  - intros en e v Hen. destruct e; cbn [eval_expr]; try discriminate.
    + destruct (env_get en name) eqn:E; [|discriminate]. intro H; inversion H; subst. eapply env_get_clean; eassumption.
    + intro H; inversion H; reflexivity.
    + destruct (f_of_lit lit); [|discriminate]. intro H; inversion H; reflexivity.
    + intro H; inversion H; reflexivity.
    + intro H; inversion H; reflexivity.
    + intro H; inversion H; reflexivity.
    + destruct (eval_exprs cxe f en els) as [vs| | | |] eqn:E; try discriminate.
      intro H; inversion H; subst. exact (IHes en els vs Hen E).
    + destruct (eval_pairs cxe f en (asort pairs)) as [kvs| | | |] eqn:E; try discriminate.
      intro H; inversion H; subst. change (forallb (fun kv : bytes * value => clean (snd kv))
        (fold_left (fun (a : list (bytes * value)) kv => aset (fst kv) (snd kv) a) kvs []) = true).
      apply fold_aset_clean; [exact (IHps en _ kvs Hen E)|reflexivity].
    + destruct (eval_expr cxe f en e) as [rv| | | |]; try discriminate. apply prefix_clean.
    + destruct (eval_expr cxe f en e1) as [lv| | | |]; try discriminate.
      destruct (eval_expr cxe f en e2) as [rv| | | |]; try discriminate.
      destruct (expr_line e1); [apply infix_clean|discriminate].
    + destruct (eval_expr cxe f en e) as [lv| | | |]; try discriminate. apply postfix_clean.
    + destruct (eval_expr cxe f en e1) as [cv| | | |]; try discriminate.
      destruct (truthy cv); apply IHe; exact Hen.
    + destruct (eval_expr cxe f en e1) as [lv| | | |] eqn:E1; try discriminate.
      destruct (eval_expr cxe f en e2) as [iv| | | |] eqn:E2; try discriminate.
      pose proof (IHe en e1 lv Hen E1) as Hl.
      destruct lv; try discriminate; destruct iv; try discriminate.
      * destruct ((z <? 0)%Z || _); intro H; inversion H; subst; [reflexivity|]. apply nth_clean. exact Hl.
      * destruct (expr_line e2); [|discriminate]. apply obj_index_clean. exact Hl.
    + destruct (eval_expr cxe f en e1) as [lv| | | |] eqn:E1; try discriminate.
      pose proof (IHe en e1 lv Hen E1) as Hl.
      destruct e2; try discriminate. destruct lv; try discriminate. apply obj_index_clean. exact Hl.
    + destruct (eval_expr cxe f en e) as [rv| | | |] eqn:E1; try discriminate.
      destruct (negb (has_func_table rv)); [discriminate|].
      destruct (eval_exprs cxe f en args) as [avs| | | |] eqn:E2; try discriminate.
      destruct (call_builtin fname rv avs) as [[w|msg|]|] eqn:E3; try discriminate.
      intro H; inversion H; subst. eapply builtin_clean; [exact (IHe en e rv Hen E1)|exact (IHes en args avs Hen E2)|exact E3].
  - intros en es vs Hen. destruct es as [|e es]; cbn [eval_exprs]; [intro H; inversion H; reflexivity|].
    destruct (eval_expr cxe f en e) as [v| | | |] eqn:E1; try discriminate.
    destruct (eval_exprs cxe f en es) as [vs'| | | |] eqn:E2; try discriminate.
    intro H; inversion H; subst. cbn [forallb]. rewrite (IHe en e v Hen E1), (IHes en es vs' Hen E2). reflexivity.
  - intros en ps kvs Hen. destruct ps as [|[k e] ps]; cbn [eval_pairs]; [intro H; inversion H; reflexivity|].
    destruct (eval_expr cxe f en e) as [v| | | |] eqn:E1; try discriminate.
    destruct (eval_pairs cxe f en ps) as [kvs'| | | |] eqn:E2; try discriminate.
    intro H; inversion H; subst. cbn [forallb snd]. rewrite (IHe en e v Hen E1), (IHps en ps kvs' Hen E2). reflexivity.
Qed.

Lemma eval_expr_clean fuel en e v : env_clean en = true -> eval_expr cxe fuel en e = Ok v -> clean v = true.
Proof. apply expr_clean. Qed.
