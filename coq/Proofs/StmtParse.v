(* C02 / C03, syntactic half: the statement parser of the model builds, from the tokens of a
   template made of text, {{ e }} blocks, assignments, @if / @elseif / @else, @each and @for (with
   @else; every clause of the @for header optional, the third an expression or an assignment),
   @break, @continue, @breakIf and @continueIf - nested to any depth, bodies of any length,
   empty bodies included - exactly the statement tree that the tokens spell.  Expressions go
   through Proofs/Pratt.v.  Together with Proofs/TemplateRefine.v (the evaluator on that tree is
   the big-step specification) this carries the control-flow properties from the token stream to
   the output. *)
From Coq Require Import String Lia.
From TW Require Import Bytes GenToken GenParser Lexer Ast Parser GenTie Pratt ParseTotal FuelMono.

(* ---------- concrete syntax of statements *)
(* the third clause of a @for header: an expression (i++) or an assignment (i = i + 1) *)
Inductive fpc := FPE (c : cst) | FPA (id eq : token) (c : cst).

Definition flat_init (i : option (token * token * cst)) : list token :=
  match i with Some (id, eq, c) => id :: eq :: flat c | None => [] end.
Definition flat_cond (c : option cst) : list token := match c with Some c => flat c | None => [] end.
Definition flat_post (p : option fpc) : list token :=
  match p with Some (FPE c) => flat c | Some (FPA id eq c) => id :: eq :: flat c | None => [] end.
Definition ast_init (i : option (token * token * cst)) : stmt :=
  match i with Some (id, eq, c) => SAssign (eline id) (tlit id) (ast c) | None => SNull end.
Definition ast_cond (c : option cst) : expr := match c with Some c => ast c | None => ENull end.
Definition ast_post (p : option fpc) : stmt :=
  match p with Some (FPE c) => SExpr (ast c) | Some (FPA id eq c) => SAssign (eline id) (tlit id) (ast c) | None => SNull end.
Definition wf_init (i : option (token * token * cst)) : Prop :=
  match i with Some (id, eq, c) => ttype id = T_IDENT /\ ttype eq = T_ASSIGN /\ wf c | None => True end.
Definition wf_cond (c : option cst) : Prop := match c with Some c => wf c | None => True end.
Definition wf_post (p : option fpc) : Prop :=
  match p with
  | Some (FPE c) => wf c
  | Some (FPA id eq c) => ttype id = T_IDENT /\ ttype eq = T_ASSIGN /\ wf c
  | None => True
  end.

Inductive sst :=
| TText (t : token)
| TCode (lb rb : token) (c : cst)                 (* {{ c }} *)
| TAssign (lb id eq : token) (c : cst)            (* {{ x = c   - its closing }} is the next item *)
| TClose (rb : token)                             (* }} on its own: no statement *)
| TIf (kw lp rp endt : token) (c : cst) (body : list sst)
      (elifs : list (token * token * token * cst * list sst)) (els : option (token * list sst))
| TEach (kw lp var inn rp endt : token) (c : cst) (body : list sst) (els : option (token * list sst))
| TFor (kw lp s1 s2 rp endt : token) (init : option (token * token * cst)) (cond : option cst) (post : option fpc)
       (body : list sst) (els : option (token * list sst))      (* @for(x = c; c; post) *)
| TBreak (t : token)
| TContinue (t : token)
| TBreakIf (kw lp rp : token) (c : cst)
| TContinueIf (kw lp rp : token) (c : cst).

Definition flat_else (fs : list sst -> list token) (els : option (token * list sst)) : list token :=
  match els with Some (te, eb) => te :: fs eb | None => [] end.

Fixpoint flat_s (s : sst) : list token :=
  let fs := fun l => concat (map flat_s l) in
  match s with
  | TText t => [t]
  | TCode lb rb c => lb :: flat c ++ [rb]
  | TAssign lb id eq c => lb :: id :: eq :: flat c
  | TClose rb => [rb]
  | TIf kw lp rp endt c body elifs els =>
    kw :: lp :: flat c ++ rp :: fs body ++
    concat (map (fun e => match e with (ke, elp, erp, ec, eb) => ke :: elp :: flat ec ++ erp :: fs eb end) elifs) ++
    match els with Some (te, eb) => te :: fs eb | None => [] end ++ [endt]
  | TEach kw lp var inn rp endt c body els =>
    kw :: lp :: var :: inn :: flat c ++ rp :: fs body ++
    match els with Some (te, eb) => te :: fs eb | None => [] end ++ [endt]
  | TFor kw lp s1 s2 rp endt init cond post body els =>
    kw :: lp :: flat_init init ++ s1 :: flat_cond cond ++ s2 :: flat_post post ++ rp :: fs body ++
    match els with Some (te, eb) => te :: fs eb | None => [] end ++ [endt]
  | TBreak t => [t]
  | TContinue t => [t]
  | TBreakIf kw lp rp c => kw :: lp :: flat c ++ [rp]
  | TContinueIf kw lp rp c => kw :: lp :: flat c ++ [rp]
  end.

Definition flats (l : list sst) : list token := concat (map flat_s l).
Definition flat_elif (e : token * token * token * cst * list sst) : list token :=
  match e with (ke, elp, erp, ec, eb) => ke :: elp :: flat ec ++ erp :: flats eb end.

Definition last_s (s : sst) : token :=
  match s with
  | TText t => t
  | TCode lb rb c => rb
  | TAssign lb id eq c => lastc c
  | TClose rb => rb
  | TIf kw lp rp endt c body elifs els => endt
  | TEach kw lp var inn rp endt c body els => endt
  | TFor kw lp s1 s2 rp endt init cond post body els => endt
  | TBreak t => t
  | TContinue t => t
  | TBreakIf kw lp rp c => rp
  | TContinueIf kw lp rp c => rp
  end.

(* the statement a construct stands for; SNull = none (the parser drops it) *)
Fixpoint ast_s (s : sst) : stmt :=
  let asts := fun l => filter (fun x => negb (stmt_is_null x)) (map ast_s l) in
  match s with
  | TText t => SHtml (eline t) (tlit t)
  | TCode lb rb c => SExpr (ast c)
  | TAssign lb id eq c => SAssign (eline id) (tlit id) (ast c)
  | TClose rb => SNull
  | TIf kw lp rp endt c body elifs els =>
    SIf (eline kw) (ast c) (asts body)
        (map (fun e => match e with (ke, elp, erp, ec, eb) => (ast ec, asts eb) end) elifs)
        (match els with Some (te, eb) => Some (asts eb) | None => None end)
  | TEach kw lp var inn rp endt c body els =>
    SEach (eline kw) (tlit var) (ast c) (asts body)
          (match els with Some (te, eb) => Some (asts eb) | None => None end)
  | TFor kw lp s1 s2 rp endt init cond post body els =>
    SFor (eline kw) (ast_init init) (ast_cond cond) (ast_post post) (asts body)
         (match els with Some (te, eb) => Some (asts eb) | None => None end)
  | TBreak t => SBreak
  | TContinue t => SContinue
  | TBreakIf kw lp rp c => SBreakIf (eline kw) (ast c)
  | TContinueIf kw lp rp c => SContinueIf (eline kw) (ast c)
  end.

Definition asts (l : list sst) : list stmt := filter (fun x => negb (stmt_is_null x)) (map ast_s l).
Definition ast_elif (e : token * token * token * cst * list sst) : expr * list stmt :=
  match e with (ke, elp, erp, ec, eb) => (ast ec, asts eb) end.

Fixpoint size_s (s : sst) : nat :=
  let sz := fun l => fold_right (fun x n => size_s x + n)%nat O l in
  match s with
  | TIf kw lp rp endt c body elifs els =>
    S (sz body + fold_right (fun e n => match e with (_, _, _, _, eb) => sz eb + n end)%nat O elifs +
       match els with Some (_, eb) => sz eb | None => O end)
  | TEach kw lp var inn rp endt c body els =>
    S (sz body + match els with Some (_, eb) => sz eb | None => O end)
  | TFor kw lp s1 s2 rp endt init cond post body els =>
    S (sz body + match els with Some (_, eb) => sz eb | None => O end)
  | _ => 1%nat
  end.
Definition sizes (l : list sst) : nat := fold_right (fun x n => size_s x + n)%nat O l.

(* a list of statements: an assignment is followed by its closing braces *)
Definition first_s (s : sst) : token := hd eofTok (flat_s s).

Fixpoint wf_s (s : sst) : Prop :=
  let wfl := fix go (l : list sst) : Prop :=
    match l with
    | [] => True
    | x :: l' => wf_s x /\ go l' /\
                 match x with TAssign _ _ _ _ => match l' with TClose _ :: _ => True | _ => False end | _ => True end
    end in
  match s with
  | TText t => ttype t = T_HTML
  | TCode lb rb c => ttype lb = T_LBRACES /\ ttype rb = T_RBRACES /\ wf c
  | TAssign lb id eq c => ttype lb = T_LBRACES /\ ttype id = T_IDENT /\ ttype eq = T_ASSIGN /\ wf c
  | TClose rb => ttype rb = T_RBRACES
  | TIf kw lp rp endt c body elifs els =>
    ttype kw = T_IF /\ ttype lp = T_LPAREN /\ ttype rp = T_RPAREN /\ ttype endt = T_END /\ wf c /\ wfl body /\
    (fix goe (l : list (token * token * token * cst * list sst)) : Prop :=
       match l with
       | [] => True
       | (ke, elp, erp, ec, eb) :: l' =>
         ttype ke = T_ELSE_IF /\ ttype elp = T_LPAREN /\ ttype erp = T_RPAREN /\ wf ec /\ wfl eb /\ goe l'
       end) elifs /\
    match els with Some (te, eb) => ttype te = T_ELSE /\ wfl eb | None => True end
  | TEach kw lp var inn rp endt c body els =>
    ttype kw = T_EACH /\ ttype lp = T_LPAREN /\ ttype inn = T_IN /\ ttype rp = T_RPAREN /\ ttype endt = T_END /\
    wf c /\ wfl body /\
    match els with Some (te, eb) => ttype te = T_ELSE /\ wfl eb | None => True end
  | TFor kw lp s1 s2 rp endt init cond post body els =>
    ttype kw = T_FOR /\ ttype lp = T_LPAREN /\ ttype s1 = T_SEMI /\ ttype s2 = T_SEMI /\ ttype rp = T_RPAREN /\
    ttype endt = T_END /\ wf_init init /\ wf_cond cond /\ wf_post post /\ wfl body /\
    match els with Some (te, eb) => ttype te = T_ELSE /\ wfl eb | None => True end
  | TBreak t => ttype t = T_BREAK
  | TContinue t => ttype t = T_CONTINUE
  | TBreakIf kw lp rp c => ttype kw = T_BREAK_IF /\ ttype lp = T_LPAREN /\ ttype rp = T_RPAREN /\ wf c
  | TContinueIf kw lp rp c => ttype kw = T_CONTINUE_IF /\ ttype lp = T_LPAREN /\ ttype rp = T_RPAREN /\ wf c
  end.

Fixpoint wf_ss (l : list sst) : Prop :=
  match l with
  | [] => True
  | x :: l' => wf_s x /\ wf_ss l' /\
               match x with TAssign _ _ _ _ => match l' with TClose _ :: _ => True | _ => False end | _ => True end
  end.

Fixpoint wf_elifs (l : list (token * token * token * cst * list sst)) : Prop :=
  match l with
  | [] => True
  | (ke, elp, erp, ec, eb) :: l' =>
    ttype ke = T_ELSE_IF /\ ttype elp = T_LPAREN /\ ttype erp = T_RPAREN /\ wf ec /\ wf_ss eb /\ wf_elifs l'
  end.

Definition wf_else (els : option (token * list sst)) : Prop :=
  match els with Some (te, eb) => ttype te = T_ELSE /\ wf_ss eb | None => True end.

Lemma wf_if_unfold kw lp rp endt c body elifs els :
  wf_s (TIf kw lp rp endt c body elifs els) <->
  (ttype kw = T_IF /\ ttype lp = T_LPAREN /\ ttype rp = T_RPAREN /\ ttype endt = T_END /\ wf c /\ wf_ss body /\
   wf_elifs elifs /\ wf_else els).
Proof. cbn [wf_s]. unfold wf_else. destruct els as [[te eb]|]; reflexivity. Qed.

Lemma wf_each_unfold kw lp var inn rp endt c body els :
  wf_s (TEach kw lp var inn rp endt c body els) <->
  (ttype kw = T_EACH /\ ttype lp = T_LPAREN /\ ttype inn = T_IN /\ ttype rp = T_RPAREN /\ ttype endt = T_END /\
   wf c /\ wf_ss body /\ wf_else els).
Proof. cbn [wf_s]. unfold wf_else. destruct els as [[te eb]|]; reflexivity. Qed.

Lemma wf_for_unfold kw lp s1 s2 rp endt init cond post body els :
  wf_s (TFor kw lp s1 s2 rp endt init cond post body els) <->
  (ttype kw = T_FOR /\ ttype lp = T_LPAREN /\ ttype s1 = T_SEMI /\ ttype s2 = T_SEMI /\ ttype rp = T_RPAREN /\
   ttype endt = T_END /\ wf_init init /\ wf_cond cond /\ wf_post post /\ wf_ss body /\ wf_else els).
Proof. cbn [wf_s]. unfold wf_else. destruct els as [[te eb]|]; reflexivity. Qed.

(* ---------- first tokens *)
Lemma flat_s_cons s : wf_s s -> exists a r, flat_s s = a :: r /\
  inb (ttype a) block_guard_tokens = false /\ inb (ttype a) block_break_tokens = false.
Proof.
  destruct s; cbn [wf_s flat_s]; intro W.
  - exists t, []. rewrite W. repeat split.
  - destruct W as (A & _). eexists lb, _. rewrite A. repeat split.
  - destruct W as (A & _). eexists lb, _. rewrite A. repeat split.
  - exists rb, []. rewrite W. repeat split.
  - destruct W as (A & _). eexists kw, _. rewrite A. repeat split.
  - destruct W as (A & _). eexists kw, _. rewrite A. repeat split.
  - destruct W as (A & _). eexists kw, _. rewrite A. repeat split.
  - exists t, []. rewrite W. repeat split.
  - exists t, []. rewrite W. repeat split.
  - destruct W as (A & _). eexists kw, _. rewrite A. repeat split.
  - destruct W as (A & _). eexists kw, _. rewrite A. repeat split.
Qed.

Definition brk (rest : list token) : Prop :=
  match rest with t :: _ => inb (ttype t) block_break_tokens = true | [] => False end.

Definition follow_ok (s : sst) (rest : list token) : Prop :=
  match s with
  | TAssign _ _ _ c => (stops P_LOWEST rest /\ (rdot c = true -> not_lparen rest)) /\
                       match rest with t :: _ => inb (ttype t) [T_RBRACES; T_SEMI] = true | [] => False end
  | _ => True
  end.

Definition Ps (s : sst) : Prop :=
  forall st rest, rest <> [] -> follow_ok s rest ->
  conv (fun f => parseStatement f (setToks st (flat_s s ++ rest))) (ast_s s) (setToks st (last_s s :: rest)).

Definition lasts (prev : token) (ss : list sst) : token :=
  match ss with [] => prev | _ => last_s (last ss (TClose prev)) end.

Lemma flats_cons s ss : flats (s :: ss) = flat_s s ++ flats ss.
Proof. reflexivity. Qed.

Lemma asts_cons s ss : asts (s :: ss) = (if stmt_is_null (ast_s s) then [] else [ast_s s]) ++ asts ss.
Proof. unfold asts. cbn [map filter]. destruct (stmt_is_null (ast_s s)); reflexivity. Qed.

Lemma peekIn_cons st a b r ts : peekIn (setToks st (a :: b :: r)) ts = inb (ttype b) ts.
Proof. unfold peekIn. rewrite peekT_cons. reflexivity. Qed.

(* a non-empty list of statements, read by the loop of parseBlockStmt up to the token that ends the block *)
Lemma block_parses : forall ss, Forall Ps ss -> wf_ss ss -> ss <> [] ->
  forall st rest acc prev, brk rest ->
  conv (fun f => blockLoop f acc (setToks st (flats ss ++ rest)))
       (rev acc ++ asts ss) (setToks st (lasts prev ss :: rest)).
Proof.
  induction ss as [|s ss IH]; intros F W NE st rest acc prev B; [congruence|].
  apply Forall_cons_iff in F as [Fs F']. destruct W as (Ws & W' & Wa).
  destruct (flat_s_cons s Ws) as (a & r & Ea & Ga & Ba).
  rewrite flats_cons, <- app_assoc.
  assert (RN : flats ss ++ rest <> []).
  { destruct rest; [destruct B|]. destruct (flats ss); discriminate. }
  assert (FO : follow_ok s (flats ss ++ rest)).
  { destruct s; try exact I. destruct ss as [|[] ss']; try contradiction.
    destruct W' as (Wc & _). cbn [wf_s] in Wc. cbn [flats map concat flat_s app].
    split; [split; [left; rewrite Wc; reflexivity|intros _; cbn [not_lparen]; rewrite Wc; discriminate]|rewrite Wc; reflexivity]. }
  eapply (conv_bind (fun f => parseStatement f (setToks st (flat_s s ++ flats ss ++ rest)))
                    (fun f x st1 =>
                       let acc' := if stmt_is_null x then acc else x :: acc in
                       if peekIn st1 block_break_tokens then POk (rev acc') st1 else blockLoop f acc' (advance st1))).
  - exact (Fs st _ RN FO).
  - cbv beta zeta. destruct ss as [|s2 ss'].
    + (* the last statement: the next token ends the block *)
      cbn [flats map concat app]. destruct rest as [|t rest']; [destruct B|]. cbn [brk] in B.
      rewrite peekIn_cons, B. rewrite asts_cons. cbn [asts map filter lasts last].
      destruct (stmt_is_null (ast_s s)); cbn [rev app]; rewrite ?app_nil_r; apply conv_const.
    + pose proof W' as (Ws2 & _). destruct (flat_s_cons s2 Ws2) as (a2 & r2 & Ea2 & Ga2 & Ba2).
      assert (Ef : flats (s2 :: ss') ++ rest = a2 :: (r2 ++ flats ss' ++ rest)).
      { rewrite flats_cons, Ea2, <- app_assoc. reflexivity. }
      rewrite Ef. rewrite peekIn_cons, Ba2. rewrite advance_cons. rewrite <- Ef.
      assert (L : lasts prev (s :: s2 :: ss') = lasts prev (s2 :: ss')) by reflexivity. rewrite L.
      rewrite asts_cons.
      destruct (stmt_is_null (ast_s s)).
      * cbn [app]. apply IH; [exact F'|exact W'|discriminate|exact B].
      * specialize (IH F' W' ltac:(discriminate) st rest (ast_s s :: acc) prev B).
        cbn [rev] in IH. rewrite <- app_assoc in IH. exact IH.
  - intro f. cbn [blockLoop]. rewrite Ea. cbn [app]. rewrite curT_cons, Ga. reflexivity.
Qed.

Lemma brk_is_terminator rest : brk rest -> match rest with t :: _ => inb (ttype t) blockTerminators = true | [] => False end.
Proof. destruct rest; [auto|]. cbn [brk]. rewrite body_terminators_tied. auto. Qed.

(* parseBody: the statements after the current token (which closes the header) up to the terminator *)
Lemma body_parses ss : Forall Ps ss -> wf_ss ss ->
  forall st prev rest, brk rest ->
  conv (fun f => parseBody f (setToks st (prev :: flats ss ++ rest))) (asts ss) (setToks st (lasts prev ss :: rest)).
Proof.
  intros F W st prev rest B. destruct ss as [|s ss].
  - cbn [flats map concat app asts filter lasts]. exists 1%nat. intros fuel Hf. destruct fuel as [|f]; [lia|].
    cbn [parseBody]. destruct rest as [|t r]; [destruct B|]. rewrite peekIn_cons.
    rewrite (brk_is_terminator (t :: r) B). reflexivity.
  - pose proof W as (Ws & _). destruct (flat_s_cons s Ws) as (a & r & Ea & Ga & Ba).
    destruct (block_parses (s :: ss) F W ltac:(discriminate) st rest [] prev B) as (n & Hn).
    exists (S (S n)). intros fuel Hf. destruct fuel as [|[|f]]; try lia.
    cbn [parseBody parseBlockStmt].
    assert (Ef : flats (s :: ss) ++ rest = a :: (r ++ flats ss ++ rest)).
    { rewrite flats_cons, Ea, <- app_assoc. reflexivity. }
    rewrite Ef. rewrite peekIn_cons. rewrite body_terminators_tied, Ba. rewrite advance_cons. rewrite <- Ef.
    rewrite Hn by lia. reflexivity.
Qed.

(* the token the parser stands on after the @elseif chain *)
Fixpoint elast (prev : token) (l : list (token * token * token * cst * list sst)) : token :=
  match l with
  | [] => prev
  | (_, _, erp, _, eb) :: l' => elast (lasts erp eb) l'
  end.

(* the @elseif chain *)
Lemma elifs_parse : forall elifs,
  Forall (fun e => match e with (_, _, _, _, eb) => Forall Ps eb end) elifs -> wf_elifs elifs ->
  forall st prev tail acc,
  (match tail with t :: _ => tok_eqb (ttype t) T_ELSE_IF = false /\ brk tail | [] => False end) ->
  conv (fun f => elseIfLoop f acc (setToks st (prev :: concat (map flat_elif elifs) ++ tail)))
       (Some (rev acc ++ map ast_elif elifs))
       (setToks st (elast prev elifs :: tail)).
Proof.
  induction elifs as [|[[[[ke elp] erp] ec] eb] elifs IH]; intros F W st prev tail acc T.
  - cbn [map concat app]. rewrite app_nil_r. destruct tail as [|t r]; [destruct T|]. destruct T as [T1 T2].
    exists 1%nat. intros fuel Hf. destruct fuel as [|f]; [lia|]. cbn [elseIfLoop].
    rewrite peekIs_cons, T1. reflexivity.
  - apply Forall_cons_iff in F as [Fb F']. destruct W as (Hke & Hlp & Hrp & Wc & Wb & W').
    cbn [map concat flat_elif]. rewrite <- !app_assoc. cbn [app]. rewrite <- !app_assoc. cbn [app].
    set (more := concat (map flat_elif elifs) ++ tail).
    assert (Bm : brk more).
    { subst more. destruct elifs as [|[[[[k2 a2] b2] c2] d2] e2]; cbn [map concat app].
      - destruct tail; [destruct T|]. exact (proj2 T).
      - destruct W' as (H2 & _). cbn [flat_elif app brk]. rewrite H2. reflexivity. }
    destruct (flat_nonempty ec) as (c0 & cr & Ec).
    eapply (conv_bind (fun f => parseExpression f P_LOWEST (setToks st (flat ec ++ erp :: flats eb ++ more)))
                      (fun f c st2 =>
                         let '(ok, st3) := expectPeek st2 T_RPAREN in
                         if negb ok then POk None st3 else
                         match parseBody f st3 with
                         | POk b st4 => elseIfLoop f ((c, b) :: acc) st4
                         | POOF => POOF
                         end) _ (ast ec) (setToks st (lastc ec :: erp :: flats eb ++ more))).
    + apply parse_of_tokens_is_the_tree; [exact Wc|left; rewrite Hrp; reflexivity|].
      intros _. cbn [not_lparen]. rewrite Hrp. discriminate.
    + cbv beta. rewrite (expectPeek_ok _ _ _ _ _ Hrp). cbn [negb].
      eapply (conv_bind0 (fun f => parseBody f (setToks st (erp :: flats eb ++ more)))
                         (fun f b st4 => elseIfLoop f ((ast ec, b) :: acc) st4)).
      * exact (body_parses eb Fb Wb st erp more Bm).
      * cbv beta. subst more.
        specialize (IH F' W' st (lasts erp eb) tail ((ast ec, asts eb) :: acc) T).
        cbn [rev map ast_elif elast] in IH |- *. rewrite <- app_assoc in IH. cbn [app] in IH. exact IH.
    + intro f. cbn [elseIfLoop]. rewrite peekIs_cons, Hke. change (tok_eqb T_ELSE_IF T_ELSE_IF) with true. cbn [negb].
      rewrite !advance_cons. rewrite Ec. cbn [app]. rewrite advance_cons. reflexivity.
Qed.

(* ---------- single statements *)
Lemma Forall_Ps_of_size n (IH : forall s, (size_s s <= n)%nat -> wf_s s -> Ps s) :
  forall ss, (sizes ss <= n)%nat -> wf_ss ss -> Forall Ps ss.
Proof.
  induction ss as [|s ss IHs]; intros Hs W; [constructor|].
  cbn [sizes fold_right] in Hs. fold (sizes ss) in Hs. destruct W as (Ws & W' & _).
  constructor; [apply IH; [lia|exact Ws]|apply IHs; [lia|exact W']].
Qed.

Lemma parseStatement_at f st a r t :
  ttype a = t -> parseStatement (S f) (setToks st (a :: r)) =
  (fun st0 => match t with
   | T_HTML => POk (SHtml (eline a) (tlit a)) st0
   | T_LBRACES | T_SEMI => parseBracesStmt f st0
   | T_BREAK => POk SBreak st0
   | T_CONTINUE => POk SContinue st0
   | T_BREAK_IF => parseCondDirective f SBreakIf st0
   | T_CONTINUE_IF => parseCondDirective f SContinueIf st0
   | T_RBRACES => POk SNull st0
   | _ => parseStatement (S f) st0
   end) (setToks st (a :: r)).
Proof.
  intro H. cbv beta. destruct t; try reflexivity; cbn [parseStatement]; rewrite curT_cons, H; reflexivity.
Qed.

Lemma cond_directive_parses mk kw lp rp c st rest :
  ttype lp = T_LPAREN -> ttype rp = T_RPAREN -> wf c ->
  conv (fun f => parseCondDirective f mk (setToks st (kw :: lp :: flat c ++ rp :: rest)))
       (mk (eline kw) (ast c)) (setToks st (rp :: rest)).
Proof.
  intros Hlp Hrp Wc. destruct (flat_nonempty c) as (c0 & cr & Ec).
  eapply (conv_ext _ (fun f => match parseExpression f P_LOWEST (setToks st (flat c ++ rp :: rest)) with
                               | POk e st2 => let '(ok2, st3) := expectPeek st2 T_RPAREN in
                                              if ok2 then POk (mk (eline kw) e) st3 else POk SNull st3
                               | POOF => POOF end)).
  - intro f. unfold parseCondDirective. rewrite curT_cons. rewrite (expectPeek_ok _ _ _ _ _ Hlp). cbn [negb].
    rewrite Ec. cbn [app]. rewrite advance_cons. reflexivity.
  - eapply (conv_bind0 (fun f => parseExpression f P_LOWEST (setToks st (flat c ++ rp :: rest)))
                       (fun f e st2 => let '(ok2, st3) := expectPeek st2 T_RPAREN in
                                       if ok2 then POk (mk (eline kw) e) st3 else POk SNull st3)).
    + apply parse_of_tokens_is_the_tree; [exact Wc|left; rewrite Hrp; reflexivity|].
      intros _. cbn [not_lparen]. rewrite Hrp. discriminate.
    + cbv beta. rewrite (expectPeek_ok _ _ _ _ _ Hrp). apply conv_const.
Qed.

Lemma conv_shift {A} (F G : nat -> pres A) a s : (forall f, G (S f) = F f) -> conv F a s -> conv G a s.
Proof. intros E (n & H). exists (S n). intros fuel Hf. destruct fuel as [|f]; [lia|]. rewrite E. apply H. lia. Qed.

Lemma else_parses (els : option (token * list sst)) endt st prev rest :
  (match els with Some (_, eb) => Forall Ps eb | None => True end) -> wf_else els -> ttype endt = T_END ->
  forall (mk : option (list stmt) -> stmt),
  conv (fun f =>
          match (if peekIs (setToks st (prev :: flat_else flats els ++ endt :: rest)) T_ELSE
                 then match parseBody f (advance (setToks st (prev :: flat_else flats els ++ endt :: rest))) with
                      | POk a s => POk (Some a) s | POOF => POOF end
                 else POk None (setToks st (prev :: flat_else flats els ++ endt :: rest))) with
          | POk alt st9 => let '(ok, st10) := expectPeek st9 T_END in if ok then POk (mk alt) st10 else POk SNull st10
          | POOF => POOF
          end)
       (mk (match els with Some (_, eb) => Some (asts eb) | None => None end)) (setToks st (endt :: rest)).
Proof.
  intros F W He mk. destruct els as [[te eb]|]; cbn [flat_else app].
  - destruct W as [Hte Wb]. rewrite peekIs_cons, Hte. change (tok_eqb T_ELSE T_ELSE) with true. cbv match.
    rewrite advance_cons.
    assert (B : brk (endt :: rest)) by (cbn; rewrite He; reflexivity).
    destruct (body_parses eb F Wb st te (endt :: rest) B) as (n & Hn).
    exists n. intros fuel Hf. rewrite Hn by exact Hf. rewrite (expectPeek_ok _ _ _ _ _ He). reflexivity.
  - rewrite peekIs_cons, He. change (tok_eqb T_END T_ELSE) with false. cbv match.
    rewrite (expectPeek_ok _ _ _ _ _ He). apply conv_const.
Qed.

Lemma parseStatement_if f st0 :
  ttype (curT st0) = T_IF -> parseStatement (S f) st0 =
  (let ln := eline (curT st0) in
   let '(ok, st1) := expectPeek st0 T_LPAREN in
   if negb ok then POk SNull st1 else
   do (c, st2) <- parseExpression f P_LOWEST (advance st1);
   let '(ok2, st3) := expectPeek st2 T_RPAREN in
   if negb ok2 then POk SNull st3 else
   do (cons, st4) <- parseBody f st3;
   do (alts, st5) <- elseIfLoop f [] st4;
   match alts with
   | None => POk SNull st5
   | Some alts' =>
     if peekIs st5 T_ELSE then
       do (alt, st6) <- parseBody f (advance st5);
       if peekIs st6 T_ELSE_IF
       then POk SNull (addErr st6 (eline (peekT st6)) (fmt ErrElseifCannotFollowElse []))
       else let '(ok3, st7) := expectPeek st6 T_END in
            if ok3 then POk (SIf ln c cons alts' (Some alt)) st7 else POk SNull st7
     else let '(ok3, st7) := expectPeek st5 T_END in
          if ok3 then POk (SIf ln c cons alts' None) st7 else POk SNull st7
   end).
Proof. intro H. cbn [parseStatement]. rewrite H. reflexivity. Qed.

Lemma parseStatement_each f st0 :
  ttype (curT st0) = T_EACH -> parseStatement (S f) st0 =
  (let ln := eline (curT st0) in
   let '(ok, st1) := expectPeek st0 T_LPAREN in
   if negb ok then POk SNull st1 else
   let st2 := advance st1 in
   let var := tlit (curT st2) in
   let '(ok2, st3) := expectPeek st2 T_IN in
   if negb ok2 then POk SNull st3 else
   do (arr, st4) <- parseExpression f P_LOWEST (advance st3);
   let '(ok3, st5) := expectPeek st4 T_RPAREN in
   if negb ok3 then POk SNull st5 else
   do (body, st6) <- parseBody f st5;
   do (alt, st7) <- (if peekIs st6 T_ELSE
                     then do (a, s) <- parseBody f (advance st6); POk (Some a) s
                     else POk None st6);
   let '(ok4, st8) := expectPeek st7 T_END in
   if ok4 then POk (SEach ln var arr body alt) st8 else POk SNull st8).
Proof. intro H. cbn [parseStatement]. rewrite H. reflexivity. Qed.


(* ---------- the header of @for *)
Lemma first_not_stop c : wf c -> exists a r, flat c = a :: r /\ inb (ttype a) expr_stop_tokens = false.
Proof.
  induction c as [t|lp rp c IHc|o c1 c2 IHc1 IHc2|o c IHc|o c IHc|q col c1 c2 c3 IHc1 IHc2 IHc3|lb rb c1 c2 IHc1 IHc2|dot name c IHc|dot name lp rp c args IHc IHargs|lb rb els IHels] using cst_ind';
    cbn [wf flat].
  - intro W. exists t, []. split; [reflexivity|]. unfold atom_ast in W.
    destruct (ttype t); try reflexivity; cbn in W; congruence.
  - intros (H & _). exists lp, (flat c ++ [rp]). split; [reflexivity|]. rewrite H. reflexivity.
  - intros (_ & W & _). destruct (IHc1 W) as (a & r & -> & E). exists a, (r ++ o :: flat c2). split; [reflexivity|exact E].
  - intros (H & _). exists o, (flat c). split; [reflexivity|]. destruct (ttype o); try discriminate H; reflexivity.
  - intros (_ & W & _). destruct (IHc W) as (a & r & -> & E). exists a, (r ++ [o]). split; [reflexivity|exact E].
  - intros (_ & _ & W & _). destruct (IHc1 W) as (a & r & -> & E). eexists a, _. split; [reflexivity|exact E].
  - intros (_ & _ & W & _). destruct (IHc1 W) as (a & r & -> & E). eexists a, _. split; [reflexivity|exact E].
  - intros (_ & _ & W & _). destruct (IHc W) as (a & r & -> & E). eexists a, _. split; [reflexivity|exact E].
  - intros (_ & _ & _ & _ & W & _). destruct (IHc W) as (a & r & -> & E). eexists a, _. split; [reflexivity|exact E].
  - intros (H & _). eexists lb, _. split; [reflexivity|]. rewrite H. reflexivity.
Qed.

Lemma not_stop_types a : inb (ttype a) expr_stop_tokens = false ->
  tok_eqb (ttype a) T_RBRACES = false /\ tok_eqb (ttype a) T_SEMI = false /\ tok_eqb (ttype a) T_RPAREN = false.
Proof. destruct (ttype a); cbn; intro H; try discriminate H; repeat split. Qed.

(* an assignment x = c inside a header, entered on the token before it (prev) *)
Lemma header_assign_parses st prev id eq c rest :
  ttype id = T_IDENT -> ttype eq = T_ASSIGN -> wf c -> stops P_LOWEST rest -> not_lparen rest -> rest <> [] ->
  conv (fun f => parseEmbeddedCode f (setToks st (prev :: id :: eq :: flat c ++ rest)))
       (SAssign (eline id) (tlit id) (ast c)) (setToks st (lastc c :: rest)).
Proof.
  intros Hid Heq Wc Hs Hn RN. destruct (first_not_rbraces c Wc) as (a & r' & Ea & Ha).
  eapply (conv_ext _ (fun f => match parseExpression f P_LOWEST (setToks st (flat c ++ rest)) with
                               | POk v st3 => POk (SAssign (eline id) (tlit id) v) st3
                               | POOF => POOF end)).
  { intro f. unfold parseEmbeddedCode. rewrite advance_cons.
    unfold curIs. rewrite curT_cons, Hid. change (tok_eqb T_IDENT T_RBRACES) with false. cbv match.
    rewrite peekIs_cons, Heq. change (tok_eqb T_IDENT T_IDENT && tok_eqb T_ASSIGN T_ASSIGN) with true. cbv match.
    unfold parseAssignStmt. rewrite curT_cons. rewrite (expectPeek_ok _ _ _ _ _ Heq). cbn [negb].
    rewrite Ea. cbn [app]. rewrite advance_cons. unfold curIs. rewrite curT_cons, Ha. reflexivity. }
  eapply (conv_bind0 (fun f => parseExpression f P_LOWEST (setToks st (flat c ++ rest)))
                     (fun f v st3 => POk (SAssign (eline id) (tlit id) v) st3)).
  - apply parse_of_tokens_is_the_tree; [exact Wc|exact Hs|intros _; exact Hn].
  - apply conv_const.
Qed.

Definition last_init (prev : token) (i : option (token * token * cst)) : token :=
  match i with Some (_, _, c) => lastc c | None => prev end.
Definition last_cond (prev : token) (c : option cst) : token := match c with Some c => lastc c | None => prev end.
Definition last_post (prev : token) (p : option fpc) : token :=
  match p with Some (FPE c) | Some (FPA _ _ c) => lastc c | None => prev end.

Lemma for_init_parses st lp init s1 tail :
  wf_init init -> ttype s1 = T_SEMI ->
  conv (fun f => if negb (peekIs (setToks st (lp :: flat_init init ++ s1 :: tail)) T_SEMI)
                 then parseEmbeddedCode f (setToks st (lp :: flat_init init ++ s1 :: tail))
                 else POk SNull (setToks st (lp :: flat_init init ++ s1 :: tail)))
       (ast_init init) (setToks st (last_init lp init :: s1 :: tail)).
Proof.
  intros W Hs. destruct init as [[[id eq] c]|]; cbn [flat_init ast_init last_init app].
  - destruct W as (Hid & Heq & Wc). rewrite peekIs_cons, Hid. change (tok_eqb T_IDENT T_SEMI) with false. cbn [negb].
    apply header_assign_parses; try assumption.
    + left. rewrite Hs. reflexivity.
    + cbn [not_lparen]. rewrite Hs. discriminate.
    + discriminate.
  - rewrite peekIs_cons, Hs. change (tok_eqb T_SEMI T_SEMI) with true. cbn [negb]. apply conv_const.
Qed.

Lemma for_cond_parses st s1 cond s2 tail :
  wf_cond cond -> ttype s2 = T_SEMI ->
  conv (fun f => if negb (peekIs (setToks st (s1 :: flat_cond cond ++ s2 :: tail)) T_SEMI)
                 then parseExpression f P_LOWEST (advance (setToks st (s1 :: flat_cond cond ++ s2 :: tail)))
                 else POk ENull (setToks st (s1 :: flat_cond cond ++ s2 :: tail)))
       (ast_cond cond) (setToks st (last_cond s1 cond :: s2 :: tail)).
Proof.
  intros W Hs. destruct cond as [c|]; cbn [flat_cond ast_cond last_cond app].
  - destruct (first_not_stop c W) as (a & r' & Ea & Ha). destruct (not_stop_types a Ha) as (_ & Hsemi & _).
    rewrite Ea. cbn [app]. rewrite peekIs_cons, Hsemi. cbn [negb]. rewrite advance_cons.
    change (a :: r' ++ s2 :: tail) with ((a :: r') ++ s2 :: tail). rewrite <- Ea.
    apply parse_of_tokens_is_the_tree; [exact W|left; rewrite Hs; reflexivity|].
    intros _. cbn [not_lparen]. rewrite Hs. discriminate.
  - rewrite peekIs_cons, Hs. change (tok_eqb T_SEMI T_SEMI) with true. cbn [negb]. apply conv_const.
Qed.

Lemma for_post_parses st s2 post rp tail :
  wf_post post -> ttype rp = T_RPAREN ->
  conv (fun f => if negb (peekIs (setToks st (s2 :: flat_post post ++ rp :: tail)) T_RPAREN)
                 then parseEmbeddedCode f (setToks st (s2 :: flat_post post ++ rp :: tail))
                 else POk SNull (setToks st (s2 :: flat_post post ++ rp :: tail)))
       (ast_post post) (setToks st (last_post s2 post :: rp :: tail)).
Proof.
  intros W Hrp. destruct post as [[c|id eq c]|]; cbn [flat_post ast_post last_post app].
  - (* an expression *)
    destruct (first_not_stop c W) as (a & r' & Ea & Ha). destruct (not_stop_types a Ha) as (Hrb & _ & Hrpn).
    rewrite Ea. cbn [app]. rewrite peekIs_cons, Hrpn. cbn [negb].
    eapply (conv_ext _ (fun f => match parseExpression f P_LOWEST (setToks st (flat c ++ rp :: tail)) with
                                 | POk e st1 => POk (SExpr e) (if peekIs st1 T_RBRACES then advance st1 else st1)
                                 | POOF => POOF end)).
    { intro f. unfold parseEmbeddedCode. rewrite advance_cons.
      unfold curIs. rewrite curT_cons, Hrb. cbv match.
      assert (C2 : tok_eqb (ttype a) T_IDENT && peekIs (setToks st (a :: r' ++ rp :: tail)) T_ASSIGN = false).
      { apply andb_false_iff. right. unfold peekIs, peekT. cbn [toks setToks].
        destruct r' as [|b r'']; cbn [app].
        - rewrite Hrp. reflexivity.
        - assert (N : ttype b <> T_ASSIGN) by (apply (no_assign c W); rewrite Ea; right; left; reflexivity).
          destruct (ttype b); try reflexivity. congruence. }
      rewrite C2. rewrite Ea. reflexivity. }
    eapply (conv_bind0 (fun f => parseExpression f P_LOWEST (setToks st (flat c ++ rp :: tail)))
                       (fun f e st1 => POk (SExpr e) (if peekIs st1 T_RBRACES then advance st1 else st1))).
    + apply parse_of_tokens_is_the_tree; [exact W|left; rewrite Hrp; reflexivity|].
      intros _. cbn [not_lparen]. rewrite Hrp. discriminate.
    + cbv beta. rewrite peekIs_cons, Hrp. change (tok_eqb T_RPAREN T_RBRACES) with false. cbv match. apply conv_const.
  - (* an assignment *)
    destruct W as (Hid & Heq & Wc). rewrite peekIs_cons, Hid. change (tok_eqb T_IDENT T_RPAREN) with false. cbn [negb].
    apply header_assign_parses; try assumption.
    + left. rewrite Hrp. reflexivity.
    + cbn [not_lparen]. rewrite Hrp. discriminate.
    + discriminate.
  - rewrite peekIs_cons, Hrp. change (tok_eqb T_RPAREN T_RPAREN) with true. cbn [negb]. apply conv_const.
Qed.

Lemma parseStatement_for f st0 :
  ttype (curT st0) = T_FOR -> parseStatement (S f) st0 =
  (let ln := eline (curT st0) in
   let '(ok, st1) := expectPeek st0 T_LPAREN in
   if negb ok then POk SNull st1 else
   do (init, st2) <- (if negb (peekIs st1 T_SEMI) then parseEmbeddedCode f st1 else POk SNull st1);
   let '(ok2, st3) := expectPeek st2 T_SEMI in
   if negb ok2 then POk SNull st3 else
   do (c, st4) <- (if negb (peekIs st3 T_SEMI) then parseExpression f P_LOWEST (advance st3)
                   else POk ENull st3);
   let '(ok3, st5) := expectPeek st4 T_SEMI in
   if negb ok3 then POk SNull st5 else
   do (post, st6) <- (if negb (peekIs st5 T_RPAREN) then parseEmbeddedCode f st5 else POk SNull st5);
   let '(ok4, st7) := expectPeek st6 T_RPAREN in
   if negb ok4 then POk SNull st7 else
   do (body, st8) <- parseBody f st7;
   do (alt, st9) <- (if peekIs st8 T_ELSE
                     then do (a, s) <- parseBody f (advance st8); POk (Some a) s
                     else POk None st8);
   let '(ok5, st10) := expectPeek st9 T_END in
   if ok5 then POk (SFor ln init c post body alt) st10 else POk SNull st10).
Proof. intro H. cbn [parseStatement]. rewrite H. reflexivity. Qed.

Lemma elifs_sizes n (IH : forall s, (size_s s <= n)%nat -> wf_s s -> Ps s) :
  forall elifs, (fold_right (fun e m => match e with (_, _, _, _, eb) => sizes eb + m end)%nat O elifs <= n)%nat ->
  wf_elifs elifs -> Forall (fun e => match e with (_, _, _, _, eb) => Forall Ps eb end) elifs.
Proof.
  induction elifs as [|[[[[ke elp] erp] ec] eb] l IHl]; intros Hs W; [constructor|].
  cbn [fold_right] in Hs. destruct W as (_ & _ & _ & _ & Wb & W').
  constructor; [apply (Forall_Ps_of_size n IH); [lia|exact Wb]|apply IHl; [lia|exact W']].
Qed.

(* a statement of a {{ }} block: no error was recorded and the block goes on or is closed *)
Lemma braces_stmt_ok st toks0 s sfin :
  conv (fun f => parseEmbeddedCode f (setToks st toks0)) s (setToks st sfin) ->
  curIs (setToks st sfin) T_RBRACES || peekIn (setToks st sfin) [T_RBRACES; T_SEMI] = true ->
  conv (fun f => parseBracesStmt f (setToks st toks0)) s (setToks st sfin).
Proof.
  intros H C. unfold parseBracesStmt.
  eapply (conv_bind0 (fun f => parseEmbeddedCode f (setToks st toks0))
                     (fun f x st1 =>
                        if negb (Nat.eqb (List.length (errs st1)) (List.length (errs (setToks st toks0)))) || curIs st1 T_RBRACES ||
                           peekIn st1 [T_RBRACES; T_SEMI]
                        then POk x st1
                        else match tokenString T_RBRACES, tokenString (ttype (peekT st1)) with
                             | Some a, Some b => POk SNull (addErr st1 (eline (peekT st1)) (fmt ErrWrongNextToken [a; b]))
                             | _, _ => POk SNull (setPanic st1)
                             end)); [exact H|].
  cbv beta. cbn [errs setToks]. rewrite Nat.eqb_refl. cbn [negb orb]. rewrite C. apply conv_const.
Qed.

Theorem stmt_parses_n : forall n s, (size_s s <= n)%nat -> wf_s s -> Ps s.
Proof.
  induction n as [|n IH]; intros s Hs W.
  { destruct s; cbn in Hs; lia. }
  destruct s; intros st rest RN FO.
  - (* text *)
    cbn [wf_s] in W. cbn [flat_s app ast_s last_s]. exists 1%nat. intros fuel Hf. destruct fuel as [|f]; [lia|].
    rewrite (parseStatement_at f st t _ T_HTML W). reflexivity.
  - (* {{ c }} *)
    destruct W as (Hlb & Hrb & Wc). cbn [flat_s ast_s last_s app]. rewrite <- app_assoc. cbn [app].
    destruct (first_not_rbraces c Wc) as (a & r' & Ea & Ha).
    apply (conv_shift (fun f => parseBracesStmt f (setToks st (lb :: flat c ++ rb :: rest)))).
    { intro f. exact (parseStatement_at f st lb _ T_LBRACES Hlb). }
    apply braces_stmt_ok; [|unfold curIs; rewrite curT_cons, Hrb; reflexivity].
    eapply (conv_ext _ (fun f => match parseExpression f P_LOWEST (setToks st (flat c ++ rb :: rest)) with
                                 | POk e st1 => POk (SExpr e) (if peekIs st1 T_RBRACES then advance st1 else st1)
                                 | POOF => POOF end)).
    { intro f. unfold parseEmbeddedCode. rewrite Ea. cbn [app]. rewrite advance_cons.
      unfold curIs. rewrite curT_cons, Ha. cbv match.
      assert (C2 : tok_eqb (ttype a) T_IDENT && peekIs (setToks st (a :: r' ++ rb :: rest)) T_ASSIGN = false).
      { apply andb_false_iff. right. unfold peekIs, peekT. cbn [toks setToks].
        destruct r' as [|b r'']; cbn [app].
        - rewrite Hrb. reflexivity.
        - assert (N : ttype b <> T_ASSIGN) by (apply (no_assign c Wc); rewrite Ea; right; left; reflexivity).
          destruct (ttype b); try reflexivity. congruence. }
      rewrite C2. reflexivity. }
    eapply (conv_bind0 (fun f => parseExpression f P_LOWEST (setToks st (flat c ++ rb :: rest)))
                       (fun f e st1 => POk (SExpr e) (if peekIs st1 T_RBRACES then advance st1 else st1))).
    + apply parse_of_tokens_is_the_tree; [exact Wc|left; rewrite Hrb; reflexivity|].
      intros _. cbn [not_lparen]. rewrite Hrb. discriminate.
    + cbv beta. rewrite peekIs_cons, Hrb. change (tok_eqb T_RBRACES T_RBRACES) with true. cbv match.
      rewrite advance_cons. apply conv_const.
  - (* {{ x = c *)
    destruct W as (Hlb & Hid & Heq & Wc). destruct FO as [[FS FD] FN]. cbn [flat_s ast_s last_s app].
    destruct (first_not_rbraces c Wc) as (a & r' & Ea & Ha).
    apply (conv_shift (fun f => parseBracesStmt f (setToks st (lb :: id :: eq :: flat c ++ rest)))).
    { intro f. exact (parseStatement_at f st lb _ T_LBRACES Hlb). }
    apply braces_stmt_ok; [|destruct rest as [|t0 rest0]; [destruct FN|rewrite peekIn_cons, FN; apply orb_true_r]].
    eapply (conv_ext _ (fun f => match parseExpression f P_LOWEST (setToks st (flat c ++ rest)) with
                                 | POk v st3 => POk (SAssign (eline id) (tlit id) v) st3
                                 | POOF => POOF end)).
    { intro f. unfold parseEmbeddedCode. rewrite advance_cons.
      unfold curIs. rewrite curT_cons, Hid. change (tok_eqb T_IDENT T_RBRACES) with false. cbv match.
      rewrite peekIs_cons, Heq. change (tok_eqb T_IDENT T_IDENT && tok_eqb T_ASSIGN T_ASSIGN) with true. cbv match.
      unfold parseAssignStmt. rewrite curT_cons. rewrite (expectPeek_ok _ _ _ _ _ Heq). cbn [negb].
      rewrite Ea. cbn [app]. rewrite advance_cons. unfold curIs. rewrite curT_cons, Ha. reflexivity. }
    eapply (conv_bind0 (fun f => parseExpression f P_LOWEST (setToks st (flat c ++ rest)))
                       (fun f v st3 => POk (SAssign (eline id) (tlit id) v) st3)).
    + apply parse_of_tokens_is_the_tree; assumption.
    + apply conv_const.
  - (* }} alone *)
    cbn [wf_s] in W. cbn [flat_s app ast_s last_s]. exists 1%nat. intros fuel Hf. destruct fuel as [|f]; [lia|].
    rewrite (parseStatement_at f st rb _ T_RBRACES W). reflexivity.
  - (* @if *)
    apply wf_if_unfold in W. destruct W as (Hkw & Hlp & Hrp & He & Wc & Wb & Wel & Wels).
    cbn [size_s] in Hs. fold (sizes body) in Hs.
    assert (Fb : Forall Ps body) by (apply (Forall_Ps_of_size n IH); [lia|exact Wb]).
    assert (Fe : Forall (fun e => match e with (_, _, _, _, eb) => Forall Ps eb end) elifs)
      by (apply (elifs_sizes n IH); [unfold sizes; lia|exact Wel]).
    assert (Fl : match els with Some (_, eb) => Forall Ps eb | None => True end).
    { destruct els as [[te eb]|]; [|exact I]. destruct Wels as [_ Wx]. apply (Forall_Ps_of_size n IH); [unfold sizes in *; lia|exact Wx]. }
    cbn [flat_s last_s]. fold (flats body). change (concat (map _ elifs)) with (concat (map flat_elif elifs)).
    change (match els with Some (te, eb) => te :: concat (map flat_s eb) | None => [] end) with (flat_else flats els).
    set (tail := flat_else flats els ++ endt :: rest).
    assert (Etoks : (kw :: lp :: flat c ++ rp :: flats body ++ concat (map flat_elif elifs) ++ flat_else flats els ++ [endt]) ++ rest =
                    kw :: lp :: flat c ++ rp :: flats body ++ concat (map flat_elif elifs) ++ tail).
    { subst tail. cbn [app]. rewrite <- !app_assoc. cbn [app]. rewrite <- !app_assoc. reflexivity. }
    rewrite Etoks.
    assert (Ttail : match tail with t :: _ => tok_eqb (ttype t) T_ELSE_IF = false /\ brk tail | [] => False end).
    { subst tail. destruct els as [[te eb]|]; cbn [flat_else app brk].
      - destruct Wels as [Hte _]. rewrite Hte. split; reflexivity.
      - rewrite He. split; reflexivity. }
    assert (Bel : brk (concat (map flat_elif elifs) ++ tail)).
    { destruct elifs as [|[[[[k2 a2] b2] c2] d2] e2]; cbn [map concat app].
      - destruct tail; [destruct Ttail|]. exact (proj2 Ttail).
      - destruct Wel as (H2 & _). cbn [flat_elif app brk]. rewrite H2. reflexivity. }
    destruct (flat_nonempty c) as (c0 & cr & Ec).
    apply (conv_shift (fun f =>
      match parseExpression f P_LOWEST (setToks st (flat c ++ rp :: flats body ++ concat (map flat_elif elifs) ++ tail)) with
      | POk cc st2 =>
        let '(ok2, st3) := expectPeek st2 T_RPAREN in
        if negb ok2 then POk SNull st3 else
        do (cons, st4) <- parseBody f st3;
        do (alts, st5) <- elseIfLoop f [] st4;
        match alts with
        | None => POk SNull st5
        | Some alts' =>
          if peekIs st5 T_ELSE then
            do (alt, st6) <- parseBody f (advance st5);
            if peekIs st6 T_ELSE_IF
            then POk SNull (addErr st6 (eline (peekT st6)) (fmt ErrElseifCannotFollowElse []))
            else let '(ok3, st7) := expectPeek st6 T_END in
                 if ok3 then POk (SIf (eline kw) cc cons alts' (Some alt)) st7 else POk SNull st7
          else let '(ok3, st7) := expectPeek st5 T_END in
               if ok3 then POk (SIf (eline kw) cc cons alts' None) st7 else POk SNull st7
        end
      | POOF => POOF
      end)).
    { intro f. rewrite parseStatement_if by (rewrite curT_cons; exact Hkw). cbv zeta. rewrite curT_cons.
      rewrite (expectPeek_ok _ _ _ _ _ Hlp). cbn [negb]. rewrite Ec. cbn [app]. rewrite advance_cons. reflexivity. }
    eapply (conv_bind0 _ _ (ast c) (setToks st (lastc c :: rp :: flats body ++ concat (map flat_elif elifs) ++ tail))).
    { apply parse_of_tokens_is_the_tree; [exact Wc|left; rewrite Hrp; reflexivity|].
      intros _. cbn [not_lparen]. rewrite Hrp. discriminate. }
    cbv beta. rewrite (expectPeek_ok _ _ _ _ _ Hrp). cbn [negb].
    eapply (conv_bind0 _ _ (asts body) (setToks st (lasts rp body :: concat (map flat_elif elifs) ++ tail))).
    { exact (body_parses body Fb Wb st rp _ Bel). }
    cbv beta.
    eapply (conv_bind0 _ _ (Some (map ast_elif elifs)) (setToks st (elast (lasts rp body) elifs :: tail))).
    { exact (elifs_parse elifs Fe Wel st (lasts rp body) tail [] Ttail). }
    cbv beta. subst tail.
    destruct els as [[te eb]|]; cbn [flat_else app].
    + destruct Wels as [Hte Wx]. rewrite peekIs_cons, Hte. change (tok_eqb T_ELSE T_ELSE) with true. cbv match.
      rewrite advance_cons.
      assert (B : brk (endt :: rest)) by (cbn; rewrite He; reflexivity).
      eapply (conv_bind0 _ _ (asts eb) (setToks st (lasts te eb :: endt :: rest))).
      { exact (body_parses eb Fl Wx st te (endt :: rest) B). }
      cbv beta. rewrite peekIs_cons, He. change (tok_eqb T_END T_ELSE_IF) with false. cbv match.
      rewrite (expectPeek_ok _ _ _ _ _ He). apply conv_const.
    + rewrite peekIs_cons, He. change (tok_eqb T_END T_ELSE) with false. cbv match.
      rewrite (expectPeek_ok _ _ _ _ _ He). apply conv_const.
  - (* @each *)
    apply (proj1 (wf_each_unfold _ _ _ _ _ _ _ _ _)) in W. destruct W as (Hkw & Hlp & Hin & Hrp & He & Wc & Wb & Wels).
    cbn [size_s] in Hs. fold (sizes body) in Hs.
    assert (Fb : Forall Ps body) by (apply (Forall_Ps_of_size n IH); [lia|exact Wb]).
    assert (Fl : match els with Some (_, eb) => Forall Ps eb | None => True end).
    { destruct els as [[te eb]|]; [|exact I]. destruct Wels as [_ Wx]. apply (Forall_Ps_of_size n IH); [unfold sizes in *; lia|exact Wx]. }
    cbn [flat_s last_s]. fold (flats body).
    change (match els with Some (te, eb) => te :: concat (map flat_s eb) | None => [] end) with (flat_else flats els).
    set (tail := flat_else flats els ++ endt :: rest).
    assert (Etoks : (kw :: lp :: var :: inn :: flat c ++ rp :: flats body ++ flat_else flats els ++ [endt]) ++ rest =
                    kw :: lp :: var :: inn :: flat c ++ rp :: flats body ++ tail).
    { subst tail. cbn [app]. rewrite <- !app_assoc. cbn [app]. rewrite <- !app_assoc. reflexivity. }
    rewrite Etoks.
    assert (Btail : brk tail).
    { subst tail. destruct els as [[te eb]|]; cbn [flat_else app brk].
      - destruct Wels as [Hte _]. rewrite Hte. reflexivity.
      - rewrite He. reflexivity. }
    destruct (flat_nonempty c) as (c0 & cr & Ec).
    apply (conv_shift (fun f =>
      match parseExpression f P_LOWEST (setToks st (flat c ++ rp :: flats body ++ tail)) with
      | POk arr st4 =>
        let '(ok3, st5) := expectPeek st4 T_RPAREN in
        if negb ok3 then POk SNull st5 else
        do (bd, st6) <- parseBody f st5;
        do (alt, st7) <- (if peekIs st6 T_ELSE
                          then do (a, s) <- parseBody f (advance st6); POk (Some a) s
                          else POk None st6);
        let '(ok4, st8) := expectPeek st7 T_END in
        if ok4 then POk (SEach (eline kw) (tlit var) arr bd alt) st8 else POk SNull st8
      | POOF => POOF
      end)).
    { intro f. rewrite parseStatement_each by (rewrite curT_cons; exact Hkw). cbv zeta. rewrite curT_cons.
      rewrite (expectPeek_ok _ _ _ _ _ Hlp). cbn [negb]. rewrite advance_cons. rewrite curT_cons.
      rewrite (expectPeek_ok _ _ _ _ _ Hin). cbn [negb]. rewrite Ec. cbn [app]. rewrite advance_cons. reflexivity. }
    eapply (conv_bind0 _ _ (ast c) (setToks st (lastc c :: rp :: flats body ++ tail))).
    { apply parse_of_tokens_is_the_tree; [exact Wc|left; rewrite Hrp; reflexivity|].
      intros _. cbn [not_lparen]. rewrite Hrp. discriminate. }
    cbv beta. rewrite (expectPeek_ok _ _ _ _ _ Hrp). cbn [negb].
    eapply (conv_bind0 _ _ (asts body) (setToks st (lasts rp body :: tail))).
    { exact (body_parses body Fb Wb st rp _ Btail). }
    cbv beta. subst tail.
    exact (else_parses els endt st (lasts rp body) rest Fl Wels He
             (fun alt => SEach (eline kw) (tlit var) (ast c) (asts body) alt)).
  - (* @for *)
    apply (proj1 (wf_for_unfold _ _ _ _ _ _ _ _ _ _ _)) in W.
    destruct W as (Hkw & Hlp & Hs1 & Hs2 & Hrp & He & Wi & Wc & Wp & Wb & Wels).
    cbn [size_s] in Hs. fold (sizes body) in Hs.
    assert (Fb : Forall Ps body) by (apply (Forall_Ps_of_size n IH); [lia|exact Wb]).
    assert (Fl : match els with Some (_, eb) => Forall Ps eb | None => True end).
    { destruct els as [[te eb]|]; [|exact I]. destruct Wels as [_ Wx]. apply (Forall_Ps_of_size n IH); [unfold sizes in *; lia|exact Wx]. }
    cbn [flat_s last_s ast_s]. fold (flats body). fold (asts body).
    change (match els with Some (te, eb) => te :: concat (map flat_s eb) | None => [] end) with (flat_else flats els).
    change (match els with Some (te, eb) => Some (filter (fun x => negb (stmt_is_null x)) (map ast_s eb)) | None => None end)
      with (match els with Some (te, eb) => Some (asts eb) | None => None end).
    set (tail := flat_else flats els ++ endt :: rest).
    assert (Etoks : (kw :: lp :: flat_init init ++ s1 :: flat_cond cond ++ s2 :: flat_post post ++ rp :: flats body ++ flat_else flats els ++ [endt]) ++ rest =
                    kw :: lp :: flat_init init ++ s1 :: flat_cond cond ++ s2 :: flat_post post ++ rp :: flats body ++ tail).
    { subst tail. cbn [app]. rewrite <- !app_assoc. cbn [app]. rewrite <- !app_assoc. cbn [app]. rewrite <- !app_assoc. cbn [app].
      rewrite <- !app_assoc. reflexivity. }
    rewrite Etoks.
    assert (Btail : brk tail).
    { subst tail. destruct els as [[te eb]|]; cbn [flat_else app brk].
      - destruct Wels as [Hte _]. rewrite Hte. reflexivity.
      - rewrite He. reflexivity. }
    set (t2 := flat_cond cond ++ s2 :: flat_post post ++ rp :: flats body ++ tail).
    set (t4 := flat_post post ++ rp :: flats body ++ tail).
    apply (conv_shift (fun f =>
      match (if negb (peekIs (setToks st (lp :: flat_init init ++ s1 :: t2)) T_SEMI)
             then parseEmbeddedCode f (setToks st (lp :: flat_init init ++ s1 :: t2))
             else POk SNull (setToks st (lp :: flat_init init ++ s1 :: t2))) with
      | POk ini st2 =>
        let '(ok2, st3) := expectPeek st2 T_SEMI in
        if negb ok2 then POk SNull st3 else
        do (cc, st4) <- (if negb (peekIs st3 T_SEMI) then parseExpression f P_LOWEST (advance st3) else POk ENull st3);
        let '(ok3, st5) := expectPeek st4 T_SEMI in
        if negb ok3 then POk SNull st5 else
        do (pst, st6) <- (if negb (peekIs st5 T_RPAREN) then parseEmbeddedCode f st5 else POk SNull st5);
        let '(ok4, st7) := expectPeek st6 T_RPAREN in
        if negb ok4 then POk SNull st7 else
        do (bd, st8) <- parseBody f st7;
        do (alt, st9) <- (if peekIs st8 T_ELSE
                          then do (a, s) <- parseBody f (advance st8); POk (Some a) s
                          else POk None st8);
        let '(ok5, st10) := expectPeek st9 T_END in
        if ok5 then POk (SFor (eline kw) ini cc pst bd alt) st10 else POk SNull st10
      | POOF => POOF
      end)).
    { intro f. rewrite parseStatement_for by (rewrite curT_cons; exact Hkw). cbv zeta. rewrite curT_cons.
      rewrite (expectPeek_ok _ _ _ _ _ Hlp). cbn [negb]. reflexivity. }
    eapply (conv_bind0 _ _ (ast_init init) (setToks st (last_init lp init :: s1 :: t2))).
    { exact (for_init_parses st lp init s1 t2 Wi Hs1). }
    cbv beta. rewrite (expectPeek_ok _ _ _ _ _ Hs1). cbn [negb]. subst t2.
    eapply (conv_bind0 _ _ (ast_cond cond) (setToks st (last_cond s1 cond :: s2 :: t4))).
    { exact (for_cond_parses st s1 cond s2 t4 Wc Hs2). }
    cbv beta. rewrite (expectPeek_ok _ _ _ _ _ Hs2). cbn [negb]. subst t4.
    eapply (conv_bind0 _ _ (ast_post post) (setToks st (last_post s2 post :: rp :: flats body ++ tail))).
    { exact (for_post_parses st s2 post rp (flats body ++ tail) Wp Hrp). }
    cbv beta. rewrite (expectPeek_ok _ _ _ _ _ Hrp). cbn [negb].
    eapply (conv_bind0 _ _ (asts body) (setToks st (lasts rp body :: tail))).
    { exact (body_parses body Fb Wb st rp _ Btail). }
    cbv beta. subst tail.
    exact (else_parses els endt st (lasts rp body) rest Fl Wels He
             (fun alt => SFor (eline kw) (ast_init init) (ast_cond cond) (ast_post post) (asts body) alt)).
  - cbn [wf_s] in W. cbn [flat_s app ast_s last_s]. exists 1%nat. intros fuel Hf. destruct fuel as [|f]; [lia|].
    rewrite (parseStatement_at f st t _ T_BREAK W). reflexivity.
  - cbn [wf_s] in W. cbn [flat_s app ast_s last_s]. exists 1%nat. intros fuel Hf. destruct fuel as [|f]; [lia|].
    rewrite (parseStatement_at f st t _ T_CONTINUE W). reflexivity.
  - destruct W as (Hkw & Hlp & Hrp & Wc). cbn [flat_s ast_s last_s app]. rewrite <- app_assoc. cbn [app].
    apply (conv_shift (fun f => parseCondDirective f SBreakIf (setToks st (kw :: lp :: flat c ++ rp :: rest)))).
    { intro f. exact (parseStatement_at f st kw _ T_BREAK_IF Hkw). }
    apply cond_directive_parses; assumption.
  - destruct W as (Hkw & Hlp & Hrp & Wc). cbn [flat_s ast_s last_s app]. rewrite <- app_assoc. cbn [app].
    apply (conv_shift (fun f => parseCondDirective f SContinueIf (setToks st (kw :: lp :: flat c ++ rp :: rest)))).
    { intro f. exact (parseStatement_at f st kw _ T_CONTINUE_IF Hkw). }
    apply cond_directive_parses; assumption.
Qed.

Theorem stmt_parses s : wf_s s -> Ps s.
Proof. apply (stmt_parses_n (size_s s)). lia. Qed.

Lemma all_Ps ss : wf_ss ss -> Forall Ps ss.
Proof.
  induction ss as [|s ss IH]; intro W; [constructor|]. destruct W as (Ws & W' & _).
  constructor; [apply stmt_parses, Ws|apply IH, W'].
Qed.

(* ---------- whole programs *)
Lemma lastc_legal c : wf c -> tok_eqb (ttype (lastc c)) T_ILLEGAL = false.
Proof.
  induction c as [t|lp rp c IHc|o c1 c2 IHc1 IHc2|o c IHc|o c IHc|q col c1 c2 c3 IHc1 IHc2 IHc3|lb rb c1 c2 IHc1 IHc2|dot name c IHc|dot name lp rp c args IHc IHargs|lb rb els IHels] using cst_ind';
    cbn [wf lastc].
  - intro W. unfold atom_ast in W. destruct (ttype t); try reflexivity. cbn in W. congruence.
  - intros (_ & H & _). rewrite H. reflexivity.
  - intros (_ & _ & W & _). exact (IHc2 W).
  - intros (_ & W & _). exact (IHc W).
  - intros (H & _). destruct (ttype o); try reflexivity. discriminate H.
  - intros (_ & _ & _ & _ & W & _). exact (IHc3 W).
  - intros (_ & H & _). rewrite H. reflexivity.
  - intros (_ & H & _). rewrite H. reflexivity.
  - intros (_ & _ & _ & H & _). rewrite H. reflexivity.
  - intros (_ & H & _). rewrite H. reflexivity.
Qed.

Lemma last_s_legal s : wf_s s -> tok_eqb (ttype (last_s s)) T_ILLEGAL = false.
Proof.
  destruct s; cbn [last_s]; intro W.
  - cbn [wf_s] in W. rewrite W. reflexivity.
  - destruct W as (_ & H & _). rewrite H. reflexivity.
  - destruct W as (_ & _ & _ & Wc). exact (lastc_legal c Wc).
  - cbn [wf_s] in W. rewrite W. reflexivity.
  - apply (proj1 (wf_if_unfold _ _ _ _ _ _ _ _)) in W. destruct W as (_ & _ & _ & H & _). rewrite H. reflexivity.
  - apply (proj1 (wf_each_unfold _ _ _ _ _ _ _ _ _)) in W. destruct W as (_ & _ & _ & _ & H & _). rewrite H. reflexivity.
  - apply (proj1 (wf_for_unfold _ _ _ _ _ _ _ _ _ _ _)) in W. destruct W as (_ & _ & _ & _ & _ & H & _). rewrite H. reflexivity.
  - cbn [wf_s] in W. rewrite W. reflexivity.
  - cbn [wf_s] in W. rewrite W. reflexivity.
  - destruct W as (_ & _ & H & _). rewrite H. reflexivity.
  - destruct W as (_ & _ & H & _). rewrite H. reflexivity.
Qed.

Lemma program_parses : forall ss, wf_ss ss ->
  forall st acc eof, ttype eof = T_EOF ->
  conv (fun f => programLoop f acc (setToks st (flats ss ++ [eof]))) (Some (rev acc ++ asts ss)) (setToks st [eof]).
Proof.
  induction ss as [|s ss IH]; intros W st acc eof He.
  - cbn [flats map concat app asts filter]. rewrite app_nil_r.
    exists 1%nat. intros fuel Hf. destruct fuel as [|f]; [lia|]. cbn [programLoop].
    unfold curIs. rewrite curT_cons, He. reflexivity.
  - pose proof W as (Ws & W' & Wa).
    destruct (flat_s_cons s Ws) as (a & r & Ea & Ga & Ba).
    rewrite flats_cons, <- app_assoc.
    assert (RN : flats ss ++ [eof] <> []) by (destruct (flats ss); discriminate).
    assert (FO : follow_ok s (flats ss ++ [eof])).
    { destruct s; try exact I. destruct ss as [|[] ss']; try contradiction.
      destruct W' as (Wc & _). cbn [wf_s] in Wc. cbn [flats map concat flat_s app].
      split; [split; [left; rewrite Wc; reflexivity|intros _; cbn [not_lparen]; rewrite Wc; discriminate]|rewrite Wc; reflexivity]. }
    assert (NE : tok_eqb (ttype a) T_EOF = false).
    { destruct (tok_eqb (ttype a) T_EOF) eqn:X; [|reflexivity]. apply ParseTotal.tok_eqb_eq in X. rewrite X in Ga. discriminate Ga. }
    eapply (conv_bind (fun f => parseStatement f (setToks st (flat_s s ++ flats ss ++ [eof])))
                      (fun f x st1 =>
                         if curIs st1 T_ILLEGAL
                         then POk None (addErr st1 (eline (curT st1)) (fmt ErrIllegalToken [tlit (curT st1)]))
                         else programLoop f (if stmt_is_null x then acc else x :: acc) (advance st1))).
    + exact (stmt_parses s Ws st _ RN FO).
    + cbv beta. unfold curIs. rewrite curT_cons, (last_s_legal s Ws). cbv match.
      assert (Adv : advance (setToks st (last_s s :: flats ss ++ [eof])) = setToks st (flats ss ++ [eof])).
      { destruct (flats ss ++ [eof]) eqn:X; [congruence|]. reflexivity. }
      rewrite Adv. rewrite asts_cons.
      destruct (stmt_is_null (ast_s s)).
      * cbn [app]. exact (IH W' st acc eof He).
      * specialize (IH W' st (ast_s s :: acc) eof He). cbn [rev] in IH. rewrite <- app_assoc in IH. exact IH.
    + intro f. cbn [programLoop]. rewrite Ea. cbn [app]. unfold curIs at 1. rewrite curT_cons, NE. reflexivity.
Qed.

(* the whole statement tree, with the fuel the model really uses *)
Theorem template_parses_to_its_tree ss eof :
  wf_ss ss -> ttype eof = T_EOF ->
  parse_tokens (flats ss ++ [eof]) = ParsedOk (mkProgram (asts ss) None [] [] []).
Proof.
  intros W He. unfold parse_tokens, parse_tokens_fuel.
  set (ts := flats ss ++ [eof]).
  assert (T : tinv ts = true).
  { subst ts. clear - He. induction (flats ss) as [|a l IHl]; cbn [app tinv].
    - unfold is_termT. rewrite He. reflexivity.
    - destruct (l ++ [eof]) eqn:X; [destruct l; discriminate X|exact IHl]. }
  destruct (ParseTotal.programLoop_final (fun _ => True) (fun _ _ _ _ => I) ts T I) as (o & st' & Ex & _).
  destruct (program_parses ss W (initP ts) [] eof He) as (n & Hn).
  change (setToks (initP ts) (flats ss ++ [eof])) with (initP ts) in Hn.
  pose proof (FuelMono.programLoop_fuel_mono (parse_fuel ts) (Nat.max (parse_fuel ts) n) _ _ _ _ ltac:(lia) Ex) as H1.
  rewrite Hn in H1 by lia. injection H1 as <- <-. rewrite Ex. reflexivity.
Qed.
