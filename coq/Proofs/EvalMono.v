(* The evaluator model's fuel only decides whether it answers: an outcome other than OutOfFuel is
   the outcome for every larger amount of fuel (mutual induction over all nine evaluation
   functions).  So the fixed eval_fuel of render_program is a bound on the depth of evaluation,
   never a parameter of the result. *)
From Coq Require Import String Lia.
From TW Require Import Bytes Values Ast Builtins Eval.
Open Scope N_scope.

Definition ext {A} (a a' : outcome A) : Prop := a <> OutOfFuel -> a' = a.

Lemma ext_refl {A} (a : outcome A) : ext a a.
Proof. intro; reflexivity. Qed.

Lemma ext_bind {A B} (a a' : outcome A) (k k' : A -> outcome B) :
  ext a a' -> (forall v, ext (k v) (k' v)) -> ext (let! x := a in k x) (let! x := a' in k' x).
Proof.
  intros Ha Hk H. destruct a; try (rewrite (Ha ltac:(discriminate)); try reflexivity).
  - apply Hk. exact H.
  - congruence.
Qed.

Lemma ext_of_eq {A} (a a' : outcome A) : a' = a -> ext a a'.
Proof. intros -> _. reflexivity. Qed.

Definition ME (f g : nat) : Prop :=
  (forall cx en e, ext (eval_expr cx f en e) (eval_expr cx g en e)) /\
  (forall cx en es, ext (eval_exprs cx f en es) (eval_exprs cx g en es)) /\
  (forall cx en ps, ext (eval_pairs cx f en ps) (eval_pairs cx g en ps)).

Lemma exprs_mono : forall f g, (f <= g)%nat -> ME f g.
Proof.
  induction f as [|f IH]; intros g Hle; [repeat split; intros; intro H; exfalso; apply H; reflexivity|].
  destruct g as [|g]; [lia|]. destruct (IH g ltac:(lia)) as (IHe & IHs & IHp).
  split; [|split].
  - intros cx en e. destruct e; try apply ext_refl; cbn [eval_expr].
    + apply ext_bind; [apply IHs|intro; apply ext_refl].
    + apply ext_bind; [apply IHp|intro; apply ext_refl].
    + apply ext_bind; [apply IHe|intro; apply ext_refl].
    + apply ext_bind; [apply IHe|intro lv]. apply ext_bind; [apply IHe|intro rv]. apply ext_refl.
    + apply ext_bind; [apply IHe|intro; apply ext_refl].
    + apply ext_bind; [apply IHe|intro cv]. destruct (truthy cv); apply IHe.
    + apply ext_bind; [apply IHe|intro lv]. apply ext_bind; [apply IHe|intro iv]. apply ext_refl.
    + apply ext_bind; [apply IHe|intro lv]. apply ext_refl.
    + apply ext_bind; [apply IHe|intro rv].
      destruct (negb (has_func_table rv)); [apply ext_refl|]. apply ext_bind; [apply IHs|intro; apply ext_refl].
  - intros cx en es. destruct es; [apply ext_refl|]. cbn [eval_exprs].
    apply ext_bind; [apply IHe|intro v]. apply ext_bind; [apply IHs|intro; apply ext_refl].
  - intros cx en ps. destruct ps as [|[k e] ps]; [apply ext_refl|]. cbn [eval_pairs].
    apply ext_bind; [apply IHe|intro v]. apply ext_bind; [apply IHp|intro; apply ext_refl].
Qed.

Lemma bind_args_mono cx f g en : (f <= g)%nat -> forall ps ln ne, ext (bind_args cx f ln en ps ne) (bind_args cx g ln en ps ne).
Proof.
  intro Hle. induction ps as [|[k e] ps IH]; intros ln ne; [apply ext_refl|]. cbn [bind_args].
  apply ext_bind; [apply (proj1 (exprs_mono f g Hle))|intro v]. destruct (env_set ne k v); [apply IH|apply ext_refl].
Qed.

Lemma dump_args_mono (ev ev' : expr -> outcome value) :
  (forall e, ext (ev e) (ev' e)) -> forall args, ext (dump_args ev args) (dump_args ev' args).
Proof.
  intros Hev. induction args as [|a r IH]; [apply ext_refl|]. cbn [dump_args]. intro H.
  pose proof (Hev a) as Ha. unfold ext in Ha.
  destruct (ev a) as [v|ln msg| | |] eqn:Ea; try (rewrite (Ha ltac:(discriminate)); try reflexivity).
  - destruct (dump_value 0 v); [|reflexivity]. apply (ext_bind _ _ _ _ IH); [intro; apply ext_refl|exact H].
  - congruence.
Qed.

Definition MS (f g : nat) : Prop :=
  (forall cx en s, ext (eval_stmt cx f en s) (eval_stmt cx g en s)) /\
  (forall cx en ss acc, ext (eval_block cx f en ss acc) (eval_block cx g en ss acc)) /\
  (forall cx en alts alt, ext (eval_alts cx f en alts alt) (eval_alts cx g en alts alt)) /\
  (forall cx en ss out, ext (eval_program cx f en ss out) (eval_program cx g en ss out)) /\
  (forall cx ln init c post body en out,
     ext (for_loop cx f ln init c post body en out) (for_loop cx g ln init c post body en out)) /\
  (forall cx ln var body len i elems en out,
     ext (each_loop cx f ln var body len i elems en out) (each_loop cx g ln var body len i elems en out)).

Lemma stmts_mono : forall f g, (f <= g)%nat -> MS f g.
Proof.
  induction f as [|f IH]; intros g Hle;
    [repeat split; intros; intro H; exfalso; apply H; reflexivity|].
  destruct g as [|g]; [lia|]. assert (Hfg : (f <= g)%nat) by lia.
  destruct (IH g Hfg) as (IHs & IHb & IHa & IHp & IHf & IHl).
  destruct (exprs_mono f g Hfg) as (IHe & IHes & IHps).
  assert (Cond : forall cx en c,
            ext (match c with ENull => Ok true | _ => let! cv := eval_expr cx f en c in Ok (truthy cv) end)
                (match c with ENull => Ok true | _ => let! cv := eval_expr cx g en c in Ok (truthy cv) end)).
  { intros cx en c. destruct c; try apply ext_refl; (apply ext_bind; [apply IHe|intro; apply ext_refl]). }
  assert (Blk : forall cx en ss,
            ext (let! r := eval_block cx f en ss [] in Ok (fst r, tl (snd r))) (let! r := eval_block cx g en ss [] in Ok (fst r, tl (snd r)))).
  { intros cx en ss. apply ext_bind; [apply IHb|intro; apply ext_refl]. }
  split; [|split; [|split; [|split; [|split]]]].
  - intros cx en s.
    destruct s as [ | ln lit | e | ln name v | ln c thn alts alt | ln init c post body alt | ln var arr body alt | ln name layout
                  | ln rid name ins | ln name arg body | ln c | ln c | | | ln cid name arg slots block | ln name body | ln args ];
      try apply ext_refl.
    + cbn [eval_stmt]. apply ext_bind; [apply IHe|intro; apply ext_refl].
    + cbn [eval_stmt]. apply ext_bind; [apply IHe|intro; apply ext_refl].
    + cbn [eval_stmt]. apply ext_bind; [apply IHe|intro cv]. destruct (truthy cv); [apply Blk|apply IHa].
    + cbn [eval_stmt].
      cbv zeta. apply ext_bind; [destruct init; try apply ext_refl; apply IHs|intro r0].
      apply ext_bind; [apply Cond|intro enter].
      destruct enter; destruct alt; try (apply ext_bind; [apply IHf|intro; apply ext_refl]). apply Blk.
    + cbn [eval_stmt]. cbv zeta. apply ext_bind; [apply IHe|intro av]. destruct av; try apply ext_refl.
      destruct l; destruct alt; try (apply ext_bind; [apply IHl|intro; apply ext_refl]). apply Blk.
    + cbn [eval_stmt]. destruct layout as [[[a b] l]|]; [|apply ext_refl]. destruct (a && b); [apply ext_refl|].
      apply ext_bind; [apply IHp|intro; apply ext_refl].
    + cbn [eval_stmt]. destruct ins as [[[iln arg] [b|]]|]; try apply ext_refl.
      * apply ext_bind; [apply IHb|intro; apply ext_refl].
      * destruct arg; try apply ext_refl; (apply ext_bind; [apply IHe|intro; apply ext_refl]).
    + cbn [eval_stmt]. apply ext_bind; [apply IHe|intro; apply ext_refl].
    + cbn [eval_stmt]. apply ext_bind; [apply IHe|intro; apply ext_refl].
    + cbn [eval_stmt]. destruct block as [ss|]; [|apply ext_refl].
      apply ext_bind.
      { destruct arg as [[]|]; try apply ext_refl. apply bind_args_mono. exact Hfg. }
      intro en1. apply ext_bind; [apply IHp|intro; apply ext_refl].
    + cbn [eval_stmt]. destruct body as [b|]; [|apply ext_refl]. apply ext_bind; [apply IHb|intro; apply ext_refl].
    + cbn [eval_stmt]. apply ext_bind; [apply dump_args_mono; intro; apply IHe|intro; apply ext_refl].
  - intros cx en ss acc. destruct ss; [apply ext_refl|]. cbn [eval_block].
    apply ext_bind; [apply IHs|intro r]. cbv zeta. destruct (has_break (fst r) || has_continue (fst r)); [apply ext_refl|apply IHb].
  - intros cx en alts alt. destruct alts as [|[c b] alts]; cbn [eval_alts].
    + destruct alt; [apply Blk|apply ext_refl].
    + apply ext_bind; [apply IHe|intro cv]. destruct (truthy cv); [apply Blk|apply IHa].
  - intros cx en ss out. destruct ss; [apply ext_refl|]. cbn [eval_program].
    apply ext_bind; [apply IHs|intro r]. apply ext_bind; [apply ext_refl|intro str]. apply IHp.
  - intros cx ln init c post body en out. cbn [for_loop].
    apply ext_bind; [apply Cond|intro go]. destruct (negb go); [apply ext_refl|].
    apply ext_bind; [apply IHb|intro r]. apply ext_bind; [apply ext_refl|intro str]. cbv zeta.
    destruct (has_break (fst r)); [apply ext_refl|].
    destruct post; try apply IHf; (apply ext_bind; [apply IHs|intro pr]); cbv zeta;
      destruct init; try apply IHf.
    all: try (destruct (env_set (snd pr) name (fst pr)); [apply IHf|apply ext_refl]).
  - intros cx ln var body len i elems en out. cbn [each_loop].
    destruct elems as [|x elems]; [apply ext_refl|]. destruct (env_set en var x); [|apply ext_refl]. cbv zeta.
    apply ext_bind; [apply IHb|intro r]. apply ext_bind; [apply ext_refl|intro str].
    destruct (has_break (fst r)); [apply ext_refl|apply IHl].
Qed.

(* ---------- the statements *)
Theorem eval_program_fuel_mono cx f g en ss out r :
  (f <= g)%nat -> eval_program cx f en ss out = r -> r <> OutOfFuel -> eval_program cx g en ss out = r.
Proof.
  intros L E N. pose proof (proj1 (proj2 (proj2 (proj2 (stmts_mono f g L)))) cx en ss out) as X.
  unfold ext in X. rewrite E in X. apply X, N.
Qed.

Theorem eval_expr_fuel_mono cx f g en e r :
  (f <= g)%nat -> eval_expr cx f en e = r -> r <> OutOfFuel -> eval_expr cx g en e = r.
Proof.
  intros L E N. pose proof (proj1 (exprs_mono f g L) cx en e) as X. unfold ext in X. rewrite E in X. apply X, N.
Qed.
