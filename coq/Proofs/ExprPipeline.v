(* C01, both halves together: from the tokens of an expression to its value.  [den c e] says that
   the concrete syntax tree c (tokens on the first line) spells the specification expression e;
   then the AST the parser builds for the tokens of c is the AST the evaluator theorem of
   ExprSem.v is about, so the statement {{ c }} parses to one expression statement whose value
   the evaluator model computes as the specification semantics of e prescribes. *)
From Coq Require Import String Lia.
From TW Require Import Bytes Floats Values GenToken GenParser Lexer Ast Parser Builtins Eval Expr ExprSem Pratt.
Open Scope N_scope.

Definition den_list_with (d : cst -> sexpr -> Prop) :=
  fix go (l : list (token * cst)) (es : list sexpr) : Prop :=
    match l, es with
    | [], [] => True
    | (_, a) :: l', x :: es' => d a x /\ go l' es'
    | _, _ => False
    end.

Fixpoint den (c : cst) (e : sexpr) {struct c} : Prop :=
  match c with
  | CAtom t =>
    tel t = 0%nat /\
    match e with
    | XInt z => prefix_of (ttype t) = Some PK_Int /\ parseInt (tlit t) = Some z
    | XFloat m k => prefix_of (ttype t) = Some PK_Float /\ tlit t = float_text m k /\ count_dots (tlit t) = 1%nat
    | XStr s _ => prefix_of (ttype t) = Some PK_Str /\ tlit t = s
    | XBool b => ttype t = (if b then T_TRUE else T_FALSE)
    | XNil => ttype t = T_NIL
    | XVar n => ttype t = T_IDENT /\ tlit t = n
    | _ => False
    end
  | CPar lp rp x => den x e
  | CBin o l r =>
    tel o = 0%nat /\ match e with XBin b el er => tlit o = op_sym b /\ den l el /\ den r er | _ => False end
  | CPre o x =>
    tel o = 0%nat /\
    match e with
    | XNeg ex => tlit o = [45] /\ den x ex
    | XNot ex => tlit o = [33] /\ den x ex
    | _ => False
    end
  | CPost o x =>
    tel o = 0%nat /\
    match e with
    | XInc ex => tlit o = [43; 43] /\ den x ex
    | XDec ex => tlit o = [45; 45] /\ den x ex
    | _ => False
    end
  | CTern q col c0 a b =>
    tel q = 0%nat /\ match e with XTern ec ea eb => den c0 ec /\ den a ea /\ den b eb | _ => False end
  | CIdx lb rb x i =>
    tel lb = 0%nat /\ match e with XIndex ex ei => den x ex /\ den i ei | _ => False end
  | CDot dot name x =>
    tel dot = 0%nat /\ tel name = 0%nat /\ match e with XProp ex n => tlit name = n /\ den x ex | _ => False end
  | CCall dot name lp rp x args =>
    tel name = 0%nat /\
    match e with XCall er fn eargs => tlit name = fn /\ den x er /\ den_list_with den args eargs | _ => False end
  | CArr lb rb els =>
    tel lb = 0%nat /\ match e with XArr eels => den_list_with den els eels | _ => False end
  end.

Lemma den_list_asts l : Forall (fun p => forall e, den (snd p) e -> ast (snd p) = compile e) l ->
  forall es, den_list_with den l es -> asts l = map compile es.
Proof.
  induction l as [|[cm a] l IH]; intros F es D; destruct es as [|x es]; cbn in D; try contradiction; [reflexivity|].
  apply Forall_cons_iff in F as [Fa F']. destruct D as [Da D']. cbn [asts map snd] in *.
  rewrite (Fa x Da). f_equal. exact (IH F' es D').
Qed.

(* the parser's AST for c is the evaluator theorem's AST for e *)
Theorem den_ast c : forall e, den c e -> ast c = compile e.
Proof.
  induction c as [t|lp rp c IHc|o c1 c2 IHc1 IHc2|o c IHc|o c IHc|q col c1 c2 c3 IHc1 IHc2 IHc3|lb rb c1 c2 IHc1 IHc2|dot name c IHc|dot name lp rp c args IHc IHargs|lb rb els IHels] using cst_ind';
    intros e D; cbn [den] in D.
  - destruct D as [L D]. cbn [ast]. unfold atom_ast, eline. rewrite L.
    destruct e; try contradiction.
    + destruct D as [P V]. rewrite P, V. reflexivity.
    + destruct D as (P & T & C). rewrite P, C. cbn [Nat.eqb]. rewrite T. reflexivity.
    + destruct D as [P T]. rewrite P, T. reflexivity.
    + rewrite D. destruct b; reflexivity.
    + rewrite D. reflexivity.
    + destruct D as [P T]. rewrite P, T. reflexivity.
  - cbn [ast]. apply IHc, D.
  - destruct D as [L D]. destruct e; try contradiction. destruct D as (T & D1 & D2).
    cbn [ast compile]. unfold eline. rewrite L, T, (IHc1 _ D1), (IHc2 _ D2). reflexivity.
  - destruct D as [L D]. destruct e; try contradiction; destruct D as (T & D1);
      cbn [ast compile]; unfold eline; rewrite L, T, (IHc _ D1); reflexivity.
  - destruct D as [L D]. destruct e; try contradiction; destruct D as (T & D1);
      cbn [ast compile]; unfold eline; rewrite L, T, (IHc _ D1); reflexivity.
  - destruct D as [L D]. destruct e; try contradiction. destruct D as (D1 & D2 & D3).
    cbn [ast compile]. unfold eline. rewrite L, (IHc1 _ D1), (IHc2 _ D2), (IHc3 _ D3). reflexivity.
  - destruct D as [L D]. destruct e; try contradiction. destruct D as (D1 & D2).
    cbn [ast compile]. unfold eline. rewrite L, (IHc1 _ D1), (IHc2 _ D2). reflexivity.
  - destruct D as (L1 & L2 & D). destruct e; try contradiction. destruct D as (T & D1).
    cbn [ast compile]. unfold eline. rewrite L1, L2, T, (IHc _ D1). reflexivity.
  - destruct D as (L & D). destruct e; try contradiction. destruct D as (T & D1 & D2).
    cbn [ast compile]. unfold eline. rewrite L, T, (IHc _ D1).
    fold (asts args). rewrite (den_list_asts args IHargs _ D2). reflexivity.
  - destruct D as (L & D). destruct e; try contradiction.
    cbn [ast compile]. unfold eline. rewrite L. fold (asts els). rewrite (den_list_asts els IHels _ D). reflexivity.
Qed.

(* tokens -> program -> value *)
Theorem braces_block_evaluates c e lb rb eof (en : env) fs :
  wf c -> den c e -> lits_ok e -> (size e <= fs)%nat ->
  ttype lb = T_LBRACES -> ttype rb = T_RBRACES -> ttype eof = T_EOF ->
  parse_tokens (lb :: flat c ++ [rb; eof]) = ParsedOk (mkProgram [SExpr (compile e)] None [] [] []) /\
  exists n, forall fm, (n <= fm)%nat ->
    meets (eval_expr cx0 fm en (compile e)) (sem model_call_spec fs (flat_env en) e).
Proof.
  intros W D L S Hlb Hrb He. split.
  - rewrite <- (den_ast c e D). apply braces_block_parses; assumption.
  - apply model_evaluates_like_the_specification; assumption.
Qed.

(* bytes -> tokens -> program -> value: a source that spells a checked list of items (LexRound.v)
   whose tokens are {{, the tokens of c, }} *)
From TW Require Import LexRound.

Theorem source_expression_evaluates its c e lb rb eof (en : env) fs :
  source_ok its = true -> place (spell its) 0 its = lb :: flat c ++ [rb; eof] ->
  wf c -> den c e -> lits_ok e -> (size e <= fs)%nat ->
  ttype lb = T_LBRACES -> ttype rb = T_RBRACES -> ttype eof = T_EOF ->
  parse_source (spell its) = ParsedOk (mkProgram [SExpr (compile e)] None [] [] []) /\
  exists n, forall fm, (n <= fm)%nat ->
    meets (eval_expr cx0 fm en (compile e)) (sem model_call_spec fs (flat_env en) e).
Proof.
  intros Hs Hp W D L S Hlb Hrb He.
  destruct (braces_block_evaluates c e lb rb eof en fs W D L S Hlb Hrb He) as [P V].
  split; [|exact V]. unfold parse_source. rewrite (lex_spell its Hs), Hp. exact P.
Qed.
