(* C05, third sentence: a comment {{-- ... --}} produces no token and nothing inside it is
   interpreted.  For every lexer state in text mode whose remaining input starts with a comment
   that is terminated (the first "--}}" at or after the two opening dashes, no NUL byte before
   it), NextToken is NextToken of the state just after the terminator, in text mode: whatever
   bytes the comment holds.  The terminator search is the specification's (Spec/Text.find_term). *)
From Coq Require Import String Lia.
From TW Require Import Bytes GenToken Lexer Text.
Open Scope N_scope.

Lemma skipn_add {A} (a b : nat) : forall l : list A, skipn a (skipn b l) = skipn (b + a) l.
Proof. induction b as [|b IH]; intros l; [reflexivity|]. destruct l; [destruct a; reflexivity|]. cbn [skipn plus]. apply IH. Qed.

Lemma rest_readN n : forall l, rest (readN n l) = skipn n (rest l).
Proof.
  induction n as [|n IH]; intros l; cbn [readN skipn]; [reflexivity|].
  rewrite IH. cbn [readChar rest]. destruct (rest l); [destruct n; reflexivity|reflexivity].
Qed.

Lemma isHTML_readN n : forall l, isHTML (readN n l) = isHTML l.
Proof. induction n as [|n IH]; intros l; cbn [readN]; [reflexivity|]. rewrite IH. reflexivity. Qed.

Fixpoint no_nul (n : nat) (s : bytes) : bool :=
  match n, s with
  | O, _ => true
  | S n', c :: s' => negb (c =? 0) && no_nul n' s'
  | S _, [] => true
  end.

(* the scanning loop stops exactly at the terminator the specification finds *)
Lemma skipComment_loop_find : forall r l k0 k,
  rest l = r -> find_term r k0 = Some (k0 + k)%nat -> no_nul k r = true ->
  forall fuel_list, (List.length r <= List.length fuel_list)%nat ->
  skipComment_loop fuel_list l = readN k l /\ prefixb [45; 45; 125; 125] (skipn k r) = true.
Proof.
  induction r as [|c r IH]; intros l k0 k Hr Hf Hn fl Hl; [discriminate Hf|].
  cbn [find_term] in Hf.
  destruct fl as [|x fl]; [cbn in Hl; lia|]. cbn [skipComment_loop].
  destruct (prefixb [45; 45; 125; 125] (c :: r)) eqn:Ep.
  - injection Hf as Hf. assert (k = 0)%nat by lia. subst k. cbn [readN skipn].
    rewrite Hr, Ep, orb_true_r. split; reflexivity.
  - destruct k as [|k].
    + exfalso. clear - Hf.
      assert (G : forall s a b, find_term s a = Some b -> (a <= b)%nat).
      { induction s as [|y s IHs]; intros a b; cbn [find_term]; [discriminate|].
        destruct (prefixb _ _); [intros [= <-]; lia|]. intro H. apply IHs in H. lia. }
      apply G in Hf. lia.
    + cbn [no_nul] in Hn. apply andb_true_iff in Hn as [Hc Hn]. apply negb_true_iff in Hc.
      assert (Hcur : cur l = c) by (unfold cur; rewrite Hr; reflexivity).
      rewrite Hcur, Hc, Hr, Ep. cbn [orb readN skipn].
      apply (IH (readChar l) (S k0) k); [cbn [readChar rest]; rewrite Hr; reflexivity| |exact Hn|cbn in Hl; lia].
      rewrite Hf. f_equal. lia.
Qed.

Theorem comment_is_skipped fuel l k :
  isHTML l = true ->
  prefixb [123; 123; 45; 45] (rest l) = true ->
  find_term (skipn 2 (rest l)) 0 = Some k -> no_nul k (skipn 2 (rest l)) = true ->
  exists l', nextToken (S fuel) l = nextToken fuel l' /\
             rest l' = skipn (2 + k + 4) (rest l) /\ isHTML l' = true /\ isDirective l' = isDirective l.
Proof.
  intros Hh Hp Hf Hn. apply prefixb_spec in Hp as (body & Hr).
  cbn [nextToken]. rewrite Hh.
  assert (Hc : cur l = 123) by (unfold cur; rewrite Hr; reflexivity).
  assert (Hpk : peekChar l = 123) by (unfold peekChar; rewrite Hr; reflexivity).
  rewrite Hc, Hpk. change (123 =? 0) with false. change ((123 =? 123) && (123 =? 123)) with true. cbv iota.
  unfold bracesToken, fixedToken.
  set (l0 := setModes l (negb (tok_eqb T_LBRACES T_LBRACES)) (isDirective l)).
  set (l2 := readN 2 (tokenBegins l0)).
  assert (Hr2 : rest l2 = skipn 2 (rest l)) by (unfold l2; rewrite rest_readN; reflexivity).
  assert (Hr2' : rest l2 = 45 :: 45 :: body) by (rewrite Hr2, Hr; reflexivity).
  assert (Hc2 : cur l2 = 45) by (unfold cur; rewrite Hr2'; reflexivity).
  assert (Hp2 : peekChar l2 = 45) by (unfold peekChar; rewrite Hr2'; reflexivity).
  rewrite Hc2, Hp2. change ((45 =? 45) && (45 =? 45)) with true. cbv iota.
  unfold skipComment.
  destruct (skipComment_loop_find (rest l2) l2 0 k eq_refl) with (fuel_list := rest l2) as [Hl3 Hterm];
    [rewrite Hr2; exact Hf|rewrite Hr2; exact Hn|lia|].
  rewrite Hl3.
  set (l3 := readN k l2) in *.
  set (l4 := setModes l3 true (isDirective l3)).
  assert (Hr4 : rest l4 = skipn k (rest l2)) by (unfold l4, l3; cbn [rest setModes]; apply rest_readN).
  apply prefixb_spec in Hterm as (tail & Ht).
  assert (Hc4 : cur l4 = 45) by (unfold cur; rewrite Hr4, Ht; reflexivity).
  rewrite Hc4. change (45 =? 0) with false. cbv iota.
  exists (readN 4 l4). split; [reflexivity|].
  rewrite rest_readN, Hr4, Hr2, !skipn_add. split; [f_equal; lia|].
  rewrite isHTML_readN. split; [reflexivity|].
  assert (D : forall n x, isDirective (readN n x) = isDirective x).
  { induction n as [|n IHn]; intros x; cbn [readN]; [reflexivity|]. rewrite IHn. reflexivity. }
  rewrite D. unfold l4. cbn [isDirective setModes]. unfold l3. rewrite D. unfold l2. rewrite D. reflexivity.
Qed.

Example comment_example :
  find_term (skipn 2 (bs "{{-- {{ 1 }} @if(x) -- }} --}}tail")) 0 = Some 24%nat /\
  find_term (skipn 2 (bs "{{--}}x")) 0 = Some 0%nat /\
  find_term (skipn 2 (bs "{{-- never closed")) 0 = None.
Proof. vm_compute. repeat split. Qed.
