(* The bytes -> output theorem for templates that spread over any number of lines.  denL / DensL are
   den / Dens of ExprPipeline.v / TemplatePipeline.v without the demand that tokens stand on the
   first line: the AST the parser builds then equals the AST of the specification template up to
   line numbers, and LineIrrelevance.v says those only show in the line of an error. *)
From Coq Require Import String Lia.
From TW Require Import Bytes Floats Values GenToken GenParser Lexer Ast Parser Builtins Eval Render Expr Template.
From TW Require Import ExprSem CleanValues TemplateRefine Pratt ExprPipeline StmtParse TemplatePipeline LexRound LineIrrelevance.
Open Scope N_scope.

(* ---------- expressions *)
Fixpoint denL (c : cst) (e : sexpr) {struct c} : Prop :=
  match c with
  | CAtom t =>
    match e with
    | XInt z => prefix_of (ttype t) = Some PK_Int /\ parseInt (tlit t) = Some z
    | XFloat m k => prefix_of (ttype t) = Some PK_Float /\ tlit t = float_text m k /\ count_dots (tlit t) = 1%nat
    | XStr s _ => prefix_of (ttype t) = Some PK_Str /\ tlit t = s
    | XBool b => ttype t = (if b then T_TRUE else T_FALSE)
    | XNil => ttype t = T_NIL
    | XVar n => ttype t = T_IDENT /\ tlit t = n
    | _ => False
    end
  | CPar lp rp x => denL x e
  | CBin o l r => match e with XBin b el er => tlit o = op_sym b /\ denL l el /\ denL r er | _ => False end
  | CPre o x =>
    match e with
    | XNeg ex => tlit o = [45] /\ denL x ex
    | XNot ex => tlit o = [33] /\ denL x ex
    | _ => False
    end
  | CPost o x =>
    match e with
    | XInc ex => tlit o = [43; 43] /\ denL x ex
    | XDec ex => tlit o = [45; 45] /\ denL x ex
    | _ => False
    end
  | CTern q col c0 a b => match e with XTern ec ea eb => denL c0 ec /\ denL a ea /\ denL b eb | _ => False end
  | CIdx lb rb x i => match e with XIndex ex ei => denL x ex /\ denL i ei | _ => False end
  | CDot dot name x => match e with XProp ex n => tlit name = n /\ denL x ex | _ => False end
  | CCall dot name lp rp x args =>
    match e with XCall er fn eargs => tlit name = fn /\ denL x er /\ den_list_with denL args eargs | _ => False end
  | CArr lb rb els => match e with XArr eels => den_list_with denL els eels | _ => False end
  end.

Lemma denL_list_asts l : Forall (fun p => forall e, denL (snd p) e -> strip_e (ast (snd p)) = strip_e (compile e)) l ->
  forall es, den_list_with denL l es -> map strip_e (Pratt.asts l) = map strip_e (map compile es).
Proof.
  induction l as [|[cm a] l IH]; intros F es D; destruct es as [|x es]; cbn in D; try contradiction; [reflexivity|].
  apply Forall_cons_iff in F as [Fa F']. destruct D as [Da D']. cbn [Pratt.asts map snd] in *.
  rewrite (Fa x Da). f_equal. exact (IH F' es D').
Qed.

Theorem denL_ast c : forall e, denL c e -> strip_e (ast c) = strip_e (compile e).
Proof.
  induction c as [t|lp rp c IHc|o c1 c2 IHc1 IHc2|o c IHc|o c IHc|q col c1 c2 c3 IHc1 IHc2 IHc3|lb rb c1 c2 IHc1 IHc2|dot name c IHc|dot name lp rp c args IHc IHargs|lb rb els IHels] using cst_ind';
    intros e D; cbn [denL] in D.
  - cbn [ast]. unfold atom_ast.
    destruct e; try contradiction.
    + destruct D as [P V]. rewrite P, V. reflexivity.
    + destruct D as (P & T & C). rewrite P, C. cbn [Nat.eqb]. rewrite T. reflexivity.
    + destruct D as [P T]. rewrite P, T. reflexivity.
    + rewrite D. destruct b; reflexivity.
    + rewrite D. reflexivity.
    + destruct D as [P T]. rewrite P, T. reflexivity.
  - cbn [ast]. apply IHc, D.
  - destruct e; try contradiction. destruct D as (T & D1 & D2).
    cbn [ast compile strip_e]. rewrite T, (IHc1 _ D1), (IHc2 _ D2). reflexivity.
  - destruct e; try contradiction; destruct D as (T & D1);
      cbn [ast compile strip_e]; rewrite T, (IHc _ D1); reflexivity.
  - destruct e; try contradiction; destruct D as (T & D1);
      cbn [ast compile strip_e]; rewrite T, (IHc _ D1); reflexivity.
  - destruct e; try contradiction. destruct D as (D1 & D2 & D3).
    cbn [ast compile strip_e]. rewrite (IHc1 _ D1), (IHc2 _ D2), (IHc3 _ D3). reflexivity.
  - destruct e; try contradiction. destruct D as (D1 & D2).
    cbn [ast compile strip_e]. rewrite (IHc1 _ D1), (IHc2 _ D2). reflexivity.
  - destruct e; try contradiction. destruct D as (T & D1).
    cbn [ast compile strip_e]. rewrite T, (IHc _ D1). reflexivity.
  - destruct e; try contradiction. destruct D as (T & D1 & D2).
    cbn [ast compile strip_e]. rewrite T, (IHc _ D1).
    fold (Pratt.asts args). rewrite (denL_list_asts args IHargs _ D2). reflexivity.
  - destruct e; try contradiction.
    cbn [ast compile strip_e]. fold (Pratt.asts els). rewrite (denL_list_asts els IHels _ D). reflexivity.
Qed.

(* ---------- statements *)
Definition denL_init (i : option (token * token * cst)) (n : option (bytes * sexpr)) : Prop :=
  match i, n with
  | Some (id, eq, c), Some (x, e) => tlit id = x /\ denL c e
  | None, None => True
  | _, _ => False
  end.
Definition denL_cond (c : option cst) (n : option sexpr) : Prop :=
  match c, n with Some c, Some e => denL c e | None, None => True | _, _ => False end.
Definition denL_post (p : option fpc) (n : option fpost) : Prop :=
  match p, n with
  | Some (FPE c), Some (PostInc x) => denL c (XInc (XVar x))
  | Some (FPE c), Some (PostDec x) => denL c (XDec (XVar x))
  | Some (FPA id eq c), Some (PostAssign x e) => tlit id = x /\ denL c e
  | None, None => True
  | _, _ => False
  end.

Inductive DenL : sst -> tnode -> Prop :=
| LText t : DenL (TText t) (NText (tlit t))
| LCode lb rb c e : denL c e -> DenL (TCode lb rb c) (NPrint e)
| LAssign lb id eq c e : denL c e -> DenL (TAssign lb id eq c) (NAssign (tlit id) e)
| LIf kw lp rp endt c body elifs els ec thn eelifs eels :
    denL c ec -> DensL body thn -> DenLElifs elifs eelifs -> DenLElse els eels ->
    DenL (TIf kw lp rp endt c body elifs els) (NIf ec thn eelifs eels)
| LEach kw lp var inn rp endt c body els earr ebody eels :
    denL c earr -> DensL body ebody -> DenLElse els eels ->
    DenL (TEach kw lp var inn rp endt c body els) (NEach (tlit var) earr ebody eels)
| LFor kw lp s1 s2 rp endt init cond post body els ninit ncond npost ebody eels :
    denL_init init ninit -> denL_cond cond ncond -> denL_post post npost ->
    DensL body ebody -> DenLElse els eels ->
    DenL (TFor kw lp s1 s2 rp endt init cond post body els) (NFor ninit ncond npost ebody eels)
| LBreak t : DenL (TBreak t) NBreak
| LContinue t : DenL (TContinue t) NContinue
| LBreakIf kw lp rp c e : denL c e -> DenL (TBreakIf kw lp rp c) (NBreakIf e)
| LContinueIf kw lp rp c e : denL c e -> DenL (TContinueIf kw lp rp c) (NContinueIf e)
with DensL : list sst -> list tnode -> Prop :=
| LsNil : DensL [] []
| LsClose rb l ns : DensL l ns -> DensL (TClose rb :: l) ns
| LsCons s n l ns : DenL s n -> DensL l ns -> DensL (s :: l) (n :: ns)
with DenLElifs : list (token * token * token * cst * list sst) -> list (sexpr * list tnode) -> Prop :=
| LeNil : DenLElifs [] []
| LeCons ke elp erp ec eb l e b el : denL ec e -> DensL eb b -> DenLElifs l el ->
    DenLElifs ((ke, elp, erp, ec, eb) :: l) ((e, b) :: el)
with DenLElse : option (token * list sst) -> option (list tnode) -> Prop :=
| LlNone : DenLElse None None
| LlSome te eb b : DensL eb b -> DenLElse (Some (te, eb)) (Some b).

Scheme DenL_mind := Minimality for DenL Sort Prop
  with DensL_mind := Minimality for DensL Sort Prop
  with DenLElifs_mind := Minimality for DenLElifs Sort Prop
  with DenLElse_mind := Minimality for DenLElse Sort Prop.
Combined Scheme DenL_all_ind from DenL_mind, DensL_mind, DenLElifs_mind, DenLElse_mind.

Lemma DenL_text t x : tlit t = x -> DenL (TText t) (NText x).
Proof. intros <-. apply LText. Qed.
Lemma DenL_assign lb id eq c e x : tlit id = x -> denL c e -> DenL (TAssign lb id eq c) (NAssign x e).
Proof. intros <- D. apply LAssign, D. Qed.
Lemma DenL_each kw lp var inn rp endt c body els v earr ebody eels :
  tlit var = v -> denL c earr -> DensL body ebody -> DenLElse els eels ->
  DenL (TEach kw lp var inn rp endt c body els) (NEach v earr ebody eels).
Proof. intros <- D B E. apply LEach; assumption. Qed.

Lemma DenL_not_null s n : DenL s n -> stmt_is_null (ast_s s) = false.
Proof. intro D. destruct D; reflexivity. Qed.

(* up to line numbers, the parser's statement tree for ss is the tree the refinement theorem is about *)
Lemma denL_trees :
  (forall s n, DenL s n -> strip_s (ast_s s) = strip_s (cnode n)) /\
  (forall ss ns, DensL ss ns -> map strip_s (asts ss) = map strip_s (map cnode ns)) /\
  (forall l el, DenLElifs l el ->
     map strip_alt (map ast_elif l) = map strip_alt (map (fun cb : sexpr * list tnode => (compile (fst cb), map cnode (snd cb))) el)) /\
  (forall o eo, DenLElse o eo ->
     strip_o (match o with Some (te, eb) => Some (asts eb) | None => None end) =
     strip_o (match eo with Some b => Some (map cnode b) | None => None end)).
Proof.
  apply DenL_all_ind.
  - intros t. reflexivity.
  - intros lb rb c e D. cbn [ast_s cnode strip_s]. rewrite (denL_ast c e D). reflexivity.
  - intros lb id eq c e D. cbn [ast_s cnode strip_s]. rewrite (denL_ast c e D). reflexivity.
  - intros kw lp rp endt c body elifs els ec thn eelifs eels D _ Hb _ He _ Hl.
    cbn [ast_s cnode]. fold (asts body).
    change (map (fun e => match e with (ke, elp, erp, ec0, eb) => (ast ec0, filter (fun x => negb (stmt_is_null x)) (map ast_s eb)) end) elifs)
      with (map ast_elif elifs).
    change (match els with Some (te, eb) => Some (filter (fun x => negb (stmt_is_null x)) (map ast_s eb)) | None => None end)
      with (match els with Some (te, eb) => Some (asts eb) | None => None end).
    cbn [strip_s]. rewrite (denL_ast c ec D), Hb.
    fold strip_alt. fold strip_alt in He. rewrite He.
    fold (strip_o (match els with Some (te, eb) => Some (asts eb) | None => None end)).
    fold (strip_o (match eels with Some b => Some (map cnode b) | None => None end)).
    rewrite Hl. reflexivity.
  - intros kw lp var inn rp endt c body els earr ebody eels D _ Hb _ Hl.
    cbn [ast_s cnode]. fold (asts body).
    change (match els with Some (te, eb) => Some (filter (fun x => negb (stmt_is_null x)) (map ast_s eb)) | None => None end)
      with (match els with Some (te, eb) => Some (asts eb) | None => None end).
    cbn [strip_s]. rewrite (denL_ast c earr D), Hb.
    fold (strip_o (match els with Some (te, eb) => Some (asts eb) | None => None end)).
    fold (strip_o (match eels with Some b => Some (map cnode b) | None => None end)).
    rewrite Hl. reflexivity.
  - intros kw lp s1 s2 rp endt init cond post body els ninit ncond npost ebody eels Di Dc Dp _ Hb _ Hl.
    cbn [ast_s cnode]. fold (asts body).
    change (match els with Some (te, eb) => Some (filter (fun x => negb (stmt_is_null x)) (map ast_s eb)) | None => None end)
      with (match els with Some (te, eb) => Some (asts eb) | None => None end).
    cbn [strip_s]. rewrite Hb.
    fold (strip_o (match els with Some (te, eb) => Some (asts eb) | None => None end)).
    fold (strip_o (match eels with Some b => Some (map cnode b) | None => None end)).
    rewrite Hl.
    assert (Ei : strip_s (ast_init init) = strip_s (match ninit with Some (x, e) => SAssign 1 x (compile e) | None => SNull end)).
    { destruct init as [[[id eq] c]|], ninit as [[x e]|]; try contradiction; [|reflexivity].
      destruct Di as (<- & D). cbn [ast_init strip_s]. rewrite (denL_ast c e D). reflexivity. }
    assert (Ec : strip_e (ast_cond cond) = strip_e (match ncond with Some c => compile c | None => ENull end)).
    { destruct cond as [c|], ncond as [e|]; try contradiction; [|reflexivity]. cbn [ast_cond]. exact (denL_ast c e Dc). }
    assert (Ep : strip_s (ast_post post) = strip_s (match npost with Some p => cpost p | None => SNull end)).
    { destruct post as [[c|id eq c]|], npost as [[x|x|x e]|]; try contradiction; cbn [ast_post cpost denL_post strip_s] in *.
      - rewrite (denL_ast c _ Dp). reflexivity.
      - rewrite (denL_ast c _ Dp). reflexivity.
      - destruct Dp as (<- & D). rewrite (denL_ast c e D). reflexivity.
      - reflexivity. }
    rewrite Ei, Ec, Ep. reflexivity.
  - reflexivity.
  - reflexivity.
  - intros kw lp rp c e D. cbn [ast_s cnode strip_s]. rewrite (denL_ast c e D). reflexivity.
  - intros kw lp rp c e D. cbn [ast_s cnode strip_s]. rewrite (denL_ast c e D). reflexivity.
  - reflexivity.
  - intros rb l ns _ H. rewrite asts_cons. cbn [ast_s stmt_is_null app]. exact H.
  - intros s n l ns D Hs _ Hl. rewrite asts_cons. rewrite (DenL_not_null s n D). cbn [app map]. rewrite Hs, Hl. reflexivity.
  - reflexivity.
  - intros ke elp erp ec eb l e b el D _ Hb _ Hl. cbn [map ast_elif fst snd]. unfold strip_alt at 1 3. cbn [fst snd].
    rewrite (denL_ast ec e D), Hb, Hl. reflexivity.
  - reflexivity.
  - intros te eb b _ H. cbn [strip_o]. rewrite H. reflexivity.
Qed.

(* ---------- bytes -> output, any number of lines *)
Theorem source_renders_lines its ss ns eof fs gd (data : list (bytes * value)) :
  source_ok its = true -> place (spell its) 0 its = flats ss ++ [eof] -> wf_ss ss -> DensL ss ns ->
  env_from_map gd = EnvOk [data] ->
  forallb (fun kv : bytes * value => clean (snd kv)) data = true -> nodes_ok ns ->
  lex_all (spell its) = Some (flats ss ++ [eof]) /\
  parse_source (spell its) = ParsedOk (mkProgram (asts ss) None [] [] []) /\
  exists K, (K <= eval_fuel)%nat ->
    match run_nodes T fs [data] ns with
    | TOk out SigNormal _ => evaluate_string cx0 (spell its) gd = RenderOk out
    | TOk _ _ _ => True
    | TFail => exists ln msg, evaluate_string cx0 (spell its) gd = RenderErr ln msg
    | TNoFuel | TUnprintable => True
    end.
Proof.
  intros Hs Hp W D He Hc Hok.
  assert (Te : ttype eof = T_EOF).
  { destruct (place_last (spell its) 0 its 0) as (pre & e & E & Te). fold (place (spell its) 0 its) in E.
    rewrite Hp in E. apply app_inj_tail in E as [_ ->]. exact Te. }
  pose proof (lex_spell its Hs) as L. rewrite Hp in L.
  pose proof (template_parses_to_its_tree ss eof W Te) as P.
  split; [exact L|].
  assert (PS : parse_source (spell its) = ParsedOk (mkProgram (asts ss) None [] [] [])).
  { unfold parse_source. rewrite L. exact P. }
  split; [exact PS|].
  destruct (template_refines_specification fs data ns Hc Hok) as (K & HK).
  exists K. intro Hle. specialize (HK eval_fuel Hle).
  pose proof (lines_do_not_matter cx0 eval_fuel [data] (asts ss) (map cnode ns) [] (proj1 (proj2 denL_trees) ss ns D)) as S.
  unfold evaluate_string. rewrite PS. unfold render_program. rewrite He. cbn [p_stmts].
  destruct (run_nodes T fs [data] ns) as [out sg sc| | |]; try exact I.
  - destruct sg; try exact I. destruct HK as (en' & E). rewrite E in S.
    destruct (eval_program cx0 eval_fuel [data] (asts ss) []) as [r|ln msg| | |]; cbn in S; try contradiction.
    subst r. reflexivity.
  - destruct HK as (ln & msg & E). rewrite E in S.
    destruct (eval_program cx0 eval_fuel [data] (asts ss) []) as [r|ln' msg'| | |]; cbn in S; try contradiction.
    exists ln', msg'. reflexivity.
Qed.

(* ---------- the same without a bound on the evaluator's fuel: EvalMono.v says an answer other than
   out-of-fuel is the answer for every larger fuel, so whenever the model of EvaluateString answers
   at all it answers what the specification says *)
From TW Require Import EvalMono.

Theorem source_renders_when_it_answers its ss ns eof fs gd (data : list (bytes * value)) :
  source_ok its = true -> place (spell its) 0 its = flats ss ++ [eof] -> wf_ss ss -> DensL ss ns ->
  env_from_map gd = EnvOk [data] ->
  forallb (fun kv : bytes * value => clean (snd kv)) data = true -> nodes_ok ns ->
  evaluate_string cx0 (spell its) gd <> RenderOutOfFuel ->
  match run_nodes T fs [data] ns with
  | TOk out SigNormal _ => evaluate_string cx0 (spell its) gd = RenderOk out
  | TOk _ _ _ => True
  | TFail => exists ln msg, evaluate_string cx0 (spell its) gd = RenderErr ln msg
  | TNoFuel | TUnprintable => True
  end.
Proof.
  intros Hs Hp W D He Hc Hok Hans.
  destruct (source_renders_lines its ss ns eof fs gd data Hs Hp W D He Hc Hok) as (_ & PS & _).
  destruct (template_refines_specification fs data ns Hc Hok) as (K & HK).
  set (m := Nat.max K eval_fuel). specialize (HK m ltac:(subst m; lia)).
  pose proof (lines_do_not_matter cx0 m [data] (asts ss) (map cnode ns) [] (proj1 (proj2 denL_trees) ss ns D)) as S.
  unfold evaluate_string in *. rewrite PS in *. unfold render_program in *. rewrite He in *. cbn [p_stmts] in *.
  assert (Hm : eval_program cx0 eval_fuel [data] (asts ss) [] <> OutOfFuel).
  { intro X. rewrite X in Hans. apply Hans. reflexivity. }
  pose proof (eval_program_fuel_mono cx0 eval_fuel m [data] (asts ss) [] _ ltac:(subst m; lia) eq_refl Hm) as Em.
  rewrite Em in S.
  destruct (run_nodes T fs [data] ns) as [out sg sc| | |]; try exact I.
  - destruct sg; try exact I. destruct HK as (en' & E). rewrite E in S.
    destruct (eval_program cx0 eval_fuel [data] (asts ss) []) as [r|ln msg| | |]; cbn in S; try contradiction.
    subst r. reflexivity.
  - destruct HK as (ln & msg & E). rewrite E in S.
    destruct (eval_program cx0 eval_fuel [data] (asts ss) []) as [r|ln' msg'| | |]; cbn in S; try contradiction.
    exists ln', msg'. reflexivity.
Qed.
