(* More fuel never changes an answer of the expression parser: if a call returns with some
   fuel, it returns the same expression and state with any larger fuel.  This ties the
   "for all sufficiently large fuel" statements of Pratt.v to the concrete fuel parse_tokens
   allots (which ParseTotal.v shows to be sufficient). *)
From Coq Require Import String Lia.
From TW Require Import Bytes GenToken GenParser Lexer Ast Parser ParseTotal.

Definition Me n := forall prec st r s, parseExpression n prec st = POk r s -> parseExpression (S n) prec st = POk r s.
Definition Mpre n := forall k st r s, parsePrefix n k st = POk r s -> parsePrefix (S n) k st = POk r s.
Definition Mobj n := forall ln pairs st r s, parseObjectLoop n ln pairs st = POk r s -> parseObjectLoop (S n) ln pairs st = POk r s.
Definition Mpratt n := forall prec lft st r s, prattLoop n prec lft st = POk r s -> prattLoop (S n) prec lft st = POk r s.
Definition Minf n := forall k lft st r s, parseInfix n k lft st = POk r s -> parseInfix (S n) k lft st = POk r s.
Definition Mel n := forall e st r s, parseExpressionList n e st = POk r s -> parseExpressionList (S n) e st = POk r s.
Definition Mell n := forall e acc st r s, exprListLoop n e acc st = POk r s -> exprListLoop (S n) e acc st = POk r s.

Ltac head_scrut t :=
  lazymatch t with
  | match ?X with _ => _ end => head_scrut X
  | _ => t
  end.

(* walk the two unfolded bodies in lockstep: every call in the hypothesis returned, so by the
   induction hypothesis the same call with one more unit of fuel returns the same *)
Ltac mcall H X :=
  let a := fresh "a" in let s' := fresh "s" in let E := fresh "E" in
  destruct X as [a s'|] eqn:E; [|discriminate H];
  match goal with IH : _ |- _ => apply IH in E end; rewrite E; clear E.

Ltac mstep H :=
  cbv beta match zeta in H |- *; cbn [negb andb orb] in H |- *;
  first [ solve [match goal with IH : _ |- _ => apply IH; exact H end] |
  lazymatch type of H with
  | ?body = POk _ _ =>
    let X := head_scrut body in
    lazymatch X with
    | POk _ _ => exact H
    | POOF => discriminate H
    | _ => let T := type of X in
           lazymatch T with
           | pres _ => first [ match X with context [if ?b then _ else _] => destruct b eqn:? end | mcall H X ]
           | _ => destruct X eqn:?
           end
    end
  end ].

Lemma expr_group_mono n : Me n /\ Mpre n /\ Mobj n /\ Mpratt n /\ Minf n /\ Mel n /\ Mell n.
Proof.
  induction n as [|f (IHe & IHpre & IHobj & IHpratt & IHinf & IHel & IHell)].
  { unfold Me, Mpre, Mobj, Mpratt, Minf, Mel, Mell. repeat split; intros; discriminate. }
  unfold Me, Mpre, Mobj, Mpratt, Minf, Mel, Mell in *.
  repeat split.
  - intros prec st r s H. cbn [parseExpression] in H |- *. repeat mstep H.
  - intros k st r s H. cbn [parsePrefix] in H |- *. repeat mstep H.
  - intros ln pairs st r s H. cbn [parseObjectLoop] in H |- *. repeat mstep H.
  - intros prec lft st r s H. cbn [prattLoop] in H |- *. repeat mstep H.
  - intros k lft st r s H. cbn [parseInfix] in H |- *. repeat mstep H.
  - intros e st r s H. cbn [parseExpressionList] in H |- *. repeat mstep H.
  - intros e acc st r s H. cbn [exprListLoop] in H |- *. repeat mstep H.
Qed.

Theorem parseExpression_fuel_mono n m prec st r s :
  (n <= m)%nat -> parseExpression n prec st = POk r s -> parseExpression m prec st = POk r s.
Proof.
  intros L H. induction L as [|m L IH]; [exact H|]. apply expr_group_mono, IH.
Qed.

(* ---------- the statement parser *)
Lemma parseExpressionList_fuel_mono1 n e st r s :
  parseExpressionList n e st = POk r s -> parseExpressionList (S n) e st = POk r s.
Proof. apply expr_group_mono. Qed.

Lemma parseExpression_fuel_mono1 n prec st r s :
  parseExpression n prec st = POk r s -> parseExpression (S n) prec st = POk r s.
Proof. apply expr_group_mono. Qed.

Lemma parseExpressionStmt_mono1 n st r s : parseExpressionStmt n st = POk r s -> parseExpressionStmt (S n) st = POk r s.
Proof. intro H. pose proof parseExpression_fuel_mono1 as IH. unfold parseExpressionStmt in H |- *. repeat mstep H. Qed.

Lemma parseAssignStmt_mono1 n st r s : parseAssignStmt n st = POk r s -> parseAssignStmt (S n) st = POk r s.
Proof. intro H. pose proof parseExpression_fuel_mono1 as IH. unfold parseAssignStmt in H |- *. repeat mstep H. Qed.

Lemma parseEmbeddedCode_mono1 n st r s : parseEmbeddedCode n st = POk r s -> parseEmbeddedCode (S n) st = POk r s.
Proof.
  intro H. pose proof parseExpressionStmt_mono1 as IH1. pose proof parseAssignStmt_mono1 as IH2.
  unfold parseEmbeddedCode in H |- *. repeat mstep H.
Qed.

Lemma parseBracesStmt_mono1 n st r s : parseBracesStmt n st = POk r s -> parseBracesStmt (S n) st = POk r s.
Proof. intro H. pose proof parseEmbeddedCode_mono1 as IH. unfold parseBracesStmt in H |- *. repeat mstep H. Qed.

Lemma parseCondDirective_mono1 n mk st r s : parseCondDirective n mk st = POk r s -> parseCondDirective (S n) mk st = POk r s.
Proof. intro H. pose proof parseExpression_fuel_mono1 as IH. unfold parseCondDirective in H |- *. repeat mstep H. Qed.

Lemma parseDumpStmt_mono1 n st r s : parseDumpStmt n st = POk r s -> parseDumpStmt (S n) st = POk r s.
Proof. intro H. pose proof parseExpressionList_fuel_mono1 as IH. unfold parseDumpStmt in H |- *. repeat mstep H. Qed.

Definition Ms n := forall st r s, parseStatement n st = POk r s -> parseStatement (S n) st = POk r s.
Definition Mbl n := forall acc st r s, blockLoop n acc st = POk r s -> blockLoop (S n) acc st = POk r s.
Definition Mbs n := forall st r s, parseBlockStmt n st = POk r s -> parseBlockStmt (S n) st = POk r s.
Definition Mbody n := forall st r s, parseBody n st = POk r s -> parseBody (S n) st = POk r s.
Definition Mei n := forall acc st r s, elseIfLoop n acc st = POk r s -> elseIfLoop (S n) acc st = POk r s.
Definition Msl n := forall acc st r s, parseSlots n acc st = POk r s -> parseSlots (S n) acc st = POk r s.

Lemma stmt_group_mono n : Ms n /\ Mbl n /\ Mbs n /\ Mbody n /\ Mei n /\ Msl n.
Proof.
  induction n as [|f (IHs & IHbl & IHbs & IHbody & IHei & IHsl)].
  { unfold Ms, Mbl, Mbs, Mbody, Mei, Msl. repeat split; intros; discriminate. }
  unfold Ms, Mbl, Mbs, Mbody, Mei, Msl in *.
  pose proof parseExpression_fuel_mono1 as L1. pose proof parseEmbeddedCode_mono1 as L2. pose proof parseBracesStmt_mono1 as L2b.
  pose proof parseCondDirective_mono1 as L3. pose proof parseDumpStmt_mono1 as L4.
  repeat split.
  - intros st r s H. cbn [parseStatement] in H |- *. repeat mstep H.
  - intros acc st r s H. cbn [blockLoop] in H |- *. repeat mstep H.
  - intros st r s H. cbn [parseBlockStmt] in H |- *. repeat mstep H.
  - intros st r s H. cbn [parseBody] in H |- *. repeat mstep H.
  - intros acc st r s H. cbn [elseIfLoop] in H |- *. repeat mstep H.
  - intros acc st r s H. cbn [parseSlots] in H |- *. repeat mstep H.
Qed.

Lemma programLoop_mono1 n : forall acc st r s, programLoop n acc st = POk r s -> programLoop (S n) acc st = POk r s.
Proof.
  induction n as [|f IH]; intros acc st r s H; [discriminate|].
  pose proof (proj1 (stmt_group_mono f)) as L. unfold Ms in L.
  cbn [programLoop] in H |- *. repeat mstep H.
Qed.

Theorem programLoop_fuel_mono n m acc st r s :
  (n <= m)%nat -> programLoop n acc st = POk r s -> programLoop m acc st = POk r s.
Proof. intros L H. induction L as [|m L IH]; [exact H|]. apply programLoop_mono1, IH. Qed.
