(* More fuel never changes an answer of the expression parser: if a call returns with some
   fuel, it returns the same expression and state with any larger fuel.  This ties the
   "for all sufficiently large fuel" statements of Pratt.v to the concrete fuel parse_tokens
   allots (which ParseTotal.v shows to be sufficient). *)
From Coq Require Import String Lia.
From TW Require Import Bytes GenToken GenParser Lexer Ast Parser ParseTotal.

Definition Me n := forall prec st r s, parseExpression n prec st = POk r s -> parseExpression (S n) prec st = POk r s.
Definition Mpre n := forall k st r s, parsePrefix n k st = POk r s -> parsePrefix (S n) k st = POk r s.
Definition Mobj n := forall ln pairs st r s, parseObjectLoop n ln pairs st = POk r s -> parseObjectLoop (S n) ln pairs st = POk r s.
Definition Mpratt n := forall prec lft st r s, prattLoop n prec lft st = POk r s -> prattLoop (S n) prec lft st = POk r s.
Definition Minf n := forall k lft st r s, parseInfix n k lft st = POk r s -> parseInfix (S n) k lft st = POk r s.
Definition Mel n := forall e st r s, parseExpressionList n e st = POk r s -> parseExpressionList (S n) e st = POk r s.
Definition Mell n := forall e acc st r s, exprListLoop n e acc st = POk r s -> exprListLoop (S n) e acc st = POk r s.

Ltac head_scrut t :=
  lazymatch t with
  | match ?X with _ => _ end => head_scrut X
  | _ => t
  end.

(* walk the two unfolded bodies in lockstep: every call in the hypothesis returned, so by the
   induction hypothesis the same call with one more unit of fuel returns the same *)
Ltac mcall H X :=
  let a := fresh "a" in let s' := fresh "s" in let E := fresh "E" in
  destruct X as [a s'|] eqn:E; [|discriminate H];
  match goal with IH : _ |- _ => apply IH in E end; rewrite E; clear E.

Ltac mstep H :=
  cbv beta match zeta in H |- *; cbn [negb andb orb] in H |- *;
  first [ solve [match goal with IH : _ |- _ => apply IH; exact H end] |
  lazymatch type of H with
  | ?body = POk _ _ =>
    let X := head_scrut body in
    lazymatch X with
    | POk _ _ => exact H
    | POOF => discriminate H
    | _ => let T := type of X in
           lazymatch T with
           | pres _ => first [ match X with context [if ?b then _ else _] => destruct b eqn:? end | mcall H X ]
           | _ => destruct X eqn:?
           end
    end
  end ].

Lemma expr_group_mono n : Me n /\ Mpre n /\ Mobj n /\ Mpratt n /\ Minf n /\ Mel n /\ Mell n.
Proof.
  induction n as [|f (IHe & IHpre & IHobj & IHpratt & IHinf & IHel & IHell)].
  { unfold Me, Mpre, Mobj, Mpratt, Minf, Mel, Mell. repeat split; intros; discriminate. }
  unfold Me, Mpre, Mobj, Mpratt, Minf, Mel, Mell in *.
  repeat split.
  - intros prec st r s H. cbn [parseExpression] in H |- *. repeat mstep H.
  - intros k st r s H. cbn [parsePrefix] in H |- *. repeat mstep H.
  - intros ln pairs st r s H. cbn [parseObjectLoop] in H |- *. repeat mstep H.
  - intros prec lft st r s H. cbn [prattLoop] in H |- *. repeat mstep H.
  - intros k lft st r s H. cbn [parseInfix] in H |- *. repeat mstep H.
  - intros e st r s H. cbn [parseExpressionList] in H |- *. repeat mstep H.
  - intros e acc st r s H. cbn [exprListLoop] in H |- *. repeat mstep H.
Qed.

Theorem parseExpression_fuel_mono n m prec st r s :
  (n <= m)%nat -> parseExpression n prec st = POk r s -> parseExpression m prec st = POk r s.
Proof.
  intros L H. induction L as [|m L IH]; [exact H|]. apply expr_group_mono, IH.
Qed.
