(* C19 / C13 foundation: the lexer's per-character counters against the pure
   position function lc of Spec/Positions.v. *)
From TW Require Import Bytes GenToken Lexer Positions.
Open Scope N_scope.

Definition Inv (input : bytes) (l : lexer) : Prop :=
  rest l = skipn (lpos l) input /\
  (line l, col l) = lc input (lpos l) /\
  shouldResetCol l = (cur l =? 10) /\
  ((0 < lpos l)%nat -> (prevLine l, prevCol l) = lc input (lpos l - 1)%nat) /\
  ((0 < lpos l <= List.length input)%nat -> lprev l = nth (lpos l - 1)%nat input 0).

Lemma hd_skipn (k : nat) (s : bytes) : hd 0 (skipn k s) = nth k s 0.
Proof.
  revert s; induction k as [|k IH]; intros [|c s]; simpl; try reflexivity.
  apply IH.
Qed.

Lemma tl_skipn (k : nat) (s : bytes) : tl (skipn k s) = skipn (S k) s.
Proof.
  revert s; induction k as [|k IH]; intros s.
  - destruct s; reflexivity.
  - destruct s as [|c s].
    + reflexivity.
    + change (skipn (S k) (c :: s)) with (skipn k s).
      change (skipn (S (S k)) (c :: s)) with (skipn (S k) s). apply IH.
Qed.

Lemma lc_succ input k :
  lc input (S k) =
  if nth k input 0 =? 10 then (S (fst (lc input k)), O) else (fst (lc input k), S (snd (lc input k))).
Proof. cbn [lc]. destruct (lc input k) as [ln cl]. reflexivity. Qed.

Lemma newLexer_inv input : Inv input (newLexer input).
Proof.
  unfold Inv, newLexer, cur; cbn. repeat split; try reflexivity; intros; lia.
Qed.

Lemma readChar_inv input l :
  Inv input l -> Inv input (readChar l) /\ lpos (readChar l) = S (lpos l).
Proof.
  intros (Hr & Hlc & Hs & Hp & Hv). split; [|reflexivity].
  unfold Inv, readChar, cur; cbn [rest lpos lprev col prevCol line prevLine shouldResetCol].
  repeat split.
  - rewrite Hr. apply tl_skipn.
  - rewrite lc_succ, <- Hlc. cbn [fst snd].
    unfold cur in Hs. rewrite Hr, hd_skipn in Hs. rewrite <- Hs.
    destruct (shouldResetCol l); reflexivity.
  - intros _. replace (S (lpos l) - 1)%nat with (lpos l) by lia. exact Hlc.
  - intros _. replace (S (lpos l) - 1)%nat with (lpos l) by lia.
    unfold cur. rewrite Hr. apply hd_skipn.
Qed.

Lemma tokenBegins_inv input l : Inv input l -> Inv input (tokenBegins l).
Proof. intros H; exact H. Qed.

Lemma setModes_inv input l a b : Inv input l -> Inv input (setModes l a b).
Proof. intros H; exact H. Qed.

Lemma setCounts_inv input l a b : Inv input l -> Inv input (setCounts l a b).
Proof. intros H; exact H. Qed.

Lemma readN_inv input n : forall l,
  Inv input l ->
  Inv input (readN n l) /\ lpos (readN n l) = (lpos l + n)%nat /\
  startLine (readN n l) = startLine l /\ startCol (readN n l) = startCol l.
Proof.
  induction n as [|n IH]; intros l H; cbn [readN].
  - split; [exact H|]. repeat split; lia.
  - destruct (readChar_inv input l H) as (H1 & H2).
    destruct (IH _ H1) as (A & B & C & D).
    split; [exact A|]. repeat split; try (rewrite B, H2; lia); assumption.
Qed.

(* every fixed-width token (operators, braces, parentheses): tokenBegins; k > 0 readChars; newToken *)
Theorem fixed_width_token_pos input l k ty lit :
  Inv input l -> (0 < k)%nat -> tok_eqb ty T_EOF = false ->
  let '(t, l') := fixedToken l k ty lit in
  (tsl t, tsc t) = lc input (lpos l) /\
  (tel t, tec t) = lc input (lpos l + k - 1) /\
  Inv input l' /\ lpos l' = (lpos l + k)%nat.
Proof.
  intros H Hk Hty. unfold fixedToken.
  destruct (readN_inv input k (tokenBegins l) (tokenBegins_inv _ _ H)) as (A & B & C & D).
  cbn [lpos tokenBegins] in B. cbn [startLine startCol tokenBegins] in C, D.
  unfold newToken. rewrite Hty. cbn [tsl tsc tel tec].
  split; [|split; [|split; [exact A | exact B]]].
  - rewrite C, D. destruct H as (_ & Hlc & _). exact Hlc.
  - destruct A as (_ & _ & _ & Hp & _). rewrite Hp by lia. rewrite B. reflexivity.
Qed.

(* the end-of-input token: at the current position, which is lc of the current offset *)
Theorem eof_token_pos input l :
  Inv input l ->
  let l' := tokenBegins l in
  let t := newToken l' T_EOF [] in
  (tsl t, tsc t) = lc input (lpos l) /\ (tel t, tec t) = lc input (lpos l).
Proof.
  intros (_ & Hlc & _). cbn. split; exact Hlc.
Qed.

(* the executable table used by the oracle is the specification function *)
Lemma lc_table_from_nth s : forall pre ln cl k,
  (ln, cl) = lc (pre ++ s) (List.length pre) ->
  (k <= List.length s)%nat ->
  nth k (lc_table_from s ln cl) (O, O) = lc (pre ++ s) (List.length pre + k).
Proof.
  induction s as [|c s IH]; intros pre ln cl k H Hk.
  - simpl in Hk. assert (k = O) by lia. subst. simpl. rewrite Nat.add_0_r. exact H.
  - destruct k as [|k].
    + simpl. rewrite Nat.add_0_r. destruct (c =? 10); exact H.
    + cbn [lc_table_from nth].
      assert (E : lc (pre ++ c :: s) (S (List.length pre)) =
                  if c =? 10 then (S ln, O) else (ln, S cl)).
      { rewrite lc_succ, <- H. cbn [fst snd]. rewrite app_nth2 by lia.
        rewrite Nat.sub_diag. reflexivity. }
      replace (pre ++ c :: s) with ((pre ++ [c]) ++ s) in * by (rewrite <- app_assoc; reflexivity).
      replace (List.length pre + S k)%nat with (List.length (pre ++ [c]) + k)%nat
        by (rewrite app_length; simpl; lia).
      assert (L : List.length (pre ++ [c]) = S (List.length pre)) by (rewrite app_length; simpl; lia).
      destruct (c =? 10); apply IH; try (simpl in Hk; lia); rewrite L; symmetry; exact E.
Qed.

Theorem lc_table_spec input k :
  (k <= List.length input)%nat -> nth k (lc_table input) (O, O) = lc input k.
Proof.
  intros Hk. unfold lc_table.
  apply (lc_table_from_nth input [] O O k); [reflexivity | exact Hk].
Qed.

(* non-vacuity: a concrete multi-line input reaches a state satisfying Inv with a token on line 1 *)
Example inv_reachable :
  let input := [97; 10; 98; 99] in
  let l := readN 2 (newLexer input) in
  Inv input l /\ fst (fixedToken l 2 T_INC [43; 43]) = mkToken T_INC [43; 43] 1 0 1 1.
Proof.
  cbn zeta. split.
  - apply (readN_inv [97; 10; 98; 99] 2 _ (newLexer_inv _)).
  - reflexivity.
Qed.
