(* C07, loader half for ALL slots of one use: ApplyComponent (Model/Api.apply_component) puts every
   body the caller passed into the first top-level placeholder of its name in the component file,
   in the order the slots were written; on the specification side that is fill_slots over the
   component's tree.  Up to line numbers the attached block is the tree with its slots filled; a
   slot the file does not declare makes the load fail. *)
From Coq Require Import String Lia.
From TW Require Import Bytes GenToken Lexer Ast Parser Values Builtins Eval Render Api.
From TW Require Import Expr Template ExprSem Control CleanValues TemplateRefine LineIrrelevance.
Open Scope N_scope.

(* the first top-level placeholder of that name gets the body *)
Fixpoint set_slot (C : list tnode) (name : bytes) (body : list tnode) : option (list tnode) :=
  match C with
  | [] => None
  | NSlot n b :: C' =>
    if bytes_eqb n name then Some (NSlot n (Some body) :: C')
    else match set_slot C' name body with Some r => Some (NSlot n b :: r) | None => None end
  | x :: C' => match set_slot C' name body with Some r => Some (x :: r) | None => None end
  end.

Fixpoint fill_slots (C : list tnode) (slots : list (bytes * list tnode)) : option (list tnode) :=
  match slots with
  | [] => Some C
  | (n, b) :: rest => match set_slot C n b with Some C' => fill_slots C' rest | None => None end
  end.

Lemma set_slot_body_strip : forall ss C name body sbody,
  map strip_s ss = map strip_s (map cnode C) ->
  map strip_s body = map strip_s (map cnode sbody) ->
  match set_slot C name sbody with
  | Some C' => exists ss', set_slot_body ss name body = Some ss' /\ map strip_s ss' = map strip_s (map cnode C')
  | None => set_slot_body ss name body = None
  end.
Proof.
  induction ss as [|s ss IH]; intros C name body sbody H Hb; destruct C as [|n C]; try discriminate H.
  - reflexivity.
  - cbn [map] in H. injection H as Hs Hrest.
    specialize (IH C name body sbody Hrest Hb).
    destruct n; cbn [cnode strip_s] in Hs; destruct s; try discriminate Hs; cbn [set_slot set_slot_body].
    all: try (destruct (set_slot C name sbody) as [C'|];
              [destruct IH as (ss' & -> & E); eexists; split; [reflexivity|]; cbn [map cnode strip_s]; rewrite E;
               first [rewrite Hs; reflexivity | f_equal; exact Hs]
              |rewrite IH; reflexivity]).
    (* the placeholder itself *)
    injection Hs as Hn Hbody. subst name1.
    destruct (bytes_eqb name0 name).
    + eexists. split; [reflexivity|]. cbn [map cnode strip_s]. rewrite Hrest, Hb. reflexivity.
    + destruct (set_slot C name sbody) as [C'|].
      * destruct IH as (ss' & -> & E). eexists. split; [reflexivity|]. cbn [map cnode strip_s]. rewrite E, Hbody. reflexivity.
      * rewrite IH. reflexivity.
Qed.

(* the caller's slots and their specification counterparts: same names, same bodies up to lines *)
Definition slots_match (slots : list (nat * bytes * list stmt)) (sslots : list (bytes * list tnode)) : Prop :=
  Forall2 (fun (sl : nat * bytes * list stmt) (sp : bytes * list tnode) =>
             snd (fst sl) = fst sp /\ map strip_s (snd sl) = map strip_s (map cnode (snd sp))) slots sslots.

Section OneUse.
Variable fs : fsys.
Variable cfg : config.

Lemma apply_go page_abs name cl : forall slots sslots ss C,
  slots_match slots sslots ->
  map strip_s ss = map strip_s (map cnode C) ->
  match fill_slots C sslots with
  | Some C' =>
    exists ss', (fix go (sl : list (nat * bytes * list stmt)) (ss : list stmt) : load_result (list stmt) :=
       match sl with
       | [] => Api.LOk ss
       | (_, sn, body) :: sl' =>
         match set_slot_body ss sn body with
         | Some ss' => go sl' ss'
         | None =>
           match sn with
           | [] => Api.LErr (mkErr cl page_abs (fmt ErrDefaultSlotNotDefined [name]))
           | _ => Api.LErr (mkErr cl page_abs (fmt ErrSlotNotDefined [sn; name]))
           end
         end
       end) slots ss = Api.LOk ss' /\ map strip_s ss' = map strip_s (map cnode C')
  | None =>
    exists e, (fix go (sl : list (nat * bytes * list stmt)) (ss : list stmt) : load_result (list stmt) :=
       match sl with
       | [] => Api.LOk ss
       | (_, sn, body) :: sl' =>
         match set_slot_body ss sn body with
         | Some ss' => go sl' ss'
         | None =>
           match sn with
           | [] => Api.LErr (mkErr cl page_abs (fmt ErrDefaultSlotNotDefined [name]))
           | _ => Api.LErr (mkErr cl page_abs (fmt ErrSlotNotDefined [sn; name]))
           end
         end
       end) slots ss = Api.LErr e
  end.
Proof.
  induction slots as [|[[sln sn] body] slots IH]; intros sslots ss C M H; inversion M as [|? [sn' sbody] ? ? [Hn Hb] M']; subst.
  - cbn [fill_slots]. exists ss. split; [reflexivity|exact H].
  - cbn [fst snd] in Hn, Hb. subst sn'. cbn [fill_slots].
    pose proof (set_slot_body_strip ss C sn body sbody H Hb) as S.
    destruct (set_slot C sn sbody) as [C'|].
    + destruct S as (ss' & -> & E). exact (IH _ ss' C' M' E).
    + rewrite S. destruct sn; eexists; reflexivity.
Qed.

(* every slot of the use, in one statement *)
Theorem apply_component_is_fill_slots page_abs cline name slots sslots cprog cl C :
  slots_match slots sslots ->
  map strip_s (p_stmts cprog) = map strip_s (map cnode C) ->
  find_duplicate_slot slots slots = None ->
  match fill_slots C sslots with
  | Some C' => exists ss, apply_component page_abs cline name slots cprog cl = Api.LOk ss /\
                          map strip_s ss = map strip_s (map cnode C')
  | None => exists e, apply_component page_abs cline name slots cprog cl = Api.LErr e
  end.
Proof.
  intros M H D. unfold apply_component. rewrite D. exact (apply_go page_abs name cl slots sslots (p_stmts cprog) C M H).
Qed.

(* ... and the block that the loader attaches to the use is that one: resolve_components for a
   single use of an existing component file *)
Theorem one_use_gets_the_filled_tree page_abs cid cline name slots sslots cp C C' :
  parse_file fs (rel_of cfg name) = Api.LOk (PProg cp) ->
  slots_match slots sslots ->
  map strip_s (p_stmts cp) = map strip_s (map cnode C) ->
  find_duplicate_slot slots slots = None ->
  fill_slots C sslots = Some C' ->
  exists ss, resolve_components fs cfg page_abs [(cid, cline, name, slots)] = Api.LOk [(cid, ss)] /\
             map strip_s ss = map strip_s (map cnode C').
Proof.
  intros Hp M H D F. cbn [resolve_components]. rewrite Hp. cbv beta iota.
  pose proof (apply_component_is_fill_slots page_abs cline name slots sslots cp
                (match read_file fs (rel_of cfg name) with ReadOk c => prog_line c | _ => 1%nat end) C M H D) as A.
  rewrite F in A. destruct A as (ss & -> & E). exists ss. split; [reflexivity|exact E].
Qed.

End OneUse.
