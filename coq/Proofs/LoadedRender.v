(* C07 (and any loaded template): what Template.String gives for a loaded template whose statements
   are - up to line numbers and the slot lists the evaluator never reads - the statements of a
   specification tree, is what the big-step semantics of Spec/Template.v gives for that tree.  The
   tree may hold component uses (with the component file's nodes and this use's slot bodies in its
   placeholders) at any depth: inside loops, conditionals, slot bodies and other components.
   TemplateRefine.v is the evaluator half; LineIrrelevance.v removes the lines. *)
From Coq Require Import String Lia.
From TW Require Import Bytes GenToken Lexer Ast Parser Values Builtins Eval Render Api.
From TW Require Import Expr Template ExprSem Control CleanValues TemplateRefine LineIrrelevance EvalMono.
Open Scope N_scope.

Theorem loaded_template_renders cfg tpl name ss P fsp gd (data : list (bytes * value)) :
  alookup name tpl = Some ss ->
  map strip_s ss = map strip_s (map cnode P) -> nodes_ok P ->
  env_from_map gd = EnvOk [data] ->
  forallb (fun kv : bytes * value => clean (snd kv)) data = true ->
  exists K, (K <= eval_fuel)%nat ->
    match run_nodes T fsp [data] P with
    | TOk out SigNormal _ => template_string cx0 cfg tpl name gd = StrOk out
    | TOk _ _ _ => True
    | TFail => exists e, template_string cx0 cfg tpl name gd = StrErr e
    | TNoFuel | TUnprintable => True
    end.
Proof.
  intros Htpl Hst Hok He Hcl.
  destruct (template_refines_specification fsp data P Hcl Hok) as (K & HK).
  exists K. intro Hle. specialize (HK eval_fuel Hle).
  pose proof (lines_do_not_matter cx0 eval_fuel [data] ss (map cnode P) [] Hst) as Sm.
  unfold template_string. rewrite He, Htpl.
  destruct (run_nodes T fsp [data] P) as [out sg sc| | |]; try exact I.
  - destruct sg; try exact I. destruct HK as (en' & E). rewrite E in Sm.
    destruct (eval_program cx0 eval_fuel [data] ss []) as [r|ln msg| | |]; cbn in Sm; try contradiction.
    subst r. reflexivity.
  - destruct HK as (ln & msg & E). rewrite E in Sm.
    destruct (eval_program cx0 eval_fuel [data] ss []) as [r|ln' msg'| | |]; cbn in Sm; try contradiction.
    eexists. reflexivity.
Qed.

(* the same whenever the model answers at all (EvalMono.v) *)
Theorem loaded_template_renders_when_it_answers cfg tpl name ss P fsp gd (data : list (bytes * value)) :
  alookup name tpl = Some ss ->
  map strip_s ss = map strip_s (map cnode P) -> nodes_ok P ->
  env_from_map gd = EnvOk [data] ->
  forallb (fun kv : bytes * value => clean (snd kv)) data = true ->
  template_string cx0 cfg tpl name gd <> StrOutOfFuel ->
  match run_nodes T fsp [data] P with
  | TOk out SigNormal _ => template_string cx0 cfg tpl name gd = StrOk out
  | TOk _ _ _ => True
  | TFail => exists e, template_string cx0 cfg tpl name gd = StrErr e
  | TNoFuel | TUnprintable => True
  end.
Proof.
  intros Htpl Hst Hok He Hcl Hans.
  destruct (template_refines_specification fsp data P Hcl Hok) as (K & HK).
  set (m := Nat.max K eval_fuel). specialize (HK m ltac:(subst m; lia)).
  pose proof (lines_do_not_matter cx0 m [data] ss (map cnode P) [] Hst) as Sm.
  unfold template_string in *. rewrite He, Htpl in *.
  assert (Hm : eval_program cx0 eval_fuel [data] ss [] <> OutOfFuel).
  { intro X. rewrite X in Hans. apply Hans. reflexivity. }
  pose proof (eval_program_fuel_mono cx0 eval_fuel m [data] ss [] _ ltac:(subst m; lia) eq_refl Hm) as Em.
  rewrite Em in Sm.
  destruct (run_nodes T fsp [data] P) as [out sg sc| | |]; try exact I.
  - destruct sg; try exact I. destruct HK as (en' & E). rewrite E in Sm.
    destruct (eval_program cx0 eval_fuel [data] ss []) as [r|ln msg| | |]; cbn in Sm; try contradiction.
    subst r. reflexivity.
  - destruct HK as (ln & msg & E). rewrite E in Sm.
    destruct (eval_program cx0 eval_fuel [data] ss []) as [r|ln' msg'| | |]; cbn in Sm; try contradiction.
    eexists. reflexivity.
Qed.
