(* C07 (and C04) on the specification: a statement writes at most the innermost scope; a block, a loop
   and a component use leave the scope chain exactly as it was.  Hence every use of a component is
   independent of the uses before it: two uses in a row render what each renders alone, from the
   same scopes. *)
From Coq Require Import String Lia.
From TW Require Import Bytes Floats Values Ast Builtins Eval Expr Template ExprSem Control CleanValues TemplateRefine SpecMono ReserveSplice.
Open Scope N_scope.

Notation T := model_call_spec.

Lemma assign_tl sc x v sc' : assign sc x v = Some sc' -> sc <> [] -> tl sc' = tl sc /\ sc' <> [].
Proof.
  unfold assign. intros H Hne. destruct (bytes_eqb x loop_name); [discriminate|].
  destruct sc as [|fr r]; [congruence|].
  destruct (lookup_var (fr :: r) x) as [old|]; [destruct (same_kind old v); [|discriminate]|];
    injection H as <-; split; [reflexivity|discriminate|reflexivity|discriminate].
Qed.

Lemma set_meta_tl sc i len : sc <> [] -> tl (set_meta sc i len) = tl sc /\ set_meta sc i len <> [].
Proof. intro H. destruct sc as [|fr r]; [congruence|]. split; [reflexivity|discriminate]. Qed.

Definition keeps (sc : scopes) (r : tres) : Prop :=
  match r with TOk _ _ sc' => tl sc' = tl sc /\ sc' <> [] | _ => True end.
Definition same (sc : scopes) (r : tres) : Prop :=
  match r with TOk _ _ sc' => sc' = sc | _ => True end.

Definition QS (f : nat) : Prop :=
  (forall sc ns, sc <> [] -> keeps sc (run_nodes T f sc ns)) /\
  (forall sc ns, sc <> [] -> same sc (run_block T f sc ns)) /\
  (forall sc n, sc <> [] -> keeps sc (run_node T f sc n)) /\
  (forall v body len i elems sc, sc <> [] -> keeps sc (each_passes T f v body len i elems sc)) /\
  (forall cond post body sc, sc <> [] -> keeps sc (for_passes T f cond post body sc)).

Lemma keeps_refl o s sc : sc <> [] -> keeps sc (TOk o s sc).
Proof. intro H. split; [reflexivity|exact H]. Qed.

Lemma keeps_trans sc sc1 r : tl sc1 = tl sc -> keeps sc1 r -> keeps sc r.
Proof. intros E H. destruct r; try exact I. destruct H as [H1 H2]. split; [congruence|exact H2]. Qed.

Lemma cons_tl (fr : list (bytes * value)) sc sc1 : tl sc1 = tl (fr :: sc) -> sc1 <> [] -> tl sc1 = sc.
Proof. intros H _. exact H. Qed.

Lemma bind_spec_tl sc : forall ps ne ne', ne <> [] -> bind_spec T sc ps ne = Some (Some ne') -> tl ne' = tl ne /\ ne' <> [].
Proof.
  induction ps as [|[k e] ps IH]; intros ne ne' Hne H; cbn [bind_spec] in H.
  - injection H as <-. split; [reflexivity|exact Hne].
  - destruct (ev T sc e) as [v| |]; try discriminate H.
    destruct (assign ne k v) as [ne1|] eqn:Ea; [|discriminate H].
    destruct (assign_tl ne k v ne1 Ea Hne) as [E1 N1]. destruct (IH ne1 ne' N1 H) as [E2 N2].
    split; [congruence|exact N2].
Qed.

Lemma spec_scopes : forall f, QS f.
Proof.
  induction f as [|f (INs & IB & IN & IE & IF)]; [repeat split; intros; exact I|].
  assert (NE : forall (fr : list (bytes * value)) (sc : scopes), fr :: sc <> []) by (intros; discriminate).
  split; [|split; [|split; [|split]]].
  - (* run_nodes *)
    intros sc ns Hne. destruct ns as [|n ns]; [rewrite run_nodes_nil; apply keeps_refl, Hne|].
    rewrite run_nodes_cons. pose proof (IN sc n Hne) as Hn.
    destruct (run_node T f sc n) as [o s sc1| | |]; try exact I. destruct Hn as [E1 N1].
    destruct s; try (split; assumption).
    pose proof (INs sc1 ns N1) as Hr. destruct (run_nodes T f sc1 ns) as [o2 s2 sc2| | |]; try exact I.
    destruct Hr as [E2 N2]. split; [congruence|exact N2].
  - (* run_block *)
    intros sc ns Hne. rewrite run_block_S. pose proof (INs ([] :: sc) ns (NE _ _)) as H.
    destruct (run_nodes T f ([] :: sc) ns) as [o s sc1| | |]; try exact I. destruct H as [E _]. exact E.
  - (* run_node *)
    intros sc n Hne. destruct n.
    + rewrite rn_text. apply keeps_refl, Hne.
    + rewrite rn_print. destruct (ev T sc e); try exact I. destruct (value_string v); [apply keeps_refl, Hne|exact I].
    + rewrite rn_assign. destruct (ev T sc e); try exact I. destruct (assign sc x v) as [sc'|] eqn:Ea; [|exact I].
      exact (assign_tl sc x v sc' Ea Hne).
    + rewrite rn_if. destruct (ev T sc c); try exact I.
      assert (BK : forall b, keeps sc (run_block T f sc b)).
      { intro b. pose proof (IB sc b Hne) as H. destruct (run_block T f sc b); try exact I. cbn [same] in H. subst. apply keeps_refl, Hne. }
      destruct (truthy_spec v); [apply BK|].
      induction elifs as [|[c' b] elifs IHe]; cbn [branches]; [destruct els; [apply BK|apply keeps_refl, Hne]|].
      destruct (ev T sc c'); try exact I. destruct (truthy_spec v0); [apply BK|exact IHe].
    + rewrite rn_each. destruct (ev T sc arr) as [av| |]; try exact I. destruct av; try exact I.
      assert (BK : forall b, keeps sc (run_block T f sc b)).
      { intro b. pose proof (IB sc b Hne) as H. destruct (run_block T f sc b); try exact I. cbn [same] in H. subst. apply keeps_refl, Hne. }
      assert (LP : forall elems, keeps sc (match each_passes T f v body (List.length elems) 0 elems ([] :: sc) with
                                        | TOk o _ sc1 => TOk o SigNormal (tl sc1) | TFail => TFail | TNoFuel => TNoFuel | TUnprintable => TUnprintable end)).
      { intro elems. pose proof (IE v body (List.length elems) 0%nat elems ([] :: sc) (NE _ _)) as H.
        destruct (each_passes T f v body (List.length elems) 0 elems ([] :: sc)) as [o s sc1| | |]; try exact I.
        destruct H as [E _]. cbn [tl] in E. rewrite E. apply keeps_refl, Hne. }
      destruct l; destruct els; first [apply BK|apply LP].
    + rewrite rn_for. destruct (init_step ([] :: sc) init) as [[sc1|]|] eqn:Ei; try exact I.
      assert (H1 : tl sc1 = sc /\ sc1 <> []).
      { unfold init_step in Ei. destruct init as [[x e]|].
        - destruct (ev T ([] :: sc) e); try discriminate Ei. destruct (assign ([] :: sc) x v) as [s1|] eqn:Ea; [|discriminate Ei].
          injection Ei as <-. exact (assign_tl _ _ _ _ Ea (NE _ _)).
        - injection Ei as <-. split; [reflexivity|discriminate]. }
      destruct H1 as [E1 N1].
      destruct (cond_val sc1 cond) as [[enter|]|]; try exact I.
      assert (LP : keeps sc (match for_passes T f cond post body sc1 with
                             | TOk o _ sc2 => TOk o SigNormal (tl sc2) | TFail => TFail | TNoFuel => TNoFuel | TUnprintable => TUnprintable end)).
      { pose proof (IF cond post body sc1 N1) as H. destruct (for_passes T f cond post body sc1) as [o s sc2| | |]; try exact I.
        destruct H as [E _]. rewrite E, E1. apply keeps_refl, Hne. }
      assert (EL : forall b, keeps sc (match run_nodes T f sc1 b with
                                       | TOk o s sc2 => TOk o s (tl sc2) | TFail => TFail | TNoFuel => TNoFuel | TUnprintable => TUnprintable end)).
      { intro b. pose proof (INs sc1 b N1) as H. destruct (run_nodes T f sc1 b) as [o s sc2| | |]; try exact I.
        destruct H as [E _]. rewrite E, E1. apply keeps_refl, Hne. }
      destruct enter; destruct els; first [apply LP|apply EL].
    + rewrite rn_break. apply keeps_refl, Hne.
    + rewrite rn_continue. apply keeps_refl, Hne.
    + rewrite rn_breakif. destruct (ev T sc e); try exact I. apply keeps_refl, Hne.
    + rewrite rn_continueif. destruct (ev T sc e); try exact I. apply keeps_refl, Hne.
    + destruct blk as [b|].
      * rewrite rn_reserve_block. pose proof (INs sc b Hne) as H. destruct (run_nodes T f sc b); try exact I. exact H.
      * destruct arg as [e|]; [rewrite rn_reserve_expr|rewrite rn_reserve_empty; apply keeps_refl, Hne].
        destruct (ev T sc e); try exact I. destruct (value_string v); [apply keeps_refl, Hne|exact I].
    + rewrite rn_component.
      destruct (match args with Some ps => bind_spec T sc (asort ps) ([] :: sc) | None => Some (Some ([] :: sc)) end) as [[sc1|]|] eqn:Eb; try exact I.
      assert (H1 : tl sc1 = sc /\ sc1 <> []).
      { destruct args as [ps|]; [exact (bind_spec_tl sc (asort ps) _ _ (NE _ _) Eb)|injection Eb as <-; split; [reflexivity|discriminate]]. }
      destruct H1 as [E1 N1]. pose proof (INs sc1 body N1) as H.
      destruct (run_nodes T f sc1 body) as [o s sc2| | |]; try exact I. destruct s; try exact I.
      destruct H as [E _]. rewrite E, E1. apply keeps_refl, Hne.
    + destruct body as [b|]; [rewrite rn_slot_body|rewrite rn_slot_empty; apply keeps_refl, Hne].
      pose proof (INs sc b Hne) as H. destruct (run_nodes T f sc b); try exact I. exact H.
  - (* each_passes *)
    intros v body len i elems sc Hne. rewrite each_passes_S. destruct elems as [|x rest]; [apply keeps_refl, Hne|].
    destruct (assign sc v x) as [sc1|] eqn:Ea; [|exact I]. destruct (assign_tl _ _ _ _ Ea Hne) as [E1 N1].
    destruct (set_meta_tl sc1 i len N1) as [E2 N2].
    pose proof (INs (set_meta sc1 i len) body N2) as H.
    destruct (run_nodes T f (set_meta sc1 i len) body) as [o s sc2| | |]; try exact I. destruct H as [E3 N3].
    assert (E : tl sc2 = tl sc) by congruence.
    destruct s; try (split; assumption);
      (pose proof (IE v body len (S i) rest sc2 N3) as H4;
       destruct (each_passes T f v body len (S i) rest sc2) as [o2 s2 sc3| | |]; try exact I;
       destruct H4 as [E4 N4]; split; [congruence|exact N4]).
  - (* for_passes *)
    intros cond post body sc Hne. rewrite for_passes_S. destruct (cond_val sc cond) as [[[|]|]|]; try exact I; [|apply keeps_refl, Hne].
    pose proof (INs sc body Hne) as H. destruct (run_nodes T f sc body) as [o s sc1| | |]; try exact I. destruct H as [E1 N1].
    assert (PS : forall sc2, post_step sc1 post = Some (Some sc2) -> tl sc2 = tl sc1 /\ sc2 <> []).
    { intros sc2 Hp. unfold post_step in Hp. destruct post as [[x|x|x e]|]; cbv beta iota zeta in Hp.
      - destruct (ev T sc1 (XInc (XVar x))) as [v| |]; [|discriminate Hp|discriminate Hp].
        assert (Ha : assign sc1 x v = Some sc2) by congruence. exact (assign_tl _ _ _ _ Ha N1).
      - destruct (ev T sc1 (XDec (XVar x))) as [v| |]; [|discriminate Hp|discriminate Hp].
        assert (Ha : assign sc1 x v = Some sc2) by congruence. exact (assign_tl _ _ _ _ Ha N1).
      - destruct (ev T sc1 e) as [v| |]; [|discriminate Hp|discriminate Hp].
        assert (Ha : assign sc1 x v = Some sc2) by congruence. exact (assign_tl _ _ _ _ Ha N1).
      - assert (sc2 = sc1) as -> by congruence. split; [reflexivity|exact N1]. }
    destruct s; try (split; assumption);
      (destruct (post_step sc1 post) as [[sc2|]|] eqn:Ep; try exact I;
       destruct (PS sc2 eq_refl) as [E2 N2];
       pose proof (IF cond post body sc2 N2) as H4;
       destruct (for_passes T f cond post body sc2) as [o2 s2 sc3| | |]; try exact I;
       destruct H4 as [E4 N4]; split; [congruence|exact N4]).
Qed.

(* ---------- what it means for component uses *)
Theorem component_use_restores_the_scopes f sc n cid args body o s sc' :
  sc <> [] -> run_node T f sc (NComponent n cid args body) = TOk o s sc' -> sc' = sc /\ s = SigNormal.
Proof.
  intros Hne H. destruct f as [|f]; [discriminate H|]. rewrite rn_component in H.
  destruct (match args with Some ps => bind_spec T sc (asort ps) ([] :: sc) | None => Some (Some ([] :: sc)) end) as [[sc1|]|] eqn:Eb; try discriminate H.
  assert (H1 : tl sc1 = sc /\ sc1 <> []).
  { assert (NEc : ([] : list (bytes * value)) :: sc <> []) by discriminate.
    destruct args as [ps|]; [exact (bind_spec_tl sc (asort ps) _ _ NEc Eb)|].
    assert (sc1 = [] :: sc) as -> by congruence. split; [reflexivity|discriminate]. }
  destruct H1 as [E1 N1]. pose proof (proj1 (spec_scopes f) sc1 body N1) as K.
  destruct (run_nodes T f sc1 body) as [o2 s2 sc2| | |]; try discriminate H. destruct s2; try discriminate H.
  destruct K as [E _]. injection H as _ <- <-. split; [congruence|reflexivity].
Qed.

(* two uses in a row: each renders what it renders alone, from the same scopes *)
Theorem uses_are_independent sc n1 c1 a1 b1 n2 c2 a2 b2 o1 s1 sc1 o2 s2 sc2 :
  sc <> [] ->
  RunsToN sc (NComponent n1 c1 a1 b1) (TOk o1 s1 sc1) -> RunsToN sc (NComponent n2 c2 a2 b2) (TOk o2 s2 sc2) ->
  RunsTo sc [NComponent n1 c1 a1 b1; NComponent n2 c2 a2 b2] (TOk (o1 ++ o2) SigNormal sc).
Proof.
  intros Hne H1 H2.
  assert (F1 : sc1 = sc /\ s1 = SigNormal).
  { destruct H1 as [_ [m Hm]]. exact (component_use_restores_the_scopes m sc _ _ _ _ _ _ _ Hne (Hm m (le_n _))). }
  assert (F2 : sc2 = sc /\ s2 = SigNormal).
  { destruct H2 as [_ [m Hm]]. exact (component_use_restores_the_scopes m sc _ _ _ _ _ _ _ Hne (Hm m (le_n _))). }
  destruct F1 as [-> ->]. destruct F2 as [-> ->].
  pose proof (cons_bwd_go sc _ [] o2 sc _ H2 (runs_nil sc)) as R2. cbn [glue] in R2. rewrite app_nil_r in R2.
  pose proof (cons_bwd_go sc _ _ o1 sc _ H1 R2) as R. exact R.
Qed.
