(* C08, the rejection clause: a token list that contains an ILLEGAL token - an illegal character,
   an unterminated string, an unterminated comment - is never accepted by the parser model.

   Hypotheses on the list (both are facts about what the lexer produces, see LexAll.v): an
   ILLEGAL token is followed only by ILLEGAL / EOF tokens ([sok]) and EOF occurs only as the last
   token ([eol]).  The proof refines the walk of ParseTotal.v: every parse function either
   records a new error or leaves the number of ILLEGAL tokens still ahead unchanged - it steps
   over a token only after it has looked at its type, or after it has seen that the NEXT token
   is one that can not follow an ILLEGAL token.  A parse without errors ends on EOF with every
   ILLEGAL token still ahead, which is absurd. *)
From Coq Require Import String Lia.
From TW Require Import Bytes GenToken GenParser Lexer Ast Parser GenTie ParseTotal.

Definition SQ (ts : list token) : Prop := sok ts = true /\ eol ts = true.

Lemma SQ_tail a b r : SQ (a :: b :: r) -> SQ (b :: r).
Proof.
  intros [A B]. cbn [sok] in A. cbn [eol] in B.
  apply andb_true_iff in A as [_ A]. apply andb_true_iff in B as [_ B]. split; assumption.
Qed.

Definition gd := good SQ.
Definition E (st : pstate) : nat := List.length (errs st).
Definition ic (st : pstate) : nat := List.length (filter illT (toks st)).
Definition NT (st : pstate) : Prop := is_termT (ttype (curT st)) = false.

(* pre: what must hold of the state a function is entered in for its conclusion about ILLEGAL
   tokens (it is only known on the path without errors, so it sits inside the implication) *)
Definition okres3 {A} (pre : Prop) (strong : bool) (bad : A -> bool) (st : pstate) (r : pres A) : Prop :=
  exists a st', r = POk a st' /\ gd st' /\ (mu st' <= mu st)%nat /\ (E st <= E st')%nat /\
                (E st' = E st -> pre -> ic st' = ic st /\ (strong = true -> NT st')) /\
                (bad a = true -> (E st < E st')%nat).
(* bad: answers that signal a failure (Go's nil) come with a recorded error *)
Definition never {A} (_ : A) : bool := false.
Definition is_none {A} (o : option A) : bool := match o with None => true | Some _ => false end.
Notation okres2 pre strong := (okres3 pre strong never).

(* ---------- the state transformers *)
Lemma gd_advance st : gd st -> gd (advance st).
Proof. apply (good_advance SQ SQ_tail). Qed.
Lemma gd_addErr st t m : gd st -> gd (addErr st (eline t) m).
Proof. apply (good_addErr SQ). Qed.

Lemma E_advance st : E (advance st) = E st.
Proof. unfold E, advance. destruct (toks st) as [|a [|b r]]; reflexivity. Qed.
Lemma E_addErr st l m : E (addErr st l m) = S (E st).
Proof. reflexivity. Qed.

Lemma illT_term t : illT t = true -> is_termT (ttype t) = true.
Proof. unfold illT, is_termT. intros ->. apply orb_true_r. Qed.

Lemma ic_advance st : NT st -> ic (advance st) = ic st.
Proof.
  unfold NT, ic, advance, curT. destruct (toks st) as [|a [|b r]] eqn:Et; cbn [setToks toks hd]; rewrite ?Et; try reflexivity.
  intro H. cbn [filter]. destruct (illT a) eqn:I; [|reflexivity]. apply illT_term in I. congruence.
Qed.

Lemma NT_of_peek st t : gd st -> peekIs st t = true -> is_termT t = false -> NT st.
Proof.
  intros (A & _ & _ & S1 & S2) H Ht. unfold peekIs in H. apply tok_eqb_eq in H. subst t.
  unfold NT, peekT, curT in *. destruct (toks st) as [|a [|b r]]; cbn [hd] in *.
  - discriminate A.
  - exact Ht.
  - cbn [sok] in S1. cbn [eol] in S2. apply andb_true_iff in S1 as [S1 _]. apply andb_true_iff in S2 as [S2 _].
    unfold is_termT. apply negb_true_iff in S2. rewrite S2. cbn [orb].
    destruct (tok_eqb (ttype a) T_ILLEGAL) eqn:I; [|reflexivity].
    unfold illT in S1. rewrite I in S1. cbn [negb orb] in S1. congruence.
Qed.

Lemma NT_adv_of_peek st t : peekIs st t = true -> is_termT t = false -> NT (advance st).
Proof.
  intros H Ht. apply peek_is_cur_of_advance in H. unfold curIs in H. apply tok_eqb_eq in H. unfold NT. rewrite H. exact Ht.
Qed.

Lemma cur_adv2_is_peek2 st : curT (advance (advance st)) = peek2T st.
Proof.
  unfold curT, peek2T, advance. destruct (toks st) as [|a [|b [|c r]]] eqn:Et; cbn [setToks toks hd]; rewrite ?Et; reflexivity.
Qed.

Lemma NT_adv2_of_peek2 st t : peek2Is st t = true -> is_termT t = false -> NT (advance (advance st)).
Proof.
  intros H Ht. unfold peek2Is in H. apply tok_eqb_eq in H. unfold NT. rewrite cur_adv2_is_peek2, H. exact Ht.
Qed.

Lemma NT_of_type st t : ttype (curT st) = t -> is_termT t = false -> NT st.
Proof. intros H Ht. unfold NT. rewrite H. exact Ht. Qed.

Lemma NT_of_curIs st t : curIs st t = true -> is_termT t = false -> NT st.
Proof. intros H Ht. unfold curIs in H. apply tok_eqb_eq in H. exact (NT_of_type st t H Ht). Qed.

Lemma expectPeek_spec2 st t :
  gd st -> is_termT t = false ->
  (expectPeek st t = (true, advance st) /\ (2 <= mu st)%nat /\ peekIs st t = true) \/
  (exists st', expectPeek st t = (false, st') /\ gd st' /\ mu st' = mu st /\ E st' = S (E st)).
Proof.
  intros G Ht. unfold expectPeek. destruct (peekIs st t) eqn:Ep.
  - left. split; [reflexivity|]. split; [exact (peek_nonterm SQ st t G Ep Ht)|reflexivity].
  - right. destruct (tokenString t) as [a|] eqn:Ea; [|exfalso; exact (tokenString_some _ Ea)].
    destruct (tokenString (ttype (peekT st))) as [b|] eqn:Eb; [|exfalso; exact (tokenString_some _ Eb)].
    eexists. split; [reflexivity|]. split; [apply gd_addErr, G|]. split; reflexivity.
Qed.

Lemma freshId_spec2 st a st' : freshId st = (a, st') ->
  (gd st -> gd st') /\ mu st' = mu st /\ E st' = E st /\ ic st' = ic st /\ (NT st -> NT st').
Proof. unfold freshId. intros [= _ <-]. split; [intro H; exact H|]. split; [reflexivity|]. split; [reflexivity|]. split; [reflexivity|intro H; exact H]. Qed.

Lemma aliasPath_spec2 st s n st' : aliasPath st s = (n, st') ->
  (gd st -> gd st') /\ mu st' = mu st /\ (E st <= E st')%nat /\ ic st' = ic st /\ (NT st -> NT st').
Proof.
  unfold aliasPath. destruct (tlit (curT st)) as [|c r].
  - intros [= _ <-]. split; [apply gd_addErr|]. split; [reflexivity|]. split; [rewrite E_addErr; lia|]. split; [reflexivity|intro H; exact H].
  - destruct (c =? 126)%N; intros [= _ <-]; (split; [intro H; exact H|]; split; [reflexivity|]; split; [lia|]; split; [reflexivity|intro H; exact H]).
Qed.

Lemma okres3_ret {A} (pre : Prop) strong (bad : A -> bool) st (a : A) st' :
  gd st' -> (mu st' <= mu st)%nat -> (E st <= E st')%nat ->
  (E st' = E st -> pre -> ic st' = ic st /\ (strong = true -> NT st')) ->
  (bad a = true -> (E st < E st')%nat) -> okres3 pre strong bad st (POk a st').
Proof. intros G M L K B. exists a, st'. auto 10. Qed.

(* ---------- automation *)
Ltac good_tac :=
  repeat first [ assumption | apply gd_advance | apply gd_addErr
               | match goal with
                 | |- gd (setUse ?s _) => change (gd s)
                 | |- gd (addComponent ?s _) => change (gd s)
                 | |- gd (addReserve ?s _ _) => change (gd s)
                 | |- gd (addInsert ?s _ _) => change (gd s)
                 end ].

Ltac mu_norm := repeat rewrite ?mu_advance, ?mu_addErr, ?mu_setUse, ?mu_addComponent, ?mu_addReserve, ?mu_addInsert in *.
Ltac mu_tac := mu_norm; lia.

Ltac head_scrut t :=
  lazymatch t with
  | match ?X with _ => _ end => head_scrut X
  | _ => t
  end.
Ltac last_arg X := lazymatch X with ?F ?s => s end.

(* errors: normalise E of every state expression, then arithmetic *)
Ltac e_norm :=
  change E with E in *;
  repeat match goal with
         | H : context [E (advance ?s)] |- _ => rewrite (E_advance s) in H
         | |- context [E (advance ?s)] => rewrite (E_advance s)
         | H : context [E (addErr ?s ?l ?m)] |- _ => rewrite (E_addErr s l m) in H
         | |- context [E (addErr ?s ?l ?m)] => rewrite (E_addErr s l m)
         | H : context [E (setUse ?s ?u)] |- _ => change (E (setUse s u)) with (E s) in H
         | |- context [E (setUse ?s ?u)] => change (E (setUse s u)) with (E s)
         | H : context [E (addComponent ?s ?u)] |- _ => change (E (addComponent s u)) with (E s) in H
         | |- context [E (addComponent ?s ?u)] => change (E (addComponent s u)) with (E s)
         | H : context [E (addReserve ?s ?u ?v)] |- _ => change (E (addReserve s u v)) with (E s) in H
         | |- context [E (addReserve ?s ?u ?v)] => change (E (addReserve s u v)) with (E s)
         | H : context [E (addInsert ?s ?u ?v)] |- _ => change (E (addInsert s u v)) with (E s) in H
         | |- context [E (addInsert ?s ?u ?v)] => change (E (addInsert s u v)) with (E s)
         end.
Ltac e_tac := e_norm; lia.

(* the current token of a state is neither EOF nor ILLEGAL *)
Ltac nt_tac :=
  first
    [ assumption
    | match goal with |- NT (setUse ?s _) => change (NT s) | |- NT (addComponent ?s _) => change (NT s)
                 | |- NT (addReserve ?s _ _) => change (NT s) | |- NT (addInsert ?s _ _) => change (NT s) end; nt_tac
    | match goal with
      | H : peekIs ?s ?t = true |- NT (advance ?s) => apply (NT_adv_of_peek s t H); first [reflexivity | assumption]
      | H : peekIs ?s ?t = true |- NT ?s => apply (NT_of_peek s t); [solve [good_tac] | exact H | first [reflexivity | assumption]]
      | H : _ && peek2Is ?s ?t = true |- NT (advance (advance ?s)) =>
        exact (NT_adv2_of_peek2 s t (proj2 (andb_prop _ _ H)) eq_refl)
      | H : NT ?a -> NT ?s |- NT ?s => apply H; nt_tac
      | H : ttype (curT ?s) = ?t |- NT ?s => exact (NT_of_type s t H eq_refl)
      | H : curIs ?s ?t = true |- NT ?s => exact (NT_of_curIs s t H eq_refl)
      | H : prefix_of (ttype (curT ?s)) = Some _ |- NT ?s => exact (prefix_nonterm _ _ H)
      | H : inb (ttype (curT ?s)) block_guard_tokens = false |- NT ?s => exact (guard_nonterm _ H)
      | H : infix_of (ttype (peekT ?s)) = Some _ |- NT (advance ?s) =>
        apply (NT_adv_of_peek s (ttype (peekT s))); [unfold peekIs, tok_eqb; apply Nat.eqb_refl | exact (infix_nonterm _ _ H)]
      | H : infix_of (ttype (peekT ?s)) = Some _ |- NT ?s =>
        apply (NT_of_peek s (ttype (peekT s))); [solve [good_tac] | unfold peekIs, tok_eqb; apply Nat.eqb_refl | exact (infix_nonterm _ _ H)]
      end ].

(* the ILLEGAL tokens still ahead: every advance on the path stood on a token that is not ILLEGAL *)
Ltac ic_norm :=
  repeat match goal with
         | |- context [ic (advance ?s)] => rewrite (ic_advance s) by nt_tac
         | |- context [ic (addErr ?s ?l ?m)] => change (ic (addErr s l m)) with (ic s)
         | |- context [ic (setUse ?s ?u)] => change (ic (setUse s u)) with (ic s)
         | |- context [ic (addComponent ?s ?u)] => change (ic (addComponent s u)) with (ic s)
         | |- context [ic (addReserve ?s ?u ?v)] => change (ic (addReserve s u v)) with (ic s)
         | |- context [ic (addInsert ?s ?u ?v)] => change (ic (addInsert s u v)) with (ic s)
         end.

(* use the conclusions of the calls made on the path: each one applies because no error was added *)
Ltac use_calls :=
  repeat match goal with
         | K : (E ?x = E ?y -> ?pre -> _) |- _ =>
           let H := fresh "He" in
           assert (H : E x = E y) by e_tac;
           let Hp := fresh "Hp" in
           assert (Hp : pre) by (first [exact I | nt_tac]);
           specialize (K H Hp); clear H Hp;
           let K1 := fresh "Ki" in let K2 := fresh "Kn" in destruct K as [K1 K2];
           try (specialize (K2 eq_refl))
         end.

Ltac use_bad :=
  repeat match goal with
         | Kb : (is_none None = true -> (_ < _)%nat) |- _ => specialize (Kb eq_refl)
         | Kb : (is_none (Some _) = true -> (_ < _)%nat) |- _ => clear Kb
         | Kb : (never _ = true -> _) |- _ => clear Kb
         end.

Ltac leaf :=
  use_bad;
  apply okres3_ret;
  [ solve [good_tac] | solve [mu_tac] | solve [e_tac]
  | idtac
  | first [ discriminate
          | solve [let Hb := fresh "Hb" in intro Hb; try (match goal with Kb : (_ = true -> _) |- _ => specialize (Kb Hb) end); e_tac] ] ];
  [ let HE := fresh "HE" in let HP := fresh "HP" in intros HE HP;
    first [ solve [exfalso; e_tac]
          | use_calls; split;
            [ repeat (ic_norm; match goal with H : ic ?a = ic ?b |- _ => rewrite H; clear H end); ic_norm; try reflexivity; try congruence
            | first [ discriminate | intros _; nt_tac ] ] ] ].


Ltac side := first [ solve [good_tac] | solve [mu_tac] | solve [nt_tac] | reflexivity | assumption
                   | solve [eapply (cur_nonterm SQ); [good_tac | first [ eapply prefix_nonterm; eassumption
                                                                     | eapply infix_nonterm; eassumption
                                                                     | eapply guard_nonterm; eassumption ]]] ].

Ltac ep X :=
  lazymatch X with
  | expectPeek ?s ?t =>
    let G := fresh "G" in
    assert (G : gd s) by good_tac;
    let T := fresh "T" in
    assert (T : is_termT t = false) by (first [reflexivity | assumption]);
    let Ex := fresh "Ex" in let M := fresh "M" in let P := fresh "P" in let s' := fresh "s" in let G' := fresh "G" in
    let Ee := fresh "Ee" in
    destruct (expectPeek_spec2 s t G T) as [(Ex & M & P)|(s' & Ex & G' & M & Ee)]; rewrite Ex; clear Ex T
  end.

Ltac ifstep X :=
  match X with
  | context [peekIs ?s ?t] =>
    let Ep := fresh "Ep" in
    destruct (peekIs s t) eqn:Ep;
    [ try (let G := fresh "G" in assert (G : gd s) by good_tac;
           let P := fresh "P" in first [ pose proof (peek_nonterm SQ s t G Ep eq_refl) as P
                                       | match goal with T : is_termT t = false |- _ => pose proof (peek_nonterm SQ s t G Ep T) as P end ]) | ]
  | _ => destruct X eqn:?
  end.

Ltac pairstep X :=
  lazymatch X with
  | freshId ?s =>
    let a := fresh "id" in let s' := fresh "s" in let Ex := fresh "Ex" in
    destruct (freshId s) as [a s'] eqn:Ex; apply freshId_spec2 in Ex;
    let Hg := fresh "Hg" in let Hm := fresh "Hm" in let He := fresh "He" in let Hi := fresh "Hi" in let Hn := fresh "Hn" in
    destruct Ex as (Hg & Hm & He & Hi & Hn);
    let G := fresh "G" in assert (G : gd s') by (apply Hg; good_tac); clear Hg;
    try (let N := fresh "N" in assert (N : NT s') by (apply Hn; nt_tac); clear Hn)
  | aliasPath ?s ?n =>
    let a := fresh "nm" in let s' := fresh "s" in let Ex := fresh "Ex" in
    destruct (aliasPath s n) as [a s'] eqn:Ex; apply aliasPath_spec2 in Ex;
    let Hg := fresh "Hg" in let Hm := fresh "Hm" in let He := fresh "He" in let Hi := fresh "Hi" in let Hn := fresh "Hn" in
    destruct Ex as (Hg & Hm & He & Hi & Hn);
    let G := fresh "G" in assert (G : gd s') by (apply Hg; good_tac); clear Hg;
    try (let N := fresh "N" in assert (N : NT s') by (apply Hn; nt_tac); clear Hn)
  end.

Ltac stepwith call :=
  cbv beta match zeta; cbn [negb andb orb];
  lazymatch goal with
  | |- okres3 _ _ _ ?s0 ?body =>
    let X := head_scrut body in
    lazymatch X with
    | POk _ _ => first [ match X with context [if ?b then _ else _] => ifstep b end | leaf ]
    | expectPeek _ _ => ep X
    | freshId _ => pairstep X
    | aliasPath _ _ => pairstep X
    | tokenString ?t =>
      let Ex := fresh "Ex" in destruct (tokenString t) eqn:Ex; [|exfalso; exact (tokenString_some _ Ex)]
    | _ => let T := type of X in
           lazymatch T with
           | pres _ => first [ match X with context [if ?b then _ else _] => ifstep b end | call X ]
           | bool => ifstep X
           | _ => destruct X eqn:?
           end
    end
  end.

Ltac callE X :=
  let s := last_arg X in
  let H := fresh "Hc" in
  eassert (H : okres3 _ _ _ s X); [ match goal with IH : _ |- _ => apply IH; side end | ];
  let a := fresh "a" in let s' := fresh "s" in let Ex := fresh "Ex" in let G := fresh "G" in let M := fresh "M" in
  let L := fresh "Le" in let K := fresh "K" in let Kb := fresh "Kb" in
  destruct H as (a & s' & Ex & G & M & L & K & Kb); rewrite Ex; clear Ex.

(* ---------- expressions *)
Definition Re n := forall prec st, gd st -> (6 * mu st + 4 <= n)%nat -> okres2 True true st (parseExpression n prec st).
Definition Rpre n := forall k st, gd st -> prefix_of (ttype (curT st)) = Some k -> (6 * mu st + 3 <= n)%nat ->
                                  okres2 True true st (parsePrefix n k st).
Definition Robj n := forall ln pairs st, gd st -> (6 * mu st + 5 <= n)%nat -> okres2 True true st (parseObjectLoop n ln pairs st).
Definition Rpratt n := forall prec left st, gd st -> (6 * mu st + 1 <= n)%nat -> okres2 (NT st) true st (prattLoop n prec left st).
Definition Rinf n := forall k left st, gd st -> (0 < mu st)%nat -> (6 * mu st + 2 <= n)%nat ->
                                       okres2 (NT st) true st (parseInfix n k left st).
Definition Rel n := forall e st, is_termT e = false -> gd st -> (0 < mu st)%nat -> (6 * mu st + 2 <= n)%nat ->
                                 okres2 (NT st) true st (parseExpressionList n e st).
Definition Rell n := forall e acc st, is_termT e = false -> gd st -> (6 * mu st + 1 <= n)%nat ->
                                      okres2 True true st (exprListLoop n e acc st).

Lemma expr_group_reject n : Re n /\ Rpre n /\ Robj n /\ Rpratt n /\ Rinf n /\ Rel n /\ Rell n.
Proof.
  induction n as [|f (IHe & IHpre & IHobj & IHpratt & IHinf & IHel & IHell)].
  { unfold Re, Rpre, Robj, Rpratt, Rinf, Rel, Rell. repeat split; intros; lia. }
  unfold Re, Rpre, Robj, Rpratt, Rinf, Rel, Rell in *.
  repeat split.
  - intros prec st G B. cbn [parseExpression]. repeat stepwith callE.
  - intros k st G Hk B. pose proof (cur_nonterm SQ st G (prefix_nonterm _ _ Hk)) as P. cbn [parsePrefix]. repeat stepwith callE.
  - intros ln pairs st G B. cbn [parseObjectLoop]. repeat stepwith callE.
  - intros prec left st G B. cbn [prattLoop].
    stepwith callE; [|stepwith callE]. stepwith callE; [|stepwith callE].
    assert (P : (2 <= mu st)%nat) by (apply (peekT_nonterm SQ); [exact G|eapply infix_nonterm; eassumption]).
    repeat stepwith callE.
  - intros k left st G P B. cbn [parseInfix]. repeat stepwith callE.
  - intros e st T G P B. cbn [parseExpressionList]. repeat stepwith callE.
  - intros e acc st T G B. cbn [exprListLoop]. repeat stepwith callE.
Qed.

Lemma parseExpression_reject n prec st :
  gd st -> (6 * mu st + 4 <= n)%nat -> okres2 True true st (parseExpression n prec st).
Proof. apply expr_group_reject. Qed.

Lemma parseExpressionList_reject n e st :
  is_termT e = false -> gd st -> (0 < mu st)%nat -> (6 * mu st + 2 <= n)%nat ->
  okres2 (NT st) true st (parseExpressionList n e st).
Proof. apply expr_group_reject. Qed.

(* ---------- statement helpers *)
Lemma parseExpressionStmt_reject n st :
  gd st -> (6 * mu st + 4 <= n)%nat -> okres2 True true st (parseExpressionStmt n st).
Proof.
  intros G B. unfold parseExpressionStmt. pose proof parseExpression_reject as IH. repeat stepwith callE.
Qed.

Lemma parseAssignStmt_reject n st :
  gd st -> (6 * mu st + 4 <= n)%nat -> okres2 True true st (parseAssignStmt n st).
Proof.
  intros G B. unfold parseAssignStmt. pose proof parseExpression_reject as IH. repeat stepwith callE.
Qed.

Lemma parseEmbeddedCode_reject n st :
  gd st -> (6 * mu st + 4 <= n)%nat -> okres2 (NT st) true st (parseEmbeddedCode n st).
Proof.
  intros G B. unfold parseEmbeddedCode.
  pose proof parseExpressionStmt_reject as IH1. pose proof parseAssignStmt_reject as IH2.
  repeat stepwith callE.
Qed.

Lemma parseBracesStmt_reject n st :
  gd st -> (6 * mu st + 4 <= n)%nat -> okres2 (NT st) true st (parseBracesStmt n st).
Proof.
  intros G B. unfold parseBracesStmt. pose proof parseEmbeddedCode_reject as IH. repeat stepwith callE.
Qed.

Lemma parseCondDirective_reject n mk st :
  gd st -> (6 * mu st + 4 <= n)%nat -> okres2 True true st (parseCondDirective n mk st).
Proof.
  intros G B. unfold parseCondDirective. pose proof parseExpression_reject as IH. repeat stepwith callE.
Qed.

Lemma parseUseStmt_reject st : gd st -> okres2 True true st (parseUseStmt st).
Proof. intros G. unfold parseUseStmt. repeat stepwith callE. Qed.

Lemma parseReserveStmt_reject st : gd st -> okres2 True true st (parseReserveStmt st).
Proof. intros G. unfold parseReserveStmt. repeat stepwith callE. Qed.

Lemma parseSlotStmt_reject st : gd st -> okres2 (NT st) true st (parseSlotStmt st).
Proof. intros G. unfold parseSlotStmt. repeat stepwith callE. Qed.

Lemma parseDumpStmt_reject n st :
  gd st -> (6 * mu st + 4 <= n)%nat -> okres2 True true st (parseDumpStmt n st).
Proof.
  intros G B. unfold parseDumpStmt. pose proof parseExpressionList_reject as IH. repeat stepwith callE.
Qed.

(* once the current token is EOF / ILLEGAL, so is every later one; and an expression can not start there *)
Lemma dead_advance st : gd st -> is_termT (ttype (curT st)) = true -> is_termT (ttype (curT (advance st))) = true.
Proof.
  intros (A & _ & _ & S1 & S2) D. unfold curT, advance in *. destruct (toks st) as [|a [|b r]] eqn:Et; cbn [setToks toks hd] in *; rewrite ?Et; cbn [hd]; try exact D.
  cbn [sok] in S1. cbn [eol] in S2. apply andb_true_iff in S1 as [S1 _]. apply andb_true_iff in S2 as [S2 _].
  apply negb_true_iff in S2. unfold is_termT in D. rewrite S2 in D. cbn [orb] in D.
  unfold illT in S1. rewrite D in S1. cbn [negb orb] in S1. exact S1.
Qed.

Lemma term_no_prefix t : is_termT t = true -> prefix_of t = None.
Proof. destruct t; (reflexivity || discriminate). Qed.

Lemma parseExpression_dead f prec st :
  (1 <= f)%nat -> is_termT (ttype (curT st)) = true ->
  exists m, parseExpression f prec st = POk ENull (addErr st (eline (curT st)) m).
Proof.
  intros F D. destruct f as [|f]; [lia|]. cbn [parseExpression]. rewrite (term_no_prefix _ D).
  destruct (tokenString (ttype (curT st))) as [x|] eqn:Ex; [|exfalso; exact (tokenString_some _ Ex)].
  eexists. reflexivity.
Qed.

(* ---------- statements *)
Definition Rs n := forall st, gd st -> (6 * mu st + 5 <= n)%nat -> okres2 (NT st) true st (parseStatement n st).
Definition Rbl n := forall acc st, gd st -> (6 * mu st + 6 <= n)%nat -> okres2 True false st (blockLoop n acc st).
Definition Rbs n := forall st, gd st -> (6 * mu st + 7 <= n)%nat -> okres2 True false st (parseBlockStmt n st).
Definition Rbody n := forall st, gd st -> (6 * mu st + 8 <= n)%nat -> okres2 (NT st) false st (parseBody n st).
Definition Rei n := forall acc st, gd st -> (6 * mu st + 9 <= n)%nat -> okres3 True false is_none st (elseIfLoop n acc st).
Definition Rsl n := forall acc st, gd st -> (6 * mu st + 9 <= n)%nat -> okres3 (NT st) true is_none st (parseSlots n acc st).

Lemma stmt_group_reject n : Rs n /\ Rbl n /\ Rbs n /\ Rbody n /\ Rei n /\ Rsl n.
Proof.
  induction n as [|f (IHs & IHbl & IHbs & IHbody & IHei & IHsl)].
  { unfold Rs, Rbl, Rbs, Rbody, Rei, Rsl. repeat split; intros; lia. }
  unfold Rs, Rbl, Rbs, Rbody, Rei, Rsl in *.
  pose proof parseExpression_reject as L1. pose proof parseEmbeddedCode_reject as L2. pose proof parseBracesStmt_reject as L2b.
  pose proof parseCondDirective_reject as L3. pose proof parseDumpStmt_reject as L4.
  pose proof parseUseStmt_reject as L5. pose proof parseReserveStmt_reject as L6.
  pose proof parseSlotStmt_reject as L7.
  repeat split.
  - intros st G B. cbn [parseStatement]. repeat stepwith callE.
  - intros acc st G B. cbn [blockLoop]. stepwith callE; [stepwith callE|].
    assert (P : (0 < mu st)%nat) by (eapply (cur_nonterm SQ); [exact G|eapply guard_nonterm; eassumption]).
    repeat stepwith callE.
  - intros st G B. cbn [parseBlockStmt]. repeat stepwith callE.
  - intros st G B. cbn [parseBody]. repeat stepwith callE.
  - intros acc st G B. cbn [elseIfLoop].
    stepwith callE; [|stepwith callE].
    (* "@elseif" is followed by a token that is skipped unseen (the "("): if it is EOF / ILLEGAL, the
       condition can not start and an error is recorded *)
    destruct (is_termT (ttype (curT (advance (advance st))))) eqn:D.
    + destruct (parseExpression_dead f P_LOWEST (advance (advance (advance st))) ltac:(lia) (dead_advance (advance (advance st)) ltac:(good_tac) D)) as (m & Em).
      cbv beta match zeta. rewrite Em. repeat stepwith callE.
    + repeat stepwith callE.
  - intros acc st G B. cbn [parseSlots]. repeat stepwith callE.
Qed.

Lemma parseStatement_reject n st :
  gd st -> (6 * mu st + 5 <= n)%nat -> okres2 (NT st) true st (parseStatement n st).
Proof. apply stmt_group_reject. Qed.

(* ---------- the program loop *)
Definition progres2 (st : pstate) (r : pres (option (list stmt))) : Prop :=
  exists o st', r = POk o st' /\ gd st' /\ (E st <= E st')%nat /\
    (o = None -> (E st < E st')%nat) /\
    (o <> None -> curIs st' T_EOF = true /\ (E st' = E st -> ic st' = ic st)).

Lemma programLoop_stmt_on_illegal f acc st :
  ttype (curT st) = T_ILLEGAL -> gd st -> progres2 st (programLoop (S (S f)) acc st).
Proof.
  intros T G. cbn [programLoop]. unfold curIs at 1. rewrite T. change (tok_eqb T_ILLEGAL T_EOF) with false. cbv match.
  cbn [parseStatement]. rewrite T. unfold curIs. rewrite T. change (tok_eqb T_ILLEGAL T_ILLEGAL) with true. cbv match beta.
  eexists _, _. split; [reflexivity|]. split; [apply gd_addErr, G|]. split; [rewrite E_addErr; lia|].
  split; [intros _; rewrite E_addErr; lia|intro X; exfalso; apply X; reflexivity].
Qed.

Lemma programLoop_reject n : forall acc st, gd st -> (6 * mu st + 6 <= n)%nat -> progres2 st (programLoop n acc st).
Proof.
  induction n as [|f IH]; intros acc st G B; [lia|].
  destruct (tok_eqb (ttype (curT st)) T_ILLEGAL) eqn:I.
  { apply tok_eqb_eq in I. destruct f as [|f]; [lia|]. apply programLoop_stmt_on_illegal; assumption. }
  cbn [programLoop]. destruct (curIs st T_EOF) eqn:Ec.
  - exists (Some (rev acc)), st. split; [reflexivity|]. split; [exact G|]. split; [lia|].
    split; [discriminate|]. intros _. split; [exact Ec|reflexivity].
  - assert (N : NT st).
    { unfold NT, is_termT. unfold curIs in Ec. rewrite Ec, I. reflexivity. }
    pose proof (cur_nonterm SQ st G N) as P.
    destruct (parseStatement_reject f st G ltac:(lia)) as (s & st1 & Ex & G1 & M1 & L1 & K1 & _). rewrite Ex.
    destruct (curIs st1 T_ILLEGAL) eqn:Ei.
    + eexists _, _. split; [reflexivity|]. split; [apply gd_addErr, G1|]. split; [rewrite E_addErr; lia|].
      split; [intros _; rewrite E_addErr; lia|intro X; exfalso; apply X; reflexivity].
    + destruct (IH (if stmt_is_null s then acc else s :: acc) (advance st1) (gd_advance _ G1)) as (o & st' & Ey & G' & L' & Kn & Ks).
      { rewrite mu_advance. lia. }
      rewrite Ey. exists o, st'. split; [reflexivity|]. split; [exact G'|]. rewrite E_advance in *. split; [lia|].
      split; [intro X; specialize (Kn X); lia|].
      intro X. destruct (Ks X) as [C Ki]. split; [exact C|]. intro HE.
      assert (H1 : E st1 = E st) by lia. destruct (K1 H1 N) as [Ki1 Kn1]. specialize (Kn1 eq_refl).
      rewrite Ki by lia. rewrite (ic_advance st1 Kn1). exact Ki1.
Qed.

Lemma eof_cur_is_last st : gd st -> curIs st T_EOF = true -> ic st = 0%nat.
Proof.
  intros (A & _ & _ & _ & S2) C. unfold curIs, curT in C. unfold ic.
  destruct (toks st) as [|a [|b r]]; cbn [hd] in C.
  - discriminate A.
  - cbn [filter]. unfold illT. apply tok_eqb_eq in C. rewrite C. reflexivity.
  - cbn [eol] in S2. apply andb_true_iff in S2 as [S2 _]. apply negb_true_iff in S2. congruence.
Qed.

(* a token list in which an ILLEGAL token occurs (followed, as the lexer guarantees, by ILLEGAL / EOF
   only, EOF being last) is rejected with at least one error *)
Theorem parse_tokens_rejects_illegal ts :
  tinv ts = true -> sok ts = true -> eol ts = true -> existsb illT ts = true ->
  exists es, parse_tokens ts = ParseErrors es /\ es <> [].
Proof.
  intros T S1 S2 X. unfold parse_tokens, parse_tokens_fuel.
  assert (G0 : gd (initP ts)).
  { split; [exact T|]. split; [reflexivity|]. split; [constructor|split; assumption]. }
  destruct (programLoop_reject (parse_fuel ts) [] (initP ts) G0) as (o & st' & Ex & (A & P & C & D) & L & Kn & Ks).
  { unfold parse_fuel, mu. cbn [toks initP]. lia. }
  rewrite Ex, P.
  assert (Epos : (0 < E st')%nat).
  { destruct o as [ss|]; [|specialize (Kn eq_refl); lia].
    destruct (Ks ltac:(discriminate)) as [Ce Ki].
    destruct (Nat.eq_dec (E st') 0) as [Z|NZ]; [|lia]. exfalso.
    assert (E (initP ts) = 0%nat) by reflexivity.
    rewrite (eof_cur_is_last st' (conj A (conj P (conj C D))) Ce) in Ki. specialize (Ki ltac:(lia)).
    unfold ic in Ki. cbn [toks initP] in Ki.
    clear - X Ki. induction ts as [|a r IHr]; [discriminate X|]. cbn [existsb filter] in *.
    destruct (illT a); [discriminate Ki|]. cbn [orb] in X. exact (IHr X Ki). }
  unfold E in Epos. destruct (errs st') as [|e es] eqn:Ee; [cbn in Epos; lia|].
  exists (rev (e :: es)). split; [reflexivity|].
  intro R. apply (f_equal (@List.length _)) in R. rewrite rev_length in R. discriminate R.
Qed.
