(* C05: text passes through byte for byte.  For text with no NUL byte, no "{{" and no '@' that
   starts a directive keyword (Spec/Text.v [plain]) the lexer model yields ONE text token whose
   literal is the input, the parser one HTML statement, and the render the input itself. *)
From Coq Require Import String Lia.
From TW Require Import Bytes GenToken Lexer Ast Parser Values Builtins Eval Render Text.
Open Scope N_scope.

(* ---- the reference scanner is the identity on plain text *)
Lemma scan_plain s : forall fuel, (List.length s < fuel)%nat -> plain s = true -> scan fuel s = TOut s.
Proof.
  induction s as [|c s IH]; intros fuel Hf Hp; (destruct fuel as [|f]; [cbn in Hf; lia|]).
  - reflexivity.
  - cbn [plain] in Hp. apply andb_true_iff in Hp as [Hp Hrest]. apply andb_true_iff in Hp as [Hp Hd].
    apply andb_true_iff in Hp as [H0 Hb]. apply negb_true_iff in H0, Hb, Hd.
    cbn [scan]. rewrite H0.
    assert (Hnb : prefixb [123; 123] (c :: s) = false) by exact Hb.
    destruct ((c =? 92) && prefixb [123; 123] s) eqn:E1.
    { (* a backslash before "{{": then "{{" occurs in the rest, which is not plain *)
      apply andb_true_iff in E1 as [_ E1]. exfalso.
      destruct s as [|c2 s2]; [discriminate|]. cbn [plain] in Hrest.
      rewrite E1 in Hrest. cbn in Hrest. rewrite andb_false_r in Hrest. discriminate. }
    destruct ((c =? 92) && starts_directive s) eqn:E2.
    { apply andb_true_iff in E2 as [_ E2]. exfalso.
      destruct s as [|c2 s2]; [cbn in E2; unfold starts_directive in E2;
        (* no directive word is empty *) revert E2; vm_compute; discriminate|].
      cbn [plain] in Hrest. rewrite E2 in Hrest. cbn in Hrest. rewrite !andb_false_r in Hrest. discriminate. }
    assert (Hc : prefixb [123; 123; 45; 45] (c :: s) = false).
    { destruct (prefixb [123; 123; 45; 45] (c :: s)) eqn:E; [|reflexivity].
      apply prefixb_spec in E as [t Ht]. rewrite Ht in Hnb. cbn in Hnb. discriminate Hnb. }
    rewrite Hc, Hnb, Hd.
    rewrite IH; [reflexivity|cbn in Hf; lia|exact Hrest].
Qed.

Theorem reference_scanner_is_identity_on_plain_text s : plain s = true -> text_spec s = TOut s.
Proof. intro H. apply scan_plain; [lia|exact H]. Qed.

(* ---- the lexer model on plain text *)
Lemma alookup_in {A} k (m : list (bytes * A)) v : alookup k m = Some v -> In k (map fst m).
Proof.
  induction m as [|[k' v'] m IH]; cbn [alookup map fst]; [discriminate|].
  destruct (bytes_eqb k k') eqn:E; [apply bytes_eqb_eq in E; subst; intros _; left; reflexivity|].
  intro H. right. apply IH, H.
Qed.

Lemma directive_words_are_keys : directive_words = map fst directives_b.
Proof. unfold directive_words, directives_b. rewrite map_map. reflexivity. Qed.

Lemma firstn_prefix {A} i (r : list A) : exists t, r = firstn i r ++ t.
Proof. exists (skipn i r). symmetry. apply firstn_skipn. Qed.

Lemma no_directive_here r i :
  starts_directive r = false -> lookupDirective (firstn i r) = T_ILLEGAL.
Proof.
  intro H. unfold lookupDirective. destruct (alookup (firstn i r) directives_b) eqn:E; [|reflexivity].
  exfalso. apply alookup_in in E. rewrite <- directive_words_are_keys in E.
  unfold starts_directive in H. apply Bool.not_true_iff_false in H. apply H.
  apply existsb_exists. exists (firstn i r). split; [exact E|].
  apply prefixb_spec. apply firstn_prefix.
Qed.

Lemma isDirTok_loop_none n : forall i l,
  starts_directive (rest l) = false -> isDirTok_loop n i l = (false, false).
Proof.
  induction n as [|n IH]; intros i l H; cbn [isDirTok_loop]; [reflexivity|].
  destruct (Nat.ltb (List.length (rest l)) i); [reflexivity|].
  rewrite (no_directive_here _ i H). change (tok_eqb T_ILLEGAL T_ILLEGAL) with true. cbv iota.
  apply IH, H.
Qed.

Lemma isDirectiveToken_none l : starts_directive (rest l) = false -> isDirectiveToken l = (false, false).
Proof.
  intro H. unfold isDirectiveToken. destruct (negb (cur l =? 64)); [reflexivity|].
  apply isDirTok_loop_none, H.
Qed.

Lemma two_braces_prefix r : prefixb [123; 123] r = (hd 0 r =? 123) && (hd 0 (tl r) =? 123).
Proof.
  destruct r as [|a [|b r]]; cbn [prefixb hd tl].
  - reflexivity.
  - rewrite (N.eqb_sym 123 a). rewrite andb_false_r. change (0 =? 123) with false. rewrite andb_false_r. reflexivity.
  - rewrite (N.eqb_sym 123 a), (N.eqb_sym 123 b), andb_true_r. reflexivity.
Qed.

Lemma areBraces_none l : prefixb [123; 123] (rest l) = false -> areBracesToken l = (false, false).
Proof.
  intro H. rewrite two_braces_prefix in H. unfold areBracesToken, cur, peekChar. rewrite H.
  cbn [andb]. rewrite andb_false_r. reflexivity.
Qed.

(* the loop of readHTML copies plain text and stops only at the end of the input *)
Lemma readHTML_loop_plain r : forall l out,
  rest l = r -> isHTML l = true -> plain r = true ->
  exists l', readHTML_loop r l out = (l', rev r ++ out) /\ rest l' = [] /\ isHTML l' = true /\
             lpos l' = (lpos l + List.length r)%nat.
Proof.
  induction r as [|c r IH]; intros l out Hr Hh Hp.
  - exists l. cbn. repeat split; [exact Hr|exact Hh|lia].
  - cbn [plain] in Hp. apply andb_true_iff in Hp as [Hp Hrest]. apply andb_true_iff in Hp as [Hp Hd].
    apply andb_true_iff in Hp as [H0 Hb]. apply negb_true_iff in H0, Hb, Hd.
    cbn [readHTML_loop]. rewrite Hh. cbn [negb orb].
    assert (Hc : cur l = c) by (unfold cur; rewrite Hr; reflexivity).
    rewrite Hc, H0.
    rewrite (isDirectiveToken_none l) by (rewrite Hr; exact Hd).
    rewrite (areBraces_none l) by (rewrite Hr; exact Hb).
    cbv beta iota. cbn [orb].
    destruct (IH (readChar l) (c :: out)) as (l' & He & Hr' & Hh' & Hpos).
    + cbn [readChar rest]. rewrite Hr. reflexivity.
    + exact Hh.
    + exact Hrest.
    + exists l'. rewrite He. cbn [rev]. rewrite <- app_assoc. cbn [app].
      repeat split; [exact Hr'|exact Hh'|]. rewrite Hpos. cbn [readChar lpos List.length]. lia.
Qed.

Lemma readHTML_plain l s :
  rest l = s -> isHTML l = true -> plain s = true ->
  exists l', readHTML l = (s, l') /\ rest l' = [] /\ isHTML l' = true.
Proof.
  intros Hr Hh Hp. unfold readHTML.
  destruct (readHTML_loop_plain s (tokenBegins l) [] Hr Hh Hp) as (l' & He & Hr' & Hh' & _).
  cbv zeta. change (rest (tokenBegins l)) with (rest l). rewrite Hr, He.
  exists l'. rewrite app_nil_r, rev_involutive. repeat split; assumption.
Qed.

(* NextToken on plain, non-empty text: one HTML token holding the whole input, then end of input *)
Theorem plain_text_is_one_token s :
  s <> [] -> plain s = true ->
  exists t l', nextTok (newLexer s) = Some (t, l') /\ ttype t = T_HTML /\ tlit t = s /\ rest l' = [] /\ isHTML l' = true.
Proof.
  intros Hne Hp. destruct s as [|c s']; [congruence|]. set (s := c :: s') in *.
  pose proof Hp as Hp0. cbn [plain] in Hp0. fold s in Hp0.
  apply andb_true_iff in Hp0 as [Hp0 _]. apply andb_true_iff in Hp0 as [Hp0 Hd].
  apply andb_true_iff in Hp0 as [H0 Hb]. apply negb_true_iff in H0, Hb, Hd.
  set (l := newLexer s).
  assert (Hrest : rest l = s) by reflexivity.
  assert (Hh : isHTML l = true) by reflexivity.
  destruct (readHTML_plain l s Hrest Hh Hp) as (l' & He & Hr' & Hh').
  unfold nextTok. rewrite Hrest. cbn [List.length nextToken]. rewrite Hh.
  assert (Hcur : cur l = c) by reflexivity. rewrite Hcur, H0.
  assert (Hbr : (c =? 123) && (peekChar l =? 123) = false).
  { rewrite two_braces_prefix in Hb. exact Hb. }
  rewrite Hbr. cbn [negb andb].
  rewrite (isDirectiveToken_none l) by (rewrite Hrest; exact Hd). cbn [fst].
  rewrite He. eexists. exists l'. split; [reflexivity|].
  unfold newToken. change (tok_eqb T_HTML T_EOF) with false. cbn [ttype tlit].
  repeat split; assumption.
Qed.

(* at the end of the input NextToken is EOF *)
Lemma eof_at_end l : rest l = [] -> isHTML l = true ->
  exists t, nextTok l = Some (t, tokenBegins l) /\ ttype t = T_EOF.
Proof.
  intros Hr Hh. unfold nextTok. rewrite Hr. cbn [List.length nextToken]. rewrite Hh.
  unfold cur. rewrite Hr. cbn [hd]. change (0 =? 0) with true. cbv iota.
  eexists. split; [reflexivity|]. unfold newToken. change (tok_eqb T_EOF T_EOF) with true. reflexivity.
Qed.

Theorem plain_text_lexes_to_one_html_token s :
  s <> [] -> plain s = true ->
  exists t e, lex_all s = Some [t; e] /\ ttype t = T_HTML /\ tlit t = s /\ ttype e = T_EOF.
Proof.
  intros Hne Hp.
  destruct (plain_text_is_one_token s Hne Hp) as (t & l' & Hn & Ht & Hl & Hr & Hh).
  destruct (eof_at_end l' Hr Hh) as (e & He & Hte).
  exists t, e. unfold lex_all.
  replace (List.length s + 3)%nat with (S (S (S (List.length s)))) by lia.
  cbn [lex_loop]. rewrite Hn. rewrite Ht.
  change (tok_eqb T_HTML T_EOF) with false. change (tok_eqb T_HTML T_ILLEGAL) with false. cbn [andb].
  rewrite He, Hte. change (tok_eqb T_EOF T_EOF) with true. cbv iota.
  repeat split; assumption.
Qed.

(* ---- parser and evaluator on that token list *)
Lemma parse_one_html t e :
  ttype t = T_HTML -> ttype e = T_EOF ->
  parse_tokens [t; e] = ParsedOk (mkProgram [SHtml (eline t) (tlit t)] None [] [] []).
Proof.
  intros Ht He. destruct t as [ty lit a b c d], e as [ty2 lit2 a2 b2 c2 d2].
  cbn [ttype] in Ht, He. subst ty ty2. vm_compute. reflexivity.
Qed.

(* the whole pipeline: plain text renders as itself, whatever the (valid) data *)
Theorem plain_text_renders_as_itself cx s data en :
  plain s = true -> env_from_map data = EnvOk en ->
  evaluate_string cx s data = RenderOk s.
Proof.
  intros Hp He. destruct s as [|c s'].
  - (* the empty template *)
    unfold evaluate_string.
    assert (Hparse : parse_source [] = ParsedOk (mkProgram [] None [] [] [])) by (vm_compute; reflexivity).
    rewrite Hparse. unfold render_program. rewrite He. reflexivity.
  - set (s := c :: s') in *.
    destruct (plain_text_lexes_to_one_html_token s ltac:(discriminate) Hp) as (t & e & Hl & Ht & Hlit & Hte).
    unfold evaluate_string, parse_source. rewrite Hl. rewrite (parse_one_html t e Ht Hte).
    unfold render_program. rewrite He. cbn [p_stmts]. rewrite Hlit.
    unfold eval_fuel. change 5000%nat with (S (S 4998)). cbn [eval_program eval_stmt str_of value_string fst snd app].
    change 4998%nat with (S 4997). cbn [eval_program]. reflexivity.
Qed.

(* with the specification: what the reference scanner says is what the model renders *)
Corollary model_agrees_with_reference_scanner_on_plain_text cx s data en :
  plain s = true -> env_from_map data = EnvOk en ->
  text_spec s = TOut s /\ evaluate_string cx s data = RenderOk s.
Proof. intros Hp He. split; [apply reference_scanner_is_identity_on_plain_text, Hp|eapply plain_text_renders_as_itself; eassumption]. Qed.

(* non-vacuity: text with backslashes, single braces, '@' signs, dashes, quotes and UTF-8 is plain *)
Example plain_example :
  plain (bs "a \ { } @ me@x.org -- <p class='q'> 100% }} {") = true /\
  plain (bs "x {{ 1 }}") = false /\ plain (bs "@if") = false.
Proof. vm_compute. repeat split. Qed.
