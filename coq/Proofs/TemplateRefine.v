(* C02 / C03 / C04: the statement evaluator of the model (mirror of evaluator.go: marker objects,
   recursive marker scan, shared child scope of @if, loop scope, @for post value re-bound to the init
   variable) REFINES the clean big-step semantics of Spec/Template.v (signals, block scopes) on the
   AST of every specification template: same output, same signal, same scope chain; an error where
   the specification says error.  TNoFuel (the specification's own budget ran out: the template
   loops) and TUnprintable (a float outside the printable class, an unspecified built-in result) are
   the two outcomes about which nothing is claimed. *)
From Coq Require Import String Lia.
From TW Require Import Bytes Floats Values Ast Builtins Eval Expr Template ExprSem Control CleanValues.
Open Scope N_scope.

(* ---------- the AST of a specification template *)
Definition cpost (p : fpost) : stmt :=
  match p with
  | PostInc x => SExpr (compile (XInc (XVar x)))
  | PostDec x => SExpr (compile (XDec (XVar x)))
  | PostAssign x e => SAssign 1 x (compile e)
  end.

Fixpoint cnode (n : tnode) : stmt :=
  match n with
  | NText s => SHtml 1 s
  | NPrint e => SExpr (compile e)
  | NAssign x e => SAssign 1 x (compile e)
  | NIf c thn elifs els =>
    SIf 1 (compile c) (map cnode thn) (map (fun cb : sexpr * list tnode => (compile (fst cb), map cnode (snd cb))) elifs)
        (match els with Some b => Some (map cnode b) | None => None end)
  | NEach v arr body els =>
    SEach 1 v (compile arr) (map cnode body) (match els with Some b => Some (map cnode b) | None => None end)
  | NFor init cond post body els =>
    SFor 1 (match init with Some (x, e) => SAssign 1 x (compile e) | None => SNull end)
         (match cond with Some c => compile c | None => ENull end)
         (match post with Some p => cpost p | None => SNull end)
         (map cnode body) (match els with Some b => Some (map cnode b) | None => None end)
  | NBreak => SBreak
  | NContinue => SContinue
  | NBreakIf e => SBreakIf 1 (compile e)
  | NContinueIf e => SContinueIf 1 (compile e)
  | NReserve n rid blk arg =>
    SReserve 1 rid n
      (match blk, arg with
       | Some b, Some e => Some (1%nat, compile e, Some (map cnode b))
       | Some b, None => Some (1%nat, ENull, Some (map cnode b))
       | None, Some e => Some (1%nat, compile e, None)
       | None, None => None
       end)
  | NComponent n cid args body =>
    SComponent 1 cid n
      (match args with
       | Some ps => Some (EObj 1 (map (fun p : bytes * sexpr => (fst p, compile (snd p))) ps))
       | None => None
       end) [] (Some (map cnode body))
  | NSlot n body => SSlot 1 n (match body with Some b => Some (map cnode b) | None => None end)
  end.

(* what the printer can spell and the model treats like the specification: literals in range;
   a ++/-- post clause steps the variable the init clause introduced (evaluator.go re-binds the
   INIT variable to the value of the post expression) *)
Fixpoint node_ok (n : tnode) : Prop :=
  let all := fix go (l : list tnode) : Prop := match l with [] => True | x :: l' => node_ok x /\ go l' end in
  let oall (o : option (list tnode)) := match o with Some b => all b | None => True end in
  match n with
  | NText _ | NBreak | NContinue => True
  | NPrint e | NBreakIf e | NContinueIf e => lits_ok e
  | NAssign _ e => lits_ok e
  | NIf c thn elifs els =>
    lits_ok c /\ all thn /\
    (fix go (l : list (sexpr * list tnode)) : Prop :=
       match l with [] => True | cb :: l' => lits_ok (fst cb) /\ all (snd cb) /\ go l' end) elifs /\ oall els
  | NEach _ arr body els => lits_ok arr /\ all body /\ oall els
  | NFor init cond post body els =>
    (match init with Some (_, e) => lits_ok e | None => True end) /\
    (match cond with Some c => lits_ok c | None => True end) /\
    (match post with
     | Some (PostInc x) | Some (PostDec x) => match init with Some (y, _) => x = y | None => False end
     | Some (PostAssign _ e) => lits_ok e
     | None => True
     end) /\ all body /\ oall els
  | NReserve _ _ blk arg => oall blk /\ match arg with Some e => lits_ok e | None => True end
  | NComponent _ _ args body => match args with Some ps => all_ok_pairs ps | None => True end /\ all body
  | NSlot _ body => oall body
  end.

Definition nodes_ok (l : list tnode) : Prop :=
  (fix go (l : list tnode) : Prop := match l with [] => True | x :: l' => node_ok x /\ go l' end) l.

(* ---------- the scope operations are the same functions *)
Lemma lookup_var_is_env_get (sc : scopes) x : lookup_var sc x = env_get sc x.
Proof. unfold lookup_var, flat. symmetry. apply env_get_flat. Qed.

Lemma assign_is_env_set sc x v :
  match assign sc x v with
  | Some sc' => env_set sc x v = inl sc'
  | None => exists msg, env_set sc x v = inr msg
  end.
Proof.
  unfold assign, env_set, loop_name, str_loop.
  destruct (bytes_eqb x (bs "loop")); [eexists; reflexivity|].
  rewrite lookup_var_is_env_get. destruct (env_get sc x) as [old|]; [|reflexivity].
  unfold same_kind, same_type. destruct (bytes_eqb (type_name old) (type_name v)); cbn [negb]; [reflexivity|eexists; reflexivity].
Qed.

Lemma set_meta_is_env_set_loop sc i len : set_meta sc i len = env_set_loop sc i len.
Proof. reflexivity. Qed.

(* ---------- relations between the model's outcomes and the specification's results *)
Definition sig_b (s : signal) : bool := match s with SigBreak => true | _ => false end.
Definition sig_c (s : signal) : bool := match s with SigContinue => true | _ => false end.

Definition Rs (o : outcome (value * env)) (r : tres) : Prop :=
  match r with
  | TOk out sig sc' =>
    exists v, o = Ok (v, sc') /\ value_string v = Some out /\ has_break v = sig_b sig /\ has_continue v = sig_c sig /\
              env_clean sc' = true
  | TFail => exists ln msg, o = Fail ln msg
  | TNoFuel | TUnprintable => True
  end.

(* a block under evaluation: acc holds the values so far, newest first *)
Definition Rb (o : outcome (value * env)) (acc : list value) (r : tres) : Prop :=
  match r with
  | TOk out sig sc' =>
    exists vs ss, o = Ok (VBlock (rev acc ++ vs), sc') /\ all_some (map value_string vs) = Some ss /\
                  concat ss = out /\ existsb has_break vs = sig_b sig /\ existsb has_continue vs = sig_c sig /\
                  env_clean sc' = true
  | TFail => exists ln msg, o = Fail ln msg
  | TNoFuel | TUnprintable => True
  end.

(* a loop under evaluation: out0 is the output so far *)
Definition Rl (o : outcome (bytes * env)) (out0 : bytes) (r : tres) : Prop :=
  match r with
  | TOk out _ sc' => o = Ok (out0 ++ out, sc') /\ env_clean sc' = true
  | TFail => exists ln msg, o = Fail ln msg
  | TNoFuel | TUnprintable => True
  end.

Lemma block_value vs ss :
  all_some (map value_string vs) = Some ss ->
  value_string (VBlock vs) = Some (concat ss) /\
  has_break (VBlock vs) = existsb has_break vs /\ has_continue (VBlock vs) = existsb has_continue vs.
Proof. intro H. cbn [value_string has_break has_continue]. rewrite H. repeat split. Qed.

(* expressions inside templates: the specification evaluates them over the flattened scopes *)
Lemma ev_meets (sc : scopes) e :
  lits_ok e -> exists n, forall fm, (n <= fm)%nat ->
    meets (eval_expr cx0 fm sc (compile e)) (ev model_call_spec sc e).
Proof. intro H. unfold ev, flat. apply (all_good sc e H (S (size e))). lia. Qed.

Lemma compile_not_null e : compile e <> ENull.
Proof. destruct e; discriminate. Qed.

Notation T := model_call_spec.

(* ---------- the statements proved together, by induction on the specification's fuel *)
Definition PN (f : nat) : Prop :=
  forall sc n, env_clean sc = true -> node_ok n ->
  exists K, forall fm, (K <= fm)%nat -> Rs (eval_stmt cx0 fm sc (cnode n)) (run_node T f sc n).

Definition PNS (f : nat) : Prop :=
  forall sc ns, env_clean sc = true -> nodes_ok ns ->
  exists K, forall fm, (K <= fm)%nat -> forall acc,
    Rb (eval_block cx0 fm sc (map cnode ns) acc) acc (run_nodes T f sc ns).

Definition PB (f : nat) : Prop :=
  forall sc ns, env_clean sc = true -> nodes_ok ns ->
  exists K, forall fm, (K <= fm)%nat ->
    Rs (let! r := eval_block cx0 fm ([] :: sc) (map cnode ns) [] in Ok (fst r, tl (snd r))) (run_block T f sc ns).

Definition PE (f : nat) : Prop :=
  forall v body len i elems sc, env_clean sc = true -> forallb clean elems = true -> nodes_ok body ->
  exists K, forall fm, (K <= fm)%nat -> forall ln out,
    Rl (each_loop cx0 fm ln v (map cnode body) len i elems sc out) out (each_passes T f v body len i elems sc).

Definition for_init (init : option (bytes * sexpr)) : stmt :=
  match init with Some (x, e) => SAssign 1 x (compile e) | None => SNull end.
Definition for_cond (cond : option sexpr) : expr := match cond with Some c => compile c | None => ENull end.
Definition for_post (post : option fpost) : stmt := match post with Some p => cpost p | None => SNull end.

Definition for_ok (init : option (bytes * sexpr)) (cond : option sexpr) (post : option fpost) : Prop :=
  (match cond with Some c => lits_ok c | None => True end) /\
  (match post with
   | Some (PostInc x) | Some (PostDec x) => match init with Some (y, _) => x = y | None => False end
   | Some (PostAssign _ e) => lits_ok e
   | None => True
   end).

Definition PF (f : nat) : Prop :=
  forall init cond post body sc, env_clean sc = true -> for_ok init cond post -> nodes_ok body ->
  exists K, forall fm, (K <= fm)%nat -> forall ln out,
    Rl (for_loop cx0 fm ln (for_init init) (for_cond cond) (for_post post) (map cnode body) sc out) out
       (for_passes T f cond post body sc).

(* the program loop (evalProgram: a component file, a layout, a whole template) *)
Definition PP (f : nat) : Prop :=
  forall sc ns, env_clean sc = true -> nodes_ok ns ->
  exists K, forall fm, (K <= fm)%nat -> forall out0,
    match run_nodes T f sc ns with
    | TOk out SigNormal sc' => eval_program cx0 fm sc (map cnode ns) out0 = Ok (out0 ++ out, sc') /\ env_clean sc' = true
    | TOk _ _ _ => True      (* a @break / @continue outside any loop: nothing is claimed *)
    | TFail => exists ln msg, eval_program cx0 fm sc (map cnode ns) out0 = Fail ln msg
    | TNoFuel | TUnprintable => True
    end.

Definition PALL (f : nat) : Prop := PN f /\ PNS f /\ PB f /\ PE f /\ PF f /\ PP f.

Lemma P0 : PALL 0.
Proof. repeat split; intro; intros; exists 0%nat; intros; exact I. Qed.

(* ---------- one-step unfoldings of the specification (by computation) *)
Lemma run_nodes_nil f sc : run_nodes T (S f) sc [] = TOk [] SigNormal sc.
Proof. reflexivity. Qed.

Lemma run_nodes_cons f sc n ns :
  run_nodes T (S f) sc (n :: ns) =
  match run_node T f sc n with
  | TOk o SigNormal sc1 =>
    match run_nodes T f sc1 ns with
    | TOk o2 s2 sc2 => TOk (o ++ o2) s2 sc2
    | r => r
    end
  | r => r
  end.
Proof. reflexivity. Qed.

Lemma run_block_S f sc ns :
  run_block T (S f) sc ns = match run_nodes T f ([] :: sc) ns with TOk o s sc1 => TOk o s (tl sc1) | r => r end.
Proof. reflexivity. Qed.

(* ---------- blocks *)
Lemma PNS_step f : PN f -> PNS f -> PNS (S f).
Proof.
  intros HN HNS sc ns Hc Hok. destruct ns as [|n ns].
  - exists 1%nat. intros fm Hfm acc. destruct fm; [lia|]. rewrite run_nodes_nil. cbn [map eval_block Rb].
    exists [], []. rewrite app_nil_r. repeat split. exact Hc.
  - destruct Hok as [Hn Hns]. rewrite run_nodes_cons.
    destruct (HN sc n Hc Hn) as [K1 H1].
    destruct (run_node T f sc n) as [o sig sc1| | |] eqn:Er.
    + assert (Hc1 : env_clean sc1 = true).
      { destruct (H1 K1 (le_n _)) as (v & _ & _ & _ & _ & Hc1). exact Hc1. }
      destruct sig.
      * (* normal: go on with the rest of the block *)
        destruct (HNS sc1 ns Hc1 Hns) as [K2 H2].
        exists (S (Nat.max K1 K2)). intros fm Hfm acc. destruct fm as [|fm]; [lia|].
        cbn [map eval_block].
        destruct (H1 fm ltac:(lia)) as (v & Hev & Hstr & Hb & Hcn & _). rewrite Hev. cbv beta iota. cbn [fst snd].
        cbn [sig_b sig_c] in Hb, Hcn. rewrite Hb, Hcn. cbn [orb].
        specialize (H2 fm ltac:(lia) (v :: acc)).
        destruct (run_nodes T f sc1 ns) as [o2 s2 sc2| | |]; unfold Rb in H2 |- *; try exact H2.
        destruct H2 as (vs & ss & He & Hss & Hcat & Hb2 & Hc2 & Hcl).
        exists (v :: vs), (o :: ss). rewrite He. cbn [rev]. rewrite <- app_assoc. cbn [app].
        split; [reflexivity|]. cbn [map all_some]. rewrite Hstr, Hss. split; [reflexivity|].
        cbn [concat]. rewrite Hcat. split; [reflexivity|]. cbn [existsb]. rewrite Hb, Hcn, Hb2, Hc2.
        repeat split. exact Hcl.
      * (* break: the block ends here *)
        exists (S K1). intros fm Hfm acc. destruct fm as [|fm]; [lia|]. cbn [map eval_block Rb].
        destruct (H1 fm ltac:(lia)) as (v & Hev & Hstr & Hb & Hcn & _). rewrite Hev. cbv beta iota. cbn [fst snd].
        cbn [sig_b sig_c] in Hb, Hcn. rewrite Hb. cbn [orb].
        exists [v], [o]. cbn [rev]. split; [reflexivity|]. cbn [map all_some]. rewrite Hstr. split; [reflexivity|].
        cbn [concat]. rewrite app_nil_r. split; [reflexivity|]. cbn [existsb sig_b sig_c]. rewrite Hb, Hcn.
        repeat split. exact Hc1.
      * (* continue *)
        exists (S K1). intros fm Hfm acc. destruct fm as [|fm]; [lia|]. cbn [map eval_block Rb].
        destruct (H1 fm ltac:(lia)) as (v & Hev & Hstr & Hb & Hcn & _). rewrite Hev. cbv beta iota. cbn [fst snd].
        cbn [sig_b sig_c] in Hb, Hcn. rewrite Hb, Hcn. cbn [orb].
        exists [v], [o]. cbn [rev]. split; [reflexivity|]. cbn [map all_some]. rewrite Hstr. split; [reflexivity|].
        cbn [concat]. rewrite app_nil_r. split; [reflexivity|]. cbn [existsb sig_b sig_c]. rewrite Hb, Hcn.
        repeat split. exact Hc1.
    + exists (S K1). intros fm Hfm acc. destruct fm as [|fm]; [lia|]. cbn [map eval_block Rb].
      destruct (H1 fm ltac:(lia)) as (ln & msg & ->). do 2 eexists. reflexivity.
    + exists 0%nat. intros; exact I.
    + exists 0%nat. intros; exact I.
Qed.

Lemma PB_step f : PNS f -> PB (S f).
Proof.
  intros HNS sc ns Hc Hok. rewrite run_block_S.
  destruct (HNS ([] :: sc) ns (push_clean sc Hc) Hok) as [K H].
  exists K. intros fm Hfm. specialize (H fm Hfm []).
  destruct (run_nodes T f ([] :: sc) ns) as [o s sc1| | |]; unfold Rb, Rs in H |- *; try exact H.
  - destruct H as (vs & ss & He & Hss & Hcat & Hb & Hcn & Hcl). rewrite He. cbv beta iota. cbn [fst snd rev app].
    destruct (block_value vs ss Hss) as (Hv & Hb' & Hc').
    exists (VBlock vs). repeat split; [rewrite Hv, Hcat; reflexivity|rewrite Hb'; exact Hb|rewrite Hc'; exact Hcn|apply tl_clean, Hcl].
  - destruct H as (ln & msg & ->). do 2 eexists. reflexivity.
Qed.


Lemma PP_step f : PN f -> PP f -> PP (S f).
Proof.
  intros HN HP sc ns Hc Hok. destruct ns as [|n ns].
  - rewrite run_nodes_nil. exists 1%nat. intros fm Hfm out0. destruct fm; [lia|]. cbn [map eval_program].
    rewrite app_nil_r. split; [reflexivity|exact Hc].
  - destruct Hok as [Hn Hns]. rewrite run_nodes_cons.
    destruct (HN sc n Hc Hn) as [K1 H1].
    destruct (run_node T f sc n) as [o sig sc1| | |] eqn:Er.
    + assert (Hc1 : env_clean sc1 = true).
      { destruct (H1 K1 (le_n _)) as (v & _ & _ & _ & _ & Hc1). exact Hc1. }
      destruct sig.
      * destruct (HP sc1 ns Hc1 Hns) as [K2 H2].
        exists (S (Nat.max K1 K2)). intros fm Hfm out0. destruct fm as [|fm]; [lia|]. cbn [map eval_program].
        destruct (H1 fm ltac:(lia)) as (v & Hev & Hstr & _). rewrite Hev. cbv beta iota. cbn [fst snd].
        unfold str_of. rewrite Hstr. cbv beta iota.
        specialize (H2 fm ltac:(lia) (out0 ++ o)).
        destruct (run_nodes T f sc1 ns) as [o2 s2 sc2| | |]; try exact H2.
        destruct s2; try exact I.
        destruct H2 as [-> Hc2]. rewrite app_assoc. split; [reflexivity|exact Hc2].
      * exists 0%nat. intros fm _ out0. exact I.
      * exists 0%nat. intros fm _ out0. exact I.
    + exists (S K1). intros fm Hfm out0. destruct fm as [|fm]; [lia|]. cbn [map eval_program].
      destruct (H1 fm ltac:(lia)) as (ln & msg & ->). do 2 eexists. reflexivity.
    + exists 0%nat. intros; exact I.
    + exists 0%nat. intros; exact I.
Qed.

(* ---------- one-step unfoldings of run_node, per construct *)
Lemma rn_text f sc s : run_node T (S f) sc (NText s) = TOk s SigNormal sc.
Proof. reflexivity. Qed.

Lemma rn_print f sc e :
  run_node T (S f) sc (NPrint e) =
  match ev T sc e with
  | SVal v => match value_string v with Some s => TOk s SigNormal sc | None => TUnprintable end
  | SErr => TFail
  | SUnspec => TUnprintable
  end.
Proof. reflexivity. Qed.

Lemma rn_assign f sc x e :
  run_node T (S f) sc (NAssign x e) =
  match ev T sc e with
  | SVal v => match assign sc x v with Some sc' => TOk [] SigNormal sc' | None => TFail end
  | SErr => TFail
  | SUnspec => TUnprintable
  end.
Proof. reflexivity. Qed.

Fixpoint branches (f : nat) (sc : scopes) (els : option (list tnode)) (bs : list (sexpr * list tnode)) : tres :=
  match bs with
  | (c', b) :: bs' =>
    match ev T sc c' with
    | SErr => TFail
    | SUnspec => TUnprintable
    | SVal v' => if truthy_spec v' then run_block T f sc b else branches f sc els bs'
    end
  | [] => match els with Some b => run_block T f sc b | None => TOk [] SigNormal sc end
  end.

Lemma rn_if f sc c thn elifs els :
  run_node T (S f) sc (NIf c thn elifs els) =
  match ev T sc c with
  | SErr => TFail
  | SUnspec => TUnprintable
  | SVal v => if truthy_spec v then run_block T f sc thn else branches f sc els elifs
  end.
Proof.
  cbn [run_node]. destruct (ev T sc c); try reflexivity. destruct (truthy_spec v); [reflexivity|].
  induction elifs as [|[c' b] elifs IH]; [reflexivity|]. cbn [branches].
  destruct (ev T sc c'); try reflexivity. destruct (truthy_spec v0); [reflexivity|exact IH].
Qed.

Lemma rn_each f sc v arr body els :
  run_node T (S f) sc (NEach v arr body els) =
  match ev T sc arr with
  | SVal (VArr elems) =>
    match elems, els with
    | [], Some b => run_block T f sc b
    | _, _ =>
      match each_passes T f v body (List.length elems) O elems ([] :: sc) with
      | TOk o _ sc1 => TOk o SigNormal (tl sc1)
      | r => r
      end
    end
  | SVal _ => TFail
  | SErr => TFail
  | SUnspec => TUnprintable
  end.
Proof. reflexivity. Qed.

Lemma rn_reserve_block f sc n rid b a :
  run_node T (S f) sc (NReserve n rid (Some b) a) =
  match run_nodes T f sc b with TOk o _ sc1 => TOk o SigNormal sc1 | r => r end.
Proof. reflexivity. Qed.
Lemma rn_reserve_expr f sc n rid e :
  run_node T (S f) sc (NReserve n rid None (Some e)) =
  match ev T sc e with
  | SVal v => match value_string v with Some s => TOk s SigNormal sc | None => TUnprintable end
  | SErr => TFail
  | SUnspec => TUnprintable
  end.
Proof. reflexivity. Qed.
Lemma rn_reserve_empty f sc n rid : run_node T (S f) sc (NReserve n rid None None) = TOk [] SigNormal sc.
Proof. reflexivity. Qed.

Lemma rn_component f sc n cid args body :
  run_node T (S f) sc (NComponent n cid args body) =
  match (match args with
         | Some ps => bind_spec T sc (asort ps) ([] :: sc)
         | None => Some (Some ([] :: sc))
         end) with
  | None => TUnprintable
  | Some None => TFail
  | Some (Some sc1) =>
    match run_nodes T f sc1 body with
    | TOk o SigNormal sc2 => TOk o SigNormal (tl sc2)
    | TOk _ _ _ => TUnprintable
    | r => r
    end
  end.
Proof. reflexivity. Qed.
Lemma rn_slot_body f sc n b :
  run_node T (S f) sc (NSlot n (Some b)) =
  match run_nodes T f sc b with TOk o _ sc1 => TOk o SigNormal sc1 | r => r end.
Proof. reflexivity. Qed.
Lemma rn_slot_empty f sc n : run_node T (S f) sc (NSlot n None) = TOk [] SigNormal sc.
Proof. reflexivity. Qed.

Lemma rn_break f sc : run_node T (S f) sc NBreak = TOk [] SigBreak sc.
Proof. reflexivity. Qed.
Lemma rn_continue f sc : run_node T (S f) sc NContinue = TOk [] SigContinue sc.
Proof. reflexivity. Qed.

Lemma rn_breakif f sc e :
  run_node T (S f) sc (NBreakIf e) =
  match ev T sc e with
  | SVal v => TOk [] (if truthy_spec v then SigBreak else SigNormal) sc
  | SErr => TFail
  | SUnspec => TUnprintable
  end.
Proof. reflexivity. Qed.

Lemma rn_continueif f sc e :
  run_node T (S f) sc (NContinueIf e) =
  match ev T sc e with
  | SVal v => TOk [] (if truthy_spec v then SigContinue else SigNormal) sc
  | SErr => TFail
  | SUnspec => TUnprintable
  end.
Proof. reflexivity. Qed.

Lemma each_passes_S f v body len i elems sc :
  each_passes T (S f) v body len i elems sc =
  match elems with
  | [] => TOk [] SigNormal sc
  | x :: rest =>
    match assign sc v x with
    | None => TFail
    | Some sc1 =>
      match run_nodes T f (set_meta sc1 i len) body with
      | TOk o SigBreak sc2 => TOk o SigNormal sc2
      | TOk o _ sc2 =>
        match each_passes T f v body len (S i) rest sc2 with
        | TOk o2 s sc3 => TOk (o ++ o2) s sc3
        | r => r
        end
      | r => r
      end
    end
  end.
Proof. reflexivity. Qed.

(* ---------- expressions inside statements *)
Lemma ev_push sc e : ev T ([] :: sc) e = ev T sc e.
Proof. reflexivity. Qed.

Lemma ev_case sc e :
  lits_ok e -> env_clean sc = true ->
  exists K, forall fm, (K <= fm)%nat ->
    match ev T sc e with
    | SVal v => eval_expr cx0 fm sc (compile e) = Ok v /\ clean v = true
    | SErr => exists ln msg, eval_expr cx0 fm sc (compile e) = Fail ln msg
    | SUnspec => True
    end.
Proof.
  intros Hok Hc. destruct (ev_meets sc e Hok) as [K H]. exists K. intros fm Hfm. specialize (H fm Hfm).
  destruct (ev T sc e) as [v| |]; cbn [meets] in H; [|exact H|exact I].
  split; [exact H|]. eapply (eval_expr_clean fm sc (compile e) v Hc). exact H.
Qed.

Lemma rs_ok v out sig sc' (o : outcome (value * env)) :
  o = Ok (v, sc') -> value_string v = Some out -> has_break v = sig_b sig -> has_continue v = sig_c sig ->
  env_clean sc' = true -> Rs o (TOk out sig sc').
Proof. intros. exists v. repeat split; assumption. Qed.

(* ---------- component arguments *)
Definition cpair (p : bytes * sexpr) : bytes * expr := (fst p, compile (snd p)).

Lemma bind_case : forall ps sc ne, env_clean sc = true -> env_clean ne = true -> all_ok_pairs ps ->
  exists K, forall fm, (K <= fm)%nat -> forall ln,
    match bind_spec T sc ps ne with
    | Some (Some ne') => bind_args cx0 fm ln sc (map cpair ps) ne = Ok ne' /\ env_clean ne' = true
    | Some None => exists l m, bind_args cx0 fm ln sc (map cpair ps) ne = Fail l m
    | None => True
    end.
Proof.
  induction ps as [|[k e] ps IH]; intros sc ne Hc Hn Hok.
  - exists 0%nat. intros fm _ ln. cbn [bind_spec map bind_args]. split; [reflexivity|exact Hn].
  - destruct Hok as [He Hps]. cbn [snd] in He. cbn [bind_spec].
    destruct (ev_case sc e He Hc) as [K1 H1].
    destruct (ev T sc e) as [v| |].
    + pose proof (assign_is_env_set ne k v) as Ha.
      destruct (assign ne k v) as [ne'|].
      * assert (Hn' : env_clean ne' = true).
        { destruct (H1 K1 (le_n _)) as [_ Hv]. eapply env_set_clean; eassumption. }
        destruct (IH sc ne' Hc Hn' Hps) as [K2 H2].
        exists (Nat.max K1 K2). intros fm Hfm ln. cbn [map bind_args cpair fst snd].
        destruct (H1 fm ltac:(lia)) as [-> _]. cbv beta iota. rewrite Ha. apply H2. lia.
      * destruct Ha as [msg Ha]. exists K1. intros fm Hfm ln. cbn [map bind_args cpair fst snd].
        destruct (H1 fm Hfm) as [-> _]. cbv beta iota. rewrite Ha. do 2 eexists. reflexivity.
    + exists K1. intros fm Hfm ln. cbn [map bind_args cpair fst snd].
      destruct (H1 fm Hfm) as (l & m & ->). do 2 eexists. reflexivity.
    + exists 0%nat. intros; exact I.
Qed.

(* the @elseif chain *)
Lemma alts_step f sc els elifs :
  PB f -> env_clean sc = true ->
  (fix go (l : list (sexpr * list tnode)) : Prop :=
     match l with [] => True | cb :: l' => lits_ok (fst cb) /\ nodes_ok (snd cb) /\ go l' end) elifs ->
  (match els with Some b => nodes_ok b | None => True end) ->
  exists K, forall fm, (K <= fm)%nat ->
    Rs (eval_alts cx0 fm sc (map (fun cb : sexpr * list tnode => (compile (fst cb), map cnode (snd cb))) elifs)
                  (match els with Some b => Some (map cnode b) | None => None end))
       (branches f sc els elifs).
Proof.
  intros HB Hc. induction elifs as [|[c b] elifs IH]; intros Hok Hels.
  - cbn [branches map]. destruct els as [b|].
    + destruct (HB sc b Hc Hels) as [K H]. exists (S K). intros fm Hfm. destruct fm as [|fm]; [lia|].
      cbn [eval_alts]. apply H. lia.
    + exists 1%nat. intros fm Hfm. destruct fm; [lia|]. cbn [eval_alts].
      apply (rs_ok VNil); try reflexivity. exact Hc.
  - destruct Hok as (Hlc & Hb & Hrest). cbn [fst snd] in Hlc, Hb. cbn [branches map fst snd].
    destruct (ev_case sc c Hlc Hc) as [K1 H1].
    destruct (HB sc b Hc Hb) as [K2 H2].
    destruct (IH Hrest Hels) as [K3 H3].
    exists (S (Nat.max K1 (Nat.max K2 K3))). intros fm Hfm. destruct fm as [|fm]; [lia|].
    cbn [eval_alts]. specialize (H1 fm ltac:(lia)).
    destruct (ev T sc c) as [v| |].
    + destruct H1 as [-> _]. cbv beta iota. rewrite truthy_is_spec.
      destruct (truthy_spec v); [apply H2; lia|apply H3; lia].
    + destruct H1 as (ln & msg & ->). cbn. do 2 eexists. reflexivity.
    + exact I.
Qed.

(* ---------- @each passes *)
Lemma PE_step f : PNS f -> PE f -> PE (S f).
Proof.
  intros HNS HE v body len i elems sc Hc Hel Hbody. rewrite each_passes_S.
  destruct elems as [|x rest].
  - exists 1%nat. intros fm Hfm ln out. destruct fm; [lia|]. cbn [each_loop Rl]. rewrite app_nil_r. split; [reflexivity|exact Hc].
  - cbn [forallb] in Hel. apply andb_true_iff in Hel as [Hx Hrest].
    pose proof (assign_is_env_set sc v x) as Ha.
    destruct (assign sc v x) as [sc1|].
    + assert (Hc1 : env_clean sc1 = true) by (eapply env_set_clean; eassumption).
      assert (Hc2 : env_clean (set_meta sc1 i len) = true) by (rewrite set_meta_is_env_set_loop; apply env_set_loop_clean, Hc1).
      destruct (HNS (set_meta sc1 i len) body Hc2 Hbody) as [K1 H1].
      destruct (run_nodes T f (set_meta sc1 i len) body) as [o sig sc2| | |] eqn:Er.
      * assert (Hc3 : env_clean sc2 = true).
        { destruct (H1 K1 (le_n _) []) as (vs & ss & _ & _ & _ & _ & _ & Hc3). exact Hc3. }
        destruct (HE v body len (S i) rest sc2 Hc3 Hrest Hbody) as [K2 H2].
        exists (S (Nat.max K1 K2)). intros fm Hfm ln out. destruct fm as [|fm]; [lia|].
        cbn [each_loop]. rewrite Ha. rewrite <- set_meta_is_env_set_loop.
        destruct (H1 fm ltac:(lia) []) as (vs & ss & He & Hss & Hcat & Hb & Hcn & _).
        rewrite He. cbv beta iota. cbn [fst snd rev app].
        destruct (block_value vs ss Hss) as (Hv & Hb' & _).
        unfold str_of. rewrite Hv. cbv beta iota. rewrite Hb', Hb, Hcat.
        destruct sig; cbn [sig_b].
        -- specialize (H2 fm ltac:(lia) ln (out ++ o)).
           destruct (each_passes T f v body len (S i) rest sc2) as [o2 s sc3| | |]; unfold Rl in H2 |- *; try exact H2.
           destruct H2 as [-> Hc4]. rewrite <- app_assoc. split; [reflexivity|exact Hc4].
        -- unfold Rl. split; [reflexivity|exact Hc3].
        -- specialize (H2 fm ltac:(lia) ln (out ++ o)).
           destruct (each_passes T f v body len (S i) rest sc2) as [o2 s sc3| | |]; unfold Rl in H2 |- *; try exact H2.
           destruct H2 as [-> Hc4]. rewrite <- app_assoc. split; [reflexivity|exact Hc4].
      * exists (S K1). intros fm Hfm ln out. destruct fm as [|fm]; [lia|].
        cbn [each_loop]. rewrite Ha. rewrite <- set_meta_is_env_set_loop.
        destruct (H1 fm ltac:(lia) []) as (l0 & msg & ->). cbn. do 2 eexists. reflexivity.
      * exists 0%nat. intros; exact I.
      * exists 0%nat. intros; exact I.
    + destruct Ha as [msg Ha]. exists 1%nat. intros fm Hfm ln out. destruct fm; [lia|].
      cbn [each_loop]. rewrite Ha. cbn. do 2 eexists. reflexivity.
Qed.

(* ---------- @for passes *)
Definition cond_val (sc : scopes) (cond : option sexpr) : option (option bool) :=
  match cond with
  | Some c => match ev T sc c with SVal v => Some (Some (truthy_spec v)) | SErr => Some None | SUnspec => None end
  | None => Some (Some true)
  end.

Definition post_step (sc1 : scopes) (post : option fpost) : option (option scopes) :=
  let step (r : sres) (x : bytes) : option (option scopes) :=
    match r with SVal v => Some (assign sc1 x v) | SErr => Some None | SUnspec => None end in
  match post with
  | None => Some (Some sc1)
  | Some (PostInc x) => step (ev T sc1 (XInc (XVar x))) x
  | Some (PostDec x) => step (ev T sc1 (XDec (XVar x))) x
  | Some (PostAssign x e) => step (ev T sc1 e) x
  end.

Lemma for_passes_S f cond post body sc :
  for_passes T (S f) cond post body sc =
  match cond_val sc cond with
  | None => TUnprintable
  | Some None => TFail
  | Some (Some false) => TOk [] SigNormal sc
  | Some (Some true) =>
    match run_nodes T f sc body with
    | TOk o SigBreak sc1 => TOk o SigNormal sc1
    | TOk o _ sc1 =>
      match post_step sc1 post with
      | None => TUnprintable
      | Some None => TFail
      | Some (Some sc2) =>
        match for_passes T f cond post body sc2 with
        | TOk o2 s sc3 => TOk (o ++ o2) s sc3
        | r => r
        end
      end
    | r => r
    end
  end.
Proof. reflexivity. Qed.

Definition run_cond (fm : nat) (sc : env) (cond : option sexpr) : outcome bool :=
  match for_cond cond with
  | ENull => Ok true
  | _ => let! cv := eval_expr cx0 fm sc (for_cond cond) in Ok (truthy cv)
  end.

Definition run_init (fm : nat) (sc0 : env) (init : option (bytes * sexpr)) : outcome (value * env) :=
  match for_init init with SNull => Ok (VNil, sc0) | _ => eval_stmt cx0 fm sc0 (for_init init) end.

(* the loop condition, as the model evaluates it *)
Lemma cond_case sc cond :
  (match cond with Some c => lits_ok c | None => True end) -> env_clean sc = true ->
  exists K, forall fm, (K <= fm)%nat ->
    match cond_val sc cond with
    | Some (Some b) => run_cond fm sc cond = Ok b
    | Some None => exists ln msg, run_cond fm sc cond = Fail ln msg
    | None => True
    end.
Proof.
  intros Hok Hc. unfold run_cond. destruct cond as [c|]; cbn [cond_val for_cond].
  - destruct (ev_case sc c Hok Hc) as [K H]. exists K. intros fm Hfm. specialize (H fm Hfm).
    assert (Hm : forall X Y : outcome bool,
               (match compile c with ENull => X | _ => Y end) = Y).
    { intros X Y. pose proof (compile_not_null c) as Hn. destruct (compile c); try reflexivity. congruence. }
    rewrite Hm. destruct (ev T sc c) as [v| |].
    + destruct H as [-> _]. cbv beta iota. rewrite truthy_is_spec. reflexivity.
    + destruct H as (ln & msg & ->). cbn. do 2 eexists. reflexivity.
    + exact I.
  - exists 0%nat. intros. reflexivity.
Qed.

(* one pass of the model's loop, given what the condition and the body evaluate to *)
Lemma for_loop_pass fm ln init c post body en out vs en1 o :
  (match c with
   | ENull => Ok true
   | _ => let! cv := eval_expr cx0 fm en c in Ok (truthy cv)
   end) = Ok true ->
  eval_block cx0 fm en body [] = Ok (VBlock vs, en1) -> str_of (VBlock vs) = Ok o ->
  for_loop cx0 (S fm) ln init c post body en out =
  if has_break (VBlock vs) then Ok (out ++ o, en1) else
  match post with
  | SNull => for_loop cx0 fm ln init c post body en1 (out ++ o)
  | _ =>
    let! pr := eval_stmt cx0 fm en1 post in
    match init, post with
    | SAssign _ name _, SExpr _ =>
      match env_set (snd pr) name (fst pr) with
      | inl en3 => for_loop cx0 fm ln init c post body en3 (out ++ o)
      | inr msg => Fail ln msg
      end
    | _, _ => for_loop cx0 fm ln init c post body (snd pr) (out ++ o)
    end
  end.
Proof.
  intros Hc Hb Hs. cbn [for_loop]. rewrite Hc. cbv beta iota. cbn [negb]. rewrite Hb. cbv beta iota. cbn [fst snd].
  rewrite Hs. reflexivity.
Qed.

Lemma for_loop_stop fm ln init c post body en out :
  (match c with
   | ENull => Ok true
   | _ => let! cv := eval_expr cx0 fm en c in Ok (truthy cv)
   end) = Ok false ->
  for_loop cx0 (S fm) ln init c post body en out = Ok (out, en).
Proof. intro Hc. cbn [for_loop]. rewrite Hc. reflexivity. Qed.

Lemma for_loop_cond_fails fm ln init c post body en out l0 msg :
  (match c with
   | ENull => Ok true
   | _ => let! cv := eval_expr cx0 fm en c in Ok (truthy cv)
   end) = Fail l0 msg ->
  for_loop cx0 (S fm) ln init c post body en out = Fail l0 msg.
Proof. intro Hc. cbn [for_loop]. rewrite Hc. reflexivity. Qed.

Lemma for_loop_body_fails fm ln init c post body en out l0 msg :
  (match c with
   | ENull => Ok true
   | _ => let! cv := eval_expr cx0 fm en c in Ok (truthy cv)
   end) = Ok true ->
  eval_block cx0 fm en body [] = Fail l0 msg ->
  for_loop cx0 (S fm) ln init c post body en out = Fail l0 msg.
Proof. intros Hc Hb. cbn [for_loop]. rewrite Hc. cbv beta iota. cbn [negb]. rewrite Hb. reflexivity. Qed.

(* the post clause in the model and in the specification *)
Lemma post_case f init cond post body sc1 :
  PF f -> env_clean sc1 = true -> for_ok init cond post -> nodes_ok body ->
  exists K, forall fm, (K <= fm)%nat -> forall ln out,
    Rl (match for_post post with
        | SNull => for_loop cx0 fm ln (for_init init) (for_cond cond) (for_post post) (map cnode body) sc1 out
        | _ =>
          let! pr := eval_stmt cx0 fm sc1 (for_post post) in
          match for_init init, for_post post with
          | SAssign _ name _, SExpr _ =>
            match env_set (snd pr) name (fst pr) with
            | inl en3 => for_loop cx0 fm ln (for_init init) (for_cond cond) (for_post post) (map cnode body) en3 out
            | inr msg => Fail ln msg
            end
          | _, _ => for_loop cx0 fm ln (for_init init) (for_cond cond) (for_post post) (map cnode body) (snd pr) out
          end
        end) out
       (match post_step sc1 post with
        | None => TUnprintable
        | Some None => TFail
        | Some (Some sc2) => for_passes T f cond post body sc2
        end).
Proof.
  intros HF Hc1 [Hcond Hpost] Hbody.
  assert (Hloop : forall sc2, env_clean sc2 = true ->
            exists K, forall fm, (K <= fm)%nat -> forall ln out,
              Rl (for_loop cx0 fm ln (for_init init) (for_cond cond) (for_post post) (map cnode body) sc2 out) out
                 (for_passes T f cond post body sc2)).
  { intros sc2 Hc2. exact (HF init cond post body sc2 Hc2 (conj Hcond Hpost) Hbody). }
  (* an expression post clause x++ / x-- : evaluated, then bound to the init variable (= x) *)
  assert (Hstep : forall x e0 e, init = Some (x, e0) -> lits_ok e ->
            (forall K', exists K, (K' <= K)%nat /\ forall fm, (K <= fm)%nat -> forall ln out,
              Rl (let! pr := eval_stmt cx0 fm sc1 (SExpr (compile e)) in
                  match env_set (snd pr) x (fst pr) with
                  | inl en3 => for_loop cx0 fm ln (for_init init) (for_cond cond) (for_post post) (map cnode body) en3 out
                  | inr msg => Fail ln msg
                  end) out
                 (match (match ev T sc1 e with SVal v => Some (assign sc1 x v) | SErr => Some None | SUnspec => None end) with
                  | None => TUnprintable
                  | Some None => TFail
                  | Some (Some sc2) => for_passes T f cond post body sc2
                  end))).
  { intros x e0 e Hi Hle K'. destruct (ev_case sc1 e Hle Hc1) as [K2 H2].
    destruct (ev T sc1 e) as [v| |] eqn:Ev.
    - pose proof (assign_is_env_set sc1 x v) as Ha.
      destruct (assign sc1 x v) as [sc2|].
      + assert (Hc2 : env_clean sc2 = true).
        { destruct (H2 K2 (le_n _)) as [_ Hv]. eapply env_set_clean; eassumption. }
        destruct (Hloop sc2 Hc2) as [K3 H3].
        exists (S (Nat.max K' (Nat.max K2 K3))). split; [lia|]. intros fm Hfm ln out.
        destruct fm as [|fm]; [lia|]. cbn [eval_stmt].
        destruct (H2 fm ltac:(lia)) as [-> _]. cbv beta iota. cbn [fst snd]. rewrite Ha.
        apply H3. lia.
      + destruct Ha as [msg Ha]. exists (S (Nat.max K' K2)). split; [lia|]. intros fm Hfm ln out.
        destruct fm as [|fm]; [lia|]. cbn [eval_stmt].
        destruct (H2 fm ltac:(lia)) as [-> _]. cbv beta iota. cbn [fst snd]. rewrite Ha.
        cbn. do 2 eexists. reflexivity.
    - exists (S (Nat.max K' K2)). split; [lia|]. intros fm Hfm ln out.
      destruct fm as [|fm]; [lia|]. cbn [eval_stmt].
      destruct (H2 fm ltac:(lia)) as (l0 & msg & ->). cbn. do 2 eexists. reflexivity.
    - exists K'. split; [lia|]. intros; exact I. }
  destruct post as [[x|x|x e]|]; cbn [post_step for_post cpost].
  - destruct init as [[y e0]|]; [|contradiction]. cbn in Hpost. subst y. cbn [for_init].
    destruct (Hstep x e0 (XInc (XVar x)) eq_refl I 0%nat) as (K & _ & H). exists K. exact H.
  - destruct init as [[y e0]|]; [|contradiction]. cbn in Hpost. subst y. cbn [for_init].
    destruct (Hstep x e0 (XDec (XVar x)) eq_refl I 0%nat) as (K & _ & H). exists K. exact H.
  - (* an assignment as post clause: evaluated for its effect *)
    destruct (ev_case sc1 e Hpost Hc1) as [K2 H2].
    destruct (ev T sc1 e) as [v| |] eqn:Ev.
    + pose proof (assign_is_env_set sc1 x v) as Ha.
      destruct (assign sc1 x v) as [sc2|].
      * assert (Hc2 : env_clean sc2 = true).
        { destruct (H2 K2 (le_n _)) as [_ Hv]. eapply env_set_clean; eassumption. }
        destruct (Hloop sc2 Hc2) as [K3 H3].
        exists (S (Nat.max K2 K3)). intros fm Hfm ln out.
        destruct fm as [|fm]; [lia|]. cbn [eval_stmt].
        destruct (H2 fm ltac:(lia)) as [-> _]. cbv beta iota. rewrite Ha. cbv beta iota. cbn [fst snd].
        destruct (for_init init); apply H3; lia.
      * destruct Ha as [msg Ha]. exists (S K2). intros fm Hfm ln out.
        destruct fm as [|fm]; [lia|]. cbn [eval_stmt].
        destruct (H2 fm ltac:(lia)) as [-> _]. cbv beta iota. rewrite Ha. cbn. do 2 eexists. reflexivity.
    + exists (S K2). intros fm Hfm ln out. destruct fm as [|fm]; [lia|]. cbn [eval_stmt].
      destruct (H2 fm ltac:(lia)) as (l0 & msg & ->). cbn. do 2 eexists. reflexivity.
    + exists 0%nat. intros; exact I.
  - (* no post clause *)
    destruct (Hloop sc1 Hc1) as [K H]. exists K. exact H.
Qed.

Lemma PF_step f : PNS f -> PF f -> PF (S f).
Proof.
  intros HNS HF init cond post body sc Hc Hfo Hbody. pose proof Hfo as [Hcond Hpost]. rewrite for_passes_S.
  destruct (cond_case sc cond Hcond Hc) as [K0 H0].
  destruct (cond_val sc cond) as [[[|]|]|] eqn:Ecv.
  - (* the condition holds: one pass *)
    destruct (HNS sc body Hc Hbody) as [K1 H1].
    destruct (run_nodes T f sc body) as [o sig sc1| | |] eqn:Er.
    + assert (Hc1 : env_clean sc1 = true).
      { destruct (H1 K1 (le_n _) []) as (vs & ss & _ & _ & _ & _ & _ & Hc1). exact Hc1. }
      assert (Hbodym : forall fm, (K1 <= fm)%nat ->
                exists vs, eval_block cx0 fm sc (map cnode body) [] = Ok (VBlock vs, sc1) /\
                           str_of (VBlock vs) = Ok o /\ has_break (VBlock vs) = sig_b sig).
      { intros fm Hfm. destruct (H1 fm Hfm []) as (vs & ss & He & Hss & Hcat & Hb & _ & _).
        destruct (block_value vs ss Hss) as (Hv & Hb' & _). exists vs. cbn [rev app] in He.
        split; [exact He|]. unfold str_of. rewrite Hv, Hcat, Hb', Hb. split; reflexivity. }
      destruct (post_case f init cond post body sc1 HF Hc1 Hfo Hbody) as [K2 H2].
      assert (Hgo : forall b, sig_b sig = b -> b = false ->
                exists K, forall fm, (K <= fm)%nat -> forall ln out,
                  Rl (for_loop cx0 fm ln (for_init init) (for_cond cond) (for_post post) (map cnode body) sc out) out
                     (match post_step sc1 post with
                      | None => TUnprintable
                      | Some None => TFail
                      | Some (Some sc2) =>
                        match for_passes T f cond post body sc2 with
                        | TOk o2 s sc3 => TOk (o ++ o2) s sc3
                        | r => r
                        end
                      end)).
      { intros b Hsb Hbf. subst b.
        exists (S (Nat.max K0 (Nat.max K1 K2))). intros fm Hfm ln out. destruct fm as [|fm]; [lia|].
        destruct (Hbodym fm ltac:(lia)) as (vs & He & Hs & Hb).
        rewrite (for_loop_pass fm ln _ _ _ _ sc out vs sc1 o (H0 fm ltac:(lia)) He Hs). rewrite Hb, Hbf.
        specialize (H2 fm ltac:(lia) ln (out ++ o)).
        destruct (post_step sc1 post) as [[sc2|]|]; unfold Rl in H2 |- *; try exact H2.
        destruct (for_passes T f cond post body sc2) as [o2 s sc3| | |]; try exact H2.
        destruct H2 as [-> Hc3]. rewrite <- app_assoc. split; [reflexivity|exact Hc3]. }
      destruct sig.
      * exact (Hgo false eq_refl eq_refl).
      * (* break: the loop ends after this pass *)
        exists (S (Nat.max K0 K1)). intros fm Hfm ln out. destruct fm as [|fm]; [lia|].
        destruct (Hbodym fm ltac:(lia)) as (vs & He & Hs & Hb).
        rewrite (for_loop_pass fm ln _ _ _ _ sc out vs sc1 o (H0 fm ltac:(lia)) He Hs). rewrite Hb. cbn [sig_b].
        unfold Rl. split; [reflexivity|exact Hc1].
      * exact (Hgo false eq_refl eq_refl).
    + exists (S (Nat.max K0 K1)). intros fm Hfm ln out. destruct fm as [|fm]; [lia|].
      destruct (H1 fm ltac:(lia) []) as (l0 & msg & He).
      rewrite (for_loop_body_fails fm ln _ _ _ _ sc out l0 msg (H0 fm ltac:(lia)) He). cbn. do 2 eexists. reflexivity.
    + exists 0%nat. intros; exact I.
    + exists 0%nat. intros; exact I.
  - (* the condition is false: the loop is over *)
    exists (S K0). intros fm Hfm ln out. destruct fm as [|fm]; [lia|].
    rewrite (for_loop_stop fm ln _ _ _ _ sc out (H0 fm ltac:(lia))). unfold Rl. rewrite app_nil_r. split; [reflexivity|exact Hc].
  - exists (S K0). intros fm Hfm ln out. destruct fm as [|fm]; [lia|].
    destruct (H0 fm ltac:(lia)) as (l0 & msg & He).
    rewrite (for_loop_cond_fails fm ln _ _ _ _ sc out l0 msg He). cbn. do 2 eexists. reflexivity.
  - exists 0%nat. intros; exact I.
Qed.

(* ---------- single statements *)
Definition init_step (sc0 : scopes) (init : option (bytes * sexpr)) : option (option scopes) :=
  match init with
  | Some (x, e) => match ev T sc0 e with
                   | SVal v => match assign sc0 x v with Some s => Some (Some s) | None => Some None end
                   | SErr => Some None
                   | SUnspec => None end
  | None => Some (Some sc0)
  end.

Lemma rn_for f sc init cond post body els :
  run_node T (S f) sc (NFor init cond post body els) =
  match init_step ([] :: sc) init with
  | Some (Some sc1) =>
    match cond_val sc1 cond with
    | None => TUnprintable
    | Some None => TFail
    | Some (Some enter) =>
      match enter, els with
      | false, Some b => match run_nodes T f sc1 b with TOk o s sc2 => TOk o s (tl sc2) | r => r end
      | _, _ => match for_passes T f cond post body sc1 with TOk o _ sc2 => TOk o SigNormal (tl sc2) | r => r end
      end
    end
  | Some None => TFail
  | None => TUnprintable
  end.
Proof. reflexivity. Qed.

(* a block run in a given scope chain, whose innermost scope is dropped afterwards *)
Lemma block_tl f sc1 ns :
  PNS f -> env_clean sc1 = true -> nodes_ok ns ->
  exists K, forall fm, (K <= fm)%nat ->
    Rs (let! r := eval_block cx0 fm sc1 (map cnode ns) [] in Ok (fst r, tl (snd r)))
       (match run_nodes T f sc1 ns with TOk o s sc2 => TOk o s (tl sc2) | r => r end).
Proof.
  intros HNS Hc Hok. destruct (HNS sc1 ns Hc Hok) as [K H]. exists K. intros fm Hfm. specialize (H fm Hfm []).
  destruct (run_nodes T f sc1 ns) as [o s sc2| | |]; unfold Rb, Rs in H |- *; try exact H.
  - destruct H as (vs & ss & He & Hss & Hcat & Hb & Hcn & Hcl). rewrite He. cbv beta iota. cbn [fst snd rev app].
    destruct (block_value vs ss Hss) as (Hv & Hb' & Hc').
    exists (VBlock vs). repeat split; [rewrite Hv, Hcat; reflexivity|rewrite Hb'; exact Hb|rewrite Hc'; exact Hcn|apply tl_clean, Hcl].
  - destruct H as (ln & msg & ->). do 2 eexists. reflexivity.
Qed.

(* the init clause of @for *)
Lemma init_case sc0 init :
  (match init with Some (_, e) => lits_ok e | None => True end) -> env_clean sc0 = true ->
  exists K, forall fm, (K <= fm)%nat ->
    match init_step sc0 init with
    | Some (Some sc1) => run_init fm sc0 init = Ok (VNil, sc1) /\ env_clean sc1 = true
    | Some None => exists ln msg, run_init fm sc0 init = Fail ln msg
    | None => True
    end.
Proof.
  intros Hok Hc. unfold run_init. destruct init as [[x e]|]; cbn [init_step for_init].
  - destruct (ev_case sc0 e Hok Hc) as [K H]. exists (S K). intros fm Hfm. destruct fm as [|fm]; [lia|].
    specialize (H fm ltac:(lia)). cbn [eval_stmt].
    destruct (ev T sc0 e) as [v| |].
    + destruct H as [-> Hv]. cbv beta iota. pose proof (assign_is_env_set sc0 x v) as Ha.
      destruct (assign sc0 x v) as [sc1|].
      * rewrite Ha. split; [reflexivity|]. eapply env_set_clean; eassumption.
      * destruct Ha as [msg ->]. do 2 eexists. reflexivity.
    + destruct H as (ln & msg & ->). cbn. do 2 eexists. reflexivity.
    + exact I.
  - exists 0%nat. intros. split; [reflexivity|exact Hc].
Qed.

Lemma eval_for_unfold fm sc init cond post body els :
  eval_stmt cx0 (S fm) sc (cnode (NFor init cond post body els)) =
  (let! r0 := run_init fm ([] :: sc) init in
   let! enter := run_cond fm (snd r0) cond in
   match enter, (match els with Some b => Some (map cnode b) | None => None end) with
   | false, Some a => let! r := eval_block cx0 fm (snd r0) a [] in Ok (fst r, tl (snd r))
   | _, _ =>
     let! r := for_loop cx0 fm 1 (for_init init) (for_cond cond) (for_post post) (map cnode body) (snd r0) [] in
     Ok (VHtml (fst r), tl (snd r))
   end).
Proof. reflexivity. Qed.

Lemma PN_step f : PNS f -> PB f -> PE f -> PF f -> PP f -> PN (S f).
Proof.
  intros HNS HB HE HF HP sc n Hc Hok. destruct n.
  - (* text *)
    rewrite rn_text. exists 1%nat. intros fm Hfm. destruct fm; [lia|]. cbn [cnode eval_stmt].
    apply (rs_ok (VHtml s)); try reflexivity. exact Hc.
  - (* print *)
    rewrite rn_print. destruct (ev_case sc e Hok Hc) as [K H]. exists (S K). intros fm Hfm.
    destruct fm as [|fm]; [lia|]. cbn [cnode eval_stmt]. specialize (H fm ltac:(lia)).
    destruct (ev T sc e) as [v| |].
    + destruct H as [-> Hv]. cbv beta iota. destruct (value_string v) as [str|] eqn:Es; [|exact I].
      destruct (clean_no_markers v Hv) as [Hb Hcn]. apply (rs_ok v); try assumption; reflexivity.
    + destruct H as (ln & msg & ->). cbn. do 2 eexists. reflexivity.
    + exact I.
  - (* assignment *)
    rewrite rn_assign. destruct (ev_case sc e Hok Hc) as [K H]. exists (S K). intros fm Hfm.
    destruct fm as [|fm]; [lia|]. cbn [cnode eval_stmt]. specialize (H fm ltac:(lia)).
    destruct (ev T sc e) as [v| |].
    + destruct H as [-> Hv]. cbv beta iota. pose proof (assign_is_env_set sc x v) as Ha.
      destruct (assign sc x v) as [sc'|].
      * rewrite Ha. apply (rs_ok VNil); try reflexivity. eapply env_set_clean; eassumption.
      * destruct Ha as [msg ->]. cbn. do 2 eexists. reflexivity.
    + destruct H as (ln & msg & ->). cbn. do 2 eexists. reflexivity.
    + exact I.
  - (* @if *)
    rewrite rn_if. cbn [node_ok] in Hok. destruct Hok as (Hlc & Hthn & Helifs & Hels).
    destruct (ev_case sc c Hlc Hc) as [K1 H1].
    destruct (HB sc thn Hc Hthn) as [K2 H2].
    destruct (alts_step f sc els elifs HB Hc Helifs Hels) as [K3 H3].
    exists (S (Nat.max K1 (Nat.max K2 K3))). intros fm Hfm. destruct fm as [|fm]; [lia|].
    cbn [cnode eval_stmt]. specialize (H1 fm ltac:(lia)).
    destruct (ev T sc c) as [v| |].
    + destruct H1 as [-> _]. cbv beta iota. rewrite truthy_is_spec.
      destruct (truthy_spec v); [apply H2; lia|apply H3; lia].
    + destruct H1 as (ln & msg & ->). cbn. do 2 eexists. reflexivity.
    + exact I.
  - (* @each *)
    rewrite rn_each. cbn [node_ok] in Hok. destruct Hok as (Hla & Hbody & Hels).
    pose proof (push_clean sc Hc) as Hc0.
    destruct (ev_case ([] :: sc) arr Hla Hc0) as [K1 H1]. rewrite ev_push in H1.
    destruct (ev T sc arr) as [av| |] eqn:Ea.
    + destruct av; try (exists (S K1); intros fm Hfm; destruct fm as [|fm]; [lia|]; cbn [cnode eval_stmt];
                        destruct (H1 fm ltac:(lia)) as [-> _]; cbn; do 2 eexists; reflexivity).
      (* an array *)
      assert (Hl : forallb clean l = true) by (destruct (H1 K1 (le_n _)) as [_ Hv]; exact Hv).
      destruct l as [|x xs].
      * destruct els as [b|].
        -- destruct (HB sc b Hc Hels) as [K2 H2]. exists (S (Nat.max K1 K2)). intros fm Hfm.
           destruct fm as [|fm]; [lia|]. cbn [cnode eval_stmt].
           destruct (H1 fm ltac:(lia)) as [-> _]. cbv beta iota. apply H2. lia.
        -- destruct (HE v body 0%nat 0%nat [] ([] :: sc) Hc0 eq_refl Hbody) as [K2 H2].
           exists (S (Nat.max K1 K2)). intros fm Hfm. destruct fm as [|fm]; [lia|]. cbn [cnode eval_stmt].
           destruct (H1 fm ltac:(lia)) as [-> _]. cbv beta iota. cbn [List.length].
           specialize (H2 fm ltac:(lia) 1%nat []).
           destruct (each_passes T f v body 0 0 [] ([] :: sc)) as [o s sc1| | |]; unfold Rl in H2; unfold Rs; try exact I.
           ++ destruct H2 as [-> Hc1]. cbv beta iota. cbn [fst snd app].
              apply (rs_ok (VHtml o)); try reflexivity. apply tl_clean, Hc1.
           ++ destruct H2 as (l0 & msg & ->). do 2 eexists. reflexivity.
      * destruct (HE v body (List.length (x :: xs)) 0%nat (x :: xs) ([] :: sc) Hc0 Hl Hbody) as [K2 H2].
        exists (S (Nat.max K1 K2)). intros fm Hfm. destruct fm as [|fm]; [lia|]. cbn [cnode eval_stmt].
        destruct (H1 fm ltac:(lia)) as [-> _]. cbv beta iota.
        specialize (H2 fm ltac:(lia) 1%nat []).
        assert (Hm : forall (X Y : outcome (value * env)),
                   (match els with Some a => Y | None => Y end) = Y) by (intros; destruct els; reflexivity).
        destruct els as [b|];
          (destruct (each_passes T f v body (List.length (x :: xs)) 0 (x :: xs) ([] :: sc)) as [o s sc1| | |];
           unfold Rl in H2; unfold Rs; try exact I;
           [destruct H2 as [-> Hc1]; cbv beta iota; cbn [fst snd app];
            apply (rs_ok (VHtml o)); try reflexivity; apply tl_clean, Hc1
           |destruct H2 as (l0 & msg & ->); do 2 eexists; reflexivity]).
    + exists (S K1). intros fm Hfm. destruct fm as [|fm]; [lia|]. cbn [cnode eval_stmt].
      destruct (H1 fm ltac:(lia)) as (ln & msg & ->). cbn. do 2 eexists. reflexivity.
    + exists 0%nat. intros; exact I.
  - (* @for *)
    rewrite rn_for. cbn [node_ok] in Hok. destruct Hok as (Hinit & Hcond & Hpost & Hbody & Hels).
    pose proof (push_clean sc Hc) as Hc0.
    destruct (init_case ([] :: sc) init Hinit Hc0) as [K0 H0].
    destruct (init_step ([] :: sc) init) as [[sc1|]|] eqn:Ei.
    + assert (Hc1 : env_clean sc1 = true) by (destruct (H0 K0 (le_n _)) as [_ Hc1]; exact Hc1).
      destruct (cond_case sc1 cond Hcond Hc1) as [K1 H1].
      destruct (cond_val sc1 cond) as [[enter|]|] eqn:Ecv.
      * (* the loop, or the @else body when the condition fails at entry *)
        assert (Hloop : exists K, forall fm, (K <= fm)%nat ->
                  Rs (let! r := for_loop cx0 fm 1 (for_init init) (for_cond cond) (for_post post) (map cnode body) sc1 [] in
                      Ok (VHtml (fst r), tl (snd r)))
                     (match for_passes T f cond post body sc1 with TOk o _ sc2 => TOk o SigNormal (tl sc2) | r => r end)).
        { destruct (HF init cond post body sc1 Hc1 (conj Hcond Hpost) Hbody) as [K2 H2]. exists K2. intros fm Hfm.
          specialize (H2 fm Hfm 1%nat []).
          destruct (for_passes T f cond post body sc1) as [o s sc2| | |]; unfold Rl in H2; unfold Rs; try exact I.
          - destruct H2 as [-> Hc2]. cbv beta iota. cbn [fst snd app].
            apply (rs_ok (VHtml o)); try reflexivity. apply tl_clean, Hc2.
          - destruct H2 as (l0 & msg & ->). do 2 eexists. reflexivity. }
        destruct Hloop as [K2 H2].
        assert (Hels' : match els with Some b => nodes_ok b | None => True end) by exact Hels.
        destruct els as [b|].
        -- destruct (block_tl f sc1 b HNS Hc1 Hels') as [K3 H3].
           exists (S (Nat.max K0 (Nat.max K1 (Nat.max K2 K3)))). intros fm Hfm. destruct fm as [|fm]; [lia|].
           rewrite eval_for_unfold.
           destruct (H0 fm ltac:(lia)) as [-> _]. cbv beta iota. cbn [snd].
           rewrite (H1 fm ltac:(lia)). cbv beta iota.
           destruct enter; [apply H2; lia|apply H3; lia].
        -- exists (S (Nat.max K0 (Nat.max K1 K2))). intros fm Hfm. destruct fm as [|fm]; [lia|].
           rewrite eval_for_unfold.
           destruct (H0 fm ltac:(lia)) as [-> _]. cbv beta iota. cbn [snd].
           rewrite (H1 fm ltac:(lia)). cbv beta iota.
           destruct enter; apply H2; lia.
      * exists (S (Nat.max K0 K1)). intros fm Hfm. destruct fm as [|fm]; [lia|].
        rewrite eval_for_unfold.
        destruct (H0 fm ltac:(lia)) as [-> _]. cbv beta iota. cbn [snd].
        destruct (H1 fm ltac:(lia)) as (l0 & msg & ->). cbn. do 2 eexists. reflexivity.
      * exists 0%nat. intros; exact I.
    + exists (S K0). intros fm Hfm. destruct fm as [|fm]; [lia|].
      rewrite eval_for_unfold.
      destruct (H0 fm ltac:(lia)) as (l0 & msg & ->). cbn. do 2 eexists. reflexivity.
    + exists 0%nat. intros; exact I.
  - rewrite rn_break. exists 1%nat. intros fm Hfm. destruct fm; [lia|]. cbn [cnode eval_stmt].
    apply (rs_ok VBreak); try reflexivity. exact Hc.
  - rewrite rn_continue. exists 1%nat. intros fm Hfm. destruct fm; [lia|]. cbn [cnode eval_stmt].
    apply (rs_ok VContinue); try reflexivity. exact Hc.
  - (* @breakIf *)
    rewrite rn_breakif. destruct (ev_case sc e Hok Hc) as [K H]. exists (S K). intros fm Hfm.
    destruct fm as [|fm]; [lia|]. cbn [cnode eval_stmt]. specialize (H fm ltac:(lia)).
    destruct (ev T sc e) as [v| |].
    + destruct H as [-> _]. cbv beta iota. rewrite truthy_is_spec.
      destruct (truthy_spec v); [apply (rs_ok VBreak)|apply (rs_ok VNil)]; try reflexivity; exact Hc.
    + destruct H as (ln & msg & ->). cbn. do 2 eexists. reflexivity.
    + exact I.
  - rewrite rn_continueif. destruct (ev_case sc e Hok Hc) as [K H]. exists (S K). intros fm Hfm.
    destruct fm as [|fm]; [lia|]. cbn [cnode eval_stmt]. specialize (H fm ltac:(lia)).
    destruct (ev T sc e) as [v| |].
    + destruct H as [-> _]. cbv beta iota. rewrite truthy_is_spec.
      destruct (truthy_spec v); [apply (rs_ok VContinue)|apply (rs_ok VNil)]; try reflexivity; exact Hc.
    + destruct H as (ln & msg & ->). cbn. do 2 eexists. reflexivity.
    + exact I.
  - (* @reserve with what the page inserts *)
    cbn [node_ok] in Hok. destruct Hok as [Hblk Harg].
    destruct blk as [b|].
    + (* a block body: rendered in the scope of the reserve's place *)
      destruct (HNS sc b Hc Hblk) as [K H]. exists (S K). intros fm Hfm. destruct fm as [|fm]; [lia|].
      specialize (H fm ltac:(lia) []).
      assert (Ev : eval_stmt cx0 (S fm) sc (cnode (NReserve name rid (Some b) arg)) =
                   (let! r := eval_block cx0 fm sc (map cnode b) [] in Ok (VReserve (fst r) None, snd r)))
        by (destruct arg; reflexivity).
      rewrite Ev, rn_reserve_block.
      destruct (run_nodes T f sc b) as [o s sc1| | |]; unfold Rb in H; unfold Rs; try exact I.
      * destruct H as (vs & ss & He & Hss & Hcat & _ & _ & Hcl). rewrite He. cbv beta iota. cbn [fst snd rev app].
        destruct (block_value vs ss Hss) as (Hv & _ & _).
        apply (rs_ok (VReserve (VBlock vs) None)); try reflexivity; [|exact Hcl].
        cbn [value_string]. cbn [value_string] in Hv. rewrite Hv, Hcat. reflexivity.
      * destruct H as (ln & msg & ->). do 2 eexists. reflexivity.
    + destruct arg as [e|].
      * (* the expression form *)
        destruct (ev_case sc e Harg Hc) as [K H]. exists (S K). intros fm Hfm.
        destruct fm as [|fm]; [lia|]. specialize (H fm ltac:(lia)).
        assert (Ev : eval_stmt cx0 (S fm) sc (cnode (NReserve name rid None (Some e))) =
                     (let! v := eval_expr cx0 fm sc (compile e) in Ok (VReserve VNil (Some v), sc))).
        { cbn [cnode eval_stmt]. pose proof (compile_not_null e) as Hn. destruct (compile e); try reflexivity. congruence. }
        rewrite Ev, rn_reserve_expr.
        destruct (ev T sc e) as [v| |].
        -- destruct H as [-> Hv]. cbv beta iota. destruct (value_string v) as [str|] eqn:Es; [|exact I].
           apply (rs_ok (VReserve VNil (Some v))); try reflexivity; [|exact Hc]. cbn [value_string]. exact Es.
        -- destruct H as (ln & msg & ->). cbn. do 2 eexists. reflexivity.
        -- exact I.
      * (* nothing inserted *)
        exists 1%nat. intros fm Hfm. destruct fm; [lia|]. rewrite rn_reserve_empty. cbn [cnode eval_stmt].
        apply (rs_ok VNil); try reflexivity. exact Hc.
  - (* a component use *)
    rewrite rn_component. cbn [node_ok] in Hok. destruct Hok as [Hargs Hbody].
    pose proof (push_clean sc Hc) as Hc0.
    assert (Hb : exists K, forall fm, (K <= fm)%nat -> forall ln,
              match (match args with Some ps => bind_spec T sc (asort ps) ([] :: sc) | None => Some (Some ([] :: sc)) end) with
              | Some (Some ne') =>
                (match (match args with
                        | Some ps => Some (EObj 1 (map (fun p : bytes * sexpr => (fst p, compile (snd p))) ps))
                        | None => None end) with
                 | Some (EObj _ pairs) => bind_args cx0 fm ln sc (asort pairs) ([] :: sc)
                 | Some _ => Panic
                 | None => Ok ([] :: sc)
                 end) = Ok ne' /\ env_clean ne' = true
              | Some None =>
                exists l m, (match (match args with
                        | Some ps => Some (EObj 1 (map (fun p : bytes * sexpr => (fst p, compile (snd p))) ps))
                        | None => None end) with
                 | Some (EObj _ pairs) => bind_args cx0 fm ln sc (asort pairs) ([] :: sc)
                 | Some _ => Panic
                 | None => Ok ([] :: sc)
                 end) = Fail l m
              | None => True
              end).
    { destruct args as [ps|].
      - destruct (bind_case (asort ps) sc ([] :: sc) Hc Hc0 (all_ok_pairs_asort ps Hargs)) as [K H].
        exists K. intros fm Hfm ln. specialize (H fm Hfm ln).
        rewrite (asort_map_values compile ps). exact H.
      - exists 0%nat. intros fm _ ln. split; [reflexivity|exact Hc0]. }
    destruct Hb as [K0 H0].
    destruct (match args with Some ps => bind_spec T sc (asort ps) ([] :: sc) | None => Some (Some ([] :: sc)) end)
      as [[sc1|]|] eqn:Eb.
    + assert (Hc1 : env_clean sc1 = true) by (destruct (H0 K0 (le_n _) 1%nat) as [_ X]; exact X).
      destruct (HP sc1 body Hc1 Hbody) as [K1 H1].
      exists (S (Nat.max K0 K1)). intros fm Hfm. destruct fm as [|fm]; [lia|].
      cbn [cnode eval_stmt]. destruct (H0 fm ltac:(lia) 1%nat) as [-> _]. cbv beta iota.
      specialize (H1 fm ltac:(lia) []).
      destruct (run_nodes T f sc1 body) as [o sg sc2| | |]; try exact I.
      * destruct sg; try exact I. destruct H1 as [-> Hc2]. cbv beta iota. cbn [fst snd app].
        apply (rs_ok (VComponent (VHtml o))); try reflexivity. apply tl_clean, Hc2.
      * destruct H1 as (l & m & ->). do 2 eexists. reflexivity.
    + exists (S K0). intros fm Hfm. destruct fm as [|fm]; [lia|]. cbn [cnode eval_stmt].
      destruct (H0 fm ltac:(lia) 1%nat) as (l & m & ->). do 2 eexists. reflexivity.
    + exists 0%nat. intros; exact I.
  - (* a slot placeholder *)
    cbn [node_ok] in Hok. destruct body as [b|].
    + rewrite rn_slot_body. destruct (HNS sc b Hc Hok) as [K H]. exists (S K). intros fm Hfm. destruct fm as [|fm]; [lia|].
      specialize (H fm ltac:(lia) []). cbn [cnode eval_stmt].
      destruct (run_nodes T f sc b) as [o s sc1| | |]; unfold Rb in H; unfold Rs; try exact I.
      * destruct H as (vs & ss & He & Hss & Hcat & _ & _ & Hcl). rewrite He. cbv beta iota. cbn [fst snd rev app].
        destruct (block_value vs ss Hss) as (Hv & _ & _).
        apply (rs_ok (VSlot (VBlock vs))); try reflexivity; [|exact Hcl].
        cbn [value_string]. cbn [value_string] in Hv. rewrite Hv, Hcat. reflexivity.
      * destruct H as (ln & msg & ->). do 2 eexists. reflexivity.
    + rewrite rn_slot_empty. exists 1%nat. intros fm Hfm. destruct fm; [lia|]. cbn [cnode eval_stmt].
      apply (rs_ok (VSlot VNil)); try reflexivity. exact Hc.
Qed.

(* ---------- all together *)
Theorem refinement f : PALL f.
Proof.
  induction f as [|f (HN & HNS & HB & HE & HF & HP)]; [exact P0|].
  pose proof (PNS_step f HN HNS) as HNS'.
  pose proof (PB_step f HNS) as HB'.
  pose proof (PE_step f HNS HE) as HE'.
  pose proof (PF_step f HNS HF) as HF'.
  pose proof (PP_step f HN HP) as HP'.
  pose proof (PN_step f HNS HB HE HF HP) as HN'.
  repeat split; assumption.
Qed.

(* one statement: same output, same signal, same scope chain; an error where the specification
   says error *)
Theorem statement_refines_specification fs sc n :
  env_clean sc = true -> node_ok n ->
  exists K, forall fm, (K <= fm)%nat -> Rs (eval_stmt cx0 fm sc (cnode n)) (run_node T fs sc n).
Proof. intros Hc Hok. exact (proj1 (refinement fs) sc n Hc Hok). Qed.

(* a whole template over a data environment: the render of the model shows exactly the
   specification's output, and fails when the specification fails *)
Theorem template_refines_specification fs (data : list (bytes * value)) ns :
  forallb (fun kv : bytes * value => clean (snd kv)) data = true -> nodes_ok ns ->
  exists K, forall fm, (K <= fm)%nat ->
    match run_nodes T fs [data] ns with
    | TOk out SigNormal _ => exists en', eval_program cx0 fm [data] (map cnode ns) [] = Ok (out, en')
    | TOk _ _ _ => True      (* a @break / @continue outside any loop: nothing is claimed *)
    | TFail => exists ln msg, eval_program cx0 fm [data] (map cnode ns) [] = Fail ln msg
    | TNoFuel | TUnprintable => True
    end.
Proof.
  intros Hd Hok.
  (* the program loop prints statement by statement; generalise over the output so far and the scopes *)
  assert (Hgen : forall fs sc ns, env_clean sc = true -> nodes_ok ns ->
            exists K, forall fm, (K <= fm)%nat -> forall out0,
              match run_nodes T fs sc ns with
              | TOk out SigNormal _ => exists en', eval_program cx0 fm sc (map cnode ns) out0 = Ok (out0 ++ out, en')
              | TOk _ _ _ => True
              | TFail => exists ln msg, eval_program cx0 fm sc (map cnode ns) out0 = Fail ln msg
              | TNoFuel | TUnprintable => True
              end).
  { clear. induction fs as [|f IH]; intros sc ns Hc Hok; [exists 0%nat; intros; exact I|].
    destruct ns as [|n ns].
    - rewrite run_nodes_nil. exists 1%nat. intros fm Hfm out0. destruct fm; [lia|]. cbn [map eval_program].
      exists sc. rewrite app_nil_r. reflexivity.
    - destruct Hok as [Hn Hns]. rewrite run_nodes_cons.
      destruct (proj1 (refinement f) sc n Hc Hn) as [K1 H1].
      destruct (run_node T f sc n) as [o sig sc1| | |] eqn:Er.
      + assert (Hc1 : env_clean sc1 = true).
        { destruct (H1 K1 (le_n _)) as (v & _ & _ & _ & _ & Hc1). exact Hc1. }
        destruct sig.
        * destruct (IH sc1 ns Hc1 Hns) as [K2 H2].
          exists (S (Nat.max K1 K2)). intros fm Hfm out0. destruct fm as [|fm]; [lia|]. cbn [map eval_program].
          destruct (H1 fm ltac:(lia)) as (v & Hev & Hstr & _). rewrite Hev. cbv beta iota. cbn [fst snd].
          unfold str_of. rewrite Hstr. cbv beta iota.
          specialize (H2 fm ltac:(lia) (out0 ++ o)).
          destruct (run_nodes T f sc1 ns) as [o2 s2 sc2| | |]; try exact H2.
          destruct s2; try exact I.
          destruct H2 as [en' ->]. exists en'. rewrite app_assoc. reflexivity.
        * (* a @break outside any loop: the specification stops the template here with what was emitted;
             the model's program loop prints the (empty) marker and goes on - outside the claim *)
          exists 0%nat. intros fm _ out0. exact I.
        * exists 0%nat. intros fm _ out0. exact I.
      + exists (S K1). intros fm Hfm out0. destruct fm as [|fm]; [lia|]. cbn [map eval_program].
        destruct (H1 fm ltac:(lia)) as (ln & msg & ->). do 2 eexists. reflexivity.
      + exists 0%nat. intros; exact I.
      + exists 0%nat. intros; exact I. }
  assert (Hc : env_clean [data] = true) by (cbn [env_clean forallb frame_clean]; unfold frame_clean; rewrite Hd; reflexivity).
  destruct (Hgen fs [data] ns Hc Hok) as [K H]. exists K. intros fm Hfm. specialize (H fm Hfm []).
  destruct (run_nodes T fs [data] ns) as [o s sc'| | |]; try exact H.
Qed.
