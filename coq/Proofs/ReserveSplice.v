(* C06, the wording of the property taken literally: in the specification a filled reserve IS its
   content put in its place.  For the list of nodes in which a reserve stands (the layout's top
   level or the body of any block), running the list with the reserve filled by a block insert gives
   the same result as running the list with the insert's nodes spliced in where the reserve stood -
   provided the insert's nodes do not end in a loose @break / @continue (the one thing a reserve
   keeps inside: SpecMono.v, then a fuel-free reading of run_nodes).  The expression form is the
   print statement, an unfilled reserve is nothing. *)
From Coq Require Import String Lia.
From TW Require Import Bytes Floats Values Ast Builtins Eval Expr Template ExprSem Control CleanValues TemplateRefine SpecMono.
Open Scope N_scope.

Notation T := model_call_spec.

Definition glue (o : bytes) (r : tres) : tres :=
  match r with TOk o2 s2 sc2 => TOk (o ++ o2) s2 sc2 | TFail => TFail | TNoFuel => TNoFuel | TUnprintable => TUnprintable end.

(* the result of a list / a node, whatever the (sufficient) budget *)
Definition RunsTo (sc : scopes) (ns : list tnode) (r : tres) : Prop :=
  r <> TNoFuel /\ exists n, forall f, (n <= f)%nat -> run_nodes T f sc ns = r.
Definition RunsToN (sc : scopes) (nd : tnode) (r : tres) : Prop :=
  r <> TNoFuel /\ exists n, forall f, (n <= f)%nat -> run_node T f sc nd = r.

Lemma runs_of_eq f sc ns r : run_nodes T f sc ns = r -> r <> TNoFuel -> RunsTo sc ns r.
Proof. intros E N. split; [exact N|]. exists f. intros g Hg. exact (run_nodes_fuel_mono f g sc ns r Hg E N). Qed.

Lemma runsN_of_eq f sc n r : run_node T f sc n = r -> r <> TNoFuel -> RunsToN sc n r.
Proof. intros E N. split; [exact N|]. exists f. intros g Hg. exact (run_node_fuel_mono f g sc n r Hg E N). Qed.

Lemma runs_fun sc ns r1 r2 : RunsTo sc ns r1 -> RunsTo sc ns r2 -> r1 = r2.
Proof.
  intros [_ [n1 H1]] [_ [n2 H2]]. rewrite <- (H1 (Nat.max n1 n2) ltac:(lia)), <- (H2 (Nat.max n1 n2) ltac:(lia)). reflexivity.
Qed.

Lemma runs_nil sc : RunsTo sc [] (TOk [] SigNormal sc).
Proof. split; [discriminate|]. exists 1%nat. intros f Hf. destruct f; [lia|]. reflexivity. Qed.

Lemma glue_nil r : glue [] r = r.
Proof. destruct r; reflexivity. Qed.

Lemma glue_glue a b r : glue a (glue b r) = glue (a ++ b) r.
Proof. destruct r; cbn [glue]; try reflexivity. rewrite app_assoc. reflexivity. Qed.

Lemma glue_nofuel o r : glue o r <> TNoFuel -> r <> TNoFuel.
Proof. destruct r; cbn [glue]; congruence. Qed.

(* ---------- one node, then the rest *)
Lemma cons_fwd sc n ns r : RunsTo sc (n :: ns) r ->
  exists rn, RunsToN sc n rn /\
    match rn with
    | TOk o SigNormal sc1 => exists r2, RunsTo sc1 ns r2 /\ r = glue o r2
    | x => r = x
    end.
Proof.
  intros [Hr [m Hm]]. pose proof (Hm (S m) ltac:(lia)) as E. rewrite run_nodes_cons in E.
  exists (run_node T m sc n).
  destruct (run_node T m sc n) as [o s sc1| | |] eqn:En.
  - split; [apply (runsN_of_eq m); [exact En|discriminate]|].
    destruct s; try (symmetry; exact E).
    exists (run_nodes T m sc1 ns). split; [|symmetry; exact E].
    apply (runs_of_eq m); [reflexivity|]. intro X. rewrite X in E. congruence.
  - split; [apply (runsN_of_eq m); [exact En|discriminate]|symmetry; exact E].
  - congruence.
  - split; [apply (runsN_of_eq m); [exact En|discriminate]|symmetry; exact E].
Qed.

Lemma cons_bwd_go sc n ns o sc1 r2 :
  RunsToN sc n (TOk o SigNormal sc1) -> RunsTo sc1 ns r2 -> RunsTo sc (n :: ns) (glue o r2).
Proof.
  intros [_ [n1 H1]] [N2 [n2 H2]]. split.
  - destruct r2; cbn [glue]; congruence.
  - exists (S (Nat.max n1 n2)). intros f Hf. destruct f as [|f]; [lia|]. rewrite run_nodes_cons.
    rewrite (H1 f ltac:(lia)), (H2 f ltac:(lia)). reflexivity.
Qed.

Lemma cons_bwd_stop sc n ns rn :
  RunsToN sc n rn -> match rn with TOk _ SigNormal _ => False | _ => True end -> RunsTo sc (n :: ns) rn.
Proof.
  intros [N1 [n1 H1]] Hs. split; [exact N1|].
  exists (S n1). intros f Hf. destruct f as [|f]; [lia|]. rewrite run_nodes_cons, (H1 f ltac:(lia)).
  destruct rn as [o s sc1| | |]; try reflexivity. destruct s; try reflexivity. contradiction.
Qed.

(* ---------- one list, then another *)
Lemma app_fwd : forall l1 l2 sc r, RunsTo sc (l1 ++ l2) r ->
  exists r1, RunsTo sc l1 r1 /\
    match r1 with
    | TOk o SigNormal sc1 => exists r2, RunsTo sc1 l2 r2 /\ r = glue o r2
    | x => r = x
    end.
Proof.
  induction l1 as [|n l1 IH]; intros l2 sc r H.
  - exists (TOk [] SigNormal sc). split; [apply runs_nil|]. exists r. split; [exact H|]. rewrite glue_nil. reflexivity.
  - cbn [app] in H. destruct (cons_fwd sc n (l1 ++ l2) r H) as (rn & Hn & Hc).
    destruct rn as [o s sc1| | |].
    + destruct s.
      * destruct Hc as (r' & Hr' & ->). destruct (IH l2 sc1 r' Hr') as (r1 & H1 & Hc1).
        exists (glue o r1). split; [apply (cons_bwd_go sc n l1 o sc1 r1 Hn H1)|].
        destruct r1 as [o1 s1 sc2| | |]; cbn [glue]; try (rewrite Hc1; reflexivity).
        destruct s1; try (rewrite Hc1; reflexivity).
        destruct Hc1 as (r2 & H2 & ->). exists r2. split; [exact H2|]. apply glue_glue.
      * exists (TOk o SigBreak sc1). split; [apply (cons_bwd_stop sc n l1 _ Hn I)|exact Hc].
      * exists (TOk o SigContinue sc1). split; [apply (cons_bwd_stop sc n l1 _ Hn I)|exact Hc].
    + exists TFail. split; [apply (cons_bwd_stop sc n l1 _ Hn I)|exact Hc].
    + destruct Hn as [X _]. congruence.
    + exists TUnprintable. split; [apply (cons_bwd_stop sc n l1 _ Hn I)|exact Hc].
Qed.

Lemma app_bwd_go : forall l1 l2 sc o sc1 r2,
  RunsTo sc l1 (TOk o SigNormal sc1) -> RunsTo sc1 l2 r2 -> RunsTo sc (l1 ++ l2) (glue o r2).
Proof.
  induction l1 as [|n l1 IH]; intros l2 sc o sc1 r2 H1 H2.
  - pose proof (runs_fun _ _ _ _ H1 (runs_nil sc)) as E. injection E as -> ->. rewrite glue_nil. exact H2.
  - destruct (cons_fwd sc n l1 _ H1) as (rn & Hn & Hc). cbn [app].
    destruct rn as [o' s sc'| | |]; try discriminate Hc.
    destruct s; try discriminate Hc.
    destruct Hc as (r' & Hr' & E). destruct r' as [o2 s2 sc2| | |]; cbn [glue] in E; try discriminate E.
    injection E as E1 E2 E3. subst o s2 sc2.
    pose proof (IH l2 sc' o2 sc1 r2 Hr' H2) as H3.
    rewrite <- glue_glue. apply (cons_bwd_go sc n (l1 ++ l2) o' sc' _ Hn H3).
Qed.

Lemma app_bwd_stop : forall l1 l2 sc r1,
  RunsTo sc l1 r1 -> match r1 with TOk _ SigNormal _ => False | _ => True end -> RunsTo sc (l1 ++ l2) r1.
Proof.
  induction l1 as [|n l1 IH]; intros l2 sc r1 H1 Hs.
  - pose proof (runs_fun _ _ _ _ H1 (runs_nil sc)) as ->. contradiction.
  - destruct (cons_fwd sc n l1 _ H1) as (rn & Hn & Hc). cbn [app].
    destruct rn as [o' s sc'| | |].
    + destruct s.
      * destruct Hc as (r' & Hr' & ->).
        assert (Hs' : match r' with TOk _ SigNormal _ => False | _ => True end).
        { destruct r' as [o2 s2 sc2| | |]; cbn [glue] in Hs; try exact I. destruct s2; try exact I. exact Hs. }
        apply (cons_bwd_go sc n (l1 ++ l2) o' sc' r' Hn). apply IH; assumption.
      * subst r1. apply (cons_bwd_stop sc n _ _ Hn I).
      * subst r1. apply (cons_bwd_stop sc n _ _ Hn I).
    + subst r1. apply (cons_bwd_stop sc n _ _ Hn I).
    + destruct Hn as [X _]. congruence.
    + subst r1. apply (cons_bwd_stop sc n _ _ Hn I).
Qed.

(* ---------- a filled reserve *)
Definition wrap (rb : tres) : tres :=
  match rb with TOk o _ sc1 => TOk o SigNormal sc1 | TFail => TFail | TNoFuel => TNoFuel | TUnprintable => TUnprintable end.

Lemma reserve_fwd sc n rid b a r : RunsToN sc (NReserve n rid (Some b) a) r -> exists rb, RunsTo sc b rb /\ r = wrap rb.
Proof.
  intros [Hr [m Hm]]. pose proof (Hm (S m) ltac:(lia)) as E. rewrite rn_reserve_block in E.
  exists (run_nodes T m sc b). split; [|symmetry; exact E].
  apply (runs_of_eq m); [reflexivity|]. intro X. rewrite X in E. congruence.
Qed.

(* a block insert: the reserve is its content, spliced in *)
Theorem filled_reserve_is_its_content sc pre n rid b a post r :
  (forall sc' rb, RunsTo sc' b rb -> match rb with TOk _ s _ => s = SigNormal | _ => True end) ->
  RunsTo sc (pre ++ NReserve n rid (Some b) a :: post) r -> RunsTo sc (pre ++ b ++ post) r.
Proof.
  intros Hq H. destruct (app_fwd pre _ sc r H) as (r1 & H1 & Hc).
  destruct r1 as [o1 s1 sc1| | |]; try (subst r; apply app_bwd_stop; [exact H1|exact I]).
  destruct s1; try (subst r; apply app_bwd_stop; [exact H1|exact I]).
  destruct Hc as (r2 & H2 & ->). apply (app_bwd_go pre (b ++ post) sc o1 sc1 r2 H1).
  destruct (cons_fwd sc1 _ post r2 H2) as (rn & Hn & Hc2).
  destruct (reserve_fwd sc1 n rid b a rn Hn) as (rb & Hb & ->).
  pose proof (Hq sc1 rb Hb) as Hs.
  destruct rb as [o s sc2| | |]; cbn [wrap] in Hc2.
  - subst s. destruct Hc2 as (r3 & H3 & ->). apply (app_bwd_go b post sc1 o sc2 r3 Hb H3).
  - subst r2. apply app_bwd_stop; [exact Hb|exact I].
  - destruct Hb as [X _]. congruence.
  - subst r2. apply app_bwd_stop; [exact Hb|exact I].
Qed.

(* the expression form is the print statement; an unfilled reserve is nothing *)
Lemma same_node_same_list n1 n2 : (forall f sc, run_node T f sc n1 = run_node T f sc n2) ->
  forall pre post f sc, run_nodes T f sc (pre ++ n1 :: post) = run_nodes T f sc (pre ++ n2 :: post).
Proof.
  intros Hn. induction pre as [|x pre IH]; intros post f sc; destruct f as [|f]; try reflexivity; cbn [app].
  - rewrite !run_nodes_cons, Hn. reflexivity.
  - rewrite !run_nodes_cons. destruct (run_node T f sc x) as [o s sc1| | |]; try reflexivity.
    destruct s; try reflexivity. rewrite IH. reflexivity.
Qed.

Theorem expression_reserve_is_a_print sc pre n rid e post f :
  run_nodes T f sc (pre ++ NReserve n rid None (Some e) :: post) = run_nodes T f sc (pre ++ NPrint e :: post).
Proof.
  apply same_node_same_list. intros g sc'. destruct g; [reflexivity|]. rewrite rn_reserve_expr, rn_print. reflexivity.
Qed.

Theorem unfilled_reserve_is_nothing sc pre n rid post r :
  RunsTo sc (pre ++ NReserve n rid None None :: post) r -> RunsTo sc (pre ++ post) r.
Proof.
  intro H. destruct (app_fwd pre _ sc r H) as (r1 & H1 & Hc).
  destruct r1 as [o1 s1 sc1| | |]; try (subst r; apply app_bwd_stop; [exact H1|exact I]).
  destruct s1; try (subst r; apply app_bwd_stop; [exact H1|exact I]).
  destruct Hc as (r2 & H2 & ->). apply (app_bwd_go pre post sc o1 sc1 r2 H1).
  destruct (cons_fwd sc1 _ post r2 H2) as (rn & [_ [m Hm]] & Hc2).
  pose proof (Hm (S m) ltac:(lia)) as E. rewrite rn_reserve_empty in E. subst rn.
  destruct Hc2 as (r3 & H3 & ->). rewrite glue_nil. exact H3.
Qed.

(* ---------- inserts that cannot end in a loose signal *)
Definition quiet_node (n : tnode) : Prop :=
  forall f sc o s sc', run_node T f sc n = TOk o s sc' -> s = SigNormal.

Lemma quiet_list b : Forall quiet_node b ->
  forall sc' rb, RunsTo sc' b rb -> match rb with TOk _ s _ => s = SigNormal | _ => True end.
Proof.
  induction b as [|n b IH]; intros Hq sc' rb H.
  - pose proof (runs_fun _ _ _ _ H (runs_nil sc')) as ->. reflexivity.
  - inversion Hq as [|? ? Hn Hb]; subst. destruct (cons_fwd sc' n b rb H) as (rn & [_ [m Hm]] & Hc).
    destruct rn as [o s sc1| | |]; try (subst rb; exact I).
    pose proof (Hn m sc' o s sc1 (Hm m (le_n _))) as ->.
    destruct Hc as (r2 & H2 & ->). pose proof (IH Hb sc1 r2 H2) as Hs.
    destruct r2; cbn [glue]; exact Hs.
Qed.

(* text, prints, assignments, loops without @else, nested reserves, slots and component uses are quiet *)
Lemma quiet_text s : quiet_node (NText s).
Proof. intros f sc o sg sc' H. destruct f; [discriminate|]. rewrite rn_text in H. congruence. Qed.

Lemma quiet_print e : quiet_node (NPrint e).
Proof.
  intros f sc o sg sc' H. destruct f; [discriminate|]. rewrite rn_print in H.
  destruct (ev T sc e); try discriminate. destruct (value_string v); try discriminate. congruence.
Qed.

Lemma quiet_assign x e : quiet_node (NAssign x e).
Proof.
  intros f sc o sg sc' H. destruct f; [discriminate|]. rewrite rn_assign in H.
  destruct (ev T sc e); try discriminate. destruct (assign sc x v); try discriminate. congruence.
Qed.

Lemma quiet_each v arr body : quiet_node (NEach v arr body None).
Proof.
  intros f sc o sg sc' H. destruct f; [discriminate|]. rewrite rn_each in H.
  destruct (ev T sc arr) as [av| |]; try discriminate. destruct av; try discriminate.
  destruct l; destruct (each_passes T f v body _ 0 _ ([] :: sc)); try discriminate; congruence.
Qed.

Lemma quiet_reserve n rid blk arg : quiet_node (NReserve n rid blk arg).
Proof.
  intros f sc o sg sc' H. destruct f; [discriminate|]. destruct blk as [b|].
  - rewrite rn_reserve_block in H. destruct (run_nodes T f sc b); try discriminate. congruence.
  - destruct arg as [e|]; [rewrite rn_reserve_expr in H|rewrite rn_reserve_empty in H; congruence].
    destruct (ev T sc e); try discriminate. destruct (value_string v); try discriminate. congruence.
Qed.

(* the same at any fixed budget, and through @if *)
Lemma quiet_nodes_run : forall b, Forall quiet_node b ->
  forall f sc o s sc', run_nodes T f sc b = TOk o s sc' -> s = SigNormal.
Proof.
  induction b as [|n b IH]; intros Hq f sc o s sc' H; destruct f as [|f]; try discriminate H.
  - rewrite run_nodes_nil in H. congruence.
  - inversion Hq as [|? ? Hn Hb]; subst. rewrite run_nodes_cons in H.
    destruct (run_node T f sc n) as [o1 s1 sc1| | |] eqn:En; try discriminate H.
    pose proof (Hn f sc o1 s1 sc1 En) as ->.
    destruct (run_nodes T f sc1 b) as [o2 s2 sc2| | |] eqn:Eb; try discriminate H.
    injection H as _ <- _. exact (IH Hb f sc1 o2 s2 sc2 Eb).
Qed.

Lemma quiet_block b : Forall quiet_node b -> forall f sc o s sc', run_block T f sc b = TOk o s sc' -> s = SigNormal.
Proof.
  intros Hq f sc o s sc' H. destruct f as [|f]; [discriminate H|]. rewrite run_block_S in H.
  destruct (run_nodes T f ([] :: sc) b) as [o1 s1 sc1| | |] eqn:E; try discriminate H.
  injection H as _ <- _. exact (quiet_nodes_run b Hq f _ _ _ _ E).
Qed.

Lemma quiet_if c thn elifs els :
  Forall quiet_node thn -> Forall (fun cb : sexpr * list tnode => Forall quiet_node (snd cb)) elifs ->
  match els with Some b => Forall quiet_node b | None => True end ->
  quiet_node (NIf c thn elifs els).
Proof.
  intros Ht He Hl f sc o s sc' H. destruct f as [|f]; [discriminate H|]. rewrite rn_if in H.
  destruct (ev T sc c) as [v| |]; try discriminate H.
  destruct (truthy_spec v); [exact (quiet_block thn Ht f sc o s sc' H)|].
  induction elifs as [|[c' b] elifs IH]; cbn [branches] in H.
  - destruct els as [b|]; [exact (quiet_block b Hl f sc o s sc' H)|congruence].
  - inversion He as [|? ? Hb He']; subst. cbn [snd] in Hb.
    destruct (ev T sc c') as [v'| |]; try discriminate H.
    destruct (truthy_spec v'); [exact (quiet_block b Hb f sc o s sc' H)|exact (IH He' H)].
Qed.
