(* C02 / C03 / C04, both halves together: from the token stream of a template to its output.
   [Dens ss ns] says that the concrete statement trees ss (tokens on the first line) spell the
   specification template ns.  Then the program the parser builds from the tokens of ss is the
   program TemplateRefine.v is about, so the evaluator model renders it as the big-step
   specification semantics prescribes. *)
From Coq Require Import String Lia.
From TW Require Import Bytes Floats Values GenToken GenParser Lexer Ast Parser Builtins Eval Expr Template.
From TW Require Import ExprSem CleanValues TemplateRefine Pratt ExprPipeline StmtParse.
Open Scope N_scope.

(* the clauses of a @for header *)
Definition den_init (i : option (token * token * cst)) (n : option (bytes * sexpr)) : Prop :=
  match i, n with
  | Some (id, eq, c), Some (x, e) => tel id = 0%nat /\ tlit id = x /\ den c e
  | None, None => True
  | _, _ => False
  end.
Definition den_cond (c : option cst) (n : option sexpr) : Prop :=
  match c, n with Some c, Some e => den c e | None, None => True | _, _ => False end.
Definition den_post (p : option fpc) (n : option fpost) : Prop :=
  match p, n with
  | Some (FPE c), Some (PostInc x) => den c (XInc (XVar x))
  | Some (FPE c), Some (PostDec x) => den c (XDec (XVar x))
  | Some (FPA id eq c), Some (PostAssign x e) => tel id = 0%nat /\ tlit id = x /\ den c e
  | None, None => True
  | _, _ => False
  end.

Inductive Den : sst -> tnode -> Prop :=
| DText t : tel t = 0%nat -> Den (TText t) (NText (tlit t))
| DCode lb rb c e : den c e -> Den (TCode lb rb c) (NPrint e)
| DAssign lb id eq c e : tel id = 0%nat -> den c e -> Den (TAssign lb id eq c) (NAssign (tlit id) e)
| DIf kw lp rp endt c body elifs els ec thn eelifs eels :
    tel kw = 0%nat -> den c ec -> Dens body thn -> DenElifs elifs eelifs -> DenElse els eels ->
    Den (TIf kw lp rp endt c body elifs els) (NIf ec thn eelifs eels)
| DEach kw lp var inn rp endt c body els earr ebody eels :
    tel kw = 0%nat -> den c earr -> Dens body ebody -> DenElse els eels ->
    Den (TEach kw lp var inn rp endt c body els) (NEach (tlit var) earr ebody eels)
| DFor kw lp s1 s2 rp endt init cond post body els ninit ncond npost ebody eels :
    tel kw = 0%nat -> den_init init ninit -> den_cond cond ncond -> den_post post npost ->
    Dens body ebody -> DenElse els eels ->
    Den (TFor kw lp s1 s2 rp endt init cond post body els) (NFor ninit ncond npost ebody eels)
| DBreak t : Den (TBreak t) NBreak
| DContinue t : Den (TContinue t) NContinue
| DBreakIf kw lp rp c e : tel kw = 0%nat -> den c e -> Den (TBreakIf kw lp rp c) (NBreakIf e)
| DContinueIf kw lp rp c e : tel kw = 0%nat -> den c e -> Den (TContinueIf kw lp rp c) (NContinueIf e)
with Dens : list sst -> list tnode -> Prop :=
| DsNil : Dens [] []
| DsClose rb l ns : Dens l ns -> Dens (TClose rb :: l) ns          (* a lone }} is no statement *)
| DsCons s n l ns : Den s n -> Dens l ns -> Dens (s :: l) (n :: ns)
with DenElifs : list (token * token * token * cst * list sst) -> list (sexpr * list tnode) -> Prop :=
| DeNil : DenElifs [] []
| DeCons ke elp erp ec eb l e b el : den ec e -> Dens eb b -> DenElifs l el ->
    DenElifs ((ke, elp, erp, ec, eb) :: l) ((e, b) :: el)
with DenElse : option (token * list sst) -> option (list tnode) -> Prop :=
| DlNone : DenElse None None
| DlSome te eb b : Dens eb b -> DenElse (Some (te, eb)) (Some b).

(* the same constructors with the literals as equations, convenient for concrete templates *)
Lemma DText' t x : tel t = 0%nat -> tlit t = x -> Den (TText t) (NText x).
Proof. intros L <-. exact (DText t L). Qed.
Lemma DAssign' lb id eq c e x : tel id = 0%nat -> tlit id = x -> den c e -> Den (TAssign lb id eq c) (NAssign x e).
Proof. intros L <- D. exact (DAssign lb id eq c e L D). Qed.
Lemma DEach' kw lp var inn rp endt c body els v earr ebody eels :
  tel kw = 0%nat -> tlit var = v -> den c earr -> Dens body ebody -> DenElse els eels ->
  Den (TEach kw lp var inn rp endt c body els) (NEach v earr ebody eels).
Proof. intros L <- D B E. exact (DEach kw lp var inn rp endt c body els earr ebody eels L D B E). Qed.

Scheme Den_mind := Minimality for Den Sort Prop
  with Dens_mind := Minimality for Dens Sort Prop
  with DenElifs_mind := Minimality for DenElifs Sort Prop
  with DenElse_mind := Minimality for DenElse Sort Prop.
Combined Scheme Den_all_ind from Den_mind, Dens_mind, DenElifs_mind, DenElse_mind.

Lemma Den_not_null s n : Den s n -> stmt_is_null (ast_s s) = false.
Proof. intro D. destruct D; reflexivity. Qed.

(* the parser's statement tree for ss is the tree the evaluator theorem is about *)
Lemma den_trees :
  (forall s n, Den s n -> ast_s s = cnode n) /\
  (forall ss ns, Dens ss ns -> asts ss = map cnode ns) /\
  (forall l el, DenElifs l el -> map ast_elif l = map (fun cb : sexpr * list tnode => (compile (fst cb), map cnode (snd cb))) el) /\
  (forall o eo, DenElse o eo ->
     match o with Some (te, eb) => Some (asts eb) | None => None end =
     match eo with Some b => Some (map cnode b) | None => None end).
Proof.
  apply Den_all_ind.
  - intros t L. cbn [ast_s cnode]. unfold eline. rewrite L. reflexivity.
  - intros lb rb c e D. cbn [ast_s cnode]. rewrite (den_ast c e D). reflexivity.
  - intros lb id eq c e L D. cbn [ast_s cnode]. unfold eline. rewrite L, (den_ast c e D). reflexivity.
  - intros kw lp rp endt c body elifs els ec thn eelifs eels L D _ Hb _ He _ Hl.
    cbn [ast_s cnode]. unfold eline. rewrite L, (den_ast c ec D).
    fold (asts body). rewrite Hb.
    change (map (fun e => match e with (ke, elp, erp, ec0, eb) => (ast ec0, filter (fun x => negb (stmt_is_null x)) (map ast_s eb)) end) elifs)
      with (map ast_elif elifs).
    rewrite He.
    change (match els with Some (te, eb) => Some (filter (fun x => negb (stmt_is_null x)) (map ast_s eb)) | None => None end)
      with (match els with Some (te, eb) => Some (asts eb) | None => None end).
    rewrite Hl. reflexivity.
  - intros kw lp var inn rp endt c body els earr ebody eels L D _ Hb _ Hl.
    cbn [ast_s cnode]. unfold eline. rewrite L, (den_ast c earr D). fold (asts body). rewrite Hb.
    change (match els with Some (te, eb) => Some (filter (fun x => negb (stmt_is_null x)) (map ast_s eb)) | None => None end)
      with (match els with Some (te, eb) => Some (asts eb) | None => None end).
    rewrite Hl. reflexivity.
  - intros kw lp s1 s2 rp endt init cond post body els ninit ncond npost ebody eels L Di Dc Dp _ Hb _ Hl.
    cbn [ast_s cnode]. unfold eline. rewrite L. fold (asts body). rewrite Hb.
    change (match els with Some (te, eb) => Some (filter (fun x => negb (stmt_is_null x)) (map ast_s eb)) | None => None end)
      with (match els with Some (te, eb) => Some (asts eb) | None => None end).
    rewrite Hl.
    assert (Ei : ast_init init = match ninit with Some (x, e) => SAssign 1 x (compile e) | None => SNull end).
    { destruct init as [[[id eq] c]|], ninit as [[x e]|]; try contradiction; [|reflexivity].
      destruct Di as (Li & <- & D). cbn [ast_init]. unfold eline. rewrite Li, (den_ast c e D). reflexivity. }
    assert (Ec : ast_cond cond = match ncond with Some c => compile c | None => ENull end).
    { destruct cond as [c|], ncond as [e|]; try contradiction; [|reflexivity]. cbn [ast_cond]. rewrite (den_ast c e Dc). reflexivity. }
    assert (Ep : ast_post post = match npost with Some p => cpost p | None => SNull end).
    { destruct post as [[c|id eq c]|], npost as [[x|x|x e]|]; try contradiction; cbn [ast_post cpost den_post] in *.
      - rewrite (den_ast c _ Dp). reflexivity.
      - rewrite (den_ast c _ Dp). reflexivity.
      - destruct Dp as (Li & <- & D). unfold eline. rewrite Li, (den_ast c e D). reflexivity.
      - reflexivity. }
    rewrite Ei, Ec, Ep. reflexivity.
  - reflexivity.
  - reflexivity.
  - intros kw lp rp c e L D. cbn [ast_s cnode]. unfold eline. rewrite L, (den_ast c e D). reflexivity.
  - intros kw lp rp c e L D. cbn [ast_s cnode]. unfold eline. rewrite L, (den_ast c e D). reflexivity.
  - reflexivity.
  - intros rb l ns _ H. rewrite asts_cons. cbn [ast_s stmt_is_null app]. exact H.
  - intros s n l ns D Hs _ Hl. rewrite asts_cons. rewrite (Den_not_null s n D). cbn [app map]. rewrite Hs, Hl. reflexivity.
  - reflexivity.
  - intros ke elp erp ec eb l e b el D _ Hb _ Hl. cbn [map ast_elif fst snd]. rewrite (den_ast ec e D), Hb, Hl. reflexivity.
  - reflexivity.
  - intros te eb b _ H. rewrite H. reflexivity.
Qed.

(* tokens -> program -> output *)
Theorem template_tokens_render ss ns eof fs (data : list (bytes * value)) :
  wf_ss ss -> Dens ss ns -> ttype eof = T_EOF ->
  forallb (fun kv : bytes * value => clean (snd kv)) data = true -> nodes_ok ns ->
  parse_tokens (flats ss ++ [eof]) = ParsedOk (mkProgram (map cnode ns) None [] [] []) /\
  exists K, forall fm, (K <= fm)%nat ->
    match run_nodes T fs [data] ns with
    | TOk out SigNormal _ => exists en', eval_program cx0 fm [data] (map cnode ns) [] = Ok (out, en')
    | TOk _ _ _ => True
    | TFail => exists ln msg, eval_program cx0 fm [data] (map cnode ns) [] = Fail ln msg
    | TNoFuel | TUnprintable => True
    end.
Proof.
  intros W D He Hd Hok. split.
  - rewrite <- (proj1 (proj2 den_trees) ss ns D). apply template_parses_to_its_tree; assumption.
  - exact (template_refines_specification fs data ns Hd Hok).
Qed.

(* ---- from the source BYTES: LexRound.v reads the lexer backwards, so a source that spells a list
   of checked items lexes to exactly their tokens; if those are the tokens of ss, the parser builds
   the program of ns and EvaluateString's model renders it as the specification prescribes. *)
From TW Require Import Render LexRound.

Lemma place_last input n : forall its p, exists pre e, place_t input p its n = pre ++ [e] /\ ttype e = T_EOF.
Proof.
  induction its as [|it its IH]; intro p; cbn [place_t].
  - eexists [], _. split; reflexivity.
  - destruct (IH (p + List.length (igap it) + List.length (isrc it))%nat) as (pre & e & E & Te). rewrite E.
    eexists (_ :: pre), e. split; [reflexivity|exact Te].
Qed.

Theorem source_renders its ss ns eof fs gd (data : list (bytes * value)) :
  source_ok its = true -> place (spell its) 0 its = flats ss ++ [eof] -> wf_ss ss -> Dens ss ns ->
  env_from_map gd = EnvOk [data] ->
  forallb (fun kv : bytes * value => clean (snd kv)) data = true -> nodes_ok ns ->
  lex_all (spell its) = Some (flats ss ++ [eof]) /\
  parse_source (spell its) = ParsedOk (mkProgram (map cnode ns) None [] [] []) /\
  exists K, (K <= eval_fuel)%nat ->
    match run_nodes T fs [data] ns with
    | TOk out SigNormal _ => evaluate_string cx0 (spell its) gd = RenderOk out
    | TOk _ _ _ => True
    | TFail => exists ln msg, evaluate_string cx0 (spell its) gd = RenderErr ln msg
    | TNoFuel | TUnprintable => True
    end.
Proof.
  intros Hs Hp W D He Hc Hok.
  assert (Te : ttype eof = T_EOF).
  { destruct (place_last (spell its) 0 its 0) as (pre & e & E & Te). fold (place (spell its) 0 its) in E. rewrite Hp in E. apply app_inj_tail in E as [_ ->]. exact Te. }
  pose proof (lex_spell its Hs) as L. rewrite Hp in L.
  destruct (template_tokens_render ss ns eof fs data W D Te Hc Hok) as (P & K & HK).
  split; [exact L|].
  assert (PS : parse_source (spell its) = ParsedOk (mkProgram (map cnode ns) None [] [] [])).
  { unfold parse_source. rewrite L. exact P. }
  split; [exact PS|].
  exists K. intro Hle. specialize (HK eval_fuel Hle).
  unfold evaluate_string. rewrite PS. unfold render_program. rewrite He. cbn [p_stmts].
  destruct (run_nodes T fs [data] ns) as [out sg sc| | |]; try exact I.
  - destruct sg; try exact I. destruct HK as (en' & ->). reflexivity.
  - destruct HK as (ln & msg & ->). exists ln, msg. reflexivity.
Qed.
