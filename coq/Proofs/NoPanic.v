(* C09: the evaluator model never reaches one of its Panic outcomes on a well-formed program.
   Every place where the Go code would panic (nil Expression / Statement, unchecked type
   assertion on the key of a dot expression, on the argument of @component) is an explicit
   Panic branch of Model/Eval.v; well-formedness is what the parser guarantees and is a
   boolean predicate that the check evaluates on every parsed program it runs. *)
From Coq Require Import String.
From TW Require Import Bytes Values Ast Builtins Eval Wf.
Open Scope N_scope.

(* ---- outcomes that are not Panic compose *)
Lemma np_bind A B (r : outcome A) (k : A -> outcome B) :
  r <> Panic -> (forall a, r = Ok a -> k a <> Panic) ->
  (let! x := r in k x) <> Panic.
Proof. intros Hr Hk. destruct r; try discriminate; auto. Qed.

Lemma forallb_ainsert {A} (f : bytes * A -> bool) kv m :
  forallb f (ainsert kv m) = f kv && forallb f m.
Proof.
  induction m as [|kv' m IH]; cbn [ainsert forallb].
  - reflexivity.
  - destruct (bytes_leb (fst kv) (fst kv')); cbn [forallb].
    + reflexivity.
    + rewrite IH. destruct (f kv), (f kv'); reflexivity.
Qed.

Lemma forallb_asort {A} (f : bytes * A -> bool) m : forallb f (asort m) = forallb f m.
Proof.
  unfold asort. induction m as [|kv m IH]; cbn [fold_right forallb].
  - reflexivity.
  - rewrite forallb_ainsert, IH. reflexivity.
Qed.

Lemma infix_np ln op l r : eval_infix_op ln op l r <> Panic.
Proof.
  unfold eval_infix_op. destruct (negb (same_type l r)); [discriminate|].
  destruct l; try discriminate; destruct r; try discriminate.
  - unfold eval_int_infix.
    repeat match goal with |- (if ?c then _ else _) <> _ => destruct c; try discriminate end.
  - unfold eval_float_infix.
    repeat match goal with |- (if ?c then _ else _) <> _ => destruct c; try discriminate end.
  - unfold eval_str_infix.
    repeat match goal with |- (if ?c then _ else _) <> _ => destruct c; try discriminate end.
Qed.

Lemma prefix_np ln op r : eval_prefix_op ln op r <> Panic.
Proof.
  unfold eval_prefix_op.
  destruct (bytes_eqb op (bs "-")); [destruct r; discriminate|].
  destruct (bytes_eqb op (bs "!")); [destruct r; discriminate|discriminate].
Qed.

Lemma postfix_np ln op l : eval_postfix_op ln op l <> Panic.
Proof.
  unfold eval_postfix_op, float_dec.
  destruct (bytes_eqb op (bs "++")); [destruct l; discriminate|].
  destruct (bytes_eqb op (bs "--")); [|discriminate].
  destruct l; try discriminate. destruct (f_format f); discriminate.
Qed.

Lemma obj_index_np ln m k : obj_index ln m k <> Panic.
Proof.
  unfold obj_index. destruct (alookup k m); [discriminate|].
  destruct k; [discriminate|]. destruct (alookup _ m); discriminate.
Qed.

Lemma wf_expr_line e : wf_expr e = true -> exists ln, expr_line e = Some ln.
Proof. destruct e; cbn; intro H; try discriminate; eexists; reflexivity. Qed.

Ltac split_wf H :=
  repeat match type of H with
         | (_ && _) = true => let H1 := fresh H in apply andb_true_iff in H; destruct H as [H H1]
         end.

(* ---- expressions *)
Lemma expr_np cx fuel :
  (forall en e, wf_expr e = true -> eval_expr cx fuel en e <> Panic) /\
  (forall en es, forallb wf_expr es = true -> eval_exprs cx fuel en es <> Panic) /\
  (forall en ps, forallb (fun p => wf_expr (snd p)) ps = true -> eval_pairs cx fuel en ps <> Panic).
Proof.
  induction fuel as [|f (IHe & IHes & IHps)]; [repeat split; intros; discriminate|].
  repeat split.
  - intros en e Hwf. destruct e; cbn [eval_expr]; cbn [wf_expr] in Hwf; try discriminate.
    + destruct (env_get en name); discriminate.
    + destruct (f_of_lit lit); discriminate.
    + apply np_bind; [apply IHes, Hwf|]. discriminate.
    + apply np_bind; [apply IHps; rewrite forallb_asort; exact Hwf|]. discriminate.
    + apply np_bind; [apply IHe, Hwf|]. intros; apply prefix_np.
    + split_wf Hwf.
      apply np_bind; [apply IHe, Hwf|]. intros lv _.
      apply np_bind; [apply IHe, Hwf0|]. intros rv _.
      destruct (wf_expr_line _ Hwf) as (ln' & ->). apply infix_np.
    + apply np_bind; [apply IHe, Hwf|]. intros; apply postfix_np.
    + split_wf Hwf.
      apply np_bind; [apply IHe, Hwf|]. intros cv _.
      destruct (truthy cv); apply IHe; assumption.
    + split_wf Hwf.
      apply np_bind; [apply IHe, Hwf|]. intros lv _.
      apply np_bind; [apply IHe, Hwf0|]. intros iv _.
      destruct lv; try discriminate; destruct iv; try discriminate.
      * destruct ((z <? 0)%Z || _); discriminate.
      * destruct (wf_expr_line _ Hwf0) as (ln' & ->). apply obj_index_np.
    + split_wf Hwf.
      apply np_bind; [apply IHe, Hwf|]. intros lv _.
      destruct e2; try discriminate. destruct lv; try discriminate. apply obj_index_np.
    + split_wf Hwf.
      apply np_bind; [apply IHe, Hwf|]. intros rv _.
      destruct (negb (has_func_table rv)); [discriminate|].
      apply np_bind; [apply IHes, Hwf0|]. intros avs _.
      destruct (call_builtin fname rv avs) as [[v|msg|]|]; try discriminate.
      destruct (lookup_custom cx (type_name rv) fname); [|discriminate].
      destruct (call_custom f0 rv avs); discriminate.
  - intros en es Hwf. destruct es as [|e es]; cbn [eval_exprs]; [discriminate|].
    cbn [forallb] in Hwf. split_wf Hwf.
    apply np_bind; [apply IHe, Hwf|]. intros v _.
    apply np_bind; [apply IHes, Hwf0|]. discriminate.
  - intros en ps Hwf. destruct ps as [|[k e] ps]; cbn [eval_pairs]; [discriminate|].
    cbn [forallb snd] in Hwf. split_wf Hwf.
    apply np_bind; [apply IHe, Hwf|]. intros v _.
    apply np_bind; [apply IHps, Hwf0|]. discriminate.
Qed.

Lemma eval_expr_np cx fuel en e : wf_expr e = true -> eval_expr cx fuel en e <> Panic.
Proof. apply expr_np. Qed.

Lemma eval_pairs_np cx fuel en ps :
  forallb (fun p => wf_expr (snd p)) ps = true -> eval_pairs cx fuel en ps <> Panic.
Proof. apply expr_np. Qed.

Lemma dump_args_np (ev : expr -> outcome value) args :
  (forall a, In a args -> ev a <> Panic) -> dump_args ev args <> Panic.
Proof.
  induction args as [|a r IH]; intro H; cbn [dump_args]; [discriminate|].
  destruct (ev a) as [v|ln msg| | |] eqn:E; try discriminate.
  - destruct (dump_value 0 v); [|discriminate].
    apply np_bind; [apply IH; intros x Hx; apply H; right; exact Hx|discriminate].
  - exfalso. apply (H a (or_introl eq_refl)). exact E.
Qed.

Lemma bind_args_np cx f ln en ps : forall ne,
  forallb (fun p => wf_expr (snd p)) ps = true -> bind_args cx f ln en ps ne <> Panic.
Proof.
  induction ps as [|[k x] ps IH]; intros ne Hwf; cbn [bind_args]; [discriminate|].
  cbn [forallb snd] in Hwf. apply andb_true_iff in Hwf as [Hx Hps].
  apply np_bind; [apply eval_expr_np, Hx|]. intros v _.
  destruct (env_set ne k v); [apply IH, Hps|discriminate].
Qed.

(* ---- statements *)
Definition wf_clause (s : stmt) : bool := match s with SNull => true | _ => wf_stmt s end.

Lemma str_of_np v : str_of v <> Panic.
Proof. unfold str_of. destruct (value_string v); discriminate. Qed.

Lemma opt_cond_np cx f en c :
  wf_opt_expr c = true ->
  (match c with
   | ENull => Ok true
   | _ => let! cv := eval_expr cx f en c in Ok (truthy cv)
   end) <> Panic.
Proof.
  intro H. destruct c; try discriminate;
    (apply np_bind; [apply eval_expr_np; exact H|discriminate]).
Qed.

Lemma stmt_np cx fuel :
  (forall en s, wf_stmt s = true -> eval_stmt cx fuel en s <> Panic) /\
  (forall en ss acc, forallb wf_stmt ss = true -> eval_block cx fuel en ss acc <> Panic) /\
  (forall en alts alt,
      forallb (fun a => wf_expr (fst a) && forallb wf_stmt (snd a)) alts = true ->
      wf_oblock wf_stmt alt = true -> eval_alts cx fuel en alts alt <> Panic) /\
  (forall en ss out, forallb wf_stmt ss = true -> eval_program cx fuel en ss out <> Panic) /\
  (forall ln init c post body en out,
      wf_opt_expr c = true -> wf_clause post = true -> forallb wf_stmt body = true ->
      for_loop cx fuel ln init c post body en out <> Panic) /\
  (forall ln var body len i elems en out,
      forallb wf_stmt body = true -> each_loop cx fuel ln var body len i elems en out <> Panic).
Proof.
  induction fuel as [|f (IHs & IHb & IHa & IHp & IHf & IHe)]; [repeat split; intros; discriminate|].
  repeat split.
  - (* eval_stmt *)
    intros en s Hwf. destruct s; cbn [eval_stmt]; cbn [wf_stmt] in Hwf; try discriminate.
    + apply np_bind; [apply eval_expr_np, Hwf|discriminate].
    + apply np_bind; [apply eval_expr_np, Hwf|]. intros v0 _. destruct (env_set en name v0); discriminate.
    + split_wf Hwf.
      apply np_bind; [apply eval_expr_np, Hwf|]. intros cv _.
      destruct (truthy cv).
      * apply np_bind; [apply IHb, Hwf2|discriminate].
      * apply IHa; assumption.
    + split_wf Hwf.
      apply np_bind.
      { destruct s1; try discriminate; apply IHs; exact Hwf. }
      intros r0 _.
      apply np_bind; [apply opt_cond_np, Hwf3|]. intros enter _.
      destruct enter.
      * apply np_bind; [apply IHf; assumption|discriminate].
      * destruct alt as [a|].
        -- apply np_bind; [apply IHb; exact Hwf0|discriminate].
        -- apply np_bind; [apply IHf; assumption|discriminate].
    + split_wf Hwf.
      apply np_bind; [apply eval_expr_np, Hwf|]. intros av _.
      destruct av; try discriminate.
      destruct l as [|x xs].
      * destruct alt as [a|].
        -- apply np_bind; [apply IHb; exact Hwf0|discriminate].
        -- apply np_bind; [apply IHe; exact Hwf1|discriminate].
      * apply np_bind; [apply IHe; exact Hwf1|discriminate].
    + destruct layout as [[[il hu] ss]|]; [|discriminate].
      destruct (il && hu); [discriminate|].
      apply np_bind; [apply IHp, Hwf|discriminate].
    + destruct ins as [[[iln arg] [b|]]|]; try discriminate.
      * apply np_bind; [apply IHb, Hwf|discriminate].
      * destruct arg; try discriminate;
          (apply np_bind; [apply eval_expr_np, Hwf|discriminate]).
    + apply np_bind; [apply eval_expr_np, Hwf|discriminate].
    + apply np_bind; [apply eval_expr_np, Hwf|discriminate].
    + split_wf Hwf. destruct block as [ss|]; [|discriminate].
      apply np_bind.
      { destruct arg as [a|]; [|discriminate].
        destruct a; try discriminate.
        apply bind_args_np. rewrite forallb_asort. exact Hwf. }
      intros en1 _. apply np_bind; [apply IHp, Hwf0|discriminate].
    + destruct body as [b|]; [|discriminate].
      apply np_bind; [apply IHb, Hwf|discriminate].
    + apply np_bind; [|discriminate]. apply dump_args_np. intros a Ha. apply eval_expr_np.
      rewrite forallb_forall in Hwf. exact (Hwf a Ha).
  - (* eval_block *)
    intros en ss acc Hwf. destruct ss as [|s ss]; cbn [eval_block]; [discriminate|].
    cbn [forallb] in Hwf. split_wf Hwf.
    apply np_bind; [apply IHs, Hwf|]. intros r _.
    destruct (has_break (fst r) || has_continue (fst r)); [discriminate|]. apply IHb, Hwf0.
  - (* eval_alts *)
    intros en alts alt Hwf Halt. destruct alts as [|[c b] alts]; cbn [eval_alts].
    + destruct alt as [a|]; [|discriminate].
      apply np_bind; [apply IHb, Halt|discriminate].
    + cbn [forallb fst snd] in Hwf. split_wf Hwf.
      apply np_bind; [apply eval_expr_np, Hwf|]. intros cv _.
      destruct (truthy cv).
      * apply np_bind; [apply IHb, Hwf1|discriminate].
      * apply IHa; assumption.
  - (* eval_program *)
    intros en ss out Hwf. destruct ss as [|s ss]; cbn [eval_program]; [discriminate|].
    cbn [forallb] in Hwf. split_wf Hwf.
    apply np_bind; [apply IHs, Hwf|]. intros r _.
    apply np_bind; [apply str_of_np|]. intros str _. apply IHp, Hwf0.
  - (* for_loop *)
    intros ln init c post body en out Hc Hpost Hbody. cbn [for_loop].
    apply np_bind; [apply opt_cond_np, Hc|]. intros go _.
    destruct (negb go); [discriminate|].
    apply np_bind; [apply IHb, Hbody|]. intros r _.
    apply np_bind; [apply str_of_np|]. intros str _.
    destruct (has_break (fst r)); [discriminate|].
    destruct post; try (apply IHf; assumption);
      (apply np_bind; [apply IHs; exact Hpost|]; intros pr _;
       destruct init; try (apply IHf; assumption)).
    all: try (destruct (env_set (snd pr) name (fst pr)); [apply IHf; assumption|discriminate]).
  - (* each_loop *)
    intros ln var body len i elems en out Hbody. cbn [each_loop].
    destruct elems as [|x xs]; [discriminate|].
    destruct (env_set en var x); [|discriminate].
    apply np_bind; [apply IHb, Hbody|]. intros r _.
    apply np_bind; [apply str_of_np|]. intros str _.
    destruct (has_break (fst r)); [discriminate|]. apply IHe, Hbody.
Qed.

(* ---- the render never panics on a well-formed program, whatever the data *)
Theorem render_no_panic cx p data :
  wf_program p = true -> render_program cx p data <> RenderPanic.
Proof.
  intro Hwf. unfold render_program.
  destruct (env_from_map data); try discriminate.
  pose proof (proj1 (proj2 (proj2 (proj2 (stmt_np cx eval_fuel)))) e (p_stmts p) [] Hwf) as H.
  destruct (eval_program cx eval_fuel e (p_stmts p) []); try discriminate. contradiction.
Qed.

(* data binding itself has no panic outcome: it succeeds, reports an unsupported value, or
   reports a reserved / retyped name *)
Theorem data_binding_total data :
  match env_from_map data with EnvOk _ | EnvUnsupported | EnvErr _ => True end.
Proof. destruct (env_from_map data); exact I. Qed.
