(* C17: Template.Response writes the rendered page, or exactly one error page, and never a
   partially rendered template; what the body can be is decided by the configuration alone. *)
From Coq Require Import String.
From TW Require Import Bytes Values Eval Render Api GenMisc ErrorPage.
Open Scope N_scope.

Definition resp_body (r : resp_result) : option bytes :=
  match r with
  | RespOk b | RespFail b _ | RespFailOther b _ => Some b
  | _ => None
  end.

Definition resp_error (r : resp_result) : option terr :=
  match r with
  | RespFail _ e | RespFailOther _ e => Some e
  | _ => None
  end.

(* success: the body is the rendered page and no error is returned *)
Lemma response_success cx cfg tpl name data out :
  template_string cx cfg tpl name data = StrOk out ->
  template_response cx cfg tpl name data = RespOk out.
Proof. unfold template_response. intros ->. reflexivity. Qed.

(* conversely a response without an error is the rendered page *)
Lemma response_ok_is_string cx cfg tpl name data out :
  template_response cx cfg tpl name data = RespOk out ->
  template_string cx cfg tpl name data = StrOk out.
Proof.
  unfold template_response.
  destruct (template_string cx cfg tpl name data) as [o|e| | | |] eqn:Hs; try discriminate.
  - intros [= ->]. reflexivity.
  - destruct (c_errpage cfg) as [|c pg]; [|destruct (c_debug cfg)].
    + destruct (builtin_error_page cx cfg e); discriminate.
    + destruct (builtin_error_page cx cfg e); discriminate.
    + destruct (template_string cx cfg tpl (c :: pg) []); discriminate.
Qed.

(* which page a failure shows *)
Definition uses_custom_page (cfg : config) : bool :=
  match c_errpage cfg with [] => false | _ => negb (c_debug cfg) end.

(* failure with a custom page and debug off: the body is the custom page rendered with no data
   (or nothing when that page itself fails), and an error is returned *)
Lemma response_failure_custom cx cfg tpl name data e :
  template_string cx cfg tpl name data = StrErr e ->
  uses_custom_page cfg = true ->
  match template_string cx cfg tpl (c_errpage cfg) [] with
  | StrOk page => template_response cx cfg tpl name data = RespFail page e
  | StrErr e2 => template_response cx cfg tpl name data = RespFailOther [] e2
  | _ => resp_body (template_response cx cfg tpl name data) = None
  end.
Proof.
  unfold template_response, uses_custom_page. intros -> H.
  destruct (c_errpage cfg) as [|c pg]; [discriminate H|].
  destruct (c_debug cfg); [discriminate H|].
  destruct (template_string cx cfg tpl (c :: pg) []); cbv beta iota; reflexivity.
Qed.

(* failure otherwise: the body is the built-in page *)
Lemma response_failure_builtin cx cfg tpl name data e :
  template_string cx cfg tpl name data = StrErr e ->
  uses_custom_page cfg = false ->
  match builtin_error_page cx cfg e with
  | RenderOk page => template_response cx cfg tpl name data = RespFail page e
  | RenderErr ln msg => template_response cx cfg tpl name data = RespFailOther [] (mkErr ln [] msg)
  | _ => resp_body (template_response cx cfg tpl name data) = None
  end.
Proof.
  unfold template_response, uses_custom_page. intros -> H.
  destruct (c_errpage cfg) as [|c pg].
  - destruct (builtin_error_page cx cfg e); cbv beta iota; reflexivity.
  - destruct (c_debug cfg); [|discriminate H].
    destruct (builtin_error_page cx cfg e); cbv beta iota; reflexivity.
Qed.

(* no custom page, debug off: the body is ONE constant whatever failed, and the error is returned *)
Theorem response_quiet cx dir ext tpl name data e :
  let cfg := mkConfig dir ext [] false in
  template_string cx cfg tpl name data = StrErr e ->
  template_response cx cfg tpl name data = RespFail quiet_page e.
Proof.
  intros cfg H. subst cfg. unfold template_response. rewrite H. cbn [c_errpage c_debug].
  rewrite error_page_quiet. cbv beta iota. reflexivity.
Qed.

(* leak-freedom as non-interference: with debug off, two failing renders (any templates, any
   data, any errors) under one configuration produce the same body *)
Theorem response_no_leak cx cfg tpl n1 d1 e1 n2 d2 e2 :
  c_debug cfg = false ->
  template_string cx cfg tpl n1 d1 = StrErr e1 ->
  template_string cx cfg tpl n2 d2 = StrErr e2 ->
  resp_body (template_response cx cfg tpl n1 d1) = resp_body (template_response cx cfg tpl n2 d2).
Proof.
  intros Hd H1 H2. unfold template_response. rewrite H1, H2, Hd.
  destruct (c_errpage cfg) as [|c pg].
  - rewrite (error_page_no_leak cx cfg e1 e2 Hd).
    destruct (builtin_error_page cx cfg e2); cbv beta iota; reflexivity.
  - destruct (template_string cx cfg tpl (c :: pg) []); cbv beta iota; reflexivity.
Qed.

(* a failure always returns an error (never a silent success) *)
Theorem response_failure_returns_error cx cfg tpl name data e :
  template_string cx cfg tpl name data = StrErr e ->
  forall b, template_response cx cfg tpl name data <> RespOk b.
Proof.
  intros H b Hr. apply response_ok_is_string in Hr. rewrite H in Hr. discriminate.
Qed.

(* debug on: the built-in page is shown even when a custom page is configured, with the
   failure's path, line and message in it *)
Theorem response_debug_shows cx dir ext page tpl name data e :
  let cfg := mkConfig dir ext page true in
  template_string cx cfg tpl name data = StrErr e ->
  exists body, template_response cx cfg tpl name data = RespFail body e /\
    has_sub (e_path e) body /\ has_sub (Z_to_dec (wrap64 (Z.of_nat (e_line e)))) body /\
    has_sub (e_msg e) body.
Proof.
  intros cfg H. subst cfg. unfold template_response. rewrite H. cbn [c_errpage c_debug].
  destruct e as [ln p m]. cbn [e_path e_line e_msg].
  rewrite debug_page_shape.
  exists (debug_shape p (Z_to_dec (wrap64 (Z.of_nat ln))) m). split.
  - destruct page; cbv beta iota; reflexivity.
  - split; [apply shape_shows_path|split; [apply shape_shows_line|apply shape_shows_message]].
Qed.
