(* Line numbers only matter in the line of an error.  Two programs that are equal once their line
   fields are erased evaluate alike in the evaluator model: the same value / output and scope chain,
   a failure exactly when the other fails (same message; the line is the node's own), the same
   would-panic, out-of-fuel and unmodelled outcomes.  This lets the refinement theorem, stated for
   nodes on line 1, speak about templates that spread over any number of lines. *)
From Coq Require Import String Lia.
From TW Require Import Bytes Values Ast Builtins Eval.
Open Scope N_scope.

(* ---------- erasing the lines *)
Fixpoint strip_e (e : expr) : expr :=
  match e with
  | ENull => ENull
  | EIdent _ n => EIdent 0 n
  | EInt _ v => EInt 0 v
  | EFloat _ l => EFloat 0 l
  | EStr _ s => EStr 0 s
  | ENil _ => ENil 0
  | EBool _ b => EBool 0 b
  | EArr _ els => EArr 0 (map strip_e els)
  | EObj _ ps => EObj 0 (map (fun p => (fst p, strip_e (snd p))) ps)
  | EPrefix _ op r => EPrefix 0 op (strip_e r)
  | EInfix _ op l r => EInfix 0 op (strip_e l) (strip_e r)
  | EPostfix _ op l => EPostfix 0 op (strip_e l)
  | ETernary _ c a b => ETernary 0 (strip_e c) (strip_e a) (strip_e b)
  | EIndex _ l i => EIndex 0 (strip_e l) (strip_e i)
  | EDot _ l k => EDot 0 (strip_e l) (strip_e k)
  | ECall _ r f args => ECall 0 (strip_e r) f (map strip_e args)
  end.

Definition strip_pair (p : bytes * expr) : bytes * expr := (fst p, strip_e (snd p)).

Fixpoint strip_s (s : stmt) : stmt :=
  let ss := map strip_s in
  let oss := fun o : option (list stmt) => match o with Some l => Some (map strip_s l) | None => None end in
  match s with
  | SNull => SNull
  | SHtml _ l => SHtml 0 l
  | SExpr e => SExpr (strip_e e)
  | SAssign _ n v => SAssign 0 n (strip_e v)
  | SIf _ c thn alts alt => SIf 0 (strip_e c) (ss thn) (map (fun cb => (strip_e (fst cb), map strip_s (snd cb))) alts) (oss alt)
  | SFor _ init c post body alt => SFor 0 (strip_s init) (strip_e c) (strip_s post) (ss body) (oss alt)
  | SEach _ v arr body alt => SEach 0 v (strip_e arr) (ss body) (oss alt)
  | SUse _ n layout => SUse 0 n (match layout with Some (a, b, l) => Some (a, b, map strip_s l) | None => None end)
  | SReserve _ rid n ins =>
    SReserve 0 rid n (match ins with Some (_, arg, b) => Some (O, strip_e arg, oss b) | None => None end)
  | SInsert _ n arg body => SInsert 0 n (strip_e arg) (oss body)
  | SBreakIf _ c => SBreakIf 0 (strip_e c)
  | SContinueIf _ c => SContinueIf 0 (strip_e c)
  | SBreak => SBreak
  | SContinue => SContinue
  | SComponent _ cid n arg slots block =>
    SComponent 0 cid n (match arg with Some a => Some (strip_e a) | None => None end)
               [] (oss block)       (* the evaluator never reads the slots of a use: they were put into block at load time *)
  | SSlot _ n body => SSlot 0 n (oss body)
  | SDump _ args => SDump 0 (map strip_e args)
  end.

(* ---------- alike outcomes *)
Definition sim {A} (a b : outcome A) : Prop :=
  match a, b with
  | Ok x, Ok y => x = y
  | Fail _ m, Fail _ m' => m = m'
  | Panic, Panic => True
  | OutOfFuel, OutOfFuel => True
  | Unmodelled, Unmodelled => True
  | _, _ => False
  end.

Lemma sim_refl {A} (a : outcome A) : sim a a.
Proof. destruct a; cbn; auto. Qed.

Lemma sim_bind {A B} (a b : outcome A) (k k' : A -> outcome B) :
  sim a b -> (forall v, sim (k v) (k' v)) ->
  sim (let! x := a in k x) (let! x := b in k' x).
Proof. destruct a, b; cbn; intros H K; try contradiction; try exact I; [subst; apply K|exact H]. Qed.

(* the operators use the line only for the error *)
Lemma sim_infix ln ln' op l r : sim (eval_infix_op ln op l r) (eval_infix_op ln' op l r).
Proof.
  unfold eval_infix_op. destruct (negb (same_type l r)); [reflexivity|].
  destruct l, r; try reflexivity.
  - unfold eval_int_infix. cbv zeta. repeat (match goal with |- context [if ?c then _ else _] => destruct c end); cbn; auto.
  - unfold eval_float_infix. cbv zeta. repeat (match goal with |- context [if ?c then _ else _] => destruct c end); cbn; auto.
  - unfold eval_str_infix. cbv zeta. repeat (match goal with |- context [if ?c then _ else _] => destruct c end); cbn; auto.
Qed.

Lemma sim_prefix ln ln' op r : sim (eval_prefix_op ln op r) (eval_prefix_op ln' op r).
Proof. unfold eval_prefix_op. destruct (bytes_eqb op (bs "-")); [destruct r; cbn; auto|]. destruct (bytes_eqb op (bs "!")); [destruct r; cbn; auto|reflexivity]. Qed.

Lemma sim_postfix ln ln' op l : sim (eval_postfix_op ln op l) (eval_postfix_op ln' op l).
Proof.
  unfold eval_postfix_op. destruct (bytes_eqb op (bs "++")); [destruct l; cbn; auto|].
  destruct (bytes_eqb op (bs "--")); [destruct l; cbn; auto; apply sim_refl|reflexivity].
Qed.

Lemma sim_obj_index ln ln' m k : sim (obj_index ln m k) (obj_index ln' m k).
Proof.
  unfold obj_index. destruct (alookup k m); [reflexivity|]. destruct k; [reflexivity|].
  destruct (alookup _ m); reflexivity.
Qed.

Lemma expr_line_strip e e' : strip_e e = strip_e e' ->
  match expr_line e, expr_line e' with Some _, Some _ => True | None, None => True | _, _ => False end.
Proof. destruct e, e'; cbn; intro H; try discriminate H; exact I. Qed.

(* sorting by key commutes with a map that keeps the keys *)
Lemma ainsert_map {A B} (g : A -> B) kv (m : list (bytes * A)) :
  ainsert (fst kv, g (snd kv)) (map (fun p => (fst p, g (snd p))) m) = map (fun p => (fst p, g (snd p))) (ainsert kv m).
Proof.
  induction m as [|kv' m IH]; [reflexivity|]. cbn [map ainsert fst]. destruct (bytes_leb (fst kv) (fst kv')); [reflexivity|].
  cbn [map]. rewrite IH. reflexivity.
Qed.

Lemma asort_map {A B} (g : A -> B) (m : list (bytes * A)) :
  asort (map (fun p => (fst p, g (snd p))) m) = map (fun p => (fst p, g (snd p))) (asort m).
Proof.
  unfold asort. induction m as [|kv m IH]; [reflexivity|]. cbn [map fold_right]. rewrite IH. apply ainsert_map.
Qed.

Lemma asort_strip ps ps' : map strip_pair ps = map strip_pair ps' -> map strip_pair (asort ps) = map strip_pair (asort ps').
Proof. intro H. unfold strip_pair. rewrite <- !asort_map. unfold strip_pair in H. rewrite H. reflexivity. Qed.

(* ---------- expressions *)
Definition PE (f : nat) : Prop :=
  (forall cx en e e', strip_e e = strip_e e' -> sim (eval_expr cx f en e) (eval_expr cx f en e')) /\
  (forall cx en es es', map strip_e es = map strip_e es' -> sim (eval_exprs cx f en es) (eval_exprs cx f en es')) /\
  (forall cx en ps ps', map strip_pair ps = map strip_pair ps' -> sim (eval_pairs cx f en ps) (eval_pairs cx f en ps')).

Lemma exprs_alike : forall f, PE f.
Proof.
  induction f as [|f (IHe & IHs & IHp)]; [repeat split; intros; exact I|].
  split; [|split].
  - intros cx en e e' H.
    destruct e, e'; cbn [strip_e] in H; try discriminate H; cbn [eval_expr]; try exact I.
    + injection H as <-. destruct (env_get en name); cbn; auto.
    + injection H as <-. reflexivity.
    + injection H as <-. apply sim_refl.
    + injection H as <-. reflexivity.
    + reflexivity.
    + injection H as <-. reflexivity.
    + injection H as H. apply sim_bind; [apply IHs, H|intro; reflexivity].
    + injection H as H. apply sim_bind; [apply IHp, asort_strip, H|intro; reflexivity].
    + injection H as <- H. apply sim_bind; [apply IHe, H|intro; apply sim_prefix].
    + injection H as <- H1 H2. apply sim_bind; [apply IHe, H1|intro lv]. apply sim_bind; [apply IHe, H2|intro rv].
      pose proof (expr_line_strip _ _ H1) as L. destruct (expr_line e1), (expr_line e'1); try contradiction; [apply sim_infix|exact I].
    + injection H as <- H. apply sim_bind; [apply IHe, H|intro; apply sim_postfix].
    + injection H as H1 H2 H3. apply sim_bind; [apply IHe, H1|intro cv]. destruct (truthy cv); apply IHe; assumption.
    + injection H as H1 H2. apply sim_bind; [apply IHe, H1|intro lv]. apply sim_bind; [apply IHe, H2|intro iv].
      destruct lv; try reflexivity; destruct iv; try reflexivity.
      * destruct (_ || _); reflexivity.
      * pose proof (expr_line_strip _ _ H2) as L. destruct (expr_line e2), (expr_line e'2); try contradiction; [apply sim_obj_index|exact I].
    + injection H as H1 H2. apply sim_bind; [apply IHe, H1|intro lv].
      destruct e2, e'2; cbn [strip_e] in H2; try discriminate H2; try exact I.
      injection H2 as <-. destruct lv; try reflexivity. apply sim_obj_index.
    + injection H as H1 <- H2. apply sim_bind; [apply IHe, H1|intro rv].
      destruct (negb (has_func_table rv)); [reflexivity|].
      apply sim_bind; [apply IHs, H2|intro avs].
      destruct (call_builtin fname rv avs) as [[v|msg|]|]; try reflexivity.
      destruct (lookup_custom cx (type_name rv) fname); [apply sim_refl|reflexivity].
  - intros cx en es es' H. destruct es, es'; cbn [map] in H; try discriminate H; cbn [eval_exprs]; [reflexivity|].
    injection H as H1 H2. apply sim_bind; [apply IHe, H1|intro v]. apply sim_bind; [apply IHs, H2|intro; reflexivity].
  - intros cx en ps ps' H. destruct ps as [|[k e] ps], ps' as [|[k' e'] ps']; cbn [map] in H; try discriminate H; cbn [eval_pairs]; [reflexivity|].
    unfold strip_pair in H at 1 3. cbn [fst snd] in H. injection H as <- H1 H2.
    apply sim_bind; [apply IHe, H1|intro v]. apply sim_bind; [apply IHp, H2|intro; reflexivity].
Qed.

(* ---------- statements *)
Definition strip_alt (cb : expr * list stmt) : expr * list stmt := (strip_e (fst cb), map strip_s (snd cb)).
Definition strip_o (o : option (list stmt)) : option (list stmt) :=
  match o with Some l => Some (map strip_s l) | None => None end.

Lemma e_match {T} (c : expr) (A B : T) : c <> ENull -> match c with ENull => A | _ => B end = B.
Proof. destruct c; intro H; try reflexivity. congruence. Qed.
Lemma s_match {T} (s : stmt) (A B : T) : s <> SNull -> match s with SNull => A | _ => B end = B.
Proof. destruct s; intro H; try reflexivity. congruence. Qed.

Lemma strip_e_null c c' : strip_e c = strip_e c' -> (c = ENull /\ c' = ENull) \/ (c <> ENull /\ c' <> ENull).
Proof. destruct c, c'; cbn; intro H; try discriminate H; (left; split; reflexivity) || (right; split; discriminate). Qed.
Lemma strip_s_null s s' : strip_s s = strip_s s' -> (s = SNull /\ s' = SNull) \/ (s <> SNull /\ s' <> SNull).
Proof. destruct s, s'; cbn; intro H; try discriminate H; (left; split; reflexivity) || (right; split; discriminate). Qed.

Definition assign_name (s : stmt) : option bytes := match s with SAssign _ n _ => Some n | _ => None end.
Definition is_sexpr (s : stmt) : bool := match s with SExpr _ => true | _ => false end.

Lemma init_post_match {T} (init post : stmt) (X : bytes -> T) (Y : T) :
  match init, post with SAssign _ name _, SExpr _ => X name | _, _ => Y end =
  match assign_name init, is_sexpr post with Some name, true => X name | _, _ => Y end.
Proof. destruct init; try reflexivity; destruct post; reflexivity. Qed.

Lemma strip_assign_name s s' : strip_s s = strip_s s' -> assign_name s = assign_name s'.
Proof. destruct s, s'; cbn; intro H; try discriminate H; try reflexivity. injection H as <- _. reflexivity. Qed.
Lemma strip_is_sexpr s s' : strip_s s = strip_s s' -> is_sexpr s = is_sexpr s'.
Proof. destruct s, s'; cbn; intro H; try discriminate H; reflexivity. Qed.

Lemma bind_args_alike cx f en : forall ps ps' ln ln' ne,
  map strip_pair ps = map strip_pair ps' -> sim (bind_args cx f ln en ps ne) (bind_args cx f ln' en ps' ne).
Proof.
  induction ps as [|[k e] ps IH]; intros [|[k' e'] ps'] ln ln' ne H; cbn [map] in H; try discriminate H; cbn [bind_args]; [reflexivity|].
  unfold strip_pair in H at 1 3. cbn [fst snd] in H. injection H as <- H1 H2.
  apply sim_bind; [apply (proj1 (exprs_alike f)), H1|intro v].
  destruct (env_set ne k v); [apply IH, H2|reflexivity].
Qed.

Lemma dump_args_alike cx f en : forall args args',
  map strip_e args = map strip_e args' ->
  sim (dump_args (eval_expr cx f en) args) (dump_args (eval_expr cx f en) args').
Proof.
  induction args as [|a r IH]; intros [|a' r'] H; cbn [map] in H; try discriminate H; cbn [dump_args]; [reflexivity|].
  injection H as H1 H2. pose proof (proj1 (exprs_alike f) cx en a a' H1) as S.
  destruct (eval_expr cx f en a) as [v|ln msg| | |], (eval_expr cx f en a') as [v'|ln' msg'| | |]; cbn [sim] in S; try contradiction; try reflexivity.
  subst v'. destruct (dump_value 0 v); [|reflexivity]. apply sim_bind; [apply IH, H2|intro; reflexivity].
Qed.

Definition PS (f : nat) : Prop :=
  (forall cx en s s', strip_s s = strip_s s' -> sim (eval_stmt cx f en s) (eval_stmt cx f en s')) /\
  (forall cx en ss ss' acc, map strip_s ss = map strip_s ss' -> sim (eval_block cx f en ss acc) (eval_block cx f en ss' acc)) /\
  (forall cx en alts alts' alt alt', map strip_alt alts = map strip_alt alts' -> strip_o alt = strip_o alt' ->
     sim (eval_alts cx f en alts alt) (eval_alts cx f en alts' alt')) /\
  (forall cx en ss ss' out, map strip_s ss = map strip_s ss' -> sim (eval_program cx f en ss out) (eval_program cx f en ss' out)) /\
  (forall cx ln ln' init init' c c' post post' body body' en out,
     strip_s init = strip_s init' -> strip_e c = strip_e c' -> strip_s post = strip_s post' -> map strip_s body = map strip_s body' ->
     sim (for_loop cx f ln init c post body en out) (for_loop cx f ln' init' c' post' body' en out)) /\
  (forall cx ln ln' var body body' len i elems en out, map strip_s body = map strip_s body' ->
     sim (each_loop cx f ln var body len i elems en out) (each_loop cx f ln' var body' len i elems en out)).

Lemma strip_o_cases o o' : strip_o o = strip_o o' ->
  match o, o' with Some l, Some l' => map strip_s l = map strip_s l' | None, None => True | _, _ => False end.
Proof. destruct o, o'; cbn; intro H; try discriminate H; [injection H as H; exact H|exact I]. Qed.

Lemma stmts_alike : forall f, PS f.
Proof.
  induction f as [|f (IHs & IHb & IHa & IHp & IHf & IHl)]; [repeat split; intros; exact I|].
  destruct (exprs_alike f) as (IHe & IHes & IHps).
  assert (Cond : forall cx en c c', strip_e c = strip_e c' ->
            sim (match c with ENull => Ok true | _ => let! cv := eval_expr cx f en c in Ok (truthy cv) end)
                (match c' with ENull => Ok true | _ => let! cv := eval_expr cx f en c' in Ok (truthy cv) end)).
  { intros cx en c c' H. destruct (strip_e_null c c' H) as [[-> ->]|[N N']]; [reflexivity|].
    rewrite (e_match c _ _ N), (e_match c' _ _ N'). apply sim_bind; [apply IHe, H|intro; reflexivity]. }
  assert (Blk : forall cx en ss ss', map strip_s ss = map strip_s ss' ->
            sim (let! r := eval_block cx f en ss [] in Ok (fst r, tl (snd r))) (let! r := eval_block cx f en ss' [] in Ok (fst r, tl (snd r)))).
  { intros cx en ss ss' H. apply sim_bind; [apply IHb, H|intro; reflexivity]. }
  split; [|split; [|split; [|split; [|split]]]].
  - (* eval_stmt *)
    intros cx en s s' H.
    destruct s as [ | ln lit | e | ln name v | ln c thn alts alt | ln init c post body alt | ln var arr body alt | ln name layout
                  | ln rid name ins | ln name arg body | ln c | ln c | | | ln cid name arg slots block | ln name body | ln args ],
             s' as [ | ln0 lit0 | e0 | ln0 name0 v0 | ln0 c0 thn0 alts0 alt0 | ln0 init0 c0 post0 body0 alt0 | ln0 var0 arr0 body0 alt0
                   | ln0 name0 layout0 | ln0 rid0 name0 ins0 | ln0 name0 arg0 body0 | ln0 c0 | ln0 c0 | | | ln0 cid0 name0 arg0 slots0 block0
                   | ln0 name0 body0 | ln0 args0 ];
      cbn [strip_s] in H; try discriminate H; cbn [eval_stmt]; try exact I; try reflexivity.
    + (* html *) injection H as <-. reflexivity.
    + (* expr *) injection H as H. apply sim_bind; [apply IHe, H|intro; reflexivity].
    + (* assign *) injection H as <- H. apply sim_bind; [apply IHe, H|intro vv]. destruct (env_set en name vv); reflexivity.
    + (* if *) injection H as H1 H2 H3 H4. apply sim_bind; [apply IHe, H1|intro cv].
      destruct (truthy cv); [apply Blk, H2|apply IHa; [exact H3|exact H4]].
    + (* for *) injection H as H1 H2 H3 H4 H5. cbv zeta.
      apply sim_bind.
      { destruct (strip_s_null init init0 H1) as [[-> ->]|[N N']]; [reflexivity|].
        rewrite (s_match init _ _ N), (s_match init0 _ _ N'). apply IHs, H1. }
      intro r0. apply sim_bind; [apply Cond, H2|intro enter].
      pose proof (strip_o_cases _ _ H5) as HC.
      destruct enter; destruct alt as [a|], alt0 as [a0|]; try contradiction;
        try (apply sim_bind; [apply IHf; assumption|intro; reflexivity]).
      apply Blk, HC.
    + (* each *) injection H as <- H2 H3 H4. cbv zeta. apply sim_bind; [apply IHe, H2|intro av].
      destruct av; try reflexivity.
      pose proof (strip_o_cases _ _ H4) as HC.
      destruct l; destruct alt as [a|], alt0 as [a0|]; try contradiction;
        try (apply sim_bind; [apply IHl; assumption|intro; reflexivity]).
      apply Blk, HC.
    + (* use *) injection H as <- H. destruct layout as [[[a b] l]|], layout0 as [[[a0 b0] l0]|]; try discriminate H; [|reflexivity].
      injection H as <- <- H. destruct (a && b); [reflexivity|].
      apply sim_bind; [apply IHp, H|intro; reflexivity].
    + (* reserve *) injection H as _ _ H. destruct ins as [[[iln arg] b]|], ins0 as [[[iln0 arg0] b0]|]; try discriminate H; [|reflexivity].
      injection H as H1 H2. pose proof (strip_o_cases _ _ H2) as HC.
      destruct b as [b|], b0 as [b0|]; try contradiction.
      * apply sim_bind; [apply IHb, HC|intro; reflexivity].
      * destruct (strip_e_null arg arg0 H1) as [[-> ->]|[N N']]; [reflexivity|].
        rewrite (e_match arg _ _ N), (e_match arg0 _ _ N'). apply sim_bind; [apply IHe, H1|intro; reflexivity].
    + (* breakif *) injection H as H. apply sim_bind; [apply IHe, H|intro; reflexivity].
    + (* continueif *) injection H as H. apply sim_bind; [apply IHe, H|intro; reflexivity].
    + (* component *) injection H as _ <- H2 H4. pose proof (strip_o_cases _ _ H4) as HC.
      destruct block as [ss|], block0 as [ss0|]; try contradiction; [|reflexivity].
      apply sim_bind.
      { destruct arg as [a|], arg0 as [a0|]; try discriminate H2; [|reflexivity].
        injection H2 as H2. destruct a, a0; cbn [strip_e] in H2; try discriminate H2; try exact I.
        injection H2 as H2. apply bind_args_alike. apply asort_strip. exact H2. }
      intro en1. apply sim_bind; [apply IHp, HC|intro; reflexivity].
    + (* slot *) injection H as _ H. pose proof (strip_o_cases _ _ H) as HC.
      destruct body as [b|], body0 as [b0|]; try contradiction; [|reflexivity].
      apply sim_bind; [apply IHb, HC|intro; reflexivity].
    + (* dump *) injection H as H. apply sim_bind; [apply dump_args_alike, H|intro; reflexivity].
  - (* eval_block *)
    intros cx en ss ss' acc H. destruct ss, ss'; cbn [map] in H; try discriminate H; cbn [eval_block]; [reflexivity|].
    injection H as H1 H2. apply sim_bind; [apply IHs, H1|intro r]. cbv zeta.
    destruct (has_break (fst r) || has_continue (fst r)); [reflexivity|apply IHb, H2].
  - (* eval_alts *)
    intros cx en alts alts' alt alt' H Ho.
    destruct alts as [|[c b] alts], alts' as [|[c' b'] alts']; cbn [map] in H; try discriminate H; cbn [eval_alts].
    + pose proof (strip_o_cases _ _ Ho) as HC. destruct alt, alt'; try contradiction; [apply Blk, HC|reflexivity].
    + unfold strip_alt in H at 1 3. cbn [fst snd] in H. injection H as H1 H2 H3.
      apply sim_bind; [apply IHe, H1|intro cv]. destruct (truthy cv); [apply Blk, H2|apply IHa; assumption].
  - (* eval_program *)
    intros cx en ss ss' out H. destruct ss, ss'; cbn [map] in H; try discriminate H; cbn [eval_program]; [reflexivity|].
    injection H as H1 H2. apply sim_bind; [apply IHs, H1|intro r].
    apply sim_bind; [apply sim_refl|intro str]. apply IHp, H2.
  - (* for_loop *)
    intros cx ln ln' init init' c c' post post' body body' en out Hi Hc Hp Hb. cbn [for_loop].
    apply sim_bind; [apply Cond, Hc|intro go]. destruct (negb go); [reflexivity|].
    apply sim_bind; [apply IHb, Hb|intro r]. apply sim_bind; [apply sim_refl|intro str]. cbv zeta.
    destruct (has_break (fst r)); [reflexivity|].
    destruct (strip_s_null post post' Hp) as [[-> ->]|[N N']]; [apply IHf; assumption|].
    rewrite (s_match post _ _ N), (s_match post' _ _ N').
    apply sim_bind; [apply IHs, Hp|intro pr].
    rewrite !init_post_match. rewrite (strip_assign_name _ _ Hi), (strip_is_sexpr _ _ Hp).
    destruct (assign_name init') as [name|]; [|apply IHf; assumption].
    destruct (is_sexpr post'); [|apply IHf; assumption].
    destruct (env_set (snd pr) name (fst pr)); [apply IHf; assumption|reflexivity].
  - (* each_loop *)
    intros cx ln ln' var body body' len i elems en out Hb. cbn [each_loop].
    destruct elems as [|x elems]; [reflexivity|].
    destruct (env_set en var x); [|reflexivity]. cbv zeta.
    apply sim_bind; [apply IHb, Hb|intro r]. apply sim_bind; [apply sim_refl|intro str].
    destruct (has_break (fst r)); [reflexivity|apply IHl, Hb].
Qed.

(* ---------- the statement for whole programs *)
Theorem lines_do_not_matter cx f en ss ss' out :
  map strip_s ss = map strip_s ss' -> sim (eval_program cx f en ss out) (eval_program cx f en ss' out).
Proof. apply (stmts_alike f). Qed.

Theorem expression_lines_do_not_matter cx f en e e' :
  strip_e e = strip_e e' -> sim (eval_expr cx f en e) (eval_expr cx f en e').
Proof. apply (exprs_alike f). Qed.
