(* C08: the whole token stream.  lex_all - the model of the parser pulling NextToken until the
   lexer repeats itself - returns for every input, and the list it returns ends in EOF or
   ILLEGAL, which is the hypothesis of ParseTotal.parse_tokens_total.

   Every NextToken call consumes input, or returns EOF, or returns an ILLEGAL token for a
   character it did not consume and then returns exactly that token again (illegalToken does
   not advance): this last fact is what justifies the parser model's repeat-last view of the
   token stream. *)
From Coq Require Import String Lia.
From TW Require Import Bytes GenToken Lexer Positions LexerPos LexTotal LexerTokens.
Open Scope N_scope.

Definition Prog (l : lexer) (t : token) (l' : lexer) : Prop :=
  (lpos l < lpos l')%nat \/ ttype t = T_EOF \/
  (ttype t = T_ILLEGAL /\ forall f, nextToken (S f) l' = Some (t, l')).

Lemma prog_weaken l0 l t l' : (lpos l0 <= lpos l)%nat -> Prog l t l' -> Prog l0 t l'.
Proof. intros Hle [H|[H|H]]; [left; lia|right; left; exact H|right; right; exact H]. Qed.

Lemma tok_strict input l t l' :
  Tok input l t l' -> ttype t <> T_EOF -> ttype t <> T_ILLEGAL -> (lpos l < lpos l')%nat.
Proof.
  intros (_ & _ & s & e & _ & _ & A & B & [C|[_ [C|C]]]) N1 N2; [lia|congruence|congruence].
Qed.

Lemma newToken_type l ty lit : ttype (newToken l ty lit) = ty.
Proof. unfold newToken. destruct (tok_eqb ty T_EOF); reflexivity. Qed.

Lemma fixed_lpos input l k ty lit : Inv input l -> lpos (snd (fixedToken l k ty lit)) = (lpos l + k)%nat.
Proof.
  intro H. unfold fixedToken. cbn [snd].
  destruct (adv_readN input k (tokenBegins l) (tokenBegins_inv _ _ H)) as [_ B]. exact B.
Qed.

(* whitespace skipping stops at a character that is not whitespace, and keeps the mode *)
Lemma skipWs_not_ws r : forall l, (List.length (rest l) <= List.length r)%nat -> isWs (cur (skipWs r l)) = false.
Proof.
  induction r as [|c r IH]; intros l Hl; cbn [skipWs].
  - unfold cur. destruct (rest l); [reflexivity|cbn in Hl; lia].
  - destruct (isWs (cur l)) eqn:E; [|exact E]. apply IH. unfold readChar; cbn [rest].
    destruct (rest l); cbn in *; lia.
Qed.

Lemma skipWs_isHTML r : forall l, isHTML (skipWs r l) = isHTML l.
Proof.
  induction r as [|c r IH]; intros l; cbn [skipWs]; [reflexivity|].
  destruct (isWs (cur l)); [|reflexivity]. rewrite IH. reflexivity.
Qed.

Lemma skipWhitespace_fixed l : isWs (cur l) = false -> skipWhitespace (tokenBegins l) = tokenBegins l.
Proof.
  intro H. unfold skipWhitespace. change (rest (tokenBegins l)) with (rest l).
  destruct (rest l) as [|c r]; cbn [skipWs]; [reflexivity|].
  change (cur (tokenBegins l)) with (cur l). rewrite H. reflexivity.
Qed.

Lemma readString_strict input l : Inv input l -> (lpos l < lpos (snd (readString l)))%nat.
Proof.
  intro H. unfold readString.
  pose proof (adv_read input (tokenBegins l) (tokenBegins_inv _ _ H)) as A0.
  pose proof (adv_read_strict input (tokenBegins l) (tokenBegins_inv _ _ H)) as S0. cbn [lpos tokenBegins] in S0.
  set (l0 := readChar (tokenBegins l)) in *. pose proof (adv_inv _ _ _ A0) as H0.
  destruct (cur l0 =? cur l); cbn [fst snd].
  - pose proof (adv_read_strict input l0 H0). lia.
  - pose proof (readString_adv input (rest l0) l0 (cur l) [] H0) as A1.
    destruct (readString_loop (rest l0) l0 (cur l) []) as [l1 acc]. cbn [fst snd] in A1 |- *.
    assert (Hle1 : (lpos l0 <= lpos l1)%nat) by (destruct A1 as (_ & _ & _ & X); exact X).
    destruct (cur l1 =? cur l); cbn [fst snd]; [|lia].
    pose proof (adv_read_strict input l1 (adv_inv _ _ _ A1)). lia.
Qed.

(* tokenBegins only resets the token start, which every token constructor resets again *)
Lemma tb_idem l : tokenBegins (tokenBegins l) = tokenBegins l.
Proof. reflexivity. Qed.
Lemma tb_fixed l k ty lit: fixedToken (tokenBegins l) k ty lit = fixedToken l k ty lit.
Proof. reflexivity. Qed.
Lemma tb_fixed2 l k ty lit p b: fixedToken (setCounts (tokenBegins l) p b) k ty lit = fixedToken (setCounts l p b) k ty lit.
Proof. reflexivity. Qed.
Lemma tb_string l : readString (tokenBegins l) = readString l.
Proof. reflexivity. Qed.
Lemma tb_ident l : readIdentifier (tokenBegins l) = readIdentifier l.
Proof. reflexivity. Qed.
Lemma tb_number l : readNumber (tokenBegins l) = readNumber l.
Proof. reflexivity. Qed.
Lemma tb_illegal l : illegalToken (tokenBegins l) = illegalToken l.
Proof. reflexivity. Qed.
Lemma tb_embedded l : embeddedCodeToken (tokenBegins l) = embeddedCodeToken l.
Proof. unfold embeddedCodeToken.
 change (cur (tokenBegins l)) with (cur l). change (peekChar (tokenBegins l)) with (peekChar l).
 change (isDirective (tokenBegins l)) with (isDirective l).
 change (parenCount (tokenBegins l)) with (parenCount l). change (braceCount (tokenBegins l)) with (braceCount l).
 rewrite tb_string, tb_ident, tb_number, tb_illegal.
 destruct (simpleLookup (cur l)); [reflexivity|].
 destruct (cur l =? 123); [reflexivity|].
 destruct (cur l =? 125); [reflexivity|].
 destruct (cur l =? 40); [destruct (isDirective l); reflexivity|].
 destruct (cur l =? 41).
 { destruct (isDirective l) eqn:Ed.
   - cbn [isDirective parenCount setCounts tokenBegins]. rewrite Ed. cbn [andb].
     destruct (parenCount l - 1 =? 0)%Z; reflexivity.
   - rewrite Ed. cbn [andb]. change (isDirective (tokenBegins l)) with (isDirective l). rewrite Ed. reflexivity. }
 destruct ((cur l =? 34) || (cur l =? 39)); [reflexivity|].
 repeat match goal with |- context [if ?b then _ else _] => destruct b end; reflexivity.
Qed.

(* inside {{ }}: every token consumes input except the ILLEGAL token for an unknown character,
   and that one comes back unchanged from the next call *)
Lemma embedded_prog input l :
  Inv input l -> isHTML l = false -> isWs (cur l) = false -> (cur l =? 0) = false ->
  (cur l =? 123) && (peekChar l =? 123) = false ->
  negb (isHTML l) && (cur l =? 125) && (peekChar l =? 125) && (braceCount l =? 0)%Z = false ->
  Prog l (fst (embeddedCodeToken l)) (snd (embeddedCodeToken l)).
Proof.
  intros H Hh Hw E0 Eb Er.
  assert (R : forall f, nextToken (S f) (tokenBegins l) = Some (embeddedCodeToken l)).
  { intro f. cbn [nextToken]. change (isHTML (tokenBegins l)) with (isHTML l). rewrite Hh.
    rewrite (skipWhitespace_fixed l Hw).
    change (cur (tokenBegins l)) with (cur l). change (peekChar (tokenBegins l)) with (peekChar l).
    change (isHTML (tokenBegins l)) with (isHTML l). change (braceCount (tokenBegins l)) with (braceCount l).
    rewrite E0, Eb, Er, Hh. cbn [negb]. rewrite tb_embedded. reflexivity. }
  unfold embeddedCodeToken in *.
  destruct (simpleLookup (cur l)) as [t|].
  { left. rewrite (fixed_lpos input); [lia|exact H]. }
  destruct (cur l =? 123).
  { left. rewrite (fixed_lpos input); [cbn; lia|apply setCounts_inv, H]. }
  destruct (cur l =? 125).
  { left. rewrite (fixed_lpos input); [cbn; lia|apply setCounts_inv, H]. }
  destruct (cur l =? 40).
  { left. destruct (isDirective l); (rewrite (fixed_lpos input); [cbn; lia|try apply setCounts_inv; exact H]). }
  destruct (cur l =? 41).
  { left.
    set (l1 := if isDirective l then setCounts l (parenCount l - 1)%Z (braceCount l) else l) in *.
    assert (H1 : Inv input l1 /\ lpos l1 = lpos l) by (subst l1; destruct (isDirective l); split; try reflexivity; try exact H; apply setCounts_inv, H).
    destruct H1 as [H1 P1].
    set (l2 := if isDirective l1 && (parenCount l1 =? 0)%Z then setModes l1 true false else l1) in *.
    assert (H2 : Inv input l2 /\ lpos l2 = lpos l1) by (subst l2; destruct (isDirective l1 && _); split; try reflexivity; try exact H1; apply setModes_inv, H1).
    destruct H2 as [H2 P2].
    rewrite (fixed_lpos input); [lia|exact H2]. }
  destruct ((cur l =? 34) || (cur l =? 39)).
  { left. pose proof (readString_strict input l H) as Hs.
    destruct (readString l) as [[s term] l1]. cbn [fst snd] in Hs |- *. exact Hs. }
  destruct (cur l =? 60); [left; destruct (peekChar l =? 61); (rewrite (fixed_lpos input); [lia|exact H])|].
  destruct (cur l =? 62); [left; destruct (peekChar l =? 61); (rewrite (fixed_lpos input); [lia|exact H])|].
  destruct (cur l =? 33); [left; destruct (peekChar l =? 61); (rewrite (fixed_lpos input); [lia|exact H])|].
  destruct (cur l =? 45); [left; destruct (peekChar l =? 45); (rewrite (fixed_lpos input); [lia|exact H])|].
  destruct (cur l =? 43); [left; destruct (peekChar l =? 43); (rewrite (fixed_lpos input); [lia|exact H])|].
  destruct (cur l =? 61); [left; destruct (peekChar l =? 61); (rewrite (fixed_lpos input); [lia|exact H])|].
  destruct (isIdent (cur l)) eqn:Ei.
  { left. unfold readIdentifier.
    pose proof (ident_strict input (tokenBegins l) (tokenBegins_inv _ _ H) Ei) as S1.
    destruct (readIdent_loop (rest (tokenBegins l)) (tokenBegins l) []) as [l1 acc]. cbn [fst snd] in *.
    exact S1. }
  destruct (isNumber (cur l)) eqn:En.
  { left. unfold readNumber.
    pose proof (number_strict input (tokenBegins l) (tokenBegins_inv _ _ H) En) as S1.
    destruct (readNumber_loop (rest (tokenBegins l)) (tokenBegins l) [] true) as [[l1 acc] isInt]. cbn [fst snd] in *.
    exact S1. }
  right. right. split; [reflexivity|]. exact R.
Qed.

Lemma isDirectiveToken_at l : fst (isDirectiveToken l) = true -> cur l = 64.
Proof.
  unfold isDirectiveToken. destruct (cur l =? 64) eqn:E; cbn [negb fst]; [intros _; apply N.eqb_eq, E|discriminate].
Qed.

Lemma directive_prog input l :
  Inv input l -> cur l = 64 -> (lpos l < lpos (snd (directiveToken l)))%nat.
Proof.
  intros H E64. unfold directiveToken. rewrite E64. change (negb (64 =? 64)) with false. cbv iota.
  unfold readDirective.
  pose proof (directive_strict input (tokenBegins l) (tokenBegins_inv _ _ H) E64) as S1.
  destruct (readDirective_loop (rest (tokenBegins l)) (tokenBegins l) [] T_ILLEGAL) as [[l1 kw] t]. cbn [fst snd] in S1.
  cbn [lpos tokenBegins] in S1.
  destruct (tok_eqb t T_ILLEGAL); cbn [snd illegalToken lpos tokenBegins setModes]; exact S1.
Qed.

Theorem nextToken_prog input fuel : forall l t l',
  Inv input l -> nextToken fuel l = Some (t, l') -> Prog l t l'.
Proof.
  induction fuel as [|f IH]; intros l t l' H; [discriminate|]. cbn [nextToken].
  set (l1 := if isHTML l then l else skipWhitespace l).
  assert (A1 : Adv input l l1).
  { subst l1. destruct (isHTML l); [apply adv_refl, H|apply skipWs_adv, H]. }
  pose proof (adv_inv _ _ _ A1) as H1.
  assert (Hle : (lpos l <= lpos l1)%nat) by (destruct A1 as (_ & _ & _ & X); exact X).
  destruct (cur l1 =? 0) eqn:E0.
  { intros [= <- <-]. right. left. apply newToken_type. }
  destruct ((cur l1 =? 123) && (peekChar l1 =? 123)) eqn:Eb.
  { unfold bracesToken. unfold fixedToken.
    set (l1' := setModes l1 (negb (tok_eqb T_LBRACES T_LBRACES)) (isDirective l1)) in *.
    assert (H1' : Inv input l1') by (apply setModes_inv, H1).
    destruct (adv_readN input 2 (tokenBegins l1') (tokenBegins_inv _ _ H1')) as [A2 P2].
    set (l2 := readN 2 (tokenBegins l1')) in *.
    assert (P2' : lpos l2 = (lpos l1 + 2)%nat) by (rewrite P2; reflexivity).
    destruct ((cur l2 =? 45) && (peekChar l2 =? 45)).
    - unfold skipComment.
      pose proof (skipComment_adv input (rest l2) l2 (adv_inv _ _ _ A2)) as A3.
      set (l3 := skipComment_loop (rest l2) l2) in *.
      pose proof (adv_modes input l3 true (isDirective l3) (adv_inv _ _ _ A3)) as A4.
      set (l4 := setModes l3 true (isDirective l3)) in *.
      assert (X4 : (lpos l2 <= lpos l4)%nat).
      { destruct A3 as (_ & _ & _ & X3). destruct A4 as (_ & _ & _ & X4). lia. }
      destruct (cur l4 =? 0).
      + intros [= <- <-]. left. lia.
      + destruct (adv_readN input 4 l4 (adv_inv _ _ _ A4)) as [A5 P5].
        intro Hn. apply IH in Hn; [|exact (adv_inv _ _ _ A5)].
        apply (prog_weaken l (readN 4 l4)); [lia|exact Hn].
    - intros [= <- <-]. left. lia. }
  destruct (negb (isHTML l1) && (cur l1 =? 125) && (peekChar l1 =? 125) && (braceCount l1 =? 0)%Z) eqn:Er.
  { intro E. unfold bracesToken in E.
    pose proof (fixed_lpos input (setModes l1 (negb (tok_eqb T_RBRACES T_LBRACES)) (isDirective l1)) 2 T_RBRACES [125; 125]
                           (setModes_inv _ _ _ _ H1)) as P.
    destruct (fixedToken (setModes l1 (negb (tok_eqb T_RBRACES T_LBRACES)) (isDirective l1)) 2 T_RBRACES [125; 125]) as [t0 l0].
    inversion E; subst t0 l0. cbn [snd lpos setModes] in P. left. lia. }
  destruct (negb (isHTML l1)) eqn:Eh.
  { intro E. apply negb_true_iff in Eh.
    assert (Hh : isHTML l = false).
    { subst l1. destruct (isHTML l) eqn:X; [congruence|reflexivity]. }
    assert (Hw : isWs (cur l1) = false).
    { subst l1. rewrite Hh. unfold skipWhitespace. apply skipWs_not_ws. lia. }
    pose proof (embedded_prog input l1 H1 Eh Hw E0 Eb) as Ht.
    rewrite Eh in Ht. cbn [negb] in Ht. specialize (Ht Er).
    destruct (embeddedCodeToken l1) as [t0 l0]. inversion E; subst t0 l0. cbn [fst snd] in Ht.
    apply (prog_weaken l l1); [lia|exact Ht]. }
  destruct (fst (isDirectiveToken l1)) eqn:Ed.
  { intro E. pose proof (directive_prog input l1 H1 (isDirectiveToken_at l1 Ed)) as Ht.
    destruct (directiveToken l1) as [t0 l0]. inversion E; subst t0 l0. cbn [fst snd] in Ht.
    left. lia. }
  apply negb_false_iff in Eh. apply N.eqb_neq in E0.
  pose proof (html_tok input l1 H1 Eh E0 Eb Ed) as Ht.
  destruct (readHTML l1) as [s l2]. cbn [fst snd] in Ht. intros [= <- <-].
  left. apply (tok_strict input) in Ht; [lia|rewrite newToken_type; discriminate|rewrite newToken_type; discriminate].
Qed.

(* ---------- the token loop *)
Lemma nextToken_eof_at_end fuel l t l' : rest l = [] -> nextToken (S fuel) l = Some (t, l') -> ttype t = T_EOF.
Proof.
  intros Hr. cbn [nextToken].
  assert (E : (if isHTML l then l else skipWhitespace l) = l).
  { destruct (isHTML l); [reflexivity|]. unfold skipWhitespace. rewrite Hr. reflexivity. }
  rewrite E. unfold cur at 1. rewrite Hr. cbn [hd]. change (0 =? 0) with true. cbv iota.
  intros [= <- _]. apply newToken_type.
Qed.

Lemma remaining_skipn input l : Inv input l -> remaining l = (List.length input - lpos l)%nat.
Proof. intros (Hr & _). unfold remaining. rewrite Hr. apply skipn_length. Qed.

Lemma token_eqb_refl t : token_eqb t t = true.
Proof.
  unfold token_eqb, tok_eqb. rewrite !Nat.eqb_refl, bytes_eqb_refl. reflexivity.
Qed.

Lemma lex_loop_total input : forall fuel l prev,
  Inv input l -> (remaining l + 2 <= fuel)%nat -> lex_loop fuel l prev <> None.
Proof.
  induction fuel as [|f IH]; intros l prev H B; [lia|]. cbn [lex_loop].
  destruct (nextTok l) as [[t l']|] eqn:En; [|exfalso; exact (nextTok_total l En)].
  pose proof (next_tok_exact input l t l' H En) as (H' & _).
  pose proof (nextToken_prog input _ l t l' H En) as P.
  destruct (tok_eqb (ttype t) T_EOF) eqn:Ee; [discriminate|].
  destruct (tok_eqb (ttype t) T_ILLEGAL && match prev with Some p => token_eqb p t | None => false end); [discriminate|].
  assert (N : lex_loop f l' (Some t) <> None).
  { destruct P as [S1|[Et|[Et R]]].
    - apply IH; [exact H'|].
      rewrite (remaining_skipn input l H) in B. rewrite (remaining_skipn input l' H').
      assert (Hr : rest l <> []).
      { intro Hr. unfold nextTok in En. rewrite (nextToken_eof_at_end _ l t l' Hr En) in Ee. discriminate Ee. }
      assert (0 < remaining l)%nat by (unfold remaining; destruct (rest l); [congruence|cbn; lia]).
      rewrite (remaining_skipn input l H) in *. lia.
    - rewrite Et in Ee. discriminate Ee.
    - destruct f as [|f']; [lia|]. cbn [lex_loop]. unfold nextTok. rewrite R. rewrite Ee.
      rewrite Et. change (tok_eqb T_ILLEGAL T_ILLEGAL) with true. rewrite token_eqb_refl. discriminate. }
  destruct (lex_loop f l' (Some t)); [discriminate|congruence].
Qed.

(* ---------- the shape of the list: it ends in EOF or ILLEGAL *)
From TW Require Import Ast Parser ParseTotal.

Lemma token_eqb_type p t : token_eqb p t = true -> ttype p = ttype t.
Proof.
  unfold token_eqb. intro H. repeat (apply andb_true_iff in H as [H _]). apply tok_eqb_eq, H.
Qed.

Lemma lex_loop_tinv : forall fuel l prev ts,
  lex_loop fuel l prev = Some ts ->
  (ts = [] /\ exists p, prev = Some p /\ ttype p = T_ILLEGAL) \/ tinv ts = true.
Proof.
  induction fuel as [|f IH]; intros l prev ts; [discriminate|]. cbn [lex_loop].
  destruct (nextTok l) as [[t l']|]; [|discriminate].
  destruct (tok_eqb (ttype t) T_EOF) eqn:Ee.
  { intros [= <-]. right. cbn [tinv]. unfold is_termT. rewrite Ee. reflexivity. }
  destruct (tok_eqb (ttype t) T_ILLEGAL) eqn:Ei; cbn [andb].
  - destruct prev as [p|].
    + destruct (token_eqb p t) eqn:Ep.
      * intros [= <-]. left. split; [reflexivity|]. exists p. split; [reflexivity|].
        rewrite (token_eqb_type p t Ep). apply tok_eqb_eq, Ei.
      * destruct (lex_loop f l' (Some t)) as [ts'|] eqn:El; [|discriminate]. intros [= <-]. right.
        destruct (IH _ _ _ El) as [[-> _]|T]; cbn [tinv].
        -- unfold is_termT. rewrite Ei. apply orb_true_r.
        -- destruct ts'; [discriminate T|exact T].
    + destruct (lex_loop f l' (Some t)) as [ts'|] eqn:El; [|discriminate]. intros [= <-]. right.
      destruct (IH _ _ _ El) as [[-> _]|T]; cbn [tinv].
      * unfold is_termT. rewrite Ei. apply orb_true_r.
      * destruct ts'; [discriminate T|exact T].
  - destruct (lex_loop f l' (Some t)) as [ts'|] eqn:El; [|discriminate]. intros [= <-]. right.
    destruct (IH _ _ _ El) as [[-> (p & [= <-] & Tp)]|T]; cbn [tinv].
    + rewrite Tp in Ei. discriminate Ei.
    + destruct ts'; [discriminate T|exact T].
Qed.

(* lexing always returns, and what it returns ends in EOF or ILLEGAL *)
Theorem lex_all_total input : exists ts, lex_all input = Some ts /\ tinv ts = true.
Proof.
  unfold lex_all.
  destruct (lex_loop (List.length input + 3) (newLexer input) None) as [ts|] eqn:E.
  - exists ts. split; [reflexivity|].
    destruct (lex_loop_tinv _ _ _ _ E) as [[_ (p & X & _)]|T]; [discriminate X|exact T].
  - exfalso. revert E. apply (lex_loop_total input); [apply newLexer_inv|].
    unfold remaining. cbn [rest newLexer]. lia.
Qed.

(* C08: for every byte string, lexing and parsing return, and end in a program with no
   recorded errors or in at least one error, each carrying a line number >= 1 *)
Theorem parse_source_total src :
  (exists p, parse_source src = ParsedOk p) \/
  (exists es, parse_source src = ParseErrors es /\ es <> [] /\ errs_ok es).
Proof.
  unfold parse_source. destruct (lex_all_total src) as (ts & -> & T). exact (parse_tokens_total ts T).
Qed.

(* ---------- an input on which the lexer stops at an illegal character is rejected *)
Lemma lex_loop_neof : forall fuel l prev ts,
  lex_loop fuel l prev = Some ts ->
  neof ts \/ exists pre t, ts = pre ++ [t] /\ ttype t = T_EOF.
Proof.
  induction fuel as [|f IH]; intros l prev ts; [discriminate|]. cbn [lex_loop].
  destruct (nextTok l) as [[t l']|]; [|discriminate].
  destruct (tok_eqb (ttype t) T_EOF) eqn:Ee.
  { intros [= <-]. right. exists [], t. split; [reflexivity|apply tok_eqb_eq, Ee]. }
  destruct (tok_eqb (ttype t) T_ILLEGAL && match prev with Some p => token_eqb p t | None => false end).
  { intros [= <-]. left. constructor. }
  destruct (lex_loop f l' (Some t)) as [ts'|] eqn:El; [|discriminate]. intros [= <-].
  destruct (IH _ _ _ El) as [N|(pre & e & -> & Te)].
  - left. constructor; [exact Ee|exact N].
  - right. exists (t :: pre), e. split; [reflexivity|exact Te].
Qed.

Theorem stuck_lexer_is_rejected src ts :
  lex_all src = Some ts -> ttype (last ts eofTok) = T_ILLEGAL ->
  exists es, parse_source src = ParseErrors es /\ es <> [].
Proof.
  intros E L. unfold parse_source. rewrite E.
  destruct (lex_all_total src) as (ts0 & E0 & T). rewrite E in E0. injection E0 as <-.
  apply parse_tokens_rejects_without_eof; [exact T|].
  unfold lex_all in E. destruct (lex_loop_neof _ _ _ _ E) as [N|(pre & e & -> & Te)]; [exact N|].
  rewrite last_last in L. congruence.
Qed.
